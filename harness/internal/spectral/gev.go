package spectral

import (
	"encoding/json"
	"math"
	"math/big"
	"math/cmplx"

	"gonum.org/v1/gonum/blas/blas64"
	"gonum.org/v1/gonum/lapack"
	"gonum.org/v1/gonum/lapack/lapack64"
	"gonum.org/v1/gonum/mat"

	"gonum.org/v1/gonum/verifharness/internal/core"
)

func init() { families["gev"] = gevFamily }

// gevMatch finds the planted eigenvalue (re, im >= 0) within the tolerance of (wr, |wi|).
// The planted eigenvalues are integers at mutual distance >= 1 and the tolerance is checked to be
// < 1/4, so at most one matches.
func (k *chk) gevMatch(c *inst, wr, wi float64) int {
	for t, e := range c.Ev {
		ok1, _, r1 := near(wr, val(e.Re, 1, k.sce), k.tol)
		ok2, _, r2 := near(math.Abs(wi), val(e.Im, 1, k.sce), k.tol)
		if ok1 && ok2 {
			k.note("values", math.Max(r1, r2))
			return t
		}
	}
	return -1
}

// gevValues checks the documented order rule (conjugate pairs adjacent, positive imaginary part
// first, exactly conjugate) and the multiset of eigenvalues against the exact spectrum.
// It returns for each computed eigenvalue the index of the planted one (-1: none).
func (k *chk) gevValues(routine string, c *inst, wr, wi []float64) []int {
	n := c.N
	if k.tol.Cmp(new(big.Rat).Mul(big.NewRat(1, 4), pow2(k.sce))) >= 0 {
		k.sum.Count("skipped_tolerance_too_large", 1)
		return nil
	}
	for j := 0; j < n; j++ {
		switch {
		case wi[j] > 0:
			if j+1 >= n || wr[j+1] != wr[j] || wi[j+1] != -wi[j] {
				k.fail(routine, "order", "eigenvalue %d = (%v, %v) has positive imaginary part but is not followed by its conjugate", j, wr[j], wi[j])
				return nil
			}
		case wi[j] < 0:
			if j == 0 || wr[j-1] != wr[j] || wi[j-1] != -wi[j] {
				k.fail(routine, "order", "eigenvalue %d = (%v, %v) has negative imaginary part but does not follow its conjugate", j, wr[j], wi[j])
				return nil
			}
		case wi[j] != wi[j]:
			k.fail(routine, "value", "wi[%d] is NaN", j)
			return nil
		}
	}
	idx := make([]int, n)
	pos := make([]int, len(c.Ev)) // count of computed values with wi >= 0 matched (wi > 0 for pairs)
	neg := make([]int, len(c.Ev))
	for j := 0; j < n; j++ {
		t := k.gevMatch(c, wr[j], wi[j])
		idx[j] = t
		k.sum.Count("values_compared", 1)
		if t < 0 {
			k.fail(routine, "value", "computed eigenvalue %d = (%v, %v) is not within the Bauer-Fike tolerance %s of any eigenvalue of the planted spectrum", j, wr[j], wi[j], k.tol.FloatString(30))
			return nil
		}
		if c.Ev[t].Im > 0 && wi[j] < 0 {
			neg[t]++
		} else {
			pos[t]++
		}
	}
	for t, e := range c.Ev {
		wantNeg := 0
		if e.Im > 0 {
			wantNeg = e.Mult
		}
		if pos[t] != e.Mult || neg[t] != wantNeg {
			k.fail(routine, "value", "planted eigenvalue (%d, +-%d) of multiplicity %d was computed %d (+) / %d (-) times", e.Re, e.Im, e.Mult, pos[t], neg[t])
			return nil
		}
	}
	return idx
}

// gevVecTol: kappa(S)^2 * backward error / gap, see the package documentation of the bound:
// 4 * kap * tol0 / gap + 30 n eps  (tol0 already holds one factor kappa).
func (k *chk) gevVecTol(kap, gap int64) *big.Rat {
	t := new(big.Rat).Mul(big.NewRat(4*kap, 1), k.tol0)
	t.Quo(t, new(big.Rat).SetInt64(gap))
	return t.Add(t, k.orth)
}

// gevVector compares one computed eigenvector (complex components got(i)) of a simple planted
// eigenvalue with the specification's integer vector er + i*ei up to the documented freedom: a
// complex scalar alpha, read off at the largest expected component; the Euclidean norm must be 1
// and (complex eigenvalues) a component of largest modulus must be real.  conj = expect the
// conjugate vector.
func (k *chk) gevVector(routine, what string, j int, e *evrec, kap int64, er, ei []int64, conj bool, got func(i int) complex128, normalized bool) {
	n := len(er)
	w := make([]complex128, n)
	var nrm2 int64
	p := 0
	best := int64(-1)
	for i := 0; i < n; i++ {
		im := int64(0)
		if len(ei) > 0 {
			im = ei[i]
			if conj {
				im = -im
			}
		}
		w[i] = complex(float64(er[i]), float64(im))
		m2 := er[i]*er[i] + im*im
		nrm2 += m2
		if m2 > best {
			best, p = m2, i
		}
	}
	g := got(p)
	if g == 0 || cmplx.IsNaN(g) {
		k.fail(routine, "vector", "%s %d: component %d is %v, specification says a non-zero multiple of %v", what, j, p, g, w[p])
		return
	}
	alpha := g / w[p]
	tol := k.gevVecTol(kap, e.Gap)
	tol2 := new(big.Rat).Mul(big.NewRat(2, 1), tol)
	var mx float64
	for i := 0; i < n; i++ {
		v := got(i)
		x := alpha * w[i]
		ok1, _, r1 := near(real(v), real(x), tol2)
		ok2, _, r2 := near(imag(v), imag(x), tol2)
		k.sum.Count("vector_components_compared", 1)
		if !ok1 || !ok2 {
			k.fail(routine, "vector", "%s %d for planted eigenvalue (%d,%d): component %d = %v, specification says alpha * %v = %v (alpha = %v read at component %d, gap %d, tolerance %s)",
				what, j, e.Re, e.Im, i, v, w[i], x, alpha, p, e.Gap, tol2.FloatString(30))
			return
		}
		k.note("vectors", math.Max(r1, r2))
		if a := real(v)*real(v) + imag(v)*imag(v); a > mx {
			mx = a
		}
	}
	if normalized {
		// |alpha|^2 * ||w||^2 = 1 up to 3 n tol
		a2 := (real(alpha)*real(alpha) + imag(alpha)*imag(alpha)) * float64(nrm2)
		ntol := new(big.Rat).Mul(big.NewRat(int64(3*n), 1), tol)
		if ok, _, _ := near(a2, 1, ntol); !ok {
			k.fail(routine, "vector-norm", "%s %d: squared Euclidean norm is %v, documented 1", what, j, a2)
			return
		}
		if len(ei) > 0 {
			found := false
			for i := 0; i < n; i++ {
				v := got(i)
				if imag(v) == 0 && real(v)*real(v) >= mx*(1-1e-10) {
					found = true
				}
			}
			if !found {
				k.fail(routine, "vector-norm", "%s %d: no component of largest modulus is real", what, j)
				return
			}
		}
	}
	k.sum.Count("vectors_compared", 1)
}

// gevFamily: planted A = S B S^-1.
func gevFamily(c *inst, raw json.RawMessage, full bool, sum *core.Summary) {
	n := c.N
	k := newChk(sum, raw, c.Tol, c.Den, c.Sce, n)
	k.empty = n == 0
	kap := int64(1)
	if len(c.Tol) >= 4 {
		kap = c.Tol[3]
	}
	count := func() {
		sum.Cases++
		if n >= 3 {
			sum.Nontrivial++
		}
		if n >= 75 {
			sum.Count("calls_above_nmin", 1)
		}
	}
	// vectors stored the Dgeev way: real columns, pairs as (re, im)
	checkVecs := func(routine string, idx []int, wi []float64, v []float64, ldv int, left bool) {
		for j := 0; j < n; j++ {
			if idx[j] < 0 || wi[j] < 0 {
				continue
			}
			e := &c.Ev[idx[j]]
			if e.Mult != 1 || len(e.Vr) == 0 {
				continue
			}
			er, ei, what := e.Vr, e.Vi, "right eigenvector"
			if left {
				er, ei, what = e.Ur, e.Ui, "left eigenvector"
			}
			j := j
			if e.Im > 0 {
				if wi[j] == 0 {
					continue // a planted pair computed as two real values within tolerance: vectors not comparable
				}
				k.gevVector(routine, what, j, e, kap, er, ei, false, func(i int) complex128 { return complex(v[i*ldv+j], v[i*ldv+j+1]) }, true)
			} else {
				if wi[j] != 0 {
					continue
				}
				k.gevVector(routine, what, j, e, kap, er, nil, false, func(i int) complex128 { return complex(v[i*ldv+j], 0) }, true)
			}
		}
	}

	if want("Dgeev") {
		for _, jobvl := range []lapack.LeftEVJob{lapack.LeftEVNone, lapack.LeftEVCompute} {
			for _, jobvr := range []lapack.RightEVJob{lapack.RightEVNone, lapack.RightEVCompute} {
				wantvl, wantvr := jobvl == lapack.LeftEVCompute, jobvr == lapack.RightEVCompute
				for _, pad := range pads {
					lda := maxi(1, n) + pad
					ldvl, ldvr := 1+pad, 1+pad
					if wantvl {
						ldvl = maxi(1, n) + pad
					}
					if wantvr {
						ldvr = maxi(1, n) + pad
					}
					minw := maxi(1, 3*n)
					if wantvl || wantvr {
						minw = maxi(1, 4*n)
					}
					mk := func() (a, wr, wi, vl, vr []float64) {
						a = build(c.A, c.Den, c.Sce, n, n, lda, 1)
						wr, wi = outVec(n, 0), outVec(n, 0) // documented: length exactly n
						vl, vr = canaryVec(2), canaryVec(2)
						if wantvl {
							vl = blank(n, n, ldvl, 1)
						}
						if wantvr {
							vr = blank(n, n, ldvr, 1)
						}
						return
					}
					a0, wr0, wi0, vl0, vr0 := mk()
					k.where = desc("Dgeev query jobvl", wantvl, "jobvr", wantvr, "n", n, "lda", lda)
					opt, ok := k.query("Dgeev", minw, func(work []float64) {
						impl.Dgeev(jobvl, jobvr, n, a0, lda, wr0, wi0, vl0, ldvl, vr0, ldvr, work, -1)
					}, a0, wr0, wi0, vl0, vr0)
					grid := lworkGrid(minw, opt, ok, lda, n)
					for _, routine := range []string{"Dgeev", "lapack64.Geev"} {
						if routine == "lapack64.Geev" && (pad != 0 || n == 0) {
							continue
						}
						for _, lw := range grid {
							lwork := lw.lwork
							if routine == "lapack64.Geev" && lw.name != "min" && lw.name != "opt" {
								continue // the wrapper only forwards lwork
							}
							if routine == "Dgeev" {
								gridNote("lwork_grid", desc("Dgeev", lw.name, "lda+"+desc(pad)))
							}
							k.where = desc(routine, "jobvl", wantvl, "jobvr", wantvr, "n", n, "lda", lda, "ldvl", ldvl, "ldvr", ldvr, "lwork", lwork, "("+lw.name+")", "sce", c.Sce)
							a, wr, wi, vl, vr := mk()
							work := newWork(lwork)
							first := -1
							ran := k.run(routine, func() {
								if routine == "Dgeev" {
									first = impl.Dgeev(jobvl, jobvr, n, a, lda, wr, wi, vl, ldvl, vr, ldvr, work, lwork)
								} else {
									vlg := blas64.General{Rows: n, Cols: n, Stride: ldvl, Data: vl}
									vrg := blas64.General{Rows: n, Cols: n, Stride: ldvr, Data: vr}
									if !wantvl {
										vlg = blas64.General{Stride: 1}
									}
									if !wantvr {
										vrg = blas64.General{Stride: 1}
									}
									first = lapack64.Geev(jobvl, jobvr, blas64.General{Rows: n, Cols: n, Stride: lda, Data: a}, wr, wi, vlg, vrg, work, lwork)
								}
							})
							count()
							if !ran {
								continue
							}
							if first != 0 {
								k.fail(routine, "ok", "returned first = %d on a planted diagonalisable matrix", first)
								continue
							}
							k.cmpPad(routine, "a", a, lda, n, n)
							if wantvl {
								k.cmpPad(routine, "vl", vl, ldvl, n, n)
							} else {
								k.cmpTail(routine, "vl (not referenced)", vl, 0)
							}
							if wantvr {
								k.cmpPad(routine, "vr", vr, ldvr, n, n)
							} else {
								k.cmpTail(routine, "vr (not referenced)", vr, 0)
							}
							idx := k.gevValues(routine, c, wr, wi)
							if idx == nil {
								continue
							}
							if wantvr {
								checkVecs(routine, idx, wi, vr, ldvr, false)
							}
							if wantvl {
								checkVecs(routine, idx, wi, vl, ldvl, true)
							}
						}
					}
				}
			}
		}
	}

	if want("Dgehrd") {
		gevPipeline(k, c, kap, count)
	}

	// ---- mat.Eigen ---------------------------------------------------------------------------
	if want("Eigen") && n >= 1 && forcedNB == 0 {
		for _, kind := range []mat.EigenKind{mat.EigenNone, mat.EigenRight, mat.EigenLeft, mat.EigenBoth} {
			k.where = desc("mat.Eigen kind", int(kind), "n", n, "sce", c.Sce)
			a := mat.NewDense(n, n, build(c.A, c.Den, c.Sce, n, n, n, 0))
			var eg mat.Eigen
			var res bool
			var vals []complex128
			var rv, lv mat.CDense
			ran := k.run("mat.Eigen", func() {
				res = eg.Factorize(a, kind)
				if res {
					vals = eg.Values(nil)
					if kind&mat.EigenRight != 0 {
						eg.VectorsTo(&rv)
					}
					if kind&mat.EigenLeft != 0 {
						eg.LeftVectorsTo(&lv)
					}
				}
			})
			count()
			if !ran {
				continue
			}
			if !res || len(vals) != n {
				k.fail("mat.Eigen", "ok", "Factorize returned %v, %d values", res, len(vals))
				continue
			}
			wr, wi := make([]float64, n), make([]float64, n)
			for j, v := range vals {
				wr[j], wi[j] = real(v), imag(v)
			}
			idx := k.gevValues("mat.Eigen", c, wr, wi)
			if idx == nil {
				continue
			}
			for j := 0; j < n; j++ {
				e := &c.Ev[idx[j]]
				if e.Mult != 1 || len(e.Vr) == 0 || (e.Im > 0) != (wi[j] != 0) {
					continue
				}
				j := j
				if kind&mat.EigenRight != 0 {
					k.gevVector("mat.Eigen", "right eigenvector", j, e, kap, e.Vr, e.Vi, wi[j] < 0, func(i int) complex128 { return rv.At(i, j) }, false)
				}
				if kind&mat.EigenLeft != 0 {
					k.gevVector("mat.Eigen", "left eigenvector", j, e, kap, e.Ur, e.Ui, wi[j] < 0, func(i int) complex128 { return lv.At(i, j) }, false)
				}
			}
		}
	}
}
