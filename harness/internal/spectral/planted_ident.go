package spectral

import (
	"math"

	"gonum.org/v1/gonum/lapack"
)

// Identities for the planted families, evaluated with the mirror functions of genpred.go
// (normative text: the last section of specs/spectral/GenPred.tla).  The planted instances have
// unique expected VALUES and unique vectors for simple values, which are compared elsewhere; what
// is checked here holds for every returned vector - also those of repeated values and the extra
// columns of U / rows of V^T for SVDAll, which have no unique expected value.

// identMax bounds the dimension up to which the exact identity is evaluated (cost: a few matrix
// products in exact arithmetic per call).
const identMax = 8

// planTau is the relative tolerance c * dim * eps with the constant c the specification printed
// as the first factor of the instance's tolerance.
func planTau(c *inst, dim int) *dy {
	cc := int64(30)
	if len(c.Tol) > 0 {
		cc = c.Tol[0]
	}
	t := dyInt(cc * int64(maxi(dim, 1)))
	t.e = -52
	return t
}

func finite(xs ...[]float64) bool {
	for _, x := range xs {
		for _, v := range x {
			if math.IsNaN(v) || math.IsInf(v, 0) {
				return false
			}
		}
	}
	return true
}

// svdIdentity evaluates GenPred!SvdAccept: orthonormal columns of U (m x ucols) and of
// V = (V^T)^T (n x vrows), and U^T*A*V = Sigma in the form the computed factors allow.
func (k *chk) svdIdentity(routine string, c *inst, u []float64, ldu, ucols int, vt []float64, ldvt, vrows int, s []float64) {
	m, n := c.M, c.N
	mn := mini(m, n)
	if maxi(m, n) > identMax || mn == 0 || !finite(s[:mn]) {
		return
	}
	a := rFromSpec(c.A, c.Den, c.Sce, m, n)
	tau := planTau(c, maxi(m, n))
	var um, vm *rmat
	aa, bb := m, n
	if ucols > 0 {
		if um = k.toR(routine, "U", u, ldu, m, ucols); um == nil {
			return
		}
		aa = ucols
	}
	if vrows > 0 {
		vtm := k.toR(routine, "VT", vt, ldvt, vrows, n)
		if vtm == nil {
			return
		}
		vm = rT(vtm)
		bb = vrows
	}
	if !k.orthoClause(routine, "", "the columns of U", um, tau) || !k.orthoClause(routine, "", "the rows of V^T", vm, tau) {
		return
	}
	k.identClause(routine, "", "U^T*A*V = Sigma", um, a, vm, sigmaM(s[:mn], aa, bb), tau)
	k.sum.Count("svd_identities", 1)
}

// symIdentity evaluates GenPred!SymAccept: Z orthogonal and Z^T*A*Z = diag(w).
func (k *chk) symIdentity(routine string, c *inst, z []float64, ldz int, w []float64) {
	n := c.N
	if n > identMax || n == 0 || !finite(w[:n]) {
		return
	}
	zm := k.toR(routine, "Z", z, ldz, n, n)
	if zm == nil {
		return
	}
	tau := planTau(c, n)
	if !k.orthoClause(routine, "", "Z", zm, tau) {
		return
	}
	k.identClause(routine, "", "Z^T*A*Z = diag(w)", zm, rFromSpec(c.A, c.Den, c.Sce, n, n), zm, sigmaM(w[:n], n, n), tau)
	k.sum.Count("sym_identities", 1)
}

// simIdentity evaluates GenPred!SimAccept: Q orthogonal and Q^T*T*Q = T' (q == nil: only the
// Frobenius norm is preserved).
func (k *chk) simIdentity(routine string, c *inst, q []float64, ldq int, tp []float64, ldt int) {
	n := c.N
	if n > identMax || n == 0 {
		return
	}
	tm := k.toR(routine, "T'", tp, ldt, n, n)
	if tm == nil {
		return
	}
	tau := planTau(c, n)
	var qm *rmat
	if q != nil {
		if qm = k.toR(routine, "Q", q, ldq, n, n); qm == nil || !k.orthoClause(routine, "", "Q", qm, tau) {
			return
		}
	}
	k.identClause(routine, "", "Q^T*T*Q = T'", qm, rFromSpec(c.A, c.Den, 0, n, n), qm, tm, tau)
	k.sum.Count("similarity_identities", 1)
}

// lanv2Identity evaluates GenPred!Lanv2Accept: [a b; c d] = G*[aa bb; cc dd]*G^T with
// G = [cs -sn; sn cs] and cs^2 + sn^2 = 1.
func (k *chk) lanv2Identity(in, out [4]float64, cs, sn float64) {
	if !finite(out[:], []float64{cs, sn}) {
		k.fail("Dlanv2", "value", "non-finite result %v, cs = %v, sn = %v", out, cs, sn)
		return
	}
	tau := dyInt(60)
	tau.e = -52
	g := newRmat(2, 2)
	g.at(0, 0).SetFloat64(cs)
	g.at(0, 1).SetFloat64(-sn)
	g.at(1, 0).SetFloat64(sn)
	g.at(1, 1).SetFloat64(cs)
	m, mp := newRmat(2, 2), newRmat(2, 2)
	for i := 0; i < 4; i++ {
		m.a[i].SetFloat64(in[i])
		mp.a[i].SetFloat64(out[i])
	}
	if !k.orthoClause("Dlanv2", "", "the rotation (cs, sn)", g, tau) {
		return
	}
	k.identClause("Dlanv2", "", "[a b; c d] = G*[aa bb; cc dd]*G^T", g, m, g, mp, tau)
}

// trevcDirect runs Dtrevc3 on the planted integer Schur form itself (the instance's blocks are
// its diagonal blocks: re, im >= 0, size) and evaluates GenPred!EigRightOK / EigLeftOK / EigNormOK
// for every returned vector, for every side, every howmny and a minimal and the queried workspace.
func (k *chk) trevcDirect(c *inst, blocks [][]int64) {
	n := c.N
	if n == 0 || n > identMax {
		return
	}
	tm := rFromSpec(c.A, c.Den, 0, n, n)
	tau := planTau(c, n)
	// eigenvalue of each column and whether the column starts a block
	type col struct {
		re, im int64
		first  bool
		size   int
	}
	var cols []col
	for _, b := range blocks {
		for t := 0; t < int(b[2]); t++ {
			cols = append(cols, col{b[0], b[1], t == 0, int(b[2])})
		}
	}
	if len(cols) != n {
		return
	}
	opt := 3 * n
	{
		work := newWork(3)
		t0 := build(c.A, c.Den, 0, n, n, n, 0)
		v0 := blank(n, n, n, 0)
		k.where = desc("Dtrevc3 query n", n)
		if k.run("Dtrevc3", func() {
			impl.Dtrevc3(lapack.EVBoth, lapack.EVAll, nil, n, t0, n, v0, n, cloneF(v0), n, n, work, -1)
		}) && work[0] >= float64(3*n) && work[1] == workFill {
			opt = int(work[0])
		}
	}
	for _, side := range []lapack.EVSide{lapack.EVRight, lapack.EVLeft, lapack.EVBoth} {
		for hi, how := range []lapack.EVHowMany{lapack.EVAll, lapack.EVAllMulQ, lapack.EVSelected} {
			for pi, pad := range pads {
				for li, lwork := range []int{maxi(1, 3*n), opt, opt + 1} {
					if (li > 0 && lwork == 3*n) || (li == 2 && (pi+hi)%3 != 0) {
						continue
					}
					ldt, ldv := n+pad, n+pads[(pi+1)%len(pads)]
					// selection: every other block, a pair through its SECOND index
					var sel []bool
					want := make([]bool, n)
					mm := 0
					for j := 0; j < n; j++ {
						want[j] = true
					}
					if how == lapack.EVSelected {
						sel = make([]bool, n)
						bi := 0
						for j := 0; j < n; j += cols[j].size {
							on := bi%2 == 0
							for t := 0; t < cols[j].size; t++ {
								want[j+t] = on
							}
							if on {
								sel[j+cols[j].size-1] = true
							}
							bi++
						}
					}
					for j := 0; j < n; j++ {
						if want[j] {
							mm++
						}
					}
					mk := func(used bool) []float64 {
						switch {
						case !used:
							return canaryVec(2)
						case how == lapack.EVAllMulQ:
							return identity(n, ldv, 1)
						}
						return blank(n, mm, ldv, 1)
					}
					left, right := side != lapack.EVRight, side != lapack.EVLeft
					vl, vr := mk(left), mk(right)
					ldvl, ldvr := ldv, ldv
					if !left {
						ldvl = 1
					}
					if !right {
						ldvr = 1
					}
					t := build(c.A, c.Den, 0, n, n, ldt, 1)
					k.where = desc("Dtrevc3 side", string(rune(side)), "howmny", string(rune(how)), "n", n, "ldt", ldt, "ldv", ldv, "mm", mm, "lwork", lwork)
					got := -1
					if !k.run("Dtrevc3", func() {
						got = impl.Dtrevc3(side, how, sel, n, t, ldt, vl, ldvl, vr, ldvr, mm, newWork(lwork), lwork)
					}) {
						continue
					}
					k.sum.Cases++
					if n >= 3 {
						k.sum.Nontrivial++
					}
					if got != mm {
						k.fail("Dtrevc3", "ok", "returned m = %d, want %d", got, mm)
						continue
					}
					k.cmpPad("Dtrevc3", "t", t, ldt, n, n)
					if how == lapack.EVSelected {
						for j := 0; j < n; j++ {
							if exp := want[j] && cols[j].first; sel[j] != exp {
								k.fail("Dtrevc3", "selected", "selected[%d] = %v on return, documented %v", j, sel[j], exp)
								break
							}
						}
					}
					for si, v := range [][]float64{vr, vl} {
						isLeft := si == 1
						if (isLeft && !left) || (!isLeft && !right) {
							k.cmpTail("Dtrevc3", "unused side (not referenced)", v, 0)
							continue
						}
						width := mm
						if how == lapack.EVAllMulQ {
							width = n
						}
						k.cmpPad("Dtrevc3", "v", v, ldv, n, width)
						at := 0 // column of v
						for j := 0; j < n; j += cols[j].size {
							if !want[j] {
								continue
							}
							xr, xi := make([]float64, n), make([]float64, n)
							for i := 0; i < n; i++ {
								xr[i] = v[i*ldv+at]
								if cols[j].size == 2 {
									xi[i] = v[i*ldv+at+1]
								}
							}
							at += cols[j].size
							if !finite(xr, xi) {
								k.fail("Dtrevc3", "value", "non-finite eigenvector for column %d", j)
								break
							}
							wr, wi := dyInt(cols[j].re), dyInt(0)
							if cols[j].size == 2 {
								wi = dyInt(cols[j].im)
							}
							var ok bool
							var r float64
							name := "GenPred!EigRightOK"
							if isLeft {
								name = "GenPred!EigLeftOK"
								ok, r = eigLeftOK(tm, wr, wi, rVec(xr), rVec(xi), tau)
							} else {
								ok, r = eigRightOK(tm, wr, wi, rVec(xr), rVec(xi), tau)
							}
							k.sum.Count("eigenvector_residuals", 1)
							if !ok {
								k.fail("Dtrevc3", "identity", "%s fails for the eigenvalue (%d, %d) at column %d: residual = %.3g * bound", name, cols[j].re, cols[j].im, j, r)
								break
							}
							k.note("gen_eigvec", r)
							if !eigNormOK(rVec(xr), rVec(xi), tau) {
								k.fail("Dtrevc3", "normalisation", "GenPred!EigNormOK fails for column %d: the element of largest magnitude |re|+|im| is not 1", j)
								break
							}
						}
					}
				}
			}
		}
	}
}
