package spectral

import (
	"gonum.org/v1/gonum/blas"
	"gonum.org/v1/gonum/lapack"
)

// lwVariants: the documented minimum and, when different, the queried optimum.
func lwVariants(minw, opt int, ok bool) []int {
	l := []int{minw}
	if ok && opt != minw {
		l = append(l, opt)
	}
	return l
}

// svdPipeline drives the pieces beneath Dgesvd on a planted instance: Dgebrd (bidiagonal
// reduction), Dorgbr (Q and P^T), Dbdsqr (bidiagonal SVD with and without vectors).  The
// bidiagonal form is not unique to the bit, so the specification judges the compositions:
// singular values of (d, e) and singular vector pairs of A obtained as Q*U_B and V_B^T*P^T.
func svdPipeline(k *chk, c *inst, count func()) {
	m, n := c.M, c.N
	mn := mini(m, n)
	if mn == 0 || c.Sce != 0 {
		return
	}
	uplo, uname := blas.Upper, "U"
	if m < n {
		uplo, uname = blas.Lower, "L"
	}
	for _, pad := range pads {
		lda := n + pad
		ldu := mn + pad
		ldvt := n + pad
		a0 := build(c.A, c.Den, 0, m, n, lda, 1)
		d0, e0, tq0, tp0 := outVec(mn, 1), outVec(mn-1, 1), outVec(mn, 1), outVec(mn, 1)
		minw := maxi(1, maxi(m, n))
		k.where = desc("Dgebrd query m", m, "n", n, "lda", lda)
		opt, ok := k.query("Dgebrd", minw, func(w []float64) { impl.Dgebrd(m, n, a0, lda, d0, e0, tq0, tp0, w, -1) }, a0, d0, e0, tq0, tp0)
		for oi, lw := range lworkGrid(minw, opt, ok, lda, mn) {
			lwork := lw.lwork
			gridNote("lwork_grid", desc("Dgebrd", lw.name, "lda+"+desc(pad)))
			k.where = desc("Dgebrd m", m, "n", n, "lda", lda, "lwork", lwork, "("+lw.name+")")
			a := build(c.A, c.Den, 0, m, n, lda, 1)
			d, e, tauq, taup := outVec(mn, 1), outVec(mn-1, 1), outVec(mn, 1), outVec(mn, 1)
			work := newWork(lwork)
			if !k.run("Dgebrd", func() { impl.Dgebrd(m, n, a, lda, d, e, tauq, taup, work, lwork) }) {
				continue
			}
			count()
			k.cmpPad("Dgebrd", "a", a, lda, m, n)
			k.cmpTail("Dgebrd", "d", d, mn)
			k.cmpTail("Dgebrd", "e", e, mn-1)
			k.cmpTail("Dgebrd", "tauQ", tauq, mn)
			k.cmpTail("Dgebrd", "tauP", taup, mn)
			// singular values of the bidiagonal matrix = singular values of A
			{
				d2, e2 := cloneF(d), cloneF(e)
				cv, cu, cc := canaryVec(1), canaryVec(1), canaryVec(1)
				var res bool
				k.where = desc("Dgebrd+Dbdsqr(values) uplo", uname, "m", m, "n", n, "lda", lda, "lwork", lwork)
				if k.run("Dbdsqr", func() { res = impl.Dbdsqr(uplo, mn, 0, 0, 0, d2, e2, cv, 1, cu, 1, cc, 1, newWork(4*mn)) }) {
					count()
					if !res {
						k.fail("Dbdsqr", "ok", "returned ok = false")
					} else {
						k.svdValues("Dgebrd+Dbdsqr", c, d2)
						k.cmpTail("Dbdsqr", "d", d2, mn)
						k.cmpTail("Dbdsqr", "vt (not referenced)", cv, 0)
						k.cmpTail("Dbdsqr", "u (not referenced)", cu, 0)
						k.cmpTail("Dbdsqr", "c (not referenced)", cc, 0)
					}
				}
			}
			// Q (m x mn) and P^T (mn x n)
			mkU := func() []float64 {
				u := blank(m, mn, ldu, 1)
				for i := 0; i < m; i++ {
					copy(u[i*ldu:i*ldu+mn], a[i*lda:i*lda+mn])
				}
				return u
			}
			mkVT := func() []float64 {
				vt := blank(mn, n, ldvt, 1)
				for i := 0; i < mn; i++ {
					copy(vt[i*ldvt:i*ldvt+n], a[i*lda:i*lda+n])
				}
				return vt
			}
			u0, vt0 := mkU(), mkVT()
			k.where = desc("Dorgbr(Q) query m", m, "n", mn, "k", n, "ldu", ldu)
			optq, okq := k.query("Dorgbr", maxi(1, mn), func(w []float64) { impl.Dorgbr(lapack.GenerateQ, m, mn, n, u0, ldu, tauq, w, -1) }, u0, tauq)
			k.where = desc("Dorgbr(PT) query m", mn, "n", n, "k", m, "ldvt", ldvt)
			optp, okp := k.query("Dorgbr", maxi(1, mn), func(w []float64) { impl.Dorgbr(lapack.GeneratePT, mn, n, m, vt0, ldvt, taup, w, -1) }, vt0, taup)
			lq := innerGrid(oi, lworkGrid(maxi(1, mn), optq, okq, ldu, mn))
			lp := innerGrid(oi, lworkGrid(maxi(1, mn), optp, okp, ldvt, mn))
			for vi := 0; vi < maxi(len(lq), len(lp)); vi++ {
				lwq, lwp := lq[mini(vi, len(lq)-1)].lwork, lp[mini(vi, len(lp)-1)].lwork
				gridNote("lwork_grid", desc("Dorgbr(Q)", lq[mini(vi, len(lq)-1)].name, "ldu+"+desc(pad)))
				gridNote("lwork_grid", desc("Dorgbr(PT)", lp[mini(vi, len(lp)-1)].name, "ldvt+"+desc(pad)))
				u, vt := mkU(), mkVT()
				k.where = desc("Dgebrd+Dorgbr(Q) m", m, "n", n, "ldu", ldu, "lwork", lwork, "lworkq", lwq)
				if !k.run("Dorgbr", func() { impl.Dorgbr(lapack.GenerateQ, m, mn, n, u, ldu, tauq, newWork(lwq), lwq) }) {
					continue
				}
				count()
				k.cmpPad("Dorgbr", "u", u, ldu, m, mn)
				k.where = desc("Dgebrd+Dorgbr(PT) m", m, "n", n, "ldvt", ldvt, "lwork", lwork, "lworkp", lwp)
				if !k.run("Dorgbr", func() { impl.Dorgbr(lapack.GeneratePT, mn, n, m, vt, ldvt, taup, newWork(lwp), lwp) }) {
					continue
				}
				count()
				k.cmpPad("Dorgbr", "vt", vt, ldvt, mn, n)
				d2, e2 := cloneF(d), cloneF(e)
				cc := canaryVec(1)
				var res bool
				k.where = desc("Dgebrd+Dorgbr+Dbdsqr(vectors) uplo", uname, "m", m, "n", n, "lda", lda, "ldu", ldu, "ldvt", ldvt, "lwork", lwork, lwq, lwp)
				if !k.run("Dbdsqr", func() { res = impl.Dbdsqr(uplo, mn, n, m, 0, d2, e2, vt, ldvt, u, ldu, cc, 1, newWork(4*mn)) }) {
					continue
				}
				count()
				if !res {
					k.fail("Dbdsqr", "ok", "returned ok = false")
					continue
				}
				k.cmpPad("Dbdsqr", "u", u, ldu, m, mn)
				k.cmpPad("Dbdsqr", "vt", vt, ldvt, mn, n)
				k.cmpTail("Dbdsqr", "c (not referenced)", cc, 0)
				k.svdValues("Dgebrd+Dorgbr+Dbdsqr", c, d2)
				k.svdVectors("Dgebrd+Dorgbr+Dbdsqr", c,
					func(r, i int) float64 { return u[i*ldu+r] },
					func(r, i int) float64 { return vt[r*ldvt+i] })
			}
		}
	}
}
