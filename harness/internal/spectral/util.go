// Package spectral binds the spectral specifications of property C03
// (specs/spectral/*.tla) to gonum's lapack/gonum.Implementation, the lapack64
// wrappers and the mat eigen / SVD types.  It contains no linear algebra of
// its own: matrices, exact spectra in the documented order, exact expected
// vectors, exact gaps and the factors of the tolerance all come from the JSON
// the specification printed; this package builds backing slices (with
// canaries in padding and unreferenced regions), calls gonum under job / ld /
// lwork / block-size variation and compares element by element with
// math/big.Rat.  The conventions are those of package lapackc (property C02).
package spectral

import (
	"fmt"
	"math"
	"math/big"
	"strings"
	"time"

	"gonum.org/v1/gonum/verifharness/internal/core"
)

// canary values placed where a routine must not read or write.
var (
	padNaN  = math.Float64frombits(0x7ff8_0000_0000_c03a) // padding columns ld > n
	tailNaN = math.Float64frombits(0x7ff8_0000_0000_c03b) // beyond the documented length
	triNaN  = math.Float64frombits(0x7ff8_0000_0000_c03c) // the triangle a routine must not reference
)

const workFill = -6.2578125e+3 // exactly representable marker for workspace / outputs

const callLimit = 60 * time.Second

// imat is a matrix of integers as the specification prints it (sequence of rows).
type imat [][]int64

// val converts a scaled integer of the specification into the float64 it denotes:
// v/den * 2^sce.  den is a power of two and |v| < 2^31, so the result is exact.
func val(v int64, den int64, sce int) float64 {
	return math.Ldexp(float64(v)/float64(den), sce)
}

// build lays out an m x n matrix row-major with leading dimension ld, canaries in the
// padding columns, and `extra` canary elements after the last addressed element.
func build(a imat, den int64, sce int, m, n, ld, extra int) []float64 {
	if m == 0 || n == 0 {
		s := make([]float64, extra)
		for i := range s {
			s[i] = tailNaN
		}
		return s
	}
	s := make([]float64, (m-1)*ld+n+extra)
	for i := range s {
		s[i] = padNaN
	}
	for i := (m-1)*ld + n; i < len(s); i++ {
		s[i] = tailNaN
	}
	for i := 0; i < m; i++ {
		for j := 0; j < n; j++ {
			s[i*ld+j] = val(a[i][j], den, sce)
		}
	}
	return s
}

// blank is an m x n output matrix filled with the workspace marker, canaries around it.
func blank(m, n, ld, extra int) []float64 {
	z := make(imat, m)
	for i := range z {
		z[i] = make([]int64, n)
	}
	s := build(z, 1, 0, m, n, ld, extra)
	if m > 0 && n > 0 {
		for i := 0; i < m; i++ {
			for j := 0; j < n; j++ {
				s[i*ld+j] = workFill
			}
		}
	}
	return s
}

// canaryVec is a vector never to be referenced.
func canaryVec(n int) []float64 {
	s := make([]float64, n)
	for i := range s {
		s[i] = tailNaN
	}
	return s
}

// outVec is an output vector of n elements followed by extra canaries.
func outVec(n, extra int) []float64 {
	s := make([]float64, n+extra)
	for i := range s {
		s[i] = workFill
		if i >= n {
			s[i] = tailNaN
		}
	}
	return s
}

// chk carries what every comparison needs.
type chk struct {
	sum   *core.Summary
	c     any    // the replayable case
	where string // routine + variant description
	den   int64
	sce   int
	tol   *big.Rat // absolute tolerance for values (exact rational from the specification, scaled by 2^sce)
	tol0  *big.Rat // the same tolerance in unscaled units (for vectors: tol0 / gap)
	orth  *big.Rat // normalisation / orthogonality allowance for unit vectors: 30 * n * eps
	bad   bool
	empty bool // the instance has a zero dimension (classifies workspace-query findings)
	// tagFor, when set, classifies a panic by its text: the returned string is appended to the
	// failure kind (root-cause signature of an isolated finding); "" = no classification.
	tagFor func(text string) string
}

func (k *chk) fail(routine, kind, format string, a ...any) {
	k.bad = true
	k.sum.Fail("spectral:"+routine+":"+kind, k.where+": "+fmt.Sprintf(format, a...), k.c)
}

var eps = new(big.Rat).SetFrac(big.NewInt(1), new(big.Int).Lsh(big.NewInt(1), 52))

func pow2(e int) *big.Rat {
	if e >= 0 {
		return new(big.Rat).SetInt(new(big.Int).Lsh(big.NewInt(1), uint(e)))
	}
	return new(big.Rat).SetFrac(big.NewInt(1), new(big.Int).Lsh(big.NewInt(1), uint(-e)))
}

// tolRat multiplies the specification's tolerance factors: prod(f) * eps / den.
func tolRat(f []int64, den int64) *big.Rat {
	r := new(big.Rat).SetInt64(1)
	for _, x := range f {
		r.Mul(r, new(big.Rat).SetInt64(x))
	}
	r.Quo(r, new(big.Rat).SetInt64(den))
	return r.Mul(r, eps)
}

func newChk(sum *core.Summary, raw any, tolf []int64, den int64, sce int, nmax int) *chk {
	t0 := tolRat(tolf, den)
	k := &chk{sum: sum, c: raw, den: den, sce: sce, tol0: t0, tol: new(big.Rat).Mul(t0, pow2(sce))}
	k.orth = new(big.Rat).Mul(new(big.Rat).SetInt64(int64(30*maxi(nmax, 1))), eps)
	return k
}

// vecTol is the tolerance for one component of a unit singular / eigenvector belonging to an
// isolated value: 4 * tol0 / gap (Davis-Kahan / Wedin with the property's backward error
// tol0) plus the normalisation allowance.
func (k *chk) vecTol(gap int64) *big.Rat {
	t := new(big.Rat).Mul(big.NewRat(4, 1), k.tol0)
	t.Quo(t, new(big.Rat).SetInt64(gap))
	return t.Add(t, k.orth)
}

// near reports whether got equals exp (exact=true) or lies within tol of it; exp is exactly
// the float64 the specification's rational denotes.  ratio is |got-exp|/tol (0 when exact).
func near(got, exp float64, tol *big.Rat) (ok, exact bool, ratio float64) {
	if got == exp {
		return true, true, 0
	}
	if math.IsNaN(got) || math.IsInf(got, 0) {
		return false, false, math.Inf(1)
	}
	// Shortcut for the clear accept: the float64 difference and the float64 image of tol each carry
	// a relative error below 2^-52, so a difference below tol by the margin 1e-9 is below it exactly.
	if tf, _ := tol.Float64(); tf > 0 && !math.IsInf(tf, 0) {
		if df := math.Abs(got - exp); df > 0x1p-1000 && df*(1+1e-9) <= tf*(1-1e-9) {
			return true, false, df / tf
		}
	}
	d := new(big.Rat).SetFloat64(got)
	d.Sub(d, new(big.Rat).SetFloat64(exp))
	d.Abs(d)
	ok = d.Cmp(tol) <= 0
	if tol.Sign() > 0 {
		ratio, _ = new(big.Rat).Quo(d, tol).Float64()
	} else {
		ratio = math.Inf(1)
	}
	return ok, false, ratio
}

// note keeps the largest observed error / tolerance ratio per class (evidence of the margin).
func (k *chk) note(class string, ratio float64) {
	if k.sum.Extra == nil {
		k.sum.Extra = map[string]any{}
	}
	key := "max_err_over_tol_" + class
	old, _ := k.sum.Extra[key].(float64)
	if ratio > old {
		k.sum.Extra[key] = ratio
	}
}

// cmpVal compares one computed value with the specification's exact value.
func (k *chk) cmpVal(routine, what string, idx int, got float64, v int64, den int64) {
	exp := val(v, den, k.sce)
	ok, exact, ratio := near(got, exp, k.tol)
	k.sum.Count("values_compared", 1)
	if !exact {
		k.sum.Count("inexact_values", 1)
	}
	if !ok {
		k.fail(routine, "value", "%s[%d] = %v, specification says %d/%d*2^%d (tolerance %s)", what, idx, got, v, den, k.sce, k.tol.FloatString(30))
		return
	}
	k.note("values", ratio)
}

// cmpVecs compares computed unit vectors with the specification's vectors up to ONE common sign
// (the documented freedom).  get[t](i) returns component i of the t-th computed vector, exp[t]
// the expected integers over dens[t].  The sign is read off the computed component at the
// position of the largest expected component of the first vector.
func (k *chk) cmpVecs(routine, what string, r int, gap int64, get []func(i int) float64, exp [][]int64, dens []int64) {
	p := 0
	for i, v := range exp[0] {
		if abs64(v) > abs64(exp[0][p]) {
			p = i
		}
	}
	g := get[0](p)
	if g == 0 || g != g {
		k.fail(routine, "vector", "%s %d: component %d is %v, specification says +-%d/%d", what, r, p, g, exp[0][p], dens[0])
		return
	}
	sg := int64(1)
	if (g > 0) != (exp[0][p] > 0) {
		sg = -1
	}
	tol := k.vecTol(gap)
	for t := range get {
		for i, v := range exp[t] {
			got := get[t](i)
			ok, exact, ratio := near(got, val(sg*v, dens[t], 0), tol)
			k.sum.Count("vector_components_compared", 1)
			if !exact {
				k.sum.Count("inexact_vector_components", 1)
			}
			if !ok {
				k.fail(routine, "vector", "%s %d (part %d): component %d = %v, specification says %d/%d (sign %d, gap %d, tolerance %s)",
					what, r, t, i, got, sg*v, dens[t], sg, gap, tol.FloatString(30))
				return
			}
			k.note("vectors", ratio)
		}
	}
	k.sum.Count("vectors_compared", 1)
}

// cmpPad checks that padding columns and the tail still hold their canaries (bit-exact).
func (k *chk) cmpPad(routine, what string, got []float64, ld, m, n int) {
	if m == 0 || n == 0 {
		for i, v := range got {
			if math.Float64bits(v) != math.Float64bits(tailNaN) {
				k.fail(routine, "touch", "%s: element %d outside an empty matrix was written (%v)", what, i, v)
				return
			}
		}
		return
	}
	for idx, v := range got {
		i, j := idx/ld, idx%ld
		if i < m && j < n && idx < (m-1)*ld+n {
			continue
		}
		want := padNaN
		if idx >= (m-1)*ld+n {
			want = tailNaN
		}
		if math.Float64bits(v) != math.Float64bits(want) {
			k.fail(routine, "touch", "%s: padding element at flat index %d (row %d, col %d, ld %d) was written: %v", what, idx, i, j, ld, v)
			return
		}
	}
}

// cmpTail checks the canaries after the first n elements of an output vector.
func (k *chk) cmpTail(routine, what string, got []float64, n int) {
	for i := n; i < len(got); i++ {
		if math.Float64bits(got[i]) != math.Float64bits(tailNaN) {
			k.fail(routine, "touch", "%s: element %d beyond the documented length %d was written: %v", what, i, n, got[i])
			return
		}
	}
}

// cmpSame checks bit-identity of a region with a snapshot (operands that must not change).
func (k *chk) cmpSame(routine, what string, got, before []float64) {
	if len(got) != len(before) {
		k.fail(routine, "touch", "%s: length changed", what)
		return
	}
	for i := range got {
		if math.Float64bits(got[i]) != math.Float64bits(before[i]) {
			k.fail(routine, "touch", "%s: element %d changed from %v to %v", what, i, before[i], got[i])
			return
		}
	}
}

func cloneF(s []float64) []float64 { return append([]float64(nil), s...) }

// workPool backs the large workspaces of the "huge" class: a fresh allocation per call would spend
// the replay in page faults.  It is dropped after a hang (the abandoned goroutine may still write).
var workPool []float64

func newWork(n int) []float64 {
	var w []float64
	if n >= hugeWork/2 {
		if cap(workPool) < n {
			workPool = make([]float64, n+n/2)
		}
		w = workPool[:n:n]
	} else {
		w = make([]float64, n)
	}
	for i := range w {
		w[i] = workFill
	}
	return w
}

// run calls f under the watchdog and reports unexpected panics and hangs.
func (k *chk) run(routine string, f func()) bool {
	o := core.CallTimeout(callLimit, f)
	if o.Panicked {
		kind := "panic"
		if o.Runtime {
			kind = "runtime-panic"
		}
		if k.tagFor != nil {
			kind += k.tagFor(o.Text)
		}
		k.fail(routine, kind, "unexpected panic on valid arguments: %s", o.Text)
		return false
	}
	if o.Hung {
		workPool = nil
		k.fail(routine, "hang", "no return within %v", callLimit)
		return false
	}
	return true
}

// query performs a workspace query through call (which must pass lwork = -1 and the given
// work slice) and checks the contract: only work[0] is written, operands are untouched and
// work[0] >= the documented minimum minw.
func (k *chk) query(routine string, minw int, call func(work []float64), untouched ...[]float64) (opt int, ok bool) {
	work := newWork(3)
	snaps := make([][]float64, len(untouched))
	for i, u := range untouched {
		snaps[i] = cloneF(u)
	}
	if !k.run(routine, func() { call(work) }) {
		return 0, false
	}
	k.sum.Cases++
	k.sum.Count("workspace_queries", 1)
	if work[1] != workFill || work[2] != workFill {
		k.fail(routine, "query-touch", "workspace query wrote beyond work[0]")
	}
	for i, u := range untouched {
		k.cmpSame(routine, "operand during workspace query", u, snaps[i])
	}
	opt = int(work[0])
	if float64(opt) != work[0] || opt < minw {
		kind := "query-small"
		if k.empty {
			kind += ":empty"
		}
		k.fail(routine, kind, "workspace query returned %v, but lwork below the documented minimum %d is rejected (panic)", work[0], minw)
		return opt, false
	}
	return opt, true
}

// lwv is one workspace length of the grid with the name of its class.
type lwv struct {
	name  string
	lwork int
}

// hugeWork is added to the queried optimum for the "huge" class.
const hugeWork = 1 << 16

// lworkGrid is the workspace grid of the property ("every admissible workspace length"):
// the documented minimum, the queried optimum, optimum+1, optimum + ld*n (for Dgesvd the
// length from which the copy of the triangular factor is kept with the stride of A), 2*optimum+7
// and a huge value.  Without a usable query only the minimum is returned.  Equal lengths are
// listed once (first name wins).
func lworkGrid(minw, opt int, ok bool, ld, n int) []lwv {
	g := []lwv{{"min", minw}}
	if !ok {
		return g
	}
	for _, c := range []lwv{{"opt", opt}, {"opt+1", opt + 1}, {"opt+ld*n", opt + ld*n}, {"2*opt+7", 2*opt + 7}, {"huge", opt + hugeWork}} {
		dup := false
		for _, e := range g {
			dup = dup || e.lwork == c.lwork
		}
		if !dup && c.lwork >= minw {
			g = append(g, c)
		}
	}
	return g
}

// innerGrid thins the grid of a routine nested inside another routine's grid: the full inner grid
// under the first two outer classes (minimum, optimum), one inner class (rotating) under the others.
func innerGrid(outer int, inner []lwv) []lwv {
	if outer < 2 || len(inner) == 0 {
		return inner
	}
	i := outer % len(inner)
	return inner[i : i+1]
}

// gridNote counts one executed (key) combination of a driver's grid; the table is copied into the
// stage details of the evidence when the replay ends.
var gridTable = map[string]map[string]int{}

func gridNote(table, key string) {
	t := gridTable[table]
	if t == nil {
		t = map[string]int{}
		gridTable[table] = t
	}
	t[key]++
}

func desc(parts ...any) string {
	s := make([]string, len(parts))
	for i, p := range parts {
		s[i] = fmt.Sprint(p)
	}
	return strings.Join(s, " ")
}

func abs64(v int64) int64 {
	if v < 0 {
		return -v
	}
	return v
}
func maxi(a, b int) int {
	if a > b {
		return a
	}
	return b
}
func mini(a, b int) int {
	if a < b {
		return a
	}
	return b
}
