package spectral

import (
	"encoding/json"
	"math"
	"math/big"

	"gonum.org/v1/gonum/blas"
	"gonum.org/v1/gonum/lapack"

	"gonum.org/v1/gonum/verifharness/internal/core"
)

// Families printed by specs/spectral/CondensedSpectral.tla.
func init() {
	families["tri"] = triFamily
	families["bid"] = bidFamily
	families["lanv2"] = lanv2Family
	families["trexc"] = trexcFamily
	families["bal"] = balFamily
}

type condExtra struct {
	D []int64 `json:"d"`
	E []int64 `json:"e"`
}

func vecOf(v []int64, sce, extra int) []float64 {
	s := outVec(len(v), extra)
	for i, x := range v {
		s[i] = val(x, 1, sce)
	}
	return s
}

func identity(n, ld, extra int) []float64 {
	z := blank(n, n, ld, extra)
	for i := 0; i < n; i++ {
		for j := 0; j < n; j++ {
			z[i*ld+j] = 0
		}
		z[i*ld+i] = 1
	}
	return z
}

// triVectors compares eigenvectors of simple eigenvalues up to a real scalar of modulus
// 1/||v|| (the specification prints integer vectors such as (3,4); the unit norm is checked).
func (k *chk) triVectors(routine string, c *inst, z []float64, ldz int) {
	for r := 0; r < c.N; r++ {
		if len(c.V[r]) == 0 {
			continue
		}
		r := r
		e := &evrec{Re: c.W[r], Gap: c.Gap[r], Mult: 1}
		k.gevVector(routine, "eigenvector", r, e, 1, c.V[r], nil, false, func(i int) complex128 { return complex(z[i*ldz+r], 0) }, true)
	}
}

// triFamily: block tridiagonal matrices with exactly known spectra through Dsterf and Dsteqr
// (all three compz modes), unscaled and scaled by 2^510 / 2^-420 (the ssfmax / ssfmin rescaling).
func triFamily(c *inst, raw json.RawMessage, full bool, sum *core.Summary) {
	var x condExtra
	if err := json.Unmarshal(raw, &x); err != nil {
		sum.Fail("spectral:harness:json", err.Error(), raw)
		return
	}
	n := c.N
	k := newChk(sum, raw, c.Tol, c.Den, c.Sce, n)
	k.tagFor = func(text string) string {
		if c.Sce != 0 && text == "lapack: insufficient length of a" {
			return ":dsterf-dlascl-ld" // finding C03-F1 reached directly
		}
		return ""
	}
	count := func() {
		sum.Cases++
		if n >= 3 {
			sum.Nontrivial++
		}
	}
	if !want("tri") {
		return
	}
	var res bool
	{
		d, e := vecOf(x.D, c.Sce, 1), vecOf(x.E, c.Sce, 1)
		k.where = desc("Dsterf n", n, "dv", c.Dv, "sce", c.Sce)
		if k.run("Dsterf", func() { res = impl.Dsterf(n, d, e) }) {
			count()
			if !res {
				k.fail("Dsterf", "ok", "returned ok = false")
			} else {
				k.cmpTail("Dsterf", "d", d, n)
				k.cmpTail("Dsterf", "e", e, maxi(n-1, 0))
				k.symValues("Dsterf", c, d)
			}
		}
	}
	for _, compz := range []lapack.EVComp{lapack.EVCompNone, lapack.EVTridiag, lapack.EVOrig} {
		for _, pad := range pads {
			if compz == lapack.EVCompNone && pad != 0 {
				continue
			}
			ldz := maxi(1, n) + pad
			d, e := vecOf(x.D, c.Sce, 1), vecOf(x.E, c.Sce, 1)
			var z, work []float64
			switch compz {
			case lapack.EVCompNone:
				z = canaryVec(1)
			case lapack.EVTridiag:
				z = blank(n, n, ldz, 1) // documented: z need not be set on entry
				work = newWork(maxi(1, 2*n-2))
			case lapack.EVOrig:
				z = identity(n, ldz, 1)
				work = newWork(maxi(1, 2*n-2))
			}
			k.where = desc("Dsteqr compz", string(rune(compz)), "n", n, "ldz", ldz, "dv", c.Dv, "sce", c.Sce)
			if !k.run("Dsteqr", func() { res = impl.Dsteqr(compz, n, d, e, z, ldz, work) }) {
				continue
			}
			count()
			if !res {
				k.fail("Dsteqr", "ok", "returned ok = false")
				continue
			}
			k.cmpTail("Dsteqr", "d", d, n)
			k.cmpTail("Dsteqr", "e", e, maxi(n-1, 0))
			k.symValues("Dsteqr", c, d)
			if compz == lapack.EVCompNone {
				k.cmpTail("Dsteqr", "z (not referenced)", z, 0)
			} else {
				k.cmpPad("Dsteqr", "z", z, ldz, n, n)
				k.triVectors("Dsteqr", c, z, ldz)
			}
		}
	}
}

// bidFamily: block bidiagonal matrices with integer singular values through Dbdsqr, as upper
// and (transposed) lower bidiagonal, with and without vectors.
func bidFamily(c *inst, raw json.RawMessage, full bool, sum *core.Summary) {
	var x condExtra
	if err := json.Unmarshal(raw, &x); err != nil {
		sum.Fail("spectral:harness:json", err.Error(), raw)
		return
	}
	n := c.N
	k := newChk(sum, raw, c.Tol, c.Den, c.Sce, n)
	count := func() {
		sum.Cases++
		if n >= 3 {
			sum.Nontrivial++
		}
	}
	if !want("bid") {
		return
	}
	for _, uplo := range []blas.Uplo{blas.Upper, blas.Lower} {
		for _, vectors := range []bool{false, true} {
			for _, pad := range pads {
				if !vectors && pad != 0 {
					continue
				}
				ld := maxi(1, n) + pad
				d, e := vecOf(x.D, c.Sce, 1), vecOf(x.E, c.Sce, 1)
				vt, u, cc := canaryVec(1), canaryVec(1), canaryVec(1)
				ncvt, nru := 0, 0
				if vectors {
					vt, u = identity(n, ld, 1), identity(n, ld, 1)
					ncvt, nru = n, n
				}
				ldv := 1
				if vectors {
					ldv = ld
				}
				var res bool
				un := "U"
				if uplo == blas.Lower {
					un = "L"
				}
				k.where = desc("Dbdsqr uplo", un, "n", n, "vectors", vectors, "ld", ldv, "dv", c.Dv, "sce", c.Sce)
				if !k.run("Dbdsqr", func() { res = impl.Dbdsqr(uplo, n, ncvt, nru, 0, d, e, vt, ldv, u, ldv, cc, 1, newWork(4*maxi(n, 1))) }) {
					continue
				}
				count()
				if !res {
					k.fail("Dbdsqr", "ok", "returned ok = false")
					continue
				}
				k.cmpTail("Dbdsqr", "d", d, n)
				k.cmpTail("Dbdsqr", "c (not referenced)", cc, 0)
				k.svdValues("Dbdsqr", c, d)
				if !vectors {
					k.cmpTail("Dbdsqr", "vt (not referenced)", vt, 0)
					k.cmpTail("Dbdsqr", "u (not referenced)", u, 0)
					continue
				}
				k.cmpPad("Dbdsqr", "vt", vt, ld, n, n)
				k.cmpPad("Dbdsqr", "u", u, ld, n, n)
				// B = Q S P^T; for the lower bidiagonal matrix B^T the roles of u and v are exchanged
				getU := func(r, i int) float64 { return u[i*ld+r] }
				getV := func(r, i int) float64 { return vt[r*ld+i] }
				if uplo == blas.Lower {
					getU, getV = getV, getU
				}
				k.svdVectors("Dbdsqr", c, getU, getV)
			}
		}
	}
}

type lanv2Inst struct {
	A11, A12, A21, A22 int64
	Cplx, Exact, Either bool
	Re1, Re2, Im       int64
}

// lanv2Family: the 2x2 standardisation.  Documented: either cc == 0 (real eigenvalues aa, dd)
// or aa == dd and bb*cc < 0 (complex pair); the specification decides which by the sign of the
// exact discriminant and gives the exact eigenvalues when they are rational.
func lanv2Family(c *inst, raw json.RawMessage, full bool, sum *core.Summary) {
	var x lanv2Inst
	if err := json.Unmarshal(raw, &x); err != nil {
		sum.Fail("spectral:harness:json", err.Error(), raw)
		return
	}
	k := newChk(sum, raw, c.Tol, c.Den, 0, 2)
	if !want("lanv2") {
		return
	}
	a, b, cc0, d := val(x.A11, c.Den, 0), val(x.A12, c.Den, 0), val(x.A21, c.Den, 0), val(x.A22, c.Den, 0)
	var aa, bb, cc, dd, rt1r, rt1i, rt2r, rt2i, cs, sn float64
	k.where = desc("Dlanv2", a, b, cc0, d)
	if !k.run("Dlanv2", func() { aa, bb, cc, dd, rt1r, rt1i, rt2r, rt2i, cs, sn = impl.Dlanv2(a, b, cc0, d) }) {
		return
	}
	sum.Cases++
	if b != 0 && cc0 != 0 {
		sum.Nontrivial++
	}
	// the documented factorization with the returned rotation: GenPred!Lanv2Accept
	k.lanv2Identity([4]float64{a, b, cc0, d}, [4]float64{aa, bb, cc, dd}, cs, sn)
	if x.Either {
		// zero discriminant: either documented form
		legalC := cc != 0 && aa == dd && bb*cc < 0 && rt1r == aa && rt2r == aa && rt1i > 0 && rt2i == -rt1i
		legalR := cc == 0 && rt1i == 0 && rt2i == 0 && rt1r == aa && rt2r == dd
		if !legalC && !legalR {
			k.fail("Dlanv2", "form", "result [[%v,%v],[%v,%v]] with eigenvalues (%v,%v), (%v,%v) is neither documented form", aa, bb, cc, dd, rt1r, rt1i, rt2r, rt2i)
		}
		return
	}
	if x.Cplx {
		if !(cc != 0 && aa == dd && bb*cc < 0) {
			k.fail("Dlanv2", "form", "complex eigenvalues (negative discriminant) but the result [[%v,%v],[%v,%v]] is not a standardised complex block", aa, bb, cc, dd)
			return
		}
		if !(rt1r == aa && rt2r == aa && rt1i > 0 && rt2i == -rt1i) {
			k.fail("Dlanv2", "form", "eigenvalues (%v,%v), (%v,%v) are not aa +- i*positive", rt1r, rt1i, rt2r, rt2i)
			return
		}
		if x.Exact {
			k.cmpVal("Dlanv2", "rt1r", 0, rt1r, x.Re1, c.Den)
			k.cmpVal("Dlanv2", "rt1i", 0, rt1i, x.Im, c.Den)
		}
		return
	}
	if !(cc == 0 && rt1i == 0 && rt2i == 0 && rt1r == aa && rt2r == dd) {
		k.fail("Dlanv2", "form", "real eigenvalues (non-negative discriminant) but the result [[%v,%v],[%v,%v]] with eigenvalues (%v,%v), (%v,%v) is not upper triangular with (aa, dd) on the diagonal", aa, bb, cc, dd, rt1r, rt1i, rt2r, rt2i)
		return
	}
	if x.Exact {
		// {rt1r, rt2r} = {re1, re2} as a multiset
		hi, lo := math.Max(rt1r, rt2r), math.Min(rt1r, rt2r)
		k.cmpVal("Dlanv2", "max(rt1r,rt2r)", 0, hi, maxI64(x.Re1, x.Re2), c.Den)
		k.cmpVal("Dlanv2", "min(rt1r,rt2r)", 0, lo, minI64(x.Re1, x.Re2), c.Den)
	}
}

func maxI64(a, b int64) int64 {
	if a > b {
		return a
	}
	return b
}
func minI64(a, b int64) int64 {
	if a < b {
		return a
	}
	return b
}

type trexcInst struct {
	Ifst    int       `json:"ifst"`
	Ilst    int       `json:"ilst"`
	IfstOut int       `json:"ifstOut"`
	IlstOut int       `json:"ilstOut"`
	Blocks  [][]int64 `json:"blocks"` // expected diagonal blocks in order: re, im (>= 0), size
}

// trexcFamily: reordering of an integer Schur form T = S B S^-1.  Expected: the exact sequence
// of diagonal blocks after the move (eigenvalues re +- i*im within the Bauer-Fike tolerance; for
// 2x2 blocks the canonical form aa == dd, bb*cc < 0 and im^2 = -bb*cc), ifstOut and ilstOut.
func trexcFamily(c *inst, raw json.RawMessage, full bool, sum *core.Summary) {
	var x trexcInst
	if err := json.Unmarshal(raw, &x); err != nil {
		sum.Fail("spectral:harness:json", err.Error(), raw)
		return
	}
	n := c.N
	k := newChk(sum, raw, c.Tol, c.Den, 0, n)
	if !want("trexc") {
		return
	}
	if x.Ifst == x.Ilst && x.Ifst == 0 {
		// no move: the printed block sequence is that of the input, which Dtrevc3 takes as it is
		k.trevcDirect(c, x.Blocks)
	}
	for _, compq := range []lapack.UpdateSchurComp{lapack.UpdateSchurNone, lapack.UpdateSchur} {
		for _, pad := range pads {
			ldt := n + pad
			t := build(c.A, c.Den, 0, n, n, ldt, 1)
			q := canaryVec(1)
			ldq := 1
			if compq == lapack.UpdateSchur {
				q, ldq = identity(n, ldt, 1), ldt
			}
			var fo, lo int
			var ok bool
			k.where = desc("Dtrexc compq", string(rune(compq)), "n", n, "ifst", x.Ifst, "ilst", x.Ilst, "ldt", ldt)
			if !k.run("Dtrexc", func() { fo, lo, ok = impl.Dtrexc(compq, n, t, ldt, q, ldq, x.Ifst, x.Ilst, newWork(n)) }) {
				continue
			}
			sum.Cases++
			if x.Ifst != x.Ilst {
				sum.Nontrivial++
			}
			if !ok {
				k.fail("Dtrexc", "ok", "returned ok = false on well separated integer eigenvalues")
				continue
			}
			k.cmpPad("Dtrexc", "t", t, ldt, n, n)
			if compq == lapack.UpdateSchur {
				k.cmpPad("Dtrexc", "q", q, ldq, n, n)
			} else {
				k.cmpTail("Dtrexc", "q (not referenced)", q, 0)
			}
			if fo != x.IfstOut || lo != x.IlstOut {
				k.fail("Dtrexc", "index", "returned ifstOut = %d, ilstOut = %d, specification says %d, %d", fo, lo, x.IfstOut, x.IlstOut)
				continue
			}
			// orthogonal similarity: GenPred!SimAccept
			if compq == lapack.UpdateSchur {
				k.simIdentity("Dtrexc", c, q, ldq, t, ldt)
			} else {
				k.simIdentity("Dtrexc", c, nil, 0, t, ldt)
			}
			// walk the diagonal blocks
			i := 0
			for bi, blk := range x.Blocks {
				re, im, size := blk[0], blk[1], int(blk[2])
				if i+size > n {
					k.fail("Dtrexc", "form", "block structure does not match at row %d", i)
					break
				}
				// strictly lower part left of the block must be zero
				bad := false
				for r := i; r < i+size && !bad; r++ {
					for cidx := 0; cidx < i; cidx++ {
						if t[r*ldt+cidx] != 0 {
							k.fail("Dtrexc", "form", "T[%d][%d] = %v below the block diagonal", r, cidx, t[r*ldt+cidx])
							bad = true
							break
						}
					}
				}
				if bad {
					break
				}
				if size == 1 {
					if i+1 < n && t[(i+1)*ldt+i] != 0 {
						k.fail("Dtrexc", "form", "block %d at row %d should be 1x1 (eigenvalue %d) but T[%d][%d] = %v", bi, i, re, i+1, i, t[(i+1)*ldt+i])
						break
					}
					k.cmpVal("Dtrexc", "T diagonal", i, t[i*ldt+i], re, 1)
				} else {
					aa, bb, cc, dd := t[i*ldt+i], t[i*ldt+i+1], t[(i+1)*ldt+i], t[(i+1)*ldt+i+1]
					if !(aa == dd && bb*cc < 0) {
						k.fail("Dtrexc", "form", "block %d at row %d should be a canonical 2x2 block (eigenvalues %d +- %di) but is [[%v,%v],[%v,%v]]", bi, i, re, im, aa, bb, cc, dd)
						break
					}
					k.cmpVal("Dtrexc", "T diagonal", i, aa, re, 1)
					// im^2 = -bb*cc within 2*im*tol + tol^2
					got := new(big.Rat).Mul(new(big.Rat).SetFloat64(bb), new(big.Rat).SetFloat64(cc))
					got.Neg(got)
					diff := got.Sub(got, new(big.Rat).SetInt64(im*im))
					diff.Abs(diff)
					lim := new(big.Rat).Mul(new(big.Rat).SetInt64(2*im), k.tol)
					lim.Add(lim, new(big.Rat).Mul(k.tol, k.tol))
					if diff.Cmp(lim) > 0 {
						k.fail("Dtrexc", "value", "block %d at row %d: -bb*cc = %v, specification says im^2 = %d", bi, i, -bb*cc, im*im)
						break
					}
				}
				i += size
			}
		}
	}
}

type balInst struct {
	Mb    imat  `json:"Mb"`
	As    imat  `json:"As"`
	AsDen int64 `json:"asden"`
	Ilo   int   `json:"ilo"`
	Ihi   int   `json:"ihi"`
	Pm    imat  `json:"Pm"`
}

func isPow2(x float64) bool {
	if !(x > 0) || math.IsInf(x, 0) {
		return false
	}
	f, _ := math.Frexp(x)
	return f == 0.5
}

// balFamily: (1) permutation stage: the planted block triangular matrix, ilo, ihi and the
// permutation (through Dgebak applied to the identity, both sides) must be recovered exactly;
// (2) scaling stage on a badly scaled similar matrix: the documented encoding must hold
// exactly - scale[j] is a power of two and A'[i][j] * scale[i] == A[i][j] * scale[j] (both
// products exact), ilo = 0, ihi = n-1.
func balFamily(c *inst, raw json.RawMessage, full bool, sum *core.Summary) {
	var x balInst
	if err := json.Unmarshal(raw, &x); err != nil {
		sum.Fail("spectral:harness:json", err.Error(), raw)
		return
	}
	n := c.N
	k := newChk(sum, raw, c.Tol, c.Den, 0, n)
	k.tol = new(big.Rat) // everything here is exact
	if !want("bal") {
		return
	}
	for _, pad := range pads {
		lda := n + pad
		// (1) Permute
		a := build(c.A, 1, 0, n, n, lda, 1)
		scale := outVec(n, 0)
		var ilo, ihi int
		k.where = desc("Dgebal job P n", n, "k1", c.Qv, "kc", c.Dv, "lda", lda)
		if k.run("Dgebal", func() { ilo, ihi = impl.Dgebal(lapack.Permute, n, a, lda, scale) }) {
			sum.Cases++
			sum.Nontrivial++
			k.cmpPad("Dgebal", "a", a, lda, n, n)
			if ilo != x.Ilo || ihi != x.Ihi {
				k.fail("Dgebal", "range", "ilo = %d, ihi = %d, specification says %d, %d", ilo, ihi, x.Ilo, x.Ihi)
			} else {
				inC := func(t int) bool { return t >= ilo && t <= ihi }
				for i := 0; i < n; i++ {
					for j := 0; j < n; j++ {
						switch {
						case !inC(i) && !inC(j):
							if a[i*lda+j] != float64(x.Mb[i][j]) {
								k.fail("Dgebal", "value", "permuted matrix [%d][%d] = %v, specification says %d", i, j, a[i*lda+j], x.Mb[i][j])
								i = n
							}
						case i > j && (j < ilo || i > ihi):
							if a[i*lda+j] != 0 {
								k.fail("Dgebal", "value", "permuted matrix [%d][%d] = %v, documented 0 (block triangular form)", i, j, a[i*lda+j])
								i = n
							}
						}
						if i == n {
							break
						}
					}
				}
				for _, side := range []lapack.EVSide{lapack.EVRight, lapack.EVLeft} {
					v := identity(n, lda, 1)
					k.where = desc("Dgebal+Dgebak job P side", string(rune(side)), "n", n, "k1", c.Qv, "kc", c.Dv, "lda", lda)
					if !k.run("Dgebak", func() { impl.Dgebak(lapack.Permute, side, n, ilo, ihi, scale, n, v, lda) }) {
						continue
					}
					sum.Cases++
					k.cmpPad("Dgebak", "v", v, lda, n, n)
					for i := 0; i < n; i++ {
						for j := 0; j < n; j++ {
							if (j < ilo || j > ihi) && v[i*lda+j] != float64(x.Pm[i][j]) {
								k.fail("Dgebak", "value", "P[%d][%d] = %v, specification says %d", i, j, v[i*lda+j], x.Pm[i][j])
								i = n
								break
							}
						}
					}
				}
			}
		}
		// (2) Scale
		a0 := build(x.As, x.AsDen, 0, n, n, lda, 1)
		a = cloneF(a0)
		scale = outVec(n, 0)
		k.where = desc("Dgebal job S n", n, "k1", c.Qv, "kc", c.Dv, "lda", lda)
		if k.run("Dgebal", func() { ilo, ihi = impl.Dgebal(lapack.Scale, n, a, lda, scale) }) {
			sum.Cases++
			sum.Nontrivial++
			k.cmpPad("Dgebal", "a", a, lda, n, n)
			if ilo != 0 || ihi != n-1 {
				k.fail("Dgebal", "range", "job Scale: ilo = %d, ihi = %d, documented 0, n-1", ilo, ihi)
			}
			for i := 0; i < n; i++ {
				if !isPow2(scale[i]) {
					k.fail("Dgebal", "scale", "scale[%d] = %v is not a power of two", i, scale[i])
					break
				}
			}
			moved := false
			for i := 0; i < n && !k.bad; i++ {
				for j := 0; j < n; j++ {
					if a[i*lda+j]*scale[i] != a0[i*lda+j]*scale[j] {
						k.fail("Dgebal", "value", "scaled matrix [%d][%d] = %v but A[%d][%d] * scale[%d] / scale[%d] = %v", i, j, a[i*lda+j], i, j, j, i, a0[i*lda+j]*scale[j]/scale[i])
						break
					}
					if a[i*lda+j] != a0[i*lda+j] {
						moved = true
					}
				}
			}
			if moved {
				sum.Count("dgebal_scaled_something", 1)
			}
			// back transformation of the identity: V = D (right), D^-1 (left), exactly
			for _, side := range []lapack.EVSide{lapack.EVRight, lapack.EVLeft} {
				v := identity(n, lda, 1)
				k.where = desc("Dgebal+Dgebak job S side", string(rune(side)), "n", n, "lda", lda)
				if !k.run("Dgebak", func() { impl.Dgebak(lapack.Scale, side, n, ilo, ihi, scale, n, v, lda) }) {
					continue
				}
				sum.Cases++
				k.cmpPad("Dgebak", "v", v, lda, n, n)
				for i := 0; i < n; i++ {
					for j := 0; j < n; j++ {
						want := 0.0
						if i == j {
							want = scale[i]
							if side == lapack.EVLeft {
								want = 1 / scale[i]
							}
						}
						if v[i*lda+j] != want {
							k.fail("Dgebak", "value", "job Scale, V = I: result [%d][%d] = %v, documented %v", i, j, v[i*lda+j], want)
							i = n
							break
						}
					}
				}
			}
		}
	}
}
