package spectral

import (
	"encoding/json"
	"fmt"
	"math"
	"strings"

	"gonum.org/v1/gonum/blas/blas64"
	"gonum.org/v1/gonum/lapack"
	"gonum.org/v1/gonum/lapack/lapack64"

	"gonum.org/v1/gonum/verifharness/internal/core"
)

// Families printed by specs/spectral/GenSpectral.tla: the generalized routines, whose factors
// are not unique.  The verdict is the acceptance predicate of specs/spectral/GenPred.tla,
// evaluated exactly on gonum's output by the mirror functions of genpred.go (the weaker binding
// of C03: identity predicates stated by the specification, no unique expected value).
func init() {
	families["gghrd"] = gghrdFamily
	families["ggsvd"] = ggsvdFamily
	families["tgsja"] = tgsjaFamily
}

// genInst is one instance of GenSpectral.tla.
type genInst struct {
	Fam    string `json:"fam"`
	M      int    `json:"m"`
	P      int    `json:"p"`
	N      int    `json:"n"`
	K      int    `json:"k"`
	L      int    `json:"l"`
	Ilo    int    `json:"ilo"`
	Ihi    int    `json:"ihi"`
	Dv     int    `json:"dv"`
	A      imat   `json:"A"`
	B      imat   `json:"B"`
	Q1     imat   `json:"Q1"`
	Z1     imat   `json:"Z1"`
	U1     imat   `json:"U1"`
	V1     imat   `json:"V1"`
	Ar     []imat `json:"Ar"`
	Br     []imat `json:"Br"`
	RkA    int    `json:"rkA"`
	RkB    int    `json:"rkB"`
	RkAB   int    `json:"rkAB"`
	UnpivA bool   `json:"unpivA"`
	UnpivB bool   `json:"unpivB"`
	NrmA   int64  `json:"nrmA"`
	NrmB   int64  `json:"nrmB"`
	Tolc   int64  `json:"tolc"`
}

// genTau is the relative tolerance of the property, tolc * dim * eps (eps = 2^-52), as the
// specification prints its factors.
func genTau(c *genInst, dim int) *dy {
	t := dyInt(c.Tolc * int64(maxi(dim, 1)))
	t.e = -52
	return t
}

// toR converts an output matrix exactly; a NaN / Inf element is reported as a failure.
func (k *chk) toR(routine, what string, data []float64, ld, m, n int) *rmat {
	x, ok, i, j := rFromFloat(data, ld, m, n)
	if !ok {
		k.fail(routine, "value", "%s[%d][%d] = %v", what, i, j, data[i*ld+j])
		return nil
	}
	return x
}

// predicate evaluation helpers: each reports the clause of the GenPred operator that failed.
// suffix is appended to the failure kind (signature class of a known root cause).
func (k *chk) orthoClause(routine, suffix, what string, x *rmat, tau *dy) bool {
	if x == nil {
		return true
	}
	ok, r := orthoOK(x, tau)
	if !ok {
		k.fail(routine, "orthogonality"+suffix, "GenPred!OrthoOK fails for %s: |X^T X - I|_max = %.3g * tau (tau = %.3g)", what, r, tau.Float64())
		return false
	}
	k.note("gen_orthogonality", r)
	return true
}

func (k *chk) identClause(routine, suffix, what string, l, x, r, y *rmat, tau *dy) bool {
	ok, rr, form := ident(l, x, r, y, tau)
	k.sum.Count("identities_"+form, 1)
	if !ok {
		kind := "identity"
		if suffix != "" {
			kind = "rank" + suffix // one signature for the root cause; the clause is in the message
		}
		k.fail(routine, kind, "[identity] GenPred!%s fails for %s: defect = %.3g * bound (tau = %.3g)", form, what, rr, tau.Float64())
		return false
	}
	k.note("gen_"+form, rr)
	return true
}

// buildG is build for the generalized routines, which have no quick return for empty operands:
// gonum's length rule len >= (m-1)*ld + n also applies to an m x 0 matrix with m > 1 (nothing of
// it is addressed; all elements are canaries).
func buildG(a imat, m, n, ld, extra int) []float64 {
	if n == 0 && m > 1 {
		return canaryVec((m-1)*ld + extra)
	}
	return build(a, 1, 0, m, n, ld, extra)
}

// blankG is the output counterpart of buildG.
func blankG(m, n, ld, extra int) []float64 {
	if n == 0 && m > 1 {
		return canaryVec((m-1)*ld + extra)
	}
	return blank(m, n, ld, extra)
}

// workGrid is the workspace grid of a routine whose documented minimum is not usable on its own
// (Dggsvp3 / Dggsvd3 pass lwork on to Dgeqp3): queried optimum, +1, + ld*n, 2*opt+7, huge.
func workGrid(opt int, ok bool, ld, n int) []lwv {
	g := lworkGrid(opt, opt, ok, ld, n)
	g[0].name = "opt"
	return g
}

// ---------------------------------------------------------------------------------- Dgghrd

var compName = map[lapack.OrthoComp]string{lapack.OrthoNone: "N", lapack.OrthoExplicit: "I", lapack.OrthoPostmul: "V"}

// gghrdFamily: GenPred!GghrdAccept on the output of Dgghrd for every compq x compz x ld.
func gghrdFamily(_ *inst, raw json.RawMessage, full bool, sum *core.Summary) {
	var c genInst
	if err := json.Unmarshal(raw, &c); err != nil {
		sum.Fail("spectral:harness:json", err.Error(), raw)
		return
	}
	n, ilo, ihi := c.N, c.Ilo, c.Ihi
	k := newChk(sum, raw, []int64{1}, 1, 0, n)
	tau := genTau(&c, n)
	comps := []lapack.OrthoComp{lapack.OrthoNone, lapack.OrthoExplicit, lapack.OrthoPostmul}
	for _, cq := range comps {
		for _, cz := range comps {
			for pi, pad := range pads {
				lda := maxi(1, n) + pad
				ldb := maxi(1, n) + pads[(pi+1)%len(pads)]
				ldq, ldz := 1+pad, 1+pads[(pi+2)%len(pads)]
				if cq != lapack.OrthoNone {
					ldq += maxi(1, n) - 1
				}
				if cz != lapack.OrthoNone {
					ldz += maxi(1, n) - 1
				}
				mk := func(comp lapack.OrthoComp, init imat, ld int) []float64 {
					switch comp {
					case lapack.OrthoExplicit:
						return blank(n, n, ld, 1)
					case lapack.OrthoPostmul:
						return build(init, 1, 0, n, n, ld, 1)
					}
					return canaryVec(2)
				}
				a := build(c.A, 1, 0, n, n, lda, 1)
				b := build(c.B, 1, 0, n, n, ldb, 1)
				q, z := mk(cq, c.Q1, ldq), mk(cz, c.Z1, ldz)
				k.where = desc("Dgghrd compq", compName[cq], "compz", compName[cz], "n", n, "ilo", ilo, "ihi", ihi, "lda", lda, "ldb", ldb, "ldq", ldq, "ldz", ldz)
				ran := k.run("Dgghrd", func() { impl.Dgghrd(cq, cz, n, ilo, ihi, a, lda, b, ldb, q, ldq, z, ldz) })
				sum.Cases++
				if ihi-ilo >= 2 {
					sum.Nontrivial++
				}
				if ihi < n-1 && ihi-ilo >= 2 {
					sum.Count("gghrd_calls_with_trailing_columns", 1)
				}
				if !ran {
					continue
				}
				k.cmpPad("Dgghrd", "a", a, lda, n, n)
				k.cmpPad("Dgghrd", "b", b, ldb, n, n)
				if cq != lapack.OrthoNone {
					k.cmpPad("Dgghrd", "q", q, ldq, n, n)
				} else {
					k.cmpTail("Dgghrd", "q (not referenced)", q, 0)
				}
				if cz != lapack.OrthoNone {
					k.cmpPad("Dgghrd", "z", z, ldz, n, n)
				} else {
					k.cmpTail("Dgghrd", "z (not referenced)", z, 0)
				}
				if n == 0 {
					continue
				}
				// GenPred!UpperHessR / UpperTriR: exact zero patterns
				bad := false
				for i := 0; i < n && !bad; i++ {
					for j := 0; j < i; j++ {
						if j < i-1 && a[i*lda+j] != 0 {
							k.fail("Dgghrd", "structure", "GenPred!UpperHessR fails: H[%d][%d] = %v", i, j, a[i*lda+j])
							bad = true
							break
						}
						if b[i*ldb+j] != 0 {
							k.fail("Dgghrd", "structure", "GenPred!UpperTriR fails: T[%d][%d] = %v", i, j, b[i*ldb+j])
							bad = true
							break
						}
					}
				}
				if bad {
					continue
				}
				hm, tm := k.toR("Dgghrd", "H", a, lda, n, n), k.toR("Dgghrd", "T", b, ldb, n, n)
				var qm, zm *rmat
				okq, okz := true, true
				if cq != lapack.OrthoNone {
					qm = k.toR("Dgghrd", "Q", q, ldq, n, n)
					okq = qm != nil
				}
				if cz != lapack.OrthoNone {
					zm = k.toR("Dgghrd", "Z", z, ldz, n, n)
					okz = zm != nil
				}
				if hm == nil || tm == nil || !okq || !okz {
					continue
				}
				if !k.orthoClause("Dgghrd", "", "Q", qm, tau) || !k.orthoClause("Dgghrd", "", "Z", zm, tau) {
					continue
				}
				// the left-hand sides: A resp. Q1*A*Z1^T with I for a factor that is not post-multiplied
				ri := 0
				if cq == lapack.OrthoPostmul {
					ri++
				}
				if cz == lapack.OrthoPostmul {
					ri += 2
				}
				k.identClause("Dgghrd", "", "Q^T*A*Z = H", qm, rFromInt(c.Ar[ri], n, n), zm, hm, tau)
				k.identClause("Dgghrd", "", "Q^T*B*Z = T", qm, rFromInt(c.Br[ri], n, n), zm, tm, tau)
			}
		}
	}
}

// ------------------------------------------------------------------------ Dggsvp3 / Dggsvd3

func gsvdJobs(wu, wv, wq bool) (ju, jv, jq lapack.GSVDJob) {
	ju, jv, jq = lapack.GSVDNone, lapack.GSVDNone, lapack.GSVDNone
	if wu {
		ju = lapack.GSVDU
	}
	if wv {
		jv = lapack.GSVDV
	}
	if wq {
		jq = lapack.GSVDQ
	}
	return
}

func yn(b bool) string {
	if b {
		return "y"
	}
	return "n"
}

// docTol is the documented tolerance of the preprocessing / Jacobi step:
// max(rows, n) * max(norm, safe minimum) * eps with eps = 2^-52 (the values Dggsvd3 itself forms).
func docTol(rows, n int, nrm int64) float64 {
	return float64(maxi(rows, n)) * math.Max(float64(nrm), 0x1p-1022) * 0x1p-52
}

// unpivSuffix classifies a failure of the rank / structure / identity clauses on an instance on
// which a QR factorization WITHOUT column pivoting can under-report a rank or misplace the
// non-zero rows of the triangular factor (the specification computes the class:
// GenSpectral!GgsvdUnpivB - B has a dependent leading column set, exact - and GgsvdUnpivA - the
// second stage, exact for B = 0 and an upper bound otherwise: rank [A; B] < n).  Failures of other
// kinds (panics, orthogonality, canaries, alpha / beta pattern, order) never get the suffix, and
// no instance outside the class does.
func unpivSuffix(c *genInst) string {
	if c.UnpivB || c.UnpivA {
		return ":unpivoted"
	}
	return ""
}

// ggsvpCheck evaluates GenPred!GgsvpAccept.
func (k *chk) ggsvpCheck(routine string, c *genInst, kk, ll int, a []float64, lda int, b []float64, ldb int, um, vm, qm *rmat, tau *dy) {
	m, p, n := c.M, c.P, c.N
	sfx := unpivSuffix(c)
	fail := func(kind, format string, args ...any) {
		if sfx != "" {
			// one signature for the root cause; the clause is in the message
			k.fail(routine, "rank"+sfx, "["+kind+"] "+format, args...)
			return
		}
		k.fail(routine, kind, format, args...)
	}
	if !ggsvpShape(m, p, n, kk, ll) {
		fail("rank", "GenPred!GgsvpShape fails: k = %d, l = %d for m = %d, p = %d, n = %d", kk, ll, m, p, n)
		return
	}
	// GenPred!RankOK: never below the exact rank; above it is rounding (a zero pivot computed at the threshold)
	if ll < c.RkB || kk+ll < c.RkAB {
		fail("rank", "returned k = %d, l = %d; the specification says l >= rank B = %d and k + l >= rank [A; B] = %d", kk, ll, c.RkB, c.RkAB)
		return
	}
	if ll != c.RkB || kk+ll != c.RkAB {
		k.sum.Count("gsvd_numerical_rank_above_exact_rank", 1)
	}
	// GenPred!GgsvpStruct: exact zeros, non-singular A12 and B13
	for i := 0; i < m; i++ {
		for j := 0; j < n; j++ {
			if aZero(m, n, kk, ll, i, j) && a[i*lda+j] != 0 {
				fail("structure", "GenPred!GgsvpStruct fails: A[%d][%d] = %v in a zero block (k = %d, l = %d)", i, j, a[i*lda+j], kk, ll)
				return
			}
		}
	}
	for i := 0; i < p; i++ {
		for j := 0; j < n; j++ {
			if bZero(p, n, ll, i, j) && b[i*ldb+j] != 0 {
				fail("structure", "GenPred!GgsvpStruct fails: B[%d][%d] = %v in a zero block (l = %d)", i, j, b[i*ldb+j], ll)
				return
			}
		}
	}
	for i := 0; i < kk; i++ {
		if d := a[i*lda+n-ll-kk+i]; d == 0 || d != d {
			fail("structure", "GenPred!GgsvpStruct fails: A12 is singular, diagonal element %d = %v", i, d)
			return
		}
	}
	for i := 0; i < ll; i++ {
		if d := b[i*ldb+n-ll+i]; d == 0 || d != d {
			fail("structure", "GenPred!GgsvpStruct fails: B13 is singular, diagonal element %d = %v", i, d)
			return
		}
	}
	ao, bo := k.toR(routine, "A", a, lda, m, n), k.toR(routine, "B", b, ldb, p, n)
	if ao == nil || bo == nil {
		return
	}
	if !k.orthoClause(routine, "", "U", um, tau) || !k.orthoClause(routine, "", "V", vm, tau) || !k.orthoClause(routine, "", "Q", qm, tau) {
		return
	}
	k.identClause(routine, sfx, "U^T*A*Q = [0 A12 A13; 0 0 A23]", um, rFromInt(c.A, m, n), qm, ao, tau)
	k.identClause(routine, sfx, "V^T*B*Q = [0 0 B13]", vm, rFromInt(c.B, p, n), qm, bo, tau)
}

// ggsvdCheck evaluates GenPred!GgsvdCore (+ rank clause and SortOK when iw != nil: GgsvdAccept).
// aref / bref are the left-hand sides (A, B or the post-multiply references of Dtgsja).
func (k *chk) ggsvdCheck(routine string, c *genInst, sfx string, ranks bool, kk, ll int, aref, bref imat, a []float64, lda int, b []float64, ldb int,
	alpha, beta []float64, um, vm, qm *rmat, iw []int, tau *dy) {
	m, p, n := c.M, c.P, c.N
	fail := func(kind, format string, args ...any) {
		if sfx != "" && (kind == "rank" || kind == "structure") {
			k.fail(routine, "rank"+sfx, "["+kind+"] "+format, args...)
			return
		}
		k.fail(routine, kind, format, args...)
	}
	if !ggsvpShape(m, p, n, kk, ll) {
		fail("rank", "GenPred!GgsvpShape fails: k = %d, l = %d for m = %d, p = %d, n = %d", kk, ll, m, p, n)
		return
	}
	// GenPred!RankOK
	if ranks && (ll < c.RkB || kk+ll < c.RkAB) {
		fail("rank", "returned k = %d, l = %d; the specification says l >= rank B = %d and k + l >= rank [A; B] = %d", kk, ll, c.RkB, c.RkAB)
		return
	}
	if ranks && (ll != c.RkB || kk+ll != c.RkAB) {
		k.sum.Count("gsvd_numerical_rank_above_exact_rank", 1)
	}
	// GenPred!AlphaBetaOK
	ar, br := make([]*dy, n), make([]*dy, n)
	for i := 0; i < n; i++ {
		if math.IsNaN(alpha[i]) || math.IsInf(alpha[i], 0) || math.IsNaN(beta[i]) || math.IsInf(beta[i], 0) {
			fail("alphabeta", "alpha[%d] = %v, beta[%d] = %v", i, alpha[i], i, beta[i])
			return
		}
		ar[i], br[i] = new(dy).SetFloat64(alpha[i]), new(dy).SetFloat64(beta[i])
		var ok bool
		switch {
		case i < kk:
			ok = alpha[i] == 1 && beta[i] == 0
		case i < mini(m, kk+ll):
			d := new(dy).Add(new(dy).Mul(ar[i], ar[i]), new(dy).Mul(br[i], br[i]))
			d.Sub(d, dyInt(1))
			d.Abs(d)
			ok = d.Cmp(tau) <= 0
			k.note("gen_alphabeta", ratio(d, tau))
		case i < kk+ll:
			ok = alpha[i] == 0 && beta[i] == 1
		default:
			ok = alpha[i] == 0 && beta[i] == 0
		}
		if !ok {
			fail("alphabeta", "GenPred!AlphaBetaOK fails at %d: alpha = %v, beta = %v (k = %d, l = %d, m = %d)", i, alpha[i], beta[i], kk, ll, m)
			return
		}
	}
	ao, bo := k.toR(routine, "A", a, lda, m, n), k.toR(routine, "B", b, ldb, p, n)
	if ao == nil || bo == nil {
		return
	}
	r := rOfAB(m, n, kk, ll, ao, bo)
	for i := 0; i < kk+ll; i++ {
		if r.at(i, i).Sign() == 0 {
			fail("structure", "GenPred!GgsvdCore fails: R is singular, R[%d][%d] = 0 (k = %d, l = %d)", i, i, kk, ll)
			return
		}
	}
	if !k.orthoClause(routine, "", "U", um, tau) || !k.orthoClause(routine, "", "V", vm, tau) || !k.orthoClause(routine, "", "Q", qm, tau) {
		return
	}
	k.identClause(routine, sfx, "U^T*A*Q = D1*[0 R]", um, rFromInt(aref, m, n), qm, d1R(m, n, kk, ll, ar, r), tau)
	k.identClause(routine, sfx, "V^T*B*Q = D2*[0 R]", vm, rFromInt(bref, p, n), qm, d2R(p, n, kk, ll, br, r), tau)
	if iw != nil {
		// GenPred!SortOK: the interchanges k+i <-> iw[k+i], i < min(l, m-k), sort alpha descending
		ib := maxi(mini(ll, m-kk), 0)
		al := append([]float64(nil), alpha...)
		for i := 0; i < ib; i++ {
			j := iw[kk+i]
			if j < kk || j >= kk+ib {
				fail("order", "GenPred!SortOK fails: iwork[%d] = %d outside %d..%d", kk+i, j, kk, kk+ib-1)
				return
			}
			al[kk+i], al[j] = al[j], al[kk+i]
		}
		for i := 0; i+1 < ib; i++ {
			if !(al[kk+i] >= al[kk+i+1]) {
				fail("order", "GenPred!SortOK fails: after the interchanges of iwork alpha[%d] = %v < alpha[%d] = %v", kk+i, al[kk+i], kk+i+1, al[kk+i+1])
				return
			}
		}
	}
}

// m0Slice names one isolated root cause: with m == 0 the empty matrix A is still sliced at a column
// offset (dggsvp3.go: a[n-l:] in the update of A12; dtgsja.go: a[n-l+j:] in the column rotations),
// which is a slice-bounds runtime panic when a has the documented minimal length (m-1)*lda+n <= 0.
func m0Slice(m int) func(string) string {
	return func(text string) string {
		if m == 0 && strings.HasPrefix(text, "runtime error: slice bounds out of range") {
			return ":m0-slice"
		}
		return ""
	}
}

// ggsvdFamily: Dggsvp3, Dggsvd3 and lapack64.Ggsvd3 on general integer pairs (A, B).
func ggsvdFamily(_ *inst, raw json.RawMessage, full bool, sum *core.Summary) {
	var c genInst
	if err := json.Unmarshal(raw, &c); err != nil {
		sum.Fail("spectral:harness:json", err.Error(), raw)
		return
	}
	m, p, n := c.M, c.P, c.N
	dim := maxi(maxi(m, p), n)
	k := newChk(sum, raw, []int64{1}, 1, 0, dim)
	tau := genTau(&c, dim)
	k.tagFor = m0Slice(m)
	count := func() {
		sum.Cases++
		if mini(mini(m, p), n) >= 2 {
			sum.Nontrivial++
		}
		if c.UnpivA || c.UnpivB {
			sum.Count("gsvd_calls_on_unpivoted_class", 1)
		}
		if c.RkAB < n {
			sum.Count("gsvd_calls_with_common_null_space", 1)
		}
		if c.RkAB-c.RkB < n-c.RkB && m < n-c.RkB {
			sum.Count("gsvd_calls_wide_a11", 1)
		}
	}
	tola, tolb := docTol(m, n, c.NrmA), docTol(p, n, c.NrmB)
	ji := 0
	for _, wu := range []bool{true, false} {
		for _, wv := range []bool{true, false} {
			for _, wq := range []bool{true, false} {
				ji++
				ju, jv, jq := gsvdJobs(wu, wv, wq)
				for pi, pad := range pads {
					lda := maxi(1, n) + pad
					ldb := maxi(1, n) + pads[(pi+1)%len(pads)]
					ldu, ldv, ldq := 1+pad, 1+pad, 1+pad
					if wu {
						ldu = maxi(1, m) + pad
					}
					if wv {
						ldv = maxi(1, p) + pad
					}
					if wq {
						ldq = maxi(1, n) + pad
					}
					mk := func() (a, b, u, v, q []float64) {
						a = buildG(c.A, m, n, lda, 1)
						b = buildG(c.B, p, n, ldb, 1)
						u, v, q = canaryVec(2), canaryVec(2), canaryVec(2)
						if wu {
							u = blank(m, m, ldu, 1)
						}
						if wv {
							v = blank(p, p, ldv, 1)
						}
						if wq {
							q = blank(n, n, ldq, 1)
						}
						return
					}
					factors := func(routine string, u, v, q []float64) (um, vm, qm *rmat, ok bool) {
						ok = true
						if wu {
							k.cmpPad(routine, "u", u, ldu, m, m)
							um = k.toR(routine, "U", u, ldu, m, m)
							ok = ok && um != nil
						} else {
							k.cmpTail(routine, "u (not referenced)", u, 0)
						}
						if wv {
							k.cmpPad(routine, "v", v, ldv, p, p)
							vm = k.toR(routine, "V", v, ldv, p, p)
							ok = ok && vm != nil
						} else {
							k.cmpTail(routine, "v (not referenced)", v, 0)
						}
						if wq {
							k.cmpPad(routine, "q", q, ldq, n, n)
							qm = k.toR(routine, "Q", q, ldq, n, n)
							ok = ok && qm != nil
						} else {
							k.cmpTail(routine, "q (not referenced)", q, 0)
						}
						return
					}
					jobs := desc("jobU", yn(wu), "jobV", yn(wv), "jobQ", yn(wq), "m", m, "p", p, "n", n, "lda", lda, "ldb", ldb, "ldu", ldu, "ldv", ldv, "ldq", ldq)

					// ---- Dggsvp3
					if want("Dggsvp3") {
						a0, b0, u0, v0, q0 := mk()
						k.where = desc("Dggsvp3 query", jobs)
						opt, ok := k.query("Dggsvp3", 1, func(work []float64) {
							impl.Dggsvp3(ju, jv, jq, m, p, n, a0, lda, b0, ldb, tola, tolb, u0, ldu, v0, ldv, q0, ldq, make([]int, n), outVec(n, 0), work, -1)
						}, a0, b0, u0, v0, q0)
						grid := workGrid(opt, ok, lda, n)
						if !ok {
							grid = nil
						} else if ji > 1 {
							grid = append(grid[:1:1], innerGrid(ji+pi, grid[1:])...)
						}
						for _, lw := range grid {
							a, b, u, v, q := mk()
							iwork := make([]int, n)
							tauv := outVec(n, 1)
							work := newWork(lw.lwork)
							k.where = desc("Dggsvp3", jobs, "lwork", lw.lwork, "("+lw.name+")", "dv", c.Dv)
							gridNote("lwork_grid", desc("Dggsvp3", lw.name, "lda+"+desc(pad)))
							var kk, ll int
							ran := k.run("Dggsvp3", func() {
								kk, ll = impl.Dggsvp3(ju, jv, jq, m, p, n, a, lda, b, ldb, tola, tolb, u, ldu, v, ldv, q, ldq, iwork, tauv, work, lw.lwork)
							})
							count()
							if !ran {
								continue
							}
							k.cmpPad("Dggsvp3", "a", a, lda, m, n)
							k.cmpPad("Dggsvp3", "b", b, ldb, p, n)
							k.cmpTail("Dggsvp3", "tau", tauv, n)
							um, vm, qm, okf := factors("Dggsvp3", u, v, q)
							if !okf {
								continue
							}
							k.ggsvpCheck("Dggsvp3", &c, kk, ll, a, lda, b, ldb, um, vm, qm, tau)
						}
					}

					// ---- Dggsvd3 and lapack64.Ggsvd3
					if want("Dggsvd3") {
						a0, b0, u0, v0, q0 := mk()
						al0, be0 := outVec(n, 0), outVec(n, 0)
						k.where = desc("Dggsvd3 query", jobs)
						opt, ok := k.query("Dggsvd3", 1, func(work []float64) {
							impl.Dggsvd3(ju, jv, jq, m, n, p, a0, lda, b0, ldb, al0, be0, u0, ldu, v0, ldv, q0, ldq, work, -1, make([]int, n))
						}, a0, b0, u0, v0, q0, al0, be0)
						grid := workGrid(opt, ok, lda, n)
						if !ok {
							grid = nil
						} else if ji > 1 {
							grid = append(grid[:1:1], innerGrid(ji+pi+1, grid[1:])...)
						}
						for _, routine := range []string{"Dggsvd3", "lapack64.Ggsvd3"} {
							if routine == "lapack64.Ggsvd3" && (pad != 0 || m == 0 || p == 0 || n == 0) {
								continue // blas64.General needs positive strides; exercised at minimal ld only
							}
							for _, lw := range grid {
								if routine == "lapack64.Ggsvd3" && lw.name != "opt" {
									continue
								}
								a, b, u, v, q := mk()
								alpha, beta := outVec(n, 0), outVec(n, 0) // documented: length exactly n
								iwork := make([]int, n)
								work := newWork(lw.lwork)
								k.where = desc(routine, jobs, "lwork", lw.lwork, "("+lw.name+")", "dv", c.Dv)
								if routine == "Dggsvd3" {
									gridNote("lwork_grid", desc("Dggsvd3", lw.name, "lda+"+desc(pad)))
								}
								var kk, ll int
								var res bool
								ran := k.run(routine, func() {
									if routine == "Dggsvd3" {
										kk, ll, res = impl.Dggsvd3(ju, jv, jq, m, n, p, a, lda, b, ldb, alpha, beta, u, ldu, v, ldv, q, ldq, work, lw.lwork, iwork)
									} else {
										ug := blas64.General{Rows: m, Cols: m, Stride: ldu, Data: u}
										vg := blas64.General{Rows: p, Cols: p, Stride: ldv, Data: v}
										qg := blas64.General{Rows: n, Cols: n, Stride: ldq, Data: q}
										if !wu {
											ug = blas64.General{Stride: 1}
										}
										if !wv {
											vg = blas64.General{Stride: 1}
										}
										if !wq {
											qg = blas64.General{Stride: 1}
										}
										kk, ll, res = lapack64.Ggsvd3(ju, jv, jq, blas64.General{Rows: m, Cols: n, Stride: lda, Data: a},
											blas64.General{Rows: p, Cols: n, Stride: ldb, Data: b}, alpha, beta, ug, vg, qg, work, lw.lwork, iwork)
									}
								})
								count()
								if !ran {
									continue
								}
								if !res {
									k.fail(routine, "ok", "returned ok = false (k = %d, l = %d)", kk, ll)
									continue
								}
								k.cmpPad(routine, "a", a, lda, m, n)
								k.cmpPad(routine, "b", b, ldb, p, n)
								um, vm, qm, okf := factors(routine, u, v, q)
								if !okf {
									continue
								}
								k.ggsvdCheck(routine, &c, unpivSuffix(&c), true, kk, ll, c.A, c.B, a, lda, b, ldb, alpha, beta, um, vm, qm, iwork, tau)
							}
						}
					}
				}
			}
		}
	}
}

// ---------------------------------------------------------------------------------- Dtgsja

// tgsjaJobs: the job triples exercised (0 None, 1 Unit = start from I, 2 post-multiply into the
// signed permutations U1 / V1 / Q1 of the specification).
var tgsjaJobs = [][3]int{{1, 1, 1}, {2, 2, 2}, {0, 0, 0}, {1, 0, 2}, {0, 2, 1}, {2, 1, 0}, {0, 1, 1}, {1, 0, 1}, {1, 1, 0}, {2, 2, 1}, {1, 2, 2}}

// tgsjaFamily: GenPred!TgsjaAccept on the output of Dtgsja for inputs already in the block form.
func tgsjaFamily(_ *inst, raw json.RawMessage, full bool, sum *core.Summary) {
	var c genInst
	if err := json.Unmarshal(raw, &c); err != nil {
		sum.Fail("spectral:harness:json", err.Error(), raw)
		return
	}
	m, p, n, kk, ll := c.M, c.P, c.N, c.K, c.L
	dim := maxi(maxi(m, p), n)
	k := newChk(sum, raw, []int64{1}, 1, 0, dim)
	tau := genTau(&c, dim)
	k.tagFor = m0Slice(m)
	tola, tolb := docTol(m, n, c.NrmA), docTol(p, n, c.NrmB)
	jobOf := func(t int, post lapack.GSVDJob) lapack.GSVDJob {
		switch t {
		case 1:
			return lapack.GSVDUnit
		case 2:
			return post
		}
		return lapack.GSVDNone
	}
	for _, jt := range tgsjaJobs {
		for pi, pad := range pads {
			lda := maxi(1, n) + pad
			ldb := maxi(1, n) + pads[(pi+1)%len(pads)]
			lds := [3]int{1 + pad, 1 + pad, 1 + pad}
			dims := [3]int{m, p, n}
			inits := [3]imat{c.U1, c.V1, c.Q1}
			var fac [3][]float64
			for t := 0; t < 3; t++ {
				switch jt[t] {
				case 0:
					fac[t] = canaryVec(2)
				case 1:
					lds[t] = maxi(1, dims[t]) + pad
					fac[t] = blank(dims[t], dims[t], lds[t], 1)
				case 2:
					lds[t] = maxi(1, dims[t]) + pad
					fac[t] = build(inits[t], 1, 0, dims[t], dims[t], lds[t], 1)
				}
			}
			a := buildG(c.A, m, n, lda, 1)
			b := buildG(c.B, p, n, ldb, 1)
			alpha, beta := outVec(n, 0), outVec(n, 0)
			work := newWork(2 * n)
			ju, jv, jq := jobOf(jt[0], lapack.GSVDU), jobOf(jt[1], lapack.GSVDV), jobOf(jt[2], lapack.GSVDQ)
			k.where = desc("Dtgsja jobs", fmt.Sprint(jt), "m", m, "p", p, "n", n, "k", kk, "l", ll, "lda", lda, "ldb", ldb, "ldu", lds[0], "ldv", lds[1], "ldq", lds[2], "dv", c.Dv)
			cycles, res := -1, false
			ran := k.run("Dtgsja", func() {
				cycles, res = impl.Dtgsja(ju, jv, jq, m, p, n, kk, ll, a, lda, b, ldb, tola, tolb, alpha, beta, fac[0], lds[0], fac[1], lds[1], fac[2], lds[2], work)
			})
			sum.Cases++
			if ll >= 2 && m-kk >= 2 {
				sum.Nontrivial++
			}
			if !ran {
				continue
			}
			if !res || cycles < 0 || cycles > 40 {
				k.fail("Dtgsja", "ok", "returned ok = %v after %d cycles", res, cycles)
				continue
			}
			k.cmpPad("Dtgsja", "a", a, lda, m, n)
			k.cmpPad("Dtgsja", "b", b, ldb, p, n)
			var fm [3]*rmat
			okf := true
			for t := 0; t < 3; t++ {
				name := []string{"u", "v", "q"}[t]
				if jt[t] == 0 {
					k.cmpTail("Dtgsja", name+" (not referenced)", fac[t], 0)
					continue
				}
				k.cmpPad("Dtgsja", name, fac[t], lds[t], dims[t], dims[t])
				fm[t] = k.toR("Dtgsja", name, fac[t], lds[t], dims[t], dims[t])
				okf = okf && fm[t] != nil
			}
			if !okf {
				continue
			}
			// the left-hand sides: U1*A*Q1^T, V1*B*Q1^T with I for a factor that is not post-multiplied
			ai, bi := 0, 0
			if jt[0] == 2 {
				ai++
			}
			if jt[1] == 2 {
				bi++
			}
			if jt[2] == 2 {
				ai += 2
				bi += 2
			}
			k.ggsvdCheck("Dtgsja", &c, "", false, kk, ll, c.Ar[ai], c.Br[bi], a, lda, b, ldb, alpha, beta, fm[0], fm[1], fm[2], nil, tau)
		}
	}
}
