package spectral

import (
	"math"
	"math/big"
)

// This file is the mechanical mirror of specs/spectral/GenPred.tla, the normative statement of
// the acceptance predicates for the routines without unique factors (Dgghrd, Dggsvp3, Dggsvd3,
// Dtgsja).  Nothing here decides what is right: every function evaluates, exactly, the formula of
// the operator named in its comment on the float64 values gonum returned and on the integers the
// specification printed.  TLC cannot hold 53-bit mantissas, which is the only reason the
// evaluation happens here and not in TLC.
//
// Arithmetic: every float64, every integer and the tolerance c*n*2^-52 is a dyadic rational
// m * 2^e, and the predicates need only +, -, *, |.| and comparisons, under which the dyadic
// rationals are closed.  dy is that exact number type on math/big.Int (the same values as
// math/big.Rat would hold, without its gcd normalisation at every step, which dominated the
// replay time).

// dy is the exact dyadic rational m * 2^e (m == 0 is stored with e == 0).
type dy struct {
	m big.Int
	e int
}

func (z *dy) SetInt64(v int64) *dy {
	z.m.SetInt64(v)
	z.e = 0
	return z
}

// SetFloat64 sets z to the exact value of the finite float64 f.
func (z *dy) SetFloat64(f float64) *dy {
	if f == 0 {
		return z.SetInt64(0)
	}
	fr, ex := math.Frexp(f) // f = fr * 2^ex, 0.5 <= |fr| < 1, fr * 2^53 is an integer
	z.m.SetInt64(int64(fr * (1 << 53)))
	z.e = ex - 53
	return z
}

func (z *dy) Set(x *dy) *dy {
	z.m.Set(&x.m)
	z.e = x.e
	return z
}

func (x *dy) Sign() int { return x.m.Sign() }

func (z *dy) Mul(x, y *dy) *dy {
	if x.m.Sign() == 0 || y.m.Sign() == 0 {
		return z.SetInt64(0)
	}
	e := x.e + y.e
	z.m.Mul(&x.m, &y.m)
	z.e = e
	return z
}

// addSub sets z = x + sg*y.
func (z *dy) addSub(x, y *dy, sg int) *dy {
	switch {
	case y.m.Sign() == 0:
		return z.Set(x)
	case x.m.Sign() == 0:
		z.Set(y)
		if sg < 0 {
			z.m.Neg(&z.m)
		}
		return z
	}
	var t big.Int
	e := x.e
	if y.e < e {
		e = y.e
	}
	var xs, ys big.Int
	xs.Lsh(&x.m, uint(x.e-e))
	ys.Lsh(&y.m, uint(y.e-e))
	if sg < 0 {
		t.Sub(&xs, &ys)
	} else {
		t.Add(&xs, &ys)
	}
	z.m.Set(&t)
	z.e = e
	if z.m.Sign() == 0 {
		z.e = 0
	}
	return z
}

func (z *dy) Add(x, y *dy) *dy { return z.addSub(x, y, 1) }
func (z *dy) Sub(x, y *dy) *dy { return z.addSub(x, y, -1) }

func (z *dy) Abs(x *dy) *dy {
	z.m.Abs(&x.m)
	z.e = x.e
	return z
}

// Cmp compares x and y exactly.
func (x *dy) Cmp(y *dy) int {
	var d dy
	return d.Sub(x, y).Sign()
}

// Float64 is the nearest float64 (reporting only).
func (x *dy) Float64() float64 {
	f := new(big.Float).SetInt(&x.m)
	f.SetMantExp(f, x.e)
	v, _ := f.Float64()
	return v
}

func dyInt(v int64) *dy { return new(dy).SetInt64(v) }

// rmat is a dense m x n matrix of exact dyadic rationals (row-major).
type rmat struct {
	m, n int
	a    []*dy
}

func newRmat(m, n int) *rmat {
	x := &rmat{m: m, n: n, a: make([]*dy, m*n)}
	for i := range x.a {
		x.a[i] = new(dy)
	}
	return x
}

func (x *rmat) at(i, j int) *dy { return x.a[i*x.n+j] }

// rFromFloat converts an m x n float64 matrix with leading dimension ld exactly; ok = false when
// an element is NaN or infinite (i, j name the first such element).
func rFromFloat(data []float64, ld, m, n int) (x *rmat, ok bool, bi, bj int) {
	x = newRmat(m, n)
	for i := 0; i < m; i++ {
		for j := 0; j < n; j++ {
			v := data[i*ld+j]
			if math.IsNaN(v) || math.IsInf(v, 0) {
				return x, false, i, j
			}
			x.a[i*n+j].SetFloat64(v)
		}
	}
	return x, true, 0, 0
}

// rFromInt mirrors GenPred!FromInt.
func rFromInt(a imat, m, n int) *rmat {
	x := newRmat(m, n)
	for i := 0; i < m; i++ {
		for j := 0; j < n; j++ {
			x.a[i*n+j].SetInt64(a[i][j])
		}
	}
	return x
}

// rEye mirrors GenPred!Eye.
func rEye(n int) *rmat {
	x := newRmat(n, n)
	for i := 0; i < n; i++ {
		x.a[i*n+i].SetInt64(1)
	}
	return x
}

// rT mirrors GenPred!Tr.
func rT(x *rmat) *rmat {
	y := newRmat(x.n, x.m)
	for i := 0; i < x.m; i++ {
		for j := 0; j < x.n; j++ {
			y.a[j*x.m+i].Set(x.a[i*x.n+j])
		}
	}
	return y
}

// rMul mirrors GenPred!MM.
func rMul(x, y *rmat) *rmat {
	z := newRmat(x.m, y.n)
	t := new(dy)
	for i := 0; i < x.m; i++ {
		for j := 0; j < y.n; j++ {
			s := z.a[i*y.n+j]
			for k := 0; k < x.n; k++ {
				a, b := x.a[i*x.n+k], y.a[k*y.n+j]
				if a.Sign() == 0 || b.Sign() == 0 {
					continue
				}
				s.Add(s, t.Mul(a, b))
			}
		}
	}
	return z
}

// rSub mirrors GenPred!MSub.
func rSub(x, y *rmat) *rmat {
	z := newRmat(x.m, x.n)
	for i := range z.a {
		z.a[i].Sub(x.a[i], y.a[i])
	}
	return z
}

// rNorm1 mirrors GenPred!Norm1R (maximal column sum of absolute values).
func rNorm1(x *rmat) *dy {
	best := new(dy)
	t := new(dy)
	for j := 0; j < x.n; j++ {
		s := new(dy)
		for i := 0; i < x.m; i++ {
			s.Add(s, t.Abs(x.a[i*x.n+j]))
		}
		if s.Cmp(best) > 0 {
			best = s
		}
	}
	return best
}

// rMaxAbs mirrors GenPred!MaxAbsR.
func rMaxAbs(x *rmat) *dy {
	best := new(dy)
	t := new(dy)
	for _, v := range x.a {
		if t.Abs(v).Cmp(best) > 0 {
			best = new(dy).Set(t)
		}
	}
	return best
}

// rFrob2 mirrors GenPred!Frob2 (squared Frobenius norm).
func rFrob2(x *rmat) *dy {
	s := new(dy)
	t := new(dy)
	for _, v := range x.a {
		if v.Sign() != 0 {
			s.Add(s, t.Mul(v, v))
		}
	}
	return s
}

func ratio(d, bound *dy) float64 {
	if d.Sign() == 0 {
		return 0
	}
	if bound.Sign() == 0 {
		return math.Inf(1)
	}
	q := new(big.Float).Quo(new(big.Float).SetMantExp(new(big.Float).SetInt(&d.m), d.e),
		new(big.Float).SetMantExp(new(big.Float).SetInt(&bound.m), bound.e))
	f, _ := q.Float64()
	return f
}

// orthoOK mirrors GenPred!OrthoOK:  | X^T X - I |_max <= tau.  r = defect / tau.
func orthoOK(x *rmat, tau *dy) (ok bool, r float64) {
	d := rMaxAbs(rSub(rMul(rT(x), x), rEye(x.n)))
	return d.Cmp(tau) <= 0, ratio(d, tau)
}

// tauF mirrors GenPred!TauF: 3 * max(m, n, 1) * tau.
func tauF(m, n int, tau *dy) *dy {
	return new(dy).Mul(dyInt(int64(3*maxi(maxi(m, n), 1))), tau)
}

// quadOK mirrors GenPred!QuadOK:  |D|_F^2 <= tauF^2 * (|X|_F^2)^2.  r is the ratio of the
// (unsquared) norms.
func quadOK(d, x *rmat, tau *dy) (bool, float64) {
	t := tauF(x.m, x.n, tau)
	f := rFrob2(x)
	bound := new(dy).Mul(new(dy).Mul(t, t), new(dy).Mul(f, f))
	lhs := rFrob2(d)
	return lhs.Cmp(bound) <= 0, math.Sqrt(ratio(lhs, bound))
}

// ident mirrors GenPred!Ident: the identity L^T X R = Y in the form the available factors allow
// (l == nil / r == nil: the job option suppressed that factor).  form names the operator that
// was evaluated: IdentBoth, IdentRight, IdentLeft or IdentNone.
func ident(l, x, r, y *rmat, tau *dy) (ok bool, rr float64, form string) {
	switch {
	case l != nil && r != nil:
		// IdentBoth: | L^T X R - Y |_1 <= tau * |X|_1
		d := rNorm1(rSub(rMul(rMul(rT(l), x), r), y))
		bound := new(dy).Mul(tau, rNorm1(x))
		return d.Cmp(bound) <= 0, ratio(d, bound), "IdentBoth"
	case r != nil:
		// IdentRight: | (XR)^T (XR) - Y^T Y |_F <= tauF * |X|_F^2
		xr := rMul(x, r)
		ok, rr = quadOK(rSub(rMul(rT(xr), xr), rMul(rT(y), y)), x, tau)
		return ok, rr, "IdentRight"
	case l != nil:
		// IdentLeft: | (L^T X) (L^T X)^T - Y Y^T |_F <= tauF * |X|_F^2
		lx := rMul(rT(l), x)
		ok, rr = quadOK(rSub(rMul(lx, rT(lx)), rMul(y, rT(y))), x, tau)
		return ok, rr, "IdentLeft"
	}
	// IdentNone: | |Y|_F^2 - |X|_F^2 | <= tauF * |X|_F^2
	fx := rFrob2(x)
	d := new(dy).Sub(rFrob2(y), fx)
	d.Abs(d)
	bound := new(dy).Mul(tauF(x.m, x.n, tau), fx)
	return d.Cmp(bound) <= 0, ratio(d, bound), "IdentNone"
}

// aZero mirrors GenPred!AZero: entry (i, j) of the A output of Dggsvp3 is structurally zero.
func aZero(m, n, k, l, i, j int) bool {
	switch {
	case i < k:
		return j < n-l-k+i
	case i < k+l:
		return j < n-l+(i-k)
	}
	return true
}

// bZero mirrors GenPred!BZero.
func bZero(p, n, l, i, j int) bool {
	if i < l {
		return j < n-l+i
	}
	return true
}

// ggsvpShape mirrors GenPred!GgsvpShape.
func ggsvpShape(m, p, n, k, l int) bool {
	return k >= 0 && l >= 0 && l <= mini(p, n) && k <= mini(m, n-l)
}

// rOfAB mirrors GenPred!RofAB: the upper triangle of R read from the documented storage.
func rOfAB(m, n, k, l int, ao, bo *rmat) *rmat {
	r := newRmat(k+l, k+l)
	for i := 0; i < k+l; i++ {
		for j := i; j < k+l; j++ {
			if i < m {
				r.at(i, j).Set(ao.at(i, n-k-l+j))
			} else {
				r.at(i, j).Set(bo.at(i-k, n-k-l+j))
			}
		}
	}
	return r
}

// d1R mirrors GenPred!D1R:  D1 * [0 R]  (m x n).
func d1R(m, n, k, l int, alpha []*dy, r *rmat) *rmat {
	y := newRmat(m, n)
	for i := 0; i < mini(m, k+l); i++ {
		for j := n - k - l; j < n; j++ {
			y.at(i, j).Mul(alpha[i], r.at(i, j-(n-k-l)))
		}
	}
	return y
}

// d2R mirrors GenPred!D2R:  D2 * [0 R]  (p x n).
func d2R(p, n, k, l int, beta []*dy, r *rmat) *rmat {
	y := newRmat(p, n)
	for i := 0; i < l; i++ {
		for j := n - k - l; j < n; j++ {
			y.at(i, j).Mul(beta[k+i], r.at(k+i, j-(n-k-l)))
		}
	}
	return y
}

// rFromSpec converts a matrix the specification printed as integers over the power of two den,
// scaled by 2^sce (the planted families), exactly.
func rFromSpec(a imat, den int64, sce, m, n int) *rmat {
	lg := 0
	for d := den; d > 1; d >>= 1 {
		lg++
	}
	x := newRmat(m, n)
	for i := 0; i < m; i++ {
		for j := 0; j < n; j++ {
			if a[i][j] != 0 {
				x.a[i*n+j].SetInt64(a[i][j])
				x.a[i*n+j].e = sce - lg
			}
		}
	}
	return x
}

// sigmaM mirrors GenPred!SigmaM: the a x b matrix with s on its diagonal.
func sigmaM(s []float64, a, b int) *rmat {
	y := newRmat(a, b)
	for i := 0; i < mini(mini(a, b), len(s)); i++ {
		y.at(i, i).SetFloat64(s[i])
	}
	return y
}

func rVec(x []float64) []*dy {
	v := make([]*dy, len(x))
	for i, f := range x {
		v[i] = new(dy).SetFloat64(f)
	}
	return v
}

func vecInf(x []*dy) *dy {
	best := new(dy)
	t := new(dy)
	for _, v := range x {
		if t.Abs(v).Cmp(best) > 0 {
			best = new(dy).Set(t)
		}
	}
	return best
}

// eigRightOK mirrors GenPred!EigRightOK: T*(xr + i*xi) = (wr + i*wi)*(xr + i*xi) row by row within
// tau * |T|_inf * (|xr|_inf + |xi|_inf); the vector must not vanish.  r = largest defect / bound.
func eigRightOK(t *rmat, wr, wi *dy, xr, xi []*dy, tau *dy) (ok bool, r float64) {
	n := t.n
	tn := new(dy) // |T|_inf
	for i := 0; i < n; i++ {
		s, a := new(dy), new(dy)
		for j := 0; j < n; j++ {
			s.Add(s, a.Abs(t.at(i, j)))
		}
		if s.Cmp(tn) > 0 {
			tn = s
		}
	}
	xn := new(dy).Add(vecInf(xr), vecInf(xi))
	if xn.Sign() == 0 {
		return false, math.Inf(1)
	}
	bound := new(dy).Mul(new(dy).Mul(tau, tn), xn)
	ok = true
	tx := func(x []*dy, i int) *dy {
		s, p := new(dy), new(dy)
		for j := 0; j < n; j++ {
			s.Add(s, p.Mul(t.at(i, j), x[j]))
		}
		return s
	}
	for i := 0; i < n; i++ {
		// real part:  (T xr)_i - wr*xr_i + wi*xi_i ;  imaginary part:  (T xi)_i - wr*xi_i - wi*xr_i
		re := tx(xr, i)
		re.Sub(re, new(dy).Mul(wr, xr[i]))
		re.Add(re, new(dy).Mul(wi, xi[i]))
		im := tx(xi, i)
		im.Sub(im, new(dy).Mul(wr, xi[i]))
		im.Sub(im, new(dy).Mul(wi, xr[i]))
		for _, d := range []*dy{re.Abs(re), im.Abs(im)} {
			if d.Cmp(bound) > 0 {
				ok = false
			}
			if q := ratio(d, bound); q > r {
				r = q
			}
		}
	}
	return ok, r
}

// eigLeftOK mirrors GenPred!EigLeftOK (either conjugation convention is accepted).
func eigLeftOK(t *rmat, wr, wi *dy, yr, yi []*dy, tau *dy) (bool, float64) {
	tt := rT(t)
	neg := make([]*dy, len(yi))
	for i, v := range yi {
		neg[i] = new(dy).Sub(new(dy), v)
	}
	ok1, r1 := eigRightOK(tt, wr, wi, yr, neg, tau)
	if ok1 {
		return true, r1
	}
	ok2, r2 := eigRightOK(tt, wr, wi, yr, yi, tau)
	return ok2, math.Min(r1, r2)
}

// eigNormOK mirrors GenPred!EigNormOK: | max_i(|xr_i| + |xi_i|) - 1 | <= tau.
func eigNormOK(xr, xi []*dy, tau *dy) bool {
	best := new(dy)
	for i := range xr {
		s := new(dy).Add(new(dy).Abs(xr[i]), new(dy).Abs(xi[i]))
		if s.Cmp(best) > 0 {
			best = s
		}
	}
	d := new(dy).Sub(best, dyInt(1))
	return d.Abs(d).Cmp(tau) <= 0
}
