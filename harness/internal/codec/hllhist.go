package codec

import (
	"bytes"
	"encoding/gob"
	"encoding/json"
	"fmt"
	"math"

	"gonum.org/v1/gonum/verifharness/internal/core"
)

// Decoder histories on an initialised receiver ("hist" records of specs/codec/HllHist.tla): the specification
// prints, for every operation of a history, the documented result and the precision and registers the receiver
// must have afterwards; the harness does the operations on a real sketch, reads the sketch back through its own
// MarshalBinary after each one and compares. Count() is compared only with itself: reads the specification
// marks with the same state number must return the same number.

type hhState struct {
	P  int      `json:"p"`
	N  int      `json:"n"`
	NZ [][2]int `json:"nz"`
}

func (s hhState) regs() []int {
	r := make([]int, s.N)
	for _, x := range s.NZ {
		if x[0] >= 0 && x[0] < s.N {
			r[x[0]] = x[1]
		}
	}
	return r
}

type hhBlob struct {
	Size    int      `json:"size"`
	H       int      `json:"h"`
	P       int      `json:"p"`
	N       int      `json:"n"`
	NZ      [][2]int `json:"nz"`
	CutF    int      `json:"cutf"`
	CutPart int      `json:"cutpart"`
}

type hhOp struct {
	Op   string       `json:"op"`
	Cls  string       `json:"cls"`
	O    [2]int       `json:"o"`
	Blob hhBlob       `json:"blob"`
	Src  hllSketchRec `json:"src"`
	Res  string       `json:"res"`
	St   hhState      `json:"st"`
	Sid  int          `json:"sid"`
}

type hhCase struct {
	K   string  `json:"k"`
	W   int     `json:"w"`
	Ini int     `json:"ini"`
	H   int     `json:"h"`
	P   int     `json:"p"`
	Obs obsList `json:"obs"`
	St  hhState `json:"st"`
	Ops []hhOp  `json:"ops"`
}

func (s sk) reset() {
	if s.w == 64 {
		s.h64.Reset()
		return
	}
	s.h32.Reset()
}

var hashNames = map[[2]int]string{}

// hashName is the name MarshalBinary writes for hash token tok: read from a real encoding.
func hashName(w, tok int) (string, error) {
	if n, ok := hashNames[[2]int{w, tok}]; ok {
		return n, nil
	}
	ref, err := newSk(w, 4, tok)
	if err != nil {
		return "", err
	}
	b, err := ref.marshal()
	if err != nil {
		return "", err
	}
	f, err := readFields(b)
	if err != nil {
		return "", err
	}
	hashNames[[2]int{w, tok}] = f.name
	return f.name, nil
}

// blobBytes writes the blob's four fields in the documented form (one gob value each) and cuts the result where
// the record says: after cutf complete fields (cutpart 0), one byte further (1), or one byte short of the end of
// the next field (2). cutf = 4: the complete encoding.
func blobBytes(w int, b hhBlob) ([]byte, error) {
	name, err := hashName(w, b.H)
	if err != nil {
		return nil, err
	}
	reg := make([]uint8, b.N)
	for _, x := range b.NZ {
		if x[0] >= 0 && x[0] < b.N {
			reg[x[0]] = uint8(x[1])
		}
	}
	vals := []any{uint8(b.Size), name, uint8(b.P), reg}
	var buf bytes.Buffer
	enc := gob.NewEncoder(&buf)
	bound := []int{0}
	for _, v := range vals {
		if err := enc.Encode(v); err != nil {
			return nil, err
		}
		bound = append(bound, buf.Len())
	}
	full := buf.Bytes()
	if b.CutF >= 4 {
		return full, nil
	}
	if b.CutF < 0 || bound[b.CutF+1]-bound[b.CutF] < 3 {
		return nil, fmt.Errorf("cannot cut inside field %d (bounds %v)", b.CutF, bound)
	}
	switch b.CutPart {
	case 0:
		return full[:bound[b.CutF]], nil
	case 1:
		return full[:bound[b.CutF]+1], nil
	case 2:
		return full[:bound[b.CutF+1]-1], nil
	}
	return nil, fmt.Errorf("unknown cut part %d", b.CutPart)
}

func replayHllHist(line []byte, sum *core.Summary) error {
	var c hhCase
	if err := json.Unmarshal(line, &c); err != nil {
		return err
	}
	var raw any
	json.Unmarshal(line, &raw)
	sum.Cases++
	sum.Nontrivial++
	typ := fmt.Sprintf("card.HyperLogLog%d", c.W)
	fail := func(kind, f string, a ...any) { sum.Fail("codec:"+typ+"."+kind, fmt.Sprintf(f, a...), raw) }

	recv, err := buildSk(c.W, &hllSketchRec{H: c.H, P: c.P, Obs: c.Obs})
	if err != nil {
		fail("New:error", "New(%d, hash %d): %v", c.P, c.H, err)
		return nil
	}
	counts := map[int]float64{}
	// read the receiver back and compare with the state the specification printed; false: stop this history
	check := func(i int, what, kind string, st hhState, sid int) bool {
		var p int
		var reg []int
		var cnt float64
		var err error
		o := core.Call(func() {
			p, reg, err = recv.state()
			cnt = recv.count()
		})
		if o.Panicked {
			fail(kind+":unusable", "operation %d (%s): reading the receiver back panicked: %s", i, what, o.Text)
			return false
		}
		if err != nil || p != st.P || !eqInts(reg, st.regs()) {
			fail(kind, "operation %d (%s): receiver has p=%d and %d registers %v (err %v); specification: p=%d, %d registers %v",
				i, what, p, len(reg), reg, err, st.P, st.N, st.regs())
			return false
		}
		if old, ok := counts[sid]; ok && math.Float64bits(old) != math.Float64bits(cnt) {
			fail("Count:same-state-different-count", "operation %d (%s): Count() = %v, it was %v when the sketch had the same precision and registers", i, what, cnt, old)
			return false
		}
		counts[sid] = cnt
		return true
	}
	if !check(0, "prepared", "Write:registers", c.St, 1) {
		return nil
	}
	curP := c.St.P
	for i, op := range c.Ops {
		what := op.Op
		if op.Cls != "" {
			what += " " + op.Cls
		}
		kind := "history:" + op.Op + ":state"
		var opErr error
		var setup error
		o := core.Call(func() {
			switch op.Op {
			case "nop":
			case "write":
				recv.observe(curP, op.O)
			case "reset":
				recv.reset()
			case "union":
				src, err := buildSk(c.W, &op.Src)
				if err != nil {
					setup = err
					return
				}
				opErr = recv.union(recv, src)
			case "decode":
				data, err := blobBytes(c.W, op.Blob)
				if err != nil {
					setup = err
					return
				}
				opErr = recv.unmarshal(data)
			default:
				setup = fmt.Errorf("unknown operation %q", op.Op)
			}
		})
		if setup != nil {
			return fmt.Errorf("operation %d (%s): %v", i+1, what, setup)
		}
		sum.Count("hist_ops_"+op.Op+"_"+op.Res, 1)
		if o.Panicked {
			fail("history:"+op.Op+":panic", "operation %d (%s) panicked: %s", i+1, what, o.Text)
			return nil
		}
		switch op.Op {
		case "decode":
			if op.Res == "error" {
				kind = "UnmarshalBinary:rejected-input-changed-receiver"
				if opErr == nil {
					use := core.Call(func() { recv.observe(op.Blob.P, [2]int{1, 0}) })
					fail("UnmarshalBinary:accepts-malformed:"+op.Cls, "operation %d (%s): blob size=%d hash=%d p=%d with %d registers, cut %d/%d, decoded without error "+
						"(a sketch has 2^p registers, 4 <= p <= %d); a Write into the receiver afterwards: panicked=%v %s",
						i+1, what, op.Blob.Size, op.Blob.H, op.Blob.P, op.Blob.N, op.Blob.CutF, op.Blob.CutPart, c.W, use.Panicked, use.Text)
					return nil
				}
			} else {
				kind = "UnmarshalBinary:value-into-used-receiver"
				if opErr != nil {
					fail("UnmarshalBinary:rejects-wellformed", "operation %d (%s): %v", i+1, what, opErr)
					return nil
				}
			}
		case "union":
			if op.Res == "error" {
				kind = "Union:rejected-call-changed-receiver"
				if opErr == nil {
					fail("Union:accepts-incompatible", "operation %d (%s): nil error", i+1, what)
					return nil
				}
			} else {
				kind = "Union:value"
				if opErr != nil {
					fail("Union:rejects-compatible", "operation %d (%s): %v", i+1, what, opErr)
					return nil
				}
			}
		}
		if !check(i+1, what, kind, op.St, op.Sid) {
			return nil
		}
		curP = op.St.P
	}
	return nil
}
