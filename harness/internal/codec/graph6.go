// Package codec binds the specifications in specs/codec to gonum's encoders
// and decoders. It contains no encoding arithmetic of its own: every expected
// byte string, classification and decoded value comes from what TLC printed.
package codec

import (
	"encoding/json"
	"fmt"
	"sort"
	"strings"

	"gonum.org/v1/gonum/graph"
	"gonum.org/v1/gonum/graph/encoding/digraph6"
	"gonum.org/v1/gonum/graph/encoding/graph6"
	"gonum.org/v1/gonum/graph/simple"

	"gonum.org/v1/gonum/verifharness/internal/core"
)

func init() {
	core.RegisterReplay("codec-graph6", replayGraph6)
}

type byteSeq struct {
	Bytes []int `json:"bytes"`
}

func (b byteSeq) str() string {
	bs := make([]byte, len(b.Bytes))
	for i, x := range b.Bytes {
		bs[i] = byte(x)
	}
	return string(bs)
}

// g6Case is one line printed by Graph6.tla (k = "g": a graph with its expected
// encoding; k = "s": a byte string with its expected classification and value).
type g6Case struct {
	K        string     `json:"k"`
	Dir      bool       `json:"dir"`
	N        int        `json:"n"`
	Edges    [][2]int64 `json:"edges"`
	Enc      *byteSeq   `json:"enc,omitempty"`
	S        *byteSeq   `json:"s,omitempty"`
	Cls      string     `json:"cls,omitempty"`
	Loops    []int64    `json:"loops"`
	Canon    bool       `json:"canon"`
	PadClean bool       `json:"padclean"`
	Reenc    *byteSeq   `json:"reenc,omitempty"`
	IDMap    string     `json:"idmap,omitempty"`
	// k = "gid" (Graph6Ids.tla): a graph on an arbitrary node ID set
	Ids      []string    `json:"ids,omitempty"`  // decimal IDs, ascending
	Arcs     [][2]string `json:"arcs,omitempty"` // arcs (digraph6) / edges, smaller end first (graph6), as pairs of IDs
	Sym      bool        `json:"sym,omitempty"`
	Boundary bool        `json:"boundary,omitempty"`
	Cont     string      `json:"cont,omitempty"` // container (set in failure cases: replay only this one)
	Order    int         `json:"order,omitempty"`
}

// idOf maps model node i (0..n-1) to a real node id; every map is strictly
// increasing, which is all the documentation of Encode refers to ("lexical
// ordering of the nodes by ID").
func idOf(idmap string, i int64) int64 {
	switch idmap {
	case "spread":
		return i*1000 + 7
	case "neg":
		return i*3 - 100
	case "extreme":
		return i*(1<<40) - (1 << 62)
	default:
		return i
	}
}

type pair struct{ u, v int64 }

func pairSetString(m map[pair]bool) string {
	var ps []pair
	for p := range m {
		ps = append(ps, p)
	}
	sort.Slice(ps, func(i, j int) bool {
		if ps[i].u != ps[j].u {
			return ps[i].u < ps[j].u
		}
		return ps[i].v < ps[j].v
	})
	var sb strings.Builder
	for _, p := range ps {
		fmt.Fprintf(&sb, "(%d,%d)", p.u, p.v)
	}
	return sb.String()
}

// decoded is the common face of graph6.Graph and digraph6.Graph.
type decoded interface {
	graph.Graph
}

func mkDecoded(dir bool, s string) (decoded, func() bool) {
	if dir {
		g := digraph6.Graph(s)
		return g, func() bool { return digraph6.IsValid(g) }
	}
	g := graph6.Graph(s)
	return g, func() bool { return graph6.IsValid(g) }
}

func fmtName(dir bool) string {
	if dir {
		return "digraph6"
	}
	return "graph6"
}

// drain enumerates an iterator with a hard bound; it reports nil iterators
// and iterators whose Len disagrees with what Next yields.
func drain(what string, it graph.Nodes, bound int, errs *[]string) (map[int64]bool, bool) {
	if it == nil {
		return nil, false
	}
	got := map[int64]bool{}
	n := it.Len()
	cnt := 0
	for it.Next() {
		cnt++
		nd := it.Node()
		if nd == nil {
			*errs = append(*errs, what+": Node() nil during iteration")
			break
		}
		if got[nd.ID()] {
			*errs = append(*errs, fmt.Sprintf("%s: id %d enumerated twice", what, nd.ID()))
		}
		got[nd.ID()] = true
		if cnt > bound {
			*errs = append(*errs, what+": iterator yields more elements than the graph has nodes")
			break
		}
	}
	if n >= 0 && n != cnt {
		*errs = append(*errs, fmt.Sprintf("%s: Len()=%d but Next yielded %d", what, n, cnt))
	}
	it.Reset()
	return got, true
}

// checkString applies every query of the decoded-graph type to the string and
// compares with the specification's classification and decoded graph.
// It returns (signature suffix, message) pairs.
type problem struct{ kind, msg string }

func checkString(c *g6Case, s string) (probs []problem, valid bool) {
	name := fmtName(c.Dir)
	add := func(kind, f string, a ...any) { probs = append(probs, problem{kind, fmt.Sprintf(f, a...)}) }
	g, isValid := mkDecoded(c.Dir, s)

	o := core.Call(func() { valid = isValid() })
	if o.Panicked {
		add("IsValid:panic", "%s.IsValid(%q) panicked: %s", name, s, o.Text)
		return probs, false
	}
	switch c.Cls {
	case "valid":
		if !valid {
			add("IsValid:rejects-valid", "%s.IsValid(%q) = false for a strictly valid encoding (n=%d)", name, s, c.N)
			return probs, false
		}
	case "invalid":
		if valid {
			add("IsValid:accepts-invalid", "%s.IsValid(%q) = true for an invalid string", name, s)
		}
	}

	// GoString is part of the value's face; a panic here is reported under its own signature.
	if gs, ok := g.(fmt.GoStringer); ok {
		o := core.Call(func() { _ = gs.GoString() })
		if o.Panicked {
			what := "valid"
			if !valid {
				what = "invalid"
			}
			add("GoString:panic-on-"+what, "%s.Graph(%q).GoString() panicked: %s", name, s, o.Text)
		}
	}

	n := int64(c.N)
	if !valid || c.Cls == "invalid" {
		n = 0 // documented: behaves as the null graph
	}
	want := map[pair]bool{}
	loops := map[int64]bool{}
	if n > 0 {
		for _, e := range c.Edges {
			want[pair{e[0], e[1]}] = true
			if !c.Dir {
				want[pair{e[1], e[0]}] = true
			}
		}
		for _, l := range c.Loops {
			loops[l] = true
		}
	}

	o = core.Call(func() {
		var errs []string
		nodes, ok := drain("Nodes()", g.Nodes(), int(n)+2, &errs)
		if !ok {
			add("Nodes:nil", "%s.Graph(%q).Nodes() returned nil", name, s)
			return
		}
		if int64(len(nodes)) != n {
			add("Nodes:wrong", "%s.Graph(%q).Nodes() has %d nodes, specification says %d (class %s)", name, s, len(nodes), n, c.Cls)
			return
		}
		for i := int64(0); i < n; i++ {
			if !nodes[i] {
				add("Nodes:wrong", "%s.Graph(%q).Nodes() lacks id %d", name, s, i)
				return
			}
		}
		for _, id := range []int64{-1, n, n + 1, 1 << 40} {
			if g.Node(id) != nil {
				add("Nodes:wrong", "%s.Graph(%q).Node(%d) != nil for an absent id (n=%d)", name, s, id, n)
			}
			if it := g.From(id); it == nil {
				add("From:nil-for-absent-id", "%s.Graph(%q).From(%d) returned nil for an id not in the graph (graph.Graph: From must not return nil)", name, s, id)
			} else if it.Len() != 0 || it.Next() {
				add("edges:wrong", "%s.Graph(%q).From(%d) not empty for an absent id", name, s, id)
			}
			if d, ok := g.(graph.Directed); ok {
				if it := d.To(id); it == nil {
					add("To:nil-for-absent-id", "%s.Graph(%q).To(%d) returned nil for an id not in the graph", name, s, id)
				} else if it.Len() != 0 || it.Next() {
					add("edges:wrong", "%s.Graph(%q).To(%d) not empty for an absent id", name, s, id)
				}
			}
			if g.HasEdgeBetween(id, 0) || g.HasEdgeBetween(0, id) || g.Edge(id, 0) != nil || g.Edge(0, id) != nil {
				add("edges:wrong", "%s.Graph(%q) reports an edge at absent id %d", name, s, id)
			}
		}
		got := map[pair]bool{}
		for u := int64(0); u < n; u++ {
			if nd := g.Node(u); nd == nil || nd.ID() != u {
				add("Nodes:wrong", "%s.Graph(%q).Node(%d) = %v", name, s, u, nd)
			}
			fr, ok := drain(fmt.Sprintf("From(%d)", u), g.From(u), int(n)+2, &errs)
			if !ok {
				add("From:nil", "%s.Graph(%q).From(%d) returned nil for a node of the graph", name, s, u)
				return
			}
			for v := range fr {
				got[pair{u, v}] = true
			}
		}
		// got must contain every specified edge; anything else may only be a diagonal bit
		for p := range want {
			if !got[p] {
				add("edges:wrong", "%s.Graph(%q): From misses edge %d->%d; got %s want %s", name, s, p.u, p.v, pairSetString(got), pairSetString(want))
				return
			}
		}
		for p := range got {
			if !want[p] && !(p.u == p.v && loops[p.u]) {
				add("edges:wrong", "%s.Graph(%q): From has extra edge %d->%d; got %s want %s", name, s, p.u, p.v, pairSetString(got), pairSetString(want))
				return
			}
		}
		d, isDir := g.(graph.Directed)
		for u := int64(0); u < n; u++ {
			if isDir {
				to, ok := drain(fmt.Sprintf("To(%d)", u), d.To(u), int(n)+2, &errs)
				if !ok {
					add("To:nil", "%s.Graph(%q).To(%d) returned nil", name, s, u)
					return
				}
				for v := int64(0); v < n; v++ {
					if u != v && to[v] != want[pair{v, u}] {
						add("edges:wrong", "%s.Graph(%q).To(%d) contains %d = %v, specification %v", name, s, u, v, to[v], want[pair{v, u}])
					}
				}
			}
			for v := int64(0); v < n; v++ {
				if u == v && loops[u] {
					continue
				}
				w := want[pair{u, v}]
				wb := w || want[pair{v, u}]
				if g.HasEdgeBetween(u, v) != wb {
					add("edges:wrong", "%s.Graph(%q).HasEdgeBetween(%d,%d) = %v, specification %v", name, s, u, v, !wb, wb)
				}
				if isDir && d.HasEdgeFromTo(u, v) != w {
					add("edges:wrong", "%s.Graph(%q).HasEdgeFromTo(%d,%d) = %v, specification %v", name, s, u, v, !w, w)
				}
				e := g.Edge(u, v)
				if (e != nil) != w {
					add("edges:wrong", "%s.Graph(%q).Edge(%d,%d) nil=%v, specification edge=%v", name, s, u, v, e == nil, w)
				} else if e != nil && (e.From().ID() != u || e.To().ID() != v) {
					add("edges:wrong", "%s.Graph(%q).Edge(%d,%d) has ends %d,%d", name, s, u, v, e.From().ID(), e.To().ID())
				}
			}
		}
		for _, e := range errs {
			add("iterator:contract", "%s.Graph(%q) %s", name, s, e)
		}
	})
	if o.Panicked {
		add("query:panic", "%s.Graph(%q) query panicked (class %s): %s", name, s, c.Cls, o.Text)
	}

	// decode then encode: the specification's normal form (for invalid strings: the null graph's encoding is not
	// asserted, only totality)
	var re string
	o = core.Call(func() {
		if c.Dir {
			re = string(digraph6.Encode(g))
		} else {
			re = string(graph6.Encode(g))
		}
	})
	if o.Panicked {
		add("Encode:panic-on-decoded", "%s.Encode(Graph(%q)) panicked: %s", name, s, o.Text)
	} else if valid && c.Cls != "invalid" && len(c.Loops) == 0 && re != c.Reenc.str() {
		add("Encode:reencode-differs", "%s.Encode(Graph(%q)) = %q, specification %q", name, s, re, c.Reenc.str())
	}
	return probs, valid
}

func replayGraph6(in *core.Lines, args []string, seed int64, sum *core.Summary) error {
	idmaps := []string{"identity"}
	for _, a := range args {
		if strings.HasPrefix(a, "idmaps=") {
			idmaps = strings.Split(a[len("idmaps="):], ",")
		}
	}
	for {
		line, ok := in.Next()
		if !ok {
			break
		}
		var c g6Case
		if err := json.Unmarshal(line, &c); err != nil {
			return fmt.Errorf("line %d: %v", in.N, err)
		}
		name := fmtName(c.Dir)
		switch c.K {
		case "g":
			want := c.Enc.str()
			maps := idmaps
			if c.IDMap != "" {
				maps = []string{c.IDMap}
			}
			for _, im := range maps {
				sum.Cases++
				if len(c.Edges) > 0 {
					sum.Nontrivial++
				}
				cc := c
				cc.IDMap = im
				var got string
				o := core.Call(func() {
					if c.Dir {
						g := simple.NewDirectedGraph()
						for i := 0; i < c.N; i++ {
							g.AddNode(simple.Node(idOf(im, int64(i))))
						}
						for _, e := range c.Edges {
							g.SetEdge(simple.Edge{F: simple.Node(idOf(im, e[0])), T: simple.Node(idOf(im, e[1]))})
						}
						got = string(digraph6.Encode(g))
					} else {
						g := simple.NewUndirectedGraph()
						for i := 0; i < c.N; i++ {
							g.AddNode(simple.Node(idOf(im, int64(i))))
						}
						for _, e := range c.Edges {
							g.SetEdge(simple.Edge{F: simple.Node(idOf(im, e[0])), T: simple.Node(idOf(im, e[1]))})
						}
						got = string(graph6.Encode(g))
					}
				})
				if o.Panicked {
					sum.Fail("codec:"+name+".Encode:panic", fmt.Sprintf("Encode panicked on n=%d edges=%v idmap=%s: %s", c.N, c.Edges, im, o.Text), cc)
					continue
				}
				if got != want {
					sum.Fail("codec:"+name+".Encode:bytes", fmt.Sprintf("Encode(n=%d, edges=%v, idmap=%s) = %q, specification %q", c.N, c.Edges, im, got, want), cc)
				}
			}
			// decode the specification's encoding and compare as a graph
			sum.Cases++
			sc := c
			sc.K, sc.S, sc.Cls, sc.Reenc, sc.Canon, sc.PadClean = "s", c.Enc, "valid", c.Enc, true, true
			probs, _ := checkString(&sc, want)
			for _, p := range probs {
				sum.Fail("codec:"+name+"."+p.kind, p.msg, sc)
			}
			sum.Count("graphs", 1)
			if c.N >= 63 {
				sum.Count("graphs_wide_header", 1)
			}
			if sum.Cases%997 == 1 {
				sum.Sample(map[string]any{"n": c.N, "edges": len(c.Edges), "enc": want, "dir": c.Dir})
			}
		case "s":
			sum.Cases++
			s := c.S.str()
			probs, valid := checkString(&c, s)
			for _, p := range probs {
				sum.Fail("codec:"+name+"."+p.kind, p.msg, c)
			}
			if c.Cls != "invalid" {
				sum.Nontrivial++
			}
			sum.Count("strings_"+c.Cls, 1)
			if c.Cls == "lax" {
				if valid {
					sum.Count("lax_accepted", 1)
				} else {
					sum.Count("lax_rejected", 1)
				}
			}
			if c.Cls != "invalid" && sum.Cases%499 == 1 {
				sum.Sample(map[string]any{"s": s, "cls": c.Cls, "n": c.N, "edges": len(c.Edges), "dir": c.Dir})
			}
		case "gid":
			if err := replayGid(&c, in.N, seed, sum); err != nil {
				return err
			}
		default:
			return fmt.Errorf("line %d: unknown record kind %q", in.N, c.K)
		}
	}
	return nil
}
