package codec

import (
	"encoding/json"
	"fmt"
	"io"
	"strings"
	"time"

	"gonum.org/v1/gonum/graph/encoding/dot"
	"gonum.org/v1/gonum/graph/formats/rdf"
	"gonum.org/v1/gonum/graph/multi"
	"gonum.org/v1/gonum/graph/simple"

	"gonum.org/v1/gonum/verifharness/internal/core"
)

func init() {
	core.RegisterReplay("codec-total", replayTotal)
}

type tokCase struct {
	K      string `json:"k"`
	Family string `json:"family"`
	Base   bool   `json:"base"`
	Tokens struct {
		List []string `json:"list"`
	} `json:"tokens"`
}

// replayTotal feeds token-level corruptions of DOT and N-Quads documents (TokenCorrupt.tla) to the decoders.
// The specification's only expectation is totality: error or a consistent value; no panic, no hang.
func replayTotal(in *core.Lines, args []string, seed int64, sum *core.Summary) error {
	for {
		line, ok := in.Next()
		if !ok {
			break
		}
		var c tokCase
		if err := json.Unmarshal(line, &c); err != nil {
			return fmt.Errorf("line %d: %v", in.N, err)
		}
		var raw any
		json.Unmarshal(line, &raw)
		for _, sep := range []string{" ", "\n", ""} {
			doc := strings.Join(c.Tokens.List, sep)
			sum.Cases++
			switch c.Family {
			case "dot":
				for _, api := range []string{"Unmarshal", "UnmarshalMulti"} {
					var err error
					problem := ""
					o := core.CallTimeout(10*time.Second, func() {
						if api == "Unmarshal" {
							dst := dstDirected{simple.NewDirectedGraph()}
							err = dot.Unmarshal([]byte(doc), dst)
							if err == nil {
								// the value is a consistent graph: every edge joins nodes of the graph
								ns := dst.Nodes()
								for ns.Next() {
									u := ns.Node()
									to := dst.From(u.ID())
									for to.Next() {
										if dst.Node(to.Node().ID()) == nil || dst.Edge(u.ID(), to.Node().ID()) == nil {
											problem = fmt.Sprintf("edge %d->%d without node or edge object", u.ID(), to.Node().ID())
										}
									}
								}
							}
						} else {
							dst := dstMultiDirected{multi.NewDirectedGraph()}
							err = dot.UnmarshalMulti([]byte(doc), dst)
						}
					})
					switch {
					case o.Hung:
						sum.Fail("codec:dot."+api+":hang-on-corrupt", fmt.Sprintf("%s(%q) did not return", api, doc), raw)
					case o.Panicked:
						sum.Fail("codec:dot."+api+":panic-on-corrupt", fmt.Sprintf("%s(%q) panicked: %s", api, doc, o.Text), raw)
					case problem != "":
						sum.Fail("codec:dot."+api+":inconsistent-value", fmt.Sprintf("%s(%q): %s", api, doc, problem), raw)
					case err == nil:
						sum.Count("dot_accepted", 1)
						if api == "Unmarshal" {
							sum.Nontrivial++
						}
					default:
						sum.Count("dot_rejected", 1)
					}
				}
			case "nq":
				var err error
				var st *rdf.Statement
				o := core.CallTimeout(10*time.Second, func() { st, err = rdf.ParseNQuad(doc) })
				switch {
				case o.Hung:
					sum.Fail("codec:rdf.ParseNQuad:hang-on-corrupt", fmt.Sprintf("ParseNQuad(%q) did not return", doc), raw)
				case o.Panicked:
					sum.Fail("codec:rdf.ParseNQuad:panic-on-corrupt", fmt.Sprintf("ParseNQuad(%q) panicked: %s", doc, o.Text), raw)
				case err == nil:
					sum.Count("nq_accepted", 1)
					sum.Nontrivial++
					// an accepted statement is well formed: its terms have parts, and it prints to something that parses
					// to the same statement
					o2 := core.Call(func() {
						for _, t := range []rdf.Term{st.Subject, st.Predicate, st.Object} {
							if _, _, k, perr := t.Parts(); perr != nil || k == rdf.Invalid {
								sum.Fail("codec:rdf.ParseNQuad:inconsistent-value", fmt.Sprintf("ParseNQuad(%q) accepted, but term %q has no parts (%v)", doc, t.Value, perr), raw)
								return
							}
						}
						again, e2 := rdf.ParseNQuad(st.String())
						if e2 != nil || again.String() != st.String() {
							sum.Fail("codec:rdf.ParseNQuad:inconsistent-value", fmt.Sprintf("ParseNQuad(%q) accepted, printed as %q which parses to (%v, %v)", doc, st.String(), again, e2), raw)
						}
					})
					if o2.Panicked {
						sum.Fail("codec:rdf.ParseNQuad:panic-on-corrupt", fmt.Sprintf("using the statement parsed from %q panicked: %s", doc, o2.Text), raw)
					}
				default:
					sum.Count("nq_rejected", 1)
				}
				// the stream decoder on the same text followed by a valid line
				o = core.CallTimeout(10*time.Second, func() {
					dec := rdf.NewDecoder(strings.NewReader(doc + "\n<http://a> <http://p> <http://b> .\n"))
					for i := 0; i < 100; i++ {
						_, e := dec.Unmarshal()
						if e == io.EOF {
							return
						}
					}
				})
				if o.Hung || o.Panicked {
					sum.Fail("codec:rdf.Decoder.Unmarshal:panic-on-corrupt", fmt.Sprintf("Decoder on %q: hung=%v %s", doc, o.Hung, o.Text), raw)
				}
			default:
				return fmt.Errorf("line %d: unknown family %q", in.N, c.Family)
			}
		}
		if sum.Cases%3000 == 1 {
			sum.Sample(map[string]any{"family": c.Family, "tokens": c.Tokens.List})
		}
	}
	return nil
}
