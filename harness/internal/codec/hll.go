package codec

import (
	"bytes"
	"encoding/binary"
	"encoding/gob"
	"encoding/json"
	"fmt"
	"hash"

	"gonum.org/v1/gonum/stat/card"

	"gonum.org/v1/gonum/verifharness/internal/core"
)

func init() {
	core.RegisterReplay("codec-hll", replayHll)
	card.RegisterHash(func() hash.Hash64 { return &idA64{} })
	card.RegisterHash(func() hash.Hash64 { return &idB64{} })
	card.RegisterHash(func() hash.Hash32 { return &idA32{} })
	card.RegisterHash(func() hash.Hash32 { return &idB32{} })
}

// Identity hashes: the hash value of an observation is the number the observation spells (big endian), so the
// register an observation touches and the rank it carries are the ones the specification chose.
type idHash struct{ buf []byte }

func (h *idHash) Write(p []byte) (int, error) { h.buf = append(h.buf[:0], p...); return len(p), nil }
func (h *idHash) Sum(b []byte) []byte         { return append(b, h.buf...) }
func (h *idHash) Reset()                      { h.buf = h.buf[:0] }
func (h *idHash) BlockSize() int              { return 1 }

type id64 struct{ idHash }

func (h *id64) Size() int { return 8 }
func (h *id64) Sum64() uint64 {
	var b [8]byte
	copy(b[:], h.buf)
	return binary.BigEndian.Uint64(b[:])
}

type id32 struct{ idHash }

func (h *id32) Size() int { return 4 }
func (h *id32) Sum32() uint32 {
	var b [4]byte
	copy(b[:], h.buf)
	return binary.BigEndian.Uint32(b[:])
}

// three distinct hash types per width: A and B are registered with card.RegisterHash, C is not
type idA64 struct{ id64 }
type idB64 struct{ id64 }
type idC64 struct{ id64 }
type idA32 struct{ id32 }
type idB32 struct{ id32 }
type idC32 struct{ id32 }

func hash64(tok int) hash.Hash64 {
	switch tok {
	case 1:
		return &idA64{}
	case 2:
		return &idB64{}
	case 3:
		return &idC64{}
	}
	return nil
}

func hash32(tok int) hash.Hash32 {
	switch tok {
	case 1:
		return &idA32{}
	case 2:
		return &idB32{}
	case 3:
		return &idC32{}
	}
	return nil
}

// sk is the width-independent face of a sketch.
type sk struct {
	w   int
	h64 *card.HyperLogLog64
	h32 *card.HyperLogLog32
}

func newSk(w, p, tok int) (sk, error) {
	if w == 64 {
		if tok == 0 {
			h, err := card.NewHyperLogLog64(p, nil)
			return sk{w: w, h64: h}, err
		}
		h, err := card.NewHyperLogLog64(p, hash64(tok))
		return sk{w: w, h64: h}, err
	}
	if tok == 0 {
		h, err := card.NewHyperLogLog32(p, nil)
		return sk{w: w, h32: h}, err
	}
	h, err := card.NewHyperLogLog32(p, hash32(tok))
	return sk{w: w, h32: h}, err
}

func zeroSk(w int) sk {
	if w == 64 {
		return sk{w: w, h64: new(card.HyperLogLog64)}
	}
	return sk{w: w, h32: new(card.HyperLogLog32)}
}

func (s sk) name() string { return fmt.Sprintf("card.HyperLogLog%d", s.w) }

// observe writes the observation <<idx, k>> of the specification: hash value idx*2^q + rest, rest = 2^k or 0 (k = 99).
func (s sk) observe(p int, o [2]int) {
	q := uint(s.w - p)
	var rest uint64
	if o[1] != 99 {
		rest = 1 << uint(o[1])
	}
	x := uint64(o[0])<<q | rest
	if s.w == 64 {
		var b [8]byte
		binary.BigEndian.PutUint64(b[:], x)
		s.h64.Write(b[:])
		return
	}
	var b [4]byte
	binary.BigEndian.PutUint32(b[:], uint32(x))
	s.h32.Write(b[:])
}

func (s sk) marshal() ([]byte, error) {
	if s.w == 64 {
		return s.h64.MarshalBinary()
	}
	return s.h32.MarshalBinary()
}

func (s sk) unmarshal(b []byte) error {
	if s.w == 64 {
		return s.h64.UnmarshalBinary(b)
	}
	return s.h32.UnmarshalBinary(b)
}

func (s sk) count() float64 {
	if s.w == 64 {
		return s.h64.Count()
	}
	return s.h32.Count()
}

func (s sk) union(a, b sk) error {
	if s.w == 64 {
		return s.h64.Union(a.h64, b.h64)
	}
	return s.h32.Union(a.h32, b.h32)
}

func (s sk) setHash(tok int) error {
	if s.w == 64 {
		return s.h64.SetHash(hash64(tok))
	}
	return s.h32.SetHash(hash32(tok))
}

// fields reads the four fields of the documented binary form (size, hash name, precision, registers).
type hllFields struct {
	size uint8
	name string
	p    uint8
	reg  []uint8
}

func readFields(b []byte) (f hllFields, err error) {
	dec := gob.NewDecoder(bytes.NewReader(b))
	for _, v := range []any{&f.size, &f.name, &f.p, &f.reg} {
		if err = dec.Decode(v); err != nil {
			return f, err
		}
	}
	return f, nil
}

func writeFields(f hllFields) []byte {
	var buf bytes.Buffer
	enc := gob.NewEncoder(&buf)
	for _, v := range []any{f.size, f.name, f.p, f.reg} {
		if err := enc.Encode(v); err != nil {
			panic(err)
		}
	}
	return buf.Bytes()
}

// state returns precision and registers of a sketch as its own marshaller reports them.
func (s sk) state() (int, []int, error) {
	b, err := s.marshal()
	if err != nil {
		return 0, nil, err
	}
	f, err := readFields(b)
	if err != nil {
		return 0, nil, err
	}
	r := make([]int, len(f.reg))
	for i, x := range f.reg {
		r[i] = int(x)
	}
	return int(f.p), r, nil
}

func eqInts(a, b []int) bool {
	if len(a) != len(b) {
		return false
	}
	for i := range a {
		if a[i] != b[i] {
			return false
		}
	}
	return true
}

type obsList struct {
	List [][2]int `json:"list"`
}
type hllSketchRec struct {
	H   int     `json:"h"`
	P   int     `json:"p"`
	Obs obsList `json:"obs"`
}
type hllCase struct {
	K        string        `json:"k"`
	W        int           `json:"w"`
	H        int           `json:"h"`
	P        int           `json:"p"`
	Obs      obsList       `json:"obs"`
	RecvW    int           `json:"recvw"`
	RecvH    int           `json:"recvh"`
	Expect   string        `json:"expect"`
	Reg      any           `json:"reg"`
	More     obsList       `json:"more"`
	RegAfter []int         `json:"regafter"`
	A        *hllSketchRec `json:"a,omitempty"`
	B        *hllSketchRec `json:"b,omitempty"`
	Alias    string        `json:"alias,omitempty"`
	RH       int           `json:"rh"`
	NewH     int           `json:"newh"`
	Size     int           `json:"size"`
	RegLen   int           `json:"reglen"`
}

func regOf(v any) []int {
	if m, ok := v.(map[string]any); ok {
		v = m["list"]
	}
	xs, _ := v.([]any)
	out := make([]int, len(xs))
	for i, x := range xs {
		out[i] = int(x.(float64))
	}
	return out
}

func buildSk(w int, r *hllSketchRec) (sk, error) {
	s, err := newSk(w, r.P, r.H)
	if err != nil {
		return s, err
	}
	for _, o := range r.Obs.List {
		s.observe(r.P, o)
	}
	return s, nil
}

func replayHll(in *core.Lines, args []string, seed int64, sum *core.Summary) error {
	for {
		line, ok := in.Next()
		if !ok {
			break
		}
		var c hllCase
		if err := json.Unmarshal(line, &c); err != nil {
			return fmt.Errorf("line %d: %v", in.N, err)
		}
		if c.K == "hist" {
			if err := replayHllHist(line, sum); err != nil {
				return fmt.Errorf("line %d: %v", in.N, err)
			}
			if sum.Cases%1500 == 11 {
				var raw any
				json.Unmarshal(line, &raw)
				sum.Sample(raw)
			}
			continue
		}
		var raw any
		json.Unmarshal(line, &raw)
		sum.Cases++
		typ := fmt.Sprintf("card.HyperLogLog%d", c.W)
		fail := func(kind, f string, a ...any) { sum.Fail("codec:"+typ+"."+kind, fmt.Sprintf(f, a...), raw) }
		o := core.Call(func() {
			switch c.K {
			case "rt":
				src, err := buildSk(c.W, &hllSketchRec{H: c.H, P: c.P, Obs: c.Obs})
				if err != nil {
					fail("New:error", "New(%d, hash %d): %v", c.P, c.H, err)
					return
				}
				p, reg, err := src.state()
				if err != nil {
					fail("MarshalBinary:error", "marshal of a sketch with a hash function: %v", err)
					return
				}
				if p != c.P || !eqInts(reg, regOf(c.Reg)) {
					fail("Write:registers", "after observations %v: p=%d registers %v, specification p=%d %v", c.Obs.List, p, reg, c.P, regOf(c.Reg))
					return
				}
				data, _ := src.marshal()
				var recv sk
				if c.RecvH == 0 {
					recv = zeroSk(c.RecvW)
				} else {
					recv, _ = newSk(c.RecvW, 5, c.RecvH)
				}
				err = recv.unmarshal(data)
				sum.Count("rt_"+c.Expect, 1)
				if c.Expect == "error" {
					if err == nil {
						fail("UnmarshalBinary:accepts-incompatible", "sketch (width %d, hash %d) decoded into receiver (width %d, hash %d) without error", c.W, c.H, c.RecvW, c.RecvH)
					}
					return
				}
				sum.Nontrivial++
				if err != nil {
					fail("UnmarshalBinary:rejects-own-encoding", "sketch (width %d, hash %d, p %d) into receiver (hash %d): %v", c.W, c.H, c.P, c.RecvH, err)
					return
				}
				p, reg, err = recv.state()
				if err != nil || p != c.P || !eqInts(reg, regOf(c.Reg)) {
					fail("UnmarshalBinary:value", "decoded sketch has p=%d registers %v (err %v), specification p=%d %v", p, reg, err, c.P, regOf(c.Reg))
					return
				}
				for _, ob := range c.More.List {
					recv.observe(c.P, ob)
				}
				p, reg, err = recv.state()
				if err != nil || p != c.P || !eqInts(reg, c.RegAfter) {
					fail("UnmarshalBinary:continues", "decoded sketch after further observations %v: p=%d registers %v (err %v), specification %v", c.More.List, p, reg, err, c.RegAfter)
				}
				_ = recv.count()
			case "union":
				a, err1 := buildSk(c.W, c.A)
				b, err2 := buildSk(c.W, c.B)
				if err1 != nil || err2 != nil {
					fail("New:error", "%v %v", err1, err2)
					return
				}
				var recv sk
				switch c.Alias {
				case "a":
					recv = a
				case "b":
					recv = b
				default:
					recv, _ = newSk(c.W, 6, c.RH)
				}
				err := recv.union(a, b)
				sum.Count("union_"+c.Expect, 1)
				desc := fmt.Sprintf("Union(receiver %s hash %d; a: p=%d hash %d; b: p=%d hash %d)", c.Alias, c.RH, c.A.P, c.A.H, c.B.P, c.B.H)
				if c.Expect == "error" {
					if err == nil {
						fail("Union:accepts-incompatible", "%s returned nil error; documented: error if precisions or hash functions do not match", desc)
					}
					return
				}
				sum.Nontrivial++
				if err != nil {
					fail("Union:rejects-compatible", "%s returned %v", desc, err)
					return
				}
				if c.RH == 0 {
					// documented: the hash can be set afterwards
					if e := recv.setHash(c.A.H); e != nil {
						fail("SetHash:rejects-unset", "SetHash after Union into a receiver without hash function: %v", e)
						return
					}
				}
				p, reg, err := recv.state()
				if err != nil || p != c.A.P || !eqInts(reg, regOf(c.Reg)) {
					fail("Union:value", "%s: p=%d registers %v (err %v), specification p=%d %v", desc, p, reg, err, c.A.P, regOf(c.Reg))
				}
			case "sethash":
				recv, _ := newSk(c.W, 4, c.RH)
				err := recv.setHash(c.NewH)
				if c.Expect == "ok" && err != nil {
					fail("SetHash:rejects-unset", "SetHash on a receiver without hash function returned %v", err)
				} else if c.Expect == "error" && err == nil {
					fail("SetHash:replaces-set", "SetHash on a receiver with hash %d returned nil error; documented: error if the hash function is already set", c.RH)
				}
				if c.Expect == "ok" {
					sum.Nontrivial++
				}
			case "corrupt":
				// the stored hash name is taken from a real encoding of a sketch with that hash
				ref, _ := newSk(c.W, 4, c.H)
				refb, err := ref.marshal()
				if err != nil {
					fail("MarshalBinary:error", "%v", err)
					return
				}
				rf, _ := readFields(refb)
				data := writeFields(hllFields{size: uint8(c.Size), name: rf.name, p: uint8(c.P), reg: make([]uint8, c.RegLen)})
				var recv sk
				if c.RecvH == 0 {
					recv = zeroSk(c.W)
				} else {
					recv, _ = newSk(c.W, 4, c.RecvH)
				}
				err = recv.unmarshal(data)
				sum.Count("corrupt_"+c.Expect, 1)
				desc := fmt.Sprintf("encoding with size=%d hash=%d p=%d and %d registers into receiver with hash %d", c.Size, c.H, c.P, c.RegLen, c.RecvH)
				if c.Expect == "ok" {
					sum.Nontrivial++
					if err != nil {
						fail("UnmarshalBinary:rejects-wellformed", "%s: %v", desc, err)
					}
					return
				}
				if err == nil {
					// show what the accepted object does when used
					use := core.Call(func() {
						recv.observe(c.P, [2]int{(1 << uint(c.P%16)) - 1, 0})
						_ = recv.count()
					})
					fail("UnmarshalBinary:accepts-malformed", "%s returned nil error (a sketch needs 2^p registers, 4 <= p <= %d); using the decoded sketch: panicked=%v %s", desc, c.W, use.Panicked, use.Text)
				}
			}
		})
		if o.Panicked {
			fail(c.K+":panic", "case %s panicked: %s", string(line), o.Text)
		}
		if sum.Cases%300 == 7 {
			sum.Sample(raw)
		}
	}
	return nil
}
