package codec

import (
	"bytes"
	"encoding/json"
	"errors"
	"fmt"
	"io"
	"math"
	"strings"
	"testing/iotest"

	"gonum.org/v1/gonum/mat"

	"gonum.org/v1/gonum/verifharness/internal/core"
)

func init() {
	core.RegisterReplay("codec-mat", replayMat)
}

type limbs [4]uint64

func (l limbs) bits() uint64 { return l[0] | l[1]<<16 | l[2]<<32 | l[3]<<48 }

type expAPI struct {
	Slice  string `json:"slice"`
	Stream string `json:"stream"`
	Why    string `json:"why"`
}

// matCase is one line printed by MatBinary.tla.
type matCase struct {
	K     string  `json:"k"` // "enc": matrix value with expected bytes; "dec": byte string with expected decisions
	R     int     `json:"r"`
	C     int     `json:"c"`
	E     any     `json:"e"`
	Bytes any     `json:"bytes"`
	Dense *expAPI `json:"dense,omitempty"`
	Vec   *expAPI `json:"vec,omitempty"`
	Safe  bool    `json:"streamsafe"`
}

func toBytes(v any) ([]byte, error) {
	if m, ok := v.(map[string]any); ok {
		v = m["b"]
	}
	xs, ok := v.([]any)
	if !ok {
		return nil, fmt.Errorf("bytes: unexpected %T", v)
	}
	b := make([]byte, len(xs))
	for i, x := range xs {
		b[i] = byte(x.(float64))
	}
	return b, nil
}

func toElems(v any) ([]uint64, error) {
	if m, ok := v.(map[string]any); ok {
		v = m["e"]
	}
	xs, ok := v.([]any)
	if !ok {
		return nil, fmt.Errorf("elems: unexpected %T", v)
	}
	out := make([]uint64, len(xs))
	for i, x := range xs {
		t, ok := x.([]any)
		if !ok || len(t) != 4 {
			return nil, fmt.Errorf("elems[%d]: unexpected %v", i, x)
		}
		var l limbs
		for k := range l {
			l[k] = uint64(t[k].(float64))
		}
		out[i] = l.bits()
	}
	return out, nil
}

const filler = 0x7ff8dead0000beef // a NaN pattern that no case uses: must never leak from a view's surroundings

// denseReps builds the same r x c matrix of bit patterns in different representations.
func denseReps(r, c int, e []uint64) map[string]*mat.Dense {
	out := map[string]*mat.Dense{}
	data := make([]float64, len(e))
	for i, b := range e {
		data[i] = math.Float64frombits(b)
	}
	out["fresh"] = mat.NewDense(r, c, data)
	big := mat.NewDense(r+2, c+3, nil)
	for i := 0; i < r+2; i++ {
		for j := 0; j < c+3; j++ {
			big.Set(i, j, math.Float64frombits(filler))
		}
	}
	v := big.Slice(1, 1+r, 2, 2+c).(*mat.Dense)
	for i := 0; i < r; i++ {
		for j := 0; j < c; j++ {
			v.Set(i, j, data[i*c+j])
		}
	}
	out["view"] = v
	var re mat.Dense
	re.ReuseAs(r, c)
	for i := 0; i < r; i++ {
		for j := 0; j < c; j++ {
			re.Set(i, j, data[i*c+j])
		}
	}
	out["reused"] = &re
	return out
}

func vecReps(n int, e []uint64) map[string]*mat.VecDense {
	out := map[string]*mat.VecDense{}
	data := make([]float64, len(e))
	for i, b := range e {
		data[i] = math.Float64frombits(b)
	}
	out["fresh"] = mat.NewVecDense(n, data)
	big := mat.NewDense(n+1, 3, nil)
	for i := 0; i < n+1; i++ {
		for j := 0; j < 3; j++ {
			big.Set(i, j, math.Float64frombits(filler))
		}
	}
	col := big.Slice(1, n+1, 0, 3).(*mat.Dense).ColView(1).(*mat.VecDense) // inc = 3
	for i := 0; i < n; i++ {
		col.SetVec(i, data[i])
	}
	out["colview"] = col
	return out
}

func hex(b []byte) string {
	if len(b) > 96 {
		return fmt.Sprintf("%x...(%d bytes)", b[:96], len(b))
	}
	return fmt.Sprintf("%x", b)
}

func denseBits(m *mat.Dense) (int, int, []uint64) {
	r, c := m.Dims()
	out := make([]uint64, 0, r*c)
	for i := 0; i < r; i++ {
		for j := 0; j < c; j++ {
			out = append(out, math.Float64bits(m.At(i, j)))
		}
	}
	return r, c, out
}

func vecBits(v *mat.VecDense) (int, []uint64) {
	n := v.Len()
	out := make([]uint64, 0, n)
	for i := 0; i < n; i++ {
		out = append(out, math.Float64bits(v.AtVec(i)))
	}
	return n, out
}

func eqBits(a, b []uint64) bool {
	if len(a) != len(b) {
		return false
	}
	for i := range a {
		if a[i] != b[i] {
			return false
		}
	}
	return true
}

type reader struct {
	name string
	mk   func(b []byte) io.Reader
}

var readers = []reader{
	{"whole", func(b []byte) io.Reader { return bytes.NewReader(b) }},
	{"onebyte", func(b []byte) io.Reader { return iotest.OneByteReader(bytes.NewReader(b)) }},
	{"dataerr", func(b []byte) io.Reader { return iotest.DataErrReader(bytes.NewReader(b)) }},
	// streams that break: the bytes are delivered and then the stream fails with an error that is not io.EOF
	// (whole reads, one byte per call, and the last bytes delivered together with the error)
	{"broken", func(b []byte) io.Reader { return io.MultiReader(bytes.NewReader(b), iotest.ErrReader(errBroken)) }},
	{"broken-onebyte", func(b []byte) io.Reader {
		return iotest.OneByteReader(io.MultiReader(bytes.NewReader(b), iotest.ErrReader(errBroken)))
	}},
	{"broken-dataerr", func(b []byte) io.Reader { return &dataThenErr{b: b} }},
}

var errBroken = errors.New("verif: the stream broke")

// dataThenErr delivers at most 5 bytes per call and returns errBroken together with the last bytes.
type dataThenErr struct{ b []byte }

func (r *dataThenErr) Read(p []byte) (int, error) {
	n := len(r.b)
	if n > 5 {
		n = 5
	}
	if n > len(p) {
		n = len(p)
	}
	copy(p, r.b[:n])
	r.b = r.b[n:]
	if len(r.b) == 0 {
		return n, errBroken
	}
	return n, nil
}

// decodeOne runs one decoder on one input. It returns ok (no error), the decoded value and the byte count.
type decoded1 struct {
	panicked bool
	text     string
	err      error
	n        int
	r, c     int
	bits     []uint64
	// wellformed: the object's own dimensions agree with what its accessors deliver
	illformed string
}

func runDecoder(kind, api, rd, recv string, b []byte) decoded1 {
	var d decoded1
	o := core.Call(func() {
		switch kind {
		case "dense":
			var m mat.Dense
			if recv == "reset" {
				m = *mat.NewDense(2, 2, []float64{9, 9, 9, 9})
				m.Reset()
			}
			if api == "slice" {
				d.err = m.UnmarshalBinary(b)
			} else {
				for _, r := range readers {
					if r.name == rd {
						d.n, d.err = m.UnmarshalBinaryFrom(r.mk(b))
					}
				}
			}
			if d.err == nil {
				raw := m.RawMatrix()
				if raw.Rows < 0 || raw.Cols < 0 || raw.Stride < raw.Cols ||
					(raw.Rows > 0 && raw.Cols > 0 && (raw.Rows > len(raw.Data) || raw.Cols > len(raw.Data) || len(raw.Data) < (raw.Rows-1)*raw.Stride+raw.Cols)) {
					d.illformed = fmt.Sprintf("decoded Dense is internally inconsistent: Rows=%d Cols=%d Stride=%d len(Data)=%d", raw.Rows, raw.Cols, raw.Stride, len(raw.Data))
					return
				}
				d.r, d.c, d.bits = denseBits(&m)
			}
		case "vec":
			var v mat.VecDense
			if recv == "reset" {
				v = *mat.NewVecDense(2, []float64{9, 9})
				v.Reset()
			}
			if api == "slice" {
				d.err = v.UnmarshalBinary(b)
			} else {
				for _, r := range readers {
					if r.name == rd {
						d.n, d.err = v.UnmarshalBinaryFrom(r.mk(b))
					}
				}
			}
			if d.err == nil {
				raw := v.RawVector()
				if raw.N < 0 || (raw.N > 0 && len(raw.Data) < (raw.N-1)*raw.Inc+1) {
					d.illformed = fmt.Sprintf("decoded VecDense is internally inconsistent: N=%d Inc=%d len(Data)=%d", raw.N, raw.Inc, len(raw.Data))
					return
				}
				d.c = 1
				d.r, d.bits = vecBits(&v)
			}
		}
	})
	if o.Panicked {
		d.panicked, d.text = true, o.Text
	}
	return d
}

func typeName(kind string) string {
	if kind == "vec" {
		return "VecDense"
	}
	return "Dense"
}

func apiName(api string) string {
	if api == "slice" {
		return "UnmarshalBinary"
	}
	return "UnmarshalBinaryFrom"
}

func replayMat(in *core.Lines, args []string, seed int64, sum *core.Summary) error {
	for {
		line, ok := in.Next()
		if !ok {
			break
		}
		var c matCase
		if err := json.Unmarshal(line, &c); err != nil {
			return fmt.Errorf("line %d: %v", in.N, err)
		}
		b, err := toBytes(c.Bytes)
		if err != nil {
			return fmt.Errorf("line %d: %v", in.N, err)
		}
		var raw any
		json.Unmarshal(line, &raw)
		switch c.K {
		case "enc":
			e, err := toElems(c.E)
			if err != nil {
				return fmt.Errorf("line %d: %v", in.N, err)
			}
			// value -> bytes, every representation, both APIs
			for rep, m := range denseReps(c.R, c.C, e) {
				sum.Cases++
				sum.Nontrivial++
				var got []byte
				var gerr error
				o := core.Call(func() { got, gerr = m.MarshalBinary() })
				if o.Panicked || gerr != nil {
					sum.Fail("codec:mat.Dense.MarshalBinary:fails", fmt.Sprintf("%dx%d (%s): panic=%v err=%v", c.R, c.C, rep, o.Text, gerr), raw)
				} else if !bytes.Equal(got, b) {
					sum.Fail("codec:mat.Dense.MarshalBinary:bytes", fmt.Sprintf("%dx%d (%s): got %s, specification %s", c.R, c.C, rep, hex(got), hex(b)), raw)
				}
				var buf bytes.Buffer
				var n int
				o = core.Call(func() { n, gerr = m.MarshalBinaryTo(&buf) })
				if o.Panicked || gerr != nil {
					sum.Fail("codec:mat.Dense.MarshalBinaryTo:fails", fmt.Sprintf("%dx%d (%s): panic=%v err=%v", c.R, c.C, rep, o.Text, gerr), raw)
				} else if !bytes.Equal(buf.Bytes(), b) || n != len(b) {
					sum.Fail("codec:mat.Dense.MarshalBinaryTo:bytes", fmt.Sprintf("%dx%d (%s): n=%d got %s, specification %s", c.R, c.C, rep, n, hex(buf.Bytes()), hex(b)), raw)
				}
			}
			if c.C == 1 {
				for rep, v := range vecReps(c.R, e) {
					sum.Cases++
					sum.Nontrivial++
					var got []byte
					var gerr error
					o := core.Call(func() { got, gerr = v.MarshalBinary() })
					if o.Panicked || gerr != nil {
						sum.Fail("codec:mat.VecDense.MarshalBinary:fails", fmt.Sprintf("n=%d (%s): panic=%v err=%v", c.R, rep, o.Text, gerr), raw)
					} else if !bytes.Equal(got, b) {
						sum.Fail("codec:mat.VecDense.MarshalBinary:bytes", fmt.Sprintf("n=%d (%s): got %s, specification %s", c.R, rep, hex(got), hex(b)), raw)
					}
					var buf bytes.Buffer
					var n int
					o = core.Call(func() { n, gerr = v.MarshalBinaryTo(&buf) })
					if o.Panicked || gerr != nil {
						sum.Fail("codec:mat.VecDense.MarshalBinaryTo:fails", fmt.Sprintf("n=%d (%s): panic=%v err=%v", c.R, rep, o.Text, gerr), raw)
					} else if !bytes.Equal(buf.Bytes(), b) || n != len(b) {
						sum.Fail("codec:mat.VecDense.MarshalBinaryTo:bytes", fmt.Sprintf("n=%d (%s): n=%d got %s, specification %s", c.R, rep, n, hex(buf.Bytes()), hex(b)), raw)
					}
				}
			}
			// bytes -> value (the specification's own bytes), every API, reader and receiver state
			kinds := []string{"dense"}
			if c.C == 1 {
				kinds = append(kinds, "vec")
			}
			for _, kind := range kinds {
				for _, recv := range []string{"zero", "reset"} {
					for _, ar := range [][2]string{{"slice", ""}, {"stream", "whole"}, {"stream", "onebyte"}, {"stream", "dataerr"}} {
						sum.Cases++
						sum.Nontrivial++
						d := runDecoder(kind, ar[0], ar[1], recv, b)
						who := fmt.Sprintf("mat.%s.%s", typeName(kind), apiName(ar[0]))
						what := fmt.Sprintf("%s(%s) [reader=%s receiver=%s]", who, hex(b), ar[1], recv)
						switch {
						case d.panicked:
							sum.Fail("codec:"+who+":panic-on-valid", what+" panicked: "+d.text, raw)
						case d.err != nil:
							sum.Fail("codec:"+who+":rejects-valid", what+" returned error: "+d.err.Error(), raw)
						case d.illformed != "":
							sum.Fail("codec:"+who+":illformed", what+": "+d.illformed, raw)
						case d.r != c.R || d.c != c.C || !eqBits(d.bits, e):
							sum.Fail("codec:"+who+":value", fmt.Sprintf("%s decoded %dx%d %x, specification %dx%d %x", what, d.r, d.c, d.bits, c.R, c.C, e), raw)
						case ar[0] == "stream" && d.n != len(b):
							sum.Fail("codec:"+who+":count", fmt.Sprintf("%s returned n=%d, input has %d bytes", what, d.n, len(b)), raw)
						}
					}
				}
				// documented: panics if the receiver is not empty
				sum.Cases++
				o := core.Call(func() {
					if kind == "dense" {
						mat.NewDense(1, 1, nil).UnmarshalBinary(b)
					} else {
						mat.NewVecDense(1, nil).UnmarshalBinary(b)
					}
				})
				if !o.Panicked || o.Runtime {
					sum.Fail("codec:mat."+typeName(kind)+".UnmarshalBinary:nonempty-receiver", fmt.Sprintf("non-empty receiver: documented panic expected, got panicked=%v runtime=%v %s", o.Panicked, o.Runtime, o.Text), raw)
				}
			}
			if sum.Cases%400 < 30 {
				sum.Sample(map[string]any{"r": c.R, "c": c.C, "bytes": hex(b)})
			}
		case "dec":
			e, err := toElems(c.E)
			if err != nil {
				return fmt.Errorf("line %d: %v", in.N, err)
			}
			for _, kind := range []string{"dense", "vec"} {
				exp := c.Dense
				if kind == "vec" {
					exp = c.Vec
				}
				runs := [][2]string{{"slice", ""}}
				if c.Safe {
					runs = append(runs, [2]string{"stream", "whole"}, [2]string{"stream", "onebyte"},
						[2]string{"stream", "broken"}, [2]string{"stream", "broken-onebyte"}, [2]string{"stream", "broken-dataerr"})
				} else {
					sum.Count("stream_skipped_allocating_sizes", 1)
				}
				for _, ar := range runs {
					want := exp.Slice
					if ar[0] == "stream" {
						want = exp.Stream
					}
					sum.Cases++
					d := runDecoder(kind, ar[0], ar[1], "zero", b)
					who := fmt.Sprintf("mat.%s.%s", typeName(kind), apiName(ar[0]))
					what := fmt.Sprintf("%s(%s) [reader=%s; specification: %s, %s]", who, hex(b), ar[1], want, exp.Why)
					suffix := ""
					if exp.Why == "huge" {
						suffix = "-huge-dims"
					}
					sum.Count("dec_"+want+"_"+exp.Why, 1)
					broken := strings.HasPrefix(ar[1], "broken")
					if want == "ok" {
						sum.Nontrivial++
						wr, wc := c.R, c.C
						switch {
						case d.panicked:
							sum.Fail("codec:"+who+":panic-on-valid", what+" panicked: "+d.text, raw)
						case broken && d.err != nil && d.n <= len(b):
							// the stream broke after everything the value needs had been delivered: a decoder that
							// reads ahead may see the failure (the documentation does not exclude it); counted
							sum.Count("broken_stream_after_complete_value_reported_as_error", 1)
						case d.err != nil:
							sum.Fail("codec:"+who+":rejects-valid", what+" returned error: "+d.err.Error(), raw)
						case d.illformed != "":
							sum.Fail("codec:"+who+":illformed", what+": "+d.illformed, raw)
						case d.r != wr || d.c != wc || !eqBits(d.bits, e):
							sum.Fail("codec:"+who+":value", fmt.Sprintf("%s decoded %dx%d %x, specification %dx%d %x", what, d.r, d.c, d.bits, wr, wc, e), raw)
						case ar[0] == "stream" && (d.n < 40+8*len(e) || d.n > len(b)):
							// (with trailing bytes the count may not be below what was consumed nor above what was offered)
							sum.Fail("codec:"+who+":count", fmt.Sprintf("%s returned n=%d, header+payload is %d bytes of %d", what, d.n, 40+8*len(e), len(b)), raw)
						}
						continue
					}
					switch {
					case d.panicked:
						sum.Fail("codec:"+who+":panic"+suffix, what+" panicked: "+d.text, raw)
					case d.err == nil && d.illformed != "":
						sum.Fail("codec:"+who+":accepts-invalid"+suffix, what+" returned nil error; "+d.illformed, raw)
					case d.err == nil:
						sum.Fail("codec:"+who+":accepts-invalid"+suffix, fmt.Sprintf("%s returned nil error and a %dx%d value", what, d.r, d.c), raw)
					case ar[0] == "stream" && (d.n < 0 || d.n > len(b)):
						sum.Fail("codec:"+who+":count", fmt.Sprintf("%s returned n=%d with its error, the stream delivered %d bytes", what, d.n, len(b)), raw)
					}
				}
			}
		default:
			return fmt.Errorf("line %d: unknown record kind %q", in.N, c.K)
		}
	}
	return nil
}
