package codec

import (
	"crypto/md5"
	"crypto/sha1"
	"encoding/json"
	"fmt"
	"hash"
	"math/rand"
	"sort"
	"strconv"
	"strings"
	"time"

	"gonum.org/v1/gonum/graph/formats/rdf"

	"gonum.org/v1/gonum/verifharness/internal/core"
)

func init() {
	core.RegisterReplay("codec-rdf", replayRdf)
}

// rdfCase is one line printed by RdfIso.tla: a dataset (quads <<s, p, o, g>>, g = 0 for the default graph),
// the key of its isomorphism class and, per naming, the place of each statement in the sorted statement list.
type rdfCase struct {
	K      string           `json:"k"`
	Quads  [][4]int         `json:"quads,omitempty"`
	Key    []int            `json:"key,omitempty"`
	Aut    int              `json:"aut,omitempty"`
	NBlank int              `json:"nblank,omitempty"`
	Orbit  int              `json:"orbit,omitempty"`
	Pos    map[string][]int `json:"pos,omitempty"`
	Bgl    bool             `json:"bgl,omitempty"` // some graph is named by a blank node
	// k = "pair": two datasets to be processed together (the replayable form of a disagreement between two cases)
	A *rdfCase `json:"a,omitempty"`
	B *rdfCase `json:"b,omitempty"`
	// A case that is replayed alone carries the listings of its statements itself; in a generated file they
	// come from the plan record.
	Only *rdfOnly `json:"only,omitempty"`
}

// rdfOnly restricts a case to the given listings (1-based indices into Quads).
type rdfOnly struct {
	Perms [][]int `json:"perms"`
	Dups  [][]int `json:"dups"`
}

// rdfPlan is the k = "plan" record, printed once per file: every permutation of 1..n, every listing of n
// statements with one or two repetitions, and the order of the written forms of the terms that the
// specification's statement order relies on.
type rdfPlan struct {
	Perms [][][]int                 `json:"perms"`
	Dups  [][][]int                 `json:"dups"`
	Rank  map[string]map[string]int `json:"rank"`
}

func pairOf(a, b rdfCase) rdfCase { return rdfCase{K: "pair", A: &a, B: &b} }

// only returns c restricted to the given listings, so that it can be replayed without the plan.
func (c rdfCase) only(perms, dups [][]int) rdfCase {
	if perms == nil {
		perms = [][]int{}
	}
	if dups == nil {
		dups = [][]int{}
	}
	c.Only = &rdfOnly{Perms: perms, Dups: dups}
	return c
}

// namings bind the specification's blank labels 1..3 to concrete label strings. Every naming is
// injective; they differ in lexical order, length and shared prefixes, and one of them collides with
// the labels the canonicalization issues itself. (The lexical order of each naming is stated in
// RdfIso.tla, BlankRank; checkRanks compares.)
var namings = map[string][]string{
	"b":      {"", "b1", "b2", "b3"},
	"rev":    {"", "z", "y", "x"},
	"c14n":   {"", "c14n2", "c14n0", "c14n1"},
	"prefix": {"", "a", "aa", "aaa"},
	"mixed":  {"", "n10", "n9", "N1"},
}

func term(t int, names []string) rdf.Term {
	switch {
	case t == 0:
		return rdf.Term{} // no graph label: the default graph
	case t >= 1 && t <= 3:
		return rdf.Term{Value: "_:" + names[t]}
	case t == 10:
		return rdf.Term{Value: "<http://example.org/a>"}
	case t == 11:
		return rdf.Term{Value: `"lit"`}
	case t == 20:
		return rdf.Term{Value: "<http://example.org/p>"}
	case t == 21:
		return rdf.Term{Value: "<http://example.org/q>"}
	case t == 30:
		return rdf.Term{Value: "<http://example.org/g1>"}
	case t == 31:
		return rdf.Term{Value: "<http://example.org/g2>"}
	}
	panic(fmt.Sprintf("unknown term token %d", t))
}

// checkRanks verifies that the written forms of the terms have the order the specification assumes (this is
// about the binding, not about gonum: a disagreement is an error of the harness, not a violation).
func checkRanks(rank map[string]map[string]int) error {
	for nm, tab := range rank {
		names, ok := namings[nm]
		if !ok {
			return fmt.Errorf("plan: unknown naming %q", nm)
		}
		type tr struct {
			s string
			r int
		}
		var all []tr
		for tok, r := range tab {
			t, err := strconv.Atoi(tok)
			if err != nil {
				return fmt.Errorf("plan: bad term token %q", tok)
			}
			all = append(all, tr{term(t, names).Value, r})
		}
		for _, x := range all {
			for _, y := range all {
				if (x.s < y.s) != (x.r < y.r) {
					return fmt.Errorf("plan: naming %s: written forms %q, %q are not in the order the specification states (%d, %d)", nm, x.s, y.s, x.r, y.r)
				}
			}
		}
	}
	return nil
}

func stmt(q [4]int, names []string) *rdf.Statement {
	return &rdf.Statement{Subject: term(q[0], names), Predicate: term(q[1], names), Object: term(q[2], names), Label: term(q[3], names)}
}

// build lists the statements of c in the order seq (1-based indices, repetitions allowed); every element is
// a separate Statement value.
func build(c *rdfCase, names []string, seq []int) []*rdf.Statement {
	out := make([]*rdf.Statement, len(seq))
	for i, p := range seq {
		out[i] = stmt(c.Quads[p-1], names)
	}
	return out
}

func lines(ss []*rdf.Statement) []string {
	l := make([]string, len(ss))
	for i, s := range ss {
		if s == nil {
			l[i] = "<nil>"
			continue
		}
		l[i] = s.String()
	}
	return l
}

// text is the statement list as a set (sorted lines), seqText as the sequence it is.
func text(ss []*rdf.Statement) string {
	l := lines(ss)
	sort.Strings(l)
	return strings.Join(l, "\n")
}

func seqText(ss []*rdf.Statement) string { return strings.Join(lines(ss), "\n") }

type canonAlgo struct {
	name string
	// graphOnly: a graph normalization algorithm; not run on datasets in which a blank node names a graph
	graphOnly bool
	// list: the function returns the canonical statement LIST (the sequence is part of the output that has to
	// be identical); otherwise the harness relabels the source statements and only the set is compared
	list bool
	run  func(src []*rdf.Statement) ([]*rdf.Statement, error)
}

func isoC14n(decomp bool, mk func() hash.Hash) func(src []*rdf.Statement) ([]*rdf.Statement, error) {
	return func(src []*rdf.Statement) ([]*rdf.Statement, error) {
		h := mk()
		_, terms := rdf.IsoCanonicalHashes(src, decomp, true, h, make([]byte, h.Size()))
		return rdf.C14n(nil, src, terms)
	}
}

// isoHashes relabels every blank node with the hash IsoCanonicalHashes assigns to it (the way the
// package's own tests consume the hashes).
func isoHashes(decomp bool, mk func() hash.Hash) func(src []*rdf.Statement) ([]*rdf.Statement, error) {
	return func(src []*rdf.Statement) ([]*rdf.Statement, error) {
		h := mk()
		hashes, _ := rdf.IsoCanonicalHashes(src, decomp, true, h, make([]byte, h.Size()))
		out := make([]*rdf.Statement, len(src))
		for i, s := range src {
			c := *s
			for _, t := range []*rdf.Term{&c.Subject, &c.Object, &c.Label} {
				if !strings.HasPrefix(t.Value, "_:") {
					continue
				}
				hv, ok := hashes[t.Value]
				if !ok {
					return nil, fmt.Errorf("no hash for blank term %s", t.Value)
				}
				t.Value = fmt.Sprintf("_:h%x", hv)
			}
			out[i] = &c
		}
		return out, nil
	}
}

var canonAlgos = []canonAlgo{
	{"URDNA2015", false, true, func(src []*rdf.Statement) ([]*rdf.Statement, error) { return rdf.URDNA2015(nil, src) }},
	{"URGNA2012", true, true, func(src []*rdf.Statement) ([]*rdf.Statement, error) { return rdf.URGNA2012(nil, src) }},
	{"IsoCanonicalHashes+C14n", false, true, isoC14n(false, sha1.New)},
	{"IsoCanonicalHashes", false, false, isoHashes(false, md5.New)},
	{"IsoCanonicalHashes-decomp", false, false, isoHashes(true, md5.New)},
}

func keyStr(k []int) string {
	s := make([]string, len(k))
	for i, v := range k {
		s[i] = strconv.Itoa(v)
	}
	return strings.Join(s, ":")
}

type seen struct {
	text string // canonical output as a set (for byText: the key)
	seq  string // canonical output as the sequence returned
	c    rdfCase
	perm []int
	how  string
}

func sameTerms(a, b *rdf.Statement) bool {
	return a != nil && b != nil && a.Subject.Value == b.Subject.Value && a.Predicate.Value == b.Predicate.Value &&
		a.Object.Value == b.Object.Value && a.Label.Value == b.Label.Value
}

func replayRdf(in *core.Lines, args []string, seed int64, sum *core.Summary) error {
	nameSet := []string{"b", "rev", "c14n"}
	permsAll, dedup := false, false
	for _, a := range args {
		switch {
		case strings.HasPrefix(a, "namings="):
			nameSet = strings.Split(a[len("namings="):], ",")
		case a == "perms=all": // every statement order of the plan instead of identity, reverse and a random one
			permsAll = true
		case a == "dedup=1": // rdf.Deduplicate on every listing with repetitions of the plan
			dedup = true
		}
	}
	rnd := rand.New(rand.NewSource(seed))
	var plan *rdfPlan
	// every failure is counted per signature (the summary keeps three of each)
	fail := func(sig, msg string, c any) {
		sum.Count("failed "+sig, 1)
		sum.Fail(sig, msg, c)
	}
	// per algorithm: key -> canonical text first seen, canonical text -> key first seen
	byKey := make([]map[string]seen, len(canonAlgos))
	byText := make([]map[string]seen, len(canonAlgos))
	for i := range canonAlgos {
		byKey[i] = map[string]seen{}
		byText[i] = map[string]seen{}
	}
	// for Isomorphic: one representative (as built statements' source) per key, and the previous case
	firstOfKey := map[string]rdfCase{}
	var prev *rdfCase

	ndata := 0
	var process func(c rdfCase) error
	process = func(c rdfCase) error {
		if c.K == "pair" && c.A != nil && c.B != nil {
			if err := process(*c.A); err != nil {
				return err
			}
			return process(*c.B)
		}
		if c.K != "d" {
			return fmt.Errorf("line %d: unknown record kind %q", in.N, c.K)
		}
		ndata++
		key := keyStr(c.Key)
		n := len(c.Quads)
		ident := make([]int, n)
		rev := make([]int, n)
		for i := range ident {
			ident[i] = i + 1
			rev[i] = n - i
		}
		var orders, dups [][]int
		switch {
		case c.Only != nil:
			orders, dups = c.Only.Perms, c.Only.Dups
		case permsAll:
			if plan == nil || n > len(plan.Perms) {
				return fmt.Errorf("line %d: perms=all, but no plan record covers %d statements", in.N, n)
			}
			orders = plan.Perms[n-1]
		default:
			rp := rnd.Perm(n)
			for i := range rp {
				rp[i]++
			}
			orders = [][]int{ident, rev, rp}
			if n < 2 {
				orders = orders[:1]
			}
		}
		if c.Only == nil && dedup {
			if plan == nil || n > len(plan.Dups) {
				return fmt.Errorf("line %d: dedup=1, but no plan record covers %d statements", in.N, n)
			}
			// listings with repetitions, and the plain permutations (nothing to remove, only to sort)
			dups = append(append([][]int{}, plan.Dups[n-1]...), plan.Perms[n-1]...)
		}
		for _, l := range append(append([][]int{}, orders...), dups...) {
			for _, p := range l {
				if p < 1 || p > n {
					return fmt.Errorf("line %d: listing %v of a dataset with %d statements", in.N, l, n)
				}
			}
		}

		// signatures of failures on datasets in which a blank node names a graph are kept apart
		bgl := ""
		if c.Bgl {
			bgl = ":blank-graph-label"
		}
		for ai, alg := range canonAlgos {
			if alg.graphOnly && c.Bgl {
				// URGNA2012 writes every blank graph name as "_:g" and does not follow the graph position (by its
				// definition), so it cannot tell such blank nodes apart: outside what it promises
				sum.Count("skipped_"+alg.name+"_blank_graph_label", 1)
				continue
			}
			for _, nm := range nameSet {
				names := namings[nm]
				for _, perm := range orders {
					sum.Cases++
					if c.NBlank > 0 {
						sum.Nontrivial++
					}
					how := fmt.Sprintf("naming=%s order=%v", nm, perm)
					src := build(&c, names, perm)
					var out []*rdf.Statement
					var err error
					o := core.CallTimeout(20*time.Second, func() { out, err = alg.run(src) })
					sig := "codec:rdf." + alg.name
					one := c.only([][]int{perm}, nil)
					switch {
					case o.Hung:
						fail(sig+":hang"+bgl, fmt.Sprintf("%s on %s (%s) did not return", alg.name, text(src), how), one)
						continue
					case o.Panicked:
						fail(sig+":panic"+bgl, fmt.Sprintf("%s on %s (%s) panicked: %s", alg.name, text(src), how, o.Text), one)
						continue
					case err != nil:
						fail(sig+":error"+bgl, fmt.Sprintf("%s on %s (%s) returned error %v", alg.name, text(src), how, err), one)
						continue
					case len(out) != len(perm):
						fail(sig+":length"+bgl, fmt.Sprintf("%s on %s (%s) returned %d statements", alg.name, text(src), how, len(out)), one)
						continue
					}
					t := text(out)
					if s, ok := byKey[ai][key]; !ok {
						byKey[ai][key] = seen{t, seqText(out), c, perm, how}
					} else if s.text != t {
						fail(sig+":isomorphic-differ"+bgl, fmt.Sprintf("%s gives different canonical forms for isomorphic datasets (class %s): %v (%s) -> %q but %v (%s) -> %q",
							alg.name, key, s.c.Quads, s.how, s.text, c.Quads, how, t), pairOf(s.c.only([][]int{s.perm}, nil), one))
					} else if st := seqText(out); alg.list && s.seq != st {
						// the same statements, listed in an order that depends on the input
						fail(sig+":isomorphic-differ-in-order"+bgl, fmt.Sprintf("%s lists the canonical statements of isomorphic datasets (class %s) in different orders: %v (%s) -> %q but %v (%s) -> %q",
							alg.name, key, s.c.Quads, s.how, s.seq, c.Quads, how, st), pairOf(s.c.only([][]int{s.perm}, nil), one))
					}
					if s, ok := byText[ai][t]; !ok {
						byText[ai][t] = seen{key, "", c, perm, how}
					} else if s.text != key {
						fail(sig+":nonisomorphic-same"+bgl, fmt.Sprintf("%s gives the same canonical form %q for non-isomorphic datasets %v (class %s) and %v (class %s)",
							alg.name, t, s.c.Quads, s.text, c.Quads, key), pairOf(s.c.only([][]int{s.perm}, nil), one))
					}
				}
			}
		}

		// Deduplicate: whatever the listing (any order, statements repeated once or twice, not necessarily side
		// by side), the result is the statements of the dataset, each once, at the places the specification
		// printed for the naming ("sorted in lexical order")
		if len(dups) > 0 {
			for _, nm := range nameSet {
				names := namings[nm]
				pos := c.Pos[nm]
				if len(pos) != n {
					return fmt.Errorf("line %d: no statement order for naming %s", in.N, nm)
				}
				want := make([]*rdf.Statement, n)
				for i, q := range c.Quads {
					if pos[i] < 0 || pos[i] >= n || want[pos[i]] != nil {
						return fmt.Errorf("line %d: statement order %v is not a permutation", in.N, pos)
					}
					want[pos[i]] = stmt(q, names)
				}
				for _, l := range dups {
					sum.Cases++
					if len(l) > n {
						sum.Nontrivial++
					}
					src := build(&c, names, l)
					var out []*rdf.Statement
					o := core.Call(func() { out = rdf.Deduplicate(src) })
					ok := !o.Panicked && len(out) == n
					for i := 0; ok && i < n; i++ {
						ok = sameTerms(out[i], want[i])
					}
					if ok {
						continue
					}
					one := c.only(nil, [][]int{l})
					given := seqText(build(&c, names, l))
					switch {
					case o.Panicked:
						fail("codec:rdf.Deduplicate:panic"+bgl, fmt.Sprintf("Deduplicate(%q) (naming=%s listing=%v) panicked: %s", given, nm, l, o.Text), one)
					case text(out) != text(want):
						fail("codec:rdf.Deduplicate:wrong-statements"+bgl, fmt.Sprintf("Deduplicate(%q) (naming=%s listing=%v) = %q, the statements are %q",
							given, nm, l, seqText(out), seqText(want)), one)
					default:
						fail("codec:rdf.Deduplicate:not-sorted"+bgl, fmt.Sprintf("Deduplicate(%q) (naming=%s listing=%v) = %q, in lexical order %q",
							given, nm, l, seqText(out), seqText(want)), one)
					}
				}
			}
			sum.Count("deduplicate_calls", len(dups)*len(nameSet))
		}

		// Isomorphic(a, b) against Key equality: with the first dataset seen of the same class (other naming,
		// other order), and with the previous dataset of the file if it has the same size
		type pairT struct {
			other rdfCase
			want  bool
		}
		var pairs []pairT
		if f, ok := firstOfKey[key]; ok {
			pairs = append(pairs, pairT{f, true})
		} else {
			firstOfKey[key] = c
			pairs = append(pairs, pairT{c, true})
		}
		if prev != nil && len(prev.Quads) == n {
			pairs = append(pairs, pairT{*prev, keyStr(prev.Key) == key})
		}
		if len(orders) == 0 {
			pairs = nil
		}
		for _, p := range pairs {
			for _, decomp := range []bool{false, true} {
				sum.Cases++
				sum.Nontrivial++
				pa := orders[len(orders)-1]
				a := build(&c, namings[nameSet[0]], pa)
				pb := make([]int, len(p.other.Quads))
				for i := range pb {
					pb[i] = len(pb) - i
				}
				if p.other.Only != nil && len(p.other.Only.Perms) > 0 {
					pb = p.other.Only.Perms[0]
				}
				b := build(&p.other, namings[nameSet[len(nameSet)-1]], pb)
				var got bool
				o := core.CallTimeout(20*time.Second, func() { got = rdf.Isomorphic(a, b, decomp, sha1.New()) })
				two := pairOf(p.other.only([][]int{pb}, nil), c.only([][]int{pa}, nil))
				how := ""
				if decomp {
					how = ":decomp"
				}
				if c.Bgl || p.other.Bgl {
					how += ":blank-graph-label"
				}
				switch {
				case o.Hung || o.Panicked:
					fail("codec:rdf.Isomorphic:panic"+how, fmt.Sprintf("Isomorphic(%q, %q, decomp=%v): %s", text(a), text(b), decomp, o.Text), two)
				case got != p.want:
					kind := "misses-isomorphism"
					if got {
						kind = "claims-isomorphism"
					}
					sum.Count("Isomorphic_"+kind, 1)
					fail("codec:rdf.Isomorphic:"+kind+how, fmt.Sprintf("Isomorphic(%q, %q, decomp=%v) = %v, specification %v (classes %s, %s)", seqText(a), seqText(b), decomp, got, p.want, key, keyStr(p.other.Key)), two)
				}
				if p.want {
					sum.Count("isomorphic_pairs_true", 1)
				} else {
					sum.Count("isomorphic_pairs_false", 1)
				}
			}
		}
		cc := c
		prev = &cc
		if sum.Cases%5000 < 40 {
			sum.Sample(map[string]any{"quads": c.Quads, "key": key, "aut": c.Aut})
		}
		return nil
	}
	for {
		line, ok := in.Next()
		if !ok {
			break
		}
		var c rdfCase
		if err := json.Unmarshal(line, &c); err != nil {
			return fmt.Errorf("line %d: %v", in.N, err)
		}
		if c.K == "plan" {
			plan = new(rdfPlan)
			if err := json.Unmarshal(line, plan); err != nil {
				return fmt.Errorf("line %d: %v", in.N, err)
			}
			if err := checkRanks(plan.Rank); err != nil {
				return err
			}
			continue
		}
		if err := process(c); err != nil {
			return err
		}
	}
	sum.Count("datasets", ndata)
	sum.Count("classes", len(firstOfKey))
	return nil
}
