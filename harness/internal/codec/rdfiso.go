package codec

import (
	"crypto/md5"
	"crypto/sha1"
	"encoding/json"
	"fmt"
	"hash"
	"math/rand"
	"sort"
	"strings"
	"time"

	"gonum.org/v1/gonum/graph/formats/rdf"

	"gonum.org/v1/gonum/verifharness/internal/core"
)

func init() {
	core.RegisterReplay("codec-rdf", replayRdf)
}

// rdfCase is one line printed by RdfIso.tla: a dataset and the key of its isomorphism class.
type rdfCase struct {
	K      string   `json:"k"`
	Quads  [][3]int `json:"quads"`
	Key    [2]int   `json:"key"`
	Aut    int      `json:"aut"`
	NBlank int      `json:"nblank"`
	Orbit  int      `json:"orbit"`
	// k = "pair": two datasets to be processed together (the replayable form of a disagreement between two cases)
	A *rdfCase `json:"a,omitempty"`
	B *rdfCase `json:"b,omitempty"`
}

func pairOf(a, b rdfCase) rdfCase { return rdfCase{K: "pair", A: &a, B: &b} }

// namings bind the specification's blank labels 1..3 to concrete label strings. Every naming is
// injective; they differ in lexical order, length and shared prefixes, and one of them collides with
// the labels the canonicalization issues itself.
var namings = map[string][]string{
	"b":      {"", "b1", "b2", "b3"},
	"rev":    {"", "z", "y", "x"},
	"c14n":   {"", "c14n2", "c14n0", "c14n1"},
	"prefix": {"", "a", "aa", "aaa"},
	"mixed":  {"", "n10", "n9", "N1"},
}

func term(t int, names []string) rdf.Term {
	switch {
	case t >= 1 && t <= 3:
		return rdf.Term{Value: "_:" + names[t]}
	case t == 10:
		return rdf.Term{Value: "<http://example.org/a>"}
	case t == 11:
		return rdf.Term{Value: `"lit"`}
	case t == 20:
		return rdf.Term{Value: "<http://example.org/p>"}
	case t == 21:
		return rdf.Term{Value: "<http://example.org/q>"}
	}
	panic(fmt.Sprintf("unknown term token %d", t))
}

func build(c *rdfCase, names []string, perm []int) []*rdf.Statement {
	out := make([]*rdf.Statement, len(c.Quads))
	for i, p := range perm {
		q := c.Quads[p]
		out[i] = &rdf.Statement{Subject: term(q[0], names), Predicate: term(q[1], names), Object: term(q[2], names)}
	}
	return out
}

func text(ss []*rdf.Statement) string {
	lines := make([]string, len(ss))
	for i, s := range ss {
		if s == nil {
			lines[i] = "<nil>"
			continue
		}
		lines[i] = s.String()
	}
	sort.Strings(lines)
	return strings.Join(lines, "\n")
}

type canonAlgo struct {
	name string
	run  func(src []*rdf.Statement) ([]*rdf.Statement, error)
}

func isoC14n(decomp bool, mk func() hash.Hash) func(src []*rdf.Statement) ([]*rdf.Statement, error) {
	return func(src []*rdf.Statement) ([]*rdf.Statement, error) {
		h := mk()
		_, terms := rdf.IsoCanonicalHashes(src, decomp, true, h, make([]byte, h.Size()))
		return rdf.C14n(nil, src, terms)
	}
}

// isoHashes relabels every blank node with the hash IsoCanonicalHashes assigns to it (the way the
// package's own tests consume the hashes).
func isoHashes(decomp bool, mk func() hash.Hash) func(src []*rdf.Statement) ([]*rdf.Statement, error) {
	return func(src []*rdf.Statement) ([]*rdf.Statement, error) {
		h := mk()
		hashes, _ := rdf.IsoCanonicalHashes(src, decomp, true, h, make([]byte, h.Size()))
		out := make([]*rdf.Statement, len(src))
		for i, s := range src {
			c := *s
			for _, t := range []*rdf.Term{&c.Subject, &c.Object} {
				if !strings.HasPrefix(t.Value, "_:") {
					continue
				}
				hv, ok := hashes[t.Value]
				if !ok {
					return nil, fmt.Errorf("no hash for blank term %s", t.Value)
				}
				t.Value = fmt.Sprintf("_:h%x", hv)
			}
			out[i] = &c
		}
		return out, nil
	}
}

var canonAlgos = []canonAlgo{
	{"URDNA2015", func(src []*rdf.Statement) ([]*rdf.Statement, error) { return rdf.URDNA2015(nil, src) }},
	{"URGNA2012", func(src []*rdf.Statement) ([]*rdf.Statement, error) { return rdf.URGNA2012(nil, src) }},
	{"IsoCanonicalHashes+C14n", isoC14n(false, sha1.New)},
	{"IsoCanonicalHashes", isoHashes(false, md5.New)},
	{"IsoCanonicalHashes-decomp", isoHashes(true, md5.New)},
}

func keyStr(k [2]int) string { return fmt.Sprintf("%d:%d", k[0], k[1]) }

type seen struct {
	text string
	c    rdfCase
	how  string
}

func replayRdf(in *core.Lines, args []string, seed int64, sum *core.Summary) error {
	nameSet := []string{"b", "rev", "c14n"}
	for _, a := range args {
		if strings.HasPrefix(a, "namings=") {
			nameSet = strings.Split(a[len("namings="):], ",")
		}
	}
	rnd := rand.New(rand.NewSource(seed))
	// per algorithm: key -> canonical text first seen, canonical text -> key first seen
	byKey := make([]map[string]seen, len(canonAlgos))
	byText := make([]map[string]seen, len(canonAlgos))
	for i := range canonAlgos {
		byKey[i] = map[string]seen{}
		byText[i] = map[string]seen{}
	}
	// for Isomorphic: one representative (as built statements' source) per key, and the previous case
	firstOfKey := map[string]rdfCase{}
	var prev *rdfCase

	ndata := 0
	var process func(c rdfCase) error
	process = func(c rdfCase) error {
		if c.K == "pair" && c.A != nil && c.B != nil {
			if err := process(*c.A); err != nil {
				return err
			}
			return process(*c.B)
		}
		if c.K != "d" {
			return fmt.Errorf("line %d: unknown record kind %q", in.N, c.K)
		}
		ndata++
		key := keyStr(c.Key)
		n := len(c.Quads)
		ident := make([]int, n)
		for i := range ident {
			ident[i] = i
		}
		rev := make([]int, n)
		for i := range rev {
			rev[i] = n - 1 - i
		}
		orders := [][]int{ident, rev, rnd.Perm(n)}

		for ai, alg := range canonAlgos {
			for _, nm := range nameSet {
				names := namings[nm]
				for oi, perm := range orders {
					if oi > 0 && n < 2 {
						continue
					}
					sum.Cases++
					if c.NBlank > 0 {
						sum.Nontrivial++
					}
					how := fmt.Sprintf("naming=%s order=%v", nm, perm)
					src := build(&c, names, perm)
					var out []*rdf.Statement
					var err error
					o := core.CallTimeout(20*time.Second, func() { out, err = alg.run(src) })
					sig := "codec:rdf." + alg.name
					switch {
					case o.Hung:
						sum.Fail(sig+":hang", fmt.Sprintf("%s on %s (%s) did not return", alg.name, text(src), how), c)
						continue
					case o.Panicked:
						sum.Fail(sig+":panic", fmt.Sprintf("%s on %s (%s) panicked: %s", alg.name, text(src), how, o.Text), c)
						continue
					case err != nil:
						sum.Fail(sig+":error", fmt.Sprintf("%s on %s (%s) returned error %v", alg.name, text(src), how, err), c)
						continue
					case len(out) != n:
						sum.Fail(sig+":length", fmt.Sprintf("%s on %s (%s) returned %d statements", alg.name, text(src), how, len(out)), c)
						continue
					}
					t := text(out)
					if s, ok := byKey[ai][key]; !ok {
						byKey[ai][key] = seen{t, c, how}
					} else if s.text != t {
						sum.Fail(sig+":isomorphic-differ", fmt.Sprintf("%s gives different canonical forms for isomorphic datasets (class %s): %v (%s) -> %q but %v (%s) -> %q",
							alg.name, key, s.c.Quads, s.how, s.text, c.Quads, how, t), pairOf(s.c, c))
					}
					if s, ok := byText[ai][t]; !ok {
						byText[ai][t] = seen{key, c, how}
					} else if s.text != key {
						sum.Fail(sig+":nonisomorphic-same", fmt.Sprintf("%s gives the same canonical form %q for non-isomorphic datasets %v (class %s) and %v (class %s)",
							alg.name, t, s.c.Quads, s.text, c.Quads, key), pairOf(s.c, c))
					}
				}
			}
		}

		// Isomorphic(a, b) against Key equality: with the first dataset seen of the same class (other naming,
		// other order), and with the previous dataset of the file if it has the same size
		type pairT struct {
			other rdfCase
			want  bool
		}
		var pairs []pairT
		if f, ok := firstOfKey[key]; ok {
			pairs = append(pairs, pairT{f, true})
		} else {
			firstOfKey[key] = c
			pairs = append(pairs, pairT{c, true})
		}
		if prev != nil && len(prev.Quads) == n {
			pairs = append(pairs, pairT{*prev, keyStr(prev.Key) == key})
		}
		for _, p := range pairs {
			for _, decomp := range []bool{false, true} {
				sum.Cases++
				sum.Nontrivial++
				a := build(&c, namings[nameSet[0]], orders[2])
				b := build(&p.other, namings[nameSet[len(nameSet)-1]], func() []int {
					r := make([]int, len(p.other.Quads))
					for i := range r {
						r[i] = len(r) - 1 - i
					}
					return r
				}())
				var got bool
				o := core.CallTimeout(20*time.Second, func() { got = rdf.Isomorphic(a, b, decomp, sha1.New()) })
				switch {
				case o.Hung || o.Panicked:
					sum.Fail("codec:rdf.Isomorphic:panic", fmt.Sprintf("Isomorphic(%q, %q, decomp=%v): %s", text(a), text(b), decomp, o.Text), pairOf(p.other, c))
				case got != p.want:
					kind := "misses-isomorphism"
					if got {
						kind = "claims-isomorphism"
					}
					sum.Count("Isomorphic_"+kind, 1)
					sum.Fail("codec:rdf.Isomorphic:"+kind, fmt.Sprintf("Isomorphic(%q, %q, decomp=%v) = %v, specification %v (classes %s, %s)", text(a), text(b), decomp, got, p.want, key, keyStr(p.other.Key)), pairOf(p.other, c))
				}
				if p.want {
					sum.Count("isomorphic_pairs_true", 1)
				} else {
					sum.Count("isomorphic_pairs_false", 1)
				}
			}
		}
		cc := c
		prev = &cc
		if sum.Cases%5000 < 40 {
			sum.Sample(map[string]any{"quads": c.Quads, "key": key, "aut": c.Aut})
		}
		return nil
	}
	for {
		line, ok := in.Next()
		if !ok {
			break
		}
		var c rdfCase
		if err := json.Unmarshal(line, &c); err != nil {
			return fmt.Errorf("line %d: %v", in.N, err)
		}
		if err := process(c); err != nil {
			return err
		}
	}
	sum.Count("datasets", ndata)
	sum.Count("classes", len(firstOfKey))
	return nil
}
