package codec

import (
	"fmt"
	"math/rand"
	"strings"

	"gonum.org/v1/gonum/mathext/prng"

	"gonum.org/v1/gonum/verifharness/internal/core"
)

func init() {
	core.RegisterRecord("codec-prng", recordPrng)
}

type gen interface {
	Uint64() uint64
	Seed(uint64)
	MarshalBinary() ([]byte, error)
	UnmarshalBinary([]byte) error
}

type genKind struct {
	name string
	mk   func() gen // a new instance in its default state
}

var genKinds = []genKind{
	{"MT19937", func() gen { return prng.NewMT19937() }},
	{"MT19937_64", func() gen { return prng.NewMT19937_64() }},
	{"SplitMix64", func() gen { return prng.NewSplitMix64(0) }},
	{"Xoshiro256plus", func() gen { return prng.NewXoshiro256plus(0) }},
	{"Xoshiro256plusplus", func() gen { return prng.NewXoshiro256plusplus(0) }},
	{"Xoshiro256starstar", func() gen { return prng.NewXoshiro256starstar(0) }},
}

type prngEvent struct {
	Op   string `json:"op"`
	Kind string `json:"kind"`
	G    int    `json:"g"`
	S    int    `json:"s"`
	N    int    `json:"n"`
	K    int    `json:"k"`
	Cut  int    `json:"cut"`
	Err  bool   `json:"err"`
}

// recordPrng drives the real generators through random histories of output / MarshalBinary /
// UnmarshalBinary calls and logs them for PrngStreamTrace.tla. Outputs are logged by their place in
// reference streams produced by fresh generators of the same type and seed; the driver keeps no model
// of where a generator should be.
func recordPrng(out *core.Out, args []string, seed int64, sum *core.Summary) error {
	steps, refLen := 2500, 6000
	only := ""
	for _, a := range args {
		switch {
		case strings.HasPrefix(a, "steps="):
			fmt.Sscan(a[len("steps="):], &steps)
		case strings.HasPrefix(a, "kind="):
			only = a[len("kind="):]
		}
	}
	rnd := rand.New(rand.NewSource(seed))
	for _, kind := range genKinds {
		if only != "" && only != kind.name {
			continue
		}
		out.Emit(prngEvent{Op: "reset", Kind: kind.name})
		seedOf := func(s int) uint64 { return uint64(seed)*1000003 + uint64(s)*7919 }
		type place struct{ s, n int }
		where := map[uint64]place{}
		for s := 1; s <= 3; s++ {
			g := kind.mk()
			g.Seed(seedOf(s))
			for n := 0; n < refLen; n++ {
				v := g.Uint64()
				if _, dup := where[v]; !dup {
					where[v] = place{s, n}
				}
			}
		}
		gens := make([]gen, 5)
		seeded := make([]bool, 5)
		slots := make([][]byte, 7)
		emitted := 0
		outputs := 0
		for emitted < steps {
			g := 1 + rnd.Intn(4)
			switch r := rnd.Intn(10); {
			case gens[g] == nil || !seeded[g] || r == 0:
				s := 1 + rnd.Intn(3)
				gens[g] = kind.mk()
				gens[g].Seed(seedOf(s))
				seeded[g] = true
				out.Emit(prngEvent{Op: "new", Kind: kind.name, G: g, S: s})
				emitted++
			case r <= 4:
				// a run of outputs; lengths are chosen so that the 312/624-word state boundaries are crossed
				// at every phase
				n := []int{1, 2, 3, 7, 150, 311, 312, 313, 623, 624, 625}[rnd.Intn(11)]
				if outputs+n > refLen-10 {
					continue
				}
				for i := 0; i < n; i++ {
					v := gens[g].Uint64()
					p, ok := where[v]
					if !ok {
						p = place{-1, -1}
					}
					out.Emit(prngEvent{Op: "out", Kind: kind.name, G: g, S: p.s, N: p.n})
					emitted++
				}
				outputs += n
			case r <= 6:
				k := 1 + rnd.Intn(6)
				b, err := gens[g].MarshalBinary()
				slots[k] = b
				out.Emit(prngEvent{Op: "save", Kind: kind.name, G: g, K: k, Err: err != nil})
				emitted++
			default:
				k := 1 + rnd.Intn(6)
				if slots[k] == nil {
					continue
				}
				data := slots[k]
				cut := 0
				if rnd.Intn(5) == 0 {
					cut = 1 + rnd.Intn(len(data))
				}
				if rnd.Intn(3) == 0 {
					// restore into a brand-new instance that never produced output
					gens[g] = kind.mk()
				}
				var err error
				o := core.Call(func() { err = gens[g].UnmarshalBinary(data[:len(data)-cut]) })
				if o.Panicked {
					sum.Fail("codec:prng."+kind.name+".UnmarshalBinary:panic", fmt.Sprintf("UnmarshalBinary of %d of %d state bytes panicked: %s", len(data)-cut, len(data), o.Text), nil)
					err = fmt.Errorf("panic")
				}
				out.Emit(prngEvent{Op: "restore", Kind: kind.name, G: g, K: k, Cut: cut, Err: err != nil})
				emitted++
				seeded[g] = err == nil
			}
		}
		sum.Traces++
		sum.Count("outputs_"+kind.name, outputs)
	}
	return nil
}
