package codec

import (
	"bytes"
	"encoding/json"
	"fmt"
	"math/rand"
	"strings"

	"gonum.org/v1/gonum/mathext/prng"

	"gonum.org/v1/gonum/verifharness/internal/core"
)

func init() {
	core.RegisterRecord("codec-prng", recordPrng)
	core.RegisterReplay("codec-prnghist", replayPrngHist)
}

type gen interface {
	Uint64() uint64
	Seed(uint64)
	MarshalBinary() ([]byte, error)
	UnmarshalBinary([]byte) error
}

// genKind describes one generator type with a binary form. The unit of its output stream is what one call of the
// narrowest output method returns (MT19937: a 32 bit word from Uint32, everything else: Uint64).
type genKind struct {
	name string
	mk   func() gen // a new value from the constructor, never seeded by the caller and never stepped
	zero func() gen // a new zero value; nil where the documentation says that only constructor values are valid
	blk  int        // block size in stream units of generators with block state, 0 for the others
	// draw takes the next n stream units. With pairs set, a generator whose Uint64 is documented to be two
	// narrower outputs (first in the upper bits) is stepped through Uint64 where two units remain.
	draw func(g gen, n int, pairs bool) []uint64
}

func draw64(g gen, n int, _ bool) []uint64 {
	out := make([]uint64, n)
	for i := range out {
		out[i] = g.Uint64()
	}
	return out
}

func drawMT32(g gen, n int, pairs bool) []uint64 {
	m := g.(*prng.MT19937)
	out := make([]uint64, 0, n)
	for len(out) < n {
		if pairs && n-len(out) >= 2 {
			v := m.Uint64()
			out = append(out, v>>32, v&0xffffffff)
			continue
		}
		out = append(out, uint64(m.Uint32()))
	}
	return out
}

var genKinds = []genKind{
	{"MT19937", func() gen { return prng.NewMT19937() }, func() gen { return new(prng.MT19937) }, 624, drawMT32},
	{"MT19937_64", func() gen { return prng.NewMT19937_64() }, func() gen { return new(prng.MT19937_64) }, 312, draw64},
	// "The zero value is usable directly."
	{"SplitMix64", func() gen { return prng.NewSplitMix64(0) }, func() gen { return new(prng.SplitMix64) }, 0, draw64},
	// "A Xoshiro256... value is only valid if returned by NewXoshiro256...": no zero values
	{"Xoshiro256plus", func() gen { return prng.NewXoshiro256plus(0) }, nil, 0, draw64},
	{"Xoshiro256plusplus", func() gen { return prng.NewXoshiro256plusplus(0) }, nil, 0, draw64},
	{"Xoshiro256starstar", func() gen { return prng.NewXoshiro256starstar(0) }, nil, 0, draw64},
}

// seedOf is the seed value that stands for seed number s >= 1 of the specification (never 0 and never the
// default seed of the Mersenne twisters, so that no seeded stream coincides with the stream of an unseeded
// constructor value).
func seedOf(seed int64, s int) uint64 { return uint64(seed)*1000003 + uint64(s)*7919 }

// refStream returns the first n units of reference stream s of the kind: the outputs of a value that came from
// the constructor and was (s >= 1) seeded with seedOf(s) or (s = 0) never seeded. It never passes through the
// binary form.
func refStream(kind genKind, seed int64, s, n int) []uint64 {
	g := kind.mk()
	if s != 0 {
		g.Seed(seedOf(seed, s))
	}
	return kind.draw(g, n, false)
}

// ---- spec -> code: histories printed by PrngHist.tla ---------------------------------------------------

// histOp is one operation of a history with the observation the specification expects, printed as the tuple
// <<op, g, f, seed, j, s, n, b>>.
type histOp struct {
	Op   string
	G    int
	F    string
	Seed int
	J    int
	S    int
	N    int
	B    int
}

func (o *histOp) UnmarshalJSON(data []byte) error {
	var t []json.RawMessage
	if err := json.Unmarshal(data, &t); err != nil {
		return err
	}
	if len(t) != 8 {
		return fmt.Errorf("operation tuple of %d fields", len(t))
	}
	dst := []any{&o.Op, &o.G, &o.F, &o.Seed, &o.J, &o.S, &o.N, &o.B}
	for i := range t {
		if err := json.Unmarshal(t[i], dst[i]); err != nil {
			return err
		}
	}
	return nil
}

// histFin is the expected final state <<g, s, n, b>> of one generator.
type histFin struct{ G, S, N, B int }

func (f *histFin) UnmarshalJSON(data []byte) error {
	var t []int
	if err := json.Unmarshal(data, &t); err != nil {
		return err
	}
	if len(t) != 4 {
		return fmt.Errorf("final state tuple of %d fields", len(t))
	}
	f.G, f.S, f.N, f.B = t[0], t[1], t[2], t[3]
	return nil
}

type histCase struct {
	K    string    `json:"k"`
	Blk  int       `json:"blk"`
	Tail int       `json:"tail"`
	Ini  int       `json:"ini"`
	Ops  []histOp  `json:"ops"`
	Fin  []histFin `json:"fin"`
}

// replayPrngHist pushes every history through real generators of the kinds named by kinds=a,b,.. and compares
// each observation with the one the specification printed: outputs with the reference stream at the expected
// place, re-encoded bytes with the bytes of the expected token.
func replayPrngHist(in *core.Lines, args []string, seed int64, sum *core.Summary) error {
	var kinds []genKind
	pairs := false
	for _, a := range args {
		switch {
		case strings.HasPrefix(a, "kinds="):
			for _, n := range strings.Split(a[len("kinds="):], ",") {
				found := false
				for _, k := range genKinds {
					if k.name == n {
						kinds = append(kinds, k)
						found = true
					}
				}
				if !found {
					return fmt.Errorf("unknown generator kind %q", n)
				}
			}
		case a == "draw=pairs":
			pairs = true
		}
	}
	if len(kinds) == 0 {
		return fmt.Errorf("codec-prnghist needs kinds=<name,...>")
	}
	refs := map[string][]uint64{}
	ref := func(kind genKind, s, upto int) []uint64 {
		key := fmt.Sprintf("%s/%d", kind.name, s)
		if len(refs[key]) < upto {
			refs[key] = refStream(kind, seed, s, upto+4096)
		}
		return refs[key]
	}
	for {
		line, ok := in.Next()
		if !ok {
			break
		}
		var c histCase
		if err := json.Unmarshal(line, &c); err != nil {
			return fmt.Errorf("line %d: %v", in.N, err)
		}
		if c.K != "prng-hist" {
			return fmt.Errorf("line %d: unknown record kind %q", in.N, c.K)
		}
		var raw any
		json.Unmarshal(line, &raw)
		for _, kind := range kinds {
			if kind.blk != 0 && kind.blk != c.Blk {
				return fmt.Errorf("line %d: history for block size %d replayed into %s (block size %d)", in.N, c.Blk, kind.name, kind.blk)
			}
			needsZero := false
			for _, o := range c.Ops {
				needsZero = needsZero || (o.Op == "make" && o.F == "zero")
			}
			if needsZero && kind.zero == nil {
				sum.Count("skipped_zero_value_not_valid_"+kind.name, 1)
				continue
			}
			sum.Cases++
			sum.Nontrivial++
			replayOneHist(kind, seed, c, raw, pairs, ref, sum)
			if sum.Cases%9000 == 7 {
				sum.Sample(map[string]any{"kind": kind.name, "history": raw})
			}
		}
	}
	return nil
}

func replayOneHist(kind genKind, seed int64, c histCase, raw any, pairs bool, ref func(genKind, int, int) []uint64, sum *core.Summary) {
	sig := "codec:prng." + kind.name
	gens := map[int]gen{}
	bytesOf := map[int][]byte{}
	var slot []byte
	slotTok := 0
	fail := func(what, msg string) { sum.Fail(sig+":"+what, msg, raw) }
	// expect compares the next j units of g with places n .. n+j-1 of reference stream s
	expect := func(step int, g, s, n, j int) bool {
		var got []uint64
		o := core.Call(func() { got = kind.draw(gens[g], j, pairs) })
		if o.Panicked {
			fail("output-panic", fmt.Sprintf("operation %d: output of generator %d panicked: %s", step, g, o.Text))
			return false
		}
		want := ref(kind, s, n+j)[n : n+j]
		for i := range got {
			if got[i] != want[i] {
				fail("stream-differs", fmt.Sprintf("operation %d: generator %d should continue stream %d at place %d; output %d of %d is %d, the stream has %d there",
					step, g, s, n, i, j, got[i], want[i]))
				return false
			}
		}
		return true
	}
	marshal := func(step, g, b int) ([]byte, bool) {
		var data []byte
		var err error
		o := core.Call(func() { data, err = gens[g].MarshalBinary() })
		switch {
		case o.Panicked:
			fail("MarshalBinary-panic", fmt.Sprintf("operation %d: MarshalBinary of generator %d panicked: %s", step, g, o.Text))
			return nil, false
		case err != nil:
			fail("MarshalBinary-error", fmt.Sprintf("operation %d: MarshalBinary of generator %d returned %v", step, g, err))
			return nil, false
		}
		data = append([]byte(nil), data...)
		if prev, ok := bytesOf[b]; ok {
			if !bytes.Equal(prev, data) {
				i := 0
				for i < len(prev) && i < len(data) && prev[i] == data[i] {
					i++
				}
				fail("reencode-differs", fmt.Sprintf("operation %d: generator %d must encode to the bytes it was restored from / last wrote (token %d); %d and %d bytes, first difference at byte %d",
					step, g, b, len(prev), len(data), i))
				return nil, false
			}
		} else {
			bytesOf[b] = data
		}
		return data, true
	}
	for i, o := range c.Ops {
		switch o.Op {
		case "make":
			if o.F == "zero" {
				gens[o.G] = kind.zero()
			} else {
				gens[o.G] = kind.mk()
			}
		case "seed":
			gens[o.G].Seed(seedOf(seed, o.Seed))
		case "step":
			if !expect(i+1, o.G, o.S, o.N, o.J) {
				return
			}
		case "save":
			data, ok := marshal(i+1, o.G, o.B)
			if !ok {
				return
			}
			slot, slotTok = data, o.B
		case "restore":
			if slot == nil || slotTok != o.B {
				fail("harness", fmt.Sprintf("operation %d: restore of token %d but the slot holds token %d", i+1, o.B, slotTok))
				return
			}
			buf := append([]byte(nil), slot...)
			var err error
			oc := core.Call(func() { err = gens[o.G].UnmarshalBinary(buf) })
			// "UnmarshalBinary must copy the data if it wishes to retain the data after returning"
			for k := range buf {
				buf[k] = 0xa5
			}
			switch {
			case oc.Panicked:
				fail("UnmarshalBinary-panic", fmt.Sprintf("operation %d: UnmarshalBinary of %d state bytes into generator %d panicked: %s", i+1, len(slot), o.G, oc.Text))
				return
			case err != nil:
				fail("UnmarshalBinary-rejects-own-state", fmt.Sprintf("operation %d: UnmarshalBinary of the %d bytes MarshalBinary wrote returned %v", i+1, len(slot), err))
				return
			}
		default:
			fail("harness", "unknown operation "+o.Op)
			return
		}
	}
	// final observation: every generator whose place the specification knows re-encodes to its token (if any)
	// and continues its stream over the next Tail units
	for _, f := range c.Fin {
		if f.S < 0 {
			continue
		}
		if f.B != 0 {
			if _, ok := marshal(len(c.Ops)+1, f.G, f.B); !ok {
				return
			}
		}
		if !expect(len(c.Ops)+1, f.G, f.S, f.N, c.Tail) {
			return
		}
	}
}

// ---- code -> spec: recorded histories for PrngStreamTrace.tla -------------------------------------------

type prngEvent struct {
	Op   string `json:"op"`
	Kind string `json:"kind"`
	G    int    `json:"g"`
	F    string `json:"f"`
	S    int    `json:"s"`
	N    int    `json:"n"`
	K    int    `json:"k"`
	B    int    `json:"b"`
	Cut  int    `json:"cut"`
	Ext  int    `json:"ext"`
	Err  bool   `json:"err"`
}

// recordPrng drives the real generators through random histories of construction / Seed / output /
// MarshalBinary / UnmarshalBinary calls and logs them for PrngStreamTrace.tla. Outputs are logged by their
// place in reference streams produced by generators of the same type that never pass through the binary form;
// byte strings are logged by a number given in order of first appearance. The driver keeps no model of where a
// generator should be: it only remembers whether a value may be asked for output at all.
//
// After the random history, every truncation of a saved state and a few extensions of it are offered to
// UnmarshalBinary (each into a new value).
func recordPrng(out *core.Out, args []string, seed int64, sum *core.Summary) error {
	steps := 600 // operations per generator type; a run of outputs is one operation
	only := ""
	sweep := true
	for _, a := range args {
		switch {
		case strings.HasPrefix(a, "steps="):
			fmt.Sscan(a[len("steps="):], &steps)
		case strings.HasPrefix(a, "kind="):
			only = a[len("kind="):]
		case a == "sweep=off":
			sweep = false
		}
	}
	refLen := 40*steps + 1400
	rnd := rand.New(rand.NewSource(seed))
	for _, kind := range genKinds {
		if only != "" && only != kind.name {
			continue
		}
		kind := kind
		ev := func(e prngEvent) {
			e.Kind = kind.name
			if e.F == "" {
				e.F = "-"
			}
			out.Emit(e)
		}
		ev(prngEvent{Op: "reset"})
		type place struct{ s, n int }
		where := map[uint64]place{}
		for s := 0; s <= 3; s++ {
			g := kind.mk()
			if s != 0 {
				g.Seed(seedOf(seed, s))
			}
			for n := 0; n < refLen; n++ {
				v := g.Uint64()
				if _, dup := where[v]; !dup {
					where[v] = place{s, n}
				}
			}
		}
		tokens := map[string]int{}
		tokenOf := func(b []byte) int {
			if t, ok := tokens[string(b)]; ok {
				return t
			}
			tokens[string(b)] = len(tokens) + 1
			return len(tokens)
		}
		gens := make([]gen, 5)
		usable := make([]bool, 5) // the value may be asked for output (made by the constructor, seeded or restored)
		slots := make([][]byte, 7)
		emitted, outputs, ops := 0, 0, 0
		mkNew := func(g int) {
			f := "ctor"
			if kind.zero != nil && rnd.Intn(3) == 0 {
				f = "zero"
				gens[g] = kind.zero()
			} else {
				gens[g] = kind.mk()
			}
			usable[g] = f == "ctor"
			ev(prngEvent{Op: "make", G: g, F: f})
			emitted++
		}
		emitOut := func(g, n int) {
			for i := 0; i < n; i++ {
				v := gens[g].Uint64()
				p, ok := where[v]
				if !ok {
					p = place{-1, -1}
				}
				ev(prngEvent{Op: "out", G: g, S: p.s, N: p.n})
				emitted++
			}
			outputs += n
		}
		restore := func(g, k, cut, ext int) bool {
			data := append([]byte(nil), slots[k][:len(slots[k])-cut]...)
			for i := 0; i < ext; i++ {
				data = append(data, byte(0x5a+i))
			}
			var err error
			o := core.Call(func() { err = gens[g].UnmarshalBinary(data) })
			if o.Panicked {
				sum.Fail("codec:prng."+kind.name+".UnmarshalBinary:panic",
					fmt.Sprintf("UnmarshalBinary of %d bytes (state of %d bytes, %d cut off, %d appended) panicked: %s", len(data), len(slots[k]), cut, ext, o.Text), nil)
				// the log gets an event no action of the trace specification accepts
				ev(prngEvent{Op: "panic", G: g, K: k, Cut: cut, Ext: ext, Err: true})
				emitted++
				usable[g] = false
				return false
			}
			for i := range data {
				data[i] = 0xa5
			}
			ev(prngEvent{Op: "restore", G: g, K: k, Cut: cut, Ext: ext, Err: err != nil})
			emitted++
			usable[g] = err == nil
			return err == nil
		}
		for ; ops < steps; ops++ {
			g := 1 + rnd.Intn(4)
			switch r := rnd.Intn(20); {
			case gens[g] == nil || r == 0:
				mkNew(g)
			case r <= 2 || (!usable[g] && r <= 8):
				s := 1 + rnd.Intn(3)
				gens[g].Seed(seedOf(seed, s))
				usable[g] = true
				ev(prngEvent{Op: "seed", G: g, S: s})
				emitted++
			case r <= 8:
				if !usable[g] {
					continue
				}
				// a run of outputs; mostly short, one in four of a length chosen so that the 312/624-word state
				// boundaries are crossed at every phase
				n := 1 + rnd.Intn(3)
				if rnd.Intn(4) == 0 {
					n = []int{7, 150, 311, 312, 313, 623, 624, 625}[rnd.Intn(8)]
				}
				if outputs+n > refLen-700 {
					continue
				}
				emitOut(g, n)
			case r <= 13:
				if !usable[g] {
					continue
				}
				k := 1 + rnd.Intn(6)
				var b []byte
				var err error
				o := core.Call(func() { b, err = gens[g].MarshalBinary() })
				if o.Panicked {
					sum.Fail("codec:prng."+kind.name+".MarshalBinary:panic", "MarshalBinary panicked: "+o.Text, nil)
					ev(prngEvent{Op: "panic", G: g, K: k, Err: true})
					emitted++
					continue
				}
				slots[k] = append([]byte(nil), b...)
				ev(prngEvent{Op: "save", G: g, K: k, B: tokenOf(b), Err: err != nil})
				emitted++
			default:
				k := 1 + rnd.Intn(6)
				if slots[k] == nil {
					continue
				}
				cut, ext := 0, 0
				switch rnd.Intn(8) {
				case 0:
					cut = 1 + rnd.Intn(len(slots[k]))
				case 1:
					ext = 1 + rnd.Intn(9)
				}
				if rnd.Intn(3) == 0 {
					// restore into a brand-new value that never produced output
					mkNew(g)
				}
				restore(g, k, cut, ext)
			}
		}
		// positions within the reference streams are bounded by refLen-700 outputs in total, so a restored
		// generator can always be observed for another block
		if sweep {
			var src gen = kind.mk()
			src.Seed(seedOf(seed, 1))
			gens[1], usable[1] = src, true
			ev(prngEvent{Op: "make", G: 1, F: "ctor"})
			ev(prngEvent{Op: "seed", G: 1, S: 1})
			emitOut(1, 3)
			b, err := gens[1].MarshalBinary()
			slots[1] = append([]byte(nil), b...)
			ev(prngEvent{Op: "save", G: 1, K: 1, B: tokenOf(b), Err: err != nil})
			refused := 0
			for cut := 1; cut <= len(slots[1]); cut++ {
				gens[2] = kind.mk()
				ev(prngEvent{Op: "make", G: 2, F: "ctor"})
				if !restore(2, 1, cut, 0) {
					refused++
				}
			}
			for _, ext := range []int{1, 2, 7, 8, 9, len(slots[1])} {
				gens[2] = kind.mk()
				ev(prngEvent{Op: "make", G: 2, F: "ctor"})
				if restore(2, 1, 0, ext) {
					emitOut(2, 3)
					sum.Count("extended_state_accepted_"+kind.name, 1)
				} else {
					sum.Count("extended_state_refused_"+kind.name, 1)
				}
			}
			sum.Count("truncations_"+kind.name, len(slots[1]))
			sum.Count("truncations_refused_"+kind.name, refused)
		}
		sum.Traces++
		sum.Count("outputs_"+kind.name, outputs)
		sum.Count("operations_"+kind.name, ops)
		sum.Count("random_events_"+kind.name, emitted)
	}
	return nil
}
