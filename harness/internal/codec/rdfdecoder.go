package codec

import (
	"encoding/json"
	"fmt"
	"io"
	"strings"
	"testing/iotest"
	"time"

	"gonum.org/v1/gonum/graph/formats/rdf"

	"gonum.org/v1/gonum/verifharness/internal/core"
)

// RdfDecoder.tla: histories of ONE rdf.Decoder (NewDecoder / Reset on a zero value, Reset, Unmarshal, Unmarshal
// until io.EOF) printed by TLC with the expected outcome of every Unmarshal and the set of terms that have a UID
// after every operation. The harness performs the operations and compares; it holds no N-Quads knowledge: the
// document lines and the terms' abstract content are the specification's.

func init() {
	core.RegisterReplay("codec-rdfdec", replayRdfDecoder)
}

type rdTerm struct {
	W    string `json:"w"`
	Kind string `json:"kind"`
	Text string `json:"text"`
	Qual string `json:"qual"`
}

type rdLine struct {
	K    string `json:"k"`
	Text string `json:"text"`
}

type rdOut struct {
	Res string `json:"res"`
	S   int    `json:"s"`
	P   int    `json:"p"`
	O   int    `json:"o"`
	L   int    `json:"l"`
}

type rdOp struct {
	Op    string  `json:"op"`
	D     int     `json:"d"`
	Outs  []rdOut `json:"outs"`
	Known []int   `json:"known"`
}

type rdCase struct {
	K      string     `json:"k"`
	Pool   []rdTerm   `json:"pool,omitempty"`
	Docs   [][]rdLine `json:"docs,omitempty"`
	Ops    []rdOp     `json:"ops,omitempty"`
	Form   string     `json:"form,omitempty"`   // set in failure cases: replay only this byte form
	Reader string     `json:"reader,omitempty"` // and this reader
}

// docText is the byte form of a document: its lines joined by the end-of-line sequence (N-Quads: EOL between
// statements, optional after the last one).
func docText(lines []rdLine, form string) string {
	if len(lines) == 0 {
		return ""
	}
	ts := make([]string, len(lines))
	for i, l := range lines {
		ts[i] = l.Text
	}
	switch form {
	case "crlf":
		return strings.Join(ts, "\r\n") + "\r\n"
	case "nofinal":
		return strings.Join(ts, "\n")
	default:
		return strings.Join(ts, "\n") + "\n"
	}
}

func docReader(text, kind string) io.Reader {
	switch kind {
	case "onebyte":
		return iotest.OneByteReader(strings.NewReader(text))
	case "dataerr":
		return iotest.DataErrReader(strings.NewReader(text)) // the last bytes arrive together with io.EOF
	default:
		return strings.NewReader(text)
	}
}

type rdProblem struct {
	kind, msg string
}

// runRdfHistory performs one history on one Decoder and returns the first disagreement with the specification.
func runRdfHistory(pool []rdTerm, docs [][]rdLine, ops []rdOp, form, reader string, sum *core.Summary) (*rdProblem, error) {
	var dec *rdf.Decoder
	uid := map[int]int64{}    // term number -> UID handed out for it
	byUID := map[int64]int{}  // UID -> term number
	valOf := map[int]string{} // term number -> Value text of the returned term (key of Terms())
	atEOF := false
	describe := func(i int) string {
		var sb strings.Builder
		for k := 0; k <= i && k < len(ops); k++ {
			if k > 0 {
				sb.WriteString("; ")
			}
			switch ops[k].Op {
			case "new":
				fmt.Fprintf(&sb, "NewDecoder(doc %d)", ops[k].D)
			case "zreset":
				fmt.Fprintf(&sb, "zero value, Reset(doc %d)", ops[k].D)
			case "reset":
				fmt.Fprintf(&sb, "Reset(doc %d)", ops[k].D)
			case "u":
				sb.WriteString("Unmarshal")
			case "drain":
				sb.WriteString("Unmarshal until io.EOF")
			}
		}
		return sb.String()
	}
	term := func(t int) (rdTerm, error) {
		if t < 1 || t > len(pool) {
			return rdTerm{}, fmt.Errorf("term number %d outside the pool", t)
		}
		return pool[t-1], nil
	}
	for i, op := range ops {
		switch op.Op {
		case "new", "zreset", "reset":
			if op.D < 1 || op.D > len(docs) {
				return nil, fmt.Errorf("document number %d outside the list", op.D)
			}
			text := docText(docs[op.D-1], form)
			o := core.Call(func() {
				switch op.Op {
				case "new":
					dec = rdf.NewDecoder(docReader(text, reader))
				case "zreset":
					dec = new(rdf.Decoder)
					dec.Reset(docReader(text, reader))
					sum.Count("rdfdec_zero_value_resets", 1)
				default:
					dec.Reset(docReader(text, reader))
					if atEOF {
						sum.Count("rdfdec_resets_after_eof", 1)
					} else {
						sum.Count("rdfdec_resets_before_eof", 1)
					}
				}
			})
			if o.Panicked {
				return &rdProblem{"Reset:panic", fmt.Sprintf("history [%s]: operation %d panicked: %s", describe(i), i+1, o.Text)}, nil
			}
			atEOF = false
		case "u", "drain":
			if dec == nil {
				return nil, fmt.Errorf("history does not start with a creating operation")
			}
			for j, want := range op.Outs {
				var st *rdf.Statement
				var err error
				o := core.Call(func() { st, err = dec.Unmarshal() })
				sum.Count("rdfdec_unmarshal_calls", 1)
				if atEOF {
					sum.Count("rdfdec_unmarshal_after_eof", 1)
				}
				where := fmt.Sprintf("history [%s], Unmarshal call %d of operation %d (%s lines, %s reader)", describe(i), j+1, i+1, form, reader)
				if o.Panicked {
					return &rdProblem{"Unmarshal:panic", fmt.Sprintf("%s panicked: %s; specification: %s", where, o.Text, want.Res)}, nil
				}
				got := "error"
				switch {
				case err == nil && st != nil:
					got = "stmt"
				case err == nil:
					got = "nil-nil"
				case err == io.EOF:
					got = "eof"
				}
				if got != want.Res || (got != "stmt" && st != nil) {
					detail := ""
					if st != nil {
						detail = " statement " + st.String()
					}
					if err != nil {
						detail += " err=" + err.Error()
					}
					return &rdProblem{"Unmarshal:wrong-outcome", fmt.Sprintf("%s returned %s (%s), specification: %s", where, got, strings.TrimSpace(detail), want.Res)}, nil
				}
				if want.Res == "eof" {
					atEOF = true
				}
				if want.Res != "stmt" {
					continue
				}
				gotTerms := []rdf.Term{st.Subject, st.Predicate, st.Object, st.Label}
				wantNos := []int{want.S, want.P, want.O, want.L}
				names := []string{"subject", "predicate", "object", "label"}
				for k, t := range wantNos {
					g := gotTerms[k]
					if t == 0 {
						if g.Value != "" {
							return &rdProblem{"Unmarshal:terms-differ", fmt.Sprintf("%s: %s is %q, specification: none", where, names[k], g.Value)}, nil
						}
						continue
					}
					wt, e := term(t)
					if e != nil {
						return nil, e
					}
					var text, qual string
					var kind rdf.Kind
					var perr error
					po := core.Call(func() { text, qual, kind, perr = g.Parts() })
					if po.Panicked || perr != nil || kindName(kind) != wt.Kind || text != wt.Text || qual != wt.Qual {
						return &rdProblem{"Unmarshal:terms-differ", fmt.Sprintf("%s: %s is %q (kind=%s text=%q qual=%q err=%v %s), specification: term %d = %s %q %q",
							where, names[k], g.Value, kindName(kind), text, qual, perr, po.Text, t, wt.Kind, wt.Text, wt.Qual)}, nil
					}
					// unique terms have unique IDs, based from 1, within one namespace over the decoder's life
					if g.UID < 1 {
						return &rdProblem{"Unmarshal:uid-not-assigned", fmt.Sprintf("%s: %s %s has UID %d (documented: based from 1)", where, names[k], g.Value, g.UID)}, nil
					}
					if prev, ok := uid[t]; ok {
						if prev != g.UID {
							return &rdProblem{"Unmarshal:uid-not-retained", fmt.Sprintf("%s: %s %s has UID %d, the same term had UID %d earlier in the history", where, names[k], g.Value, g.UID, prev)}, nil
						}
					} else {
						if other, used := byUID[g.UID]; used {
							return &rdProblem{"Unmarshal:uid-shared", fmt.Sprintf("%s: %s %s has UID %d, which term %d (%s) already has", where, names[k], g.Value, g.UID, other, pool[other-1].W)}, nil
						}
						uid[t] = g.UID
						byUID[g.UID] = t
						valOf[t] = g.Value
					}
				}
			}
		default:
			return nil, fmt.Errorf("unknown operation %q", op.Op)
		}
		// the terms with a UID are the ones the specification lists after this operation
		if len(op.Known) != len(uid) {
			return nil, fmt.Errorf("history [%s]: specification lists %d known terms, %d distinct terms were returned", describe(i), len(op.Known), len(uid))
		}
		var m map[string]int64
		o := core.Call(func() { m = dec.Terms() })
		if o.Panicked {
			return &rdProblem{"Terms:panic", fmt.Sprintf("history [%s]: Terms() panicked: %s", describe(i), o.Text)}, nil
		}
		for _, t := range op.Known {
			want, ok := uid[t]
			if !ok {
				return nil, fmt.Errorf("history [%s]: specification lists term %d as known, it was never returned", describe(i), t)
			}
			if got, ok := m[valOf[t]]; !ok || got != want {
				return &rdProblem{"Terms:differs", fmt.Sprintf("history [%s]: Terms()[%s] = %d (present=%v), the statements carried UID %d", describe(i), valOf[t], got, ok, want)}, nil
			}
		}
		if len(m) != len(uid) {
			sum.Count("rdfdec_terms_map_has_other_keys", 1) // not promised either way: observed, not judged
		}
	}
	return nil, nil
}

func replayRdfDecoder(in *core.Lines, args []string, seed int64, sum *core.Summary) error {
	forms := []string{"lf"}
	readers := []string{"whole"}
	for _, a := range args {
		if strings.HasPrefix(a, "forms=") {
			forms = strings.Split(a[len("forms="):], ",")
		}
		if strings.HasPrefix(a, "readers=") {
			readers = strings.Split(a[len("readers="):], ",")
		}
	}
	var pool []rdTerm
	var docs [][]rdLine
	for {
		line, ok := in.Next()
		if !ok {
			break
		}
		var c rdCase
		if err := json.Unmarshal(line, &c); err != nil {
			return fmt.Errorf("line %d: %v", in.N, err)
		}
		switch c.K {
		case "rdfpool":
			pool, docs = c.Pool, c.Docs
			continue
		case "rdfdec":
		default:
			return fmt.Errorf("line %d: unknown record kind %q", in.N, c.K)
		}
		p, d := pool, docs
		if len(c.Pool) > 0 {
			p, d = c.Pool, c.Docs
		}
		if len(p) == 0 {
			return fmt.Errorf("line %d: history before the pool record", in.N)
		}
		fs, rs := forms, readers
		if c.Form != "" {
			fs, rs = []string{c.Form}, []string{c.Reader}
		}
		stmts := 0
		for _, op := range c.Ops {
			for _, o := range op.Outs {
				if o.Res == "stmt" {
					stmts++
				}
			}
		}
		for _, f := range fs {
			for _, r := range rs {
				sum.Cases++
				if stmts > 0 {
					sum.Nontrivial++
				}
				var prob *rdProblem
				var err error
				o := core.CallTimeout(20*time.Second, func() { prob, err = runRdfHistory(p, d, c.Ops, f, r, sum) })
				if err != nil {
					return fmt.Errorf("line %d: %v", in.N, err)
				}
				if o.Hung || o.Panicked {
					prob = &rdProblem{"history:hang-or-panic", fmt.Sprintf("history did not complete: hung=%v %s", o.Hung, o.Text)}
				}
				if prob != nil {
					fc := c
					fc.Pool, fc.Docs, fc.Form, fc.Reader = p, d, f, r
					sum.Fail("codec:rdf.Decoder."+prob.kind, prob.msg, fc)
				}
			}
		}
		if sum.Cases%20011 == 1 {
			sum.Sample(map[string]any{"ops": c.Ops})
		}
	}
	return nil
}
