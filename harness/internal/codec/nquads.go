package codec

import (
	"encoding/json"
	"fmt"

	"gonum.org/v1/gonum/graph/formats/rdf"

	"gonum.org/v1/gonum/verifharness/internal/core"
)

func init() {
	core.RegisterReplay("codec-nquads", replayNQuads)
}

type cpSeq struct {
	C []int `json:"c"`
}

func (s cpSeq) str() string {
	r := make([]rune, len(s.C))
	for i, c := range s.C {
		r[i] = rune(c)
	}
	return string(r)
}

type nqTerm struct {
	Kind string `json:"kind"`
	Text cpSeq  `json:"text"`
	Qual cpSeq  `json:"qual"`
}

type nqCase struct {
	K string `json:"k"`
	S nqTerm `json:"s"`
	P nqTerm `json:"p"`
	O nqTerm `json:"o"`
	L nqTerm `json:"l"`
}

func mkTerm(t nqTerm) (rdf.Term, error) {
	switch t.Kind {
	case "iri":
		return rdf.NewIRITerm(t.Text.str())
	case "blank":
		return rdf.NewBlankTerm(t.Text.str())
	case "literal":
		return rdf.NewLiteralTerm(t.Text.str(), t.Qual.str())
	case "none":
		return rdf.Term{}, nil
	}
	return rdf.Term{}, fmt.Errorf("unknown term kind %q", t.Kind)
}

func kindName(k rdf.Kind) string {
	switch k {
	case rdf.IRI:
		return "iri"
	case rdf.Literal:
		return "literal"
	case rdf.Blank:
		return "blank"
	}
	return "invalid"
}

// sameTerm compares a parsed term with the specification's abstract term through Term.Parts.
func sameTerm(got rdf.Term, want nqTerm) (bool, string) {
	if want.Kind == "none" {
		return got.Value == "", fmt.Sprintf("value %q", got.Value)
	}
	text, qual, kind, err := got.Parts()
	desc := fmt.Sprintf("kind=%s text=%q qual=%q err=%v (value %q)", kindName(kind), text, qual, err, got.Value)
	return err == nil && kindName(kind) == want.Kind && text == want.Text.str() && qual == want.Qual.str(), desc
}

func replayNQuads(in *core.Lines, args []string, seed int64, sum *core.Summary) error {
	for {
		line, ok := in.Next()
		if !ok {
			break
		}
		var c nqCase
		if err := json.Unmarshal(line, &c); err != nil {
			return fmt.Errorf("line %d: %v", in.N, err)
		}
		if c.K != "nq" {
			return fmt.Errorf("line %d: unknown record kind %q", in.N, c.K)
		}
		var raw any
		json.Unmarshal(line, &raw)
		sum.Cases++
		sum.Nontrivial++
		want := []nqTerm{c.S, c.P, c.O, c.L}
		names := []string{"subject", "predicate", "object", "label"}
		var terms [4]rdf.Term
		bad := false
		o := core.Call(func() {
			for i, t := range want {
				var err error
				terms[i], err = mkTerm(t)
				if err != nil {
					sum.Fail("codec:rdf.NewTerm:rejects", fmt.Sprintf("constructor of %s term (%s %q %q): %v", names[i], t.Kind, t.Text.str(), t.Qual.str(), err), raw)
					bad = true
					return
				}
				// the constructed term already denotes the abstract term
				if ok, desc := sameTerm(terms[i], t); !ok {
					sum.Fail("codec:rdf.Term.Parts:differs", fmt.Sprintf("%s term built from (%s %q %q) has parts %s", names[i], t.Kind, t.Text.str(), t.Qual.str(), desc), raw)
					bad = true
					return
				}
			}
		})
		if o.Panicked {
			sum.Fail("codec:rdf.NewTerm:panic", fmt.Sprintf("building terms of %s: %s", string(line), o.Text), raw)
			continue
		}
		if bad {
			continue
		}
		st := &rdf.Statement{Subject: terms[0], Predicate: terms[1], Object: terms[2], Label: terms[3]}
		var text string
		var parsed *rdf.Statement
		var err error
		o = core.Call(func() {
			text = st.String()
			parsed, err = rdf.ParseNQuad(text)
		})
		switch {
		case o.Panicked:
			sum.Fail("codec:rdf.ParseNQuad:panic", fmt.Sprintf("ParseNQuad(%q): %s", text, o.Text), raw)
		case err != nil:
			sum.Fail("codec:rdf.ParseNQuad:rejects-own-output", fmt.Sprintf("ParseNQuad(Statement.String()) = %v for %q (object text %q)", err, text, c.O.Text.str()), raw)
		default:
			got := []rdf.Term{parsed.Subject, parsed.Predicate, parsed.Object, parsed.Label}
			for i := range want {
				if ok, desc := sameTerm(got[i], want[i]); !ok {
					sum.Fail("codec:rdf.ParseNQuad:roundtrip-differs", fmt.Sprintf("%s of %q parsed as %s, specification (%s %q %q)", names[i], text, desc, want[i].Kind, want[i].Text.str(), want[i].Qual.str()), raw)
					break
				}
			}
			if parsed.String() != text {
				sum.Fail("codec:rdf.Statement.String:not-stable", fmt.Sprintf("printing the parsed statement gives %q, first print %q", parsed.String(), text), raw)
			}
		}
		if sum.Cases%500 == 3 {
			sum.Sample(map[string]any{"statement": text})
		}
	}
	return nil
}
