package codec

import (
	"fmt"
	"strconv"

	"gonum.org/v1/gonum/graph"
	"gonum.org/v1/gonum/graph/encoding/digraph6"
	"gonum.org/v1/gonum/graph/encoding/graph6"
	"gonum.org/v1/gonum/graph/multi"
	"gonum.org/v1/gonum/graph/simple"

	"gonum.org/v1/gonum/verifharness/internal/core"
)

// Graph6Ids.tla: Encode on graphs whose node IDs are ANY int64 values. The
// specification prints the IDs as decimal strings (sorted), the arcs as pairs
// of IDs, the expected bytes and the rank-relabelled adjacency. The harness
// only builds the graph in every gonum container that can hold such IDs,
// calls Encode and compares; the decoded view (digraph6.Graph / graph6.Graph
// queries) is compared with the printed adjacency by checkString.

type gidContainer struct {
	name       string
	undirected bool
	build      func(ids []int64, arcs [][2]int64, flip int) graph.Graph
}

// nodeOrder returns the IDs in the order in which they are added (ascending, descending or rotated): the
// containers are maps, Encode is documented to sort.
func nodeOrder(ids []int64, how int) []int64 {
	n := len(ids)
	out := make([]int64, 0, n)
	switch how % 3 {
	case 0:
		out = append(out, ids...)
	case 1:
		for i := n - 1; i >= 0; i-- {
			out = append(out, ids[i])
		}
	default:
		for i := 0; i < n; i++ {
			out = append(out, ids[(i+n/2+1)%n])
		}
	}
	return out
}

var gidContainers = []gidContainer{
	{"simple.DirectedGraph", false, func(ids []int64, arcs [][2]int64, flip int) graph.Graph {
		g := simple.NewDirectedGraph()
		for _, id := range nodeOrder(ids, flip) {
			g.AddNode(simple.Node(id))
		}
		for _, a := range arcs {
			g.SetEdge(simple.Edge{F: simple.Node(a[0]), T: simple.Node(a[1])})
		}
		return g
	}},
	{"simple.WeightedDirectedGraph", false, func(ids []int64, arcs [][2]int64, flip int) graph.Graph {
		g := simple.NewWeightedDirectedGraph(0, 0)
		for _, id := range nodeOrder(ids, flip) {
			g.AddNode(simple.Node(id))
		}
		for _, a := range arcs {
			g.SetWeightedEdge(simple.WeightedEdge{F: simple.Node(a[0]), T: simple.Node(a[1]), W: 2})
		}
		return g
	}},
	{"multi.DirectedGraph", false, func(ids []int64, arcs [][2]int64, flip int) graph.Graph {
		g := multi.NewDirectedGraph()
		for _, id := range nodeOrder(ids, flip) {
			g.AddNode(multi.Node(id))
		}
		uid := int64(0)
		for k, a := range arcs {
			for r := 0; r <= (k+flip)%2; r++ { // one or two parallel lines: the topology is the same
				g.SetLine(multi.Line{F: multi.Node(a[0]), T: multi.Node(a[1]), UID: uid})
				uid++
			}
		}
		return g
	}},
	{"multi.WeightedDirectedGraph", false, func(ids []int64, arcs [][2]int64, flip int) graph.Graph {
		g := multi.NewWeightedDirectedGraph()
		for _, id := range nodeOrder(ids, flip) {
			g.AddNode(multi.Node(id))
		}
		uid := int64(0)
		for k, a := range arcs {
			for r := 0; r <= (k+flip+1)%2; r++ {
				g.SetWeightedLine(multi.WeightedLine{F: multi.Node(a[0]), T: multi.Node(a[1]), W: 1, UID: uid})
				uid++
			}
		}
		return g
	}},
	{"simple.UndirectedGraph", true, func(ids []int64, arcs [][2]int64, flip int) graph.Graph {
		g := simple.NewUndirectedGraph()
		for _, id := range nodeOrder(ids, flip) {
			g.AddNode(simple.Node(id))
		}
		for k, a := range arcs {
			f, t := a[0], a[1]
			if (k+flip)%2 == 1 { // an undirected edge may be handed over either way round
				f, t = t, f
			}
			g.SetEdge(simple.Edge{F: simple.Node(f), T: simple.Node(t)})
		}
		return g
	}},
	{"simple.WeightedUndirectedGraph", true, func(ids []int64, arcs [][2]int64, flip int) graph.Graph {
		g := simple.NewWeightedUndirectedGraph(0, 0)
		for _, id := range nodeOrder(ids, flip) {
			g.AddNode(simple.Node(id))
		}
		for k, a := range arcs {
			f, t := a[0], a[1]
			if (k+flip)%2 == 0 {
				f, t = t, f
			}
			g.SetWeightedEdge(simple.WeightedEdge{F: simple.Node(f), T: simple.Node(t), W: 3})
		}
		return g
	}},
	{"multi.UndirectedGraph", true, func(ids []int64, arcs [][2]int64, flip int) graph.Graph {
		g := multi.NewUndirectedGraph()
		for _, id := range nodeOrder(ids, flip) {
			g.AddNode(multi.Node(id))
		}
		uid := int64(0)
		for k, a := range arcs {
			for r := 0; r <= (k+flip)%2; r++ {
				f, t := a[0], a[1]
				if r == 1 {
					f, t = t, f
				}
				g.SetLine(multi.Line{F: multi.Node(f), T: multi.Node(t), UID: uid})
				uid++
			}
		}
		return g
	}},
	{"multi.WeightedUndirectedGraph", true, func(ids []int64, arcs [][2]int64, flip int) graph.Graph {
		g := multi.NewWeightedUndirectedGraph()
		for _, id := range nodeOrder(ids, flip) {
			g.AddNode(multi.Node(id))
		}
		uid := int64(0)
		for k, a := range arcs {
			for r := 0; r <= (k+flip+1)%2; r++ {
				g.SetWeightedLine(multi.WeightedLine{F: multi.Node(a[1]), T: multi.Node(a[0]), W: 1, UID: uid})
				uid++
			}
		}
		return g
	}},
	{"graph.Undirect(simple.DirectedGraph)", true, func(ids []int64, arcs [][2]int64, flip int) graph.Graph {
		// the undirected view of a directed graph that holds each edge as one arc, either way round, or as both
		g := simple.NewDirectedGraph()
		for _, id := range nodeOrder(ids, flip) {
			g.AddNode(simple.Node(id))
		}
		for k, a := range arcs {
			m := (k + flip) % 3
			if m != 1 {
				g.SetEdge(simple.Edge{F: simple.Node(a[0]), T: simple.Node(a[1])})
			}
			if m != 0 {
				g.SetEdge(simple.Edge{F: simple.Node(a[1]), T: simple.Node(a[0])})
			}
		}
		return graph.Undirect{G: g}
	}},
}

func replayGid(c *g6Case, lineNo int, seed int64, sum *core.Summary) error {
	name := fmtName(c.Dir)
	ids := make([]int64, len(c.Ids))
	for i, s := range c.Ids {
		v, err := strconv.ParseInt(s, 10, 64)
		if err != nil {
			return fmt.Errorf("line %d: node id %q: %v", lineNo, s, err)
		}
		if i > 0 && ids[i-1] >= v {
			return fmt.Errorf("line %d: ids not ascending: %v", lineNo, c.Ids)
		}
		ids[i] = v
	}
	if len(ids) != c.N {
		return fmt.Errorf("line %d: %d ids but n=%d", lineNo, len(ids), c.N)
	}
	arcs := make([][2]int64, len(c.Arcs))
	for i, a := range c.Arcs {
		for j := 0; j < 2; j++ {
			v, err := strconv.ParseInt(a[j], 10, 64)
			if err != nil {
				return fmt.Errorf("line %d: arc end %q: %v", lineNo, a[j], err)
			}
			arcs[i][j] = v
		}
	}
	want := c.Enc.str()
	order := c.Order
	if c.Cont == "" {
		order = int(seed) + lineNo
	}
	for _, ct := range gidContainers {
		if c.Cont != "" && c.Cont != ct.name {
			continue
		}
		use := arcs
		if c.Dir && ct.undirected {
			// a symmetric digraph is the topology of an undirected graph: one edge per unordered pair
			if !c.Sym {
				continue
			}
			use = nil
			for _, a := range arcs {
				if a[0] < a[1] {
					use = append(use, a)
				}
			}
		} else if !c.Dir && !ct.undirected {
			continue
		}
		sum.Cases++
		if len(arcs) > 0 {
			sum.Nontrivial++
		}
		cc := *c
		cc.Cont, cc.Order = ct.name, order
		var got string
		o := core.Call(func() {
			g := ct.build(ids, use, order)
			if c.Dir {
				got = string(digraph6.Encode(g))
			} else {
				got = string(graph6.Encode(g))
			}
		})
		if o.Panicked {
			sum.Fail("codec:"+name+".Encode:ids:panic", fmt.Sprintf("%s.Encode(%s with node IDs %v, arcs %v) panicked: %s", name, ct.name, c.Ids, c.Arcs, o.Text), cc)
			continue
		}
		if got != want {
			sum.Fail("codec:"+name+".Encode:ids:bytes", fmt.Sprintf("%s.Encode(%s with node IDs %v, arcs %v) = %q, specification %q (nodes numbered by rank: n=%d, adjacency %v)",
				name, ct.name, c.Ids, c.Arcs, got, want, c.N, c.Edges), cc)
		}
		sum.Count("gid_encodes", 1)
		if c.Boundary {
			sum.Count("gid_boundary_idsets", 1)
		}
		if len(ids) > 0 && ids[0] < 0 {
			sum.Count("gid_negative_ids", 1)
		}
	}
	// decode the specification's bytes and compare with the rank-relabelled adjacency
	sum.Cases++
	sc := *c
	sc.K, sc.S, sc.Cls, sc.Reenc, sc.Canon, sc.PadClean = "s", c.Enc, "valid", c.Enc, true, true
	sc.Ids, sc.Arcs = nil, nil
	probs, _ := checkString(&sc, want)
	for _, p := range probs {
		sum.Fail("codec:"+name+"."+p.kind, p.msg, sc)
	}
	if sum.Cases%4999 == 1 {
		sum.Sample(map[string]any{"ids": c.Ids, "arcs": c.Arcs, "enc": want, "dir": c.Dir})
	}
	return nil
}
