package codec

import (
	"encoding/json"
	"fmt"
	"sort"
	"strings"
	"time"

	"gonum.org/v1/gonum/graph"
	"gonum.org/v1/gonum/graph/encoding"
	"gonum.org/v1/gonum/graph/encoding/dot"
	"gonum.org/v1/gonum/graph/multi"
	"gonum.org/v1/gonum/graph/simple"

	"gonum.org/v1/gonum/verifharness/internal/core"
)

// Edge statements with (nested) subgraph end points ("dotsub" records of specs/codec/DotSubgraph.tla): the
// specification prints the document as a token list (directed and undirected form) together with the node set,
// the bag of lines UnmarshalMulti must produce, the edge set Unmarshal must produce and whether Unmarshal into a
// simple graph must return an error (a self pair). The harness joins the tokens with single spaces, decodes into
// the four destination kinds and compares; it has no notion of subgraphs.

func init() {
	core.RegisterReplay("codec-dotsub", replayDotSub)
}

type pairList struct {
	List [][2]int `json:"list"`
}

type dotSubCase struct {
	K     string `json:"k"`
	Fam   string `json:"fam"`
	Names struct {
		List []string `json:"list"`
	} `json:"names"`
	Nodes  []int    `json:"nodes"`
	DocD   []string `json:"docd"`
	DocU   []string `json:"docu"`
	Err    bool     `json:"err"`
	LinesD pairList `json:"linesd"`
	LinesU pairList `json:"linesu"`
	EdgesD [][2]int `json:"edgesd"`
	EdgesU [][2]int `json:"edgesu"`
}

func pairBag(ps [][2]int) string {
	k := make([]string, len(ps))
	for i, p := range ps {
		k[i] = fmt.Sprint(p[0], ">", p[1])
	}
	sort.Strings(k)
	return strings.Join(k, " ")
}

func replayDotSub(in *core.Lines, args []string, seed int64, sum *core.Summary) error {
	for {
		line, ok := in.Next()
		if !ok {
			break
		}
		var c dotSubCase
		if err := json.Unmarshal(line, &c); err != nil {
			return fmt.Errorf("line %d: %v", in.N, err)
		}
		if c.K != "dotsub" {
			return fmt.Errorf("line %d: unknown record kind %q", in.N, c.K)
		}
		var raw any
		json.Unmarshal(line, &raw)
		number := map[string]int{} // node name -> the specification's node number
		for i, n := range c.Names.List {
			number[n] = i + 1
		}
		wantNodes := append([]int(nil), c.Nodes...)
		sort.Ints(wantNodes)

		for _, v := range []struct {
			dir, multi bool
		}{{true, false}, {false, false}, {true, true}, {false, true}} {
			doc := c.DocU
			if v.dir {
				doc = c.DocD
			}
			text := strings.Join(doc, " ")
			fn := "Unmarshal"
			if v.multi {
				fn = "UnmarshalMulti"
			}
			where := fmt.Sprintf("dot.%s(%q)", fn, text)
			sum.Cases++
			sum.Count("dotsub_"+c.Fam, 1)

			var err error
			var nodes []*dstNode
			var got [][2]int
			badNode := ""
			o := core.CallTimeout(20*time.Second, func() {
				var g interface {
					Nodes() graph.Nodes
				}
				var lines func(u, v int64) int
				if v.multi {
					var dst encoding.MultiBuilder
					if v.dir {
						d := dstMultiDirected{multi.NewDirectedGraph()}
						dst, lines = d, func(u, v int64) int { return d.Lines(u, v).Len() }
					} else {
						d := dstMultiUndirected{multi.NewUndirectedGraph()}
						dst, lines = d, func(u, v int64) int { return d.Lines(u, v).Len() }
					}
					err = dot.UnmarshalMulti([]byte(text), dst)
					g = dst
				} else {
					var dst encoding.Builder
					if v.dir {
						d := dstDirected{simple.NewDirectedGraph()}
						dst, lines = d, func(u, v int64) int {
							if d.HasEdgeFromTo(u, v) {
								return 1
							}
							return 0
						}
					} else {
						d := dstUndirected{simple.NewUndirectedGraph()}
						dst, lines = d, func(u, v int64) int {
							if d.HasEdgeBetween(u, v) {
								return 1
							}
							return 0
						}
					}
					err = dot.Unmarshal([]byte(text), dst)
					g = dst
				}
				if err != nil {
					return
				}
				it := g.Nodes()
				for it.Next() {
					n, ok := it.Node().(*dstNode)
					if !ok || !n.set || number[n.dotID] == 0 {
						badNode = fmt.Sprintf("%#v", it.Node())
						return
					}
					nodes = append(nodes, n)
				}
				// every ordered pair of nodes for a directed destination, every unordered pair (self pairs
				// included) for an undirected one, written in the specification's orientation
				for _, x := range nodes {
					for _, y := range nodes {
						a, b := number[x.dotID], number[y.dotID]
						if !v.dir && a > b {
							continue
						}
						for k := lines(x.ID(), y.ID()); k > 0; k-- {
							got = append(got, [2]int{a, b})
						}
					}
				}
			})
			if o.Hung || o.Panicked {
				sum.Fail("codec:dot."+fn+":panic", where+": "+o.Text, raw)
				continue
			}
			wantErr := c.Err && !v.multi
			if wantErr {
				// a self pair in a simple graph: an error is the documented outcome
				if err == nil {
					sum.Fail("codec:dot."+fn+":self-pair-accepted", where+": nil error, but an end point pair (n, n) arises and simple graphs have no self loops", raw)
				}
				continue
			}
			sum.Nontrivial++
			if err != nil {
				sum.Fail("codec:dot."+fn+":rejects-subgraph-endpoints", where+": "+err.Error(), raw)
				continue
			}
			if badNode != "" {
				sum.Fail("codec:dot."+fn+":subgraph-endpoints:nodes", where+": unexpected node "+badNode, raw)
				continue
			}
			var gotNodes []int
			for _, n := range nodes {
				gotNodes = append(gotNodes, number[n.dotID])
			}
			sort.Ints(gotNodes)
			if fmt.Sprint(gotNodes) != fmt.Sprint(wantNodes) {
				sum.Fail("codec:dot."+fn+":subgraph-endpoints:nodes", fmt.Sprintf("%s: nodes %v, specification %v", where, gotNodes, wantNodes), raw)
				continue
			}
			var want [][2]int
			switch {
			case v.multi && v.dir:
				want = c.LinesD.List
			case v.multi:
				want = c.LinesU.List
			case v.dir:
				want = c.EdgesD
			default:
				want = c.EdgesU
			}
			if pairBag(got) != pairBag(want) {
				sum.Fail("codec:dot."+fn+":subgraph-endpoints:edges",
					fmt.Sprintf("%s: edges {%s}; a subgraph end point stands for all nodes written inside it, nested ones included: {%s}", where, pairBag(got), pairBag(want)), raw)
			}
		}
		if in.N%900 == 3 {
			sum.Sample(map[string]any{"fam": c.Fam, "document": strings.Join(c.DocD, " ")})
		}
	}
	return nil
}
