package codec

import (
	"encoding/json"
	"fmt"
	"sort"
	"strings"
	"time"

	"gonum.org/v1/gonum/graph"
	"gonum.org/v1/gonum/graph/encoding"
	"gonum.org/v1/gonum/graph/encoding/dot"
	"gonum.org/v1/gonum/graph/iterator"
	"gonum.org/v1/gonum/graph/multi"
	"gonum.org/v1/gonum/graph/simple"

	"gonum.org/v1/gonum/verifharness/internal/core"
)

func init() {
	core.RegisterReplay("codec-dot", replayDot)
}

// records printed by DotAbstract.tla
type dStr struct {
	C     []int  `json:"c"`
	Exact bool   `json:"exact"`
	Cls   string `json:"cls"`
}

func (s dStr) str() string {
	r := make([]rune, len(s.C))
	for i, c := range s.C {
		r[i] = rune(c)
	}
	return string(r)
}

type dAttr struct {
	K dStr `json:"k"`
	V dStr `json:"v"`
}
type dAttrs struct {
	List []dAttr `json:"list"`
}
type dNode struct {
	ID    dStr   `json:"id"`
	Attrs dAttrs `json:"attrs"`
}
type dEnd struct {
	Node    int  `json:"node"`
	Port    dStr `json:"port"`
	Compass dStr `json:"compass"`
}
type dEdge struct {
	U     int    `json:"u"`
	V     int    `json:"v"`
	Attrs dAttrs `json:"attrs"`
	FP    dStr   `json:"fp"`
	FC    dStr   `json:"fc"`
	TP    dStr   `json:"tp"`
	TC    dStr   `json:"tc"`
	// the abstract content of the edge as the specification states it: its two ends (tail, head for a directed
	// edge; the two members of the set of ends for an undirected one)
	Abs struct {
		A dEnd `json:"a"`
		B dEnd `json:"b"`
	} `json:"abs"`
}
type dotCase struct {
	K    string `json:"k"`
	Dir  bool   `json:"dir"`
	Role string `json:"role"`
	// representation handed to the encoder: what Reversed* of the edge objects does ("swap" | "self") and whether
	// the graph is the library's ("lib") or one that returns edge objects as they were stored ("stored")
	Rev   string `json:"rev"`
	GK    string `json:"gk"`
	Nodes struct {
		List []dNode `json:"list"`
	} `json:"nodes"`
	Edges struct {
		List []dEdge `json:"list"`
	} `json:"edges"`
}

// ---- source side: values handed to dot.Marshal ---------------------------

type srcNode struct {
	id    int64
	dotID string
	attrs []encoding.Attribute
}

func (n *srcNode) ID() int64                        { return n.id }
func (n *srcNode) DOTID() string                    { return n.dotID }
func (n *srcNode) Attributes() []encoding.Attribute { return n.attrs }

type srcEdge struct {
	f, t   graph.Node
	attrs  []encoding.Attribute
	fp, fc string
	tp, tc string
	self   bool // the reversal of the edge is the edge itself
}

func (e *srcEdge) From() graph.Node                 { return e.f }
func (e *srcEdge) To() graph.Node                   { return e.t }
func (e *srcEdge) Attributes() []encoding.Attribute { return e.attrs }
func (e *srcEdge) FromPort() (string, string)       { return e.fp, e.fc }
func (e *srcEdge) ToPort() (string, string)         { return e.tp, e.tc }
func (e *srcEdge) ReversedEdge() graph.Edge {
	if e.self {
		return e
	}
	return &srcEdge{f: e.t, t: e.f, attrs: e.attrs, fp: e.tp, fc: e.tc, tp: e.fp, tc: e.fc}
}

// srcLine is a multigraph line with attributes and ports.
type srcLine struct {
	srcEdge
	id int64
}

func (l *srcLine) ID() int64 { return l.id }
func (l *srcLine) ReversedLine() graph.Line {
	if l.self {
		return l
	}
	r := l.srcEdge.ReversedEdge().(*srcEdge)
	return &srcLine{srcEdge: *r, id: l.id}
}

// storedUndirected is an undirected graph that hands back the edge objects it was given, whatever the order of
// the end points in the query ("the edge between x and y").
type storedUndirected struct {
	*simple.UndirectedGraph
	stored map[[2]int64]graph.Edge
}

func pairKey(x, y int64) [2]int64 {
	if y < x {
		x, y = y, x
	}
	return [2]int64{x, y}
}

func (g storedUndirected) SetEdge(e graph.Edge) {
	g.UndirectedGraph.SetEdge(e)
	g.stored[pairKey(e.From().ID(), e.To().ID())] = e
}
func (g storedUndirected) Edge(x, y int64) graph.Edge {
	if e, ok := g.stored[pairKey(x, y)]; ok {
		return e
	}
	return nil
}
func (g storedUndirected) EdgeBetween(x, y int64) graph.Edge { return g.Edge(x, y) }

// storedMultiUndirected is the multigraph counterpart of storedUndirected.
type storedMultiUndirected struct {
	*multi.UndirectedGraph
	stored map[[2]int64][]graph.Line
}

func (g storedMultiUndirected) SetLine(l graph.Line) {
	g.UndirectedGraph.SetLine(l)
	k := pairKey(l.From().ID(), l.To().ID())
	g.stored[k] = append(g.stored[k], l)
}
func (g storedMultiUndirected) Lines(x, y int64) graph.Lines {
	ls := g.stored[pairKey(x, y)]
	if len(ls) == 0 {
		return graph.Empty
	}
	return iterator.NewOrderedLines(append([]graph.Line(nil), ls...))
}
func (g storedMultiUndirected) LinesBetween(x, y int64) graph.Lines { return g.Lines(x, y) }

// ---- destination side: what dot.Unmarshal builds --------------------------

type dstNode struct {
	id    int64
	dotID string
	set   bool
	attrs []encoding.Attribute
}

func (n *dstNode) ID() int64         { return n.id }
func (n *dstNode) SetDOTID(s string) { n.dotID, n.set = s, true }
func (n *dstNode) SetAttribute(a encoding.Attribute) error {
	n.attrs = append(n.attrs, a)
	return nil
}

type dstEdge struct {
	f, t   graph.Node
	attrs  []encoding.Attribute
	fp, fc string
	tp, tc string
}

func (e *dstEdge) From() graph.Node { return e.f }
func (e *dstEdge) To() graph.Node   { return e.t }
func (e *dstEdge) ReversedEdge() graph.Edge {
	return &dstEdge{f: e.t, t: e.f, attrs: e.attrs, fp: e.tp, fc: e.tc, tp: e.fp, tc: e.fc}
}
func (e *dstEdge) SetAttribute(a encoding.Attribute) error {
	e.attrs = append(e.attrs, a)
	return nil
}
func (e *dstEdge) SetFromPort(p, c string) error { e.fp, e.fc = p, c; return nil }
func (e *dstEdge) SetToPort(p, c string) error   { e.tp, e.tc = p, c; return nil }

type dstDirected struct{ *simple.DirectedGraph }

func (g dstDirected) NewNode() graph.Node { return &dstNode{id: g.DirectedGraph.NewNode().ID()} }
func (g dstDirected) NewEdge(f, t graph.Node) graph.Edge {
	return &dstEdge{f: f, t: t}
}

type dstUndirected struct{ *simple.UndirectedGraph }

func (g dstUndirected) NewNode() graph.Node { return &dstNode{id: g.UndirectedGraph.NewNode().ID()} }
func (g dstUndirected) NewEdge(f, t graph.Node) graph.Edge {
	return &dstEdge{f: f, t: t}
}

type dstLine struct {
	dstEdge
	id int64
}

func (l *dstLine) ID() int64 { return l.id }
func (l *dstLine) ReversedLine() graph.Line {
	r := l.dstEdge.ReversedEdge().(*dstEdge)
	return &dstLine{dstEdge: *r, id: l.id}
}

type dstMultiDirected struct{ *multi.DirectedGraph }

func (g dstMultiDirected) NewNode() graph.Node { return &dstNode{id: g.DirectedGraph.NewNode().ID()} }
func (g dstMultiDirected) NewLine(f, t graph.Node) graph.Line {
	return &dstLine{dstEdge: dstEdge{f: f, t: t}, id: g.DirectedGraph.NewLine(f, t).ID()}
}

type dstMultiUndirected struct{ *multi.UndirectedGraph }

func (g dstMultiUndirected) NewNode() graph.Node {
	return &dstNode{id: g.UndirectedGraph.NewNode().ID()}
}
func (g dstMultiUndirected) NewLine(f, t graph.Node) graph.Line {
	return &dstLine{dstEdge: dstEdge{f: f, t: t}, id: g.UndirectedGraph.NewLine(f, t).ID()}
}

// ---- abstract structure as comparable text ---------------------------------

type structure struct {
	nodes []string
	edges []string
}

func (s structure) String() string {
	sort.Strings(s.nodes)
	sort.Strings(s.edges)
	return "nodes{" + strings.Join(s.nodes, "; ") + "} edges{" + strings.Join(s.edges, "; ") + "}"
}

func endText(id, port, compass string) string { return fmt.Sprintf("%q:%q:%q", id, port, compass) }

func edgeText(dir bool, a, b string, attrs string) string {
	if !dir && a > b {
		a, b = b, a
	}
	arrow := "--"
	if dir {
		arrow = "->"
	}
	return a + arrow + b + attrs
}

func replayDot(in *core.Lines, args []string, seed int64, sum *core.Summary) error {
	for {
		line, ok := in.Next()
		if !ok {
			break
		}
		var c dotCase
		if err := json.Unmarshal(line, &c); err != nil {
			return fmt.Errorf("line %d: %v", in.N, err)
		}
		if c.K != "dot" {
			return fmt.Errorf("line %d: unknown record kind %q", in.N, c.K)
		}
		var raw any
		json.Unmarshal(line, &raw)
		sum.Cases++
		sum.Nontrivial++
		sum.Count("role_"+c.Role, 1)

		// expected structure, straight from the specification's record; values the specification marks as
		// not exact are compared as "<unspecified>" on both sides
		inexact := map[string]bool{} // attribute keys whose value is not exact
		var want structure
		mkAttrs := func(l []dAttr) ([]encoding.Attribute, string) {
			var as []encoding.Attribute
			var xs []string
			for _, a := range l {
				as = append(as, encoding.Attribute{Key: a.K.str(), Value: a.V.str()})
				v := a.V.str()
				if !a.V.Exact {
					inexact[a.K.str()] = true
					v = "<unspecified>"
				}
				xs = append(xs, fmt.Sprintf("%q=%q", a.K.str(), v))
			}
			sort.Strings(xs)
			return as, "[" + strings.Join(xs, ",") + "]"
		}
		var nodes []*srcNode
		for i, n := range c.Nodes.List {
			as, txt := mkAttrs(n.Attrs.List)
			nodes = append(nodes, &srcNode{id: int64(i*7 + 3), dotID: n.ID.str(), attrs: as})
			want.nodes = append(want.nodes, fmt.Sprintf("%q%s", n.ID.str(), txt))
		}
		var edges []*srcEdge
		for _, e := range c.Edges.List {
			as, txt := mkAttrs(e.Attrs.List)
			f, t := nodes[e.U-1], nodes[e.V-1]
			edges = append(edges, &srcEdge{f: f, t: t, attrs: as, fp: e.FP.str(), fc: e.FC.str(), tp: e.TP.str(), tc: e.TC.str(), self: c.Rev == "self"})
			// expected: the abstract content the specification printed for this edge
			if e.Abs.A.Node < 1 || e.Abs.A.Node > len(nodes) || e.Abs.B.Node < 1 || e.Abs.B.Node > len(nodes) {
				return fmt.Errorf("line %d: edge without abstract content", in.N)
			}
			a, b := e.Abs.A, e.Abs.B
			want.edges = append(want.edges, edgeText(c.Dir, endText(nodes[a.Node-1].dotID, a.Port.str(), a.Compass.str()),
				endText(nodes[b.Node-1].dotID, b.Port.str(), b.Compass.str()), txt))
		}

		// Marshal
		var data []byte
		var err error
		isMulti := c.Role == "multi" || c.Role == "ports-multi"
		if c.GK == "stored" && c.Dir {
			return fmt.Errorf("line %d: graph kind \"stored\" is for undirected graphs", in.N)
		}
		o := core.CallTimeout(20*time.Second, func() {
			if isMulti {
				var g interface {
					graph.Multigraph
					AddNode(graph.Node)
					SetLine(graph.Line)
				}
				switch {
				case c.Dir:
					g = multi.NewDirectedGraph()
				case c.GK == "stored":
					g = storedMultiUndirected{multi.NewUndirectedGraph(), map[[2]int64][]graph.Line{}}
				default:
					g = multi.NewUndirectedGraph()
				}
				for _, n := range nodes {
					g.AddNode(n)
				}
				for i, e := range edges {
					g.SetLine(&srcLine{srcEdge: *e, id: int64(i*5 + 2)})
				}
				data, err = dot.MarshalMulti(g, "", "", " ")
				return
			}
			if c.Dir {
				g := simple.NewDirectedGraph()
				for _, n := range nodes {
					g.AddNode(n)
				}
				for _, e := range edges {
					g.SetEdge(e)
				}
				data, err = dot.Marshal(g, "", "", " ")
			} else if c.GK == "stored" {
				g := storedUndirected{simple.NewUndirectedGraph(), map[[2]int64]graph.Edge{}}
				for _, n := range nodes {
					g.AddNode(n)
				}
				for _, e := range edges {
					g.SetEdge(e)
				}
				data, err = dot.Marshal(g, "", "", " ")
			} else {
				g := simple.NewUndirectedGraph()
				for _, n := range nodes {
					g.AddNode(n)
				}
				for _, e := range edges {
					g.SetEdge(e)
				}
				data, err = dot.Marshal(g, "", "", " ")
			}
		})
		if o.Hung || o.Panicked {
			sum.Fail("codec:dot.Marshal:panic", fmt.Sprintf("Marshal of %s: %s", want, o.Text), raw)
			continue
		}
		if err != nil {
			sum.Fail("codec:dot.Marshal:error", fmt.Sprintf("Marshal of %s returned error %v", want, err), raw)
			continue
		}

		// Unmarshal what Marshal wrote
		var got structure
		o = core.CallTimeout(20*time.Second, func() {
			if isMulti {
				var dst encoding.MultiBuilder
				if c.Dir {
					dst = dstMultiDirected{multi.NewDirectedGraph()}
				} else {
					dst = dstMultiUndirected{multi.NewUndirectedGraph()}
				}
				err = dot.UnmarshalMulti(data, dst)
				if err != nil {
					return
				}
				mtxt := func(as []encoding.Attribute) string {
					var xs []string
					for _, a := range as {
						xs = append(xs, fmt.Sprintf("%q=%q", a.Key, a.Value))
					}
					sort.Strings(xs)
					return "[" + strings.Join(xs, ",") + "]"
				}
				it := dst.Nodes()
				var ns []*dstNode
				for it.Next() {
					n := it.Node().(*dstNode)
					ns = append(ns, n)
					got.nodes = append(got.nodes, fmt.Sprintf("%q%s", n.dotID, mtxt(n.attrs)))
				}
				for _, u := range ns {
					for _, v := range ns {
						if u == v || (!c.Dir && v.ID() < u.ID()) {
							continue
						}
						ls := dst.Lines(u.ID(), v.ID())
						for ls.Next() {
							l := ls.Line().(*dstLine)
							fn, tn := l.From().(*dstNode), l.To().(*dstNode)
							if c.Dir && fn != u {
								continue
							}
							got.edges = append(got.edges, edgeText(c.Dir, endText(fn.dotID, l.fp, l.fc), endText(tn.dotID, l.tp, l.tc), mtxt(l.attrs)))
						}
					}
				}
				return
			}
			var dst encoding.Builder
			if c.Dir {
				dst = dstDirected{simple.NewDirectedGraph()}
			} else {
				dst = dstUndirected{simple.NewUndirectedGraph()}
			}
			err = dot.Unmarshal(data, dst)
			if err != nil {
				return
			}
			txt := func(as []encoding.Attribute) string {
				var xs []string
				for _, a := range as {
					v := a.Value
					if inexact[a.Key] {
						v = "<unspecified>"
					}
					xs = append(xs, fmt.Sprintf("%q=%q", a.Key, v))
				}
				sort.Strings(xs)
				return "[" + strings.Join(xs, ",") + "]"
			}
			it := dst.Nodes()
			for it.Next() {
				n := it.Node().(*dstNode)
				got.nodes = append(got.nodes, fmt.Sprintf("%q%s", n.dotID, txt(n.attrs)))
			}
			it.Reset()
			for it.Next() {
				u := it.Node().(*dstNode)
				to := dst.From(u.ID())
				for to.Next() {
					v := to.Node().(*dstNode)
					if !c.Dir && v.ID() < u.ID() {
						continue
					}
					e := dst.Edge(u.ID(), v.ID()).(*dstEdge)
					fn, tn := e.From().(*dstNode), e.To().(*dstNode)
					got.edges = append(got.edges, edgeText(c.Dir, endText(fn.dotID, e.fp, e.fc), endText(tn.dotID, e.tp, e.tc), txt(e.attrs)))
				}
			}
		})
		switch {
		case o.Hung || o.Panicked:
			sum.Fail("codec:dot.Unmarshal:panic-on-marshal-output", fmt.Sprintf("Unmarshal(Marshal(%s)) on %q: %s", want, data, o.Text), raw)
		case err != nil && len(inexact) > 0:
			// a string whose denotation the abstract model leaves to the DOT lexical grammar (e.g. <<a>): only
			// totality is expected; counted, not judged
			sum.Count("lexical_class_document_rejected", 1)
		case err != nil:
			sum.Fail("codec:dot.Unmarshal:rejects-marshal-output", fmt.Sprintf("Unmarshal(Marshal(%s)) returned error %v; document: %q", want, err, data), raw)
		case got.String() != want.String():
			sum.Fail("codec:dot:roundtrip-differs:"+c.Role, fmt.Sprintf("structure in: %s\nstructure out: %s\ndocument: %q", want, got, data), raw)
		}
		if sum.Cases%700 == 5 {
			sum.Sample(map[string]any{"role": c.Role, "document": string(data)})
		}
	}
	return nil
}
