package matrep

// Binding of specs/matrep/MatObj.tla to the concrete types of gonum/mat
// (property C04, object-level semantics).
//
// Every input line is a script printed by TLC: a representation with its
// backing array (object 0, built with the public constructors exactly as in
// matrep.go) and a sequence of steps.  A step names a method, the object it is
// called on and its integer arguments, and carries what the specification
// demands: the panic (names of acceptable mat.Error values), the returned
// integers, the visited (i, j, v) triples, the value of an object read through
// Dims and At after the step, and the backing array of object 0 after the step
// with the mask of slots that must match.  This file is an interpreter of such
// scripts: it calls the named method and compares; it has no mathematics of
// its own.

import (
	"encoding/json"
	"fmt"
	"math"
	"sort"
	"strings"

	"gonum.org/v1/gonum/blas"
	"gonum.org/v1/gonum/mat"

	"gonum.org/v1/gonum/verifharness/internal/core"
)

func init() { core.RegisterReplay("matobj", replayObj) }

type ostep struct {
	M      string        `json:"m"`
	On     int           `json:"on"`
	A      []int         `json:"a"`
	Sarg   string        `json:"sarg"`
	Text   []string      `json:"text"`
	Errs   []string      `json:"errs"`
	Ret    []float64     `json:"ret"`
	Approx []float64     `json:"approx"`
	Tr     [][][]float64 `json:"tr"`
	Obs    int           `json:"obs"`
	Rows   [][]float64   `json:"rows"`
	Alt    [][]float64   `json:"alt"`
	Store  []float64     `json:"store"`
	Mask   []int         `json:"mask"`
}

type ocase struct {
	Op    string    `json:"op"`
	Rep   rep       `json:"rep"`
	Store []float64 `json:"store"`
	Steps []ostep   `json:"steps"`
}

// the documented error values, by name
var matErrors = map[string]mat.Error{
	"ErrNegativeDimension":   mat.ErrNegativeDimension,
	"ErrIndexOutOfRange":     mat.ErrIndexOutOfRange,
	"ErrReuseNonEmpty":       mat.ErrReuseNonEmpty,
	"ErrRowAccess":           mat.ErrRowAccess,
	"ErrColAccess":           mat.ErrColAccess,
	"ErrVectorAccess":        mat.ErrVectorAccess,
	"ErrZeroLength":          mat.ErrZeroLength,
	"ErrRowLength":           mat.ErrRowLength,
	"ErrColLength":           mat.ErrColLength,
	"ErrSquare":              mat.ErrSquare,
	"ErrNormOrder":           mat.ErrNormOrder,
	"ErrSingular":            mat.ErrSingular,
	"ErrShape":               mat.ErrShape,
	"ErrIllegalStride":       mat.ErrIllegalStride,
	"ErrPivot":               mat.ErrPivot,
	"ErrTriangle":            mat.ErrTriangle,
	"ErrTriangleSet":         mat.ErrTriangleSet,
	"ErrBandwidth":           mat.ErrBandwidth,
	"ErrBandSet":             mat.ErrBandSet,
	"ErrDiagSet":             mat.ErrDiagSet,
	"ErrSliceLengthMismatch": mat.ErrSliceLengthMismatch,
	"ErrNotPSD":              mat.ErrNotPSD,
	"ErrFailedEigen":         mat.ErrFailedEigen,
}

// zeroValue returns the zero value of the type named by a "Zero<Type>" kind.
func zeroValue(kind string) (any, bool) {
	switch kind {
	case "ZeroDense":
		return &mat.Dense{}, true
	case "ZeroSym":
		return &mat.SymDense{}, true
	case "ZeroTriU", "ZeroTriL":
		return &mat.TriDense{}, true
	case "ZeroVec":
		return &mat.VecDense{}, true
	case "ZeroBand":
		return &mat.BandDense{}, true
	case "ZeroSymBand":
		return &mat.SymBandDense{}, true
	case "ZeroTriBandU", "ZeroTriBandL":
		return &mat.TriBandDense{}, true
	case "ZeroDiag":
		return &mat.DiagDense{}, true
	case "ZeroTridiag":
		return &mat.Tridiag{}, true
	}
	return nil, false
}

type noMethod struct{ msg string }

func need[T any](obj any, m string) T {
	v, ok := obj.(T)
	if !ok {
		panic(noMethod{fmt.Sprintf("%T does not offer %s", obj, m)})
	}
	return v
}

func b2f(b bool) float64 {
	if b {
		return 1
	}
	return 0
}

func triKind(up int) mat.TriKind {
	if up == 1 {
		return mat.Upper
	}
	return mat.Lower
}

// outcome of one interpreted call
type stepOut struct {
	text    *string
	ret     []float64
	newObj  any
	triples [][]float64
}

// apply calls the method named by the step on obj.
func apply(st *ostep, obj any) (o stepOut) {
	a := st.A
	collect := func(i, j int, v float64) { o.triples = append(o.triples, []float64{float64(i), float64(j), v}) }
	switch st.M {
	// ---- element access
	case "At":
		o.ret = []float64{need[mat.Matrix](obj, st.M).At(a[0], a[1])}
	case "AtVec":
		o.ret = []float64{need[mat.Vector](obj, st.M).AtVec(a[0])}
	case "Set":
		v := float64(a[2])
		switch m := obj.(type) {
		case *mat.Dense:
			m.Set(a[0], a[1], v)
		case *mat.SymDense:
			m.SetSym(a[0], a[1], v)
		case *mat.TriDense:
			m.SetTri(a[0], a[1], v)
		case *mat.BandDense:
			m.SetBand(a[0], a[1], v)
		case *mat.SymBandDense:
			m.SetSymBand(a[0], a[1], v)
		case *mat.TriBandDense:
			m.SetTriBand(a[0], a[1], v)
		case *mat.Tridiag:
			m.SetBand(a[0], a[1], v)
		default:
			panic(noMethod{fmt.Sprintf("%T has no typed setter", obj)})
		}
	case "SetDiag":
		need[mat.MutableDiagonal](obj, st.M).SetDiag(a[0], float64(a[1]))
	case "SetVec":
		need[mat.MutableVector](obj, st.M).SetVec(a[0], float64(a[1]))
	// ---- structure accessors
	case "Dims":
		r, c := need[mat.Matrix](obj, st.M).Dims()
		o.ret = []float64{float64(r), float64(c)}
	case "Bandwidth":
		kl, ku := need[mat.Banded](obj, st.M).Bandwidth()
		o.ret = []float64{float64(kl), float64(ku)}
	case "Triangle":
		n, k := need[mat.Triangular](obj, st.M).Triangle()
		o.ret = []float64{float64(n), b2f(k == mat.Upper)}
	case "TriBand":
		n, k, kind := need[mat.TriBanded](obj, st.M).TriBand()
		o.ret = []float64{float64(n), float64(k), b2f(kind == mat.Upper)}
	case "SymBand":
		n, k := need[mat.SymBanded](obj, st.M).SymBand()
		o.ret = []float64{float64(n), float64(k)}
	case "SymmetricDim":
		o.ret = []float64{float64(need[mat.Symmetric](obj, st.M).SymmetricDim())}
	case "Diag":
		o.ret = []float64{float64(need[mat.Diagonal](obj, st.M).Diag())}
	case "Len":
		o.ret = []float64{float64(need[mat.Vector](obj, st.M).Len())}
	case "IsEmpty":
		o.ret = []float64{b2f(need[interface{ IsEmpty() bool }](obj, st.M).IsEmpty())}
	case "Caps":
		r, c := need[interface{ Caps() (int, int) }](obj, st.M).Caps()
		o.ret = []float64{float64(r), float64(c)}
	case "Raw":
		f := func(v ...int) {
			for _, x := range v {
				o.ret = append(o.ret, float64(x))
			}
		}
		up := func(u blas.Uplo) int { return int(b2f(u == blas.Upper)) }
		switch m := obj.(type) {
		case *mat.Dense:
			g := m.RawMatrix()
			f(g.Rows, g.Cols, g.Stride)
		case *mat.SymDense:
			g := m.RawSymmetric()
			f(g.N, g.Stride, up(g.Uplo))
		case *mat.TriDense:
			g := m.RawTriangular()
			f(g.N, g.Stride, up(g.Uplo))
		case *mat.BandDense:
			g := m.RawBand()
			f(g.Rows, g.Cols, g.KL, g.KU, g.Stride)
		case *mat.SymBandDense:
			g := m.RawSymBand()
			f(g.N, g.K, g.Stride)
		case *mat.TriBandDense:
			g := m.RawTriBand()
			f(g.N, g.K, g.Stride, up(g.Uplo))
		case *mat.DiagDense:
			g := m.RawBand()
			f(g.Rows, g.Cols, g.KL, g.KU, g.Stride)
		case *mat.Tridiag:
			g := m.RawTridiagonal()
			f(g.N, len(g.DL), len(g.D), len(g.DU))
		case *mat.VecDense:
			g := m.RawVector()
			f(g.N, g.Inc)
		default:
			panic(noMethod{fmt.Sprintf("%T has no Raw accessor known to the harness", obj)})
		}
	// ---- implicit transposes and their inverses
	case "T":
		o.newObj = need[mat.Matrix](obj, st.M).T()
	case "TTri":
		o.newObj = need[interface{ TTri() mat.Triangular }](obj, st.M).TTri()
	case "TBand":
		o.newObj = need[interface{ TBand() mat.Banded }](obj, st.M).TBand()
	case "TTriBand":
		o.newObj = need[interface{ TTriBand() mat.TriBanded }](obj, st.M).TTriBand()
	case "TVec":
		o.newObj = need[interface{ TVec() mat.Vector }](obj, st.M).TVec()
	case "Untranspose":
		o.newObj = need[mat.Untransposer](obj, st.M).Untranspose()
	case "UntransposeTri":
		o.newObj = need[mat.UntransposeTrier](obj, st.M).UntransposeTri()
	case "UntransposeBand":
		o.newObj = need[mat.UntransposeBander](obj, st.M).UntransposeBand()
	case "UntransposeTriBand":
		o.newObj = need[mat.UntransposeTriBander](obj, st.M).UntransposeTriBand()
	case "UntransposeVec":
		o.newObj = need[interface{ UntransposeVec() mat.Vector }](obj, st.M).UntransposeVec()
	case "DiagView":
		o.newObj = need[interface{ DiagView() mat.Diagonal }](obj, st.M).DiagView()
	// ---- iterators
	case "DoNonZero":
		o.triples = [][]float64{}
		need[mat.NonZeroDoer](obj, st.M).DoNonZero(collect)
	case "DoRowNonZero":
		o.triples = [][]float64{}
		need[mat.RowNonZeroDoer](obj, st.M).DoRowNonZero(a[0], collect)
	case "DoColNonZero":
		o.triples = [][]float64{}
		need[mat.ColNonZeroDoer](obj, st.M).DoColNonZero(a[0], collect)
	// ---- whole-object mutators
	case "Zero":
		need[interface{ Zero() }](obj, st.M).Zero()
	case "Reset":
		need[mat.Reseter](obj, st.M).Reset()
	case "ReuseAs":
		need[*mat.Dense](obj, st.M).ReuseAs(a[0], a[1])
	case "ReuseAsSym":
		need[*mat.SymDense](obj, st.M).ReuseAsSym(a[0])
	case "ReuseAsTri":
		need[*mat.TriDense](obj, st.M).ReuseAsTri(a[0], triKind(a[1]))
	case "ReuseAsVec":
		need[*mat.VecDense](obj, st.M).ReuseAsVec(a[0])
	case "ReuseAsTriBand":
		need[*mat.TriBandDense](obj, st.M).ReuseAsTriBand(a[0], a[1], triKind(a[2]))
	case "Grow":
		o.newObj = need[*mat.Dense](obj, st.M).Grow(a[0], a[1])
	case "GrowSym":
		o.newObj = need[*mat.SymDense](obj, st.M).GrowSym(a[0])
	case "SubsetSym": // a[0]: 0 = into a new zero value (the new object), 1 = into the operand itself; a[1:] = set
		set := append([]int(nil), a[1:]...)
		if a[0] == 1 {
			recv := need[*mat.SymDense](obj, st.M)
			recv.SubsetSym(recv, set)
		} else {
			recv := &mat.SymDense{}
			recv.SubsetSym(need[mat.Symmetric](obj, st.M), set)
			o.newObj = recv
		}
	case "Slice":
		o.newObj = need[*mat.Dense](obj, st.M).Slice(a[0], a[1], a[2], a[3])
	case "SliceSym":
		o.newObj = need[*mat.SymDense](obj, st.M).SliceSym(a[0], a[1])
	case "SliceTri":
		o.newObj = need[*mat.TriDense](obj, st.M).SliceTri(a[0], a[1])
	case "SliceVec":
		o.newObj = need[*mat.VecDense](obj, st.M).SliceVec(a[0], a[1])
	// ---- permutations: a[0] = inverse flag (or n for Permutation), a[1:] = p
	case "PermuteRows":
		need[*mat.Dense](obj, st.M).PermuteRows(append([]int(nil), a[1:]...), a[0] == 1)
	case "PermuteCols":
		need[*mat.Dense](obj, st.M).PermuteCols(append([]int(nil), a[1:]...), a[0] == 1)
	case "Permute":
		need[*mat.VecDense](obj, st.M).Permute(append([]int(nil), a[1:]...), a[0] == 1)
	case "Permutation":
		need[*mat.Dense](obj, st.M).Permutation(a[0], append([]int(nil), a[1:]...))
	// ---- norms
	case "Trace":
		o.ret = []float64{need[mat.Tracer](obj, st.M).Trace()}
	case "Norm":
		o.ret = []float64{need[mat.Normer](obj, st.M).Norm(normOrd(a[0]))}
	case "NormFunc":
		o.ret = []float64{mat.Norm(need[mat.Matrix](obj, st.M), normOrd(a[0]))}
	// ---- constructors: a = r, c, p, q, len (len < 0: nil data; the data are 1, 2, .., len)
	case "NewDense", "NewSym", "NewTriU", "NewTriL", "NewVec", "NewDiag", "NewBand", "NewSymBand", "NewTriBandU", "NewTriBandL", "NewTridiag":
		var data []float64
		if a[4] >= 0 {
			data = make([]float64, a[4])
			for i := range data {
				data[i] = float64(i + 1)
			}
		}
		r, c, p, q := a[0], a[1], a[2], a[3]
		switch st.M {
		case "NewDense":
			o.newObj = mat.NewDense(r, c, data)
		case "NewSym":
			o.newObj = mat.NewSymDense(r, data)
		case "NewTriU":
			o.newObj = mat.NewTriDense(r, mat.Upper, data)
		case "NewTriL":
			o.newObj = mat.NewTriDense(r, mat.Lower, data)
		case "NewVec":
			o.newObj = mat.NewVecDense(r, data)
		case "NewDiag":
			o.newObj = mat.NewDiagDense(r, data)
		case "NewBand":
			if p == 0 && q == 0 {
				o.newObj = mat.NewDiagonalRect(r, c, data)
			} else {
				o.newObj = mat.NewBandDense(r, c, p, q, data)
			}
		case "NewSymBand":
			o.newObj = mat.NewSymBandDense(r, p, data)
		case "NewTriBandU":
			o.newObj = mat.NewTriBandDense(r, p, mat.Upper, data)
		case "NewTriBandL":
			o.newObj = mat.NewTriBandDense(r, p, mat.Lower, data)
		case "NewTridiag":
			if data == nil {
				o.newObj = mat.NewTridiag(r, nil, nil, nil)
			} else {
				k := r - 1 // dl and du get n-1 elements each (as far as there are that many), d the rest
				if k < 0 {
					k = 0
				}
				if 2*k > len(data) {
					k = len(data) / 2
				}
				o.newObj = mat.NewTridiag(r, data[:k], data[k:len(data)-k], data[len(data)-k:])
			}
		}
	// ---- errors
	case "ErrorText":
		e, ok := matErrors[st.Sarg]
		if !ok {
			panic(noMethod{"unknown error name " + st.Sarg})
		}
		t := e.Error()
		o.text = &t
	case "Maybe", "MaybeFloat", "MaybeComplex":
		o = applyMaybe(st)
	default:
		panic(noMethod{"unknown method " + st.M})
	}
	return o
}

// applyMaybe calls mat.Maybe / MaybeFloat / MaybeComplex with a function behaving as the step says
// (a[0]: 0 return, 1 panic with the mat.Error named sarg, 2 panic with another value, 3 runtime error)
// and reports 0 (nil error, then the returned value), 1 (an ErrorStack holding that mat.Error, with
// a stack trace) or 2 (re-panicked with the very same value).
func applyMaybe(st *ostep) (o stepOut) {
	other := fmt.Errorf("not a mat.Error")
	var thrown any
	behave := func() {
		switch st.A[0] {
		case 1:
			e, ok := matErrors[st.Sarg]
			if !ok {
				panic(noMethod{"unknown error name " + st.Sarg})
			}
			thrown = e
			panic(e)
		case 2:
			thrown = other
			panic(other)
		case 3:
			var s []int
			defer func() {
				thrown = recover()
				panic(thrown)
			}()
			_ = s[st.A[0]]
		}
	}
	var err error
	var val []float64
	out := core.Call(func() {
		switch st.M {
		case "Maybe":
			err = mat.Maybe(behave)
		case "MaybeFloat":
			var f float64
			f, err = mat.MaybeFloat(func() float64 { behave(); return 5 })
			val = []float64{f}
		default:
			var z complex128
			z, err = mat.MaybeComplex(func() complex128 { behave(); return complex(5, -2) })
			val = []float64{real(z), imag(z)}
		}
	})
	switch {
	case out.Panicked:
		if _, isNo := out.Val.(noMethod); isNo {
			panic(out.Val)
		}
		if out.Val == thrown && thrown != nil {
			o.ret = []float64{2}
		} else {
			o.ret = []float64{-2} // re-panicked with a different value
		}
	case err == nil:
		o.ret = append([]float64{0}, val...)
	default:
		es, ok := err.(mat.ErrorStack)
		if ok && es.Err == thrown && es.StackTrace != "" {
			o.ret = []float64{1}
		} else {
			o.ret = []float64{-1} // not an ErrorStack holding the panic value and a stack trace
		}
		t := err.Error()
		o.text = &t
	}
	return o
}

func normOrd(k int) float64 {
	if k == 0 {
		return math.Inf(1)
	}
	return float64(k)
}

// readRows reads a matrix through Dims and At only.
func readRows(obj any) (rows [][]float64, panicked string) {
	m, ok := obj.(mat.Matrix)
	if !ok {
		return nil, fmt.Sprintf("%T is not a mat.Matrix", obj)
	}
	o := core.Call(func() {
		r, c := m.Dims()
		rows = make([][]float64, r)
		for i := range rows {
			rows[i] = make([]float64, c)
			for j := range rows[i] {
				rows[i][j] = m.At(i, j)
			}
		}
	})
	if o.Panicked {
		return nil, o.Text
	}
	return rows, ""
}

func diffRowsAlt(got, want, alt [][]float64) string {
	if len(got) != len(want) {
		return fmt.Sprintf("object has %d rows, spec demands %d (%v vs %v)", len(got), len(want), got, want)
	}
	for i := range want {
		if len(got[i]) != len(want[i]) {
			return fmt.Sprintf("row %d has %d columns, spec demands %d", i, len(got[i]), len(want[i]))
		}
		for j := range want[i] {
			if got[i][j] == want[i][j] {
				continue
			}
			if len(alt) > 0 && got[i][j] == alt[i][j] {
				continue
			}
			return fmt.Sprintf("element (%d,%d) = %v, spec demands %v; got %v want %v", i, j, got[i][j], want[i][j], got, want)
		}
	}
	return ""
}

func sortTriples(t [][]float64) [][]float64 {
	s := append([][]float64(nil), t...)
	sort.Slice(s, func(x, y int) bool {
		for k := 0; k < 3; k++ {
			if s[x][k] != s[y][k] {
				return s[x][k] < s[y][k]
			}
		}
		return false
	})
	return s
}

func errNames(v any) string {
	if e, ok := v.(mat.Error); ok {
		for n, x := range matErrors {
			if x == e {
				return n
			}
		}
	}
	return fmt.Sprintf("%T(%v)", v, v)
}

func replayObj(in *core.Lines, args []string, seed int64, sum *core.Summary) error {
	methods := map[string]bool{}
	kinds := map[string]bool{}
	nsteps := 0
	for {
		line, ok := in.Next()
		if !ok {
			break
		}
		var c ocase
		if err := json.Unmarshal(line, &c); err != nil {
			return fmt.Errorf("line %d: %v", in.N, err)
		}
		raw := json.RawMessage(append([]byte(nil), line...))
		name := repName(c.Rep)
		kinds[name] = true

		// object 0 on a private copy of the emitted backing array (capacity = length)
		back := make([]float64, len(c.Store))
		copy(back, c.Store)
		var objs []any
		if z, isZero := zeroValue(c.Rep.Kind); isZero {
			objs = append(objs, z)
		} else {
			var m mat.Matrix
			var err error
			o := core.Call(func() {
				m, err = build(c.Rep, back)
				if err == nil {
					m, err = wrap(m, c.Rep.Tw)
				}
			})
			if o.Panicked {
				return fmt.Errorf("line %d: constructing %s panicked: %s", in.N, name, o.Text)
			}
			if err != nil {
				return fmt.Errorf("line %d: %v", in.N, err)
			}
			objs = append(objs, m)
		}
		sum.Cases++
		nontrivial := c.Rep.Kind != "Dense" || c.Rep.Tw != "N"

		for k := range c.Steps {
			st := &c.Steps[k]
			nsteps++
			methods[st.M] = true
			if len(st.Errs) > 0 {
				nontrivial = true
			}
			sig := func(kind string) string { return fmt.Sprintf("matobj:%s:%s:%s:%s", c.Op, st.M, name, kind) }
			where := fmt.Sprintf("step %d %s%v on object %d", k, st.M, st.A, st.On)
			if st.On >= len(objs) {
				return fmt.Errorf("line %d: %s: no such object", in.N, where)
			}
			var res stepOut
			out := core.Call(func() { res = apply(st, objs[st.On]) })
			if nm, isNo := out.Val.(noMethod); out.Panicked && isNo {
				return fmt.Errorf("line %d: %s: %s", in.N, where, nm.msg)
			}
			failed := false
			fail := func(kind, msg string) {
				failed = true
				sum.Fail(sig(kind), where+": "+msg, raw)
			}
			switch {
			case out.Panicked && out.Runtime:
				fail("runtime-panic", "runtime error: "+out.Text)
			case out.Panicked && len(st.Errs) == 0:
				fail("unexpected-panic", fmt.Sprintf("panicked with %s; the specification demands a normal return", errNames(out.Val)))
			case !out.Panicked && len(st.Errs) > 0:
				fail("missing-panic", fmt.Sprintf("returned; the specification demands a panic with one of %v", st.Errs))
			case out.Panicked:
				okErr := false
				for _, n := range st.Errs {
					if n == "any" {
						okErr = true
					} else if e, isErr := out.Val.(mat.Error); isErr && e == matErrors[n] {
						okErr = true
					}
				}
				if !okErr {
					fail("wrong-error", fmt.Sprintf("panicked with %s; the specification demands one of %v", errNames(out.Val), st.Errs))
				}
			}
			if failed {
				break
			}
			if !out.Panicked {
				if res.newObj != nil {
					objs = append(objs, res.newObj)
				}
				if len(st.Ret) > 0 {
					if len(res.ret) != len(st.Ret) {
						fail("returned", fmt.Sprintf("returned %v, spec demands %v", res.ret, st.Ret))
					} else {
						for i := range st.Ret {
							if res.ret[i] != st.Ret[i] {
								fail("returned", fmt.Sprintf("returned %v, spec demands %v", res.ret, st.Ret))
								break
							}
						}
					}
				}
				if len(st.Approx) == 4 && !failed {
					lo := st.Approx[0]/st.Approx[2] - 1/st.Approx[3]
					hi := st.Approx[1]/st.Approx[2] + 1/st.Approx[3]
					if len(res.ret) != 1 || !(res.ret[0] >= lo && res.ret[0] <= hi) {
						fail("returned", fmt.Sprintf("returned %v, spec demands a value in [%v, %v]", res.ret, lo, hi))
					}
				}
				if len(st.Text) == 1 && !failed && (res.text == nil || *res.text != st.Text[0]) {
					got := "<no string>"
					if res.text != nil {
						got = *res.text
					}
					fail("text", fmt.Sprintf("returned the text %q, spec demands %q", got, st.Text[0]))
				}
				if len(st.Tr) == 1 && !failed {
					got, want := sortTriples(res.triples), sortTriples(st.Tr[0])
					if fmt.Sprint(got) != fmt.Sprint(want) {
						fail("visited", fmt.Sprintf("visited %v, spec demands exactly %v", got, want))
					}
				}
			}
			if failed {
				break
			}
			// the value of the observed object after the step
			if len(st.Rows) > 0 {
				if st.Obs >= len(objs) {
					return fmt.Errorf("line %d: %s: observed object %d does not exist", in.N, where, st.Obs)
				}
				got, p := readRows(objs[st.Obs])
				if p != "" {
					fail("unreadable", "reading object "+fmt.Sprint(st.Obs)+" through Dims/At failed: "+p)
				} else if msg := diffRowsAlt(got, st.Rows, st.Alt); msg != "" {
					fail("value", fmt.Sprintf("object %d after the step: %s", st.Obs, msg))
				}
			}
			if failed {
				break
			}
			// the backing array of object 0 after the step
			if len(st.Store) > 0 {
				if len(st.Store) != len(back) || len(st.Mask) != len(back) {
					return fmt.Errorf("line %d: %s: demanded backing array has %d slots, object 0 has %d", in.N, where, len(st.Store), len(back))
				}
				for p := range back {
					if st.Mask[p] == 1 && math.Float64bits(back[p]+0) != math.Float64bits(st.Store[p]+0) {
						fail("store", fmt.Sprintf("backing[%d] = %v, spec demands %v (backing %v, demanded %v, mask %v)", p, back[p], st.Store[p], back, st.Store, st.Mask))
						break
					}
				}
			}
			if failed {
				break
			}
		}
		if nontrivial {
			sum.Nontrivial++
		}
		if sum.Cases%1499 == 1 {
			sum.Sample(raw)
		}
	}
	ms := make([]string, 0, len(methods))
	for m := range methods {
		ms = append(ms, m)
	}
	sort.Strings(ms)
	sum.Extra["steps"] = nsteps
	sum.Extra["methods"] = strings.Join(ms, " ")
	sum.Extra["distinct_operand_representations"] = len(kinds)
	return nil
}
