// Package matrep binds specs/matrep/MatOps.tla to gonum/mat (property C04).
//
// Every line of the input is one case printed by TLC: an operation, one
// representation per operand position with the backing array that realises the
// operand (MatRep.tla: Store), the receiver's state and backing array with the
// mask of its own window, and the result demanded by the element-wise
// definition of the operation.  The harness builds each operand FROM THE
// EMITTED BACKING ARRAY with the public constructors of package mat (or a
// harness-local type exposing only an interface), wraps it with the emitted
// transpose wrapper, calls the method, reads the result through Dims and At
// only, and compares it with the emitted rows bit for bit.  It also compares
// every operand's backing array and the receiver's frame (slots outside its
// window) before and after.  It has no mathematics of its own.
package matrep

import (
	"encoding/json"
	"fmt"
	"math"
	"strings"

	"gonum.org/v1/gonum/blas"
	"gonum.org/v1/gonum/blas/blas64"
	"gonum.org/v1/gonum/lapack/lapack64"
	"gonum.org/v1/gonum/mat"

	"gonum.org/v1/gonum/verifharness/internal/core"
)

func init() { core.RegisterReplay("matrep", replay) }

type rep struct {
	Kind string `json:"kind"`
	R    int    `json:"r"`
	C    int    `json:"c"`
	P    int    `json:"p"`
	Q    int    `json:"q"`
	Tw   string `json:"tw"`
}

type operand struct {
	Rep   rep       `json:"rep"`
	Store []float64 `json:"store"`
}

type rcase struct {
	Op   string    `json:"op"`
	N1   int       `json:"n1"`
	N2   int       `json:"n2"`
	Rs   string    `json:"rs"`
	Up   bool      `json:"up"`
	Args []operand `json:"args"`
	Recv struct {
		Rep   rep       `json:"rep"`
		Store []float64 `json:"store"`
		Mask  []int     `json:"mask"`
	} `json:"recv"`
	Exp struct {
		Panic bool        `json:"panic"`
		Rows  [][]float64 `json:"rows"`
		Ret   []int       `json:"ret"`
	} `json:"exp"`
}

// ------------------------------------------------------------ user types
// Types exposing only an interface of package mat; element access is delegated
// to the gonum value built from the emitted backing array.

type basic struct{ m mat.Matrix }

func (b basic) Dims() (int, int)    { return b.m.Dims() }
func (b basic) At(i, j int) float64 { return b.m.At(i, j) }
func (b basic) T() mat.Matrix       { return mat.Transpose{Matrix: b} }

type basicSym struct{ m *mat.SymDense }

func (b basicSym) Dims() (int, int)    { return b.m.Dims() }
func (b basicSym) At(i, j int) float64 { return b.m.At(i, j) }
func (b basicSym) T() mat.Matrix       { return mat.Transpose{Matrix: b} }
func (b basicSym) SymmetricDim() int   { return b.m.SymmetricDim() }

type basicTri struct{ m *mat.TriDense }

func (b basicTri) Dims() (int, int)             { return b.m.Dims() }
func (b basicTri) At(i, j int) float64          { return b.m.At(i, j) }
func (b basicTri) T() mat.Matrix                { return mat.Transpose{Matrix: b} }
func (b basicTri) Triangle() (int, mat.TriKind) { return b.m.Triangle() }
func (b basicTri) TTri() mat.Triangular         { return mat.TransposeTri{Triangular: b} }

type basicBand struct{ m *mat.BandDense }

func (b basicBand) Dims() (int, int)      { return b.m.Dims() }
func (b basicBand) At(i, j int) float64   { return b.m.At(i, j) }
func (b basicBand) T() mat.Matrix         { return mat.Transpose{Matrix: b} }
func (b basicBand) Bandwidth() (int, int) { return b.m.Bandwidth() }
func (b basicBand) TBand() mat.Banded     { return mat.TransposeBand{Banded: b} }

type basicVec struct{ m *mat.VecDense }

func (b basicVec) Dims() (int, int)    { return b.m.Dims() }
func (b basicVec) At(i, j int) float64 { return b.m.At(i, j) }
func (b basicVec) T() mat.Matrix       { return mat.Transpose{Matrix: b} }
func (b basicVec) AtVec(i int) float64 { return b.m.AtVec(i) }
func (b basicVec) Len() int            { return b.m.Len() }

// user types that additionally expose their raw storage (lifted to the built-in
// types by mat's untransposeExtract)
type rawDense struct{ basic }

func (b rawDense) RawMatrix() blas64.General { return b.m.(*mat.Dense).RawMatrix() }
func (b rawDense) T() mat.Matrix             { return mat.Transpose{Matrix: b} }

type rawSym struct{ basicSym }

func (b rawSym) RawSymmetric() blas64.Symmetric { return b.m.RawSymmetric() }
func (b rawSym) T() mat.Matrix                  { return mat.Transpose{Matrix: b} }

type rawTri struct{ basicTri }

func (b rawTri) RawTriangular() blas64.Triangular { return b.m.RawTriangular() }
func (b rawTri) T() mat.Matrix                    { return mat.Transpose{Matrix: b} }
func (b rawTri) TTri() mat.Triangular             { return mat.TransposeTri{Triangular: b} }

type rawVec struct{ basicVec }

func (b rawVec) RawVector() blas64.Vector { return b.m.RawVector() }
func (b rawVec) T() mat.Matrix            { return mat.Transpose{Matrix: b} }

// ------------------------------------------------------------ builders

// build constructs the unwrapped value of a representation on the given backing slice.
func build(r rep, s []float64) (mat.Matrix, error) {
	need := func(n int) error {
		if len(s) != n {
			return fmt.Errorf("kind %s %dx%d p=%d q=%d: store has %d slots, constructor needs %d", r.Kind, r.R, r.C, r.P, r.Q, len(s), n)
		}
		return nil
	}
	n := r.R
	switch r.Kind {
	case "Dense", "Basic", "RawDense":
		if err := need(r.R * r.C); err != nil {
			return nil, err
		}
		d := mat.NewDense(r.R, r.C, s)
		switch r.Kind {
		case "Basic":
			return basic{d}, nil
		case "RawDense":
			return rawDense{basic{d}}, nil
		}
		return d, nil
	case "DenseView":
		if err := need((r.R + r.P + 1) * (r.C + r.Q + 1)); err != nil {
			return nil, err
		}
		return mat.NewDense(r.R+r.P+1, r.C+r.Q+1, s).Slice(r.P, r.P+r.R, r.Q, r.Q+r.C), nil
	case "Sym", "BasicSym", "RawSym":
		if err := need(n * n); err != nil {
			return nil, err
		}
		d := mat.NewSymDense(n, s)
		switch r.Kind {
		case "BasicSym":
			return basicSym{d}, nil
		case "RawSym":
			return rawSym{basicSym{d}}, nil
		}
		return d, nil
	case "SymView":
		if err := need((n + r.P + 1) * (n + r.P + 1)); err != nil {
			return nil, err
		}
		return mat.NewSymDense(n+r.P+1, s).SliceSym(r.P, r.P+n), nil
	case "TriU", "TriL", "BasicTriU", "BasicTriL", "RawTriU", "RawTriL", "Chol":
		if err := need(n * n); err != nil {
			return nil, err
		}
		kind := mat.Upper
		if strings.HasSuffix(r.Kind, "L") && r.Kind != "Chol" {
			kind = mat.Lower
		}
		d := mat.NewTriDense(n, kind, s)
		switch {
		case strings.HasPrefix(r.Kind, "Basic"):
			return basicTri{d}, nil
		case strings.HasPrefix(r.Kind, "Raw"):
			return rawTri{basicTri{d}}, nil
		case r.Kind == "Chol":
			var ch mat.Cholesky
			ch.SetFromU(d)
			return &ch, nil
		}
		return d, nil
	case "TriUView", "TriLView":
		if err := need((n + r.P + 1) * (n + r.P + 1)); err != nil {
			return nil, err
		}
		kind := mat.Upper
		if r.Kind == "TriLView" {
			kind = mat.Lower
		}
		return mat.NewTriDense(n+r.P+1, kind, s).SliceTri(r.P, r.P+n), nil
	case "Band", "BasicBand":
		var d *mat.BandDense
		if r.Kind == "Band" && r.P == 0 && r.Q == 0 {
			// documented as NewBandDense(r, c, 0, 0, data)
			d = mat.NewDiagonalRect(r.R, r.C, s)
		} else {
			d = mat.NewBandDense(r.R, r.C, r.P, r.Q, s)
		}
		if r.Kind == "BasicBand" {
			return basicBand{d}, nil
		}
		return d, nil
	case "SymBand":
		return mat.NewSymBandDense(n, r.P, s), nil
	case "TriBandU":
		return mat.NewTriBandDense(n, r.P, mat.Upper, s), nil
	case "TriBandL":
		return mat.NewTriBandDense(n, r.P, mat.Lower, s), nil
	// the kinds ending in S: a zero value given its storage through the SetRaw* method, band storage
	// with a row stride one larger than the band width
	case "BandS":
		rows := r.R
		if r.C+r.P < rows {
			rows = r.C + r.P
		}
		if err := need(rows * (r.P + r.Q + 2)); err != nil {
			return nil, err
		}
		var d mat.BandDense
		d.SetRawBand(blas64.Band{Rows: r.R, Cols: r.C, KL: r.P, KU: r.Q, Stride: r.P + r.Q + 2, Data: s})
		return &d, nil
	case "SymBandS":
		if err := need(n * (r.P + 2)); err != nil {
			return nil, err
		}
		var d mat.SymBandDense
		d.SetRawSymBand(blas64.SymmetricBand{N: n, K: r.P, Stride: r.P + 2, Uplo: blas.Upper, Data: s})
		return &d, nil
	case "TriBandUS", "TriBandLS":
		if err := need(n * (r.P + 2)); err != nil {
			return nil, err
		}
		ul := blas.Upper
		if r.Kind == "TriBandLS" {
			ul = blas.Lower
		}
		var d mat.TriBandDense
		d.SetRawTriBand(blas64.TriangularBand{N: n, K: r.P, Stride: r.P + 2, Uplo: ul, Diag: blas.NonUnit, Data: s})
		return &d, nil
	case "TridiagS":
		if err := need(3*n - 2); err != nil {
			return nil, err
		}
		var d mat.Tridiag
		d.SetRawTridiagonal(lapack64.Tridiagonal{N: n, DL: s[: n-1 : n-1], D: s[n-1 : 2*n-1 : 2*n-1], DU: s[2*n-1:]})
		return &d, nil
	case "Diag":
		return mat.NewDiagDense(n, s), nil
	case "DiagOfDense":
		if err := need(n * (n + r.Q)); err != nil {
			return nil, err
		}
		return mat.NewDense(n, n+r.Q, s).DiagView(), nil
	case "Tridiag":
		if err := need(3*n - 2); err != nil {
			return nil, err
		}
		return mat.NewTridiag(n, s[:n-1:n-1], s[n-1:2*n-1:2*n-1], s[2*n-1:]), nil
	case "Vec", "BasicVec", "RawVec":
		if err := need(n); err != nil {
			return nil, err
		}
		d := mat.NewVecDense(n, s)
		switch r.Kind {
		case "BasicVec":
			return basicVec{d}, nil
		case "RawVec":
			return rawVec{basicVec{d}}, nil
		}
		return d, nil
	case "VecInc":
		if err := need(n * r.Q); err != nil {
			return nil, err
		}
		return mat.NewDense(n, r.Q, s).ColView(r.P), nil
	case "RowOfDense":
		if err := need(n * r.Q); err != nil {
			return nil, err
		}
		return mat.NewDense(r.Q, n, s).RowView(r.P), nil
	}
	return nil, fmt.Errorf("unknown kind %q", r.Kind)
}

// wrap applies the emitted implicit-transpose wrapper through the method that returns it.
func wrap(m mat.Matrix, tw string) (mat.Matrix, error) {
	switch tw {
	case "N":
		return m, nil
	case "T":
		return m.T(), nil
	case "TTri":
		if t, ok := m.(interface{ TTri() mat.Triangular }); ok {
			return t.TTri(), nil
		}
	case "TBand":
		if t, ok := m.(interface{ TBand() mat.Banded }); ok {
			return t.TBand(), nil
		}
	case "TTriBand":
		if t, ok := m.(interface{ TTriBand() mat.TriBanded }); ok {
			return t.TTriBand(), nil
		}
	case "TVec":
		if t, ok := m.(interface{ TVec() mat.Vector }); ok {
			return t.TVec(), nil
		}
	}
	return nil, fmt.Errorf("wrapper %s not offered by %T", tw, m)
}

// ------------------------------------------------------------ the call

type result struct {
	err  error       // error returned by Inverse / Solve*
	m    mat.Matrix  // receiver / matrix result, read through Dims and At
	rows [][]float64 // scalar, boolean and slice results
	ret  []int       // returned counts (Copy)
}

func scalar(v float64) result { return result{rows: [][]float64{{v}}} }

func applyFn(i, j int, v float64) float64 { return float64(3*i-j) + 2*v }

type typeErr struct{ msg string }

func vecArg(a []mat.Matrix, k int) mat.Vector {
	v, ok := a[k].(mat.Vector)
	if !ok {
		panic(typeErr{fmt.Sprintf("operand %d (%T) is not a mat.Vector", k, a[k])})
	}
	return v
}
func symArg(a []mat.Matrix, k int) mat.Symmetric {
	v, ok := a[k].(mat.Symmetric)
	if !ok {
		panic(typeErr{fmt.Sprintf("operand %d (%T) is not a mat.Symmetric", k, a[k])})
	}
	return v
}
func triArg(a []mat.Matrix, k int) mat.Triangular {
	v, ok := a[k].(mat.Triangular)
	if !ok {
		panic(typeErr{fmt.Sprintf("operand %d (%T) is not a mat.Triangular", k, a[k])})
	}
	return v
}

// call performs the operation. recv is *mat.Dense, *mat.VecDense, *mat.SymDense or *mat.TriDense (nil for functions).
func call(c *rcase, recv mat.Matrix, a []mat.Matrix) result {
	al := float64(c.N1)
	switch c.Op {
	// ---- Dense receiver
	case "Add":
		recv.(*mat.Dense).Add(a[0], a[1])
	case "Sub":
		recv.(*mat.Dense).Sub(a[0], a[1])
	case "MulElem":
		recv.(*mat.Dense).MulElem(a[0], a[1])
	case "Mul":
		recv.(*mat.Dense).Mul(a[0], a[1])
	case "Scale":
		recv.(*mat.Dense).Scale(al, a[0])
	case "Apply":
		recv.(*mat.Dense).Apply(applyFn, a[0])
	case "Copy":
		r, cc := recv.(*mat.Dense).Copy(a[0])
		return result{m: recv, ret: []int{r, cc}}
	case "CloneFrom":
		recv.(*mat.Dense).CloneFrom(a[0])
	case "Stack":
		recv.(*mat.Dense).Stack(a[0], a[1])
	case "Augment":
		recv.(*mat.Dense).Augment(a[0], a[1])
	case "Kronecker":
		recv.(*mat.Dense).Kronecker(a[0], a[1])
	case "Pow":
		recv.(*mat.Dense).Pow(a[0], c.N1)
	case "ExpZero": // the operand is the zero matrix (MatOps.tla)
		recv.(*mat.Dense).Exp(a[0])
	case "RankOne":
		recv.(*mat.Dense).RankOne(a[0], al, vecArg(a, 1), vecArg(a, 2))
	case "Outer":
		recv.(*mat.Dense).Outer(al, vecArg(a, 0), vecArg(a, 1))
	case "Product", "Product1", "Product2", "Product4":
		recv.(*mat.Dense).Product(a...)
	case "DivElem":
		recv.(*mat.Dense).DivElem(a[0], a[1])
	case "Inverse":
		return result{m: recv, err: recv.(*mat.Dense).Inverse(a[0])}
	case "Solve":
		return result{m: recv, err: recv.(*mat.Dense).Solve(a[0], a[1])}
	case "SolveTo":
		st, ok := a[0].(interface {
			SolveTo(dst *mat.Dense, trans bool, b mat.Matrix) error
		})
		if !ok {
			panic(typeErr{fmt.Sprintf("%T has no SolveTo", a[0])})
		}
		return result{m: recv, err: st.SolveTo(recv.(*mat.Dense), c.N1 == 1, a[1])}
	// ---- VecDense receiver
	case "DivElemVec":
		recv.(*mat.VecDense).DivElemVec(vecArg(a, 0), vecArg(a, 1))
	case "SolveVec":
		return result{m: recv, err: recv.(*mat.VecDense).SolveVec(a[0], vecArg(a, 1))}
	case "SolveVecTo":
		st, ok := a[0].(interface {
			SolveVecTo(dst *mat.VecDense, trans bool, b mat.Vector) error
		})
		if !ok {
			panic(typeErr{fmt.Sprintf("%T has no SolveVecTo", a[0])})
		}
		return result{m: recv, err: st.SolveVecTo(recv.(*mat.VecDense), c.N1 == 1, vecArg(a, 1))}
	case "MulVecTo":
		mv, ok := a[0].(interface {
			MulVecTo(dst *mat.VecDense, trans bool, x mat.Vector)
		})
		if !ok {
			panic(typeErr{fmt.Sprintf("%T has no MulVecTo", a[0])})
		}
		mv.MulVecTo(recv.(*mat.VecDense), c.N1 == 1, vecArg(a, 1))
	case "MulVec":
		recv.(*mat.VecDense).MulVec(a[0], vecArg(a, 1))
	case "AddVec":
		recv.(*mat.VecDense).AddVec(vecArg(a, 0), vecArg(a, 1))
	case "SubVec":
		recv.(*mat.VecDense).SubVec(vecArg(a, 0), vecArg(a, 1))
	case "MulElemVec":
		recv.(*mat.VecDense).MulElemVec(vecArg(a, 0), vecArg(a, 1))
	case "AddScaledVec":
		recv.(*mat.VecDense).AddScaledVec(vecArg(a, 0), al, vecArg(a, 1))
	case "ScaleVec":
		recv.(*mat.VecDense).ScaleVec(al, vecArg(a, 0))
	case "CopyVec":
		n := recv.(*mat.VecDense).CopyVec(vecArg(a, 0))
		return result{m: recv, ret: []int{n}}
	case "CloneFromVec":
		recv.(*mat.VecDense).CloneFromVec(vecArg(a, 0))
	// ---- SymDense receiver
	case "AddSym":
		recv.(*mat.SymDense).AddSym(symArg(a, 0), symArg(a, 1))
	case "CopySym":
		n := recv.(*mat.SymDense).CopySym(symArg(a, 0))
		return result{m: recv, ret: []int{n}}
	case "ScaleSym":
		recv.(*mat.SymDense).ScaleSym(al, symArg(a, 0))
	case "SymRankOne":
		recv.(*mat.SymDense).SymRankOne(symArg(a, 0), al, vecArg(a, 1))
	case "RankTwo":
		recv.(*mat.SymDense).RankTwo(symArg(a, 0), al, vecArg(a, 1), vecArg(a, 2))
	case "SymRankK":
		recv.(*mat.SymDense).SymRankK(symArg(a, 0), al, a[1])
	case "SymOuterK":
		recv.(*mat.SymDense).SymOuterK(al, a[0])
	// ---- TriDense receiver
	case "ScaleTri":
		recv.(*mat.TriDense).ScaleTri(al, triArg(a, 0))
	case "MulTri":
		recv.(*mat.TriDense).MulTri(triArg(a, 0), triArg(a, 1))
	case "CopyTri":
		r, cc := recv.(*mat.TriDense).Copy(a[0])
		return result{m: recv, ret: []int{r, cc}}
	case "InverseTri":
		return result{m: recv, err: recv.(*mat.TriDense).InverseTri(triArg(a, 0))}
	// ---- DiagDense receiver
	case "DiagFrom":
		recv.(*mat.DiagDense).DiagFrom(a[0])
	case "Det":
		return scalar(mat.Det(a[0]))
	// ---- functions
	case "Sum":
		return scalar(mat.Sum(a[0]))
	case "Max":
		return scalar(mat.Max(a[0]))
	case "Min":
		return scalar(mat.Min(a[0]))
	case "Trace":
		return scalar(mat.Trace(a[0]))
	case "Norm1":
		return scalar(mat.Norm(a[0], 1))
	case "NormInf":
		return scalar(mat.Norm(a[0], math.Inf(1)))
	case "Equal":
		if mat.Equal(a[0], a[1]) {
			return scalar(1)
		}
		return scalar(0)
	case "EqualApprox": // n1 div 2: 0 -> eps = 1/128, 1 -> eps = 100 (as the specification says)
		eps := 1.0 / 128
		if c.N1/2 == 1 {
			eps = 100
		}
		if mat.EqualApprox(a[0], a[1], eps) {
			return scalar(1)
		}
		return scalar(0)
	case "Dot":
		return scalar(mat.Dot(vecArg(a, 0), vecArg(a, 1)))
	case "Inner":
		return scalar(mat.Inner(vecArg(a, 0), a[1], vecArg(a, 2)))
	case "Row":
		return result{rows: [][]float64{mat.Row(nil, c.N1, a[0])}}
	case "Col":
		return result{rows: [][]float64{mat.Col(nil, c.N1, a[0])}}
	default:
		panic(typeErr{"unknown operation " + c.Op})
	}
	return result{m: recv}
}

func family(op string) string {
	switch op {
	case "MulVec", "AddVec", "SubVec", "MulElemVec", "AddScaledVec", "ScaleVec", "CopyVec", "CloneFromVec",
		"DivElemVec", "MulVecTo", "SolveVec", "SolveVecTo":
		return "Vec"
	case "AddSym", "CopySym", "ScaleSym", "SymRankOne", "RankTwo", "SymRankK", "SymOuterK":
		return "Sym"
	case "ScaleTri", "MulTri", "CopyTri", "InverseTri":
		return "Tri"
	case "DiagFrom":
		return "Diag"
	case "Det", "Sum", "Max", "Min", "Trace", "Norm1", "NormInf", "Equal", "EqualApprox", "Dot", "Inner", "Row", "Col":
		return "Func"
	}
	return "Dense"
}

// receiver builds the receiver in the emitted state.
func receiver(c *rcase, store []float64) (mat.Matrix, error) {
	fam := family(c.Op)
	if fam == "Func" {
		return nil, nil
	}
	if c.Rs == "zero" {
		switch fam {
		case "Dense":
			return &mat.Dense{}, nil
		case "Vec":
			return &mat.VecDense{}, nil
		case "Sym":
			return &mat.SymDense{}, nil
		case "Diag":
			return &mat.DiagDense{}, nil
		default:
			return &mat.TriDense{}, nil
		}
	}
	m, err := build(c.Recv.Rep, store)
	if err != nil {
		return nil, err
	}
	if c.Rs == "reset" {
		// a receiver that held a larger matrix and was Reset: empty, its storage is reused
		r, isR := m.(interface{ Reset() })
		if !isR {
			return nil, fmt.Errorf("receiver representation %s (%T) has no Reset", c.Recv.Rep.Kind, m)
		}
		r.Reset()
	}
	ok := false
	switch fam {
	case "Dense":
		_, ok = m.(*mat.Dense)
	case "Vec":
		_, ok = m.(*mat.VecDense)
	case "Sym":
		_, ok = m.(*mat.SymDense)
	case "Tri":
		_, ok = m.(*mat.TriDense)
	case "Diag":
		_, ok = m.(*mat.DiagDense)
	}
	if !ok {
		return nil, fmt.Errorf("receiver representation %s built a %T, not a %sDense", c.Recv.Rep.Kind, m, fam)
	}
	return m, nil
}

func bitsDiff(a, b []float64) int {
	for i := range a {
		if math.Float64bits(a[i]) != math.Float64bits(b[i]) {
			return i
		}
	}
	return -1
}

func repName(r rep) string {
	if r.Tw == "N" {
		return r.Kind
	}
	return r.Kind + "." + r.Tw
}

func replay(in *core.Lines, args []string, seed int64, sum *core.Summary) error {
	combos := map[string]bool{}
	kinds := map[string]bool{}
	for {
		line, ok := in.Next()
		if !ok {
			break
		}
		var c rcase
		if err := json.Unmarshal(line, &c); err != nil {
			return fmt.Errorf("line %d: %v", in.N, err)
		}
		raw := json.RawMessage(append([]byte(nil), line...))
		names := make([]string, len(c.Args))
		for k := range c.Args {
			names[k] = repName(c.Args[k].Rep)
			kinds[names[k]] = true
		}
		where := strings.Join(names, ",") + ":" + c.Rs
		if family(c.Op) == "Tri" { // triangle of the receiver (adopted from the operand when empty)
			if c.Up {
				where += "-U"
			} else {
				where += "-L"
			}
		}
		sig := func(kind string) string { return fmt.Sprintf("matrep:%s:%s:%s", c.Op, kind, where) }
		combos[c.Op+":"+where] = true
		tall := c.Op == "CopyTri" && ((c.Args[0].Rep.Tw == "N" && c.Args[0].Rep.R > c.Args[0].Rep.C) || (c.Args[0].Rep.Tw != "N" && c.Args[0].Rep.C > c.Args[0].Rep.R))
		if tall { // signature detail only: the operand of TriDense.Copy has more rows than columns
			where += "-tall"
		}

		// operands, each on a private copy of the emitted backing array
		ops := make([]mat.Matrix, len(c.Args))
		backs := make([][]float64, len(c.Args))
		for k := range c.Args {
			backs[k] = append([]float64(nil), c.Args[k].Store...)
			var m mat.Matrix
			var err error
			o := core.Call(func() {
				m, err = build(c.Args[k].Rep, backs[k])
				if err == nil {
					m, err = wrap(m, c.Args[k].Rep.Tw)
				}
			})
			if o.Panicked {
				return fmt.Errorf("line %d: constructing operand %d (%s) panicked: %s", in.N, k, names[k], o.Text)
			}
			if err != nil {
				return fmt.Errorf("line %d: %v", in.N, err)
			}
			ops[k] = m
		}
		rback := append([]float64(nil), c.Recv.Store...)
		var recv mat.Matrix
		var rerr error
		if o := core.Call(func() { recv, rerr = receiver(&c, rback) }); o.Panicked {
			return fmt.Errorf("line %d: constructing the receiver panicked: %s", in.N, o.Text)
		}
		if rerr != nil {
			return fmt.Errorf("line %d: %v", in.N, rerr)
		}

		var res result
		out := core.Call(func() { res = call(&c, recv, ops) })
		sum.Cases++
		trivial := c.Rs == "zero" || family(c.Op) == "Func"
		for k := range c.Args {
			if c.Args[k].Rep.Kind != "Dense" || c.Args[k].Rep.Tw != "N" {
				trivial = false
			}
		}
		if !trivial {
			sum.Nontrivial++
		}
		if te, isType := out.Val.(typeErr); out.Panicked && isType {
			return fmt.Errorf("line %d: %s", in.N, te.msg)
		}

		// operands are never modified; the receiver's frame is never touched
		for k := range backs {
			if p := bitsDiff(backs[k], c.Args[k].Store); p >= 0 {
				sum.Fail(sig("operand-modified"), fmt.Sprintf("backing[%d] of operand %d (%s) changed %v -> %v", p, k, names[k], c.Args[k].Store[p], backs[k][p]), raw)
			}
		}
		for p := range rback {
			if c.Recv.Mask[p] == 0 && math.Float64bits(rback[p]) != math.Float64bits(c.Recv.Store[p]) {
				sum.Fail(sig("frame-written"), fmt.Sprintf("receiver backing[%d] outside its window changed %v -> %v", p, c.Recv.Store[p], rback[p]), raw)
				break
			}
		}

		switch {
		case out.Panicked && out.Runtime:
			sum.Fail(sig("runtime-panic"), fmt.Sprintf("runtime error: %s (spec: %s)", out.Text, expText(&c)), raw)
			continue
		case out.Panicked && !c.Exp.Panic && (c.Rs == "zero" || c.Rs == "reset") && family(c.Op) != "Func":
			sum.Fail(sig("empty-receiver-panic"), fmt.Sprintf("panicked %q with an empty receiver; spec demands %s", out.Text, expText(&c)), raw)
			continue
		case out.Panicked && !c.Exp.Panic:
			sum.Fail(sig("unexpected-panic"), fmt.Sprintf("panicked %q; spec demands %s", out.Text, expText(&c)), raw)
			continue
		case !out.Panicked && c.Exp.Panic:
			sum.Fail(sig("missing-panic"), "returned; the specification demands a shape panic", raw)
			continue
		case out.Panicked:
			continue
		}

		if res.err != nil {
			sum.Fail(sig("error-returned"), fmt.Sprintf("returned error %q; spec demands %s", res.err, expText(&c)), raw)
			continue
		}
		// compare the result, read through Dims and At only
		if len(c.Exp.Ret) > 0 {
			if fmt.Sprint(res.ret) != fmt.Sprint(c.Exp.Ret) {
				sum.Fail(sig("returned-count"), fmt.Sprintf("returned %v, spec demands %v", res.ret, c.Exp.Ret), raw)
			}
		}
		got := res.rows
		if res.m != nil {
			r, cc := res.m.Dims()
			got = make([][]float64, r)
			ro := core.Call(func() {
				for i := 0; i < r; i++ {
					got[i] = make([]float64, cc)
					for j := 0; j < cc; j++ {
						got[i][j] = res.m.At(i, j)
					}
				}
			})
			if ro.Panicked {
				sum.Fail(sig("result-unreadable"), "reading the result through At panicked: "+ro.Text, raw)
				continue
			}
		}
		if msg := diffRows(got, c.Exp.Rows); msg != "" {
			sum.Fail(sig("value"), msg, raw)
			continue
		}
		if sum.Cases%997 == 1 {
			sum.Sample(raw)
		}
	}
	sum.Extra["distinct_op_x_representation_tuples"] = len(combos)
	sum.Extra["distinct_operand_representations"] = len(kinds)
	return nil
}

func expText(c *rcase) string {
	if c.Exp.Panic {
		return "a shape panic"
	}
	return fmt.Sprintf("result %v", c.Exp.Rows)
}

func diffRows(got, want [][]float64) string {
	if len(got) != len(want) {
		return fmt.Sprintf("result has %d rows, spec demands %d (%v vs %v)", len(got), len(want), got, want)
	}
	for i := range want {
		if len(got[i]) != len(want[i]) {
			return fmt.Sprintf("result row %d has %d columns, spec demands %d", i, len(got[i]), len(want[i]))
		}
		for j := range want[i] {
			g, w := got[i][j], want[i][j]
			if g != w { // -0 == +0 accepted: the specification works over the integers
				return fmt.Sprintf("result[%d][%d] = %v, spec demands %v; got %v want %v", i, j, g, w, got, want)
			}
		}
	}
	return ""
}
