package matrep

// Binding of specs/matrep/MatFormat.tla to mat.Formatted (property C04: the
// printed text depends on the abstract matrix and the options only).  A case is
// a representation with its backing array, the fmt verb string, the options and
// the text demanded by the specification; the harness builds the operand,
// formats it and compares the two strings.

import (
	"encoding/json"
	"fmt"
	"regexp"
	"strconv"
	"strings"

	"gonum.org/v1/gonum/mat"

	"gonum.org/v1/gonum/verifharness/internal/core"
)

func init() { core.RegisterReplay("matfmt", replayFmt) }

type fcase struct {
	Rep   rep       `json:"rep"`
	Store []float64 `json:"store"`
	Fmt   string    `json:"fmt"`
	Opt   struct {
		Syntax  string `json:"syntax"`
		Prefix  string `json:"prefix"`
		Margin  int    `json:"margin"`
		Dot     string `json:"dot"`
		Squeeze bool   `json:"squeeze"`
	} `json:"opt"`
	Tag  string `json:"tag"`
	Text string `json:"text"`
}

var runeMarker = regexp.MustCompile(`<U\+([0-9A-F]{4})>`)

// glyphs replaces the <U+XXXX> markers of the specification by the runes they name.
func glyphs(s string) string {
	return runeMarker.ReplaceAllStringFunc(s, func(m string) string {
		n, _ := strconv.ParseInt(m[3:7], 16, 32)
		return string(rune(n))
	})
}

func replayFmt(in *core.Lines, args []string, seed int64, sum *core.Summary) error {
	kinds := map[string]bool{}
	syntaxes := map[string]int{}
	for {
		line, ok := in.Next()
		if !ok {
			break
		}
		var c fcase
		if err := json.Unmarshal(line, &c); err != nil {
			return fmt.Errorf("line %d: %v", in.N, err)
		}
		raw := json.RawMessage(append([]byte(nil), line...))
		name := repName(c.Rep)
		kinds[name] = true
		back := append([]float64(nil), c.Store...)
		var m mat.Matrix
		var err error
		o := core.Call(func() {
			m, err = build(c.Rep, back)
			if err == nil {
				m, err = wrap(m, c.Rep.Tw)
			}
		})
		if o.Panicked {
			return fmt.Errorf("line %d: constructing %s panicked: %s", in.N, name, o.Text)
		}
		if err != nil {
			return fmt.Errorf("line %d: %v", in.N, err)
		}
		opts := []mat.FormatOption{mat.Prefix(c.Opt.Prefix), mat.Excerpt(c.Opt.Margin)}
		if c.Opt.Dot != "." {
			if len(c.Opt.Dot) != 1 {
				return fmt.Errorf("line %d: dot %q is not one byte", in.N, c.Opt.Dot)
			}
			opts = append(opts, mat.DotByte(c.Opt.Dot[0]))
		}
		if c.Opt.Squeeze {
			opts = append(opts, mat.Squeeze())
		}
		syn := "default"
		switch c.Opt.Syntax {
		case "matlab":
			opts = append(opts, mat.FormatMATLAB())
			syn = "matlab"
		case "python":
			opts = append(opts, mat.FormatPython())
			syn = "python"
		}
		if strings.Contains(c.Fmt, "#") {
			syn += "#"
		}
		if c.Opt.Margin > 0 {
			syn += "+excerpt"
		}
		syntaxes[syn]++
		want := glyphs(c.Text)
		var got string
		out := core.Call(func() { got = fmt.Sprintf(c.Fmt, mat.Formatted(m, opts...)) })
		sum.Cases++
		if c.Rep.Kind != "Dense" || c.Rep.Tw != "N" || c.Opt.Margin > 0 || c.Opt.Syntax != "" {
			sum.Nontrivial++
		}
		// the signature names the syntax and the input class (spec-emitted tag), not the representation:
		// the text does not depend on it
		sig := func(kind string) string { return fmt.Sprintf("matfmt:%s:%s:%s", syn, c.Tag, kind) }
		switch {
		case out.Panicked:
			sum.Fail(sig("panic"), fmt.Sprintf("%s: formatting with %q panicked: %s; spec demands %q", name, c.Fmt, out.Text, want), raw)
		case strings.Contains(got, "%!") && strings.Contains(got, "PANIC="):
			sum.Fail(sig("panic"), fmt.Sprintf("%s with %q: the Format method panicked: printed %q; spec demands %q", name, c.Fmt, got, want), raw)
		case got != want:
			sum.Fail(sig("text"), fmt.Sprintf("%s with %q: printed %q; spec demands %q", name, c.Fmt, got, want), raw)
		}
		for p := range back {
			if back[p] != c.Store[p] {
				sum.Fail(sig("operand-modified"), fmt.Sprintf("backing[%d] changed %v -> %v", p, c.Store[p], back[p]), raw)
				break
			}
		}
		if sum.Cases%1499 == 1 {
			sum.Sample(raw)
		}
	}
	sum.Extra["distinct_operand_representations"] = len(kinds)
	sum.Extra["cases_by_syntax"] = syntaxes
	return nil
}
