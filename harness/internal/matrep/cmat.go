package matrep

// Binding of specs/matrep/CMat.tla to CDense and the CMatrix wrappers of
// gonum/mat (property C04, complex counterparts).  Same script interpreter as
// matobj.go, over complex values: a complex number travels as [re, im].

import (
	"encoding/json"
	"fmt"
	"sort"
	"strings"

	"gonum.org/v1/gonum/blas/cblas128"
	"gonum.org/v1/gonum/mat"

	"gonum.org/v1/gonum/verifharness/internal/core"
)

func init() { core.RegisterReplay("cmat", replayC) }

type cobj struct {
	Rep   rep         `json:"rep"`
	Store [][]float64 `json:"store"`
}

type cstep struct {
	M     string        `json:"m"`
	On    int           `json:"on"`
	A     []int         `json:"a"`
	Args  []int         `json:"args"`
	Errs  []string      `json:"errs"`
	Ret   []float64     `json:"ret"`
	Cval  []float64     `json:"cval"`
	Obs   int           `json:"obs"`
	Rows  [][][]float64 `json:"rows"`
	Alt   [][][]float64 `json:"alt"`
	Sobj  int           `json:"sobj"`
	Store [][]float64   `json:"store"`
	Mask  []int         `json:"mask"`
}

type ccase struct {
	Op    string  `json:"op"`
	Objs  []cobj  `json:"objs"`
	Steps []cstep `json:"steps"`
}

// a user type exposing only the CMatrix interface
type cbasic struct{ m *mat.CDense }

func (b cbasic) Dims() (int, int)       { return b.m.Dims() }
func (b cbasic) At(i, j int) complex128 { return b.m.At(i, j) }
func (b cbasic) H() mat.CMatrix         { return mat.ConjTranspose{CMatrix: b} }
func (b cbasic) T() mat.CMatrix         { return mat.CTranspose{CMatrix: b} }

func toC(p []float64) complex128 { return complex(p[0], p[1]) }

func buildC(r rep, data []complex128, objs []any) (any, error) {
	want := func(n int) error {
		if len(data) != n {
			return fmt.Errorf("kind %s %dx%d p=%d q=%d: store has %d slots, constructor needs %d", r.Kind, r.R, r.C, r.P, r.Q, len(data), n)
		}
		return nil
	}
	var m mat.CMatrix
	switch r.Kind {
	case "CZero":
		return &mat.CDense{}, nil
	case "Ref":
		if r.P >= len(objs) {
			return nil, fmt.Errorf("reference to object %d which does not exist yet", r.P)
		}
		m = objs[r.P].(mat.CMatrix)
	case "CDense", "CBasic":
		if err := want(r.R * r.C); err != nil {
			return nil, err
		}
		d := mat.NewCDense(r.R, r.C, data)
		m = d
		if r.Kind == "CBasic" {
			m = cbasic{d}
		}
	case "CView":
		if err := want((r.R + r.P + 1) * (r.C + r.Q + 1)); err != nil {
			return nil, err
		}
		m = mat.NewCDense(r.R+r.P+1, r.C+r.Q+1, data).Slice(r.P, r.P+r.R, r.Q, r.Q+r.C)
	case "CRaw":
		if err := want(r.R * (r.C + 1)); err != nil {
			return nil, err
		}
		var d mat.CDense
		d.SetRawCMatrix(cblas128.General{Rows: r.R, Cols: r.C, Stride: r.C + 1, Data: data})
		m = &d
	default:
		return nil, fmt.Errorf("unknown complex kind %q", r.Kind)
	}
	switch r.Tw {
	case "N":
	case "H":
		m = m.H()
	case "T":
		m = m.T()
	case "HT":
		m = m.H().T()
	case "TH":
		m = m.T().H()
	default:
		return nil, fmt.Errorf("unknown complex wrapper %q", r.Tw)
	}
	return m, nil
}

type cOut struct {
	ret    []float64
	cval   *complex128
	newObj any
}

func applyC(st *cstep, objs []any) (o cOut) {
	obj := objs[st.On]
	a := st.A
	arg := func(k int) mat.CMatrix { return need[mat.CMatrix](objs[st.Args[k]], st.M+" argument") }
	switch st.M {
	case "At":
		v := need[mat.CMatrix](obj, st.M).At(a[0], a[1])
		o.cval = &v
	case "Set":
		need[*mat.CDense](obj, st.M).Set(a[0], a[1], complex(float64(a[2]), float64(a[3])))
	case "Dims":
		r, c := need[mat.CMatrix](obj, st.M).Dims()
		o.ret = []float64{float64(r), float64(c)}
	case "Caps":
		r, c := need[*mat.CDense](obj, st.M).Caps()
		o.ret = []float64{float64(r), float64(c)}
	case "IsEmpty":
		o.ret = []float64{b2f(need[*mat.CDense](obj, st.M).IsEmpty())}
	case "RawCMatrix":
		g := need[mat.RawCMatrixer](obj, st.M).RawCMatrix()
		o.ret = []float64{float64(g.Rows), float64(g.Cols), float64(g.Stride)}
	case "H":
		o.newObj = need[mat.CMatrix](obj, st.M).H()
	case "T":
		o.newObj = need[mat.CMatrix](obj, st.M).T()
	case "UnConjTranspose":
		o.newObj = need[mat.UnConjTransposer](obj, st.M).UnConjTranspose()
	case "Untranspose":
		o.newObj = need[mat.CUntransposer](obj, st.M).Untranspose()
	case "Conj":
		need[*mat.CDense](obj, st.M).Conj(arg(0))
	case "Copy":
		r, c := need[*mat.CDense](obj, st.M).Copy(arg(0))
		o.ret = []float64{float64(r), float64(c)}
	case "Zero":
		need[*mat.CDense](obj, st.M).Zero()
	case "Reset":
		need[*mat.CDense](obj, st.M).Reset()
	case "ReuseAs":
		need[*mat.CDense](obj, st.M).ReuseAs(a[0], a[1])
	case "Grow":
		o.newObj = need[*mat.CDense](obj, st.M).Grow(a[0], a[1])
	case "Slice":
		o.newObj = need[*mat.CDense](obj, st.M).Slice(a[0], a[1], a[2], a[3])
	case "NewCDense": // a = r, c, len (len < 0: nil data; data k = k - k i)
		var data []complex128
		if a[2] >= 0 {
			data = make([]complex128, a[2])
			for i := range data {
				data[i] = complex(float64(i+1), -float64(i+1))
			}
		}
		o.newObj = mat.NewCDense(a[0], a[1], data)
	case "CEqual":
		o.ret = []float64{b2f(mat.CEqual(need[mat.CMatrix](obj, st.M), arg(0)))}
	case "CEqualApprox":
		o.ret = []float64{b2f(mat.CEqualApprox(need[mat.CMatrix](obj, st.M), arg(0), float64(a[0])/float64(a[1])))}
	default:
		panic(noMethod{"unknown method " + st.M})
	}
	return o
}

func readRowsC(obj any) (rows [][]complex128, panicked string) {
	m, ok := obj.(mat.CMatrix)
	if !ok {
		return nil, fmt.Sprintf("%T is not a mat.CMatrix", obj)
	}
	o := core.Call(func() {
		r, c := m.Dims()
		rows = make([][]complex128, r)
		for i := range rows {
			rows[i] = make([]complex128, c)
			for j := range rows[i] {
				rows[i][j] = m.At(i, j)
			}
		}
	})
	if o.Panicked {
		return nil, o.Text
	}
	return rows, ""
}

func diffRowsC(got [][]complex128, want, alt [][][]float64) string {
	if len(got) != len(want) {
		return fmt.Sprintf("object has %d rows, spec demands %d (%v vs %v)", len(got), len(want), got, want)
	}
	for i := range want {
		if len(got[i]) != len(want[i]) {
			return fmt.Sprintf("row %d has %d columns, spec demands %d", i, len(got[i]), len(want[i]))
		}
		for j := range want[i] {
			if got[i][j] == toC(want[i][j]) {
				continue
			}
			if len(alt) > 0 && got[i][j] == toC(alt[i][j]) {
				continue
			}
			return fmt.Sprintf("element (%d,%d) = %v, spec demands %v; got %v want %v", i, j, got[i][j], toC(want[i][j]), got, want)
		}
	}
	return ""
}

func replayC(in *core.Lines, args []string, seed int64, sum *core.Summary) error {
	methods := map[string]bool{}
	kinds := map[string]bool{}
	nsteps := 0
	for {
		line, ok := in.Next()
		if !ok {
			break
		}
		var c ccase
		if err := json.Unmarshal(line, &c); err != nil {
			return fmt.Errorf("line %d: %v", in.N, err)
		}
		raw := json.RawMessage(append([]byte(nil), line...))
		names := make([]string, len(c.Objs))
		backs := make([][]complex128, len(c.Objs))
		var objs []any
		for k := range c.Objs {
			names[k] = repName(c.Objs[k].Rep)
			kinds[names[k]] = true
			backs[k] = make([]complex128, len(c.Objs[k].Store))
			for p, z := range c.Objs[k].Store {
				backs[k][p] = toC(z)
			}
			var m any
			var err error
			o := core.Call(func() { m, err = buildC(c.Objs[k].Rep, backs[k], objs) })
			if o.Panicked {
				return fmt.Errorf("line %d: constructing %s panicked: %s", in.N, names[k], o.Text)
			}
			if err != nil {
				return fmt.Errorf("line %d: %v", in.N, err)
			}
			objs = append(objs, m)
		}
		name := strings.Join(names, ",")
		sum.Cases++
		sum.Nontrivial++

		for k := range c.Steps {
			st := &c.Steps[k]
			nsteps++
			methods[st.M] = true
			sig := func(kind string) string { return fmt.Sprintf("cmat:%s:%s:%s:%s", c.Op, st.M, name, kind) }
			where := fmt.Sprintf("step %d %s%v%v on object %d", k, st.M, st.A, st.Args, st.On)
			if st.On >= len(objs) {
				return fmt.Errorf("line %d: %s: no such object", in.N, where)
			}
			var res cOut
			out := core.Call(func() { res = applyC(st, objs) })
			if nm, isNo := out.Val.(noMethod); out.Panicked && isNo {
				return fmt.Errorf("line %d: %s: %s", in.N, where, nm.msg)
			}
			failed := false
			fail := func(kind, msg string) {
				failed = true
				sum.Fail(sig(kind), where+": "+msg, raw)
			}
			switch {
			case out.Panicked && out.Runtime:
				fail("runtime-panic", "runtime error: "+out.Text)
			case out.Panicked && len(st.Errs) == 0:
				fail("unexpected-panic", fmt.Sprintf("panicked with %s; the specification demands a normal return", errNames(out.Val)))
			case !out.Panicked && len(st.Errs) > 0:
				fail("missing-panic", fmt.Sprintf("returned; the specification demands a panic with one of %v", st.Errs))
			case out.Panicked:
				okErr := false
				for _, n := range st.Errs {
					if n == "any" {
						okErr = true
					} else if e, isErr := out.Val.(mat.Error); isErr && e == matErrors[n] {
						okErr = true
					}
				}
				if !okErr {
					fail("wrong-error", fmt.Sprintf("panicked with %s; the specification demands one of %v", errNames(out.Val), st.Errs))
				}
			}
			if failed {
				break
			}
			if !out.Panicked {
				if res.newObj != nil {
					objs = append(objs, res.newObj)
				}
				if len(st.Ret) > 0 && fmt.Sprint(res.ret) != fmt.Sprint(st.Ret) {
					fail("returned", fmt.Sprintf("returned %v, spec demands %v", res.ret, st.Ret))
				}
				if len(st.Cval) == 2 && !failed && (res.cval == nil || *res.cval != toC(st.Cval)) {
					got := "no complex value"
					if res.cval != nil {
						got = fmt.Sprint(*res.cval)
					}
					fail("returned", fmt.Sprintf("returned %s, spec demands %v", got, toC(st.Cval)))
				}
			}
			if failed {
				break
			}
			if len(st.Rows) > 0 {
				if st.Obs >= len(objs) {
					return fmt.Errorf("line %d: %s: observed object %d does not exist", in.N, where, st.Obs)
				}
				got, p := readRowsC(objs[st.Obs])
				if p != "" {
					fail("unreadable", "reading object "+fmt.Sprint(st.Obs)+" through Dims/At failed: "+p)
				} else if msg := diffRowsC(got, st.Rows, st.Alt); msg != "" {
					fail("value", fmt.Sprintf("object %d after the step: %s", st.Obs, msg))
				}
			}
			if failed {
				break
			}
			if len(st.Store) > 0 {
				back := backs[st.Sobj]
				if len(st.Store) != len(back) || len(st.Mask) != len(back) {
					return fmt.Errorf("line %d: %s: demanded backing array has %d slots, object %d has %d", in.N, where, len(st.Store), st.Sobj, len(back))
				}
				for p := range back {
					if st.Mask[p] == 1 && back[p] != toC(st.Store[p]) {
						fail("store", fmt.Sprintf("backing[%d] of object %d = %v, spec demands %v", p, st.Sobj, back[p], toC(st.Store[p])))
						break
					}
				}
			}
			if failed {
				break
			}
		}
		if sum.Cases%1499 == 1 {
			sum.Sample(raw)
		}
	}
	ms := make([]string, 0, len(methods))
	for m := range methods {
		ms = append(ms, m)
	}
	sort.Strings(ms)
	sum.Extra["steps"] = nsteps
	sum.Extra["methods"] = strings.Join(ms, " ")
	sum.Extra["distinct_operand_representations"] = len(kinds)
	return nil
}
