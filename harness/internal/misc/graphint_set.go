//go:build x02shim

package misc

// Replay of specs/misc/SetAlgebra.tla into gonum's graph/internal/set (reached through the
// overlay package graph/verifx02, see graphint/graphint.go.txt). The case is a little program
// for a register machine of set references; after every call the contents of ALL registers,
// Count, Has for every element of the universe and the Equal matrix are compared with the
// snapshot TLC printed. No set arithmetic happens here.

import (
	"encoding/json"
	"fmt"

	"gonum.org/v1/gonum/graph"
	gi "gonum.org/v1/gonum/graph/verifx02"
	"gonum.org/v1/gonum/verifharness/internal/core"
)

func init() {
	core.RegisterReplay("misc-set", replaySet)
}

type setEntry struct {
	ID   int64
	Tags []int
}

func (e *setEntry) UnmarshalJSON(b []byte) error {
	var raw []json.RawMessage
	if err := json.Unmarshal(b, &raw); err != nil || len(raw) != 2 {
		return fmt.Errorf("bad set entry %s", b)
	}
	if err := json.Unmarshal(raw[0], &e.ID); err != nil {
		return err
	}
	return json.Unmarshal(raw[1], &e.Tags)
}

type setReg struct {
	Nil  bool       `json:"nil"`
	Cell int        `json:"cell"`
	Ids  []setEntry `json:"ids"`
}
type setSnap struct {
	Regs []setReg `json:"regs"`
	Eq   [][]bool `json:"eq"`
}
type setCall struct {
	Op  string `json:"op"`
	D   int    `json:"d"`
	A   int    `json:"a"`
	B   int    `json:"b"`
	ID  int64  `json:"id"`
	Tag int    `json:"tag"`
}
type setStep struct {
	C    setCall `json:"c"`
	Post setSnap `json:"post"`
}
type setCase struct {
	Fam  string    `json:"fam"`
	Init setSnap   `json:"init"`
	H    []setStep `json:"h"`
}

const setUniverse = 4

var setIDs = [][setUniverse + 1]int64{
	{0, 1, 2, 3, 4},
	{0, -1, 0, 1 << 62, -(1 << 62)},
	{0, 9223372036854775807, -9223372036854775808, 0, -1},
	{0, 40, 30, 20, 10},
}

// tagNode is a node value: two nodes with the same id and different tags are different values.
type tagNode struct {
	id  int64
	tag int
}

func (n tagNode) ID() int64 { return n.id }

// setMachine is one real instantiation of the register machine.
type setMachine interface {
	name() string
	build(init setSnap, real func(int64) int64)
	call(c setCall, real func(int64) int64) bool // false: the type has no such operation
	count(r int) int
	has(r int, id int64) bool
	tag(r int, id int64) (int, bool) // stored node value's tag (Nodes only)
	equal(r, t int) bool
}

// ---- Nodes ----
type nodesMachine struct{ regs []gi.Nodes }

func (m *nodesMachine) name() string { return "Nodes" }
func (m *nodesMachine) build(init setSnap, real func(int64) int64) {
	cells := map[int]gi.Nodes{}
	m.regs = make([]gi.Nodes, len(init.Regs))
	for r, x := range init.Regs {
		if x.Cell == 0 {
			continue // nil map
		}
		if _, ok := cells[x.Cell]; !ok {
			s := gi.NewNodes()
			if x.Cell%2 == 0 {
				s = gi.NewNodesSize(len(x.Ids))
			}
			for _, e := range x.Ids {
				s.Add(tagNode{real(e.ID), e.Tags[0]})
			}
			cells[x.Cell] = s
		}
		m.regs[r] = cells[x.Cell]
	}
}
func (m *nodesMachine) call(c setCall, real func(int64) int64) bool {
	d, a, b := c.D-1, c.A-1, c.B-1
	switch c.Op {
	case "add":
		m.regs[d].Add(tagNode{real(c.ID), c.Tag})
	case "remove":
		m.regs[d].Remove(tagNode{real(c.ID), -1})
	case "make":
		m.regs[d] = gi.NewNodes()
	case "alias":
		m.regs[d] = m.regs[a]
	case "clone":
		m.regs[d] = gi.CloneNodes(m.regs[a])
	case "union":
		m.regs[d] = gi.UnionOfNodes(m.regs[a], m.regs[b])
	case "inter":
		m.regs[d] = gi.IntersectionOfNodes(m.regs[a], m.regs[b])
	default:
		return false
	}
	return true
}
func (m *nodesMachine) count(r int) int          { return m.regs[r].Count() }
func (m *nodesMachine) has(r int, id int64) bool { return m.regs[r].Has(tagNode{id, -2}) }
func (m *nodesMachine) tag(r int, id int64) (int, bool) {
	n, ok := m.regs[r][id]
	if !ok {
		return 0, false
	}
	var g graph.Node = n
	t, ok := g.(tagNode)
	if !ok || t.id != id {
		return -999, true // a value that was never stored under this id
	}
	return t.tag, true
}
func (m *nodesMachine) equal(r, t int) bool { return gi.Equal(m.regs[r], m.regs[t]) }

// ---- Ints[T] ----
type intsLike[T comparable] interface {
	~map[T]struct{}
	Add(T)
	Has(T) bool
	Remove(T)
	Count() int
}
type intsMachine[T interface{ ~int | ~int64 }, M intsLike[T]] struct {
	nm   string
	regs []M
	eq   func(a, b M) bool
}

func (m *intsMachine[T, M]) name() string { return m.nm }
func (m *intsMachine[T, M]) build(init setSnap, real func(int64) int64) {
	cells := map[int]M{}
	m.regs = make([]M, len(init.Regs))
	for r, x := range init.Regs {
		if x.Cell == 0 {
			continue
		}
		if _, ok := cells[x.Cell]; !ok {
			s := make(M)
			for _, e := range x.Ids {
				s.Add(T(real(e.ID)))
			}
			cells[x.Cell] = s
		}
		m.regs[r] = cells[x.Cell]
	}
}
func (m *intsMachine[T, M]) call(c setCall, real func(int64) int64) bool {
	d, a := c.D-1, c.A-1
	switch c.Op {
	case "add":
		m.regs[d].Add(T(real(c.ID)))
	case "remove":
		m.regs[d].Remove(T(real(c.ID)))
	case "make":
		m.regs[d] = make(M)
	case "alias":
		m.regs[d] = m.regs[a]
	default:
		return false
	}
	return true
}
func (m *intsMachine[T, M]) count(r int) int                 { return m.regs[r].Count() }
func (m *intsMachine[T, M]) has(r int, id int64) bool        { return m.regs[r].Has(T(id)) }
func (m *intsMachine[T, M]) tag(r int, id int64) (int, bool) { return 0, false }
func (m *intsMachine[T, M]) equal(r, t int) bool             { return m.eq(m.regs[r], m.regs[t]) }

func setMachines() []setMachine {
	return []setMachine{
		&nodesMachine{},
		&intsMachine[int64, gi.Ints64]{nm: "Ints[int64]", eq: gi.IntsEqual[int64]},
		&intsMachine[int, gi.IntsInt]{nm: "Ints[int]", eq: gi.IntsEqual[int]},
		&intsMachine[gi.ID, gi.IntsID]{nm: "Ints[ID]", eq: gi.IntsEqual[gi.ID]},
	}
}

func supports(m setMachine, c *setCase) bool {
	if _, ok := m.(*nodesMachine); ok {
		return true
	}
	for _, s := range c.H {
		switch s.C.Op {
		case "clone", "union", "inter":
			return false
		}
	}
	return true
}

func checkSnap(m setMachine, want setSnap, real func(int64) int64, where string) (string, string) {
	for r, x := range want.Regs {
		if got := m.count(r); got != len(x.Ids) {
			return "Count", fmt.Sprintf("%s: register %d: Count() = %d, specification %d elements", where, r+1, got, len(x.Ids))
		}
		in := map[int64][]int{}
		for _, e := range x.Ids {
			in[e.ID] = e.Tags
		}
		for e := int64(1); e <= setUniverse; e++ {
			tags, exp := in[e]
			if got := m.has(r, real(e)); got != exp {
				return "Has", fmt.Sprintf("%s: register %d: Has(%d) = %v, specification %v", where, r+1, e, got, exp)
			}
			if t, ok := m.tag(r, real(e)); ok && exp {
				found := false
				for _, a := range tags {
					found = found || a == t
				}
				if !found {
					return "value", fmt.Sprintf("%s: register %d: the node stored under element %d carries tag %d, the specification allows %v", where, r+1, e, t, tags)
				}
			}
		}
	}
	for r := range want.Eq {
		for t := range want.Eq[r] {
			if got := m.equal(r, t); got != want.Eq[r][t] {
				return "Equal", fmt.Sprintf("%s: Equal(register %d, register %d) = %v, specification %v", where, r+1, t+1, got, want.Eq[r][t])
			}
		}
	}
	return "", ""
}

func replaySet(in *core.Lines, args []string, seed int64, sum *core.Summary) error {
	for {
		b, ok := in.Next()
		if !ok {
			break
		}
		var c setCase
		if err := json.Unmarshal(b, &c); err != nil {
			return fmt.Errorf("line %d: %v", in.N, err)
		}
		caseObj := json.RawMessage(append([]byte(nil), b...))
		sum.Cases++
		if len(c.H) > 0 {
			sum.Nontrivial++
		}
		if sum.Cases%400 == 7 {
			sum.Sample(caseObj)
		}
		for mi, m := range setMachines() {
			if !supports(m, &c) {
				continue
			}
			ids := setIDs[(int(seed)+sum.Cases+mi)%len(setIDs)]
			real := func(e int64) int64 { return ids[e] }
			sum.Count("runs "+m.name(), 1)
			var sig, msg string
			o := core.Call(func() {
				m.build(c.Init, real)
				if k, t := checkSnap(m, c.Init, real, "initial state"); k != "" {
					sig, msg = "build:"+k, t
					return
				}
				for i, s := range c.H {
					if !m.call(s.C, real) {
						sig, msg = "harness", "operation "+s.C.Op+" not available"
						return
					}
					if k, t := checkSnap(m, s.Post, real, fmt.Sprintf("after call %d (%s d=%d a=%d b=%d id=%d)", i+1, s.C.Op, s.C.D, s.C.A, s.C.B, s.C.ID)); k != "" {
						sig, msg = s.C.Op+":"+k, t
						return
					}
				}
			})
			if o.Panicked {
				sig, msg = "panic", o.Text
			}
			if sig != "" {
				sum.Fail("misc-set:"+m.name()+":"+sig, msg, caseObj)
			}
		}
	}
	return nil
}
