package misc

// X03: rdf.Lean against specs/misc/RdfLean.tla (spec->code): the statements returned must be
// one of the cores of the data set that the specification found by brute force over all maps
// of the blank nodes.

import (
	"encoding/json"
	"fmt"
	"math/rand"

	"gonum.org/v1/gonum/graph/formats/rdf"
	"gonum.org/v1/gonum/verifharness/internal/core"
)

func init() {
	core.RegisterReplay("misc-rdflean", replayRdfLean)
}

type leanCase struct {
	Kind  string     `json:"kind"`
	Stmts []triple   `json:"stmts"`
	Cores [][]triple `json:"cores"`
	Lean  bool       `json:"lean"`
	Tag   string     `json:"tag"`
}

func replayRdfLean(in *core.Lines, args []string, seed int64, sum *core.Summary) error {
	rnd := rand.New(rand.NewSource(seed))
	for {
		b, ok := in.Next()
		if !ok {
			break
		}
		var c leanCase
		if err := json.Unmarshal(b, &c); err != nil {
			return fmt.Errorf("line %d: %v", in.N, err)
		}
		caseObj := json.RawMessage(append([]byte(nil), b...))
		sum.Cases++
		if sum.Cases%1500 == 3 {
			sum.Sample(caseObj)
		}
		fail := func(sig, msg string) {
			if c.Tag != "" {
				sig += ":" + c.Tag
			}
			sum.Fail("misc-rdflean:"+sig, msg, caseObj)
		}
		if !c.Lean {
			sum.Nontrivial++
		}
		// the data set in the order of the case and in a seeded order (the answer may depend on neither)
		orders := [][]triple{c.Stmts, append([]triple(nil), c.Stmts...)}
		rnd.Shuffle(len(orders[1]), func(i, j int) { orders[1][i], orders[1][j] = orders[1][j], orders[1][i] })
		for oi, order := range orders {
			for _, labelled := range []bool{false, true} {
				if labelled && (oi == 1 || len(order) == 0) {
					continue
				}
				g := make([]*rdf.Statement, len(order))
				for i, t := range order {
					g[i] = mkStatement(t, "zero")
					if labelled {
						g[i].Label = rdf.Term{Value: "<g>"}
					}
				}
				if labelled { // Statement.String with a graph label: the N-Quad form with four terms
					if want := order[0][0] + " " + order[0][1] + " " + order[0][2] + " <g> ."; g[0].String() != want {
						fail("Statement.String", fmt.Sprintf("String() = %q, want %q", g[0].String(), want))
					}
				}
				var res []*rdf.Statement
				var err error
				o := core.CallTimeout(2e9, func() { res, err = rdf.Lean(g) })
				if o.Hung {
					fail("Lean:hang", fmt.Sprintf("Lean(%v) did not return within 2 s (data sets of this size take microseconds)", order))
					sum.Count("lean_hangs", 1)
					continue
				}
				if o.Panicked {
					fail("Lean:panic", fmt.Sprintf("Lean(%v): %s", order, o.Text))
					sum.Count("lean_panics", 1)
					continue
				}
				// "If g contains any non-zero labels, Lean will return a non-nil error and a core of g assuming no graph labels exist"
				if (err != nil) != labelled {
					fail("Lean:error", fmt.Sprintf("Lean(%v) (labelled: %v) returned the error %v", order, labelled, err))
				}
				got := make([]triple, len(res))
				for i, s := range res {
					got[i] = tripleOf(s)
				}
				gs := tripleStrings(got)
				okCore := false
				for _, k := range c.Cores {
					okCore = okCore || (sameStringSet(gs, tripleStrings(k)) && len(uniqStrings(gs)) == len(gs))
				}
				if !okCore {
					kind := "Lean:not-a-core"
					if c.Lean {
						kind = "Lean:lean-graph-changed"
					}
					sum.Count("lean_wrong", 1)
					fail(kind, fmt.Sprintf("Lean(%q) = %q, the cores of the data set are %q", tripleStrings(order), sortedStrings(gs), c.Cores))
				}
				for i, t := range order { // the argument is not edited
					if tripleOf(g[i]) != t {
						fail("Lean:argument-changed", fmt.Sprintf("Lean changed its argument: statement %d is now %v", i, tripleOf(g[i])))
						break
					}
				}
			}
		}
	}
	return nil
}
