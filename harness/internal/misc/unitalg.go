// Package misc binds three small specifications (specs/misc) to the real code:
// UnitAlgebra.tla / UnitRegistry.tla -> package unit ("unitalg", "unitreg"),
// ScalarFloat.tla -> floats/scalar ("scalar"), OrderX.tla -> internal/order ("orderx").
// The drivers build operands from what TLC printed, call gonum and compare with the
// expected values TLC printed; they contain no arithmetic of the routines under test.
package misc

import (
	"encoding/json"
	"fmt"
	"sort"
	"strings"

	"gonum.org/v1/gonum/unit"
	"gonum.org/v1/gonum/verifharness/internal/core"
)

func init() {
	core.RegisterReplay("unitalg", replayUnitAlg)
}

// ---- binding of the model's base dimensions and concrete types -------------------------------

var baseDims = []unit.Dimension{unit.LengthDim, unit.MassDim, unit.TimeDim}

type concrete struct {
	mk   func(v float64) unit.Uniter
	from func(u unit.Uniter) (float64, error)
}

var concretes = map[string]concrete{
	"Dimless": {func(v float64) unit.Uniter { return unit.Dimless(v) }, func(u unit.Uniter) (float64, error) { var x unit.Dimless; err := x.From(u); return float64(x), err }},
	"Length":  {func(v float64) unit.Uniter { return unit.Length(v) }, func(u unit.Uniter) (float64, error) { var x unit.Length; err := x.From(u); return float64(x), err }},
	"Mass":    {func(v float64) unit.Uniter { return unit.Mass(v) }, func(u unit.Uniter) (float64, error) { var x unit.Mass; err := x.From(u); return float64(x), err }},
	"Time":    {func(v float64) unit.Uniter { return unit.Time(v) }, func(u unit.Uniter) (float64, error) { var x unit.Time; err := x.From(u); return float64(x), err }},
	"Area":    {func(v float64) unit.Uniter { return unit.Area(v) }, func(u unit.Uniter) (float64, error) { var x unit.Area; err := x.From(u); return float64(x), err }},
	"Volume":  {func(v float64) unit.Uniter { return unit.Volume(v) }, func(u unit.Uniter) (float64, error) { var x unit.Volume; err := x.From(u); return float64(x), err }},
	"Velocity": {func(v float64) unit.Uniter { return unit.Velocity(v) }, func(u unit.Uniter) (float64, error) {
		var x unit.Velocity
		err := x.From(u)
		return float64(x), err
	}},
	"Acceleration": {func(v float64) unit.Uniter { return unit.Acceleration(v) }, func(u unit.Uniter) (float64, error) {
		var x unit.Acceleration
		err := x.From(u)
		return float64(x), err
	}},
	"Frequency": {func(v float64) unit.Uniter { return unit.Frequency(v) }, func(u unit.Uniter) (float64, error) {
		var x unit.Frequency
		err := x.From(u)
		return float64(x), err
	}},
	"Force":    {func(v float64) unit.Uniter { return unit.Force(v) }, func(u unit.Uniter) (float64, error) { var x unit.Force; err := x.From(u); return float64(x), err }},
	"Energy":   {func(v float64) unit.Uniter { return unit.Energy(v) }, func(u unit.Uniter) (float64, error) { var x unit.Energy; err := x.From(u); return float64(x), err }},
	"Torque":   {func(v float64) unit.Uniter { return unit.Torque(v) }, func(u unit.Uniter) (float64, error) { var x unit.Torque; err := x.From(u); return float64(x), err }},
	"Power":    {func(v float64) unit.Uniter { return unit.Power(v) }, func(u unit.Uniter) (float64, error) { var x unit.Power; err := x.From(u); return float64(x), err }},
	"Pressure": {func(v float64) unit.Uniter { return unit.Pressure(v) }, func(u unit.Uniter) (float64, error) { var x unit.Pressure; err := x.From(u); return float64(x), err }},
}

// ---- case format ------------------------------------------------------------------------------

type uaLeaf struct {
	T string `json:"t"`
	N int64  `json:"n"`
	D int64  `json:"d"`
}

type uaOp struct {
	Op string `json:"op"`
	I  int    `json:"i"`
	J  int    `json:"j"`
	T  string `json:"t"`
	N  int64  `json:"n"`
	D  int64  `json:"d"`
}

type uaObs struct {
	N    int64    `json:"n"`
	D    int64    `json:"d"`
	Ex   bool     `json:"ex"`
	E    []int    `json:"e"`
	S    string   `json:"s"`
	From []string `json:"from"`
}

type uaCase struct {
	K     string           `json:"k"`
	Sym   []string         `json:"sym,omitempty"`
	Rank  []int            `json:"rank,omitempty"`
	Types map[string][]int `json:"types,omitempty"`
	Init  []uaLeaf         `json:"init"`
	Ops   []uaOp           `json:"ops"`
	Outs  []string         `json:"outs"`
	Regs  []uaObs          `json:"regs"`
	Match [][]bool         `json:"match"`
	// a failing case is reported together with its header so that it can be replayed alone
	Hdr json.RawMessage `json:"hdr,omitempty"`
	H   json.RawMessage `json:"h,omitempty"`
}

// dyadic value n/d (d is a power of two whenever the value is compared)
func ratF(n, d int64) float64 { return float64(n) / float64(d) }

func isPow2(d int64) bool { return d > 0 && d&(d-1) == 0 }

func vecOf(m unit.Dimensions) (v []int, foreign bool) {
	v = make([]int, len(baseDims))
	for k, p := range m {
		found := false
		for i, d := range baseDims {
			if d == k {
				v[i] = p
				found = true
			}
		}
		if !found && p != 0 {
			foreign = true
		}
	}
	return v, foreign
}

func eqInts(a, b []int) bool {
	if len(a) != len(b) {
		return false
	}
	for i := range a {
		if a[i] != b[i] {
			return false
		}
	}
	return true
}

func dimsFor(e []int, zeros bool) unit.Dimensions {
	m := unit.Dimensions{}
	for i, p := range e {
		if p != 0 || zeros {
			m[baseDims[i]] = p
		}
	}
	if zeros {
		m[unit.AngleDim] = 0
	}
	return m
}

func replayUnitAlg(in *core.Lines, args []string, seed int64, sum *core.Summary) error {
	types := map[string][]int{}
	var hdr json.RawMessage
	var pending [][]byte
	for {
		var b []byte
		if len(pending) > 0 {
			b, pending = pending[0], pending[1:]
		} else {
			var ok bool
			if b, ok = in.Next(); !ok {
				break
			}
		}
		var c uaCase
		if err := json.Unmarshal(b, &c); err != nil {
			return fmt.Errorf("line %d: %v", in.N, err)
		}
		switch c.K {
		case "hh": // a failure case: header + history
			pending = append(pending, c.Hdr, c.H)
		case "hdr":
			hdr = append(json.RawMessage(nil), b...)
			// the binding the specification assumes: symbols of the bound dimensions and their byte order
			if len(c.Sym) != len(baseDims) {
				return fmt.Errorf("header names %d dimensions, harness binds %d", len(c.Sym), len(baseDims))
			}
			for i, d := range baseDims {
				if d.String() != c.Sym[i] {
					sum.Fail("unitalg:Dimension.String:symbol", fmt.Sprintf("dimension %d prints %q, SI symbol %q", i, d.String(), c.Sym[i]), c)
				}
			}
			byRank := make([]string, len(c.Sym))
			for i, r := range c.Rank {
				byRank[r-1] = c.Sym[i]
			}
			if !sort.StringsAreSorted(byRank) {
				return fmt.Errorf("specification's symbol ranks %v are not the byte order of %v", c.Rank, c.Sym)
			}
			types = c.Types
			for name := range types {
				if _, ok := concretes[name]; !ok {
					return fmt.Errorf("concrete type %s not bound", name)
				}
			}
		case "h":
			sum.Cases++
			if len(c.Ops) > 0 {
				sum.Nontrivial++
			}
			unitAlgCase(&c, b, hdr, types, sum)
			if sum.Cases%5000 == 1 {
				sum.Sample(json.RawMessage(append([]byte(nil), b...)))
			}
		default:
			return fmt.Errorf("line %d: unknown kind %q", in.N, c.K)
		}
	}
	return nil
}

func unitAlgCase(c *uaCase, raw []byte, hdr json.RawMessage, types map[string][]int, sum *core.Summary) {
	caseObj := map[string]any{"k": "hh", "hdr": hdr, "h": json.RawMessage(append([]byte(nil), raw...))}
	fail := func(sig, msg string) { sum.Fail(sig, msg, caseObj) }
	n := len(c.Init)
	regs := make([]*unit.Unit, n)
	nilBorn := make([]bool, n) // provenance, used only to make failure signatures precise
	for i, l := range c.Init {
		regs[i] = concretes[l.T].mk(ratF(l.N, l.D)).Unit()
	}
	for k, o := range c.Ops {
		i := o.I - 1
		var f func()
		switch o.Op {
		case "Mul":
			f = func() { regs[i].Mul(regs[o.J-1]) }
		case "Div":
			f = func() { regs[i].Div(regs[o.J-1]) }
		case "Add":
			f = func() { regs[i].Add(regs[o.J-1]) }
		case "MulC":
			f = func() { regs[i].Mul(concretes[o.T].mk(ratF(o.N, o.D))) }
		case "DivC":
			f = func() { regs[i].Div(concretes[o.T].mk(ratF(o.N, o.D))) }
		case "AddC":
			f = func() { regs[i].Add(concretes[o.T].mk(ratF(o.N, o.D))) }
		case "Copy":
			f = func() { regs[i] = regs[o.J-1].Copy(); nilBorn[i] = nilBorn[o.J-1] }
		case "SetValue":
			f = func() { regs[i].SetValue(ratF(o.N, o.D)) }
		case "New":
			f = func() { regs[i] = unit.New(ratF(o.N, o.D), dimsFor(types[o.T], false)); nilBorn[i] = false }
		case "NewZ":
			f = func() { regs[i] = unit.New(ratF(o.N, o.D), dimsFor(types[o.T], true)); nilBorn[i] = false }
		case "NewNil":
			f = func() { regs[i] = unit.New(ratF(o.N, o.D), nil); nilBorn[i] = true }
		default:
			fail("unitalg:harness:unknown-op", o.Op)
			return
		}
		out := core.Call(f)
		sum.Count("calls", 1)
		prov := ""
		if nilBorn[i] {
			prov = ":receiver-from-New-nil"
		}
		if out.Runtime {
			fail("unitalg:"+o.Op+":runtime-panic"+prov, fmt.Sprintf("call %d (%s) raised a runtime error: %s", k+1, o.Op, out.Text))
			return
		}
		want := c.Outs[k] == "panic"
		if out.Panicked != want {
			fail("unitalg:"+o.Op+":panic-mismatch"+prov, fmt.Sprintf("call %d (%s): panicked=%v (%s), specification says %s", k+1, o.Op, out.Panicked, out.Text, c.Outs[k]))
			return
		}
	}
	last := "init"
	if len(c.Ops) > 0 {
		last = c.Ops[len(c.Ops)-1].Op
	}
	for r, exp := range c.Regs {
		u := regs[r]
		prov := ""
		if nilBorn[r] {
			prov = ":receiver-from-New-nil"
		}
		o := core.Call(func() {
			got, foreign := vecOf(u.Dimensions())
			if foreign || !eqInts(got, exp.E) {
				fail("unitalg:"+last+":dimensions", fmt.Sprintf("register %d has dimensions %v, specification %v", r+1, u.Dimensions(), exp.E))
			}
			if exp.Ex {
				if !isPow2(exp.D) {
					fail("unitalg:harness:inexact-marked-exact", fmt.Sprint(exp))
				} else if v := u.Value(); v != ratF(exp.N, exp.D) {
					fail("unitalg:"+last+":value", fmt.Sprintf("register %d has value %v, specification %d/%d", r+1, v, exp.N, exp.D))
				}
			}
			if s := u.Dimensions().String(); s != exp.S {
				fail("unitalg:Dimensions.String:order", fmt.Sprintf("register %d dimensions print as %q, specification %q", r+1, s, exp.S))
			}
			if s, w := fmt.Sprintf("%v", u), fmt.Sprintf("%v", u.Value())+" "+exp.S; s != w {
				fail("unitalg:Format:v", fmt.Sprintf("register %d formats as %q, want value then dimensions %q", r+1, s, w))
			}
			if s := fmt.Sprintf("%.2f", u); !strings.HasSuffix(s, " "+exp.S) || !strings.HasPrefix(s, fmt.Sprintf("%.2f", u.Value())) {
				fail("unitalg:Format:f", fmt.Sprintf("register %d formats with %%.2f as %q, dimensions %q", r+1, s, exp.S))
			}
			// a mutated copy of the dimensions must not reach the unit
			if m := u.Dimensions(); m != nil {
				m[unit.LengthDim] += 5
				m[unit.CurrentDim] = 1
			}
			if got, foreign := vecOf(u.Dimensions()); foreign || !eqInts(got, exp.E) {
				fail("unitalg:Dimensions:copy", fmt.Sprintf("register %d changed after mutating the map returned by Dimensions()", r+1))
			}
			// the receiver of Unit() is the unit itself
			if u.Unit() != u {
				fail("unitalg:Unit:identity", "u.Unit() != u")
			}
			accepts := map[string]bool{}
			for _, t := range exp.From {
				accepts[t] = true
			}
			for name, ct := range concretes {
				if _, ok := types[name]; !ok {
					continue
				}
				v, err := ct.from(u)
				if (err == nil) != accepts[name] {
					fail("unitalg:From:"+name, fmt.Sprintf("unit.%s.From(register %d = %v) error=%v, specification accepts=%v", name, r+1, u, err, accepts[name]))
				} else if err == nil && exp.Ex && v != ratF(exp.N, exp.D) {
					fail("unitalg:From:"+name+":value", fmt.Sprintf("unit.%s.From(register %d) = %v, specification %d/%d", name, r+1, v, exp.N, exp.D))
				}
				if got := unit.DimensionsMatch(u, ct.mk(1)); got != accepts[name] {
					fail("unitalg:DimensionsMatch:"+name, fmt.Sprintf("DimensionsMatch(register %d = %v, unit.%s) = %v, specification %v", r+1, u, name, got, accepts[name]))
				}
				sum.Count("from_checks", 1)
			}
			for r2 := range c.Regs {
				if got := unit.DimensionsMatch(u, regs[r2]); got != c.Match[r][r2] {
					fail("unitalg:DimensionsMatch:regs", fmt.Sprintf("DimensionsMatch(register %d, register %d) = %v, specification %v", r+1, r2+1, got, c.Match[r][r2]))
				}
			}
		})
		if o.Panicked {
			fail("unitalg:query:panic"+prov, "a query on register "+fmt.Sprint(r+1)+" panicked: "+o.Text)
		}
	}
}
