package misc

import (
	"encoding/json"
	"fmt"
	"sort"
	"strconv"
	"strings"

	"gonum.org/v1/gonum/unit"
	"gonum.org/v1/gonum/verifharness/internal/core"
)

func init() {
	core.RegisterReplay("unitreg", replayUnitReg)
}

type urUnit struct {
	Exps map[string]int `json:"exps"`
	S    string         `json:"s"`
}

type urCase struct {
	K      string          `json:"k"`
	Ops    []string        `json:"ops"`
	Outs   []string        `json:"outs"`
	Reg    []string        `json:"reg"`
	Order  []string        `json:"order"`
	Exists map[string]bool `json:"exists"`
	Units  []urUnit        `json:"units"`
}

var builtinBySym = map[string]unit.Dimension{
	"A": unit.CurrentDim, "m": unit.LengthDim, "cd": unit.LuminousIntensityDim, "kg": unit.MassDim,
	"mol": unit.MoleDim, "K": unit.TemperatureDim, "s": unit.TimeDim, "rad": unit.AngleDim,
}

// the registry is process-global: every case gets its own real symbols for the model's fresh ones
var urCounter int

func replayUnitReg(in *core.Lines, args []string, seed int64, sum *core.Summary) error {
	for {
		b, ok := in.Next()
		if !ok {
			break
		}
		var c urCase
		if err := json.Unmarshal(b, &c); err != nil {
			return fmt.Errorf("line %d: %v", in.N, err)
		}
		if c.K != "r" {
			return fmt.Errorf("line %d: unknown kind %q", in.N, c.K)
		}
		sum.Cases++
		if len(c.Reg) > 0 {
			sum.Nontrivial++
		}
		caseObj := json.RawMessage(append([]byte(nil), b...))
		if sum.Cases%400 == 2 {
			sum.Sample(caseObj)
		}
		unitRegCase(&c, caseObj, sum)
	}
	return nil
}

func unitRegCase(c *urCase, caseObj any, sum *core.Summary) {
	fail := func(sig, msg string) { sum.Fail(sig, msg, caseObj) }
	urCounter++
	real := func(s string) string {
		if _, pre := c.Exists[s]; pre && !c.Exists[s] || contains(c.Reg, s) {
			if !isPreTaken(c, s) {
				return s + "_" + strconv.Itoa(urCounter)
			}
		}
		return s
	}
	// binding check: the specification's symbol order is the byte order of the real symbols
	ord := make([]string, len(c.Order))
	for i, s := range c.Order {
		ord[i] = real(s)
	}
	if !sort.StringsAreSorted(ord) {
		fail("unitreg:harness:order-binding", fmt.Sprint(ord))
		return
	}
	dims := map[string]unit.Dimension{}
	var created []unit.Dimension
	for k, s := range c.Ops {
		var d unit.Dimension
		out := core.Call(func() { d = unit.NewDimension(real(s)) })
		if out.Runtime {
			fail("unitreg:NewDimension:runtime-panic", out.Text)
			return
		}
		if want := c.Outs[k] == "panic"; out.Panicked != want {
			fail("unitreg:NewDimension:panic-mismatch", fmt.Sprintf("call %d NewDimension(%q): panicked=%v, specification %s", k+1, real(s), out.Panicked, c.Outs[k]))
			return
		}
		if out.Panicked {
			continue
		}
		for _, b := range builtinBySym {
			if b == d {
				fail("unitreg:NewDimension:not-fresh", fmt.Sprintf("NewDimension(%q) returned builtin dimension %d", real(s), d))
			}
		}
		if d == 0 {
			fail("unitreg:NewDimension:not-fresh", "NewDimension returned the reserved dimension 0")
		}
		for _, e := range created {
			if e == d {
				fail("unitreg:NewDimension:not-fresh", fmt.Sprintf("NewDimension(%q) returned %d again", real(s), d))
			}
		}
		created = append(created, d)
		dims[s] = d
		if got := d.String(); got != real(s) {
			fail("unitreg:Dimension.String:symbol", fmt.Sprintf("dimension of %q prints %q", real(s), got))
		}
	}
	if len(created) != len(c.Reg) {
		fail("unitreg:NewDimension:count", fmt.Sprintf("%d dimensions created, specification registered %v", len(created), c.Reg))
		return
	}
	for s, want := range c.Exists {
		if got := unit.SymbolExists(real(s)); got != want {
			fail("unitreg:SymbolExists", fmt.Sprintf("SymbolExists(%q) = %v, specification %v", real(s), got, want))
		}
	}
	// orthogonality: single-dimension units match only themselves
	names := append([]string{"m", "kg", "s"}, c.Reg...)
	dimOf := func(s string) unit.Dimension {
		if d, ok := dims[s]; ok {
			return d
		}
		return builtinBySym[s]
	}
	for _, a := range names {
		for _, b := range names {
			ua, ub := unit.New(1, unit.Dimensions{dimOf(a): 1}), unit.New(2, unit.Dimensions{dimOf(b): 1})
			if got := unit.DimensionsMatch(ua, ub); got != (a == b) {
				fail("unitreg:DimensionsMatch:orthogonal", fmt.Sprintf("DimensionsMatch(%s, %s) = %v", real(a), real(b), got))
			}
		}
	}
	for _, u := range c.Units {
		m := unit.Dimensions{}
		for s, p := range u.Exps {
			m[dimOf(s)] = p
		}
		toks := strings.Split(u.S, " ")
		for i, t := range toks {
			base, pow, has := strings.Cut(t, "^")
			toks[i] = real(base)
			if has {
				toks[i] += "^" + pow
			}
		}
		want := strings.Join(toks, " ")
		o := core.Call(func() {
			if got := m.String(); got != want {
				fail("unitreg:Dimensions.String:order", fmt.Sprintf("%v prints %q, specification %q", u.Exps, got, want))
			}
			if got := fmt.Sprintf("%v", unit.New(3, m)); got != "3 "+want {
				fail("unitreg:Format:v", fmt.Sprintf("unit formats as %q, want %q", got, "3 "+want))
			}
		})
		if o.Panicked {
			fail("unitreg:Format:panic", o.Text)
		}
		sum.Count("formatted", 1)
	}
}

func contains(q []string, s string) bool {
	for _, x := range q {
		if x == s {
			return true
		}
	}
	return false
}

// isPreTaken reports whether the specification lists s as taken although this history never registered it.
func isPreTaken(c *urCase, s string) bool {
	return c.Exists[s] && !contains(c.Reg, s)
}
