package misc

// Replay of specs/misc/OrderKeys.tla: internal/order on keys from the whole int64 range. A key is a
// rank into the table of 64-bit values that travels with the case (three limbs in offset binary).

import (
	"encoding/json"
	"fmt"

	"gonum.org/v1/gonum/graph"
	"gonum.org/v1/gonum/graph/multi"
	"gonum.org/v1/gonum/graph/simple"
	"gonum.org/v1/gonum/internal/order"
	"gonum.org/v1/gonum/verifharness/internal/core"
)

func init() {
	core.RegisterReplay("misc-orderkeys", replayOrderKeys)
}

type okCase struct {
	K   string      `json:"k"`
	Tab [][3]uint64 `json:"tab"`
	In  [][]int     `json:"in"`
	Out [][]int     `json:"out"`
}

func replayOrderKeys(in *core.Lines, args []string, seed int64, sum *core.Summary) error {
	for {
		b, ok := in.Next()
		if !ok {
			break
		}
		var c okCase
		if err := json.Unmarshal(b, &c); err != nil {
			return fmt.Errorf("line %d: %v", in.N, err)
		}
		caseObj := json.RawMessage(append([]byte(nil), b...))
		sum.Cases++
		if fmt.Sprint(c.In) != fmt.Sprint(c.Out) {
			sum.Nontrivial++
		}
		if sum.Cases%1500 == 11 {
			sum.Sample(caseObj)
		}
		val := func(rank int) int64 {
			l := c.Tab[rank-1]
			return int64((l[0]<<42 | l[1]<<21 | l[2]) ^ (1 << 63)) // offset binary -> two's complement
		}
		rankOf := map[int64]int{}
		for r := range c.Tab {
			rankOf[val(r+1)] = r + 1
		}
		same := func(got [][]int) bool { return fmt.Sprint(got) == fmt.Sprint(c.Out) }
		fail := func(sig string, got [][]int) {
			sum.Fail("misc-orderkeys:"+sig, fmt.Sprintf("%s on keys (ranks into %v) %v gave %v, specification %v", sig, c.Tab, c.In, got, c.Out), caseObj)
		}
		o := core.Call(func() {
			switch c.K {
			case "values":
				vi := make([][]int64, len(c.In))
				vn := make([][]graph.Node, len(c.In))
				vp := make([][]int, len(c.In))
				for i, s := range c.In {
					vi[i], vn[i], vp[i] = make([]int64, len(s)), make([]graph.Node, len(s)), make([]int, len(s))
					for j, r := range s {
						vi[i][j], vn[i][j], vp[i][j] = val(r), simple.Node(val(r)), int(val(r))
					}
				}
				order.BySliceValues(vi)
				order.BySliceValues(vp)
				order.BySliceIDs(vn)
				gi, gp, gn := make([][]int, len(vi)), make([][]int, len(vi)), make([][]int, len(vi))
				for i := range vi {
					gi[i], gp[i], gn[i] = make([]int, len(vi[i])), make([]int, len(vp[i])), make([]int, len(vn[i]))
					for j := range vi[i] {
						gi[i][j], gp[i][j], gn[i][j] = rankOf[vi[i][j]], rankOf[int64(vp[i][j])], rankOf[vn[i][j].ID()]
					}
				}
				if !same(gi) {
					fail("BySliceValues:int64", gi)
				}
				if !same(gp) {
					fail("BySliceValues:int", gp)
				}
				if !same(gn) {
					fail("BySliceIDs", gn)
				}
			case "ids":
				ns := make([]graph.Node, len(c.In))
				ms := make([]multi.Node, len(c.In))
				for i, s := range c.In {
					ns[i], ms[i] = simple.Node(val(s[0])), multi.Node(val(s[0]))
				}
				order.ByID(ns)
				order.ByID(ms)
				g1, g2 := make([][]int, len(ns)), make([][]int, len(ns))
				for i := range ns {
					g1[i], g2[i] = []int{rankOf[ns[i].ID()]}, []int{rankOf[ms[i].ID()]}
				}
				if !same(g1) {
					fail("ByID:[]graph.Node", g1)
				}
				if !same(g2) {
					fail("ByID:[]multi.Node", g2)
				}
			case "lines":
				ls := make([]graph.Line, len(c.In))
				for i, s := range c.In {
					ls[i] = multi.Line{F: simple.Node(val(s[0])), T: simple.Node(val(s[1])), UID: val(s[2])}
				}
				order.LinesByIDs(ls)
				got := make([][]int, len(ls))
				for i, l := range ls {
					got[i] = []int{rankOf[l.From().ID()], rankOf[l.To().ID()], rankOf[l.ID()]}
				}
				if !same(got) {
					fail("LinesByIDs", got)
				}
			default:
				panic("harness: unknown kind " + c.K)
			}
		})
		if o.Panicked {
			sum.Fail("misc-orderkeys:"+c.K+":panic", o.Text, caseObj)
		}
	}
	return nil
}
