package misc

// X03: graph/formats/rdf Graph and Query against specs/misc/RdfGraph.tla (spec->code).
//
// A case is a history (statements added, one removal, one more statement added, with the
// specification's full observation after each phase) or a query program with the expected
// term set after every instruction.  Every case runs twice: with term UIDs assigned by the
// caller in the way rdf.Decoder assigns them ("uid") and with zero UIDs that the graph fills
// in ("zero"); both are documented uses of AddStatement.

import (
	"encoding/json"
	"fmt"
	"sort"
	"strings"

	"gonum.org/v1/gonum/graph"
	"gonum.org/v1/gonum/graph/formats/rdf"
	"gonum.org/v1/gonum/verifharness/internal/core"
)

func init() {
	core.RegisterReplay("misc-rdfgraph", replayRdfGraph)
}

type triple [3]string

type rdfObs struct {
	Stmts []triple          `json:"stmts"`
	Nodes []string          `json:"nodes"`
	Preds []string          `json:"preds"`
	Terms []string          `json:"terms"`
	From  []json.RawMessage `json:"from"`
	To    []json.RawMessage `json:"to"`
	Lines []json.RawMessage `json:"lines"`
}

type rdfRem struct {
	Rm string `json:"rm"`
	S  triple `json:"s"`
	T  string `json:"t"`
}

type rdfIns struct {
	Op string `json:"op"`
	F  string `json:"f"`
	K  int    `json:"k"`
}

type rdfCase struct {
	Kind string `json:"kind"`
	// hist
	Tags []string `json:"tags"`
	Adds []triple `json:"adds"`
	Obs1 rdfObs   `json:"obs1"`
	Rem  rdfRem   `json:"rem"`
	Obs2 rdfObs   `json:"obs2"`
	Add3 triple   `json:"add3"`
	Obs3 rdfObs   `json:"obs3"`
	// query
	Stmts []triple   `json:"stmts"`
	S1    []string   `json:"s1"`
	S2    []string   `json:"s2"`
	Ins   []rdfIns   `json:"ins"`
	Res   [][]string `json:"res"`
	// valid
	S     triple `json:"s"`
	Ok    bool   `json:"ok"`
	Which string `json:"which"`
}

// the fixed UIDs of the "uid" mode (based from 1, as rdf.Decoder does)
var rdfUniverse = []string{"<a>", "_:b", "<p>", "<q>", `"l"`, "<zz>", "<c>"}

func rdfUID(text string, mode string) int64 {
	if mode == "zero" {
		return 0
	}
	for i, t := range rdfUniverse {
		if t == text {
			return int64(i + 1)
		}
	}
	return 100
}

func mkStatement(t triple, mode string) *rdf.Statement {
	return &rdf.Statement{
		Subject:   rdf.Term{Value: t[0], UID: rdfUID(t[0], mode)},
		Predicate: rdf.Term{Value: t[1], UID: rdfUID(t[1], mode)},
		Object:    rdf.Term{Value: t[2], UID: rdfUID(t[2], mode)},
	}
}

func tripleOf(s *rdf.Statement) triple {
	return triple{s.Subject.Value, s.Predicate.Value, s.Object.Value}
}

func sortedStrings(s []string) []string {
	out := append([]string(nil), s...)
	sort.Strings(out)
	return out
}

func sameStringSet(got, want []string) bool {
	a, b := uniqStrings(got), uniqStrings(want)
	if len(a) != len(b) {
		return false
	}
	for i := range a {
		if a[i] != b[i] {
			return false
		}
	}
	return true
}

func uniqStrings(s []string) []string {
	out := sortedStrings(s)
	n := 0
	for i, v := range out {
		if i == 0 || v != out[i-1] {
			out[n] = v
			n++
		}
	}
	return out[:n]
}

func tripleStrings(ts []triple) []string {
	out := make([]string, len(ts))
	for i, t := range ts {
		out[i] = t[0] + " " + t[1] + " " + t[2]
	}
	return out
}

func nodeValues(it graph.Nodes) []string {
	var out []string
	for it.Next() {
		if t, ok := it.Node().(rdf.Term); ok {
			out = append(out, t.Value)
		} else {
			out = append(out, fmt.Sprintf("(not a Term: %v)", it.Node()))
		}
	}
	return out
}

func statementValues(it *rdf.Statements) []string {
	var out []triple
	for it.Next() {
		out = append(out, tripleOf(it.Statement()))
	}
	return tripleStrings(out)
}

// rdfWorld is one real graph with the statement objects handed to it.
type rdfWorld struct {
	g     *rdf.Graph
	mode  string
	objs  map[triple]*rdf.Statement
	terms map[string]rdf.Term // the terms as the graph last saw them (with their UIDs)
	tag   string              // scenario features of the history (from the specification), appended to signatures after the removal
}

func newWorld(mode string) *rdfWorld {
	return &rdfWorld{g: rdf.NewGraph(), mode: mode, objs: map[triple]*rdf.Statement{}, terms: map[string]rdf.Term{}}
}

func (w *rdfWorld) add(t triple, fresh bool) core.Outcome {
	s, ok := w.objs[t]
	if !ok || fresh {
		s = mkStatement(t, w.mode)
		w.objs[t] = s
	}
	o := core.Call(func() { w.g.AddStatement(s) })
	if !o.Panicked {
		w.terms[t[0]], w.terms[t[1]], w.terms[t[2]] = s.Subject, s.Predicate, s.Object
	}
	return o
}

// observe compares everything the graph answers with the specification's observation.
func (w *rdfWorld) observe(obs *rdfObs, last string, fail func(sig, msg string)) {
	g := w.g
	sig := func(what string) string { return w.mode + ":" + last + ":" + what + w.tag }
	want := tripleStrings(obs.Stmts)
	if got := statementValues(g.AllStatements()); !sameStringSet(got, want) || len(got) != len(want) {
		fail(sig("AllStatements"), fmt.Sprintf("AllStatements = %q, specification %q", sortedStrings(got), sortedStrings(want)))
	}
	nn := g.Nodes()
	nlen := nn.Len()
	if got := nodeValues(nn); !sameStringSet(got, obs.Nodes) || len(got) != len(obs.Nodes) || nlen != len(obs.Nodes) {
		fail(sig("Nodes"), fmt.Sprintf("Nodes = %q (Len %d), specification %q", sortedStrings(got), nlen, sortedStrings(obs.Nodes)))
	}
	var preds []string
	for _, p := range g.Predicates() {
		preds = append(preds, p.Value)
	}
	if !sameStringSet(preds, obs.Preds) {
		fail(sig("Predicates"), fmt.Sprintf("Predicates = %q, specification %q", sortedStrings(preds), sortedStrings(obs.Preds)))
	}
	inTerms := map[string]bool{}
	for _, t := range obs.Terms {
		inTerms[t] = true
	}
	isNode := map[string]bool{}
	for _, t := range obs.Nodes {
		isNode[t] = true
	}
	ids := map[string]int64{}
	for _, text := range rdfUniverse {
		term, ok := g.TermFor(text)
		switch {
		case ok != inTerms[text]:
			fail(sig("TermFor"), fmt.Sprintf("TermFor(%q) ok = %v, specification: the terms of the graph are %q", text, ok, sortedStrings(obs.Terms)))
		case ok && term.Value != text:
			fail(sig("TermFor"), fmt.Sprintf("TermFor(%q) = %+v", text, term))
		case ok:
			ids[text] = term.UID
			if known, have := w.terms[text]; have && known.UID != term.UID {
				fail(sig("TermFor:uid"), fmt.Sprintf("TermFor(%q).UID = %d, the statements carry %d", text, term.UID, known.UID))
			}
			if isNode[text] {
				if n, isT := g.Node(term.UID).(rdf.Term); !isT || n.Value != text {
					fail(sig("Node"), fmt.Sprintf("Node(%d) = %v, want the term %q", term.UID, g.Node(term.UID), text))
				}
			}
		}
	}
	if l := g.Lines(99999, 1); g.Node(99999) != nil || g.From(99999).Len() != 0 || g.To(99999).Len() != 0 || (l != nil && l.Len() != 0) || g.Edge(99999, 99998) != nil {
		fail(sig("absent-id"), "an ID that is not in the graph is answered with a node, neighbours or lines")
	}
	adj := func(list []json.RawMessage, what string, f func(id int64) graph.Nodes, ft func(t rdf.Term) graph.Nodes) {
		for _, raw := range list {
			var pr []json.RawMessage
			if json.Unmarshal(raw, &pr) != nil || len(pr) != 2 {
				continue
			}
			var u string
			var succ []string
			_ = json.Unmarshal(pr[0], &u)
			_ = json.Unmarshal(pr[1], &succ)
			id, ok := ids[u]
			if !ok {
				continue // the term is not in the graph: it has no ID there
			}
			if got := nodeValues(f(id)); !sameStringSet(got, succ) || len(got) != len(succ) {
				fail(sig(what), fmt.Sprintf("%s(%q) = %q, specification %q", what, u, sortedStrings(got), sortedStrings(succ)))
			}
			if got := nodeValues(ft(rdf.Term{Value: u, UID: id})); !sameStringSet(got, succ) {
				fail(sig(what+"Term"), fmt.Sprintf("%s by term (%q) = %q, specification %q", what, u, sortedStrings(got), sortedStrings(succ)))
			}
		}
	}
	adj(obs.From, "From", g.From, g.FromSubject)
	adj(obs.To, "To", g.To, g.ToObject)
	// lines between every pair of nodes
	type pairKey [2]string
	lines := map[pairKey][]triple{}
	for _, raw := range obs.Lines {
		var pr []json.RawMessage
		if json.Unmarshal(raw, &pr) != nil || len(pr) != 3 {
			continue
		}
		var u, v string
		var ts []triple
		_ = json.Unmarshal(pr[0], &u)
		_ = json.Unmarshal(pr[1], &v)
		_ = json.Unmarshal(pr[2], &ts)
		lines[pairKey{u, v}] = ts
	}
	isP := func(s *rdf.Statement) bool { return s.Predicate.Value == "<p>" }
	var wantEdges []string
	for k, ts := range lines {
		if len(ts) > 0 {
			wantEdges = append(wantEdges, k[0]+" -> "+k[1])
		}
	}
	for k, ts := range lines {
		uid, ok1 := ids[k[0]]
		vid, ok2 := ids[k[1]]
		if !ok1 || !ok2 {
			continue
		}
		want := tripleStrings(ts)
		var got []triple
		it := g.Lines(uid, vid)
		for it.Next() {
			if s, ok := it.Line().(*rdf.Statement); ok {
				got = append(got, tripleOf(s))
			}
		}
		if gs := tripleStrings(got); !sameStringSet(gs, want) || len(gs) != len(want) {
			fail(sig("Lines"), fmt.Sprintf("Lines(%q, %q) = %q, specification %q", k[0], k[1], sortedStrings(gs), sortedStrings(want)))
		}
		if gs := statementValues(g.Statements(uid, vid)); !sameStringSet(gs, want) || len(gs) != len(want) {
			fail(sig("Statements"), fmt.Sprintf("Statements(%q, %q) = %q, specification %q", k[0], k[1], sortedStrings(gs), sortedStrings(want)))
		}
		if got := g.HasEdgeFromTo(uid, vid); got != (len(ts) > 0) {
			fail(sig("HasEdgeFromTo"), fmt.Sprintf("HasEdgeFromTo(%q, %q) = %v, specification: the statements between them are %q", k[0], k[1], got, want))
		}
		between := len(ts) > 0 || len(lines[pairKey{k[1], k[0]}]) > 0
		if got := g.HasEdgeBetween(uid, vid); got != between {
			fail(sig("HasEdgeBetween"), fmt.Sprintf("HasEdgeBetween(%q, %q) = %v, specification %v", k[0], k[1], got, between))
		}
		e := g.Edge(uid, vid)
		switch {
		case (e != nil) != (len(ts) > 0):
			fail(sig("Edge"), fmt.Sprintf("Edge(%q, %q) = %v, specification: the statements between them are %q", k[0], k[1], e, want))
		case e != nil && (e.From().ID() != uid || e.To().ID() != vid):
			fail(sig("Edge"), fmt.Sprintf("Edge(%q, %q) runs from %d to %d", k[0], k[1], e.From().ID(), e.To().ID()))
		}
		// ConnectedByAny with the filter "the predicate is <p>"
		wantP := false
		for _, t := range ts {
			wantP = wantP || t[1] == "<p>"
		}
		if e != nil {
			if got := rdf.ConnectedByAny(e, isP); got != wantP {
				fail(sig("ConnectedByAny"), fmt.Sprintf("ConnectedByAny(Edge(%q, %q), predicate is <p>) = %v, specification %v", k[0], k[1], got, wantP))
			}
		}
	}
	var gotEdges []string
	nStmts := 0
	es := g.Edges()
	for es.Next() {
		e := es.Edge()
		f, okf := e.From().(rdf.Term)
		t, okt := e.To().(rdf.Term)
		if !okf || !okt {
			fail(sig("Edges"), fmt.Sprintf("an edge with end points that are not terms: %v", e))
			continue
		}
		gotEdges = append(gotEdges, f.Value+" -> "+t.Value)
		if ls, ok := e.(graph.Lines); ok {
			for ls.Next() {
				nStmts++
			}
		}
	}
	if !sameStringSet(gotEdges, wantEdges) || len(gotEdges) != len(wantEdges) {
		fail(sig("Edges"), fmt.Sprintf("Edges = %q, specification %q", sortedStrings(gotEdges), sortedStrings(wantEdges)))
	}
	for _, s := range w.objs {
		if got := rdf.ConnectedByAny(s, isP); got != (s.Predicate.Value == "<p>") {
			fail(sig("ConnectedByAny"), "ConnectedByAny on a single statement ignores the filter")
		}
		if s.ReversedEdge() != graph.Edge(s) || s.ReversedLine() != graph.Line(s) || s.From().ID() != s.Subject.UID || s.To().ID() != s.Object.UID || s.ID() != s.Predicate.UID {
			fail(sig("Statement"), "Statement.From / To / ID / ReversedEdge / ReversedLine do not return the documented fields")
		}
		if want := s.Subject.Value + " " + s.Predicate.Value + " " + s.Object.Value + " ."; s.String() != want {
			fail(sig("Statement.String"), fmt.Sprintf("String() = %q, want %q", s.String(), want))
		}
	}
	if rdf.ConnectedByAny(nil, isP) {
		fail(sig("ConnectedByAny"), "ConnectedByAny(nil, ...) = true")
	}
}

func rdfHist(c *rdfCase, mode string, sum *core.Summary, fail func(sig, msg string)) {
	w := newWorld(mode)
	for _, t := range c.Adds {
		if o := w.add(t, false); o.Panicked {
			fail(mode+":add:panic", fmt.Sprintf("AddStatement(%v) panicked: %s", t, o.Text))
			return
		}
	}
	w.observe(&c.Obs1, "add", fail)
	if len(c.Tags) > 0 {
		w.tag = ":" + strings.Join(sortedStrings(c.Tags), "+")
	}
	last := "remove-" + c.Rem.Rm
	switch c.Rem.Rm {
	case "statement":
		s, ok := w.objs[c.Rem.S]
		if !ok {
			s = mkStatement(c.Rem.S, mode) // a statement the graph does not hold: documented no-op
		}
		if o := core.Call(func() { w.g.RemoveStatement(s) }); o.Panicked {
			fail(mode+":"+last+":panic", fmt.Sprintf("RemoveStatement(%v) panicked: %s", c.Rem.S, o.Text))
			return
		}
	case "term":
		t, ok := w.terms[c.Rem.T]
		if !ok {
			if mode == "zero" {
				return // a term the graph never saw has no UID in this mode
			}
			t = rdf.Term{Value: c.Rem.T, UID: rdfUID(c.Rem.T, mode)}
		}
		if o := core.Call(func() { w.g.RemoveTerm(t) }); o.Panicked {
			fail(mode+":"+last+":panic", fmt.Sprintf("RemoveTerm(%q) panicked: %s", c.Rem.T, o.Text))
			return
		}
	}
	w.observe(&c.Obs2, last, fail)
	// one more statement; with graph-assigned UIDs a new statement value is used, because the UIDs of a removed statement's
	// terms are only meaningful while the terms exist in the graph
	if o := w.add(c.Add3, mode == "zero"); o.Panicked {
		fail(mode+":readd:panic", fmt.Sprintf("AddStatement(%v) after %s panicked: %s", c.Add3, last, o.Text))
		return
	}
	w.observe(&c.Obs3, "readd-after-"+last, fail)
}

func rdfQuery(c *rdfCase, mode string, viaNew bool, fail func(sig, msg string)) {
	w := newWorld(mode)
	for _, t := range c.Stmts {
		if o := w.add(t, false); o.Panicked {
			fail(mode+":query:add:panic", o.Text)
			return
		}
	}
	start := func(texts []string) rdf.Query {
		ts := make([]rdf.Term, 0, len(texts))
		for _, x := range texts {
			ts = append(ts, w.terms[x])
		}
		if viaNew {
			return rdf.NewQuery(w.g, ts...)
		}
		return w.g.Query(ts...)
	}
	filter := func(f string) func(*rdf.Statement) bool {
		switch f {
		case "p":
			return func(s *rdf.Statement) bool { return s.Predicate.Value == "<p>" }
		case "q":
			return func(s *rdf.Statement) bool { return s.Predicate.Value == "<q>" }
		case "any":
			return func(*rdf.Statement) bool { return true }
		}
		return func(*rdf.Statement) bool { return false }
	}
	q := start(c.S1)
	var path []string
	for i, ins := range c.Ins {
		path = append(path, ins.Op)
		fn := filter(ins.F)
		var r rdf.Query
		o := core.Call(func() {
			switch ins.Op {
			case "Out":
				r = q.Out(fn)
			case "In":
				r = q.In(fn)
			case "HasAllOut":
				r = q.HasAllOut(fn)
			case "HasAllIn":
				r = q.HasAllIn(fn)
			case "HasAnyOut":
				r = q.HasAnyOut(fn)
			case "HasAnyIn":
				r = q.HasAnyIn(fn)
			case "And":
				r = q.And(start(c.S2))
			case "Or":
				r = q.Or(start(c.S2))
			case "Not":
				r = q.Not(start(c.S2))
			case "Unique":
				r = q.Unique()
			case "RepeatOut":
				calls := 0
				r = q.Repeat(func(x rdf.Query) (rdf.Query, bool) {
					calls++
					return x.Out(fn), calls < ins.K
				})
			case "RepeatLast":
				calls := 0
				r = q.Repeat(func(x rdf.Query) (rdf.Query, bool) {
					calls++
					y := x.Out(fn)
					if y.Len() == 0 {
						return x, false
					}
					return y, calls < ins.K
				})
			}
		})
		sig := mode + ":query:" + ins.Op
		if o.Panicked {
			fail(sig+":panic", fmt.Sprintf("%s panicked: %s", strings.Join(path, "."), o.Text))
			return
		}
		var got []string
		for _, t := range r.Result() {
			got = append(got, t.Value)
		}
		if !sameStringSet(got, c.Res[i]) {
			fail(sig, fmt.Sprintf("statements %v, start %q (second operand %q): %s(%s) = %q, specification %q", c.Stmts, c.S1, c.S2, strings.Join(path, "."), ins.F, sortedStrings(got), sortedStrings(c.Res[i])))
			return
		}
		if r.Len() != len(r.Result()) {
			fail(sig+":Len", fmt.Sprintf("Len() = %d but Result() holds %d terms", r.Len(), len(r.Result())))
		}
		if ins.Op == "Unique" && len(got) != len(uniqStrings(got)) {
			fail(sig+":duplicates", fmt.Sprintf("Unique() holds %q", got))
		}
		q = r
	}
}

func replayRdfGraph(in *core.Lines, args []string, seed int64, sum *core.Summary) error {
	// mode=uid | mode=zero: who assigns the term UIDs (default: both, one after the other)
	modes := []string{"uid", "zero"}
	for _, a := range args {
		if strings.HasPrefix(a, "mode=") {
			modes = []string{strings.TrimPrefix(a, "mode=")}
		}
	}
	for {
		b, ok := in.Next()
		if !ok {
			break
		}
		var c rdfCase
		if err := json.Unmarshal(b, &c); err != nil {
			return fmt.Errorf("line %d: %v", in.N, err)
		}
		caseObj := json.RawMessage(append([]byte(nil), b...))
		sum.Cases++
		if sum.Cases%3000 == 5 {
			sum.Sample(caseObj)
		}
		fail := func(sig, msg string) { sum.Fail("misc-rdfgraph:"+sig, msg, caseObj) }
		switch c.Kind {
		case "hist":
			for _, mode := range modes {
				rdfHist(&c, mode, sum, fail)
			}
			if len(c.Obs1.Stmts) != len(c.Obs2.Stmts) {
				sum.Nontrivial++
			}
		case "query":
			for i, mode := range modes {
				rdfQuery(&c, mode, (sum.Cases+i)%2 == 0, fail)
			}
			for _, r := range c.Res {
				if len(r) > 0 {
					sum.Nontrivial++
					break
				}
			}
		case "valid":
			g := rdf.NewGraph()
			s := mkStatement(c.S, "zero")
			o := core.Call(func() { g.AddStatement(s) })
			switch {
			case o.Runtime:
				fail("AddStatement:runtime-panic", fmt.Sprintf("AddStatement(%q): %s", c.S, o.Text))
			case c.Ok && o.Panicked:
				fail("AddStatement:valid-refused", fmt.Sprintf("AddStatement(%q) panicked for a valid statement: %s", c.S, o.Text))
			case !c.Ok && !o.Panicked:
				fail("AddStatement:invalid-accepted", fmt.Sprintf("AddStatement(%q) accepted a statement that is not valid RDF", c.S))
			case c.Ok:
				if got := statementValues(g.AllStatements()); len(got) != 1 || got[0] != tripleStrings([]triple{c.S})[0] {
					fail("AddStatement:valid-lost", fmt.Sprintf("after AddStatement(%q): AllStatements = %q", c.S, got))
				}
			}
			if !c.Ok {
				sum.Nontrivial++
			}
		case "uidclash":
			// "It panics if Term UIDs in the statement are not consistent with existing terms in the graph"
			g := rdf.NewGraph()
			g.AddStatement(mkStatement(triple{"<a>", "<p>", "_:b"}, "uid"))
			s := mkStatement(triple{"<a>", "<p>", "_:b"}, "uid")
			switch c.Which {
			case "subject":
				s.Subject.UID = 50
			case "predicate":
				s.Predicate.UID = 50
			case "object":
				s.Object.UID = 50
			}
			if o := core.Call(func() { g.AddStatement(s) }); !o.Panicked || o.Runtime {
				fail("AddStatement:uid-clash", fmt.Sprintf("a statement whose %s carries another UID than the graph's term was accepted (%s)", c.Which, o.Text))
			}
			sum.Nontrivial++
		case "mixed":
			// "Queries may not be mixed between distinct graphs"
			g1, g2 := rdf.NewGraph(), rdf.NewGraph()
			s1, s2 := mkStatement(triple{"<a>", "<p>", "_:b"}, "uid"), mkStatement(triple{"<a>", "<p>", "_:b"}, "uid")
			g1.AddStatement(s1)
			g2.AddStatement(s2)
			for name, f := range map[string]func(){
				"And": func() { g1.Query(s1.Subject).And(g2.Query(s2.Subject)) },
				"Or":  func() { g1.Query(s1.Subject).Or(g2.Query(s2.Subject)) },
				"Not": func() { g1.Query(s1.Subject).Not(g2.Query(s2.Subject)) },
			} {
				if o := core.Call(f); !o.Panicked || o.Runtime {
					fail("query:"+name+":mixed-graphs", "queries of two graphs were combined without the documented panic: "+o.Text)
				}
			}
			sum.Nontrivial++
		default:
			return fmt.Errorf("line %d: unknown kind %q", in.N, c.Kind)
		}
	}
	return nil
}
