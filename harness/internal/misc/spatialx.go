package misc

// X03: spatial/r2 and spatial/r3 against specs/misc/Spatial23.tla (spec->code): norms and
// angles on Pythagorean data, rotations of the square / cube groups, boxes, triangles, the 3x3
// matrix type and the finite-difference operators.  The driver decodes the rationals of a case,
// calls gonum and compares; the expected numbers are all the specification's.

import (
	"encoding/json"
	"fmt"
	"math"
	"math/big"

	"gonum.org/v1/gonum/mat"
	"gonum.org/v1/gonum/spatial/r2"
	"gonum.org/v1/gonum/spatial/r3"
	"gonum.org/v1/gonum/verifharness/internal/core"
)

func init() {
	core.RegisterReplay("misc-spatial", replaySpatialX)
}

type spCase struct {
	Op string `json:"op"`
	N  int    `json:"n"`
	V  []rat  `json:"v"`
	W  []rat  `json:"w"`
	Q  []rat  `json:"q"`
	// vec
	Norm rat   `json:"norm"`
	Unit []rat `json:"unit"`
	Cos  rat   `json:"cos"`
	// rot
	Alpha rat     `json:"alpha"`
	Axis  []rat   `json:"axis"`
	Out   jsonAny `json:"out"`
	Exact bool    `json:"exact"`
	Scale jsonAny `json:"scale"`
	Mat   [][]rat `json:"mat"`
	// box
	Box      [][]rat   `json:"box"`
	Other    [][]rat   `json:"other"`
	Size     []rat     `json:"size"`
	Center   []rat     `json:"center"`
	Empty    bool      `json:"empty"`
	Canon    [][]rat   `json:"canon"`
	Vertices [][]rat   `json:"vertices"`
	Add      [][]rat   `json:"add"`
	Contains string    `json:"contains"`
	Union    [][][]rat `json:"union"`
	// tri
	T          [][]rat           `json:"t"`
	Centroid   []rat             `json:"centroid"`
	Area       rat               `json:"area"`
	DblAreaSq  rat               `json:"dblareasq"`
	LongSq     rat               `json:"longsq"`
	Normal     []rat             `json:"normal"`
	Degenerate []json.RawMessage `json:"degenerate"`
	// mat
	M    [][]rat           `json:"m"`
	F    []json.RawMessage `json:"f"`
	P    []rat             `json:"p"`
	Step []rat             `json:"step"`
	Grad []rat             `json:"grad"`
	Hess [][]rat           `json:"hess"`
	Jac  [][]rat           `json:"jac"`
	Div  rat               `json:"div"`
	K    int               `json:"k"`
	A    [][]rat           `json:"a"`
	B    [][]rat           `json:"b"`
	Ra   int               `json:"ra"`
	Ca   int               `json:"ca"`
	Rb   int               `json:"rb"`
	Cb   int               `json:"cb"`
	R    int               `json:"r"`
	Cc   int               `json:"cc"`
	I    int               `json:"i"`
	Row  []rat             `json:"row"`
	Col  []rat             `json:"col"`
	Ok   jsonAny           `json:"ok"`
}

type jsonAny = json.RawMessage

func v2of(v []rat) r2.Vec { return r2.Vec{X: v[0].f64(), Y: v[1].f64()} }
func v3of(v []rat) r3.Vec { return r3.Vec{X: v[0].f64(), Y: v[1].f64(), Z: v[2].f64()} }
func c2(v r2.Vec) []float64 {
	return []float64{v.X, v.Y}
}
func c3(v r3.Vec) []float64 {
	return []float64{v.X, v.Y, v.Z}
}
func b2of(b [][]rat) r2.Box { return r2.Box{Min: v2of(b[0]), Max: v2of(b[1])} }
func b3of(b [][]rat) r3.Box { return r3.Box{Min: v3of(b[0]), Max: v3of(b[1])} }

var ratOne = big.NewRat(1, 1)

// vecIs compares a vector of floats with a vector of rationals (tolexp 0: exactly).
func vecIs(got []float64, want []rat, tolexp int, scale *big.Rat) bool {
	if len(got) != len(want) {
		return false
	}
	for i := range got {
		if !within(got[i], want[i], tolexp, scale) {
			return false
		}
	}
	return true
}

func boxIs2(b r2.Box, want [][]rat) bool {
	return vecIs(c2(b.Min), want[0], 0, ratOne) && vecIs(c2(b.Max), want[1], 0, ratOne)
}
func boxIs3(b r3.Box, want [][]rat) bool {
	return vecIs(c3(b.Min), want[0], 0, ratOne) && vecIs(c3(b.Max), want[1], 0, ratOne)
}

func matRows(m mat.Matrix) [][]float64 {
	r, c := m.Dims()
	out := make([][]float64, r)
	for i := range out {
		out[i] = make([]float64, c)
		for j := range out[i] {
			out[i][j] = m.At(i, j)
		}
	}
	return out
}

func rowsIs(got [][]float64, want [][]rat, tolexp int, scale *big.Rat) bool {
	if len(got) != len(want) {
		return false
	}
	for i := range got {
		if !vecIs(got[i], want[i], tolexp, scale) {
			return false
		}
	}
	return true
}

func denseOf(a [][]rat) *mat.Dense {
	d := mat.NewDense(len(a), len(a[0]), nil)
	for i := range a {
		for j := range a[i] {
			d.Set(i, j, a[i][j].f64())
		}
	}
	return d
}

func r3matOf(a [][]rat) *r3.Mat {
	v := make([]float64, 0, 9)
	for i := range a {
		for j := range a[i] {
			v = append(v, a[i][j].f64())
		}
	}
	return r3.NewMat(v)
}

// quadField builds the scalar field v'Av + b.v + c0 from the coefficients of a case (operand construction).
func quadField(raw json.RawMessage) (func(r3.Vec) float64, error) {
	var parts []json.RawMessage
	if err := json.Unmarshal(raw, &parts); err != nil || len(parts) != 3 {
		return nil, fmt.Errorf("bad field %s", raw)
	}
	var a [][]rat
	var b []rat
	var c0 rat
	if err := json.Unmarshal(parts[0], &a); err != nil {
		return nil, err
	}
	if err := json.Unmarshal(parts[1], &b); err != nil {
		return nil, err
	}
	if err := json.Unmarshal(parts[2], &c0); err != nil {
		return nil, err
	}
	A := denseOf(a)
	bb := floats(b)
	cc := c0.f64()
	return func(v r3.Vec) float64 {
		x := []float64{v.X, v.Y, v.Z}
		s := cc
		for i := 0; i < 3; i++ {
			s += bb[i] * x[i]
			for j := 0; j < 3; j++ {
				s += x[i] * A.At(i, j) * x[j]
			}
		}
		return s
	}, nil
}

func replaySpatialX(in *core.Lines, args []string, seed int64, sum *core.Summary) error {
	for {
		b, ok := in.Next()
		if !ok {
			break
		}
		var c spCase
		if err := json.Unmarshal(b, &c); err != nil {
			return fmt.Errorf("line %d: %v", in.N, err)
		}
		caseObj := json.RawMessage(append([]byte(nil), b...))
		sum.Cases++
		if sum.Cases%2500 == 9 {
			sum.Sample(caseObj)
		}
		fail := func(sig, msg string) { sum.Fail("misc-spatial:"+sig, msg, caseObj) }
		var err error
		o := core.Call(func() { err = spatialOne(&c, sum, fail) })
		if err != nil {
			return fmt.Errorf("line %d: %v", in.N, err)
		}
		if o.Panicked {
			fail(c.Op+":panic", "unexpected panic: "+o.Text)
		}
	}
	return nil
}

func ratOf(raw json.RawMessage) rat {
	var r rat
	_ = json.Unmarshal(raw, &r)
	return r
}

func spatialOne(c *spCase, sum *core.Summary, fail func(sig, msg string)) error {
	switch c.Op {
	case "norm":
		d := len(c.V)
		pre := fmt.Sprintf("r%d.", d)
		var norm float64
		var unit []float64
		if d == 2 {
			norm, unit = r2.Norm(v2of(c.V)), c2(r2.Unit(v2of(c.V)))
		} else {
			norm, unit = r3.Norm(v3of(c.V)), c3(r3.Unit(v3of(c.V)))
		}
		sc := new(big.Rat).Add(ratOne, c.Norm.big())
		if !within(norm, c.Norm, 15, sc) {
			fail(pre+"Norm", fmt.Sprintf("%sNorm(%v) = %v, specification %v", pre, c.V, norm, c.Norm))
		}
		if len(c.Unit) == 0 { // the zero vector: documented NaN in every component
			for _, u := range unit {
				if !math.IsNaN(u) {
					fail(pre+"Unit:zero", fmt.Sprintf("%sUnit(0) = %v, documented NaN in every component", pre, unit))
					break
				}
			}
		} else if !vecIs(unit, c.Unit, 15, ratOne) {
			fail(pre+"Unit", fmt.Sprintf("%sUnit(%v) = %v, specification %v", pre, c.V, unit, c.Unit))
		}
		if c.Norm[0] != 0 {
			sum.Nontrivial++
		}
	case "cos":
		var got float64
		if len(c.V) == 2 {
			got = r2.Cos(v2of(c.V), v2of(c.W))
		} else {
			got = r3.Cos(v3of(c.V), v3of(c.W))
		}
		if !within(got, c.Cos, 15, ratOne) {
			fail(fmt.Sprintf("r%d.Cos", len(c.V)), fmt.Sprintf("Cos(%v, %v) = %v, specification %v", c.V, c.W, got, c.Cos))
		}
		sum.Nontrivial++
	case "rot2", "rot3":
		var out []rat
		if err := json.Unmarshal(c.Out, &out); err != nil {
			return err
		}
		scale := ratOf(c.Scale).big()
		tol := 15
		if c.Exact {
			tol = 0
		}
		alpha := float64(c.Alpha[0]) * math.Pi / float64(c.Alpha[1])
		if c.Op == "rot2" {
			p, q := v2of(c.V), v2of(c.Q)
			if got := c2(r2.Rotate(p, alpha, q)); !vecIs(got, out, tol, scale) {
				fail("r2.Rotate", fmt.Sprintf("r2.Rotate(%v, %v*pi, %v) = %v, specification %v (tolerance 1e-15 * %v; alpha = 0: exact)", c.V, c.Alpha, c.Q, got, out, scale))
			}
			if got := c2(r2.NewRotation(alpha, q).Rotate(p)); !vecIs(got, out, tol, scale) {
				fail("r2.Rotation.Rotate", fmt.Sprintf("r2.NewRotation(%v*pi, %v).Rotate(%v) = %v, specification %v", c.Alpha, c.Q, c.V, got, out))
			}
		} else {
			p, ax := v3of(c.V), v3of(c.Axis)
			if got := c3(r3.Rotate(p, alpha, ax)); !vecIs(got, out, tol, scale) {
				fail("r3.Rotate", fmt.Sprintf("r3.Rotate(%v, %v*pi, %v) = %v, specification %v (tolerance 1e-15 * %v; alpha = 0: exact)", c.V, c.Alpha, c.Axis, got, out, scale))
			}
			rot := r3.NewRotation(alpha, ax)
			if got := c3(rot.Rotate(p)); !vecIs(got, out, tol, scale) {
				fail("r3.Rotation.Rotate", fmt.Sprintf("r3.NewRotation(%v*pi, %v).Rotate(%v) = %v, specification %v", c.Alpha, c.Axis, c.V, got, out))
			}
			m := rot.Mat()
			if got := matRows(m); !rowsIs(got, c.Mat, tol, ratOne) {
				fail("r3.Rotation.Mat", fmt.Sprintf("r3.NewRotation(%v*pi, %v).Mat() = %v, specification %v", c.Alpha, c.Axis, got, c.Mat))
			}
			if got := c3(m.MulVec(p)); !vecIs(got, out, tol, scale) {
				fail("r3.Rotation.Mat:MulVec", fmt.Sprintf("r3.NewRotation(%v*pi, %v).Mat().MulVec(%v) = %v, specification %v", c.Alpha, c.Axis, c.V, got, out))
			}
		}
		if !c.Exact {
			sum.Nontrivial++
		}
	case "box1":
		pre := fmt.Sprintf("r%d.Box.", c.N)
		var size, center []float64
		var empty, canonOK, newOK bool
		var verts [][]float64
		if c.N == 2 {
			b := b2of(c.Box)
			size, center, empty = c2(b.Size()), c2(b.Center()), b.Empty()
			for _, v := range b.Vertices() {
				verts = append(verts, c2(v))
			}
			canonOK = boxIs2(b.Canon(), c.Canon)
			newOK = boxIs2(r2.NewBox(b.Min.X, b.Min.Y, b.Max.X, b.Max.Y), c.Canon)
		} else {
			b := b3of(c.Box)
			size, center, empty = c3(b.Size()), c3(b.Center()), b.Empty()
			for _, v := range b.Vertices() {
				verts = append(verts, c3(v))
			}
			canonOK = boxIs3(b.Canon(), c.Canon)
			newOK = boxIs3(r3.NewBox(b.Min.X, b.Min.Y, b.Min.Z, b.Max.X, b.Max.Y, b.Max.Z), c.Canon)
		}
		if !vecIs(size, c.Size, 0, ratOne) {
			fail(pre+"Size", fmt.Sprintf("%v.Size() = %v, specification %v", c.Box, size, c.Size))
		}
		if !vecIs(center, c.Center, 0, ratOne) {
			fail(pre+"Center", fmt.Sprintf("%v.Center() = %v, specification %v", c.Box, center, c.Center))
		}
		if empty != c.Empty {
			fail(pre+"Empty", fmt.Sprintf("%v.Empty() = %v, specification %v", c.Box, empty, c.Empty))
		}
		if !rowsIs(verts, c.Vertices, 0, ratOne) {
			fail(pre+"Vertices", fmt.Sprintf("%v.Vertices() = %v, specification %v", c.Box, verts, c.Vertices))
		}
		if !canonOK {
			fail(pre+"Canon", fmt.Sprintf("%v.Canon() differs from the specification's %v", c.Box, c.Canon))
		}
		if !newOK {
			fail(fmt.Sprintf("r%d.NewBox", c.N), fmt.Sprintf("NewBox of the corners of %v differs from the well-formed box %v", c.Box, c.Canon))
		}
		if !c.Empty {
			sum.Nontrivial++
		}
	case "boxv":
		pre := fmt.Sprintf("r%d.Box.", c.N)
		var scale [][]rat
		if err := json.Unmarshal(c.Scale, &scale); err != nil {
			return err
		}
		var addOK, scaleOK, contains bool
		if c.N == 2 {
			b, v := b2of(c.Box), v2of(c.V)
			addOK = boxIs2(b.Add(v), c.Add)
			scaleOK = len(scale) == 0 || boxIs2(b.Scale(v), scale)
			contains = b.Contains(v)
		} else {
			b, v := b3of(c.Box), v3of(c.V)
			addOK = boxIs3(b.Add(v), c.Add)
			scaleOK = len(scale) == 0 || boxIs3(b.Scale(v), scale)
			contains = b.Contains(v)
		}
		if !addOK {
			fail(pre+"Add", fmt.Sprintf("%v.Add(%v) differs from the specification's %v", c.Box, c.V, c.Add))
		}
		if !scaleOK {
			fail(pre+"Scale", fmt.Sprintf("%v.Scale(%v) differs from the specification's %v", c.Box, c.V, scale))
		}
		if c.Contains != "open" && contains != (c.Contains == "TRUE") {
			fail(pre+"Contains", fmt.Sprintf("%v.Contains(%v) = %v, specification %v", c.Box, c.V, contains, c.Contains))
		}
		if c.Contains != "open" {
			sum.Nontrivial++
		}
	case "box2":
		okU := false
		var got string
		if c.N == 2 {
			u := b2of(c.Box).Union(b2of(c.Other))
			got = fmt.Sprint(u)
			for _, w := range c.Union {
				okU = okU || boxIs2(u, w)
			}
		} else {
			u := b3of(c.Box).Union(b3of(c.Other))
			got = fmt.Sprint(u)
			for _, w := range c.Union {
				okU = okU || boxIs3(u, w)
			}
		}
		if !okU {
			fail(fmt.Sprintf("r%d.Box.Union", c.N), fmt.Sprintf("%v.Union(%v) = %v, legal results %v", c.Box, c.Other, got, c.Union))
		}
		if len(c.Union) == 1 {
			sum.Nontrivial++
		}
	case "tri":
		pre := fmt.Sprintf("r%d.Triangle.", c.N)
		var centroid, normal []float64
		var area float64
		deg := func(tol float64) bool { return false }
		if c.N == 2 {
			t := r2.Triangle{v2of(c.T[0]), v2of(c.T[1]), v2of(c.T[2])}
			centroid, area = c2(t.Centroid()), t.Area()
			deg = t.IsDegenerate
		} else {
			t := r3.Triangle{v3of(c.T[0]), v3of(c.T[1]), v3of(c.T[2])}
			centroid, area, normal = c3(t.Centroid()), t.Area(), c3(t.Normal())
			deg = t.IsDegenerate
		}
		sc := new(big.Rat).Add(ratOne, c.LongSq.big())
		if !vecIs(centroid, c.Centroid, 15, sc) {
			fail(pre+"Centroid", fmt.Sprintf("%v.Centroid() = %v, specification %v", c.T, centroid, c.Centroid))
		}
		if c.N == 3 && !vecIs(normal, c.Normal, 0, ratOne) {
			fail(pre+"Normal", fmt.Sprintf("%v.Normal() = %v, specification %v", c.T, normal, c.Normal))
		}
		switch {
		case math.IsNaN(area) || math.IsInf(area, 0) || area < 0:
			fail(pre+"Area:not-a-size", fmt.Sprintf("%v.Area() = %v", c.T, area))
		case c.DblAreaSq[0] == 0:
			// a degenerate triangle: Heron's formula takes the root of a rounded quantity
			if f, _ := sc.Float64(); area > 1e-7*f {
				fail(pre+"Area:degenerate", fmt.Sprintf("%v.Area() = %v for collinear vertices", c.T, area))
			}
		case c.Area.known():
			if !within(area, c.Area, 13, sc) {
				fail(pre+"Area", fmt.Sprintf("%v.Area() = %v, specification %v", c.T, area, c.Area))
			}
		default:
			// irrational area: (2 area)^2 is the rational the specification names
			if !within(4*area*area, c.DblAreaSq, 12, new(big.Rat).Add(ratOne, c.DblAreaSq.big())) {
				fail(pre+"Area", fmt.Sprintf("%v.Area() = %v, specification: (2 area)^2 = %v", c.T, area, c.DblAreaSq))
			}
		}
		for _, raw := range c.Degenerate {
			var pr []json.RawMessage
			if err := json.Unmarshal(raw, &pr); err != nil || len(pr) != 2 {
				return fmt.Errorf("bad degenerate entry %s", raw)
			}
			tol := ratOf(pr[0])
			var want string
			_ = json.Unmarshal(pr[1], &want)
			if want == "open" {
				continue
			}
			if got := deg(tol.f64()); got != (want == "TRUE") {
				kind := "IsDegenerate"
				if c.LongSq[0] == 0 {
					kind = "IsDegenerate:single-point"
				}
				fail(pre+kind, fmt.Sprintf("%v.IsDegenerate(%v) = %v, specification %v (height over the longest side squared = %v / %v)", c.T, tol, got, want, c.DblAreaSq, c.LongSq))
			}
		}
		if c.DblAreaSq[0] != 0 {
			sum.Nontrivial++
		}
	case "fieldgrad":
		f, err := quadField(mustRaw(c.F))
		if err != nil {
			return err
		}
		p, st := v3of(c.P), v3of(c.Step)
		if got := c3(r3.Gradient(p, st, f)); !vecIs(got, c.Grad, 0, ratOne) {
			fail("r3.Gradient", fmt.Sprintf("r3.Gradient at %v with steps %v of the quadratic field %s = %v, specification %v", c.P, c.Step, mustRaw(c.F), got, c.Grad))
		}
		var m r3.Mat
		m.Hessian(p, st, f)
		if got := matRows(&m); !rowsIs(got, c.Hess, 0, ratOne) {
			fail("r3.Mat.Hessian", fmt.Sprintf("Hessian at %v with steps %v of the quadratic field %s = %v, specification %v", c.P, c.Step, mustRaw(c.F), got, c.Hess))
		}
		sum.Nontrivial++
	case "vfield":
		if len(c.F) != 3 {
			return fmt.Errorf("vector field with %d components", len(c.F))
		}
		var fs [3]func(r3.Vec) float64
		for i := range fs {
			f, err := quadField(c.F[i])
			if err != nil {
				return err
			}
			fs[i] = f
		}
		field := func(v r3.Vec) r3.Vec { return r3.Vec{X: fs[0](v), Y: fs[1](v), Z: fs[2](v)} }
		p, st := v3of(c.P), v3of(c.Step)
		if got := r3.Divergence(p, st, field); !within(got, c.Div, 0, ratOne) {
			fail("r3.Divergence", fmt.Sprintf("r3.Divergence at %v with steps %v = %v, specification %v", c.P, c.Step, got, c.Div))
		}
		m := r3.NewMat(nil)
		m.Jacobian(p, st, field)
		if got := matRows(m); !rowsIs(got, c.Jac, 0, ratOne) {
			fail("r3.Mat.Jacobian", fmt.Sprintf("Jacobian at %v with steps %v = %v, specification %v", c.P, c.Step, got, c.Jac))
		}
		sum.Nontrivial++
	case "clone":
		for _, src := range []mat.Matrix{denseOf(c.M), r3matOf(c.M), denseOf(c.M).T().T()} {
			var m r3.Mat // zero value: no backing array yet
			m.CloneFrom(src)
			if got := matRows(&m); !rowsIs(got, c.M, 0, ratOne) {
				fail("r3.Mat.CloneFrom", fmt.Sprintf("CloneFrom(%v) into a zero Mat = %v", c.M, got))
			}
			m2 := r3.Eye()
			m2.CloneFrom(src)
			if got := matRows(m2); !rowsIs(got, c.M, 0, ratOne) {
				fail("r3.Mat.CloneFrom", fmt.Sprintf("CloneFrom(%v) into Eye() = %v", c.M, got))
			}
			// the copy is independent of its source
			m2.Set(0, 0, 99)
			if src.At(0, 0) == 99 {
				fail("r3.Mat.CloneFrom:alias", "CloneFrom shares storage with its argument")
			}
		}
		raw := r3matOf(c.M).RawMatrix()
		if raw.Rows != 3 || raw.Cols != 3 || raw.Stride != 3 || len(raw.Data) != 9 {
			fail("r3.Mat.RawMatrix", fmt.Sprintf("RawMatrix() = %+v", raw))
		} else {
			for i := 0; i < 3; i++ {
				for j := 0; j < 3; j++ {
					if raw.Data[i*3+j] != c.M[i][j].f64() {
						fail("r3.Mat.RawMatrix", fmt.Sprintf("RawMatrix().Data = %v for %v", raw.Data, c.M))
					}
				}
			}
		}
		sum.Nontrivial++
	case "eye":
		if got := matRows(r3.Eye()); !rowsIs(got, c.M, 0, ratOne) {
			fail("r3.Eye", fmt.Sprintf("Eye() = %v", got))
		}
		a, b := r3.Eye(), r3.Eye()
		a.Set(0, 1, 5)
		if b.At(0, 1) != 0 {
			fail("r3.Eye:shared", "two Eye() results share storage")
		}
		sum.Nontrivial++
	case "zero":
		// "The zero value is usable as the 3x3 zero matrix"; NewMat(nil) is a matrix filled with zeros
		for name, mk := range map[string]func() *r3.Mat{"zero value": func() *r3.Mat { return &r3.Mat{} }, "NewMat(nil)": func() *r3.Mat { return r3.NewMat(nil) }} {
			v := r3.Vec{X: 1, Y: 2, Z: 3}
			zero := r3.Vec{}
			if got := mk().MulVec(v); got != zero {
				fail("r3.Mat:zero:MulVec", fmt.Sprintf("%s: MulVec = %v", name, got))
			}
			if got := mk().MulVecTrans(v); got != zero {
				fail("r3.Mat:zero:MulVecTrans", fmt.Sprintf("%s: MulVecTrans = %v", name, got))
			}
			if got := mk().VecRow(1); got != zero {
				fail("r3.Mat:zero:VecRow", fmt.Sprintf("%s: VecRow = %v", name, got))
			}
			if got := mk().VecCol(2); got != zero {
				fail("r3.Mat:zero:VecCol", fmt.Sprintf("%s: VecCol = %v", name, got))
			}
			if got := mk().Det(); got != 0 {
				fail("r3.Mat:zero:Det", fmt.Sprintf("%s: Det = %v", name, got))
			}
			if got := mk().At(2, 1); got != 0 {
				fail("r3.Mat:zero:At", fmt.Sprintf("%s: At = %v", name, got))
			}
			if r, cc := mk().Dims(); r != 3 || cc != 3 {
				fail("r3.Mat:zero:Dims", fmt.Sprintf("%s: Dims = %d, %d", name, r, cc))
			}
			if got := mk().RawMatrix(); len(got.Data) != 9 || got.Data[4] != 0 {
				fail("r3.Mat:zero:RawMatrix", fmt.Sprintf("%s: RawMatrix = %+v", name, got))
			}
			if got := mk().T().At(1, 2); got != 0 {
				fail("r3.Mat:zero:T", fmt.Sprintf("%s: T().At = %v", name, got))
			}
			// as a receiver
			e := r3.Eye()
			m := mk()
			m.Scale(2, e)
			if m.At(1, 1) != 2 || m.At(0, 1) != 0 {
				fail("r3.Mat:zero:Scale", name+": Scale into it went wrong")
			}
			m = mk()
			m.Add(e, e)
			if m.At(2, 2) != 2 || m.At(2, 0) != 0 {
				fail("r3.Mat:zero:Add", name+": Add into it went wrong")
			}
			m = mk()
			m.Sub(e, mk())
			if m.At(0, 0) != 1 || m.At(1, 0) != 0 {
				fail("r3.Mat:zero:Sub", name+": Sub into it went wrong")
			}
			m = mk()
			m.Mul(e, e)
			if m.At(0, 0) != 1 || m.At(1, 0) != 0 {
				fail("r3.Mat:zero:Mul", name+": Mul into it went wrong")
			}
			m = mk()
			m.Set(1, 2, 7)
			if m.At(1, 2) != 7 {
				fail("r3.Mat:zero:Set", name+": Set lost")
			}
		}
		for _, n := range []int{0, 1, 8, 10} {
			if n == 0 {
				// a non-nil empty slice is not nil: documented "If val argument is nil"; length 0 is neither 9 nor nil
				if o := core.Call(func() { r3.NewMat([]float64{}) }); !o.Panicked || o.Runtime {
					fail("r3.NewMat:shape", "NewMat of an empty non-nil slice: "+o.Text)
				}
				continue
			}
			if o := core.Call(func() { r3.NewMat(make([]float64, n)) }); !o.Panicked || o.Runtime {
				fail("r3.NewMat:shape", fmt.Sprintf("NewMat of %d values did not panic with a shape error: %s", n, o.Text))
			}
		}
		for _, ij := range [][2]int{{3, 0}, {0, 3}, {-1, 0}, {0, -1}} {
			m := r3.Eye()
			if o := core.Call(func() { m.At(ij[0], ij[1]) }); !o.Panicked {
				fail("r3.Mat.At:bounds", fmt.Sprintf("At(%d,%d) did not panic", ij[0], ij[1]))
			}
			if o := core.Call(func() { m.Set(ij[0], ij[1], 1) }); !o.Panicked {
				fail("r3.Mat.Set:bounds", fmt.Sprintf("Set(%d,%d) did not panic", ij[0], ij[1]))
			}
		}
		sum.Nontrivial++
	case "shape":
		var ok bool
		_ = json.Unmarshal(c.Ok, &ok)
		a := mat.NewDense(c.R, c.Cc, nil)
		e := r3.Eye()
		calls := map[string]func(){
			"CloneFrom": func() { r3.NewMat(nil).CloneFrom(a) },
			"Scale":     func() { r3.NewMat(nil).Scale(2, a) },
			"Add":       func() { r3.NewMat(nil).Add(a, e) },
			"Add2":      func() { r3.NewMat(nil).Add(e, a) },
			"Sub":       func() { r3.NewMat(nil).Sub(a, e) },
			"Sub2":      func() { r3.NewMat(nil).Sub(e, a) },
		}
		for name, f := range calls {
			o := core.Call(f)
			switch {
			case ok && o.Panicked:
				fail("r3.Mat."+name+":shape", fmt.Sprintf("%s with a 3x3 operand panicked: %s", name, o.Text))
			case !ok && (!o.Panicked || o.Runtime):
				fail("r3.Mat."+name+":shape", fmt.Sprintf("%s with a %dx%d operand: expected a shape panic, got %q", name, c.R, c.Cc, o.Text))
			}
		}
		sum.Nontrivial++
	case "mulshape":
		var want string
		_ = json.Unmarshal(c.Ok, &want)
		a, bb := mat.NewDense(c.Ra, c.Ca, nil), mat.NewDense(c.Rb, c.Cb, nil)
		o := core.Call(func() { r3.NewMat(nil).Mul(a, bb) })
		switch {
		case want == "TRUE" && o.Panicked:
			fail("r3.Mat.Mul:shape", "3x3 by 3x3 panicked: "+o.Text)
		case want == "FALSE" && (!o.Panicked || o.Runtime):
			fail("r3.Mat.Mul:shape", fmt.Sprintf("(%dx%d)*(%dx%d): expected a shape panic, got %q", c.Ra, c.Ca, c.Rb, c.Cb, o.Text))
		case o.Runtime:
			fail("r3.Mat.Mul:shape", fmt.Sprintf("(%dx%d)*(%dx%d): runtime error %s", c.Ra, c.Ca, c.Rb, c.Cb, o.Text))
		}
		if want != "open" {
			sum.Nontrivial++
		}
	case "mulrect":
		var out [][]rat
		if err := json.Unmarshal(c.Out, &out); err != nil {
			return err
		}
		for _, mk := range []func() *r3.Mat{func() *r3.Mat { return &r3.Mat{} }, r3.Eye} {
			m := mk()
			o := core.Call(func() { m.Mul(denseOf(c.A), denseOf(c.B)) })
			if o.Panicked {
				if o.Runtime {
					fail("r3.Mat.Mul:rect", "runtime error: "+o.Text)
				}
				continue // the documented alternative: refuse an inner dimension other than 3
			}
			if got := matRows(m); !rowsIs(got, out, 0, ratOne) {
				fail("r3.Mat.Mul:rect", fmt.Sprintf("(3x%d)*(%dx3): %v * %v = %v, specification %v", c.K, c.K, c.A, c.B, got, out))
			}
		}
		sum.Nontrivial++
	case "rowcol":
		var ok bool
		_ = json.Unmarshal(c.Ok, &ok)
		m := r3matOf(c.M)
		var row, col r3.Vec
		o1 := core.Call(func() { row = m.VecRow(c.I) })
		o2 := core.Call(func() { col = m.VecCol(c.I) })
		if ok {
			if o1.Panicked || !vecIs(c3(row), c.Row, 0, ratOne) {
				fail("r3.Mat.VecRow", fmt.Sprintf("VecRow(%d) of %v = %v %s, specification %v", c.I, c.M, row, o1.Text, c.Row))
			}
			if o2.Panicked || !vecIs(c3(col), c.Col, 0, ratOne) {
				fail("r3.Mat.VecCol", fmt.Sprintf("VecCol(%d) of %v = %v %s, specification %v", c.I, c.M, col, o2.Text, c.Col))
			}
		} else {
			if !o1.Panicked || o1.Runtime {
				fail("r3.Mat.VecRow:bounds", fmt.Sprintf("VecRow(%d): expected an access panic, got %q", c.I, o1.Text))
			}
			if !o2.Panicked || o2.Runtime {
				fail("r3.Mat.VecCol:bounds", fmt.Sprintf("VecCol(%d): expected an access panic, got %q", c.I, o2.Text))
			}
		}
		sum.Nontrivial++
	default:
		return fmt.Errorf("unknown op %q", c.Op)
	}
	return nil
}

func mustRaw(parts []json.RawMessage) json.RawMessage {
	b, _ := json.Marshal(parts)
	return b
}
