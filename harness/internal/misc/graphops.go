package misc

// Replay of specs/misc/GraphOps.tla: graph.Copy / graph.CopyWeighted between every pair of
// concrete container kinds, graph.Complement (From, Edge, HasEdgeBetween and the iterator
// contract of the node iterator it returns) and the reversal of edge / line values. The
// expected node sets, edge sets, weights and panics are the ones TLC printed.

import (
	"encoding/json"
	"fmt"
	"math"
	"math/rand"
	"sort"

	"gonum.org/v1/gonum/graph"
	"gonum.org/v1/gonum/graph/iterator"
	"gonum.org/v1/gonum/graph/multi"
	"gonum.org/v1/gonum/graph/simple"
	"gonum.org/v1/gonum/verifharness/internal/core"
)

func init() {
	core.RegisterReplay("misc-graphops", replayGraphOps)
}

type goCase struct {
	K string `json:"k"`
	// copy
	Sdir  bool       `json:"sdir"`
	SV    []int64    `json:"sV"`
	SE    [][3]int64 `json:"sE"`
	Ddir  bool       `json:"ddir"`
	DV    []int64    `json:"dV"`
	DE    [][3]int64 `json:"dE"`
	Panic bool       `json:"panic"`
	// copy: expected; compl: the graph
	V json.RawMessage `json:"V"`
	E json.RawMessage `json:"E"`
	// compl
	Dir  bool               `json:"dir"`
	From map[string][]int64 `json:"from"`
	Edge [][2]int64         `json:"edge"`
	Heb  [][2]int64         `json:"heb"`
	// rev
	F   int64 `json:"f"`
	T   int64 `json:"t"`
	ID  int64 `json:"id"`
	W   int64 `json:"w"`
	Rf  int64 `json:"rf"`
	Rt  int64 `json:"rt"`
	Rid int64 `json:"rid"`
	Rw  int64 `json:"rw"`
}

const goAbsent = 9

// payload nodes: Complement promises to hand back the nodes stored in the original graph
type goNode struct {
	id   int64
	note string
}

func (n goNode) ID() int64 { return n.id }

func goReal(which int) func(int64) int64 {
	tabs := [][10]int64{
		{0, 1, 2, 3, 4, 5, 6, 7, 8, 9},
		{0, -7, 3, 1 << 40, -(1 << 40), 100, 6, 7, 8, math.MaxInt64},
		{0, math.MinInt64, math.MaxInt64, 0, -1, 1, 6, 7, 8, 77},
	}
	t := tabs[which%len(tabs)]
	return func(m int64) int64 { return t[m] }
}

// ordered wrappers: Nodes() and From() iterate in a fixed, seeded order
type goOrdDir struct {
	*simple.DirectedGraph
	nodes []graph.Node
}

func (g goOrdDir) Nodes() graph.Nodes {
	if len(g.nodes) == 0 {
		return graph.Empty
	}
	return iterator.NewOrderedNodes(g.nodes)
}

type goOrdUnd struct {
	*simple.UndirectedGraph
	nodes []graph.Node
}

func (g goOrdUnd) Nodes() graph.Nodes {
	if len(g.nodes) == 0 {
		return graph.Empty
	}
	return iterator.NewOrderedNodes(g.nodes)
}

var goDirKinds = []string{"simple.DirectedGraph", "simple.WeightedDirectedGraph", "multi.DirectedGraph", "ordered(simple.DirectedGraph)"}
var goUndKinds = []string{"simple.UndirectedGraph", "simple.WeightedUndirectedGraph", "multi.UndirectedGraph", "ordered(simple.UndirectedGraph)"}

// goBuild builds (nodes, weighted edges) in a container of the given kind.
func goBuild(kind string, nodes []int64, edges [][3]int64, real func(int64) int64, rng *rand.Rand) graph.Graph {
	ns := append([]int64(nil), nodes...)
	rng.Shuffle(len(ns), func(i, j int) { ns[i], ns[j] = ns[j], ns[i] })
	es := append([][3]int64(nil), edges...)
	rng.Shuffle(len(es), func(i, j int) { es[i], es[j] = es[j], es[i] })
	nd := func(m int64) graph.Node { return goNode{real(m), fmt.Sprint("stored-", m)} }
	switch kind {
	case "simple.DirectedGraph", "ordered(simple.DirectedGraph)":
		g := simple.NewDirectedGraph()
		var order []graph.Node
		for _, m := range ns {
			g.AddNode(nd(m))
			order = append(order, nd(m))
		}
		for _, e := range es {
			g.SetEdge(simple.Edge{F: nd(e[0]), T: nd(e[1])})
		}
		if kind[0] == 'o' {
			return goOrdDir{g, order}
		}
		return g
	case "simple.WeightedDirectedGraph":
		g := simple.NewWeightedDirectedGraph(0, math.Inf(1))
		for _, m := range ns {
			g.AddNode(nd(m))
		}
		for _, e := range es {
			g.SetWeightedEdge(simple.WeightedEdge{F: nd(e[0]), T: nd(e[1]), W: float64(e[2])})
		}
		return g
	case "multi.DirectedGraph":
		g := multi.NewDirectedGraph()
		for _, m := range ns {
			g.AddNode(nd(m))
		}
		for _, e := range es {
			for k := 0; k < 1+rng.Intn(2); k++ {
				g.SetLine(g.NewLine(nd(e[0]), nd(e[1])))
			}
		}
		return g
	case "simple.UndirectedGraph", "ordered(simple.UndirectedGraph)":
		g := simple.NewUndirectedGraph()
		var order []graph.Node
		for _, m := range ns {
			g.AddNode(nd(m))
			order = append(order, nd(m))
		}
		for _, e := range es {
			k := rng.Intn(2)
			g.SetEdge(simple.Edge{F: nd(e[k]), T: nd(e[1-k])})
		}
		if kind[0] == 'o' {
			return goOrdUnd{g, order}
		}
		return g
	case "simple.WeightedUndirectedGraph":
		g := simple.NewWeightedUndirectedGraph(0, math.Inf(1))
		for _, m := range ns {
			g.AddNode(nd(m))
		}
		for _, e := range es {
			k := rng.Intn(2)
			g.SetWeightedEdge(simple.WeightedEdge{F: nd(e[k]), T: nd(e[1-k]), W: float64(e[2])})
		}
		return g
	case "multi.UndirectedGraph":
		g := multi.NewUndirectedGraph()
		for _, m := range ns {
			g.AddNode(nd(m))
		}
		for _, e := range es {
			for k := 0; k < 1+rng.Intn(2); k++ {
				g.SetLine(g.NewLine(nd(e[k%2]), nd(e[1-k%2])))
			}
		}
		return g
	}
	panic("harness: unknown kind " + kind)
}

type goView struct {
	nodes []int64
	arcs  map[[2]int64]float64 // as shown by From; weight NaN when the container has none
}

// goObserve reads a graph back through its public API (model ids).
func goObserve(g graph.Graph, model map[int64]int64) (goView, string) {
	v := goView{arcs: map[[2]int64]float64{}}
	it := g.Nodes()
	for it.Next() {
		m, ok := model[it.Node().ID()]
		if !ok {
			return v, fmt.Sprintf("node with unknown id %d", it.Node().ID())
		}
		v.nodes = append(v.nodes, m)
	}
	sort.Slice(v.nodes, func(i, j int) bool { return v.nodes[i] < v.nodes[j] })
	wg, weighted := g.(graph.Weighted)
	for _, u := range v.nodes {
		var uid int64
		for r, m := range model {
			if m == u {
				uid = r
			}
		}
		to := g.From(uid)
		for to.Next() {
			m, ok := model[to.Node().ID()]
			if !ok {
				return v, fmt.Sprintf("From(%d) yields unknown id %d", u, to.Node().ID())
			}
			w := math.NaN()
			if weighted {
				w, _ = wg.Weight(uid, to.Node().ID())
			}
			if _, dup := v.arcs[[2]int64{u, m}]; dup {
				return v, fmt.Sprintf("From(%d) yields %d twice", u, m)
			}
			v.arcs[[2]int64{u, m}] = w
			if g.Edge(uid, to.Node().ID()) == nil {
				return v, fmt.Sprintf("Edge(%d,%d) is nil although From(%d) yields %d", u, m, u, m)
			}
		}
	}
	return v, ""
}

func goSameView(a, b goView) bool {
	if len(a.nodes) != len(b.nodes) || len(a.arcs) != len(b.arcs) {
		return false
	}
	for i := range a.nodes {
		if a.nodes[i] != b.nodes[i] {
			return false
		}
	}
	for k, w := range a.arcs {
		x, ok := b.arcs[k]
		if !ok || (w != x && !(math.IsNaN(w) && math.IsNaN(x))) {
			return false
		}
	}
	return true
}

func goCopy(c *goCase, seed int64, n int, sum *core.Summary, fail func(sig, msg string)) {
	var wantV []int64
	var wantE [][3]int64
	if err := json.Unmarshal(c.V, &wantV); err != nil {
		fail("harness", err.Error())
		return
	}
	if err := json.Unmarshal(c.E, &wantE); err != nil {
		fail("harness", err.Error())
		return
	}
	rng := rand.New(rand.NewSource(seed*31 + int64(n)))
	real := goReal(int(seed) + n)
	model := map[int64]int64{}
	for m := int64(1); m <= 9; m++ {
		model[real(m)] = m
	}
	skinds, dkinds := goUndKinds, []string{"simple.UndirectedGraph", "simple.WeightedUndirectedGraph"}
	if c.Sdir {
		skinds = goDirKinds
	}
	if c.Ddir {
		dkinds = []string{"simple.DirectedGraph", "simple.WeightedDirectedGraph"}
	}
	for _, sk := range skinds {
		for _, dk := range dkinds {
			src := goBuild(sk, c.SV, c.SE, real, rng)
			dst := goBuild(dk, c.DV, c.DE, real, rng)
			before, problem := goObserve(src, model)
			if problem != "" {
				fail("harness:src", problem)
				continue
			}
			name := "Copy"
			var call func()
			wb, dstW := dst.(graph.WeightedBuilder)
			ws, srcW := src.(graph.Weighted)
			switch {
			case dstW && srcW:
				name = "CopyWeighted"
				call = func() { graph.CopyWeighted(wb, ws) }
			case dstW:
				continue // an unweighted source cannot be copied into a weighted builder
			default:
				b := dst.(graph.Builder)
				call = func() { graph.Copy(b, src) }
			}
			sum.Count(name+" "+sk+" -> "+dk, 1)
			where := fmt.Sprintf("%s(%s <- %s)", name, dk, sk)
			o := core.Call(call)
			after, problem := goObserve(src, model)
			if problem != "" || !goSameView(before, after) {
				fail("misc-graphops:"+name+":source-changed", where+": the source graph changed "+problem)
			}
			if c.Panic {
				if !o.Panicked {
					fail("misc-graphops:"+name+":no-panic", where+": a node id of the source is already in the destination, the documentation promises a panic")
				}
				continue
			}
			if o.Panicked {
				fail("misc-graphops:"+name+":panic", where+": "+o.Text)
				continue
			}
			got, problem := goObserve(dst, model)
			if problem != "" {
				fail("misc-graphops:"+name+":result", where+": "+problem)
				continue
			}
			want := goView{nodes: append([]int64{}, wantV...), arcs: map[[2]int64]float64{}}
			sort.Slice(want.nodes, func(i, j int) bool { return want.nodes[i] < want.nodes[j] })
			for _, e := range wantE {
				w := math.NaN()
				if name == "CopyWeighted" {
					w = float64(e[2])
				} else if _, ok := dst.(graph.Weighted); ok {
					w = float64(e[2])
				}
				want.arcs[[2]int64{e[0], e[1]}] = w
				if !c.Ddir {
					want.arcs[[2]int64{e[1], e[0]}] = w
				}
			}
			if !goSameView(got, want) {
				fail("misc-graphops:"+name+":result", fmt.Sprintf("%s: destination has nodes %v arcs %v, specification nodes %v arcs %v", where, got.nodes, got.arcs, want.nodes, want.arcs))
			}
		}
	}
}

func goCompl(c *goCase, seed int64, n int, sum *core.Summary, fail func(sig, msg string)) {
	var V []int64
	var E [][2]int64
	if err := json.Unmarshal(c.V, &V); err != nil {
		fail("harness", err.Error())
		return
	}
	if err := json.Unmarshal(c.E, &E); err != nil {
		fail("harness", err.Error())
		return
	}
	es := make([][3]int64, len(E))
	for i, e := range E {
		es[i] = [3]int64{e[0], e[1], 1}
	}
	rng := rand.New(rand.NewSource(seed*37 + int64(n)))
	real := goReal(int(seed) + n)
	kinds := goUndKinds
	if c.Dir {
		kinds = goDirKinds
	}
	wantEdge, wantHeb := map[[2]int64]bool{}, map[[2]int64]bool{}
	for _, e := range c.Edge {
		wantEdge[e] = true
	}
	for _, e := range c.Heb {
		wantHeb[e] = true
	}
	Q := append(append([]int64{}, V...), goAbsent)
	for _, kind := range kinds {
		g := goBuild(kind, V, es, real, rng)
		comp := graph.Complement{Graph: g}
		sum.Count("Complement of "+kind, 1)
		for _, u := range Q {
			want := map[int64]bool{}
			for _, x := range c.From[fmt.Sprint(u)] {
				want[x] = true
			}
			o := core.Call(func() {
				it := comp.From(real(u))
				if it == nil {
					fail("misc-graphops:Complement:From-nil", fmt.Sprintf("%s: From(%d) returned nil", kind, u))
					return
				}
				for pass := 0; pass < 2; pass++ {
					got := map[int64]bool{}
					k := 0
					for {
						if l := it.Len(); l >= 0 && l != len(want)-k {
							phase := "initial"
							if k > 0 {
								phase = "after-Next"
							}
							fail("misc-graphops:Complement:From-Len:"+phase, fmt.Sprintf("%s, edges %v: iterator of Complement.From(%d): Len() = %d after %d calls of Next, %d items remain (a negative Len would mean unknown)", kind, E, u, l, k, len(want)-k))
						}
						if !it.Next() {
							break
						}
						k++
						nd := it.Node()
						if nd == nil {
							fail("misc-graphops:Complement:From", fmt.Sprintf("%s: From(%d): Node() is nil after Next() = true", kind, u))
							break
						}
						if stored := g.Node(nd.ID()); stored != nd {
							fail("misc-graphops:Complement:node-identity", fmt.Sprintf("%s: From(%d) yields %v, the graph stores %v", kind, u, nd, stored))
						}
						m := int64(-1)
						for _, x := range Q {
							if real(x) == nd.ID() {
								m = x
							}
						}
						if got[m] {
							fail("misc-graphops:Complement:From", fmt.Sprintf("%s: From(%d) yields %d twice", kind, u, m))
						}
						got[m] = true
						if k > 20 {
							fail("misc-graphops:Complement:From", fmt.Sprintf("%s: From(%d) does not end", kind, u))
							break
						}
					}
					if fmt.Sprint(sortedKeys(got)) != fmt.Sprint(sortedKeys(want)) {
						fail("misc-graphops:Complement:From", fmt.Sprintf("%s, edges %v: Complement.From(%d) = %v (pass %d), specification %v", kind, E, u, sortedKeys(got), pass+1, sortedKeys(want)))
					}
					it.Reset()
				}
				if got := len(graph.NodesOf(comp.From(real(u)))); got != len(want) {
					fail("misc-graphops:Complement:NodesOf", fmt.Sprintf("%s: NodesOf(From(%d)) has %d nodes, specification %d", kind, u, got, len(want)))
				}
			})
			if o.Panicked {
				fail("misc-graphops:Complement:From:panic", fmt.Sprintf("%s: From(%d): %s", kind, u, o.Text))
			}
			for _, v := range Q {
				key := [2]int64{u, v}
				o := core.Call(func() {
					e := comp.Edge(real(u), real(v))
					if (e != nil) != wantEdge[key] {
						fail("misc-graphops:Complement:Edge", fmt.Sprintf("%s, edges %v: Complement.Edge(%d,%d) non-nil = %v, specification %v", kind, E, u, v, e != nil, wantEdge[key]))
					}
					if e != nil {
						if e.From() != g.Node(real(u)) || e.To() != g.Node(real(v)) {
							fail("misc-graphops:Complement:node-identity", fmt.Sprintf("%s: Complement.Edge(%d,%d) has ends %v -> %v, the graph stores %v, %v", kind, u, v, e.From(), e.To(), g.Node(real(u)), g.Node(real(v))))
						}
						if r := e.ReversedEdge(); r == nil || r.From() != e.To() || r.To() != e.From() {
							fail("misc-graphops:Complement:ReversedEdge", fmt.Sprintf("%s: reversal of Complement.Edge(%d,%d) is %v", kind, u, v, r))
						}
					}
					if got := comp.HasEdgeBetween(real(u), real(v)); got != wantHeb[key] {
						fail("misc-graphops:Complement:HasEdgeBetween:"+map[bool]string{true: "directed", false: "undirected"}[c.Dir], fmt.Sprintf("%s, edges %v: Complement.HasEdgeBetween(%d,%d) = %v, specification %v (Edge(%d,%d) non-nil: %v, Edge(%d,%d) non-nil: %v)",
							kind, E, u, v, got, wantHeb[key], u, v, comp.Edge(real(u), real(v)) != nil, v, u, comp.Edge(real(v), real(u)) != nil))
					}
				})
				if o.Panicked {
					fail("misc-graphops:Complement:panic", fmt.Sprintf("%s: Edge / HasEdgeBetween(%d,%d): %s", kind, u, v, o.Text))
				}
			}
		}
	}
}

func sortedKeys(m map[int64]bool) []int64 {
	s := []int64{}
	for k := range m {
		s = append(s, k)
	}
	sort.Slice(s, func(i, j int) bool { return s[i] < s[j] })
	return s
}

func goRev(c *goCase, fail func(sig, msg string)) {
	f, t := goNode{c.F, "from"}, goNode{c.T, "to"}
	rf, rt := graph.Node(t), graph.Node(f) // the reversal has the same node VALUES, swapped
	if c.Rf != c.T || c.Rt != c.F || c.Rid != c.ID || c.Rw != c.W {
		fail("harness", "unexpected reversal case")
		return
	}
	edge := func(name string, e graph.Edge) {
		r := e.ReversedEdge()
		if r == nil || r.From() != rf || r.To() != rt {
			fail("misc-graphops:rev:"+name, fmt.Sprintf("%s{%d->%d}.ReversedEdge() = %v", name, c.F, c.T, r))
			return
		}
		if w, ok := e.(graph.WeightedEdge); ok {
			rw, ok := r.(graph.WeightedEdge)
			if !ok || rw.Weight() != w.Weight() || rw.Weight() != float64(c.Rw) {
				fail("misc-graphops:rev:"+name+":weight", fmt.Sprintf("%s: weight of the reversal %v, specification %d", name, r, c.Rw))
			}
		}
		if e.From() != graph.Node(f) || e.To() != graph.Node(t) {
			fail("misc-graphops:rev:"+name+":receiver", name+": ReversedEdge changed its receiver")
		}
	}
	line := func(name string, l graph.Line) {
		r := l.ReversedLine()
		if r == nil || r.From() != rf || r.To() != rt || r.ID() != c.Rid {
			fail("misc-graphops:rev:"+name, fmt.Sprintf("%s{%d->%d id %d}.ReversedLine() = %v", name, c.F, c.T, c.ID, r))
			return
		}
		if w, ok := l.(graph.WeightedLine); ok {
			rw, ok := r.(graph.WeightedLine)
			if !ok || rw.Weight() != w.Weight() || rw.Weight() != float64(c.Rw) {
				fail("misc-graphops:rev:"+name+":weight", fmt.Sprintf("%s: weight of the reversal %v, specification %d", name, r, c.Rw))
			}
		}
		if l.From() != graph.Node(f) || l.To() != graph.Node(t) || l.ID() != c.ID {
			fail("misc-graphops:rev:"+name+":receiver", name+": ReversedLine changed its receiver")
		}
	}
	w := float64(c.W)
	edge("simple.Edge", simple.Edge{F: f, T: t})
	edge("simple.WeightedEdge", simple.WeightedEdge{F: f, T: t, W: w})
	edge("multi.Edge", multi.Edge{F: f, T: t})
	edge("multi.WeightedEdge", multi.WeightedEdge{F: f, T: t, WeightFunc: func(graph.WeightedLines) float64 { return w }})
	edge("graph.EdgePair", graph.EdgePair{simple.Edge{F: f, T: t}, nil})
	edge("graph.EdgePair/both", graph.EdgePair{simple.Edge{F: f, T: t}, simple.Edge{F: t, T: f}})
	edge("graph.WeightedEdgePair", graph.WeightedEdgePair{EdgePair: graph.EdgePair{nil, simple.Edge{F: f, T: t}}, W: w})
	line("multi.Line", multi.Line{F: f, T: t, UID: c.ID})
	line("multi.WeightedLine", multi.WeightedLine{F: f, T: t, W: w, UID: c.ID})
}

func replayGraphOps(in *core.Lines, args []string, seed int64, sum *core.Summary) error {
	for {
		b, ok := in.Next()
		if !ok {
			break
		}
		var c goCase
		if err := json.Unmarshal(b, &c); err != nil {
			return fmt.Errorf("line %d: %v", in.N, err)
		}
		caseObj := json.RawMessage(append([]byte(nil), b...))
		sum.Cases++
		if sum.Cases%300 == 5 {
			sum.Sample(caseObj)
		}
		fail := func(sig, msg string) { sum.Fail(sig, msg, caseObj) }
		switch c.K {
		case "copy":
			if len(c.SE)+len(c.DE) > 0 || c.Panic {
				sum.Nontrivial++
			}
			goCopy(&c, seed, sum.Cases, sum, fail)
		case "compl":
			sum.Nontrivial++
			goCompl(&c, seed, sum.Cases, sum, fail)
		case "rev":
			sum.Nontrivial++
			goRev(&c, fail)
		default:
			return fmt.Errorf("line %d: unknown kind %q", in.N, c.K)
		}
	}
	return nil
}
