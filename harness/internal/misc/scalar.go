package misc

import (
	"encoding/json"
	"fmt"
	"math"
	"math/big"

	"gonum.org/v1/gonum/floats/scalar"
	"gonum.org/v1/gonum/verifharness/internal/core"
)

func init() {
	core.RegisterReplay("scalar", replayScalar)
}

// ---- decoding of the specification's values ---------------------------------------------------

// limbs are little-endian 21-bit limbs of a natural below 2^64
func u64(l []uint64) uint64 { return l[0] | l[1]<<21 | l[2]<<42 | l[3]<<63 }

type sfFloat struct {
	NaN bool     `json:"nan"`
	S   uint64   `json:"s"`
	M   []uint64 `json:"m"`
}

// float64 with the given sign and magnitude bit pattern (a lattice point, or a quiet NaN pattern)
func (f sfFloat) val() float64 { return math.Float64frombits(f.S<<63 | u64(f.M)) }

type sfOperand struct {
	T string `json:"t"`
	V int64  `json:"v"`
}

func (o sfOperand) val() float64 {
	switch o.T {
	case "nan":
		return math.NaN()
	case "+inf":
		return math.Inf(1)
	case "-inf":
		return math.Inf(-1)
	}
	return float64(o.V) / 4
}

type sfRat struct {
	Num int64 `json:"num"`
	Den int64 `json:"den"`
	J   uint  `json:"j"`
}

type sfCase struct {
	K string `json:"k"`
	// ulp
	A    json.RawMessage `json:"a"`
	B    json.RawMessage `json:"b"`
	U    []uint64        `json:"u"`
	Eq   bool            `json:"eq"`
	Open bool            `json:"open"`
	Same bool            `json:"same"`
	// nan
	P    json.RawMessage `json:"p"`
	Bits []uint64        `json:"bits"`
	Back []uint64        `json:"back"`
	S    json.RawMessage `json:"s"`
	M    []uint64        `json:"m"`
	Ok   bool            `json:"ok"`
	// round
	X    json.RawMessage `json:"x"`
	Prec int             `json:"prec"`
	Even bool            `json:"even"`
	R    json.RawMessage `json:"r"`
	// eq
	Ta      int64 `json:"ta"`
	Tr      int64 `json:"tr"`
	Abs     bool  `json:"abs"`
	Rel     bool  `json:"rel"`
	RelOpen bool  `json:"relopen"`
	// parse
	Missing string `json:"missing"`
}

func replayScalar(in *core.Lines, args []string, seed int64, sum *core.Summary) error {
	for {
		b, ok := in.Next()
		if !ok {
			break
		}
		var c sfCase
		if err := json.Unmarshal(b, &c); err != nil {
			return fmt.Errorf("line %d: %v", in.N, err)
		}
		caseObj := json.RawMessage(append([]byte(nil), b...))
		sum.Cases++
		if sum.Cases%3000 == 7 {
			sum.Sample(caseObj)
		}
		var err error
		o := core.Call(func() { err = scalarCase(&c, caseObj, sum) })
		if err != nil {
			return fmt.Errorf("line %d: %v", in.N, err)
		}
		if o.Panicked {
			sum.Fail("scalar:"+c.K+":panic", o.Text, caseObj)
		}
	}
	return nil
}

func scalarCase(c *sfCase, caseObj any, sum *core.Summary) error {
	fail := func(sig, msg string) { sum.Fail(sig, msg, caseObj) }
	switch c.K {
	case "ulp":
		var fa, fb sfFloat
		if err := json.Unmarshal(c.A, &fa); err != nil {
			return err
		}
		if err := json.Unmarshal(c.B, &fb); err != nil {
			return err
		}
		a, b, u := fa.val(), fb.val(), u64(c.U)
		if fa.NaN != math.IsNaN(a) || fb.NaN != math.IsNaN(b) {
			return fmt.Errorf("binding: NaN flag and bit pattern disagree")
		}
		if !c.Open {
			sum.Nontrivial++
			if got := scalar.EqualWithinULP(a, b, uint(u)); got != c.Eq {
				fail("scalar:EqualWithinULP", fmt.Sprintf("EqualWithinULP(%v [%#x], %v [%#x], %d) = %v, specification %v", a, math.Float64bits(a), b, math.Float64bits(b), u, got, c.Eq))
			}
		} else {
			sum.Count("open_not_compared", 1)
			scalar.EqualWithinULP(a, b, uint(u))
		}
		if got := scalar.Same(a, b); got != c.Same {
			fail("scalar:Same", fmt.Sprintf("Same(%v [%#x], %v [%#x]) = %v, specification %v", a, math.Float64bits(a), b, math.Float64bits(b), got, c.Same))
		}
	case "nanwith":
		var p []uint64
		if err := json.Unmarshal(c.P, &p); err != nil {
			return err
		}
		sum.Nontrivial++
		f := scalar.NaNWith(u64(p))
		if got := math.Float64bits(f); got != u64(c.Bits) {
			fail("scalar:NaNWith:bits", fmt.Sprintf("NaNWith(%#x) has bits %#x, specification %#x", u64(p), got, u64(c.Bits)))
		}
		if !math.IsNaN(f) {
			fail("scalar:NaNWith:not-nan", fmt.Sprintf("NaNWith(%#x) = %v", u64(p), f))
		}
		if got, ok := scalar.NaNPayload(f); !ok || got != u64(c.Back) {
			fail("scalar:NaNPayload:roundtrip", fmt.Sprintf("NaNPayload(NaNWith(%#x)) = %#x, %v; specification %#x, true", u64(p), got, ok, u64(c.Back)))
		}
		if u64(p) == 1 { // "The NaN returned by math.NaN has a bit pattern equal to NaNWith(1)"
			if math.Float64bits(math.NaN()) != math.Float64bits(f) {
				fail("scalar:NaNWith:math.NaN", "NaNWith(1) differs from math.NaN()")
			}
		}
	case "payload":
		var s uint64
		var p []uint64
		if err := json.Unmarshal(c.S, &s); err != nil {
			return err
		}
		if err := json.Unmarshal(c.P, &p); err != nil {
			return err
		}
		sum.Nontrivial++
		f := math.Float64frombits(s<<63 | u64(c.M))
		if got, ok := scalar.NaNPayload(f); ok != c.Ok || got != u64(p) {
			fail("scalar:NaNPayload", fmt.Sprintf("NaNPayload(bits %#x) = %#x, %v; specification %#x, %v", math.Float64bits(f), got, ok, u64(p), c.Ok))
		}
	case "round", "roundhuge", "roundtiny":
		var x, r sfRat
		if err := json.Unmarshal(c.X, &x); err != nil {
			return err
		}
		xv := float64(x.Num) / float64(uint64(1)<<x.J) // exact: a small integer over a power of two
		prec := c.Prec
		var want float64
		switch c.K {
		case "round":
			if err := json.Unmarshal(c.R, &r); err != nil {
				return err
			}
			// the float64 nearest to the specification's rational (correctly rounded decoding)
			want, _ = new(big.Rat).SetFrac64(r.Num, r.Den).Float64()
		case "roundhuge":
			want = xv
		case "roundtiny":
			prec, want = -prec, 0
		}
		var got float64
		name := "Round"
		if c.Even {
			name = "RoundEven"
			got = scalar.RoundEven(xv, prec)
		} else {
			got = scalar.Round(xv, prec)
		}
		sum.Nontrivial++
		if got != want { // == : the sign of a zero result of a non-zero x is not documented
			fail("scalar:"+name, fmt.Sprintf("%s(%v, %d) = %v, specification %v", name, xv, prec, got, want))
		}
	case "roundspecial":
		var xs string
		if err := json.Unmarshal(c.X, &xs); err != nil {
			return err
		}
		xv := map[string]float64{"+0": 0, "-0": math.Copysign(0, -1), "+Inf": math.Inf(1), "-Inf": math.Inf(-1), "NaN": math.NaN()}[xs]
		got := scalar.Round(xv, c.Prec)
		name := "Round"
		if c.Even {
			name = "RoundEven"
			got = scalar.RoundEven(xv, c.Prec)
		}
		sum.Nontrivial++
		ok := false
		switch xs {
		case "+0", "-0": // Round(±0) = +0
			ok = got == 0 && !math.Signbit(got)
		case "+Inf", "-Inf":
			ok = got == xv
		case "NaN":
			ok = math.IsNaN(got)
		}
		if !ok {
			fail("scalar:"+name+":special", fmt.Sprintf("%s(%s, %d) = %v (signbit %v)", name, xs, c.Prec, got, math.Signbit(got)))
		}
	case "eq":
		var oa, ob sfOperand
		if err := json.Unmarshal(c.A, &oa); err != nil {
			return err
		}
		if err := json.Unmarshal(c.B, &ob); err != nil {
			return err
		}
		a, b, ta, tr := oa.val(), ob.val(), float64(c.Ta)/4, float64(c.Tr)/4
		sum.Nontrivial++
		if got := scalar.EqualWithinAbs(a, b, ta); got != c.Abs {
			fail("scalar:EqualWithinAbs", fmt.Sprintf("EqualWithinAbs(%v, %v, %v) = %v, specification %v", a, b, ta, got, c.Abs))
		}
		gotRel, gotBoth := scalar.EqualWithinRel(a, b, tr), scalar.EqualWithinAbsOrRel(a, b, ta, tr)
		if !c.RelOpen {
			if gotRel != c.Rel {
				fail("scalar:EqualWithinRel", fmt.Sprintf("EqualWithinRel(%v, %v, %v) = %v, specification %v", a, b, tr, gotRel, c.Rel))
			}
			if gotBoth != (c.Abs || c.Rel) {
				fail("scalar:EqualWithinAbsOrRel", fmt.Sprintf("EqualWithinAbsOrRel(%v, %v, %v, %v) = %v, specification %v", a, b, ta, tr, gotBoth, c.Abs || c.Rel))
			}
		} else {
			sum.Count("open_not_compared", 1)
			if c.Abs && !gotBoth {
				fail("scalar:EqualWithinAbsOrRel", fmt.Sprintf("EqualWithinAbsOrRel(%v, %v, %v, %v) = false although within the absolute tolerance", a, b, ta, tr))
			}
		}
	case "parse":
		var s string
		var r struct {
			N   int64 `json:"n"`
			D   int64 `json:"d"`
			Err bool  `json:"err"`
			W   int64 `json:"w"`
		}
		if err := json.Unmarshal(c.S, &s); err != nil {
			return err
		}
		if err := json.Unmarshal(c.R, &r); err != nil {
			return err
		}
		sum.Nontrivial++
		v, w, err := scalar.ParseWithNA(s, c.Missing)
		if (err != nil) != r.Err {
			fail("scalar:ParseWithNA:err", fmt.Sprintf("ParseWithNA(%q, %q) error %v, specification error=%v", s, c.Missing, err, r.Err))
		} else if !r.Err && (w != float64(r.W) || v != float64(r.N)/float64(r.D)) { // value and weight of a failed parse are not documented
			fail("scalar:ParseWithNA", fmt.Sprintf("ParseWithNA(%q, %q) = %v, %v; specification %d/%d, %d", s, c.Missing, v, w, r.N, r.D, r.W))
		}
	default:
		return fmt.Errorf("unknown kind %q", c.K)
	}
	return nil
}
