//go:build x02shim

package misc

// Replay of specs/misc/Linear.tla into gonum's graph/internal/linear (NodeStack, NodeQueue;
// reached through the overlay package graph/verifx02). One case = one history; the answer of
// every operation and Len after it are compared with what TLC printed.

import (
	"encoding/json"
	"fmt"

	"gonum.org/v1/gonum/graph"
	"gonum.org/v1/gonum/graph/multi"
	"gonum.org/v1/gonum/graph/simple"
	gi "gonum.org/v1/gonum/graph/verifx02"
	"gonum.org/v1/gonum/verifharness/internal/core"
)

func init() {
	core.RegisterReplay("misc-linear", replayLinear)
}

type linStep struct {
	Op  string `json:"op"`
	V   int64  `json:"v"`
	Res int64  `json:"res"`
	Len int    `json:"len"`
}
type linCase struct {
	Kind string    `json:"kind"`
	H    []linStep `json:"h"`
}

var linIDs = []int64{-3, -1, 0, 2, 5, 7, 11, 100, 1 << 20, 1 << 40, -(1 << 40), 1 << 62,
	9223372036854775807, -9223372036854775808, 9223372036854775806, -9223372036854775807, 42, -77, 1 << 33}

func replayLinear(in *core.Lines, args []string, seed int64, sum *core.Summary) error {
	for {
		b, ok := in.Next()
		if !ok {
			break
		}
		var c linCase
		if err := json.Unmarshal(b, &c); err != nil {
			return fmt.Errorf("line %d: %v", in.N, err)
		}
		caseObj := json.RawMessage(append([]byte(nil), b...))
		sum.Cases++
		if sum.Cases%2000 == 17 {
			sum.Sample(caseObj)
		}
		off := int(seed) + sum.Cases
		node := func(v int64) graph.Node {
			id := linIDs[(int(v)+off)%len(linIDs)]
			if v%2 == 0 {
				return multi.Node(id)
			}
			return simple.Node(id)
		}
		var st gi.NodeStack
		var qu gi.NodeQueue
		length := func() int {
			if c.Kind == "stack" {
				return st.Len()
			}
			return qu.Len()
		}
		fail := func(what, msg string) { sum.Fail("misc-linear:"+c.Kind+":"+what, msg, caseObj) }
		if n := length(); n != 0 {
			fail("Len", fmt.Sprintf("Len() of the zero value = %d", n))
			continue
		}
		removed := false
		for i, s := range c.H {
			var got graph.Node
			o := core.Call(func() {
				switch s.Op {
				case "push":
					st.Push(node(s.V))
				case "enq":
					qu.Enqueue(node(s.V))
				case "pop":
					got = st.Pop()
				case "deq":
					got = qu.Dequeue()
				case "reset":
					qu.Reset()
				default:
					panic("harness: unknown operation " + s.Op)
				}
			})
			where := fmt.Sprintf("step %d (%s)", i+1, s.Op)
			switch {
			case s.Res == -1 && !o.Panicked:
				fail(s.Op+":no-panic", fmt.Sprintf("%s on an empty container returned %v, the source's behaviour is a panic", where, got))
			case s.Res != -1 && o.Panicked:
				fail(s.Op+":panic", where+": "+o.Text)
			case s.Res > 0:
				removed = true
				want := node(s.Res)
				if got == nil || got != want {
					fail(s.Op+":value", fmt.Sprintf("%s returned %v, specification: the node inserted %d-th (%v)", where, got, s.Res, want))
				}
			}
			if n := length(); n != s.Len {
				fail(s.Op+":Len", fmt.Sprintf("%s: Len() = %d afterwards, specification %d", where, n, s.Len))
				break
			}
		}
		if removed {
			sum.Nontrivial++
		}
	}
	return nil
}
