package misc

import (
	"encoding/json"
	"fmt"

	"gonum.org/v1/gonum/graph"
	"gonum.org/v1/gonum/graph/multi"
	"gonum.org/v1/gonum/graph/simple"
	"gonum.org/v1/gonum/internal/order"
	"gonum.org/v1/gonum/verifharness/internal/core"
)

func init() {
	core.RegisterReplay("orderx", replayOrderX)
}

type oxCase struct {
	K   string    `json:"k"`
	In  [][]int64 `json:"in"`
	Out [][]int64 `json:"out"`
}

func eq2(a, b [][]int64) bool {
	if len(a) != len(b) {
		return false
	}
	for i := range a {
		if len(a[i]) != len(b[i]) {
			return false
		}
		for j := range a[i] {
			if a[i][j] != b[i][j] {
				return false
			}
		}
	}
	return true
}

func replayOrderX(in *core.Lines, args []string, seed int64, sum *core.Summary) error {
	for {
		b, ok := in.Next()
		if !ok {
			break
		}
		var c oxCase
		if err := json.Unmarshal(b, &c); err != nil {
			return fmt.Errorf("line %d: %v", in.N, err)
		}
		caseObj := json.RawMessage(append([]byte(nil), b...))
		sum.Cases++
		if !eq2(c.In, c.Out) {
			sum.Nontrivial++ // the input is not already sorted
		}
		if sum.Cases%1500 == 11 {
			sum.Sample(caseObj)
		}
		fail := func(sig, msg string) { sum.Fail(sig, msg, caseObj) }
		var err error
		o := core.Call(func() {
			switch c.K {
			case "values":
				// BySliceValues on two element types, BySliceIDs on node slices
				vi := make([][]int, len(c.In))
				vf := make([][]float64, len(c.In))
				vn := make([][]graph.Node, len(c.In))
				for i, s := range c.In {
					vi[i], vf[i], vn[i] = make([]int, len(s)), make([]float64, len(s)), make([]graph.Node, len(s))
					for j, x := range s {
						vi[i][j], vf[i][j], vn[i][j] = int(x), float64(x), simple.Node(x)
					}
				}
				order.BySliceValues(vi)
				order.BySliceValues(vf)
				order.BySliceIDs(vn)
				gi, gf, gn := make([][]int64, len(vi)), make([][]int64, len(vi)), make([][]int64, len(vi))
				for i := range vi {
					gi[i], gf[i], gn[i] = make([]int64, len(vi[i])), make([]int64, len(vf[i])), make([]int64, len(vn[i]))
					for j := range vi[i] {
						gi[i][j] = int64(vi[i][j])
					}
					for j := range vf[i] {
						gf[i][j] = int64(vf[i][j])
					}
					for j := range vn[i] {
						gn[i][j] = vn[i][j].ID()
					}
				}
				if !eq2(gi, c.Out) {
					fail("orderx:BySliceValues:int", fmt.Sprintf("BySliceValues(%v) = %v, specification %v", c.In, gi, c.Out))
				}
				if !eq2(gf, c.Out) {
					fail("orderx:BySliceValues:float64", fmt.Sprintf("BySliceValues(%v) = %v, specification %v", c.In, gf, c.Out))
				}
				if !eq2(gn, c.Out) {
					fail("orderx:BySliceIDs", fmt.Sprintf("BySliceIDs(%v) = %v, specification %v", c.In, gn, c.Out))
				}
			case "ids":
				ns := make([]graph.Node, len(c.In))
				for i, s := range c.In {
					ns[i] = simple.Node(s[0])
				}
				order.ByID(ns)
				got := make([][]int64, len(ns))
				for i, n := range ns {
					got[i] = []int64{n.ID()}
				}
				if !eq2(got, c.Out) {
					fail("orderx:ByID", fmt.Sprintf("ByID(%v) = %v, specification %v", c.In, got, c.Out))
				}
			case "lines":
				ls := make([]graph.Line, len(c.In))
				for i, s := range c.In {
					ls[i] = multi.Line{F: simple.Node(s[0]), T: simple.Node(s[1]), UID: s[2]}
				}
				order.LinesByIDs(ls)
				got := make([][]int64, len(ls))
				for i, l := range ls {
					got[i] = []int64{l.From().ID(), l.To().ID(), l.ID()}
				}
				if !eq2(got, c.Out) {
					fail("orderx:LinesByIDs", fmt.Sprintf("LinesByIDs(%v) = %v, specification %v", c.In, got, c.Out))
				}
			default:
				err = fmt.Errorf("unknown kind %q", c.K)
			}
		})
		if err != nil {
			return fmt.Errorf("line %d: %v", in.N, err)
		}
		if o.Panicked {
			fail("orderx:"+c.K+":panic", o.Text)
		}
	}
	return nil
}
