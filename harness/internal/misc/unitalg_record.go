package misc

import (
	"fmt"
	"math/rand"

	"gonum.org/v1/gonum/unit"
	"gonum.org/v1/gonum/verifharness/internal/core"
)

func init() {
	core.RegisterRecord("unitalg", recordUnitAlg)
}

type uaEvent struct {
	K    string   `json:"k"`
	Op   string   `json:"op"`
	I    int      `json:"i"`
	J    int      `json:"j"`
	T    string   `json:"t"`
	Out  string   `json:"out"`
	E    [][]int  `json:"e"`
	S    string   `json:"s"`
	Init []string `json:"init"`
}

// recordUnitAlg drives seeded random histories of calls on three real *unit.Unit registers and logs,
// after every call, what the real units report. It decides nothing: TLC judges the log.
func recordUnitAlg(out *core.Out, args []string, seed int64, sum *core.Summary) error {
	hist, steps, nreg := 4, 400, 3
	for _, a := range args {
		fmt.Sscanf(a, "hist=%d", &hist)
		fmt.Sscanf(a, "steps=%d", &steps)
	}
	rng := rand.New(rand.NewSource(seed))
	leaves := []string{"Length", "Mass", "Time", "Dimless", "Velocity", "Pressure"}
	all := []string{"Dimless", "Length", "Mass", "Time", "Area", "Volume", "Velocity", "Acceleration", "Frequency", "Force", "Energy", "Torque", "Power", "Pressure"}
	exps := func(regs []*unit.Unit) [][]int {
		e := make([][]int, len(regs))
		for r, u := range regs {
			v, foreign := vecOf(u.Dimensions())
			if foreign {
				v[0] = 1 << 20 // cannot be a model state: TLC rejects the trace
			}
			e[r] = v
		}
		return e
	}
	for h := 0; h < hist; h++ {
		regs := make([]*unit.Unit, nreg)
		init := make([]string, nreg)
		for r := range regs {
			init[r] = all[rng.Intn(len(all))]
			regs[r] = concretes[init[r]].mk(1).Unit()
		}
		out.Emit(uaEvent{K: "reset", Init: init, E: exps(regs)})
		for s := 0; s < steps; s++ {
			ev := uaEvent{K: "call", I: 1 + rng.Intn(nreg), J: 1 + rng.Intn(nreg), Init: []string{}}
			i, j := ev.I-1, ev.J-1
			// keep the exponents inside TLC's integers: a register that has grown is re-created
			big := false
			for _, p := range exps(regs)[i] {
				big = big || p > 1<<12 || p < -(1<<12)
			}
			var f func()
			switch k := rng.Intn(20); {
			case big || k == 0:
				ev.Op, ev.J, ev.T = "New", 0, []string{"Length", "Velocity"}[rng.Intn(2)]
				d := concretes[ev.T].mk(1).Unit().Dimensions()
				f = func() { regs[i] = unit.New(1, d) }
			case k < 5:
				ev.Op = "Mul"
				f = func() { regs[i].Mul(regs[j]) }
			case k < 10:
				ev.Op = "Div"
				f = func() { regs[i].Div(regs[j]) }
			case k < 12:
				ev.Op = "Add"
				f = func() { regs[i].SetValue(1); regs[i].Add(regs[j]) }
			case k < 15:
				ev.Op, ev.J, ev.T = "MulC", 0, leaves[rng.Intn(len(leaves))]
				f = func() { regs[i].Mul(concretes[ev.T].mk(1)) }
			case k < 18:
				ev.Op, ev.J, ev.T = "DivC", 0, leaves[rng.Intn(len(leaves))]
				f = func() { regs[i].Div(concretes[ev.T].mk(1)) }
			case k == 18:
				ev.Op, ev.J, ev.T = "AddC", 0, leaves[rng.Intn(len(leaves))]
				f = func() { regs[i].Add(concretes[ev.T].mk(1)) }
			default:
				if i == j {
					ev.J = 1 + (i+1)%nreg
					j = ev.J - 1
				}
				ev.Op = "Copy"
				f = func() { regs[i] = regs[j].Copy() }
			}
			o := core.Call(f)
			ev.Out = "ok"
			if o.Panicked {
				ev.Out = "panic"
				if o.Runtime {
					ev.Out = "runtime-error: " + o.Text
				}
			}
			ev.E = exps(regs)
			ev.S = regs[i].Dimensions().String()
			out.Emit(ev)
		}
		sum.Traces++
	}
	return nil
}
