package misc

// X03: optimize/functions against specs/misc/OptFunctions.tla (spec->code).
//
// The specification emits points with the exact rational value, gradient and Hessian of the
// documented definition (or [0,0] where it cannot name the number), the table of documented
// dimensions and the table of documented minima.  This driver builds the argument slices,
// calls the real Func / Grad / Hess / Minima and compares; it has no formulas of its own.

import (
	"encoding/json"
	"fmt"
	"math"
	"math/big"

	"gonum.org/v1/gonum/mat"
	"gonum.org/v1/gonum/optimize/functions"
	"gonum.org/v1/gonum/verifharness/internal/core"
)

func init() {
	core.RegisterReplay("misc-optfuncs", replayOptFuncs)
}

type rat [2]int64

func (r rat) known() bool   { return r[1] != 0 }
func (r rat) big() *big.Rat { return big.NewRat(r[0], r[1]) }
func (r rat) f64() float64  { f, _ := r.big().Float64(); return f }
func (r rat) String() string {
	if !r.known() {
		return "?" // a number the specification cannot name
	}
	return r.big().RatString()
}

type ofCase struct {
	Kind string  `json:"kind"`
	Fn   string  `json:"fn"`
	P    []rat   `json:"p"`
	X    []rat   `json:"x"`
	F    rat     `json:"f"`
	G    []rat   `json:"g"`
	H    [][]rat `json:"h"`
	Tol  int     `json:"tol"`
	// dims
	N  int  `json:"n"`
	Ok bool `json:"ok"`
	// minima
	Dims []int `json:"dims"`
	Ftol int   `json:"ftol"`
	Gtol int   `json:"gtol"`
	// minimal surface
	Ms     string `json:"ms"`
	Nx     int    `json:"nx"`
	Ny     int    `json:"ny"`
	Hx     rat    `json:"hx"`
	Hy     rat    `json:"hy"`
	Dim    int    `json:"dim"`
	Centre int    `json:"centre"`
	A      []rat  `json:"a"`
	B      []rat  `json:"b"`
	Sign   int    `json:"sign"`
}

type funcer interface{ Func(x []float64) float64 }
type grader interface{ Grad(grad, x []float64) }
type grader2 interface {
	Grad(grad, x []float64) []float64
}
type hesser interface {
	Hess(dst *mat.SymDense, x []float64)
}
type minimaer interface{ Minima() []functions.Minimum }

// theFunction returns the gonum value of the named test function (parameters for the two
// parametrised line-search functions; defaults when none are given).
func theFunction(name string, p []rat) any {
	par := func(i int, def float64) float64 {
		if i < len(p) {
			return p[i].f64()
		}
		return def
	}
	switch name {
	case "Beale":
		return functions.Beale{}
	case "BiggsEXP2":
		return functions.BiggsEXP2{}
	case "BiggsEXP3":
		return functions.BiggsEXP3{}
	case "BiggsEXP4":
		return functions.BiggsEXP4{}
	case "BiggsEXP5":
		return functions.BiggsEXP5{}
	case "BiggsEXP6":
		return functions.BiggsEXP6{}
	case "Box3D":
		return functions.Box3D{}
	case "BraninHoo":
		return functions.BraninHoo{}
	case "BrownBadlyScaled":
		return functions.BrownBadlyScaled{}
	case "BrownAndDennis":
		return functions.BrownAndDennis{}
	case "ExtendedPowellSingular":
		return functions.ExtendedPowellSingular{}
	case "ExtendedRosenbrock":
		return functions.ExtendedRosenbrock{}
	case "Gaussian":
		return functions.Gaussian{}
	case "GulfResearchAndDevelopment":
		return functions.GulfResearchAndDevelopment{}
	case "HelicalValley":
		return functions.HelicalValley{}
	case "Linear":
		return functions.Linear{}
	case "PenaltyI":
		return functions.PenaltyI{}
	case "PenaltyII":
		return functions.PenaltyII{}
	case "PowellBadlyScaled":
		return functions.PowellBadlyScaled{}
	case "Trigonometric":
		return functions.Trigonometric{}
	case "VariablyDimensioned":
		return functions.VariablyDimensioned{}
	case "Watson":
		return functions.Watson{}
	case "Wood":
		return functions.Wood{}
	case "ConcaveRight":
		return functions.ConcaveRight{}
	case "ConcaveLeft":
		return functions.ConcaveLeft{}
	case "Plassmann":
		return functions.Plassmann{L: par(0, 2), Beta: par(1, 0.5)}
	case "YanaiOzawaKaneko":
		return functions.YanaiOzawaKaneko{Beta1: par(0, 0.75), Beta2: par(1, 0.75)}
	case "Ackley":
		return functions.Ackley{}
	case "Bukin6":
		return functions.Bukin6{}
	case "CamelThree":
		return functions.CamelThree{}
	case "CamelSix":
		return functions.CamelSix{}
	case "CrossInTray":
		return functions.CrossInTray{}
	case "DixonPrice":
		return functions.DixonPrice{}
	case "DropWave":
		return functions.DropWave{}
	case "Eggholder":
		return functions.Eggholder{}
	case "GramacyLee":
		return functions.GramacyLee{}
	case "Griewank":
		return functions.Griewank{}
	case "HolderTable":
		return functions.HolderTable{}
	case "Langermann2":
		return functions.Langermann2{}
	case "Levy":
		return functions.Levy{}
	case "Levy13":
		return functions.Levy13{}
	case "Rastrigin":
		return functions.Rastrigin{}
	case "Schaffer2":
		return functions.Schaffer2{}
	case "Schaffer4":
		return functions.Schaffer4{}
	case "Schwefel":
		return functions.Schwefel{}
	case "Shubert":
		return functions.Shubert{}
	}
	return nil
}

func callGrad(f any, g, x []float64) bool {
	switch f := f.(type) {
	case grader:
		f.Grad(g, x)
		return true
	case grader2:
		f.Grad(g, x)
		return true
	}
	return false
}

func hasGrad(f any) bool {
	switch f.(type) {
	case grader, grader2:
		return true
	}
	return false
}

// within reports whether got is the rational want: exactly when tolexp == 0, otherwise within
// 10^-tolexp * scale.
func within(got float64, want rat, tolexp int, scale *big.Rat) bool {
	if math.IsNaN(got) || math.IsInf(got, 0) {
		return false
	}
	g := new(big.Rat).SetFloat64(got)
	d := new(big.Rat).Sub(g, want.big())
	d.Abs(d)
	if tolexp == 0 {
		return d.Sign() == 0
	}
	tol := new(big.Rat).SetFrac(big.NewInt(1), new(big.Int).Exp(big.NewInt(10), big.NewInt(int64(tolexp)), nil))
	tol.Mul(tol, scale)
	return d.Cmp(tol) <= 0
}

func tolText(tolexp int, scale *big.Rat) string {
	if tolexp == 0 {
		return "exact comparison"
	}
	return fmt.Sprintf("tolerance 1e-%d * %s", tolexp, scale.FloatString(3))
}

func floats(x []rat) []float64 {
	out := make([]float64, len(x))
	for i, r := range x {
		out[i] = r.f64()
	}
	return out
}

func replayOptFuncs(in *core.Lines, args []string, seed int64, sum *core.Summary) error {
	for {
		b, ok := in.Next()
		if !ok {
			break
		}
		var c ofCase
		if err := json.Unmarshal(b, &c); err != nil {
			return fmt.Errorf("line %d: %v", in.N, err)
		}
		caseObj := json.RawMessage(append([]byte(nil), b...))
		sum.Cases++
		if sum.Cases%400 == 7 {
			sum.Sample(caseObj)
		}
		fail := func(sig, msg string) { sum.Fail(sig, msg, caseObj) }
		switch c.Kind {
		case "point":
			optPoint(&c, sum, fail)
		case "dims":
			optDims(&c, sum, fail)
		case "minima":
			optMinima(&c, sum, fail)
		case "minsurf":
			optMinSurf(&c, sum, fail)
		default:
			return fmt.Errorf("line %d: unknown kind %q", in.N, c.Kind)
		}
	}
	return nil
}

func optPoint(c *ofCase, sum *core.Summary, fail func(sig, msg string)) {
	f := theFunction(c.Fn, c.P)
	if f == nil {
		fail("misc-optfuncs:"+c.Fn+":unknown", "no such function in the harness table")
		return
	}
	x := floats(c.X)
	// the scale of the case: the largest magnitude among the inputs and the expected numbers
	scale := big.NewRat(1, 1)
	bump := func(r rat) {
		if r.known() {
			a := new(big.Rat).Abs(r.big())
			if a.Cmp(scale) > 0 {
				scale = a
			}
		}
	}
	for _, r := range c.X {
		bump(r)
	}
	bump(c.F)
	for _, r := range c.G {
		bump(r)
	}
	for _, row := range c.H {
		for _, r := range row {
			bump(r)
		}
	}
	nontrivial := false
	if c.F.known() {
		var got float64
		xc := append([]float64(nil), x...)
		o := core.Call(func() { got = f.(funcer).Func(xc) })
		switch {
		case o.Panicked:
			fail("misc-optfuncs:"+c.Fn+":Func:panic", fmt.Sprintf("%s.Func(%v) panicked: %s", c.Fn, x, o.Text))
		case !within(got, c.F, c.Tol, scale):
			fail("misc-optfuncs:"+c.Fn+":Func:value", fmt.Sprintf("%s.Func(%v) = %v, the documented definition gives %v (%s)", c.Fn, x, got, c.F, tolText(c.Tol, scale)))
		}
		for i := range x {
			if xc[i] != x[i] {
				fail("misc-optfuncs:"+c.Fn+":Func:mutates-x", fmt.Sprintf("%s.Func changed its argument %v -> %v", c.Fn, x, xc))
			}
		}
		nontrivial = nontrivial || c.F[0] != 0
	}
	anyG := false
	for _, r := range c.G {
		anyG = anyG || r.known()
	}
	if anyG {
		if !hasGrad(f) {
			fail("misc-optfuncs:"+c.Fn+":Grad:missing", "the type has no Grad method")
		} else {
			g := make([]float64, len(x))
			for i := range g {
				g[i] = math.NaN() // Grad must overwrite, not accumulate into, its destination
			}
			xc := append([]float64(nil), x...)
			o := core.Call(func() { callGrad(f, g, xc) })
			if o.Panicked {
				fail("misc-optfuncs:"+c.Fn+":Grad:panic", fmt.Sprintf("%s.Grad(%v) panicked: %s", c.Fn, x, o.Text))
			} else {
				for i, r := range c.G {
					if r.known() && !within(g[i], r, c.Tol, scale) {
						fail("misc-optfuncs:"+c.Fn+":Grad:value", fmt.Sprintf("%s.Grad at %v: component %d = %v, the derivative of the documented definition is %v (all: got %v want %v; %s)", c.Fn, x, i, g[i], r, g, c.G, tolText(c.Tol, scale)))
						break
					}
					nontrivial = nontrivial || r[0] != 0
				}
			}
		}
	}
	if len(c.H) > 0 {
		h, isH := f.(hesser)
		if !isH {
			fail("misc-optfuncs:"+c.Fn+":Hess:missing", "the type has no Hess method")
		} else {
			n := len(x)
			dst := mat.NewSymDense(n, nil)
			for i := 0; i < n; i++ {
				for j := i; j < n; j++ {
					dst.SetSym(i, j, math.NaN())
				}
			}
			o := core.Call(func() { h.Hess(dst, x) })
			if o.Panicked {
				fail("misc-optfuncs:"+c.Fn+":Hess:panic", fmt.Sprintf("%s.Hess(%v) panicked: %s", c.Fn, x, o.Text))
			} else {
			loop:
				for i := 0; i < n; i++ {
					for j := 0; j < n; j++ {
						r := c.H[i][j]
						if r.known() && !within(dst.At(i, j), r, c.Tol, scale) {
							fail("misc-optfuncs:"+c.Fn+":Hess:value", fmt.Sprintf("%s.Hess at %v: element (%d,%d) = %v, the second derivative of the documented definition is %v (want %v; %s)", c.Fn, x, i, j, dst.At(i, j), r, c.H, tolText(c.Tol, scale)))
							break loop
						}
					}
				}
				nontrivial = true
			}
		}
	}
	if nontrivial {
		sum.Nontrivial++
	}
}

func optDims(c *ofCase, sum *core.Summary, fail func(sig, msg string)) {
	f := theFunction(c.Fn, nil)
	if f == nil {
		fail("misc-optfuncs:"+c.Fn+":unknown", "no such function in the harness table")
		return
	}
	x := make([]float64, c.N)
	for i := range x {
		x[i] = 1
	}
	judge := func(what string, o core.Outcome, wantPanic bool) {
		switch {
		case o.Runtime:
			fail("misc-optfuncs:"+c.Fn+":"+what+":runtime-panic", fmt.Sprintf("%s.%s with %d variables: runtime error %s", c.Fn, what, c.N, o.Text))
		case wantPanic && !o.Panicked:
			fail("misc-optfuncs:"+c.Fn+":"+what+":no-panic", fmt.Sprintf("%s.%s accepted the documented-illegal size (%d variables)", c.Fn, what, c.N))
		case !wantPanic && o.Panicked:
			fail("misc-optfuncs:"+c.Fn+":"+what+":panic", fmt.Sprintf("%s.%s with the documented dimension %d panicked: %s", c.Fn, what, c.N, o.Text))
		}
	}
	judge("Func", core.Call(func() { f.(funcer).Func(x) }), !c.Ok)
	if hasGrad(f) {
		judge("Grad", core.Call(func() { callGrad(f, make([]float64, c.N), x) }), !c.Ok)
		if c.Ok {
			judge("Grad-short", core.Call(func() { callGrad(f, make([]float64, c.N+1), x) }), true)
			if c.N > 0 {
				judge("Grad-short", core.Call(func() { callGrad(f, make([]float64, c.N-1), x) }), true)
			}
		}
	}
	if h, ok := f.(hesser); ok {
		judge("Hess", core.Call(func() { h.Hess(mat.NewSymDense(c.N, nil), x) }), !c.Ok)
		if c.Ok {
			judge("Hess-size", core.Call(func() { h.Hess(mat.NewSymDense(c.N+1, nil), x) }), true)
		}
	}
	if !c.Ok {
		sum.Nontrivial++
	}
}

func optMinima(c *ofCase, sum *core.Summary, fail func(sig, msg string)) {
	f := theFunction(c.Fn, nil)
	m, ok := f.(minimaer)
	if !ok {
		fail("misc-optfuncs:"+c.Fn+":Minima:missing", "the type has no Minima method")
		return
	}
	var mins []functions.Minimum
	if o := core.Call(func() { mins = m.Minima() }); o.Panicked {
		fail("misc-optfuncs:"+c.Fn+":Minima:panic", o.Text)
		return
	}
	if len(mins) != len(c.Dims) {
		fail("misc-optfuncs:"+c.Fn+":Minima:count", fmt.Sprintf("%s.Minima() lists %d minima, the specification's table of documented minima has %d", c.Fn, len(mins), len(c.Dims)))
		return
	}
	for i, mn := range mins {
		if len(mn.X) != c.Dims[i] {
			fail("misc-optfuncs:"+c.Fn+":Minima:dim", fmt.Sprintf("%s.Minima()[%d] has %d coordinates, documented %d", c.Fn, i, len(mn.X), c.Dims[i]))
			continue
		}
		x := append([]float64(nil), mn.X...)
		var got float64
		if o := core.Call(func() { got = f.(funcer).Func(x) }); o.Panicked {
			fail("misc-optfuncs:"+c.Fn+":Minima:Func-panic", o.Text)
			continue
		}
		ftol := math.Pow(10, -float64(c.Ftol)) * math.Max(1, math.Abs(mn.F))
		if !(math.Abs(got-mn.F) <= ftol) {
			fail("misc-optfuncs:"+c.Fn+":Minima:F", fmt.Sprintf("%s.Minima()[%d]: F = %v but Func(X) = %v at X = %v (tolerance %g)", c.Fn, i, mn.F, got, mn.X, ftol))
		}
		if hasGrad(f) {
			g := make([]float64, len(x))
			if o := core.Call(func() { callGrad(f, g, x) }); o.Panicked {
				fail("misc-optfuncs:"+c.Fn+":Minima:Grad-panic", o.Text)
				continue
			}
			gtol := math.Pow(10, -float64(c.Gtol))
			for j, v := range g {
				if !(math.Abs(v) <= gtol) {
					fail("misc-optfuncs:"+c.Fn+":Minima:Grad", fmt.Sprintf("%s.Minima()[%d]: the gradient at the documented minimum X = %v is %v (component %d exceeds %g)", c.Fn, i, mn.X, g, j, gtol))
					break
				}
			}
		}
	}
	sum.Nontrivial++
}

func optMinSurf(c *ofCase, sum *core.Summary, fail func(sig, msg string)) {
	const tol = 1e-12
	switch c.Ms {
	case "zero", "sym":
		ms := functions.NewMinimalSurface(3, 3)
		a := ms.ExactSolution(c.A[0].f64(), c.A[1].f64())
		if c.Ms == "zero" {
			if !(math.Abs(a) <= tol) {
				fail("misc-optfuncs:MinimalSurface:ExactSolution:diagonal", fmt.Sprintf("ExactSolution(%v, %v) = %v, must be 0 on a diagonal", c.A[0], c.A[1], a))
			}
		} else {
			b := ms.ExactSolution(c.B[0].f64(), c.B[1].f64())
			if !(math.Abs(a-float64(c.Sign)*b) <= tol) {
				fail("misc-optfuncs:MinimalSurface:ExactSolution:symmetry", fmt.Sprintf("ExactSolution(%v, %v) = %v and ExactSolution(%v, %v) = %v, specification: equal up to the sign %d", c.A[0], c.A[1], a, c.B[0], c.B[1], b, c.Sign))
			}
		}
		sum.Nontrivial++
	case "grid":
		var ms *functions.MinimalSurface
		if o := core.Call(func() { ms = functions.NewMinimalSurface(c.Nx, c.Ny) }); o.Panicked {
			fail("misc-optfuncs:MinimalSurface:New:panic", o.Text)
			return
		}
		sig := "misc-optfuncs:MinimalSurface:"
		if nx, ny := ms.Dims(); nx != c.Nx || ny != c.Ny {
			fail(sig+"Dims", fmt.Sprintf("NewMinimalSurface(%d,%d).Dims() = %d, %d", c.Nx, c.Ny, nx, ny))
		}
		if hx, hy := ms.Steps(); hx != c.Hx.f64() || hy != c.Hy.f64() {
			fail(sig+"Steps", fmt.Sprintf("NewMinimalSurface(%d,%d).Steps() = %v, %v, specification %v, %v", c.Nx, c.Ny, hx, hy, c.Hx, c.Hy))
		}
		ix, ex := ms.InitX(), ms.ExactX()
		if len(ix) != c.Dim || len(ex) != c.Dim {
			fail(sig+"len", fmt.Sprintf("NewMinimalSurface(%d,%d): len(InitX) = %d, len(ExactX) = %d, specification %d", c.Nx, c.Ny, len(ix), len(ex), c.Dim))
			return
		}
		if c.Centre >= 0 && !(math.Abs(ex[c.Centre]) <= tol) {
			fail(sig+"ExactX:centre", fmt.Sprintf("NewMinimalSurface(%d,%d).ExactX()[%d] = %v, the node at the origin must be 0", c.Nx, c.Ny, c.Centre, ex[c.Centre]))
		}
		for _, x := range [][]float64{ix, ex} {
			var area float64
			if o := core.Call(func() { area = ms.Func(x) }); o.Panicked {
				fail(sig+"Func:panic", o.Text)
			} else if !(area >= 1-tol) || math.IsInf(area, 0) {
				fail(sig+"Func:area", fmt.Sprintf("NewMinimalSurface(%d,%d).Func = %v: the area of a surface over the unit square is at least 1", c.Nx, c.Ny, area))
			}
			var g []float64
			if o := core.Call(func() { g = ms.Grad(nil, x) }); o.Panicked {
				fail(sig+"Grad:panic", o.Text)
			} else if len(g) != c.Dim {
				fail(sig+"Grad:len", fmt.Sprintf("Grad(nil, x) returned %d numbers, want %d", len(g), c.Dim))
			}
			dst := make([]float64, c.Dim)
			var g2 []float64
			if o := core.Call(func() { g2 = ms.Grad(dst, x) }); o.Panicked {
				fail(sig+"Grad:panic", o.Text)
			} else if len(g2) != c.Dim || (c.Dim > 0 && &g2[0] != &dst[0]) {
				fail(sig+"Grad:dst", "Grad(dst, x) did not return dst")
			} else {
				for i := range g {
					if g[i] != g2[i] {
						fail(sig+"Grad:dst", fmt.Sprintf("Grad(nil, x) = %v but Grad(dst, x) = %v", g, g2))
						break
					}
				}
			}
		}
		bad := make([]float64, c.Dim+1)
		if o := core.Call(func() { ms.Func(bad) }); !o.Panicked || o.Runtime {
			fail(sig+"Func:size", "Func accepted a vector of the wrong length (or failed with a runtime error): "+o.Text)
		}
		if o := core.Call(func() { ms.Grad(nil, bad) }); !o.Panicked || o.Runtime {
			fail(sig+"Grad:size", "Grad accepted a vector of the wrong length (or failed with a runtime error): "+o.Text)
		}
		if o := core.Call(func() { ms.Grad(bad, ex) }); !o.Panicked || o.Runtime {
			fail(sig+"Grad:size", "Grad accepted a destination of the wrong length (or failed with a runtime error): "+o.Text)
		}
		sum.Nontrivial++
	}
}
