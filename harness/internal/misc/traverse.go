package misc

// Recorder for specs/misc/TraverseTrace.tla: drives real traverse.BreadthFirst /
// traverse.DepthFirst walkers through the scenarios TLC enumerated
// (TraverseGen.tla) and writes down what the walkers did - every callback in
// call order, the returned node, and the answers of Visited before and after
// each call. It decides nothing: TLC judges the log against Traverse.tla.
//
// The neighbour order is the one thing the walkers do not control. Half of the
// graphs are therefore "ordered" operands (a traverse.Graph / graph.Undirected
// whose From and Nodes iterate in a seeded permutation), the rest are gonum's
// own containers (Go map order).

import (
	"encoding/json"
	"fmt"
	"math"
	"math/rand"

	"gonum.org/v1/gonum/graph"
	"gonum.org/v1/gonum/graph/iterator"
	"gonum.org/v1/gonum/graph/multi"
	"gonum.org/v1/gonum/graph/simple"
	"gonum.org/v1/gonum/graph/traverse"
	"gonum.org/v1/gonum/verifharness/internal/core"
)

func init() {
	core.RegisterRecord("misc-traverse", recordTraverse)
}

const tvUniverse = 6 // Visited is probed for the model nodes 1..tvUniverse
const tvNever = 99

type tvCase struct {
	Dir bool       `json:"dir"`
	N   int        `json:"n"`
	E   [][2]int64 `json:"E"`
	T   []int64    `json:"T"`
	K   int        `json:"K"`
	F   [][2]int64 `json:"F"`
}

type tvEv struct {
	T string `json:"t"`
	A int64  `json:"a"`
	B int64  `json:"b"`
	R int    `json:"r"`
}

// tvOp is one line of the trace (every field always present, [] never null).
type tvOp struct {
	K    string     `json:"k"`
	Alg  string     `json:"alg"`
	Dir  bool       `json:"dir"`
	V    []int64    `json:"V"`
	E    [][2]int64 `json:"E"`
	From int64      `json:"from"`
	T    []int64    `json:"T"`
	Kd   int        `json:"K"`
	F    [][2]int64 `json:"F"`
	Hv   bool       `json:"hv"`
	Hu   bool       `json:"hu"`
	Ht   bool       `json:"ht"`
	Hb   bool       `json:"hb"`
	Ha   bool       `json:"ha"`
	Hd   bool       `json:"hd"`
	Log  []tvEv     `json:"log"`
	Ret  int64      `json:"ret"`
	Pre  []int64    `json:"pre"`
	Seen []int64    `json:"seen"`
	Type string     `json:"type"`
}

func blankOp(k string) tvOp {
	return tvOp{K: k, V: []int64{}, E: [][2]int64{}, T: []int64{}, F: [][2]int64{}, Log: []tvEv{}, Pre: []int64{}, Seen: []int64{}}
}

// ---- id binding -------------------------------------------------------------

var tvPool = []int64{-3, -1, 0, 2, 5, 7, 11, 100, 1 << 20, 1 << 40, -(1 << 40), 1 << 62,
	math.MaxInt64, math.MinInt64, math.MaxInt64 - 1, math.MinInt64 + 1, 42, -77, 1 << 33}

type tvMap struct {
	name string
	m2r  [tvUniverse + 1]int64
	r2m  map[int64]int64
}

func newTvMap(which int, rng *rand.Rand) *tvMap {
	im := &tvMap{r2m: map[int64]int64{}}
	switch which % 3 {
	case 0:
		im.name = "identity"
		for m := 1; m <= tvUniverse; m++ {
			im.m2r[m] = int64(m)
		}
	case 1:
		im.name = "reversed-gaps"
		for m := 1; m <= tvUniverse; m++ {
			im.m2r[m] = int64(tvUniverse-m)*10 - 7
		}
	default:
		im.name = "arbitrary"
		p := rng.Perm(len(tvPool))
		for m := 1; m <= tvUniverse; m++ {
			im.m2r[m] = tvPool[p[m-1]]
		}
	}
	for m := 1; m <= tvUniverse; m++ {
		im.r2m[im.m2r[m]] = int64(m)
	}
	return im
}

func (im *tvMap) real(m int64) int64 { return im.m2r[m] }
func (im *tvMap) model(r int64) int64 {
	if m, ok := im.r2m[r]; ok {
		return m
	}
	return -1000 // an invented node can never be a model node
}

// ---- operands ---------------------------------------------------------------

// ordDir is a directed traverse.Graph whose From iterates in a fixed, seeded order.
type ordDir struct {
	succ map[int64][]graph.Node
	has  map[[2]int64]bool
}

func (g *ordDir) From(id int64) graph.Nodes {
	if len(g.succ[id]) == 0 {
		return graph.Empty
	}
	return iterator.NewOrderedNodes(g.succ[id])
}
func (g *ordDir) Edge(u, v int64) graph.Edge {
	if !g.has[[2]int64{u, v}] {
		return nil
	}
	return simple.Edge{F: simple.Node(u), T: simple.Node(v)}
}

// ordUnd is a simple.UndirectedGraph whose Nodes and From iterate in fixed, seeded orders.
type ordUnd struct {
	*simple.UndirectedGraph
	nodes []graph.Node
	adj   map[int64][]graph.Node
}

func (g *ordUnd) Nodes() graph.Nodes {
	if len(g.nodes) == 0 {
		return graph.Empty
	}
	return iterator.NewOrderedNodes(g.nodes)
}
func (g *ordUnd) From(id int64) graph.Nodes {
	if len(g.adj[id]) == 0 {
		return graph.Empty
	}
	return iterator.NewOrderedNodes(g.adj[id])
}

var tvDirKinds = []string{"ordered", "simple.DirectedGraph", "ordered", "multi.DirectedGraph", "ordered", "simple.WeightedDirectedGraph", "multi.WeightedDirectedGraph"}
var tvUndKinds = []string{"ordered", "simple.UndirectedGraph", "ordered", "multi.UndirectedGraph", "ordered", "simple.WeightedUndirectedGraph", "multi.WeightedUndirectedGraph"}

// buildTv builds the graph (1..n, edges) of the case. For undirected cases the result also
// implements graph.Undirected. node(id) returns the node value to start a walk from.
func buildTv(kind string, dir bool, n int, edges [][2]int64, im *tvMap, rng *rand.Rand) (traverse.Graph, func(int64) graph.Node) {
	ids := make([]int64, n)
	for i := range ids {
		ids[i] = im.real(int64(i + 1))
	}
	rng.Shuffle(len(ids), func(i, j int) { ids[i], ids[j] = ids[j], ids[i] })
	es := append([][2]int64(nil), edges...)
	rng.Shuffle(len(es), func(i, j int) { es[i], es[j] = es[j], es[i] })
	sn := func(id int64) graph.Node { return simple.Node(id) }
	mn := func(id int64) graph.Node { return multi.Node(id) }
	switch {
	case dir && kind == "ordered":
		g := &ordDir{succ: map[int64][]graph.Node{}, has: map[[2]int64]bool{}}
		for _, e := range es {
			u, v := im.real(e[0]), im.real(e[1])
			g.succ[u] = append(g.succ[u], simple.Node(v))
			g.has[[2]int64{u, v}] = true
		}
		return g, sn
	case dir && kind == "simple.DirectedGraph":
		g := simple.NewDirectedGraph()
		for _, id := range ids {
			g.AddNode(simple.Node(id))
		}
		for _, e := range es {
			g.SetEdge(simple.Edge{F: simple.Node(im.real(e[0])), T: simple.Node(im.real(e[1]))})
		}
		return g, sn
	case dir && kind == "simple.WeightedDirectedGraph":
		g := simple.NewWeightedDirectedGraph(0, math.Inf(1))
		for _, id := range ids {
			g.AddNode(simple.Node(id))
		}
		for _, e := range es {
			g.SetWeightedEdge(simple.WeightedEdge{F: simple.Node(im.real(e[0])), T: simple.Node(im.real(e[1])), W: 1})
		}
		return g, sn
	case dir && kind == "multi.DirectedGraph":
		g := multi.NewDirectedGraph()
		for _, id := range ids {
			g.AddNode(multi.Node(id))
		}
		for _, e := range es {
			for k := 0; k < 1+rng.Intn(2); k++ {
				g.SetLine(g.NewLine(multi.Node(im.real(e[0])), multi.Node(im.real(e[1]))))
			}
		}
		return g, mn
	case dir && kind == "multi.WeightedDirectedGraph":
		g := multi.NewWeightedDirectedGraph()
		for _, id := range ids {
			g.AddNode(multi.Node(id))
		}
		for _, e := range es {
			for k := 0; k < 1+rng.Intn(2); k++ {
				g.SetWeightedLine(g.NewWeightedLine(multi.Node(im.real(e[0])), multi.Node(im.real(e[1])), 1))
			}
		}
		return g, mn
	case !dir && (kind == "ordered" || kind == "simple.UndirectedGraph"):
		g := simple.NewUndirectedGraph()
		for _, id := range ids {
			g.AddNode(simple.Node(id))
		}
		for _, e := range es {
			u, v := im.real(e[0]), im.real(e[1])
			if rng.Intn(2) == 0 {
				u, v = v, u
			}
			g.SetEdge(simple.Edge{F: simple.Node(u), T: simple.Node(v)})
		}
		if kind != "ordered" {
			return g, sn
		}
		o := &ordUnd{UndirectedGraph: g, adj: map[int64][]graph.Node{}}
		for _, id := range ids {
			o.nodes = append(o.nodes, simple.Node(id))
		}
		for _, e := range es {
			u, v := im.real(e[0]), im.real(e[1])
			o.adj[u] = append(o.adj[u], simple.Node(v))
			o.adj[v] = append(o.adj[v], simple.Node(u))
		}
		for _, a := range o.adj {
			rng.Shuffle(len(a), func(i, j int) { a[i], a[j] = a[j], a[i] })
		}
		return o, sn
	case !dir && kind == "simple.WeightedUndirectedGraph":
		g := simple.NewWeightedUndirectedGraph(0, math.Inf(1))
		for _, id := range ids {
			g.AddNode(simple.Node(id))
		}
		for _, e := range es {
			g.SetWeightedEdge(simple.WeightedEdge{F: simple.Node(im.real(e[1])), T: simple.Node(im.real(e[0])), W: 1})
		}
		return g, sn
	case !dir && kind == "multi.UndirectedGraph":
		g := multi.NewUndirectedGraph()
		for _, id := range ids {
			g.AddNode(multi.Node(id))
		}
		for _, e := range es {
			for k := 0; k < 1+rng.Intn(2); k++ {
				g.SetLine(g.NewLine(multi.Node(im.real(e[k%2])), multi.Node(im.real(e[1-k%2]))))
			}
		}
		return g, mn
	case !dir && kind == "multi.WeightedUndirectedGraph":
		g := multi.NewWeightedUndirectedGraph()
		for _, id := range ids {
			g.AddNode(multi.Node(id))
		}
		for _, e := range es {
			g.SetWeightedLine(g.NewWeightedLine(multi.Node(im.real(e[0])), multi.Node(im.real(e[1])), 1))
		}
		return g, mn
	}
	panic("unknown graph kind " + kind)
}

// ---- the two walkers behind one interface -----------------------------------

type tvWalker interface {
	setFields(visit func(graph.Node), trav func(graph.Edge) bool)
	walk(g traverse.Graph, from graph.Node, until func(graph.Node, int) bool) graph.Node
	walkAll(g graph.Undirected, before, after func(), during func(graph.Node))
	visited(n graph.Node) bool
	reset()
}

type bfsW struct{ w *traverse.BreadthFirst }
type dfsW struct{ w *traverse.DepthFirst }

func (b bfsW) setFields(v func(graph.Node), t func(graph.Edge) bool) { b.w.Visit, b.w.Traverse = v, t }
func (b bfsW) walk(g traverse.Graph, from graph.Node, until func(graph.Node, int) bool) graph.Node {
	return b.w.Walk(g, from, until)
}
func (b bfsW) walkAll(g graph.Undirected, before, after func(), during func(graph.Node)) {
	b.w.WalkAll(g, before, after, during)
}
func (b bfsW) visited(n graph.Node) bool { return b.w.Visited(n) }
func (b bfsW) reset()                    { b.w.Reset() }

func (d dfsW) setFields(v func(graph.Node), t func(graph.Edge) bool) { d.w.Visit, d.w.Traverse = v, t }
func (d dfsW) walk(g traverse.Graph, from graph.Node, until func(graph.Node, int) bool) graph.Node {
	if until == nil {
		return d.w.Walk(g, from, nil)
	}
	return d.w.Walk(g, from, func(n graph.Node) bool { return until(n, -1) })
}
func (d dfsW) walkAll(g graph.Undirected, before, after func(), during func(graph.Node)) {
	d.w.WalkAll(g, before, after, during)
}
func (d dfsW) visited(n graph.Node) bool { return d.w.Visited(n) }
func (d dfsW) reset()                    { d.w.Reset() }

func newTvWalker(alg string) tvWalker {
	if alg == "bfs" {
		return bfsW{&traverse.BreadthFirst{}}
	}
	return dfsW{&traverse.DepthFirst{}}
}

// ---- the recorder -------------------------------------------------------------

type tvRec struct {
	out *core.Out
	sum *core.Summary
	alg string
	w   tvWalker
	im  *tvMap
	mk  func(int64) graph.Node
}

func (r *tvRec) probe() []int64 {
	s := []int64{}
	for m := int64(1); m <= tvUniverse; m++ {
		if r.w.visited(r.mk(r.im.real(m))) {
			s = append(s, m)
		}
	}
	return s
}

func (r *tvRec) emit(op tvOp) {
	r.out.Emit(op)
	r.sum.Events++
	if op.K == "walk" || op.K == "walkall" {
		r.sum.Traces++
		if len(op.Log) > 2 {
			r.sum.Nontrivial++
		}
		r.sum.Count(op.Alg+"."+op.K, 1)
	}
}

func (r *tvRec) panicked(what string, o core.Outcome, op tvOp) bool {
	if !o.Panicked {
		return false
	}
	r.sum.Fail("misc-traverse:"+r.alg+"."+what+":panic", o.Text, op)
	// the walker is in an unknown state: replace it (the trace continues with a fresh one)
	r.fresh()
	return true
}

func (r *tvRec) fresh() {
	r.w = newTvWalker(r.alg)
	op := blankOp("new")
	op.Alg = r.alg
	op.Seen = r.probe()
	r.emit(op)
}

func (r *tvRec) doReset() {
	op := blankOp("reset")
	op.Alg = r.alg
	op.Pre = r.probe()
	o := core.Call(func() { r.w.reset() })
	if r.panicked("Reset", o, op) {
		return
	}
	op.Seen = r.probe()
	r.emit(op)
}

type tvFlags struct{ hv, hu, ht, hb, ha, hd bool }

// callbacks installs the scripted Visit / Traverse and returns the log they append to.
func (r *tvRec) callbacks(c *tvCase, fl tvFlags, log *[]tvEv) {
	refuse := map[[2]int64]bool{}
	for _, e := range c.F {
		refuse[e] = true
		if !c.Dir {
			refuse[[2]int64{e[1], e[0]}] = true
		}
	}
	var visit func(graph.Node)
	var trav func(graph.Edge) bool
	if fl.hv {
		visit = func(n graph.Node) { *log = append(*log, tvEv{T: "visit", A: r.im.model(n.ID())}) }
	}
	if fl.ht {
		trav = func(e graph.Edge) bool {
			k := [2]int64{r.im.model(e.From().ID()), r.im.model(e.To().ID())}
			ok := !refuse[k]
			ev := tvEv{T: "trav", A: k[0], B: k[1]}
			if ok {
				ev.R = 1
			}
			*log = append(*log, ev)
			return ok
		}
	}
	r.w.setFields(visit, trav)
}

func (r *tvRec) baseOp(k string, c *tvCase, fl tvFlags, kind string) tvOp {
	op := blankOp(k)
	op.Alg, op.Dir, op.Type = r.alg, c.Dir, kind+"/"+r.im.name
	for m := 1; m <= c.N; m++ {
		op.V = append(op.V, int64(m))
	}
	op.E = append(op.E, c.E...)
	op.Kd = tvNever
	if fl.ht {
		op.F = append(op.F, c.F...)
	}
	op.Hv, op.Hu, op.Ht, op.Hb, op.Ha, op.Hd = fl.hv, fl.hu, fl.ht, fl.hb, fl.ha, fl.hd
	return op
}

// doWalk performs one Walk and reports whether until cut it short (or it panicked).
func (r *tvRec) doWalk(g traverse.Graph, c *tvCase, fl tvFlags, kind string, from int64) (stopped bool) {
	op := r.baseOp("walk", c, fl, kind)
	op.From = from
	target := map[int64]bool{}
	if fl.hu {
		op.T = append(op.T, c.T...)
		op.Kd = c.K
		for _, t := range c.T {
			target[t] = true
		}
	}
	op.Pre = r.probe()
	log := []tvEv{}
	r.callbacks(c, fl, &log)
	var until func(graph.Node, int) bool
	if fl.hu {
		until = func(n graph.Node, d int) bool {
			m := r.im.model(n.ID())
			ans := target[m] || (r.alg == "bfs" && d >= c.K)
			ev := tvEv{T: "until", A: m, B: int64(d)}
			if ans {
				ev.R = 1
				stopped = true
			}
			log = append(log, ev)
			return ans
		}
	}
	var ret graph.Node
	o := core.Call(func() { ret = r.w.walk(g, r.mk(r.im.real(from)), until) })
	op.Log = log
	if r.panicked("Walk", o, op) {
		return true
	}
	if ret != nil {
		op.Ret = r.im.model(ret.ID())
	}
	op.Seen = r.probe()
	r.emit(op)
	return stopped
}

func (r *tvRec) doWalkAll(g graph.Undirected, c *tvCase, fl tvFlags, kind string) {
	op := r.baseOp("walkall", c, fl, kind)
	op.Pre = r.probe()
	log := []tvEv{}
	r.callbacks(c, fl, &log)
	var before, after func()
	var during func(graph.Node)
	if fl.hb {
		before = func() { log = append(log, tvEv{T: "before"}) }
	}
	if fl.ha {
		after = func() { log = append(log, tvEv{T: "after"}) }
	}
	if fl.hd {
		during = func(n graph.Node) { log = append(log, tvEv{T: "during", A: r.im.model(n.ID())}) }
	}
	o := core.Call(func() { r.w.walkAll(g, before, after, during) })
	op.Log = log
	if r.panicked("WalkAll", o, op) {
		return
	}
	op.Seen = r.probe()
	r.emit(op)
}

// scenario plays one enumerated case on the recorder's walker. idx varies the shape of the
// history: fresh walker or Reset of the previous one, a single walk or a walk continued from
// every node that is still unvisited (the way WalkAll uses Walk), nil callbacks, and for
// undirected graphs WalkAll - also on a walker that an earlier walk left unfinished.
func (r *tvRec) scenario(c *tvCase, idx int, rng *rand.Rand) {
	kinds := tvUndKinds
	if c.Dir {
		kinds = tvDirKinds
	}
	kind := kinds[rng.Intn(len(kinds))]
	fl := tvFlags{hv: true, hu: true, ht: true, hb: true, ha: true, hd: true}
	if idx%5 == 4 { // nil callbacks
		b := rng.Intn(64)
		fl = tvFlags{b&1 != 0, b&2 != 0, b&4 != 0, b&8 != 0, b&16 != 0, b&32 != 0}
	}
	if idx%3 == 0 || r.w == nil {
		r.im = newTvMap(rng.Intn(3), rng)
		r.mk = func(id int64) graph.Node { return simple.Node(id) }
		r.fresh()
	} else {
		r.doReset() // same real walker, possibly left unfinished by the previous scenario, on a different graph
	}
	g, mk := buildTv(kind, c.Dir, c.N, c.E, r.im, rng)
	r.mk = mk
	stopped := c.N == 0 // nothing to start from in the empty graph
	if !stopped {
		stopped = r.doWalk(g, c, fl, kind, 1)
	}
	if !stopped && idx%2 == 0 {
		// continue the same walker from the nodes it has not visited yet
		for _, m := range rng.Perm(c.N) {
			from := int64(m + 1)
			if r.w.visited(r.mk(r.im.real(from))) {
				continue
			}
			if r.doWalk(g, c, fl, kind, from) {
				break
			}
		}
	}
	if u, ok := g.(graph.Undirected); ok && !c.Dir {
		if idx%4 == 1 {
			r.doReset()
		}
		r.doWalkAll(u, c, fl, kind)
	}
}

func recordTraverse(out *core.Out, args []string, seed int64, sum *core.Summary) error {
	a := map[string]string{}
	for _, s := range args {
		for i := 0; i < len(s); i++ {
			if s[i] == '=' {
				a[s[:i]] = s[i+1:]
				break
			}
		}
	}
	stride, shard, nshards := 1, 0, 1
	fmt.Sscanf(a["stride"], "%d", &stride)
	fmt.Sscanf(a["shard"], "%d", &shard)
	fmt.Sscanf(a["nshards"], "%d", &nshards)
	if a["cases"] == "" {
		return fmt.Errorf("misc-traverse: cases=<ndjson of TraverseGen cases> required")
	}
	in, err := core.OpenLines(a["cases"])
	if err != nil {
		return err
	}
	defer in.Close()
	rng := rand.New(rand.NewSource(seed*7919 + int64(shard)))
	recs := []*tvRec{{out: out, sum: sum, alg: "bfs"}, {out: out, sum: sum, alg: "dfs"}}
	off := int(seed % int64(stride))
	i := 0
	for {
		line, ok := in.Next()
		if !ok {
			break
		}
		i++
		if i%stride != off || (i/stride)%nshards != shard {
			continue
		}
		var c tvCase
		if err := json.Unmarshal(line, &c); err != nil {
			return fmt.Errorf("line %d: %v", in.N, err)
		}
		if c.N > tvUniverse-1 {
			return fmt.Errorf("line %d: %d nodes exceed the probed universe", in.N, c.N)
		}
		sum.Cases++
		for _, r := range recs {
			// the trace file holds the two walkers' histories one after the other per scenario; each
			// scenario starts with new / reset, so the model's single walker state stays in step
			r.scenario(&c, i/stride+int(seed), rng)
		}
	}
	return nil
}
