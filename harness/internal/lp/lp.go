// Package lp binds specs/lp/Lp.tla and LpConvert.tla to gonum's
// optimize/convex/lp (property C19, LP clause), direction spec->code.
//
// Every case is a linear program with small integer data printed by TLC
// together with its exact classification (by enumeration of all bases, in
// integer arithmetic) and, when it has one, its exact rational optimum and the
// list of all its feasible bases.  The harness builds the operands, calls
// lp.Simplex (for general-form cases lp.Convert first) under a watchdog and
// judges what came back against the printed verdict.  It has no LP mathematics
// of its own: the only arithmetic done here is the evaluation of the
// conditions the property itself names on the returned point (x >= -tol,
// |Ax-b| <= tol, |c.x - value| <= tol(1+|value|)), done exactly in big.Rat.
// General-form programs are handed to lp.Convert in several storage forms of the same values
// (compact Dense, view of a wider matrix, transpose view, bare mat.Matrix; see matRep).
package lp

import (
	"encoding/json"
	"errors"
	"fmt"
	"math"
	"math/big"
	"strings"
	"time"

	"gonum.org/v1/gonum/mat"
	golp "gonum.org/v1/gonum/optimize/convex/lp"

	"gonum.org/v1/gonum/verifharness/internal/core"
)

type only struct {
	IB    []int   `json:"ib"` // nil: no initial basis
	Tol   float64 `json:"tol"`
	Again bool    `json:"again,omitempty"` // the judged call is the second one made with the same slices
	GRep  string  `json:"grep,omitempty"`  // general form: representation of G handed to Convert ("" = compact Dense)
	ARep  string  `json:"arep,omitempty"`  // general form: representation of A
}

type lpCase struct {
	Form  string      `json:"form,omitempty"` // "" / "std": standard form; "gen": general form (Convert)
	ID    int         `json:"id"`
	M     int         `json:"m"`
	N     int         `json:"n"`
	A     [][]float64 `json:"A"`
	B     []float64   `json:"b"`
	C     []float64   `json:"c"`
	G     [][]float64 `json:"G,omitempty"`
	H     []float64   `json:"h,omitempty"`
	Cls   string      `json:"cls"`
	Excl  bool        `json:"excl"`
	Num   int64       `json:"num"`
	Den   int64       `json:"den"`
	FB    [][]int     `json:"fb"`
	OB    [][]int     `json:"ob"`
	NFB   int         `json:"nfb"`
	NCost int         `json:"ncost"`
	Degen bool        `json:"degen"`
	Only  *only       `json:"only,omitempty"` // set in failure cases: run only this call
}

// defaults, overridable by replay arguments watchdog=<duration> maxhangs=<n>
var (
	sigTag   = ""
	watchdog = 10 * time.Second
	maxHangs = 8
)

var tols = []float64{1e-10, 1e-6}

func init() {
	core.RegisterReplay("lp", replay)
}

func dense(rows [][]float64, cols int) *mat.Dense {
	if len(rows) == 0 {
		return nil
	}
	d := mat.NewDense(len(rows), cols, nil)
	for i, r := range rows {
		for j, v := range r {
			d.Set(i, j, v)
		}
	}
	return d
}

func errName(err error) string {
	switch {
	case err == nil:
		return "nil"
	case err == golp.ErrInfeasible:
		return "ErrInfeasible"
	case err == golp.ErrUnbounded:
		return "ErrUnbounded"
	case err == golp.ErrSingular:
		return "ErrSingular"
	case err == golp.ErrBland:
		return "ErrBland"
	case err == golp.ErrLinSolve:
		return "ErrLinSolve"
	case err == golp.ErrZeroRow:
		return "ErrZeroRow"
	case err == golp.ErrZeroColumn:
		return "ErrZeroColumn"
	case strings.HasPrefix(err.Error(), "lp: error finding feasible basis"):
		return "PhaseIError"
	}
	return "other"
}

var wantErr = map[string]error{
	"infeasible": golp.ErrInfeasible,
	"unbounded":  golp.ErrUnbounded,
	"singular":   golp.ErrSingular,
}

type state struct {
	sum     *core.Summary
	hangs   int
	hungNow bool   // a call of the current program hung: its remaining calls are skipped
	grep    string // general form: the representation of G / A behind the current call (for failure cases)
	arep    string
}

func ratOf(f float64) *big.Rat {
	r := new(big.Rat)
	if math.IsNaN(f) || math.IsInf(f, 0) {
		return nil
	}
	r.SetFloat64(f)
	return r
}

// judge one call of Simplex on the standard-form data (c, A, b) against the verdict of the spec.
// variant is "nil" (no initial basis), "ib" (explicit feasible initial basis) or "conv" (after Convert);
// with the suffix "-again" the judged call is the SECOND of two consecutive calls made with the very
// same slices and matrix (Simplex is a function of its arguments: whatever it keeps or does to its
// operands, the answer to the same data is the same).  The documentation does not say that the
// operands are left untouched: if the first call changed them the second one is not judged, only counted.
func (s *state) simplex(c *lpCase, variant string, cv []float64, A *mat.Dense, bv []float64, tol float64, ib []int, checkPoint bool) {
	sum := s.sum
	if s.hungNow {
		sum.Count("calls_skipped_after_hang", 1)
		return
	}
	var (
		optF float64
		optX []float64
		err  error
	)
	// private copies: the call must not depend on (or be able to disturb) the case data
	cc := append([]float64(nil), cv...)
	bc := append([]float64(nil), bv...)
	var ibc []int
	if ib != nil {
		ibc = append([]int{}, ib...)
	}
	Ac := mat.DenseCopyOf(A)
	again := strings.HasSuffix(variant, "-again")
	if again {
		first := core.CallTimeout(watchdog, func() { golp.Simplex(cc, Ac, bc, tol, ibc) })
		if first.Hung {
			s.hangs++
			s.hungNow = true
		}
		if first.Hung || first.Panicked {
			sum.Count("again_first_call_did_not_return_normally", 1) // reported by the plain variant
			return
		}
		same := mat.Equal(Ac, A) && len(cc) == len(cv) && len(bc) == len(bv) && len(ibc) == len(ib)
		for i := range cc {
			same = same && math.Float64bits(cc[i]) == math.Float64bits(cv[i])
		}
		for i := range bc {
			same = same && math.Float64bits(bc[i]) == math.Float64bits(bv[i])
		}
		for i := range ibc {
			same = same && ibc[i] == ib[i]
		}
		if !same {
			sum.Count("again_operands_modified_by_simplex_not_judged", 1)
			return
		}
	}
	out := core.CallTimeout(watchdog, func() {
		optF, optX, err = golp.Simplex(cc, Ac, bc, tol, ibc)
	})
	sum.Cases++
	sum.Count("calls_"+variant, 1)
	fc := *c
	fc.Only = &only{IB: ib, Tol: tol, Again: again, GRep: s.grep, ARep: s.arep}
	// signature: lp:simplex:<variant>:<kind>:<square|wide>:<degenerate|nondegenerate>
	// (square: m == n, Simplex takes its linear-solve path; degenerate: some feasible basis of the
	// program has a zero basic variable - the only situation in which pivoting can stall or cycle)
	shape := ":wide"
	if len(bv) == len(cv) {
		shape = ":square"
	}
	if c.Degen {
		shape += ":degenerate"
	} else {
		shape += ":nondegenerate"
	}
	sig := func(kind string) string { return "lp:simplex:" + variant + ":" + kind + shape + sigTag }
	desc := fmt.Sprintf("spec: %s", c.Cls)
	if c.Cls == "optimal" {
		desc += fmt.Sprintf(" value %d/%d", c.Num, c.Den)
	}
	desc += fmt.Sprintf("; tol=%g initialBasic=%v", tol, ib)
	if out.Hung {
		s.hangs++
		s.hungNow = true
		sum.Fail(sig("hang"), "Simplex did not return within "+watchdog.String()+"; "+desc, fc)
		return
	}
	if out.Panicked {
		sum.Fail(sig("panic"), fmt.Sprintf("Simplex panicked: %s; %s", out.Text, desc), fc)
		return
	}
	en := errName(err)
	sum.Count("ret_"+en, 1)
	if c.Excl {
		// zero row / zero column: the documentation promises "an error", nothing more
		if err == nil {
			sum.Fail(sig("excluded-input-accepted"), "A has a zero row or column but Simplex returned no error; "+desc, fc)
		}
		return
	}
	if c.Cls != "optimal" {
		if err != wantErr[c.Cls] {
			sum.Fail(sig("wrong-class:"+c.Cls+":"+en), fmt.Sprintf("Simplex returned err=%v (optF=%v); %s", err, optF, desc), fc)
		}
		return
	}
	if err != nil {
		sum.Fail(sig("error-on-optimal:"+en), fmt.Sprintf("Simplex returned err=%v (optF=%v, x=%v) on a program with a finite optimum; %s", err, optF, optX, desc), fc)
		return
	}
	// the program has a finite optimum: the returned point must be feasible and optimal to tol
	rtol := ratOf(tol)
	val := big.NewRat(c.Num, c.Den)
	bound := new(big.Rat).Abs(val)
	bound.Add(bound, big.NewRat(1, 1)).Mul(bound, rtol)
	closeTo := func(f float64) bool {
		r := ratOf(f)
		if r == nil {
			return false
		}
		d := new(big.Rat).Sub(r, val)
		return d.Abs(d).Cmp(bound) <= 0
	}
	if !closeTo(optF) {
		sum.Fail(sig("suboptimal"), fmt.Sprintf("Simplex returned optF=%v, x=%v with err=nil; %s", optF, optX, desc), fc)
		return
	}
	if !checkPoint {
		return
	}
	if len(optX) != len(cv) {
		sum.Fail(sig("bad-x-length"), fmt.Sprintf("len(x)=%d, want %d; %s", len(optX), len(cv), desc), fc)
		return
	}
	negtol := new(big.Rat).Neg(rtol)
	xs := make([]*big.Rat, len(optX))
	for j, v := range optX {
		xs[j] = ratOf(v)
		if xs[j] == nil || xs[j].Cmp(negtol) < 0 {
			sum.Fail(sig("infeasible-point"), fmt.Sprintf("x[%d]=%v < -tol; x=%v; %s", j, v, optX, desc), fc)
			return
		}
	}
	m, n := A.Dims()
	for i := 0; i < m; i++ {
		r := new(big.Rat)
		for j := 0; j < n; j++ {
			r.Add(r, new(big.Rat).Mul(ratOf(A.At(i, j)), xs[j]))
		}
		r.Sub(r, ratOf(bv[i]))
		if r.Abs(r).Cmp(rtol) > 0 {
			f, _ := r.Float64()
			sum.Fail(sig("infeasible-point"), fmt.Sprintf("|A x - b|[%d]=%g > tol; x=%v; %s", i, f, optX, desc), fc)
			return
		}
	}
	cx := new(big.Rat)
	for j := range xs {
		cx.Add(cx, new(big.Rat).Mul(ratOf(cv[j]), xs[j]))
	}
	d := new(big.Rat).Sub(cx, val)
	if d.Abs(d).Cmp(bound) > 0 {
		f, _ := cx.Float64()
		sum.Fail(sig("suboptimal"), fmt.Sprintf("c.x=%g at the returned x=%v (optF=%v); %s", f, optX, optF, desc), fc)
	}
}

func rotate(b []int, k int) []int {
	r := make([]int, len(b))
	for i := range b {
		r[i] = b[(i+k)%len(b)]
	}
	return r
}

func (s *state) standard(c *lpCase, seed int64) {
	A := dense(c.A, c.N)
	if A == nil || len(c.A) != c.M || len(c.B) != c.M || len(c.C) != c.N {
		s.sum.Fail("lp:harness:bad-case", "malformed case", c)
		return
	}
	if c.Only != nil {
		v := variantOf(c.Only.IB)
		if c.Only.Again {
			v += "-again"
		}
		s.simplex(c, v, c.C, A, c.B, c.Only.Tol, c.Only.IB, true)
		return
	}
	for _, tol := range tols {
		s.simplex(c, "nil", c.C, A, c.B, tol, nil, true)
	}
	// the same slices used for two consecutive calls
	s.simplex(c, "nil-again", c.C, A, c.B, tols[int(seed+int64(c.ID))%2], nil, true)
	if c.Excl || c.M == c.N {
		return
	}
	// every feasible basis the spec named, as an explicit initial basis (in the spec's order
	// and in one seed-chosen rotation of it: the order of initialBasic carries no meaning)
	for i, fb := range c.FB {
		s.simplex(c, "ib", c.C, A, c.B, tols[0], fb, true)
		if k := int((seed + int64(c.ID) + int64(i)) % int64(len(fb))); k != 0 {
			s.simplex(c, "ib", c.C, A, c.B, tols[(i+int(seed))%2], rotate(fb, k), true)
		}
	}
	if len(c.FB) > 0 {
		// (after the plain calls: a hang of this basis has then been reported by them)
		fb := c.FB[int(seed+int64(c.ID))%len(c.FB)]
		s.simplex(c, "ib-again", c.C, A, c.B, tols[0], fb, true)
	}
}

func variantOf(ib []int) string {
	if ib == nil {
		return "nil"
	}
	return "ib"
}

// ---- representations of one and the same general-form program ---------------------------------
//
// Convert takes G and A as mat.Matrix and h, b, c as slices.  The class and the optimum LpConvert.tla
// printed belong to the VALUES; how the caller stores them is not part of the program.  Every
// general-form program is therefore handed over in several storage forms (operand builders only:
// the values are the case's values, the surroundings are junk that must never be read or written):
//
//	dense  a compact *mat.Dense (stride = columns)
//	view   a Slice view into a wider and taller junk-filled *mat.Dense whose extra columns hold
//	       the right-hand side (G cut out of an augmented [junk | G | h | junk]): stride != columns,
//	       data offset != 0
//	trans  the transpose view T() of a compact Dense that stores the transposed values
//	iface  a user type that implements mat.Matrix and nothing else (no RawMatrixer, no fast path);
//	       its At panics outside the matrix like every gonum matrix does
//
// and the slices either as exact allocations ("plain") or as windows of longer junk-filled arrays
// with spare capacity ("sub").  After Convert every operand, the junk included, must be bit for bit
// what it was: Convert returns NEW data and has no business writing to its inputs.

// onlyMatrix implements mat.Matrix and nothing more.
type onlyMatrix struct {
	r, c int
	data []float64
}

func (m *onlyMatrix) Dims() (int, int) { return m.r, m.c }
func (m *onlyMatrix) At(i, j int) float64 {
	if i < 0 || i >= m.r || j < 0 || j >= m.c {
		panic(fmt.Sprintf("onlyMatrix: index (%d,%d) outside %dx%d", i, j, m.r, m.c))
	}
	return m.data[i*m.c+j]
}
func (m *onlyMatrix) T() mat.Matrix { return mat.Transpose{Matrix: m} }

func junk(i int) float64 { return float64(1000+37*i-91*(i%5)) * float64(1-2*(i%2)) }

// operand is one stored operand together with everything around it that must stay untouched.
type operand struct {
	what    string
	backing []float64 // the whole allocation (junk included)
	orig    []float64 // its content before the call
}

func (o *operand) changed() string {
	for i := range o.backing {
		if math.Float64bits(o.backing[i]) != math.Float64bits(o.orig[i]) {
			return fmt.Sprintf("%s: element %d of its storage changed from %v to %v", o.what, i, o.orig[i], o.backing[i])
		}
	}
	return ""
}

func watch(what string, backing []float64) *operand {
	return &operand{what: what, backing: backing, orig: append([]float64(nil), backing...)}
}

// matRep stores rows (r x cols, r >= 1) in the named representation; rhs is put next to it in the view form.
func matRep(rep, what string, rows [][]float64, cols int, rhs []float64) (mat.Matrix, *operand) {
	r := len(rows)
	switch rep {
	case "view":
		R, C := r+2, cols+3
		data := make([]float64, R*C)
		for i := range data {
			data[i] = junk(i)
		}
		for i, row := range rows {
			copy(data[(i+1)*C+1:], row)
			if i < len(rhs) {
				data[(i+1)*C+1+cols] = rhs[i]
			}
		}
		w := mat.NewDense(R, C, data)
		return w.Slice(1, r+1, 1, cols+1), watch(what+"(view of a wider matrix)", data)
	case "trans":
		data := make([]float64, cols*r)
		for i, row := range rows {
			for j, v := range row {
				data[j*r+i] = v
			}
		}
		return mat.NewDense(cols, r, data).T(), watch(what+"(transpose view)", data)
	case "iface":
		data := make([]float64, r*cols)
		for i, row := range rows {
			copy(data[i*cols:], row)
		}
		return &onlyMatrix{r: r, c: cols, data: data}, watch(what+"(plain mat.Matrix)", data)
	}
	data := make([]float64, r*cols)
	for i, row := range rows {
		copy(data[i*cols:], row)
	}
	return mat.NewDense(r, cols, data), watch(what+"(compact Dense)", data)
}

// vecRep stores v exactly ("plain") or as a window with spare capacity of a longer junk-filled array.
func vecRep(sub bool, what string, v []float64) ([]float64, *operand) {
	if !sub {
		c := append([]float64(nil), v...)
		return c, watch(what, c[:len(c):len(c)])
	}
	back := make([]float64, len(v)+5)
	for i := range back {
		back[i] = junk(i + 3)
	}
	copy(back[2:], v)
	return back[2 : 2+len(v)], watch(what+"(window of a longer array)", back)
}

var convReps = []string{"dense", "view", "trans", "iface"}

// general form: min c.x  s.t.  G x <= h,  A x = b  (x free);  Convert, then Simplex.
func (s *state) general(c *lpCase, seed int64) {
	type pair struct{ g, a string }
	var pairs []pair
	if c.Only != nil {
		pairs = []pair{{c.Only.GRep, c.Only.ARep}}
	} else {
		for _, r := range convReps {
			pairs = append(pairs, pair{r, r})
		}
		// two mixed pairs, seed-chosen among the twelve
		k := int((seed + int64(c.ID)) % 12)
		for t := 0; t < 2; t++ {
			kk := (k + 5*t) % 12
			g := kk / 3
			a := kk % 3
			if a >= g {
				a++
			}
			pairs = append(pairs, pair{convReps[g], convReps[a]})
		}
	}
	for _, p := range pairs {
		if p.g == "" {
			p.g = "dense"
		}
		if p.a == "" {
			p.a = "dense"
		}
		s.generalRep(c, p.g, p.a)
	}
}

func (s *state) generalRep(c *lpCase, grep, arep string) {
	nv := len(c.C)
	compact := grep == "dense" && arep == "dense"
	variant := "conv"
	if !compact {
		variant = "conv-rep" // G / A / the vectors are not compact allocations
	}
	fc := *c
	fc.Only = &only{Tol: tols[0], GRep: grep, ARep: arep}
	if c.Only != nil {
		fc.Only.Tol = c.Only.Tol
	}
	var ops []*operand
	var gm, am mat.Matrix // nil interfaces when there are no rows (as the documentation allows)
	if len(c.G) > 0 {
		m, o := matRep(grep, "G", c.G, nv, c.H)
		gm, ops = m, append(ops, o)
	}
	if len(c.A) > 0 {
		m, o := matRep(arep, "A", c.A, nv, c.B)
		am, ops = m, append(ops, o)
	}
	cv, oc := vecRep(!compact, "c", c.C)
	hv, oh := vecRep(!compact, "h", c.H)
	bv, ob := vecRep(!compact, "b", c.B)
	ops = append(ops, oc, oh, ob)
	var (
		cNew, bNew []float64
		aNew       *mat.Dense
	)
	out := core.Call(func() {
		cNew, aNew, bNew = golp.Convert(cv, gm, hv, am, bv)
	})
	switch {
	case compact:
		s.sum.Count("convert_compact_dense", 1)
	case grep == arep:
		s.sum.Count("convert_"+grep, 1)
	default:
		s.sum.Count("convert_mixed_representations", 1)
	}
	if out.Panicked {
		s.sum.Cases++
		s.sum.Fail("lp:convert:panic", fmt.Sprintf("Convert panicked on a well-shaped general-form program (G as %s, A as %s): %s", grep, arep, out.Text), fc)
		return
	}
	unchanged := func(when string) bool {
		for _, o := range ops {
			if msg := o.changed(); msg != "" {
				s.sum.Cases++
				s.sum.Fail("lp:convert:input-modified", fmt.Sprintf("%s (G as %s, A as %s): %s", when, grep, arep, msg), fc)
				return false
			}
		}
		return true
	}
	if !unchanged("Convert wrote to its operands") {
		return
	}
	tl := tols
	if c.Only != nil {
		tl = []float64{c.Only.Tol}
	}
	for _, tol := range tl {
		// the layout of the standard-form variables is not part of Convert's contract: only class and value are judged
		s.grep, s.arep = grep, arep
		s.simplex(c, variant, cNew, aNew, bNew, tol, nil, false)
		s.grep, s.arep = "", ""
	}
}

func replay(in *core.Lines, args []string, seed int64, sum *core.Summary) error {
	s := &state{sum: sum}
	for _, a := range args {
		switch {
		case strings.HasPrefix(a, "watchdog="):
			d, err := time.ParseDuration(a[len("watchdog="):])
			if err != nil {
				return err
			}
			watchdog = d
		case strings.HasPrefix(a, "tag="):
			// appended to every failure signature of this replay (used to keep the known cycling
			// finding confined to the classic cycling examples)
			sigTag = ":" + a[len("tag="):]
		case strings.HasPrefix(a, "maxhangs="):
			if _, err := fmt.Sscan(a[len("maxhangs="):], &maxHangs); err != nil {
				return err
			}
		default:
			return errors.New("unknown argument " + a)
		}
	}
	for {
		line, ok := in.Next()
		if !ok {
			break
		}
		var c lpCase
		if err := json.Unmarshal(line, &c); err != nil {
			return errors.New("bad case line: " + err.Error())
		}
		s.hungNow = false
		if s.hangs >= maxHangs {
			// every hung call leaks a spinning goroutine; stop before the machine is saturated
			sum.Count("programs_skipped_after_hangs", 1)
			continue
		}
		before := sum.Cases
		if c.Form == "gen" {
			s.general(&c, seed)
		} else {
			s.standard(&c, seed)
		}
		sum.Count("programs", 1)
		sum.Count("class_"+c.Cls, 1)
		if c.Excl {
			sum.Count("programs_excluded_input", 1)
		} else if c.Cls != "optimal" || c.NCost >= 2 {
			// the answer is not forced: another class, or at least two vertices of different cost
			sum.Nontrivial += sum.Cases - before
		}
		if c.Degen {
			sum.Count("programs_degenerate", 1)
		}
		if c.Only == nil && !c.Excl && (c.Cls == "optimal" && c.NCost >= 3 || c.Cls == "unbounded") {
			c2 := c
			c2.FB, c2.OB = nil, nil
			sum.Sample(c2)
		}
	}
	return nil
}
