package lapackc

import (
	"encoding/json"
	"math"
	"math/big"

	"gonum.org/v1/gonum/blas"
	"gonum.org/v1/gonum/blas/blas64"
	"gonum.org/v1/gonum/lapack/lapack64"

	"gonum.org/v1/gonum/verifharness/internal/core"
)

func init() { families["ls"] = lsFamily }

// buildScaled is build with every element multiplied by 2^e (exact).
func buildScaled(a imat, m, n, ld, extra, e int) []float64 {
	s := build(a, 1, m, n, ld, extra)
	for i := 0; i < m; i++ {
		for j := 0; j < n; j++ {
			s[i*ld+j] = math.Ldexp(s[i*ld+j], e)
		}
	}
	return s
}

// cmpScaled compares got with exp * 2^e within tol * 2^e.
func (k *chk) cmpScaled(routine, what string, got []float64, ld int, exp imat, m, n, e int) bool {
	tol := new(big.Rat).Set(k.tol)
	two := new(big.Rat).SetFloat64(math.Ldexp(1, e))
	tol.Mul(tol, two)
	for i := 0; i < m; i++ {
		for j := 0; j < n; j++ {
			g := got[i*ld+j]
			want := math.Ldexp(float64(exp[i][j]), e)
			k.sum.Count("elements_compared", 1)
			if g == want {
				continue
			}
			k.sum.Count("inexact_elements", 1)
			ok := !math.IsNaN(g) && !math.IsInf(g, 0)
			if ok {
				d := new(big.Rat).SetFloat64(g)
				d.Sub(d, new(big.Rat).SetFloat64(want))
				ok = d.Abs(d).Cmp(tol) <= 0
			}
			if !ok {
				k.fail(routine, "value"+k.tag, "%s[%d][%d] = %v, specification says %d * 2^%d = %v", what, i, j, g, exp[i][j], e, want)
				return false
			}
		}
	}
	return true
}

// lsFamily: planted least squares / minimum norm problems for the four cases of Dgels, with
// power-of-two scalings of A and B that cross the internal safe-scaling thresholds.
func lsFamily(c *inst, raw json.RawMessage, full bool, sum *core.Summary) {
	m, n, nr := c.M, c.N, c.R
	k := &chk{sum: sum, c: raw, fam: "ls", den: 1, tol: tolRat(c.Tol, 1), empty: n == 0 || nr == 0}
	at := transpose(c.A, m, n)
	type cs struct {
		name     string
		tr       blas.Transpose
		rows     int // shape of the array handed to Dgels
		cols     int
		a        imat
		b        imat // right-hand side
		brows    int
		x        imat // expected solution
		xrows    int
		distinct bool // skip when m == n and the case coincides with an earlier one
	}
	cases := []cs{
		{"m>=n NoTrans (least squares)", blas.NoTrans, m, n, c.A, c.B, m, c.X, n, true},
		{"m>=n Trans (minimum norm)", blas.Trans, m, n, c.A, c.BMN, n, c.XMN, m, true},
		{"m<n NoTrans (minimum norm)", blas.NoTrans, n, m, at, c.BMN, n, c.XMN, m, m > n},
		{"m<n Trans (least squares)", blas.Trans, n, m, at, c.B, m, c.X, n, m > n},
	}
	// the scalings of A and B (powers of two, exact) come from the specification: scal for every
	// run, scalx in addition with variants=full; snrhs = the numbers of right-hand sides that the
	// scaled problems are also solved with
	scalings := [][2]int{{0, 0}}
	for _, sc := range c.Scal {
		if sc[0] != 0 || sc[1] != 0 {
			scalings = append(scalings, [2]int{sc[0], sc[1]})
		}
	}
	if full {
		for _, sc := range c.ScalX {
			scalings = append(scalings, [2]int{sc[0], sc[1]})
		}
	}
	nrs := []int{c.R}
	for _, v := range c.SNrhs {
		if v < c.R {
			nrs = append(nrs, v)
		}
	}
	for _, nr := range nrs {
		k.empty = n == 0 || nr == 0
		for _, q := range cases {
			if !q.distinct {
				continue
			}
			mm, nn := q.rows, q.cols
			mn := mini(mm, nn)
			bg := maxi(mm, nn)
			docmin := maxi(1, bg+maxi(bg, nr))
			effmin := maxi(1, mn+maxi(mn, nr))
			for _, lda := range ldas(nn, full) {
				for _, sc := range scalings {
					ea, eb := sc[0], sc[1]
					if nr != c.R && (ea == 0 && eb == 0 || lda != maxi(1, nn)) {
						continue // fewer right-hand sides: only the scaled problems
					}
					for _, routine := range []string{"Dgels", "lapack64.Gels"} {
						if routine == "lapack64.Gels" && (lda != maxi(1, nn) || !full && (ea != 0 || eb != 0) || nr != c.R) {
							continue
						}
						ldb := maxi(1, nr) + lda - maxi(1, nn)
						mkB := func() []float64 {
							ln := 1
							if bg > 0 && nr > 0 {
								ln = (bg-1)*ldb + nr + 1
							}
							b := newWork(ln)
							for i := range b {
								b[i] = padNaN
							}
							for i := 0; i < bg; i++ {
								for j := 0; j < nr; j++ {
									b[i*ldb+j] = workFill // rows beyond the right-hand side: finite filler
									if i < q.brows {
										b[i*ldb+j] = math.Ldexp(float64(q.b[i][j]), eb)
									}
								}
							}
							b[len(b)-1] = tailNaN
							return b
						}
						a := buildScaled(q.a, mm, nn, lda, 1, ea)
						b := mkB()
						k.where = desc(routine, q.name, "query", "m", mm, "n", nn, "nrhs", nr)
						opt, qok := k.query(routine, effmin, func(w []float64) { impl.Dgels(q.tr, mm, nn, nr, a, lda, b, ldb, w, -1) }, a, b)
						if !qok {
							continue
						}
						lworks := lworkVariants(docmin, maxi(opt, docmin), full)
						if opt >= effmin && opt < docmin {
							lworks = append(lworks, opt)
						}
						if (ea != 0 || eb != 0) && !full || nr != c.R {
							lworks = lworks[:1]
						}
						for _, lwork := range lworks {
							k.where = desc(routine, q.name, "m", mm, "n", nn, "nrhs", nr, "lda", lda, "ldb", ldb, "lwork", lwork, "A*2^", ea, "B*2^", eb, "variant", c.V)
							a := buildScaled(q.a, mm, nn, lda, 1, ea)
							b := mkB()
							work := newWork(lwork)
							var ok bool
							ran := k.run(routine, func() {
								if routine == "Dgels" {
									ok = impl.Dgels(q.tr, mm, nn, nr, a, lda, b, ldb, work, lwork)
								} else {
									ok = lapack64.Gels(q.tr, blas64.General{Rows: mm, Cols: nn, Stride: lda, Data: a},
										blas64.General{Rows: bg, Cols: nr, Stride: ldb, Data: b}, work, lwork)
								}
							})
							sum.Cases++
							if mn >= 2 {
								sum.Nontrivial++
							}
							if mn > 128 || forcedNB > 1 && forcedNB < mn {
								sum.Count("calls_on_blocked_sizes", 1)
							}
							if ea != 0 || eb != 0 {
								sum.Count("scaled_calls", 1)
							}
							if !ran {
								continue
							}
							k.cmpPad(routine, "a", a, lda, mm, nn)
							k.cmpPad(routine, "b", b, ldb, bg, nr)
							if mn == 0 || nr == 0 {
								continue
							}
							allZero := true
							for _, row := range c.A {
								for _, v := range row {
									allZero = allZero && v == 0
								}
							}
							if allZero {
								continue // A = 0: the zero solution with ok = true is the LAPACK convention
							}
							if ok != c.Ok {
								k.fail(routine, "ok", "ok = %v, specification says %v (zero planted on the diagonal of R0 at %d)", ok, c.Ok, c.Kz)
								continue
							}
							if !c.Ok {
								continue
							}
							k.tag = ""
							switch {
							case ea > 900:
								k.tag = ":scaled:anrm-gt-bignum" // max|A| above the safe-scaling threshold
							case (ea != 0 || eb != 0) && q.tr == blas.Trans && mm < nn:
								k.tag = ":scaled:mltn-trans"
							case ea != 0 || eb != 0:
								k.tag = ":scaled"
							}
							if !k.cmpScaled(routine, "X", b, ldb, q.x, q.xrows, nr, eb-ea) {
								sum.Count(desc("wrong solution:", q.name, "A*2^", ea, "B*2^", eb), 1)
							}
							k.tag = ""
						}
					}
				}
			}
		}
	}
}
