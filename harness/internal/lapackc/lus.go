package lapackc

import (
	"encoding/json"
	"math"

	"gonum.org/v1/gonum/blas"
	"gonum.org/v1/gonum/blas/blas64"
	"gonum.org/v1/gonum/lapack/lapack64"

	"gonum.org/v1/gonum/verifharness/internal/core"
)

func init() { families["lus"] = lusFamily }

// buildExp is build with every element multiplied by 2^e (exact: PlantedXLemmas!LusLemma bounds
// the exponents so that every scaled value is a float64, subnormal ones included).
func buildExp(a imat, den int64, m, n, ld, extra, e int) []float64 {
	s := build(a, den, m, n, ld, extra)
	for i := 0; i < m; i++ {
		for j := 0; j < n; j++ {
			s[i*ld+j] = math.Ldexp(s[i*ld+j], e)
		}
	}
	return s
}

// cmpExact compares the region sel of got bit for bit (as numbers) with exp/den * 2^e(i,j).
func (k *chk) cmpExact(routine, what string, got []float64, ld int, exp imat, den int64, m, n int, e func(i, j int) int) {
	for i := 0; i < m; i++ {
		for j := 0; j < n; j++ {
			want := math.Ldexp(val(exp[i][j], den), e(i, j))
			k.sum.Count("elements_compared", 1)
			if got[i*ld+j] != want {
				k.fail(routine, "value:extreme-scale", "%s[%d][%d] = %v, specification says %d/%d * 2^%d = %v (every operation is exact on this instance)",
					what, i, j, got[i*ld+j], exp[i][j], den, e(i, j), want)
				return
			}
		}
	}
}

// lusFamily: the planted LU instance scaled by 2^sc (sub-safe-minimum / subnormal pivots, entries
// near 2^1000).  Expected: ok, ipiv, L (unscaled) and 2^sc * U exactly; for sc > 0 also the solves.
func lusFamily(c *inst, raw json.RawMessage, full bool, sum *core.Summary) {
	m, n, sc := c.M, c.N, c.Sc
	mn := mini(m, n)
	k := &chk{sum: sum, c: raw, fam: "lus", den: c.Den, tol: tolRat(0, 1)}
	count := func() {
		sum.Cases++
		if mn >= 2 {
			sum.Nontrivial++
		}
		if mn > 64 || forcedNB > 0 && forcedNB < mn {
			sum.Count("calls_on_blocked_sizes", 1)
		}
		if sc < -1022 {
			sum.Count("calls_with_sub_safe_minimum_pivots", 1)
		}
	}
	expo := func(i, j int) int {
		if i > j {
			return 0 // multipliers are not scaled
		}
		return sc
	}
	checkFactor := func(routine string, a []float64, lda int, ipiv []int, ok bool) {
		if ok != c.Ok {
			k.fail(routine, "ok:extreme-scale", "ok = %v, specification says %v (zero pivot planted at column %d)", ok, c.Ok, c.Kz)
		}
		for i := range ipiv {
			if ipiv[i] != c.Ipiv[i] {
				k.fail(routine, "ipiv:extreme-scale", "ipiv[%d] = %d, specification says %d (unique pivot)", i, ipiv[i], c.Ipiv[i])
				break
			}
		}
		k.cmpExact(routine, "LU", a, lda, c.LU, c.Den, m, n, expo)
		k.cmpPad(routine, "a", a, lda, m, n)
	}
	for _, lda := range ldas(n, full) {
		for _, routine := range []string{"Dgetf2", "Dgetrf", "lapack64.Getrf"} {
			k.where = desc(routine, "m", m, "n", n, "lda", lda, "variant", c.V, "A*2^", sc)
			a := buildExp(c.A, c.Den, m, n, lda, 2, sc)
			ipiv := make([]int, mn)
			for i := range ipiv {
				ipiv[i] = -77
			}
			var ok bool
			ran := k.run(routine, func() {
				switch routine {
				case "Dgetf2":
					ok = impl.Dgetf2(m, n, a, lda, ipiv)
				case "Dgetrf":
					ok = impl.Dgetrf(m, n, a, lda, ipiv)
				default:
					ok = lapack64.Getrf(blas64.General{Rows: m, Cols: n, Stride: lda, Data: a}, ipiv)
				}
			})
			count()
			if ran {
				checkFactor(routine, a, lda, ipiv, ok)
			}
		}
	}
	if m != n || c.R == 0 {
		return
	}
	// ---- solves (the specification emits right-hand sides only for sc > 0) -------------------
	noSc := func(i, j int) int { return 0 }
	for _, lda := range ldas(n, false) {
		for _, nrhs := range []int{c.R, 1} {
			ldb := maxi(1, nrhs) + lda - maxi(1, n)
			for _, tr := range []blas.Transpose{blas.NoTrans, blas.Trans, blas.ConjTrans} {
				k.where = desc("Dgetrs", "trans", tr != blas.NoTrans, "n", n, "nrhs", nrhs, "lda", lda, "ldb", ldb, "A*2^", sc)
				a := build(c.LU, c.Den, n, n, lda, 1)
				for i := 0; i < n; i++ {
					for j := i; j < n; j++ {
						a[i*lda+j] = math.Ldexp(a[i*lda+j], sc)
					}
				}
				rhs := c.B
				if tr != blas.NoTrans {
					rhs = c.BT
				}
				b := buildExp(rhs, c.Den, n, nrhs, ldb, 1, sc)
				ipiv := append([]int(nil), c.Ipiv...)
				if k.run("Dgetrs", func() { impl.Dgetrs(tr, n, nrhs, a, lda, ipiv, b, ldb) }) {
					count()
					k.cmpExact("Dgetrs", "X", b, ldb, c.X, 1, n, nrhs, noSc)
					k.cmpPad("Dgetrs", "b", b, ldb, n, nrhs)
				}
			}
			k.where = desc("Dgesv", "n", n, "nrhs", nrhs, "lda", lda, "ldb", ldb, "A*2^", sc)
			a := buildExp(c.A, c.Den, n, n, lda, 1, sc)
			b := buildExp(c.B, c.Den, n, nrhs, ldb, 1, sc)
			ipiv := make([]int, n)
			var ok bool
			if k.run("Dgesv", func() { ok = impl.Dgesv(n, nrhs, a, lda, ipiv, b, ldb) }) {
				count()
				checkFactor("Dgesv", a, lda, ipiv, ok)
				k.cmpExact("Dgesv", "X", b, ldb, c.X, 1, n, nrhs, noSc)
				k.cmpPad("Dgesv", "b", b, ldb, n, nrhs)
			}
		}
	}
}
