package lapackc

import (
	"encoding/json"
	"math"
	"math/big"

	"gonum.org/v1/gonum/blas"
	"gonum.org/v1/gonum/blas/blas64"
	"gonum.org/v1/gonum/lapack"
	"gonum.org/v1/gonum/lapack/lapack64"

	"gonum.org/v1/gonum/verifharness/internal/core"
)

func init() { families["nrm"] = nrmFamily }

// nrmItem is one structured matrix of PlantedX!NrmInst: E0 / EF are the effective full matrices
// (zeros outside the structure, mirrored when symmetric, ones on a unit diagonal); n3 = max / one /
// infinity norm of E0, fro = Frobenius norm of EF (an integer; -1: not judged).
type nrmItem struct {
	Kind string  `json:"kind"`
	Up   bool    `json:"up"`
	Unit bool    `json:"unit"`
	Kd   int     `json:"kd"`
	Ku   int     `json:"ku"` // gb: number of super-diagonals (kd = number of sub-diagonals)
	R    int     `json:"r"`
	C    int     `json:"c"`
	E0   imat    `json:"E0"`
	EF   imat    `json:"EF"`
	N3   []int64 `json:"n3"`
	Fro  int64   `json:"fro"`
	TolF int64   `json:"tolF"`
	Exps []int   `json:"exps"` // Frobenius: EF is also scaled by 2^e for these e
}

// nrmFamily: Dlange, Dlansy, Dlantr, Dlansb, Dlangt, Dlanst (and the lapack64 wrappers) on
// integer matrices: max / one / infinity norms exactly, the Frobenius norm on data whose sum of
// squares is a perfect square, also scaled by 2^+-1000 (no overflow / underflow: the result is
// the scaled integer within the rounding bound tolF).
func nrmFamily(c *inst, raw json.RawMessage, full bool, sum *core.Summary) {
	k := &chk{sum: sum, c: raw, fam: "nrm", den: 1, tol: tolRat(0, 1)}
	norms := []lapack.MatrixNorm{lapack.MaxAbs, lapack.MaxColumnSum, lapack.MaxRowSum, lapack.Frobenius}
	for _, it := range c.Items {
		it := it
		r, cc := it.R, it.C
		uplos := []bool{it.Up}
		if it.Kind == "sy" || it.Kind == "sb" {
			uplos = []bool{true, false}
		}
		ldv := ldas(cc, full)
		switch it.Kind {
		case "sb":
			ldv = []int{it.Kd + 1, it.Kd + 3}
		case "gt", "st":
			ldv = []int{1}
		case "tb":
			ldv = []int{it.Kd + 1, it.Kd + 3}
		case "gb":
			ldv = []int{it.Kd + it.Ku + 1, it.Kd + it.Ku + 3}
		}
		for _, up := range uplos {
			ul := blas.Lower
			if up {
				ul = blas.Upper
			}
			dg := blas.NonUnit
			if it.Unit {
				dg = blas.Unit
			}
			for _, ld := range ldv {
				for ni, norm := range norms {
					exps := []int{0}
					src := it.E0
					if norm == lapack.Frobenius {
						if it.Fro < 0 {
							sum.Count("frobenius_not_plantable", 1)
							continue
						}
						exps = it.Exps
						src = it.EF
					}
					for _, e := range exps {
						// ---- storage of the structure ------------------------------------------
						var a, d1, d2, d3 []float64
						sc := func(v int64) float64 { return math.Ldexp(float64(v), e) }
						switch it.Kind {
						case "ge", "sy", "tr":
							a = build(src, 1, r, cc, ld, 1)
							for i := 0; i < r; i++ {
								for j := 0; j < cc; j++ {
									a[i*ld+j] = sc(src[i][j])
									out := it.Kind != "ge" && (up && j < i || !up && j > i)
									if out || it.Kind == "tr" && it.Unit && i == j {
										a[i*ld+j] = triNaN // not referenced
									}
								}
							}
						case "hs":
							a = build(src, 1, r, cc, ld, 1)
							for i := 0; i < r; i++ {
								for j := 0; j < cc; j++ {
									a[i*ld+j] = sc(src[i][j])
									if j < i-1 {
										a[i*ld+j] = triNaN // below the subdiagonal: not referenced
									}
								}
							}
						case "gb":
							// row-major band storage: A[i][j] at ab[i*ld + kl + j - i]
							nr := mini(r, cc+it.Kd)
							a = make([]float64, nr*ld+1)
							for i := range a {
								a[i] = triNaN
							}
							a[len(a)-1] = tailNaN
							for i := 0; i < nr; i++ {
								for j := maxi(0, i-it.Kd); j <= mini(cc-1, i+it.Ku); j++ {
									a[i*ld+it.Kd+j-i] = sc(src[i][j])
								}
							}
							if r == 0 || cc == 0 {
								a = []float64{tailNaN}
							}
						case "sb", "tb":
							a = packBand(src, r, it.Kd, ld, up, false)
							for i := range a {
								if !math.IsNaN(a[i]) {
									a[i] = math.Ldexp(a[i], e)
								}
							}
							if it.Kind == "tb" && it.Unit {
								for i := 0; i < r; i++ {
									a[bandIndex(up, it.Kd, ld, i, i)] = triNaN // unit diagonal: not referenced
								}
							}
						case "gt", "st":
							d1, d2, d3 = make([]float64, maxi(0, r-1)), make([]float64, r), make([]float64, maxi(0, r-1))
							for i := 0; i < r; i++ {
								d2[i] = sc(src[i][i])
								if i+1 < r {
									d1[i] = sc(src[i+1][i])
									d3[i] = sc(src[i][i+1])
								}
							}
						}
						a0, d10, d20, d30 := cloneF(a), cloneF(d1), cloneF(d2), cloneF(d3)
						work := newWork(maxi(r, cc) + 1)
						w := work[:maxi(r, cc)]
						routines := map[string][]string{"ge": {"Dlange", "lapack64.Lange"}, "sy": {"Dlansy", "lapack64.Lansy"},
							"tr": {"Dlantr", "lapack64.Lantr"}, "sb": {"Dlansb", "lapack64.Lansb"}, "gt": {"Dlangt", "lapack64.Langt"}, "st": {"Dlanst"},
							"hs": {"Dlanhs"}, "gb": {"Dlangb", "lapack64.Langb"}, "tb": {"Dlantb", "lapack64.Lantb"}}[it.Kind]
						for _, routine := range routines {
							if routine == "lapack64.Lantr" && r != cc {
								continue // the wrapper takes a square blas64.Triangular
							}
							if routine[0] == 'l' && !full && (ld != ldv[0] || e != 0) {
								continue
							}
							k.where = desc(routine, "norm", string(norm), "kind", it.Kind, "upper", up, "unit", it.Unit, "r", r, "c", cc, "kd", it.Kd, "ld", ld, "data*2^", e)
							var got float64
							ran := k.run(routine, func() {
								switch routine {
								case "Dlange":
									got = impl.Dlange(norm, r, cc, a, ld, w)
								case "lapack64.Lange":
									got = lapack64.Lange(norm, blas64.General{Rows: r, Cols: cc, Stride: ld, Data: a}, w)
								case "Dlansy":
									got = impl.Dlansy(norm, ul, r, a, ld, w)
								case "lapack64.Lansy":
									got = lapack64.Lansy(norm, blas64.Symmetric{N: r, Stride: ld, Data: a, Uplo: ul}, w)
								case "Dlantr":
									got = impl.Dlantr(norm, ul, dg, r, cc, a, ld, w)
								case "lapack64.Lantr":
									got = lapack64.Lantr(norm, blas64.Triangular{N: r, Stride: ld, Data: a, Uplo: ul, Diag: dg}, w)
								case "Dlansb":
									got = impl.Dlansb(norm, ul, r, it.Kd, a, ld, w)
								case "lapack64.Lansb":
									got = lapack64.Lansb(norm, blas64.SymmetricBand{N: r, K: it.Kd, Stride: ld, Data: a, Uplo: ul}, w)
								case "Dlangt":
									got = impl.Dlangt(norm, r, d1, d2, d3)
								case "lapack64.Langt":
									got = lapack64.Langt(norm, lapack64.Tridiagonal{N: r, DL: d1, D: d2, DU: d3})
								case "Dlanst":
									got = impl.Dlanst(norm, r, d2, d1)
								case "Dlanhs":
									got = impl.Dlanhs(norm, r, a, ld, w)
								case "Dlangb":
									got = impl.Dlangb(norm, r, cc, it.Kd, it.Ku, a[:len(a)-1], ld)
								case "lapack64.Langb":
									got = lapack64.Langb(norm, blas64.Band{Rows: r, Cols: cc, KL: it.Kd, KU: it.Ku, Stride: ld, Data: a[:len(a)-1]})
								case "Dlantb":
									got = impl.Dlantb(norm, ul, dg, r, it.Kd, a, ld, w)
								case "lapack64.Lantb":
									got = lapack64.Lantb(norm, blas64.TriangularBand{N: r, K: it.Kd, Stride: ld, Data: a, Uplo: ul, Diag: dg}, w)
								}
							})
							sum.Cases++
							if r >= 2 && cc >= 2 {
								sum.Nontrivial++
							}
							if e != 0 {
								sum.Count("norms_of_data_scaled_by_2^+-1000", 1)
							}
							if !ran {
								continue
							}
							k.cmpSame(routine, "matrix (input only)", a, a0)
							k.cmpSame(routine, "dl / e (input only)", d1, d10)
							k.cmpSame(routine, "d (input only)", d2, d20)
							k.cmpSame(routine, "du (input only)", d3, d30)
							if work[len(work)-1] != workFill {
								k.fail(routine, "touch", "work was written beyond max(m,n)")
							}
							if norm != lapack.Frobenius {
								if got != float64(it.N3[ni]) {
									k.fail(routine, "value", "norm %c = %v, specification says %d", norm, got, it.N3[ni])
								}
								continue
							}
							want := math.Ldexp(float64(it.Fro), e)
							sum.Count("frobenius_norms_compared", 1)
							if got == want {
								continue
							}
							sum.Count("frobenius_norms_inexact", 1)
							okv := !math.IsNaN(got) && !math.IsInf(got, 0)
							if okv {
								// |got - fro*2^e| <= tolF * eps * 2^e  (exact rationals)
								d := new(big.Rat).SetFloat64(got)
								d.Sub(d, new(big.Rat).SetFloat64(want))
								t := tolRat(it.TolF, 1)
								t.Mul(t, new(big.Rat).SetFloat64(math.Ldexp(1, e)))
								okv = d.Abs(d).Cmp(t) <= 0
							}
							if !okv {
								tag := ""
								if e != 0 {
									tag = ":scaled"
								}
								k.fail(routine, "frobenius"+tag, "Frobenius norm = %v, specification says %d * 2^%d = %v (sum of squares is the perfect square %d^2)", got, it.Fro, e, want, it.Fro)
							}
						}
					}
				}
			}
		}
	}
}
