package lapackc

import (
	"encoding/json"

	"gonum.org/v1/gonum/blas"
	"gonum.org/v1/gonum/blas/blas64"
	"gonum.org/v1/gonum/lapack/lapack64"

	"gonum.org/v1/gonum/verifharness/internal/core"
)

func init() { families["qr"] = qrFamily }

func transpose(a imat, m, n int) imat {
	t := make(imat, n)
	for j := range t {
		t[j] = make([]int64, m)
		for i := 0; i < m; i++ {
			t[j][i] = a[i][j]
		}
	}
	return t
}

// lworkVariants returns the lwork values to try for a routine whose documented minimum is
// minw and whose query answered opt; nb-style intermediates exercise the reduced-block paths.
func lworkVariants(minw, opt int, full bool, mids ...int) []int {
	set := map[int]bool{}
	var out []int
	add := func(v int) {
		if v >= minw && !set[v] {
			set[v] = true
			out = append(out, v)
		}
	}
	add(minw)
	add(opt)
	add(opt + 7)
	for _, v := range mids {
		add(v)
	}
	if full {
		add(minw + 1)
		add(opt - 1)
	}
	return out
}

// query performs a workspace query through call (which must pass lwork = -1 and the given
// work slice) and checks the contract: only work[0] is written and work[0] >= minw.
func (k *chk) query(routine string, minw int, call func(work []float64), untouched ...[]float64) (opt int, ok bool) {
	work := newWork(3)
	snaps := make([][]float64, len(untouched))
	for i, u := range untouched {
		snaps[i] = cloneF(u)
	}
	if !k.run(routine, func() { call(work) }) {
		return 0, false
	}
	k.sum.Cases++
	k.sum.Count("workspace_queries", 1)
	if work[1] != workFill || work[2] != workFill {
		k.fail(routine, "query-touch", "workspace query wrote beyond work[0]")
	}
	for i, u := range untouched {
		kind := "query-touch"
		if k.empty {
			kind += ":empty"
		}
		k.cmpSameKind(routine, kind, "operand during workspace query", u, snaps[i])
	}
	opt = int(work[0])
	if float64(opt) != work[0] || opt < minw {
		kind := "query-small"
		if k.empty {
			kind += ":empty"
		}
		k.fail(routine, kind, "workspace query returned %v, but lwork below the documented minimum %d is rejected (panic)", work[0], minw)
		return opt, false
	}
	return opt, true
}

type signs []int // S: +1 / -1 per reflector, 0 = could not be determined

// qrFamily: planted A = Q0 R0 (Q0 signed permutation).  Factor with Dgeqr2 / Dgeqrf /
// lapack64.Geqrf, generate Q with Dorg2r / Dorgqr, apply Q with Dorm2r / Dormqr; the same
// instance transposed drives Dgelq2 / Dgelqf / Dorgl2 / Dorglq / Dorml2 / Dormlq.
func qrFamily(c *inst, raw json.RawMessage, full bool, sum *core.Summary) {
	m, n, kk := c.M, c.N, c.K
	k := &chk{sum: sum, c: raw, fam: "qr", den: c.Den, tol: tolRat(c.Tol, c.Den), empty: kk == 0}
	count := func() {
		sum.Cases++
		if kk >= 2 {
			sum.Nontrivial++
		}
		if kk > 128 || forcedNB > 0 && forcedNB < kk {
			sum.Count("calls_on_blocked_sizes", 1)
		}
	}
	// readSigns reads S off the diagonal of the computed triangular factor.
	readSigns := func(routine string, diag func(t int) float64) signs {
		s := make(signs, kk)
		for t := 0; t < kk; t++ {
			d := diag(t)
			switch {
			case d > 0 == (c.RR[t][t] > 0) && d != 0:
				s[t] = 1
			case d != 0 && d == d:
				s[t] = -1
			default:
				k.fail(routine, "value", "diagonal element %d of the triangular factor is %v, specification says +-%d", t, d, c.RR[t][t])
			}
		}
		return s
	}
	flip := func(row []int64, s int) []int64 {
		o := make([]int64, len(row))
		for i, v := range row {
			o[i] = int64(s) * v
		}
		return o
	}
	at := transpose(c.A, m, n)
	for _, lq := range []bool{false, true} {
		// dimensions of the operand handed to the factorization
		fm, fn := m, n
		src := c.A
		if lq {
			fm, fn = n, m
			src = at
		}
		minw := maxi(1, fn) // Dgeqrf: n ; Dgelqf: rows of its operand
		if lq {
			minw = maxi(1, fm)
		}
		names := []string{"Dgeqr2", "Dgeqrf", "lapack64.Geqrf"}
		if lq {
			names = []string{"Dgelq2", "Dgelqf", "lapack64.Gelqf"}
		}
		for _, lda := range ldas(fn, full) {
			for _, routine := range names {
				var lworks []int
				if routine == names[1] {
					a := build(src, c.Den, fm, fn, lda, 1)
					tau := newWork(kk)
					k.where = desc(routine, "query", "m", fm, "n", fn, "lda", lda)
					opt, ok := k.query(routine, minw, func(w []float64) {
						if lq {
							impl.Dgelqf(fm, fn, a, lda, tau, w, -1)
						} else {
							impl.Dgeqrf(fm, fn, a, lda, tau, w, -1)
						}
					}, a, tau)
					if !ok {
						continue
					}
					lworks = lworkVariants(minw, opt, full, 2*minw, 3*minw+1)
				} else {
					lworks = []int{minw}
				}
				for _, lwork := range lworks {
					k.where = desc(routine, "m", fm, "n", fn, "lda", lda, "lwork", lwork)
					a := build(src, c.Den, fm, fn, lda, 1)
					tau := newWork(kk)
					work := newWork(lwork)
					ran := k.run(routine, func() {
						switch routine {
						case "Dgeqr2":
							impl.Dgeqr2(fm, fn, a, lda, tau, work)
						case "Dgeqrf":
							impl.Dgeqrf(fm, fn, a, lda, tau, work, lwork)
						case "lapack64.Geqrf":
							lapack64.Geqrf(blas64.General{Rows: fm, Cols: fn, Stride: lda, Data: a}, tau, work, lwork)
						case "Dgelq2":
							impl.Dgelq2(fm, fn, a, lda, tau, work)
						case "Dgelqf":
							impl.Dgelqf(fm, fn, a, lda, tau, work, lwork)
						case "lapack64.Gelqf":
							lapack64.Gelqf(blas64.General{Rows: fm, Cols: fn, Stride: lda, Data: a}, tau, work, lwork)
						}
					})
					count()
					if !ran {
						continue
					}
					k.cmpPad(routine, "a", a, lda, fm, fn)
					k.tag = ""
					if dlarftTrigger(a, lda, m, kk, lq, tau) {
						k.tag = ":dlarft-trigger"
					}
					var s signs
					if !lq {
						s = readSigns(routine, func(t int) float64 { return a[t*lda+t] })
						exp := make(imat, kk)
						for t := range exp {
							exp[t] = flip(c.RR[t], s[t])
						}
						k.cmpMat(routine, "R", a, lda, exp, c.Den, kk, fn, func(i, j int) bool { return j >= i })
					} else {
						s = readSigns(routine, func(t int) float64 { return a[t*lda+t] })
						// L = (S R0)^T : element [i][t] = s[t] * R0[t][i]
						exp := make(imat, fm)
						for i := range exp {
							exp[i] = make([]int64, kk)
							for t := 0; t < kk; t++ {
								exp[i][t] = int64(s[t]) * c.RR[t][i]
							}
						}
						k.cmpMat(routine, "L", a, lda, exp, c.Den, fm, kk, func(i, j int) bool { return j <= i })
					}
					k.tag = ""
					if k.bad {
						continue
					}
					if lwork == lworks[0] || full {
						orgAndOrm(k, c, lq, a, lda, tau, s, full, count)
					}
				}
			}
		}
	}
}

// orgAndOrm generates and applies Q from a factored form (a, tau) produced by gonum.
func orgAndOrm(k *chk, c *inst, lq bool, a []float64, lda int, tau []float64, s signs, full bool, count func()) {
	m, kk := c.M, c.K
	fact := k.where
	// failures of routines that go through Dlarft are attributed to the known Dlarft defect
	// when (and only when) the reflectors have its trigger pattern
	if dlarftTrigger(a, lda, m, kk, lq, tau) {
		k.tag = ":dlarft-trigger"
	}
	defer func() { k.tag = "" }()
	// ---- generate the first kk columns (rows for LQ) of Q ------------------------------
	gen := []string{"Dorg2r", "Dorgqr"}
	if lq {
		gen = []string{"Dorgl2", "Dorglq"}
	}
	if kk > 0 {
		for _, routine := range gen {
			minw := maxi(1, kk)
			lworks := []int{minw}
			// q holds the factored form's leading m x kk (kk x m) part
			mk := func() ([]float64, int) {
				if !lq {
					ldq := kk + (lda - c.N)
					q := make([]float64, (m-1)*ldq+kk+1)
					for i := range q {
						q[i] = padNaN
					}
					q[len(q)-1] = tailNaN
					for i := 0; i < m; i++ {
						copy(q[i*ldq:i*ldq+kk], a[i*lda:i*lda+kk])
					}
					return q, ldq
				}
				ldq := lda // operand of LQ is n x m stored with lda >= m; rows 0..kk-1 are used
				q := make([]float64, (kk-1)*ldq+m+1)
				copy(q, a[:(kk-1)*ldq+m])
				q[len(q)-1] = tailNaN
				return q, ldq
			}
			if routine == gen[1] {
				q, ldq := mk()
				k.where = desc(routine, "query", "after", fact)
				opt, ok := k.query(routine, minw, func(w []float64) {
					if lq {
						impl.Dorglq(kk, m, kk, q, ldq, tau, w, -1)
					} else {
						impl.Dorgqr(m, kk, kk, q, ldq, tau, w, -1)
					}
				}, q)
				if !ok {
					continue
				}
				lworks = lworkVariants(minw, opt, full, 2*minw)
			}
			for _, lwork := range lworks {
				q, ldq := mk()
				work := newWork(lwork)
				tau2 := cloneF(tau)
				k.where = desc(routine, "lwork", lwork, "after", fact)
				ran := k.run(routine, func() {
					switch routine {
					case "Dorg2r":
						impl.Dorg2r(m, kk, kk, q, ldq, tau2, work)
					case "Dorgqr":
						impl.Dorgqr(m, kk, kk, q, ldq, tau2, work, lwork)
					case "Dorgl2":
						impl.Dorgl2(kk, m, kk, q, ldq, tau2, work)
					case "Dorglq":
						impl.Dorglq(kk, m, kk, q, ldq, tau2, work, lwork)
					}
				})
				count()
				if !ran {
					continue
				}
				k.cmpSame(routine, "tau (input only)", tau2, tau)
				if !lq {
					// Q[:, t] = s[t] * Q0[:, t]
					exp := make(imat, m)
					for i := range exp {
						exp[i] = make([]int64, kk)
						for t := 0; t < kk; t++ {
							exp[i][t] = int64(s[t]) * c.Q[i][t]
						}
					}
					k.cmpMat(routine, "Q", q, ldq, exp, 1, m, kk, nil)
					k.cmpPad(routine, "q", q, ldq, m, kk)
				} else {
					exp := make(imat, kk)
					for t := range exp {
						exp[t] = make([]int64, m)
						for i := 0; i < m; i++ {
							exp[t][i] = int64(s[t]) * c.Q[i][t]
						}
					}
					k.cmpMat(routine, "Q", q, ldq, exp, 1, kk, m, nil)
				}
			}
		}
	}
	// ---- apply Q ---------------------------------------------------------------------------
	nc := c.R
	if nc == 0 || kk == 0 {
		return
	}
	type app struct {
		left, trans bool
		rows, cols  int
		src         imat
		expect      func(i, j int) int64
		sel         func(i, j int) bool
		need        bool // needs the complete m x m Q (kk == m)
	}
	qi := c.Qidx
	var apps []app
	if !lq {
		apps = []app{
			{true, false, m, nc, c.C, func(i, j int) int64 { return int64(s[qi[i]]) * c.QC[i][j] }, nil, true},
			{true, true, m, nc, c.C, func(i, j int) int64 { return int64(s[i]) * c.QTC[i][j] }, func(i, j int) bool { return i < kk }, false},
			{false, false, nc, m, c.CR, func(i, j int) int64 { return int64(s[j]) * c.CQ[i][j] }, func(i, j int) bool { return j < kk }, false},
			{false, true, nc, m, c.CR, func(i, j int) int64 { return int64(s[qi[j]]) * c.CQT[i][j] }, nil, true},
		}
	} else {
		// Q' = S Q0^T
		apps = []app{
			{true, false, m, nc, c.C, func(i, j int) int64 { return int64(s[i]) * c.QTC[i][j] }, func(i, j int) bool { return i < kk }, false},
			{true, true, m, nc, c.C, func(i, j int) int64 { return int64(s[qi[i]]) * c.QC[i][j] }, nil, true},
			{false, false, nc, m, c.CR, func(i, j int) int64 { return int64(s[qi[j]]) * c.CQT[i][j] }, nil, true},
			{false, true, nc, m, c.CR, func(i, j int) int64 { return int64(s[j]) * c.CQ[i][j] }, func(i, j int) bool { return j < kk }, false},
		}
	}
	orm := []string{"Dorm2r", "Dormqr", "lapack64.Ormqr"}
	if lq {
		orm = []string{"Dorml2", "Dormlq", "lapack64.Ormlq"}
	}
	// lda of the factored form as Dorm* sees it: QR: m x kk part of a (lda) ; LQ: kk x m part
	for _, ap := range apps {
		if ap.need && kk != m {
			continue
		}
		side, tr := blas.Right, blas.NoTrans
		nw := ap.rows
		if ap.left {
			side = blas.Left
			nw = ap.cols
		}
		if ap.trans {
			tr = blas.Trans
		}
		minw := maxi(1, nw)
		for _, ldc := range []int{maxi(1, ap.cols), ap.cols + 2} {
			for _, routine := range orm {
				if routine == orm[2] && !full && ldc != maxi(1, ap.cols) {
					continue
				}
				lworks := []int{minw}
				if routine != orm[0] {
					cc := build(ap.src, 1, ap.rows, ap.cols, ldc, 1)
					k.where = desc(routine, "query", "left", ap.left, "trans", ap.trans, "after", fact)
					opt, ok := k.query(routine, minw, func(w []float64) {
						if lq {
							impl.Dormlq(side, tr, ap.rows, ap.cols, kk, a, lda, tau, cc, ldc, w, -1)
						} else {
							impl.Dormqr(side, tr, ap.rows, ap.cols, kk, a, lda, tau, cc, ldc, w, -1)
						}
					}, cc)
					if !ok {
						continue
					}
					lworks = lworkVariants(minw, opt, full, 64*64+2*nw, 64*64+3*nw+1)
					if routine == orm[2] && !full {
						lworks = []int{opt}
					}
				}
				for _, lwork := range lworks {
					cc := build(ap.src, 1, ap.rows, ap.cols, ldc, 1)
					a2 := cloneF(a)
					tau2 := cloneF(tau)
					work := newWork(lwork)
					k.where = desc(routine, "left", ap.left, "trans", ap.trans, "rows", ap.rows, "cols", ap.cols, "k", kk, "ldc", ldc, "lwork", lwork, "after", fact)
					ran := k.run(routine, func() {
						ag := blas64.General{Rows: m, Cols: kk, Stride: lda, Data: a2}
						if lq {
							ag = blas64.General{Rows: kk, Cols: m, Stride: lda, Data: a2}
						}
						cg := blas64.General{Rows: ap.rows, Cols: ap.cols, Stride: ldc, Data: cc}
						switch routine {
						case "Dorm2r":
							impl.Dorm2r(side, tr, ap.rows, ap.cols, kk, a2, lda, tau2, cc, ldc, work)
						case "Dormqr":
							impl.Dormqr(side, tr, ap.rows, ap.cols, kk, a2, lda, tau2, cc, ldc, work, lwork)
						case "lapack64.Ormqr":
							lapack64.Ormqr(side, tr, ag, tau2, cg, work, lwork)
						case "Dorml2":
							impl.Dorml2(side, tr, ap.rows, ap.cols, kk, a2, lda, tau2, cc, ldc, work)
						case "Dormlq":
							impl.Dormlq(side, tr, ap.rows, ap.cols, kk, a2, lda, tau2, cc, ldc, work, lwork)
						case "lapack64.Ormlq":
							lapack64.Ormlq(side, tr, ag, tau2, cg, work, lwork)
						}
					})
					count()
					if !ran {
						continue
					}
					exp := make(imat, ap.rows)
					for i := range exp {
						exp[i] = make([]int64, ap.cols)
						for j := range exp[i] {
							if ap.sel == nil || ap.sel(i, j) {
								exp[i][j] = ap.expect(i, j)
							}
						}
					}
					k.cmpMat(routine, "C", cc, ldc, exp, 1, ap.rows, ap.cols, ap.sel)
					k.cmpPad(routine, "c", cc, ldc, ap.rows, ap.cols)
					k.cmpSame(routine, "factored form (input only)", a2, a)
					k.cmpSame(routine, "tau (input only)", tau2, tau)
				}
			}
		}
	}
}
