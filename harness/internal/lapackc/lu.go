package lapackc

import (
	"encoding/json"

	"gonum.org/v1/gonum/blas"
	"gonum.org/v1/gonum/blas/blas64"
	"gonum.org/v1/gonum/lapack/gonum"
	"gonum.org/v1/gonum/lapack/lapack64"

	"gonum.org/v1/gonum/verifharness/internal/core"
)

var impl gonum.Implementation

func init() { families["lu"] = luFamily }

func ldas(n int, full bool) []int {
	l := []int{maxi(1, n), n + 3}
	if full {
		l = append(l, n+1)
	}
	return l
}

// luFamily: planted A = P0^T L0 U0.  Expected: packed factors, interchanges, ok flag; for
// square non-singular instances the planted solution of A X = B and A^T X = BT.
func luFamily(c *inst, raw json.RawMessage, full bool, sum *core.Summary) {
	m, n := c.M, c.N
	mn := mini(m, n)
	k := &chk{sum: sum, c: raw, fam: "lu", den: c.Den, tol: tolRat(c.Tol, c.Den)}
	count := func() {
		sum.Cases++
		if mn >= 2 {
			sum.Nontrivial++
		}
		if mn > 64 || forcedNB > 0 && forcedNB < mn {
			sum.Count("calls_on_blocked_sizes", 1)
		}
	}
	checkFactor := func(k *chk, routine string, a []float64, lda int, ipiv []int, ok bool) {
		if ok != c.Ok {
			k.fail(routine, "ok", "ok = %v, specification says %v (zero pivot planted at column %d)", ok, c.Ok, c.Kz)
		}
		for i := range ipiv {
			if ipiv[i] != c.Ipiv[i] {
				k.fail(routine, "ipiv", "ipiv[%d] = %d, specification says %d (unique pivot)", i, ipiv[i], c.Ipiv[i])
				break
			}
			if ipiv[i] < i || ipiv[i] >= m {
				k.fail(routine, "structure", "ipiv[%d] = %d outside %d..%d", i, ipiv[i], i, m-1)
			}
		}
		k.cmpMat(routine, "LU", a, lda, c.LU, c.Den, m, n, nil)
		k.cmpPad(routine, "a", a, lda, m, n)
	}
	for _, lda := range ldas(n, full) {
		for _, routine := range []string{"Dgetf2", "Dgetrf", "lapack64.Getrf"} {
			k.where = desc(routine, "m", m, "n", n, "lda", lda, "variant", c.V)
			a := build(c.A, c.Den, m, n, lda, 2)
			ipiv := make([]int, mn)
			for i := range ipiv {
				ipiv[i] = -77
			}
			var ok bool
			ran := k.run(routine, func() {
				switch routine {
				case "Dgetf2":
					ok = impl.Dgetf2(m, n, a, lda, ipiv)
				case "Dgetrf":
					ok = impl.Dgetrf(m, n, a, lda, ipiv)
				default:
					ok = lapack64.Getrf(blas64.General{Rows: m, Cols: n, Stride: lda, Data: a}, ipiv)
				}
			})
			count()
			if ran {
				checkFactor(k, routine, a, lda, ipiv, ok)
			}
		}
	}
	if m != n || c.R == 0 {
		return
	}
	// ---- solves with the specification's factors ------------------------------------
	nrhss := []int{c.R, 1}
	if full {
		nrhss = []int{c.R, 1, 2}
	}
	nrhsSolve := nrhss
	if full {
		nrhsSolve = []int{c.R, 1, 2, 0}
	}
	for _, lda := range ldas(n, full) {
		for _, nrhs := range nrhsSolve {
			if nrhs > c.R {
				continue
			}
			for _, ldb := range []int{maxi(1, nrhs), nrhs + 2} {
				for _, tr := range []blas.Transpose{blas.NoTrans, blas.Trans, blas.ConjTrans} {
					for _, routine := range []string{"Dgetrs", "lapack64.Getrs"} {
						if routine == "lapack64.Getrs" && (lda != maxi(1, n) || !full && nrhs != c.R) {
							continue
						}
						k.where = desc(routine, "trans", tr != blas.NoTrans, "n", n, "nrhs", nrhs, "lda", lda, "ldb", ldb)
						a := build(c.LU, c.Den, n, n, lda, 1)
						a0 := cloneF(a)
						rhs := c.B
						if tr != blas.NoTrans {
							rhs = c.BT
						}
						b := build(rhs, c.Den, n, nrhs, ldb, 1)
						ipiv := append([]int(nil), c.Ipiv...)
						ran := k.run(routine, func() {
							if routine == "Dgetrs" {
								impl.Dgetrs(tr, n, nrhs, a, lda, ipiv, b, ldb)
							} else {
								lapack64.Getrs(tr, blas64.General{Rows: n, Cols: n, Stride: lda, Data: a},
									blas64.General{Rows: n, Cols: nrhs, Stride: ldb, Data: b}, ipiv)
							}
						})
						count()
						if !ran {
							continue
						}
						k.cmpMat(routine, "X", b, ldb, c.X, 1, n, nrhs, nil)
						k.cmpPad(routine, "b", b, ldb, n, nrhs)
						k.cmpSame(routine, "factors (input only)", a, a0)
						for i := range ipiv {
							if ipiv[i] != c.Ipiv[i] {
								k.fail(routine, "touch", "ipiv modified")
								break
							}
						}
					}
				}
			}
		}
	}
	// ---- Dgesv: factor and solve in one call -----------------------------------------
	for _, lda := range ldas(n, false) {
		for _, nrhs := range append(append([]int(nil), nrhss...), 0) {
			if nrhs > c.R || nrhs == 0 && full && lda != maxi(1, n) {
				continue
			}
			ldb := maxi(1, nrhs) + lda - maxi(1, n)
			k.where = desc("Dgesv", "n", n, "nrhs", nrhs, "lda", lda, "ldb", ldb)
			a := build(c.A, c.Den, n, n, lda, 1)
			b := build(c.B, c.Den, n, nrhs, ldb, 1)
			ipiv := make([]int, n)
			var ok bool
			ran := k.run("Dgesv", func() { ok = impl.Dgesv(n, nrhs, a, lda, ipiv, b, ldb) })
			count()
			if !ran {
				continue
			}
			if nrhs == 0 {
				// "On return, the factors L and U are stored in a ... pivot indices are stored in
				// ipiv" holds for every nrhs (reference DGESV factors A also when nrhs = 0); kept
				// under one signature of its own.
				k2 := &chk{sum: &core.Summary{}, c: raw, where: k.where, den: c.Den, tol: k.tol}
				checkFactor(k2, "Dgesv", a, lda, ipiv, ok)
				if k2.bad {
					k.fail("Dgesv", "nrhs0-not-factored", "with nrhs = 0 the documented factorization is not returned: %s", k2.sum.Failures[0].Msg)
				}
				continue
			}
			checkFactor(k, "Dgesv", a, lda, ipiv, ok)
			k.cmpMat("Dgesv", "X", b, ldb, c.X, 1, n, nrhs, nil)
			k.cmpPad("Dgesv", "b", b, ldb, n, nrhs)
		}
	}
}
