package lapackc

import (
	"encoding/json"

	"gonum.org/v1/gonum/blas"

	"gonum.org/v1/gonum/verifharness/internal/core"
)

func init() { families["ql"] = qlFamily }

// qlFamily: planted A = Q0 L0 (PlantedX!QlInst).  A drives the QL routines (Dgeql2, then Dorg2l /
// Dorgql on the reflectors it produced); the transposed array A^T = L0^T Q0^T drives the RQ
// routines (Dgerq2 / Dgerqf, then Dorgr2 and Dormr2).  The sign freedom S of the k = min(m,n)
// reflector directions is read off the computed triangular factor, as for QR / LQ.
func qlFamily(c *inst, raw json.RawMessage, full bool, sum *core.Summary) {
	m, n, kk := c.M, c.N, c.K
	k := &chk{sum: sum, c: raw, fam: "ql", den: 1, tol: tolRat(c.Tol, 1), empty: kk == 0}
	count := func() {
		sum.Cases++
		if kk >= 2 {
			sum.Nontrivial++
		}
		if kk > 128 || forcedNB > 1 && forcedNB < kk {
			sum.Count("calls_on_blocked_sizes", 1)
		}
	}
	// diagonal element t of the trapezoid sits at (m-k+t, n-k+t) of L0
	readSigns := func(routine string, diag func(t int) float64) (signs, bool) {
		s := make(signs, kk)
		for t := 0; t < kk; t++ {
			d := diag(t)
			want := c.LL[m-kk+t][n-kk+t]
			switch {
			case d != 0 && d == d && (d > 0) == (want > 0):
				s[t] = 1
			case d != 0 && d == d:
				s[t] = -1
			default:
				k.fail(routine, "value", "diagonal element %d of the triangular factor is %v, specification says +-%d", t, d, want)
				return s, false
			}
		}
		return s, true
	}

	// ---------------------------------- QL of A ----------------------------------------------
	for _, lda := range ldas(n, full) {
		routine := "Dgeql2"
		k.where = desc(routine, "m", m, "n", n, "lda", lda)
		a := build(c.A, 1, m, n, lda, 1)
		tau := newWork(kk)
		work := newWork(maxi(1, n))
		ran := k.run(routine, func() { impl.Dgeql2(m, n, a, lda, tau, work) })
		count()
		if !ran {
			continue
		}
		k.cmpPad(routine, "a", a, lda, m, n)
		s, ok := readSigns(routine, func(t int) float64 { return a[(m-kk+t)*lda+n-kk+t] })
		if !ok {
			continue
		}
		exp := make(imat, m)
		for i := range exp {
			exp[i] = make([]int64, n)
			if i >= m-kk {
				for j := range exp[i] {
					exp[i][j] = int64(s[i-(m-kk)]) * c.LL[i][j]
				}
			}
		}
		k.cmpMat(routine, "L", a, lda, exp, 1, m, n, func(i, j int) bool { return j-i <= n-m })
		if k.bad || kk == 0 {
			continue
		}
		// generate the last kk columns of Q from the reflectors (stored in the last kk columns of a)
		for _, gen := range []string{"Dorg2l", "Dorgql"} {
			ldq := kk + (lda - n)
			mk := func() []float64 {
				q := make([]float64, (m-1)*ldq+kk+1)
				for i := range q {
					q[i] = padNaN
				}
				q[len(q)-1] = tailNaN
				for i := 0; i < m; i++ {
					copy(q[i*ldq:i*ldq+kk], a[i*lda+n-kk:i*lda+n])
				}
				return q
			}
			lworks := []int{maxi(1, kk)}
			if gen == "Dorgql" {
				q := mk()
				k.where = desc(gen, "query", "m", m, "k", kk)
				opt, qok := k.query(gen, maxi(1, kk), func(w []float64) { impl.Dorgql(m, kk, kk, q, ldq, tau, w, -1) }, q)
				if !qok {
					continue
				}
				lworks = lworkVariants(maxi(1, kk), opt, full, 2*kk, 3*kk+1)
			}
			for _, lwork := range lworks {
				q := mk()
				tau2 := cloneF(tau)
				wk := newWork(lwork)
				k.where = desc(gen, "m", m, "n", kk, "k", kk, "ldq", ldq, "lwork", lwork, "after Dgeql2 m", m, "n", n, "lda", lda)
				ran := k.run(gen, func() {
					if gen == "Dorg2l" {
						impl.Dorg2l(m, kk, kk, q, ldq, tau2, wk)
					} else {
						impl.Dorgql(m, kk, kk, q, ldq, tau2, wk, lwork)
					}
				})
				count()
				if !ran {
					continue
				}
				qe := make(imat, m)
				for i := range qe {
					qe[i] = make([]int64, kk)
					for t := 0; t < kk; t++ {
						qe[i][t] = int64(s[t]) * c.Q[i][m-kk+t]
					}
				}
				k.cmpMat(gen, "Q", q, ldq, qe, 1, m, kk, nil)
				k.cmpPad(gen, "q", q, ldq, m, kk)
				k.cmpSame(gen, "tau (input only)", tau2, tau)
			}
		}
	}

	// ---------------------------------- RQ of A^T --------------------------------------------
	at := transpose(c.A, m, n)
	rm, rn := n, m // shape of the RQ operand
	minw := maxi(1, rm)
	for _, lda := range ldas(rn, full) {
		for _, routine := range []string{"Dgerq2", "Dgerqf"} {
			lworks := []int{minw}
			if routine == "Dgerqf" {
				a := build(at, 1, rm, rn, lda, 1)
				tau := newWork(kk)
				k.where = desc(routine, "query", "m", rm, "n", rn, "lda", lda)
				opt, qok := k.query(routine, minw, func(w []float64) { impl.Dgerqf(rm, rn, a, lda, tau, w, -1) }, a, tau)
				if !qok {
					continue
				}
				lworks = lworkVariants(minw, opt, full, 2*minw, 3*minw+1)
			}
			for _, lwork := range lworks {
				k.where = desc(routine, "m", rm, "n", rn, "lda", lda, "lwork", lwork)
				a := build(at, 1, rm, rn, lda, 1)
				tau := newWork(kk)
				work := newWork(lwork)
				ran := k.run(routine, func() {
					if routine == "Dgerq2" {
						impl.Dgerq2(rm, rn, a, lda, tau, work)
					} else {
						impl.Dgerqf(rm, rn, a, lda, tau, work, lwork)
					}
				})
				count()
				if !ran {
					continue
				}
				k.cmpPad(routine, "a", a, lda, rm, rn)
				s, ok := readSigns(routine, func(t int) float64 { return a[(rm-kk+t)*lda+rn-kk+t] })
				if !ok {
					continue
				}
				// R = (S L0)^T: element (i, j) = s[j-(m-k)] * L0[j][i] for j - i >= rn - rm
				exp := make(imat, rm)
				for i := range exp {
					exp[i] = make([]int64, rn)
					for j := range exp[i] {
						if j >= m-kk {
							exp[i][j] = int64(s[j-(m-kk)]) * c.LL[j][i]
						}
					}
				}
				k.cmpMat(routine, "R", a, lda, exp, 1, rm, rn, func(i, j int) bool { return j-i >= rn-rm })
				if k.bad || kk == 0 {
					continue
				}
				if lwork == lworks[0] || full {
					rqOrgAndOrm(k, c, a[(rm-kk)*lda:], lda, tau, s, full, count)
				}
			}
		}
	}
}

// rqOrgAndOrm generates (Dorgr2) and applies (Dormr2) Q = S Q0^T from the kk reflector rows v
// (kk x m, leading dimension ldv) that Dgerq2 / Dgerqf produced.
func rqOrgAndOrm(k *chk, c *inst, v []float64, ldv int, tau []float64, s signs, full bool, count func()) {
	m, kk := c.M, c.K
	fact := k.where
	// ---- last kk rows of Q -------------------------------------------------------------------
	{
		q := make([]float64, (kk-1)*ldv+m+1)
		copy(q, v[:(kk-1)*ldv+m])
		q[len(q)-1] = tailNaN
		tau2 := cloneF(tau)
		work := newWork(maxi(1, kk))
		k.where = desc("Dorgr2", "m", kk, "n", m, "k", kk, "after", fact)
		if k.run("Dorgr2", func() { impl.Dorgr2(kk, m, kk, q, ldv, tau2, work) }) {
			count()
			exp := make(imat, kk)
			for t := range exp {
				exp[t] = make([]int64, m)
				for i := 0; i < m; i++ {
					exp[t][i] = int64(s[t]) * c.Q[i][m-kk+t]
				}
			}
			k.cmpMat("Dorgr2", "Q", q, ldv, exp, 1, kk, m, nil)
			k.cmpSame("Dorgr2", "tau (input only)", tau2, tau)
		}
	}
	// ---- products with Q (order m) -------------------------------------------------------------
	nc := c.R
	if nc == 0 {
		return
	}
	qi := c.Qidx
	off := m - kk
	type app struct {
		left, trans bool
		rows, cols  int
		src         imat
		expect      func(i, j int) int64
		sel         func(i, j int) bool
		need        bool // needs the complete Q (kk == m)
	}
	apps := []app{
		{true, false, m, nc, c.C, func(i, j int) int64 { return int64(s[i-off]) * c.QTC[i][j] }, func(i, j int) bool { return i >= off }, false},
		{true, true, m, nc, c.C, func(i, j int) int64 { return int64(s[qi[i]]) * c.QC[i][j] }, nil, true},
		{false, false, nc, m, c.CR, func(i, j int) int64 { return int64(s[qi[j]]) * c.CQT[i][j] }, nil, true},
		{false, true, nc, m, c.CR, func(i, j int) int64 { return int64(s[j-off]) * c.CQ[i][j] }, func(i, j int) bool { return j >= off }, false},
	}
	for _, ap := range apps {
		if ap.need && kk != m {
			continue
		}
		side, tr := blas.Right, blas.NoTrans
		nw := ap.rows
		if ap.left {
			side = blas.Left
			nw = ap.cols
		}
		if ap.trans {
			tr = blas.Trans
		}
		for _, ldc := range []int{maxi(1, ap.cols), ap.cols + 2} {
			cc := build(ap.src, 1, ap.rows, ap.cols, ldc, 1)
			v2 := cloneF(v)
			tau2 := cloneF(tau)
			work := newWork(maxi(1, nw))
			k.where = desc("Dormr2", "left", ap.left, "trans", ap.trans, "rows", ap.rows, "cols", ap.cols, "k", kk, "ldc", ldc, "after", fact)
			if !k.run("Dormr2", func() { impl.Dormr2(side, tr, ap.rows, ap.cols, kk, v2, ldv, tau2, cc, ldc, work) }) {
				continue
			}
			count()
			exp := make(imat, ap.rows)
			for i := range exp {
				exp[i] = make([]int64, ap.cols)
				for j := range exp[i] {
					if ap.sel == nil || ap.sel(i, j) {
						exp[i][j] = ap.expect(i, j)
					}
				}
			}
			k.cmpMat("Dormr2", "C", cc, ldc, exp, 1, ap.rows, ap.cols, ap.sel)
			k.cmpPad("Dormr2", "c", cc, ldc, ap.rows, ap.cols)
			k.cmpSame("Dormr2", "reflectors (input only)", v2, v)
			k.cmpSame("Dormr2", "tau (input only)", tau2, tau)
		}
	}
}
