package lapackc

import (
	"encoding/json"
	"math"

	"gonum.org/v1/gonum/blas"
	"gonum.org/v1/gonum/blas/blas64"
	"gonum.org/v1/gonum/lapack"
	"gonum.org/v1/gonum/lapack/lapack64"

	"gonum.org/v1/gonum/verifharness/internal/core"
)

func init() {
	families["td"] = tdFamily
	families["aux"] = auxFamily
}

func vec(v []int64, den int64) []float64 {
	s := make([]float64, len(v)+1)
	for i, x := range v {
		s[i] = val(x, den)
	}
	s[len(v)] = tailNaN
	return s
}

func (k *chk) cmpVec(routine, what string, got []float64, exp []int64, den int64) {
	m := imat{exp}
	k.cmpMat(routine, what, got, len(exp)+1, m, den, 1, len(exp), nil)
	if math.Float64bits(got[len(exp)]) != math.Float64bits(tailNaN) {
		k.fail(routine, "touch", "%s: element beyond the documented length was written", what)
	}
}

// tdFamily: planted tridiagonal systems (Dpttrf, Dpttrs, Dptsv; Dgtsv without and with
// forced interchanges).
func tdFamily(c *inst, raw json.RawMessage, full bool, sum *core.Summary) {
	n := c.N
	k := &chk{sum: sum, c: raw, fam: "td", den: 1, tol: tolRat(c.Tol, c.Den)}
	count := func() {
		sum.Cases++
		if n >= 2 {
			sum.Nontrivial++
		}
	}
	nrhss := []int{c.R, 1, 0}
	// ---- Dpttrf ---------------------------------------------------------------------------
	{
		d, e := vec(c.Pd, 1), vec(c.Pe, 1)
		k.where = desc("Dpttrf", "n", n, "variant", c.V)
		var ok bool
		if k.run("Dpttrf", func() { ok = impl.Dpttrf(n, d[:n], e[:maxi(0, n-1)]) }) {
			count()
			if ok != c.Ok {
				k.fail("Dpttrf", "ok", "ok = %v, specification says %v (D[%d] <= 0 planted)", ok, c.Ok, c.Kbad)
			} else if ok {
				k.cmpVec("Dpttrf", "D", d, c.D, 1)
				k.cmpVec("Dpttrf", "l", e, c.L1, 1)
			}
		}
	}
	for _, nrhs := range nrhss {
		for _, ldb := range []int{maxi(1, nrhs), nrhs + 2} {
			if c.Ok {
				// Dpttrs with the specification's factors
				d, e := vec(c.D, 1), vec(c.L1, 1)
				d0, e0 := cloneF(d), cloneF(e)
				b := build(c.PB, 1, n, nrhs, ldb, 1)
				k.where = desc("Dpttrs", "n", n, "nrhs", nrhs, "ldb", ldb)
				if k.run("Dpttrs", func() { impl.Dpttrs(n, nrhs, d[:n], e[:maxi(0, n-1)], b, ldb) }) {
					count()
					k.cmpMat("Dpttrs", "X", b, ldb, c.X, 1, n, nrhs, nil)
					k.cmpPad("Dpttrs", "b", b, ldb, n, nrhs)
					k.cmpSame("Dpttrs", "d (input only)", d, d0)
					k.cmpSame("Dpttrs", "e (input only)", e, e0)
				}
			}
			// Dptsv
			d, e := vec(c.Pd, 1), vec(c.Pe, 1)
			b := build(c.PB, 1, n, nrhs, ldb, 1)
			k.where = desc("Dptsv", "n", n, "nrhs", nrhs, "ldb", ldb, "variant", c.V)
			var ok bool
			if k.run("Dptsv", func() { ok = impl.Dptsv(n, nrhs, d[:n], e[:maxi(0, n-1)], b, ldb) }) {
				count()
				if nrhs == 0 {
					// the documented outputs D and l do not depend on nrhs (reference DPTSV factors for
					// every nrhs); kept under one signature of its own, like Dgesv
					k2 := &chk{sum: &core.Summary{Extra: map[string]any{}}, c: raw, where: k.where, den: 1, tol: k.tol}
					if ok != c.Ok {
						k2.fail("Dptsv", "ok", "ok = %v, specification says %v", ok, c.Ok)
					} else if ok {
						k2.cmpVec("Dptsv", "D", d, c.D, 1)
						k2.cmpVec("Dptsv", "l", e, c.L1, 1)
					}
					if k2.bad {
						k.fail("Dptsv", "nrhs0-not-factored", "with nrhs = 0 the documented factorization is not returned: %s", k2.sum.Failures[0].Msg)
					}
				} else if ok != c.Ok {
					k.fail("Dptsv", "ok", "ok = %v, specification says %v", ok, c.Ok)
				} else if ok {
					k.cmpVec("Dptsv", "D", d, c.D, 1)
					k.cmpVec("Dptsv", "l", e, c.L1, 1)
					k.cmpMat("Dptsv", "X", b, ldb, c.X, 1, n, nrhs, nil)
					k.cmpPad("Dptsv", "b", b, ldb, n, nrhs)
				}
			}
			// Dgtsv: A, and A^T by exchanging dl and du (B^T-side needs its own right-hand side,
			// so only A is driven)
			dl, dd, du := vec(c.Gdl, 2), vec(c.Gd, 2), vec(c.Gdu, 2)
			gb := build(c.GB, 2, n, nrhs, ldb, 1)
			k.where = desc("Dgtsv", "n", n, "nrhs", nrhs, "ldb", ldb, "interchanges forced", c.Npiv)
			if k.run("Dgtsv", func() { ok = impl.Dgtsv(n, nrhs, dl[:maxi(0, n-1)], dd[:n], du[:maxi(0, n-1)], gb, ldb) }) {
				count()
				if c.Npiv > 0 {
					sum.Count("dgtsv_calls_with_interchanges", 1)
				}
				if !ok {
					k.fail("Dgtsv", "ok", "ok = false for a non-singular matrix")
				}
				k.cmpMat("Dgtsv", "X", gb, ldb, c.X, 1, n, nrhs, nil)
				k.cmpPad("Dgtsv", "b", gb, ldb, n, nrhs)
				for _, t := range [][]float64{dl, dd, du} {
					if math.Float64bits(t[len(t)-1]) != math.Float64bits(tailNaN) {
						k.fail("Dgtsv", "touch", "a band vector was written beyond its length")
					}
				}
			}
			// the same system through the lapack64 wrapper
			dl, dd, du = vec(c.Gdl, 2), vec(c.Gd, 2), vec(c.Gdu, 2)
			gb = build(c.GB, 2, n, nrhs, ldb, 1)
			k.where = desc("lapack64.Gtsv", "n", n, "nrhs", nrhs, "ldb", ldb, "interchanges forced", c.Npiv)
			if k.run("lapack64.Gtsv", func() {
				ok = lapack64.Gtsv(blas.NoTrans, lapack64.Tridiagonal{N: n, DL: dl[:maxi(0, n-1)], D: dd[:n], DU: du[:maxi(0, n-1)]},
					blas64.General{Rows: n, Cols: nrhs, Stride: ldb, Data: gb})
			}) {
				count()
				if !ok {
					k.fail("lapack64.Gtsv", "ok", "ok = false for a non-singular matrix")
				}
				k.cmpMat("lapack64.Gtsv", "X", gb, ldb, c.X, 1, n, nrhs, nil)
				k.cmpPad("lapack64.Gtsv", "b", gb, ldb, n, nrhs)
			}
		}
	}
}

// auxFamily: Dlaswp, Dlapmt, Dlapmr, Dlange, Dlansy, Dlantr on integer matrices.
func auxFamily(c *inst, raw json.RawMessage, full bool, sum *core.Summary) {
	m, n := c.M, c.N
	k := &chk{sum: sum, c: raw, fam: "aux", den: 1, tol: tolRat(0, 1)}
	count := func() {
		sum.Cases++
		if m >= 2 && n >= 2 {
			sum.Nontrivial++
		}
	}
	for _, lda := range ldas(n, full) {
		// ---- Dlaswp
		for _, inc := range []int{1, -1} {
			exp := c.SwF
			if inc == -1 {
				exp = c.SwB
			}
			if c.K2 < c.K1 {
				continue
			}
			a := build(c.A, 1, m, n, lda, 1)
			ipiv := append([]int(nil), c.Ipiv...)
			k.where = desc("Dlaswp", "m", m, "n", n, "lda", lda, "k1", c.K1, "k2", c.K2, "incX", inc)
			if k.run("Dlaswp", func() { impl.Dlaswp(n, a, lda, c.K1, c.K2, ipiv, inc) }) {
				count()
				k.cmpMat("Dlaswp", "A", a, lda, exp, 1, m, n, nil)
				k.cmpPad("Dlaswp", "a", a, lda, m, n)
			}
		}
		// ---- Dlapmt / Dlapmr
		for _, fwd := range []bool{true, false} {
			ec, er := c.PcF, c.PrF
			if !fwd {
				ec, er = c.PcB, c.PrB
			}
			a := build(c.A, 1, m, n, lda, 1)
			kc := append([]int(nil), c.Kc...)
			k.where = desc("Dlapmt", "forward", fwd, "m", m, "n", n, "lda", lda)
			if k.run("Dlapmt", func() { impl.Dlapmt(fwd, m, n, a, lda, kc) }) {
				count()
				k.cmpMat("Dlapmt", "X", a, lda, ec, 1, m, n, nil)
				k.cmpPad("Dlapmt", "x", a, lda, m, n)
				for i := range kc {
					if kc[i] != c.Kc[i] {
						k.fail("Dlapmt", "touch", "k was not restored")
						break
					}
				}
			}
			a = build(c.A, 1, m, n, lda, 1)
			kr := append([]int(nil), c.Kr...)
			k.where = desc("Dlapmr", "forward", fwd, "m", m, "n", n, "lda", lda)
			if k.run("Dlapmr", func() { impl.Dlapmr(fwd, m, n, a, lda, kr) }) {
				count()
				k.cmpMat("Dlapmr", "X", a, lda, er, 1, m, n, nil)
				k.cmpPad("Dlapmr", "x", a, lda, m, n)
				for i := range kr {
					if kr[i] != c.Kr[i] {
						k.fail("Dlapmr", "touch", "k was not restored")
						break
					}
				}
			}
		}
		// ---- norms (exact on integers)
		norms := []lapack.MatrixNorm{lapack.MaxAbs, lapack.MaxColumnSum, lapack.MaxRowSum}
		for ni, norm := range norms {
			a := build(c.A, 1, m, n, lda, 1)
			a0 := cloneF(a)
			work := newWork(maxi(m, n) + 1)
			var got float64
			k.where = desc("Dlange", string(norm), "m", m, "n", n, "lda", lda)
			if k.run("Dlange", func() { got = impl.Dlange(norm, m, n, a, lda, work[:maxi(m, n)]) }) {
				count()
				if got != float64(c.Nge[ni]) {
					k.fail("Dlange", "value", "norm %c = %v, specification says %d", norm, got, c.Nge[ni])
				}
				k.cmpSame("Dlange", "a (input only)", a, a0)
			}
			mn := mini(m, n)
			for _, up := range []bool{true, false} {
				ul := blas.Lower
				if up {
					ul = blas.Upper
				}
				// symmetric: the referenced triangle of the leading mn x mn block of A (upper triangle
				// values; the lower variant stores their transpose), canaries elsewhere
				s := make([]float64, maxi(0, (mn-1)*lda+mn)+1)
				for i := range s {
					s[i] = triNaN
				}
				for i := 0; i < mn; i++ {
					for j := i; j < mn; j++ {
						if up {
							s[i*lda+j] = float64(c.A[i][j])
						} else {
							s[j*lda+i] = float64(c.A[i][j])
						}
					}
				}
				k.where = desc("Dlansy", string(norm), "upper", up, "n", mn, "lda", lda)
				if k.run("Dlansy", func() { got = impl.Dlansy(norm, ul, mn, s, lda, work[:maxi(m, n)]) }) {
					count()
					if got != float64(c.Nsy[ni]) {
						k.fail("Dlansy", "value", "norm %c = %v, specification says %d", norm, got, c.Nsy[ni])
					}
				}
				for ui, unit := range []bool{false, true} {
					dg := blas.NonUnit
					if unit {
						dg = blas.Unit
					}
					if m == 0 || n == 0 {
						continue
					}
					t := build(c.A, 1, m, n, lda, 1)
					for i := 0; i < m; i++ {
						for j := 0; j < n; j++ {
							if (up && j < i) || (!up && j > i) || (unit && i == j) {
								t[i*lda+j] = triNaN
							}
						}
					}
					idx := ui
					if !up {
						idx += 2
					}
					k.where = desc("Dlantr", string(norm), "upper", up, "unit", unit, "m", m, "n", n, "lda", lda)
					if k.run("Dlantr", func() { got = impl.Dlantr(norm, ul, dg, m, n, t, lda, work[:maxi(m, n)]) }) {
						count()
						if got != float64(c.Ntr[idx][ni]) {
							k.fail("Dlantr", "value", "norm %c = %v, specification says %d", norm, got, c.Ntr[idx][ni])
						}
					}
				}
			}
		}
	}
}
