package lapackc

import (
	"encoding/json"
	"math"
	"math/big"

	"gonum.org/v1/gonum/blas"
	"gonum.org/v1/gonum/blas/blas64"
	"gonum.org/v1/gonum/lapack"
	"gonum.org/v1/gonum/lapack/lapack64"

	"gonum.org/v1/gonum/verifharness/internal/core"
)

// Families of specs/lapack/PlantedC.tla: LU with complete pivoting (Dgetc2), the solve with that
// factorization (Dgesc2) and the Dif-estimate contribution (Dlatdf).  Unique planted results are
// compared element by element; where the specification leaves a choice (ties, zero pivots) its
// acceptance predicates are evaluated exactly (math/big.Rat) on what gonum returned.  Every
// predicate function names the operator of PlantedC.tla it mirrors.
func init() {
	families["c2"] = c2Family
	families["c2g"] = c2gFamily
	families["gts"] = gtsFamily
	families["tdm"] = tdmFamily
	families["rscl"] = rsclFamily
}

type rmat [][]*big.Rat

func ratOfFloat(f float64) *big.Rat { return new(big.Rat).SetFloat64(f) }

func ratPow2(e int) *big.Rat {
	if e >= 0 {
		return new(big.Rat).SetInt(new(big.Int).Lsh(big.NewInt(1), uint(e)))
	}
	return new(big.Rat).SetFrac(big.NewInt(1), new(big.Int).Lsh(big.NewInt(1), uint(-e)))
}

func rabs(x *big.Rat) *big.Rat { return new(big.Rat).Abs(x) }

// ratFromSpec converts a matrix printed by the specification (integers times den) to rationals.
func ratFromSpec(a imat, den int64, n int) rmat {
	r := make(rmat, n)
	for i := range r {
		r[i] = make([]*big.Rat, n)
		for j := range r[i] {
			r[i][j] = big.NewRat(a[i][j], den)
		}
	}
	return r
}

// ratFromFloats converts the n x n window of a row-major float64 array; ok = false if an element is
// not finite.
func ratFromFloats(a []float64, ld, n int) (rmat, bool) {
	r := make(rmat, n)
	for i := range r {
		r[i] = make([]*big.Rat, n)
		for j := range r[i] {
			v := a[i*ld+j]
			if math.IsNaN(v) || math.IsInf(v, 0) {
				return nil, false
			}
			r[i][j] = ratOfFloat(v)
		}
	}
	return r, true
}

// posOf mirrors LaLib!Pos: the interchanges j = 0..n-1 (j <-> piv[j]) applied in this order to the
// identity; the result p has p[r] = the original index that ends at position r.
func posOf(piv []int, n int) []int {
	p := make([]int, n)
	for i := range p {
		p[i] = i
	}
	for j := 0; j < n; j++ {
		p[j], p[piv[j]] = p[piv[j]], p[j]
	}
	return p
}

// getc2Accept mirrors PlantedC!Getc2Accept.  It returns the name of the first violated clause ("" =
// accepted) and a description.
func getc2Accept(a, f rmat, ip, jp []int, n int, tau, slack *big.Rat) (clause, msg string) {
	for i := 0; i < n; i++ {
		if ip[i] < i || ip[i] > n-1 || jp[i] < i || jp[i] > n-1 {
			return "index", desc("ipiv[", i, "] =", ip[i], "jpiv[", i, "] =", jp[i], "not in", i, "..", n-1)
		}
	}
	if n >= 1 && (ip[n-1] != n-1 || jp[n-1] != n-1) {
		return "index", "the last interchange is not the identity"
	}
	rp, cp := posOf(ip, n), posOf(jp, n)
	one := big.NewRat(1, 1)
	lf := func(i, k int) *big.Rat {
		switch {
		case k < i:
			return f[i][k]
		case k == i:
			return one
		}
		return new(big.Rat)
	}
	uf := func(k, j int) *big.Rat {
		if k <= j {
			return f[k][j]
		}
		return new(big.Rat)
	}
	for i := 0; i < n; i++ {
		if f[i][i].Sign() == 0 {
			return "zero-pivot", desc("U[", i, "][", i, "] = 0")
		}
		for k := 0; k < i; k++ {
			if rabs(f[i][k]).Cmp(one) > 0 {
				return "multiplier", desc("|L[", i, "][", k, "]| =", rabs(f[i][k]).FloatString(20), "> 1")
			}
		}
	}
	// allow[i][j] = tau * sum_k |L[i][k]| |U[k][j]| + slack ; sch[s][i][j] = Schur complement before step s
	allow := make(rmat, n)
	for i := 0; i < n; i++ {
		allow[i] = make([]*big.Rat, n)
		for j := 0; j < n; j++ {
			b := new(big.Rat)
			for k := 0; k < n; k++ {
				b.Add(b, new(big.Rat).Mul(rabs(lf(i, k)), rabs(uf(k, j))))
			}
			allow[i][j] = b.Mul(b, tau).Add(b, slack)
		}
	}
	cur := make(rmat, n) // Ap - sum_{k<s} L[:,k] U[k,:], for s = 0, 1, ..
	for i := 0; i < n; i++ {
		cur[i] = make([]*big.Rat, n)
		for j := 0; j < n; j++ {
			cur[i][j] = new(big.Rat).Set(a[rp[i]][cp[j]])
		}
	}
	for s := 0; s <= n; s++ {
		if s <= n-2 {
			piv := rabs(f[s][s])
			for i := s; i < n; i++ {
				for j := s; j < n; j++ {
					if rabs(cur[i][j]).Cmp(new(big.Rat).Add(piv, allow[i][j])) > 0 {
						return "pivot", desc("step", s, ": |Schur complement[", i, "][", j, "]| =", rabs(cur[i][j]).FloatString(20),
							"exceeds the chosen pivot |U[", s, "][", s, "]| =", piv.FloatString(20))
					}
				}
			}
		}
		if s == n {
			for i := 0; i < n; i++ {
				for j := 0; j < n; j++ {
					if rabs(cur[i][j]).Cmp(allow[i][j]) > 0 {
						return "reconstruction", desc("(P*A*Q - L*U)[", i, "][", j, "] =", cur[i][j].FloatString(25), ", allowed", allow[i][j].FloatString(25))
					}
				}
			}
			break
		}
		for i := 0; i < n; i++ {
			for j := 0; j < n; j++ {
				cur[i][j].Sub(cur[i][j], new(big.Rat).Mul(lf(i, s), uf(s, j)))
			}
		}
	}
	return "", ""
}

// zTimes returns Z*x as rationals.
func zTimes(z rmat, x []*big.Rat, n int) []*big.Rat {
	r := make([]*big.Rat, n)
	for i := 0; i < n; i++ {
		r[i] = new(big.Rat)
		for j := 0; j < n; j++ {
			r[i].Add(r[i], new(big.Rat).Mul(z[i][j], x[j]))
		}
	}
	return r
}

// latdfAccept mirrors PlantedC!LatdfAccept.
func latdfAccept(z rmat, x, f []*big.Rat, n int) bool {
	zx := zTimes(z, x, n)
	one := big.NewRat(1, 1)
	for _, sg := range []int{-1, 1} {
		ok := true
		for i := 0; i < n && ok; i++ {
			d := new(big.Rat).Set(zx[i])
			if sg < 0 {
				d.Sub(d, f[i])
			} else {
				d.Add(d, f[i])
			}
			ok = rabs(d).Cmp(one) == 0
		}
		if ok {
			return true
		}
	}
	return false
}

// latdfNullAccept mirrors PlantedC!LatdfNullAccept with tol = PlantedC!NullTol(Z, x, n).
func latdfNullAccept(z rmat, x, f []*big.Rat, n int) (bool, *big.Rat) {
	mz, mx := new(big.Rat), new(big.Rat)
	for i := 0; i < n; i++ {
		for j := 0; j < n; j++ {
			if a := rabs(z[i][j]); a.Cmp(mz) > 0 {
				mz = a
			}
		}
		if a := rabs(x[i]); a.Cmp(mx) > 0 {
			mx = a
		}
	}
	t := new(big.Rat).Mul(big.NewRat(int64(n), 1), new(big.Rat).Mul(mz, mx))
	t.Add(t, big.NewRat(1, 1))
	tol := new(big.Rat).Mul(t, t)
	tol.Mul(tol, ratPow2(-30))
	zx := zTimes(z, x, n)
	best := (*big.Rat)(nil)
	for _, sg := range []int{-1, 1} {
		s := new(big.Rat)
		for i := 0; i < n; i++ {
			d := new(big.Rat).Set(zx[i])
			if sg < 0 {
				d.Sub(d, f[i])
			} else {
				d.Add(d, f[i])
			}
			s.Add(s, d.Mul(d, d))
		}
		s.Sub(s, big.NewRat(1, 1)).Abs(s)
		if best == nil || s.Cmp(best) < 0 {
			best = s
		}
	}
	return best.Cmp(tol) <= 0, best
}

// sumsqAccept mirrors PlantedC!SumsqAccept.
func sumsqAccept(scale, sumsq float64, rdscal, rdsum *big.Rat, x []*big.Rat, n int, tau *big.Rat) bool {
	if math.IsNaN(scale) || math.IsNaN(sumsq) || math.IsInf(scale, 0) || math.IsInf(sumsq, 0) || scale < 0 || sumsq < 0 {
		return false
	}
	want := new(big.Rat).Mul(rdscal, rdscal)
	want.Mul(want, rdsum)
	for i := 0; i < n; i++ {
		want.Add(want, new(big.Rat).Mul(x[i], x[i]))
	}
	sc := ratOfFloat(scale)
	got := new(big.Rat).Mul(sc, sc)
	got.Mul(got, ratOfFloat(sumsq))
	d := got.Sub(got, want)
	return d.Abs(d).Cmp(new(big.Rat).Mul(tau, want)) <= 0
}

func ldas3(n int) []int { return []int{maxi(1, n), n + 1, n + 3} }

func pivots(n int) []int {
	p := make([]int, n)
	for i := range p {
		p[i] = -7
	}
	return p
}

func sameInts(a, b []int) bool {
	if len(a) != len(b) {
		return false
	}
	for i := range a {
		if a[i] != b[i] {
			return false
		}
	}
	return true
}

// slackFor is the absolute allowance of Getc2Accept when a perturbed pivot was reported.
func slackFor(k int, maxA int64, den int64) *big.Rat {
	if k < 0 {
		return new(big.Rat)
	}
	m := big.NewRat(maxA, den)
	if m.Cmp(big.NewRat(1, 1)) < 0 {
		m.SetInt64(1)
	}
	return m.Mul(m, ratPow2(-40))
}

// c2Family: the planted complete-pivoting instances (PlantedC!C2Inst).
func c2Family(c *inst, raw json.RawMessage, full bool, sum *core.Summary) {
	n, r := c.N, c.Rank
	k := &chk{sum: sum, c: raw, fam: "c2", den: c.Den, tol: tolRat(0, 1)}
	count := func() {
		sum.Cases++
		if n >= 2 {
			sum.Nontrivial++
		}
	}
	aRat := ratFromSpec(c.A, c.Den, n)
	tau := new(big.Rat).Mul(big.NewRat(int64(4*n), 1), ratPow2(-52))
	for _, lda := range ldas3(n) {
		// ---- Dgetc2 -------------------------------------------------------------------------
		k.where = desc("Dgetc2 n", n, "rank", r, "lda", lda, "variant", c.V)
		a := build(c.A, c.Den, n, n, lda, 1)
		ipiv, jpiv := pivots(n), pivots(n)
		kk := -99
		ran := k.run("Dgetc2", func() { kk = impl.Dgetc2(n, a, lda, ipiv, jpiv) })
		count()
		if ran {
			k.cmpPad("Dgetc2", "a", a, lda, n, n)
			if r == n {
				sum.Count("getc2_unique_factorizations", 1)
				if kk != -1 {
					k.fail("Dgetc2", "k", "k = %d on a matrix whose pivots are all >= 4 in modulus (specification: -1, nothing perturbed)", kk)
				}
				if !sameInts(ipiv, c.Ipiv) || !sameInts(jpiv, c.Jpiv) {
					k.fail("Dgetc2", "pivot", "ipiv = %v, jpiv = %v, specification says %v, %v (the entry of largest modulus is unique at every step)", ipiv, jpiv, c.Ipiv, c.Jpiv)
				} else {
					k.cmpMat("Dgetc2", "LU", a, lda, c.LU, c.Den, n, n, nil)
				}
			} else {
				sum.Count("getc2_rank_deficient", 1)
				if kk < r || kk > n-1 {
					k.fail("Dgetc2", "k", "k = %d, but the pivots %d..%d are exactly zero and must be perturbed (specification: %d <= k <= %d)", kk, r, n-1, r, n-1)
				}
				if !sameInts(ipiv[:r], c.Ipiv[:r]) || !sameInts(jpiv[:r], c.Jpiv[:r]) {
					k.fail("Dgetc2", "pivot", "ipiv = %v, jpiv = %v, specification says %v, %v for the first %d steps", ipiv, jpiv, c.Ipiv, c.Jpiv, r)
				}
				if f, ok := ratFromFloats(a, lda, n); !ok {
					k.fail("Dgetc2", "value", "non-finite factor")
				} else {
					lim := slackFor(0, c.MaxA, c.Den)
					lim.Mul(lim, ratPow2(10)) // 2^-30 * max(|A|, 1)
					for j := r; j < n; j++ {
						if rabs(f[j][j]).Cmp(lim) > 0 {
							k.fail("Dgetc2", "perturbation", "U[%d][%d] = %v replaces an exactly zero pivot but is not small", j, j, a[j*lda+j])
						}
					}
					if cl, msg := getc2Accept(aRat, f, ipiv, jpiv, n, tau, slackFor(kk, c.MaxA, c.Den)); cl != "" {
						k.fail("Dgetc2", "accept:"+cl, "Getc2Accept rejects the factorization (ipiv %v, jpiv %v, k %d): %s", ipiv, jpiv, kk, msg)
					}
				}
			}
		}
		if r != n || c.R == 0 {
			continue
		}
		// ---- Dgesc2 with the planted factors ---------------------------------------------------
		maxX := int64(0)
		for i := 0; i < n; i++ {
			for j := 0; j < c.R; j++ {
				if v := c.X[i][j]; v > maxX {
					maxX = v
				} else if -v > maxX {
					maxX = -v
				}
			}
		}
		for col := 0; col < c.R; col++ {
			for _, e := range []int{0, c.BigExp} {
				k.where = desc("Dgesc2 n", n, "lda", lda, "rhs column", col, "rhs * 2^", e, "variant", c.V)
				z := build(c.LU, c.Den, n, n, lda, 1)
				z0 := cloneF(z)
				rhs := make([]float64, n+1)
				rhs[n] = tailNaN
				for i := 0; i < n; i++ {
					rhs[i] = math.Ldexp(val(c.B[i][col], c.Den), e)
				}
				ip, jp := append([]int(nil), c.Ipiv...), append([]int(nil), c.Jpiv...)
				var scale float64
				ran := k.run("Dgesc2", func() { scale = impl.Dgesc2(n, z, lda, rhs, ip, jp) })
				count()
				if !ran {
					continue
				}
				k.cmpSame("Dgesc2", "factors (input only)", z, z0)
				if !sameInts(ip, c.Ipiv) || !sameInts(jp, c.Jpiv) {
					k.fail("Dgesc2", "touch", "ipiv / jpiv were modified")
				}
				if math.Float64bits(rhs[n]) != math.Float64bits(tailNaN) {
					k.fail("Dgesc2", "touch", "rhs[%d] beyond the vector was written", n)
				}
				if !(scale > 0 && scale <= 1) {
					k.fail("Dgesc2", "scale", "scale = %v is not in (0, 1]", scale)
					continue
				}
				if scale < 1 {
					sum.Count("gesc2_scaled_solves", 1)
				}
				sc := ratOfFloat(scale)
				sc.Mul(sc, ratPow2(e))
				bound := new(big.Rat)
				if scale != 1 {
					bound.Mul(sc, big.NewRat(maxX, 1)).Mul(bound, ratPow2(-30))
				}
				for i := 0; i < n; i++ {
					if math.IsNaN(rhs[i]) || math.IsInf(rhs[i], 0) {
						k.fail("Dgesc2", "value", "x[%d] = %v", i, rhs[i])
						break
					}
					want := new(big.Rat).Mul(sc, big.NewRat(c.X[i][col], 1))
					d := ratOfFloat(rhs[i])
					d.Sub(d, want).Abs(d)
					sum.Count("elements_compared", 1)
					if d.Sign() != 0 {
						sum.Count("inexact_elements", 1)
					}
					if d.Cmp(bound) > 0 {
						k.fail("Dgesc2", "value", "x[%d] = %v, specification says scale * 2^%d * %d = %s (scale = %v, allowed deviation %s)", i, rhs[i], e, c.X[i][col], want.FloatString(20), scale, bound.FloatString(25))
						break
					}
				}
			}
		}
		// ---- Dlatdf with the planted factors ---------------------------------------------------
		if n > 5 || lda == n+1 && !full {
			continue
		}
		zRat := aRat
		tauS := new(big.Rat).Mul(big.NewRat(int64(30*(n+1)), 1), ratPow2(-52))
		for _, job := range []lapack.MaximizeNormXJob{lapack.LocalLookAhead, lapack.NormalizedNullVector} {
			// col = -1: f = 0 (all look-ahead comparisons tie; PlantedCLemmas!LatdfLemma covers it as c = 0)
			for col := -1; col < c.R; col++ {
				for _, rd := range c.Rd {
					rdsum, rdscal := float64(rd[0]), math.Ldexp(1, rd[1])
					k.where = desc("Dlatdf job", int(job), "n", n, "ldz", lda, "f column", col, "rdsum", rdsum, "rdscal", rdscal, "variant", c.V)
					z := build(c.LU, c.Den, n, n, lda, 1)
					z0 := cloneF(z)
					rhs := make([]float64, n+1)
					rhs[n] = tailNaN
					f := make([]*big.Rat, n)
					for i := 0; i < n; i++ {
						f[i] = new(big.Rat)
						if col >= 0 {
							rhs[i] = float64(c.X[i][col])
							f[i] = big.NewRat(c.X[i][col], 1)
						}
					}
					ip, jp := append([]int(nil), c.Ipiv...), append([]int(nil), c.Jpiv...)
					var scale, ssq float64
					ran := k.run("Dlatdf", func() { scale, ssq = impl.Dlatdf(job, n, z, lda, rhs, rdsum, rdscal, ip, jp) })
					count()
					if !ran {
						continue
					}
					k.cmpSame("Dlatdf", "factors (input only)", z, z0)
					if !sameInts(ip, c.Ipiv) || !sameInts(jp, c.Jpiv) {
						k.fail("Dlatdf", "touch", "ipiv / jpiv were modified")
					}
					if math.Float64bits(rhs[n]) != math.Float64bits(tailNaN) {
						k.fail("Dlatdf", "touch", "rhs[%d] beyond the vector was written", n)
					}
					x := make([]*big.Rat, n)
					fin := true
					for i := 0; i < n; i++ {
						if math.IsNaN(rhs[i]) || math.IsInf(rhs[i], 0) {
							fin = false
							break
						}
						x[i] = ratOfFloat(rhs[i])
					}
					if !fin {
						k.fail("Dlatdf", "value", "non-finite solution %v", rhs[:n])
						continue
					}
					if job == lapack.LocalLookAhead {
						sum.Count("latdf_lookahead_calls", 1)
						if !latdfAccept(zRat, x, f, n) {
							zx := zTimes(zRat, x, n)
							h := make([]string, n)
							for i := range h {
								h[i] = new(big.Rat).Sub(zx[i], f[i]).FloatString(6)
							}
							k.fail("Dlatdf", "rhs-identity", "x = %v: Z*x - f = %v is not a vector of +-1 (neither is Z*x + f); LatdfAccept", rhs[:n], h)
						}
					} else {
						sum.Count("latdf_nullvector_calls", 1)
						if ok, dev := latdfNullAccept(zRat, x, f, n); !ok {
							k.fail("Dlatdf", "null-identity", "x = %v: | ||Z*x -+ f||_2^2 - 1 | = %s exceeds NullTol; LatdfNullAccept", rhs[:n], dev.FloatString(12))
						}
					}
					if !sumsqAccept(scale, ssq, ratOfFloat(rdscal), ratOfFloat(rdsum), x, n, tauS) {
						k.fail("Dlatdf", "sumsq", "returned (scale, sumsq) = (%v, %v) is not rdscal^2*rdsum + sum x_i^2 for rdscal = %v, rdsum = %v, x = %v; SumsqAccept", scale, ssq, rdscal, rdsum, rhs[:n])
					}
				}
			}
		}
	}
}

// c2gFamily: general small integer matrices (PlantedC!C2gInst): ties, no unique factorization;
// judged by Getc2Accept.
func c2gFamily(c *inst, raw json.RawMessage, full bool, sum *core.Summary) {
	n := c.N
	k := &chk{sum: sum, c: raw, fam: "c2g", den: 1, tol: tolRat(0, 1)}
	aRat := ratFromSpec(c.A, 1, n)
	tau := new(big.Rat).Mul(big.NewRat(int64(4*n), 1), ratPow2(-52))
	for _, lda := range ldas3(n) {
		k.where = desc("Dgetc2 (general) n", n, "lda", lda, "instance", c.Kind, c.V)
		a := build(c.A, 1, n, n, lda, 1)
		ipiv, jpiv := pivots(n), pivots(n)
		kk := -99
		ran := k.run("Dgetc2", func() { kk = impl.Dgetc2(n, a, lda, ipiv, jpiv) })
		sum.Cases++
		sum.Nontrivial++
		if !ran {
			continue
		}
		k.cmpPad("Dgetc2", "a", a, lda, n, n)
		if kk < -1 || kk > n-1 {
			k.fail("Dgetc2", "k", "k = %d is neither -1 nor an index", kk)
			continue
		}
		if c.Rank == n && kk != -1 {
			k.fail("Dgetc2", "k", "k = %d on a non-singular integer matrix (every pivot is far above the perturbation threshold)", kk)
		}
		if c.Rank == n {
			sum.Count("getc2_general_nonsingular", 1)
		} else {
			sum.Count("getc2_general_singular", 1)
		}
		f, ok := ratFromFloats(a, lda, n)
		if !ok {
			k.fail("Dgetc2", "value", "non-finite factor")
			continue
		}
		if cl, msg := getc2Accept(aRat, f, ipiv, jpiv, n, tau, slackFor(kk, c.MaxA, 1)); cl != "" {
			k.fail("Dgetc2", "accept:"+cl, "Getc2Accept rejects the factorization (ipiv %v, jpiv %v, k %d): %s", ipiv, jpiv, kk, msg)
		}
	}
}

// gtsFamily: exactly singular tridiagonal systems (PlantedC!GtsInst): Dgtsv and lapack64.Gtsv (A and,
// for the zero-diagonal variant whose entries are all powers of two, A^T by exchanging the
// off-diagonals) must report ok = false; nothing else is promised.
func gtsFamily(c *inst, raw json.RawMessage, full bool, sum *core.Summary) {
	n := c.N
	k := &chk{sum: sum, c: raw, fam: "gts", den: c.Den, tol: tolRat(0, 1)}
	for _, nrhs := range []int{c.R, 1, 0} {
		for _, ldb := range []int{maxi(1, nrhs), nrhs + 2} {
			for _, routine := range []string{"Dgtsv", "lapack64.Gtsv", "lapack64.Gtsv(Trans)"} {
				if routine == "lapack64.Gtsv(Trans)" && c.V == 0 {
					// the elimination of A^T = U^T*L^T divides by entries that are not powers of two: the
					// zero pivot is not met exactly in floating point, nothing can be required
					continue
				}
				dl, dd, du := vec(c.Gdl, c.Den), vec(c.Gd, c.Den), vec(c.Gdu, c.Den)
				gb := build(c.GB, c.Den, n, nrhs, ldb, 1)
				k.where = desc(routine, "singular n", n, "variant", c.V, "zero pivot", c.Kz, "nrhs", nrhs, "ldb", ldb)
				ok := true
				ran := k.run(routine, func() {
					switch routine {
					case "Dgtsv":
						ok = impl.Dgtsv(n, nrhs, dl[:n-1], dd[:n], du[:n-1], gb, ldb)
					default:
						tr := blas.NoTrans
						if routine != "lapack64.Gtsv" {
							tr = blas.Trans
						}
						ok = lapack64.Gtsv(tr, lapack64.Tridiagonal{N: n, DL: dl[:n-1], D: dd[:n], DU: du[:n-1]},
							blas64.General{Rows: n, Cols: nrhs, Stride: ldb, Data: gb})
					}
				})
				sum.Cases++
				if n >= 2 {
					sum.Nontrivial++
				}
				if !ran {
					continue
				}
				sum.Count("gtsv_singular_calls", 1)
				// with nrhs = 0 there is no solution to compute: the flag is not judged
				if ok && nrhs > 0 {
					k.fail(routine, "ok", "ok = true for an exactly singular tridiagonal matrix (dl %v d %v du %v, all times 1/%d)", c.Gdl, c.Gd, c.Gdu, c.Den)
				}
				k.cmpPad(routine, "b", gb, ldb, n, nrhs)
				for _, t := range [][]float64{dl, dd, du} {
					if math.Float64bits(t[len(t)-1]) != math.Float64bits(tailNaN) {
						k.fail(routine, "touch", "a band vector was written beyond its length")
					}
				}
			}
		}
	}
}

// tdmFamily: C := alpha*op(A)*B + beta*C with a tridiagonal A (PlantedC!TdmInst) through Dlagtm and
// lapack64.Lagtm; integer data, every result exact; dl, d, du and B are inputs only.
func tdmFamily(c *inst, raw json.RawMessage, full bool, sum *core.Summary) {
	m, n := c.M, c.N
	k := &chk{sum: sum, c: raw, fam: "tdm", den: 1, tol: tolRat(0, 1)}
	for _, r := range c.Res {
		alpha, beta := float64(r[0][0][0]), float64(r[0][0][1])
		for ti, tr := range []blas.Transpose{blas.NoTrans, blas.Trans, blas.ConjTrans} {
			exp := r[1]
			if ti > 0 {
				exp = r[2]
			}
			for _, ldb := range []int{maxi(1, n), n + 2} {
				for _, ldc := range []int{maxi(1, n), n + 3} {
					for _, routine := range []string{"Dlagtm", "lapack64.Lagtm"} {
						if routine == "lapack64.Lagtm" && (ldb != maxi(1, n) || ti == 2) {
							continue
						}
						dl, dd, du := vec(c.Gdl, 1), vec(c.Gd, 1), vec(c.Gdu, 1)
						dl0, dd0, du0 := cloneF(dl), cloneF(dd), cloneF(du)
						b := build(c.B, 1, m, n, ldb, 1)
						b0 := cloneF(b)
						cc := build(c.C, 1, m, n, ldc, 1)
						k.where = desc(routine, "trans", ti, "m", m, "n", n, "alpha", alpha, "beta", beta, "ldb", ldb, "ldc", ldc)
						ran := k.run(routine, func() {
							if routine == "Dlagtm" {
								impl.Dlagtm(tr, m, n, alpha, dl[:maxi(0, m-1)], dd[:m], du[:maxi(0, m-1)], b, ldb, beta, cc, ldc)
							} else {
								lapack64.Lagtm(tr, alpha, lapack64.Tridiagonal{N: m, DL: dl[:maxi(0, m-1)], D: dd[:m], DU: du[:maxi(0, m-1)]},
									blas64.General{Rows: m, Cols: n, Stride: ldb, Data: b}, beta, blas64.General{Rows: m, Cols: n, Stride: ldc, Data: cc})
							}
						})
						sum.Cases++
						if m >= 2 && n >= 1 {
							sum.Nontrivial++
						}
						if !ran {
							continue
						}
						k.cmpSame(routine, "dl (input only)", dl, dl0)
						k.cmpSame(routine, "d (input only)", dd, dd0)
						k.cmpSame(routine, "du (input only)", du, du0)
						k.cmpSame(routine, "B (input only)", b, b0)
						k.cmpMat(routine, "C", cc, ldc, exp, 1, m, n, nil)
						k.cmpPad(routine, "c", cc, ldc, m, n)
					}
				}
			}
		}
	}
}

// rsclFamily: x := x / a for a = sg*2^ea, x = xi*2^ex (PlantedC!RsclInst): every quotient is a normal
// number and expected exactly; elements between the strided ones stay untouched.
func rsclFamily(c *inst, raw json.RawMessage, full bool, sum *core.Summary) {
	n := c.N
	k := &chk{sum: sum, c: raw, fam: "rscl", den: 1, tol: tolRat(0, 1)}
	a := math.Ldexp(float64(c.Sg), c.Ea)
	for _, inc := range []int{1, 2, 3} {
		ln := 1
		if n > 0 {
			ln = 1 + (n-1)*inc + 1
		}
		x := make([]float64, ln)
		for i := range x {
			x[i] = padNaN
		}
		x[ln-1] = tailNaN
		for i := 0; i < n; i++ {
			x[i*inc] = math.Ldexp(float64(c.Xi[i]), c.Ex)
		}
		x0 := cloneF(x)
		k.where = desc("Drscl n", n, "a", a, "x = xi * 2^", c.Ex, "incX", inc)
		ran := k.run("Drscl", func() { impl.Drscl(n, a, x[:ln-1+0], inc) })
		sum.Cases++
		if n >= 2 {
			sum.Nontrivial++
		}
		if !ran {
			continue
		}
		if c.Ea > 1000 || c.Ea < -1000 {
			sum.Count("rscl_calls_beyond_safe_range", 1)
		}
		for i := range x {
			if i < (n-1)*inc+1 && i%inc == 0 && n > 0 {
				want := math.Ldexp(float64(int64(c.Sg)*c.Xi[i/inc]), c.Ex-c.Ea)
				sum.Count("elements_compared", 1)
				if x[i] != want {
					k.fail("Drscl", "value", "x[%d] = %v, specification says %d * 2^%d / (%d * 2^%d) = %v", i, x[i], c.Xi[i/inc], c.Ex, c.Sg, c.Ea, want)
					break
				}
			} else if math.Float64bits(x[i]) != math.Float64bits(x0[i]) {
				k.fail("Drscl", "touch", "x[%d] (not addressed with incX = %d) changed from %v to %v", i, inc, x0[i], x[i])
				break
			}
		}
	}
}
