package lapackc

import (
	"encoding/json"
	"fmt"
	"strings"

	"gonum.org/v1/gonum/internal/verifhook"

	"gonum.org/v1/gonum/verifharness/internal/core"
)

// inst is one instance printed by specs/lapack/Planted.tla (fields used depend on Fam).
type inst struct {
	Fam  string `json:"fam"`
	M    int    `json:"m"`
	N    int    `json:"n"`
	V    int    `json:"v"`
	Den  int64  `json:"den"`
	Tol  int64  `json:"tol"`
	Ok   bool   `json:"ok"`
	A    imat   `json:"A"`
	LU   imat   `json:"LU"`
	Ipiv []int  `json:"ipiv"`
	R    int    `json:"R"`
	X    imat   `json:"X"`
	B    imat   `json:"B"`
	BT   imat   `json:"BT"`
	// Cholesky / triangular
	L    imat `json:"L"`
	Kbad int  `json:"kbad"`
	Kz   int  `json:"kz"`
	Inv  imat `json:"Inv"`
	Kd   int  `json:"kd"`
	Unit bool `json:"unit"`
	// QR family
	Q     imat      `json:"Q"`
	RR    imat      `json:"RR"`
	C     imat      `json:"C"`
	QC    imat      `json:"QC"`
	QTC   imat      `json:"QTC"`
	CQ    imat      `json:"CQ"`
	CQT   imat      `json:"CQT"`
	CR    imat      `json:"CR"`
	Qidx  []int     `json:"qidx"`
	XMN   imat      `json:"XMN"`
	BMN   imat      `json:"BMN"`
	Pd    []int64   `json:"pd"`
	Pe    []int64   `json:"pe"`
	D     []int64   `json:"D"`
	L1    []int64   `json:"l"`
	PB    imat      `json:"PB"`
	Gdl   []int64   `json:"gdl"`
	Gd    []int64   `json:"gd"`
	Gdu   []int64   `json:"gdu"`
	GB    imat      `json:"GB"`
	Npiv  int       `json:"npiv"`
	K1    int       `json:"k1"`
	K2    int       `json:"k2"`
	SwF   imat      `json:"swF"`
	SwB   imat      `json:"swB"`
	Kc    []int     `json:"kc"`
	Kr    []int     `json:"kr"`
	PcF   imat      `json:"pcF"`
	PcB   imat      `json:"pcB"`
	PrF   imat      `json:"prF"`
	PrB   imat      `json:"prB"`
	Nge   []int64   `json:"nge"`
	Nsy   []int64   `json:"nsy"`
	Ntr   [][]int64 `json:"ntr"`
	Deep  bool      `json:"deep"`
	PI    imat      `json:"PI"`
	AI    imat      `json:"AI"`
	Nf    int       `json:"nf"`
	Jin   []int     `json:"jin"`
	Jpvt  []int     `json:"jpvt"`
	Tau   []int64   `json:"tau"`
	T     imat      `json:"T"`
	Scal  [][]int   `json:"scal"`  // ls: exponents <<ea, eb>> of the scalings A*2^ea, B*2^eb
	ScalX [][]int   `json:"scalx"` // ls: further scalings (variants=full)
	SNrhs []int     `json:"snrhs"` // ls: numbers of right-hand sides for the scaled problems
	// families of specs/lapack/PlantedX.tla
	Sc     int       `json:"sc"`   // lus: every element of A (and of U, B) is multiplied by 2^sc
	Rank   int       `json:"rank"` // pst
	Piv    []int     `json:"piv"`
	LL     imat      `json:"LL"` // ql: the lower trapezoidal factor in the QL layout
	Kind   int       `json:"kind"`
	W      imat      `json:"W"` // con: A^-1 = W / wd
	Wd     int64     `json:"wd"`
	NA     []int64   `json:"nA"` // con: one and infinity norm of A
	One    conBounds `json:"one"`
	Inf    conBounds `json:"inf"`
	HaveLU bool      `json:"haveLU"`
	HaveCH bool      `json:"haveCH"`
	Gecon  bool      `json:"gecon"` // con: Dgecon is driven (given factors, or a factorization without interchanges)
	Spd    bool      `json:"spd"`
	Tri    bool      `json:"tri"`
	Items  []nrmItem `json:"items"` // nrm
	// families of specs/lapack/PlantedC.tla (complete pivoting)
	Jpiv   []int   `json:"jpiv"`
	MaxA   int64   `json:"maxA"`   // max |A[i][j]| (times den)
	BigExp int     `json:"bigexp"` // c2: exponent of the scaled right-hand sides of Dgesc2
	Rd     [][]int `json:"rd"`     // c2: incoming (rdsum, log2 rdscal) pairs of Dlatdf
	Res [][]imat `json:"res"` // tdm: <<alpha, beta>>, alpha*A*B + beta*C, alpha*A^T*B + beta*C
	Ea  int      `json:"ea"`  // rscl: a = sg * 2^ea, x = xi * 2^ex
	Ex  int      `json:"ex"`
	Sg  int      `json:"sg"`
	Xi  []int64  `json:"xi"`
	// workspace contract
	Routine string `json:"routine"`
	Class   string `json:"class"`
	Lwork   int    `json:"lwork"`
	MinW    int    `json:"minw"`
	Outcome string `json:"outcome"`
	K       int    `json:"k"`
	Side    string `json:"side"`
}

// forcedNB > 0 when the Ilaenv override is installed (used only for counting).
var forcedNB int

var families = map[string]func(in *inst, raw json.RawMessage, full bool, sum *core.Summary){}

func init() {
	core.RegisterReplay("lapack", replay)
}

func replay(in *core.Lines, args []string, seed int64, sum *core.Summary) error {
	sum.Count("inexact_elements", 0) // elements within tolerance but not bit-equal to the exact value
	full := false
	nb, nx := 0, -1
	for _, a := range args {
		if a == "variants=full" {
			full = true
		}
		fmt.Sscanf(a, "nb=%d", &nb)
		fmt.Sscanf(a, "nx=%d", &nx)
	}
	if nb > 0 {
		// Force the block size (ispec 1) and the crossover point (ispec 3) of every blocked
		// LAPACK routine through the verif-tagged hook in lapack/gonum.Ilaenv; the minimum block
		// size (ispec 2) and everything else keep their defaults.  Which path runs is never a
		// verdict: results are compared with the same specification values as before.
		verifhook.SetIlaenv(func(ispec int, name, opts string, n1, n2, n3, n4 int) (int, bool) {
			if ispec == 1 || ispec == 3 {
				sum.Count("ilaenv_override_hits", 1)
			}
			switch {
			case ispec == 1:
				return nb, true
			case ispec == 3 && nx >= 0:
				return nx, true
			}
			return 0, false
		})
		defer verifhook.SetIlaenv(nil)
		forcedNB = nb
		sum.Extra["forced_nb"] = nb
		sum.Extra["forced_nx"] = nx
	}
	for {
		line, ok := in.Next()
		if !ok {
			break
		}
		raw := json.RawMessage(append([]byte(nil), line...))
		var c inst
		if err := json.Unmarshal(line, &c); err != nil {
			return fmt.Errorf("line %d: %v", in.N, err)
		}
		f := families[c.Fam]
		if f == nil {
			return fmt.Errorf("line %d: unknown family %q", in.N, c.Fam)
		}
		before := len(sum.Failures)
		f(&c, raw, full, sum)
		if len(sum.Failures) == before && len(sum.Samples) < 2 && c.M <= 4 && c.N <= 4 && c.M*c.N >= 6 {
			sum.Sample(raw)
		}
	}
	return nil
}

func desc(parts ...any) string {
	s := make([]string, len(parts))
	for i, p := range parts {
		s[i] = fmt.Sprint(p)
	}
	return strings.Join(s, " ")
}
