package lapackc

import (
	"encoding/json"

	"gonum.org/v1/gonum/blas"
	"gonum.org/v1/gonum/blas/blas64"
	"gonum.org/v1/gonum/lapack/lapack64"

	"gonum.org/v1/gonum/verifharness/internal/core"
)

func init() {
	families["tb"] = tbFamily
	families["lauum"] = lauumFamily
}

// tbFamily: triangular band systems T X = B, T^T X = BT with integer solutions (PlantedX!TbInst).
// The band array holds T (upper) or T^T (lower).
func tbFamily(c *inst, raw json.RawMessage, full bool, sum *core.Summary) {
	n, kd := c.N, c.Kd
	k := &chk{sum: sum, c: raw, fam: "tb", den: 1, tol: tolRat(c.Tol, 1)}
	count := func() {
		sum.Cases++
		if n >= 2 && kd >= 1 {
			sum.Nontrivial++
		}
	}
	diag := blas.NonUnit
	if c.Unit {
		diag = blas.Unit
	}
	nrhss := []int{c.R, 1, 0}
	for _, up := range []bool{true, false} {
		ul := blas.Lower
		if up {
			ul = blas.Upper
		}
		for _, ldab := range []int{kd + 1, kd + 3} {
			for _, nrhs := range nrhss {
				if nrhs > c.R {
					continue
				}
				for _, ldb := range []int{maxi(1, nrhs), nrhs + 2} {
					for _, tr := range []blas.Transpose{blas.NoTrans, blas.Trans, blas.ConjTrans} {
						for _, routine := range []string{"Dtbtrs", "lapack64.Tbtrs"} {
							if routine == "lapack64.Tbtrs" && (ldb != maxi(1, nrhs) || nrhs != c.R || ldab != kd+1) {
								continue
							}
							k.where = desc(routine, "upper", up, "trans", tr != blas.NoTrans, "unit", c.Unit, "n", n, "kd", kd, "nrhs", nrhs, "ldab", ldab, "ldb", ldb, "variant", c.V)
							ab := packBand(c.T, n, kd, ldab, up, !up)
							if c.Unit {
								for i := 0; i < n; i++ {
									ab[bandIndex(up, kd, ldab, i, i)] = triNaN // not referenced
								}
							}
							ab0 := cloneF(ab)
							// the array holds T (upper) or T^T (lower): op(array) = T  <=>  up == NoTrans
							rhs := c.B
							if up != (tr == blas.NoTrans) {
								rhs = c.BT
							}
							b := build(rhs, 1, n, nrhs, ldb, 1)
							b0 := cloneF(b)
							var ok bool
							ran := k.run(routine, func() {
								if routine == "Dtbtrs" {
									ok = impl.Dtbtrs(ul, tr, diag, n, kd, nrhs, ab, ldab, b, ldb)
								} else {
									ok = lapack64.Tbtrs(tr, blas64.TriangularBand{N: n, K: kd, Stride: ldab, Data: ab, Uplo: ul, Diag: diag},
										blas64.General{Rows: n, Cols: nrhs, Stride: ldb, Data: b})
								}
							})
							count()
							if !ran {
								continue
							}
							k.cmpSame(routine, "band matrix (input only)", ab, ab0)
							if ok != c.Ok {
								k.fail(routine, "ok", "ok = %v, specification says %v (zero planted at diagonal element %d)", ok, c.Ok, c.Kz)
								continue
							}
							if !c.Ok {
								k.cmpSame(routine, "right-hand side of a singular system (no solution is computed)", b, b0)
								continue
							}
							k.cmpMat(routine, "X", b, ldb, c.X, 1, n, nrhs, nil)
							k.cmpPad(routine, "b", b, ldb, n, nrhs)
						}
					}
				}
			}
		}
	}
}

// lauumFamily: U*U^T (upper) and L^T*L with L = U^T (lower) of an integer triangle: both equal
// the symmetric matrix P the specification printed; the referenced triangle is overwritten.
func lauumFamily(c *inst, raw json.RawMessage, full bool, sum *core.Summary) {
	n := c.N
	k := &chk{sum: sum, c: raw, fam: "lauum", den: 1, tol: tolRat(c.Tol, 1)}
	for _, up := range []bool{true, false} {
		ul := blas.Lower
		if up {
			ul = blas.Upper
		}
		for _, lda := range ldas(n, full) {
			for _, routine := range []string{"Dlauu2", "Dlauum"} {
				k.where = desc(routine, "upper", up, "n", n, "lda", lda)
				a := buildTriangle(c.T, 1, n, lda, up, false, 1)
				ran := k.run(routine, func() {
					if routine == "Dlauu2" {
						impl.Dlauu2(ul, n, a, lda)
					} else {
						impl.Dlauum(ul, n, a, lda)
					}
				})
				sum.Cases++
				if n >= 2 {
					sum.Nontrivial++
				}
				if n > 64 || forcedNB > 1 && forcedNB < n {
					sum.Count("calls_on_blocked_sizes", 1)
				}
				if !ran {
					continue
				}
				k.cmpTriangle(routine, "product", a, n, lda, up, false, c.PI, 1)
				k.cmpPad(routine, "a", a, lda, n, n)
			}
		}
	}
}
