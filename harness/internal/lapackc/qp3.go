package lapackc

import (
	"encoding/json"
	"math"
	"strings"

	"gonum.org/v1/gonum/blas/blas64"
	"gonum.org/v1/gonum/lapack/lapack64"

	"gonum.org/v1/gonum/verifharness/internal/core"
)

func init() { families["qp3"] = qp3Family }

// qp3Family: planted A*P0 = Q0*R0 with a forced column-pivoting order (Dgeqp3, lapack64.Geqp3),
// free and fixed leading columns, lwork in {minimum 3n+1 (unblocked Dlaqp2), reduced block sizes,
// queried optimum, optimum+7 (blocked Dlaqps)}.  Expected: jpvt exactly, R = S*R0, Q = Q0*S
// (generated with Dorgqr from the returned reflectors), non-increasing |diag R| over the free part.
func qp3Family(c *inst, raw json.RawMessage, full bool, sum *core.Summary) {
	m, n, kk, nf := c.M, c.N, c.K, c.Nf
	k := &chk{sum: sum, c: raw, fam: "qp3", den: c.Den, tol: tolRat(c.Tol, c.Den), empty: kk == 0}
	count := func() {
		sum.Cases++
		if kk >= 2 {
			sum.Nontrivial++
		}
		if kk-nf > 128 || forcedNB > 1 && forcedNB < kk-nf {
			sum.Count("calls_on_blocked_sizes", 1)
		}
	}
	minw := 3*n + 1
	if kk == 0 {
		minw = 1
	}
	for _, lda := range ldas(n, full) {
		for _, routine := range []string{"Dgeqp3", "lapack64.Geqp3"} {
			if routine == "lapack64.Geqp3" && lda != maxi(1, n) && !full {
				continue
			}
			// workspace query
			a := build(c.A, c.Den, m, n, lda, 1)
			tau := newWork(kk)
			jq := append([]int(nil), c.Jin...)
			k.where = desc(routine, "query", "m", m, "n", n, "nf", nf, "lda", lda)
			opt, ok := k.query(routine, minw, func(w []float64) { impl.Dgeqp3(m, n, a, lda, jq, tau, w, -1) }, a, tau)
			for i := range jq {
				if jq[i] != c.Jin[i] {
					k.fail(routine, "query-touch", "workspace query modified jpvt")
					break
				}
			}
			if !ok {
				continue
			}
			sn := n - nf
			lworks := lworkVariants(minw, opt, full, 2*sn+(sn+1)*2, 2*sn+(sn+1)*3, 2*sn+(sn+1)*5)
			if routine == "lapack64.Geqp3" && !full {
				lworks = []int{opt}
			}
			for _, lwork := range lworks {
				k.where = desc(routine, "m", m, "n", n, "nf", nf, "lda", lda, "lwork", lwork)
				a := build(c.A, c.Den, m, n, lda, 1)
				tau := newWork(kk)
				jp := append([]int(nil), c.Jin...)
				work := newWork(lwork)
				o := core.Call(func() {
					if routine == "Dgeqp3" {
						impl.Dgeqp3(m, n, a, lda, jp, tau, work, lwork)
					} else {
						lapack64.Geqp3(blas64.General{Rows: m, Cols: n, Stride: lda, Data: a}, jp, tau, work, lwork)
					}
				})
				count()
				if o.Panicked {
					switch {
					case o.Runtime:
						k.fail(routine, "runtime-panic", "unexpected panic on valid arguments: %s", o.Text)
					case strings.Contains(o.Text, "length of f") && nf > 0:
						// every lwork >= 3n+1 is documented as valid; kept under its own signature
						k.fail(routine, "lwork-shortF", "valid lwork (minimum %d, optimum %d) with %d fixed columns panics: %s", minw, opt, nf, o.Text)
					default:
						k.fail(routine, "panic", "unexpected panic on valid arguments: %s", o.Text)
					}
					continue
				}
				k.cmpPad(routine, "a", a, lda, m, n)
				if kk == 0 {
					continue // nothing is specified about jpvt of an empty factorization
				}
				// the first k pivots are forced; the columns never chosen (positions >= k, wide
				// matrices) may stand in any order: jpvt must be a permutation and column j of R
				// is compared with the planted column that jpvt[j] names
				bad := false
				p0inv := make([]int, n)
				for j, v := range c.Jpvt {
					p0inv[v] = j
				}
				seen := make([]bool, n)
				for j := range jp {
					if jp[j] < 0 || jp[j] >= n || seen[jp[j]] {
						k.fail(routine, "structure", "jpvt = %v is not a permutation", jp)
						bad = true
						break
					}
					seen[jp[j]] = true
					if j < kk && jp[j] != c.Jpvt[j] {
						k.fail(routine, "jpvt", "jpvt[%d] = %d, specification says %d (the pivot column is unique at every step); jpvt = %v", j, jp[j], c.Jpvt[j], jp)
						bad = true
						break
					}
				}
				if bad {
					continue
				}
				s := make(signs, kk)
				for t := 0; t < kk; t++ {
					d := a[t*lda+t]
					switch {
					case d != 0 && (d > 0) == (c.RR[t][t] > 0):
						s[t] = 1
					case d != 0 && d == d:
						s[t] = -1
					default:
						k.fail(routine, "value", "R[%d][%d] = %v, specification says +-%d", t, t, d, c.RR[t][t])
						bad = true
					}
					if t > nf && t < kk && !(math.Abs(a[(t-1)*lda+t-1]) >= math.Abs(d)) {
						k.fail(routine, "structure", "|R[%d][%d]| = %v < |R[%d][%d]| = %v: diagonal not non-increasing", t-1, t-1, math.Abs(a[(t-1)*lda+t-1]), t, t, math.Abs(d))
					}
				}
				if bad {
					continue
				}
				exp := make(imat, kk)
				for t := range exp {
					exp[t] = make([]int64, n)
					for j := range exp[t] {
						exp[t][j] = int64(s[t]) * c.RR[t][p0inv[jp[j]]]
					}
				}
				k.cmpMat(routine, "R", a, lda, exp, c.Den, kk, n, func(i, j int) bool { return j >= i })
				// Q = Q0*S through Dorgqr on the returned reflectors
				ldq := kk + (lda - n)
				q := make([]float64, (m-1)*ldq+kk)
				for i := 0; i < m; i++ {
					copy(q[i*ldq:i*ldq+kk], a[i*lda:i*lda+kk])
				}
				w2 := newWork(maxi(1, kk) * 32)
				if !k.run("Dorgqr", func() { impl.Dorgqr(m, kk, kk, q, ldq, tau[:kk], w2, len(w2)) }) {
					continue
				}
				qe := make(imat, m)
				for i := range qe {
					qe[i] = make([]int64, kk)
					for t := 0; t < kk; t++ {
						qe[i][t] = int64(s[t]) * c.Q[i][t]
					}
				}
				k.cmpMat(routine, "Q (from the returned reflectors)", q, ldq, qe, 1, m, kk, nil)
			}
		}
	}
}
