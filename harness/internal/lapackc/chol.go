package lapackc

import (
	"encoding/json"
	"math"

	"gonum.org/v1/gonum/blas"
	"gonum.org/v1/gonum/blas/blas64"
	"gonum.org/v1/gonum/lapack/lapack64"

	"gonum.org/v1/gonum/verifharness/internal/core"
)

func init() { families["chol"] = cholFamily }

// buildTri lays out the uplo triangle of the symmetric / triangular matrix a (given in full
// or as its lower triangle when lowerOnly) and fills the opposite strict triangle with triNaN:
// a routine that references it produces NaNs, a routine that writes it is caught bit-exactly.
func buildTri(a imat, den int64, n, lda int, up bool, transpose bool, extra int) []float64 {
	s := build(a, den, n, n, lda, extra)
	for i := 0; i < n; i++ {
		for j := 0; j < n; j++ {
			switch {
			case up && j < i, !up && j > i:
				s[i*lda+j] = triNaN
			case transpose:
				s[i*lda+j] = val(a[j][i], den)
			}
		}
	}
	return s
}

func (k *chk) cmpOtherTri(routine string, got []float64, n, lda int, up bool) {
	for i := 0; i < n; i++ {
		for j := 0; j < n; j++ {
			if (up && j < i) || (!up && j > i) {
				if math.Float64bits(got[i*lda+j]) != math.Float64bits(triNaN) {
					k.fail(routine, "touch", "element [%d][%d] of the triangle that is not referenced was written: %v", i, j, got[i*lda+j])
					return
				}
			}
		}
	}
}

// cmpTri compares the uplo triangle of got with L (lower) or L^T (upper).
func (k *chk) cmpTri(routine, what string, got []float64, n, lda int, up bool, l imat, den int64) {
	if up {
		lt := make(imat, n)
		for i := range lt {
			lt[i] = make([]int64, n)
			for j := range lt[i] {
				lt[i][j] = l[j][i]
			}
		}
		k.cmpMat(routine, what, got, lda, lt, den, n, n, func(i, j int) bool { return j >= i })
		return
	}
	k.cmpMat(routine, what, got, lda, l, den, n, n, func(i, j int) bool { return j <= i })
}

// cholFamily: planted A = L0 D L0^T.
func cholFamily(c *inst, raw json.RawMessage, full bool, sum *core.Summary) {
	n := c.N
	k := &chk{sum: sum, c: raw, fam: "chol", den: c.Den, tol: tolRat(c.Tol, c.Den)}
	count := func() {
		sum.Cases++
		if n >= 2 {
			sum.Nontrivial++
		}
		if n > 64 || forcedNB > 0 && forcedNB < n {
			sum.Count("calls_on_blocked_sizes", 1)
		}
	}
	for _, up := range []bool{false, true} {
		ul := blas.Lower
		if up {
			ul = blas.Upper
		}
		for _, lda := range ldas(n, full) {
			for _, routine := range []string{"Dpotf2", "Dpotrf", "lapack64.Potrf"} {
				k.where = desc(routine, "upper", up, "n", n, "lda", lda, "variant", c.V)
				a := buildTri(c.A, c.Den, n, lda, up, false, 2)
				var ok bool
				ran := k.run(routine, func() {
					switch routine {
					case "Dpotf2":
						ok = impl.Dpotf2(ul, n, a, lda)
					case "Dpotrf":
						ok = impl.Dpotrf(ul, n, a, lda)
					default:
						_, ok = lapack64.Potrf(blas64.Symmetric{N: n, Stride: lda, Data: a, Uplo: ul})
					}
				})
				count()
				if !ran {
					continue
				}
				if ok != c.Ok {
					k.fail(routine, "ok", "ok = %v, specification says %v (leading minor %d not positive)", ok, c.Ok, c.Kbad+1)
				}
				if c.Ok && ok {
					k.cmpTri(routine, "factor", a, n, lda, up, c.L, c.Den)
				}
				k.cmpOtherTri(routine, a, n, lda, up)
				k.cmpPad(routine, "a", a, lda, n, n)
			}
		}
		if c.R == 0 {
			continue
		}
		nrhss := []int{c.R, 1}
		if full {
			nrhss = []int{c.R, 1, 2, 0}
		}
		for _, lda := range ldas(n, full) {
			for _, nrhs := range nrhss {
				if nrhs > c.R {
					continue
				}
				for _, ldb := range []int{maxi(1, nrhs), nrhs + 2} {
					for _, routine := range []string{"Dpotrs", "lapack64.Potrs"} {
						if routine == "lapack64.Potrs" && (ldb != maxi(1, nrhs) || nrhs != c.R) {
							continue
						}
						k.where = desc(routine, "upper", up, "n", n, "nrhs", nrhs, "lda", lda, "ldb", ldb)
						a := buildTri(c.L, c.Den, n, lda, up, up, 1)
						a0 := cloneF(a)
						b := build(c.B, c.Den, n, nrhs, ldb, 1)
						ran := k.run(routine, func() {
							if routine == "Dpotrs" {
								impl.Dpotrs(ul, n, nrhs, a, lda, b, ldb)
							} else {
								lapack64.Potrs(blas64.Triangular{N: n, Stride: lda, Data: a, Uplo: ul, Diag: blas.NonUnit},
									blas64.General{Rows: n, Cols: nrhs, Stride: ldb, Data: b})
							}
						})
						count()
						if !ran {
							continue
						}
						k.cmpMat(routine, "X", b, ldb, c.X, 1, n, nrhs, nil)
						k.cmpPad(routine, "b", b, ldb, n, nrhs)
						k.cmpSame(routine, "factor (input only)", a, a0)
					}
				}
			}
		}
	}
}
