// Package lapackc binds the LAPACK specifications of property C02
// (specs/lapack/*.tla) to gonum's lapack/gonum.Implementation and the lapack64
// wrappers.  It contains no linear algebra of its own: operands, expected
// factors / pivots / solutions and the tolerance all come from the JSON the
// specification printed; this package builds backing slices (with canaries in
// padding and untouched regions), calls gonum under lda / ldb / lwork /
// routine variation and compares element by element.
package lapackc

import (
	"fmt"
	"math"
	"math/big"

	"gonum.org/v1/gonum/verifharness/internal/core"
)

// canary values placed where a routine must not read or write.
var (
	padNaN  = math.Float64frombits(0x7ff8_0000_0000_c02a) // padding columns lda > n
	tailNaN = math.Float64frombits(0x7ff8_0000_0000_c02b) // beyond the documented length
	triNaN  = math.Float64frombits(0x7ff8_0000_0000_c02c) // the triangle a routine must not reference
)

const workFill = -6.2578125e+3 // exactly representable marker for workspace

// imat is a matrix of integers as the specification prints it (sequence of rows).
type imat [][]int64

func (a imat) at(i, j int) int64 { return a[i][j] }

// val converts a scaled integer of the specification into the float64 it denotes.
// den is a power of two and |v| < 2^31, so the quotient is exact.
func val(v int64, den int64) float64 { return float64(v) / float64(den) }

// build lays out an m x n matrix row-major with leading dimension lda, canaries in the
// padding columns, and `extra` canary elements after the last addressed element.
func build(a imat, den int64, m, n, lda, extra int) []float64 {
	if m == 0 || n == 0 {
		// an m x 0 matrix still spans (m-1)*lda elements by the LAPACK length rule
		ln := extra
		if m > 0 {
			ln += (m - 1) * lda
		}
		s := make([]float64, ln)
		for i := range s {
			s[i] = tailNaN
		}
		return s
	}
	s := make([]float64, (m-1)*lda+n+extra)
	for i := range s {
		s[i] = padNaN
	}
	for i := (m-1)*lda + n; i < len(s); i++ {
		s[i] = tailNaN
	}
	for i := 0; i < m; i++ {
		for j := 0; j < n; j++ {
			s[i*lda+j] = val(a[i][j], den)
		}
	}
	return s
}

// chk carries what every comparison needs.
type chk struct {
	sum   *core.Summary
	c     any    // the replayable case
	where string // routine + variant description
	fam   string
	den   int64
	tol   *big.Rat // absolute tolerance (exact rational from the specification)
	bad   bool
	empty bool   // the instance has a zero dimension
	tag   string // appended to the kind of value failures (root-cause classification)
}

func (k *chk) fail(routine, kind, format string, a ...any) {
	k.bad = true
	k.sum.Fail("lapack:"+routine+":"+kind, k.where+": "+fmt.Sprintf(format, a...), k.c)
}

// tolRat converts the specification's tolerance (integer count of eps/den units) to a rational.
func tolRat(t int64, den int64) *big.Rat {
	r := new(big.Rat).SetInt64(t)
	r.Quo(r, new(big.Rat).SetInt64(den))
	eps := new(big.Rat).SetFrac(big.NewInt(1), new(big.Int).Lsh(big.NewInt(1), 52))
	return r.Mul(r, eps)
}

// near reports whether got equals the exact value v/den (exact=true) or lies within tol of it.
func (k *chk) near(got float64, v int64, den int64, tol *big.Rat) (ok, exact bool) {
	e := val(v, den)
	if got == e {
		return true, true
	}
	if math.IsNaN(got) || math.IsInf(got, 0) {
		return false, false
	}
	d := new(big.Rat).SetFloat64(got)
	d.Sub(d, big.NewRat(v, den))
	d.Abs(d)
	if tol.Sign() > 0 {
		r, _ := new(big.Rat).Quo(d, tol).Float64()
		if old, _ := k.sum.Extra["max_dev_over_tol"].(float64); r > old && r <= 1 {
			k.sum.Extra["max_dev_over_tol"] = r
		}
	}
	return d.Cmp(tol) <= 0, false
}

// cmpMat compares the region sel(i,j) of a row-major matrix with the expected integers.
func (k *chk) cmpMat(routine, what string, got []float64, ld int, exp imat, den int64, m, n int, sel func(i, j int) bool) {
	nbad := 0
	for i := 0; i < m; i++ {
		for j := 0; j < n; j++ {
			if sel != nil && !sel(i, j) {
				continue
			}
			ok, exact := k.near(got[i*ld+j], exp[i][j], den, k.tol)
			if !exact {
				k.sum.Count("inexact_elements", 1)
			}
			k.sum.Count("elements_compared", 1)
			if !ok {
				if nbad == 0 {
					k.fail(routine, "value"+k.tag, "%s[%d][%d] = %v, specification says %d/%d (tolerance %s)", what, i, j, got[i*ld+j], exp[i][j], den, k.tol.FloatString(25))
				}
				nbad++
			}
		}
	}
}

// cmpPad checks that padding columns and the tail still hold their canaries (bit-exact).
func (k *chk) cmpPad(routine, what string, got []float64, ld, m, n int) {
	if m == 0 || n == 0 {
		for i, v := range got {
			if math.Float64bits(v) != math.Float64bits(tailNaN) {
				k.fail(routine, "touch", "%s: element %d outside an empty matrix was written (%v)", what, i, v)
				return
			}
		}
		return
	}
	for idx, v := range got {
		i, j := idx/ld, idx%ld
		if i < m && j < n && idx < (m-1)*ld+n {
			continue
		}
		want := padNaN
		if idx >= (m-1)*ld+n {
			want = tailNaN
		}
		if math.Float64bits(v) != math.Float64bits(want) {
			k.fail(routine, "touch", "%s: padding element at flat index %d (row %d, col %d, ld %d) was written: %v", what, idx, i, j, ld, v)
			return
		}
	}
}

// cmpSame checks bit-identity of a region with a snapshot (operands that must not change).
func (k *chk) cmpSame(routine, what string, got, before []float64) {
	k.cmpSameKind(routine, "touch", what, got, before)
}

func (k *chk) cmpSameKind(routine, kind, what string, got, before []float64) {
	if len(got) != len(before) {
		k.fail(routine, kind, "%s: length changed", what)
		return
	}
	for i := range got {
		if math.Float64bits(got[i]) != math.Float64bits(before[i]) {
			k.fail(routine, kind, "%s: element %d changed from %v to %v", what, i, before[i], got[i])
			return
		}
	}
}

func cloneF(s []float64) []float64 { return append([]float64(nil), s...) }

func newWork(n int) []float64 {
	w := make([]float64, n)
	for i := range w {
		w[i] = workFill
	}
	return w
}

// run calls f under the watchdog-free recover wrapper and reports unexpected panics.
func (k *chk) run(routine string, f func()) bool {
	o := core.Call(f)
	if o.Panicked {
		kind := "panic"
		if o.Runtime {
			kind = "runtime-panic"
		}
		k.fail(routine, kind, "unexpected panic on valid arguments: %s", o.Text)
		return false
	}
	return true
}

func maxi(a, b int) int {
	if a > b {
		return a
	}
	return b
}
func mini(a, b int) int {
	if a < b {
		return a
	}
	return b
}
