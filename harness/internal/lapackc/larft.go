package lapackc

import (
	"encoding/json"

	"gonum.org/v1/gonum/lapack"

	"gonum.org/v1/gonum/verifharness/internal/core"
)

func init() { families["larft"] = larftFamily }

// larftFamily: reflectors (V, tau) and the triangular factor T of the block reflector as the
// specification defines it; Dlarft forward, V stored column-wise and (transposed) row-wise.
func larftFamily(c *inst, raw json.RawMessage, full bool, sum *core.Summary) {
	n, kk := c.M, c.K
	k := &chk{sum: sum, c: raw, fam: "larft", den: c.Den, tol: tolRat(c.Tol, c.Den)}
	tau := make([]float64, kk)
	for i := range tau {
		tau[i] = float64(c.Tau[i])
	}
	vt := transpose(c.A, n, kk)
	for _, rowwise := range []bool{false, true} {
		for _, pad := range []int{0, 2} {
			store := lapack.ColumnWise
			// (generous tail: Dlarft slices v[(i+1)*ldv:] even for an empty product, which is out of
			// range on a minimal-length v when n == k and ldv > k+1 - an argument-contract matter of
			// property C07, kept out of this check)
			v := build(c.A, 1, n, kk, kk+pad, kk+pad+1)
			ldv := kk + pad
			if rowwise {
				store = lapack.RowWise
				v = build(vt, 1, kk, n, n+pad, n+pad+1)
				ldv = n + pad
			}
			ldt := kk + pad
			t := newWork((kk-1)*ldt + kk)
			v0, tau0 := cloneF(v), cloneF(tau)
			k.where = desc("Dlarft forward rowwise", rowwise, "n", n, "k", kk, "ldv", ldv, "ldt", ldt, "variant", c.V)
			ran := k.run("Dlarft", func() { impl.Dlarft(lapack.Forward, store, n, kk, v, ldv, tau, t, ldt) })
			sum.Cases++
			if kk >= 3 {
				sum.Nontrivial++
			}
			if !ran {
				continue
			}
			k.cmpMat("Dlarft", "T", t, ldt, c.T, 1, kk, kk, func(i, j int) bool { return j >= i })
			for i := 0; i < kk; i++ {
				for j := 0; j < ldt && i*ldt+j < len(t); j++ {
					if (j < i || j >= kk) && t[i*ldt+j] != workFill {
						k.fail("Dlarft", "touch", "t[%d][%d] outside the upper triangle was written: %v", i, j, t[i*ldt+j])
					}
				}
			}
			k.cmpSame("Dlarft", "v (input only)", v, v0)
			k.cmpSame("Dlarft", "tau (input only)", tau, tau0)
		}
	}
}

// dlarftTrigger reports whether the reflectors stored column-wise (rowwise=false: a is rows x k,
// v_i below the diagonal of column i) or row-wise in a have the trailing-zero pattern
// "last non-zero row of v_b > last non-zero row of v_{b+1}" for some b with b+2 < k, which is
// the precondition of the Dlarft defect found by the larft family (dlarft.go, prevlastv is
// reset at i == 1).  Used only to choose the failure signature of routines that call Dlarft.
func dlarftTrigger(a []float64, lda int, rows, k int, rowwise bool, tau []float64) bool {
	last := func(i int) int {
		for r := rows - 1; r > i; r-- {
			var x float64
			if rowwise {
				x = a[i*lda+r]
			} else {
				x = a[r*lda+i]
			}
			if x != 0 {
				return r
			}
		}
		return i
	}
	for b := 0; b+2 < k; b++ {
		if tau[b] != 0 && tau[b+1] != 0 && last(b) > last(b+1) {
			return true
		}
	}
	return false
}
