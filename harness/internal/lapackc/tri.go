package lapackc

import (
	"encoding/json"
	"math"

	"gonum.org/v1/gonum/blas"
	"gonum.org/v1/gonum/blas/blas64"
	"gonum.org/v1/gonum/lapack/lapack64"

	"gonum.org/v1/gonum/verifharness/internal/core"
)

func init() { families["tri"] = triFamily }

// buildTriangle lays out the uplo triangle of t (given as upper triangular matrix; lower = t^T),
// canaries in the opposite strict triangle and, for unit, on the diagonal (not referenced).
func buildTriangle(t imat, den int64, n, lda int, up, unit bool, extra int) []float64 {
	s := build(t, den, n, n, lda, extra)
	for i := 0; i < n; i++ {
		for j := 0; j < n; j++ {
			switch {
			case i == j && unit:
				s[i*lda+j] = triNaN
			case up && j < i, !up && j > i:
				s[i*lda+j] = triNaN
			case !up:
				s[i*lda+j] = val(t[j][i], den)
			}
		}
	}
	return s
}

// cmpTriangle compares the uplo triangle (without the diagonal when unit) with e (upper) / e^T,
// and the rest of the square with the canaries.
func (k *chk) cmpTriangle(routine, what string, got []float64, n, lda int, up, unit bool, e imat, den int64) {
	exp := e
	if !up {
		exp = transpose(e, n, n)
	}
	k.cmpMat(routine, what, got, lda, exp, den, n, n, func(i, j int) bool {
		if i == j {
			return !unit
		}
		return up == (j > i)
	})
	for i := 0; i < n; i++ {
		for j := 0; j < n; j++ {
			if (i == j && unit) || (i != j && up != (j > i)) {
				if math.Float64bits(got[i*lda+j]) != math.Float64bits(triNaN) {
					k.fail(routine, "touch", "%s: element [%d][%d] that is not referenced was written: %v", what, i, j, got[i*lda+j])
					return
				}
			}
		}
	}
}

// triFamily: planted triangular T = (I+N1)(I+N2)D with exact inverse; solves; Cholesky and LU
// inverses built on it.
func triFamily(c *inst, raw json.RawMessage, full bool, sum *core.Summary) {
	n := c.N
	k := &chk{sum: sum, c: raw, fam: "tri", den: c.Den, tol: tolRat(c.Tol, c.Den), empty: n == 0}
	count := func() {
		sum.Cases++
		if n >= 2 {
			sum.Nontrivial++
		}
		if n > 64 || forcedNB > 1 && forcedNB < n {
			sum.Count("calls_on_blocked_sizes", 1)
		}
	}
	diag := blas.NonUnit
	if c.Unit {
		diag = blas.Unit
	}
	for _, up := range []bool{true, false} {
		ul := blas.Lower
		if up {
			ul = blas.Upper
		}
		// ---- inverse of the triangular matrix ------------------------------------------
		for _, lda := range ldas(n, full) {
			for _, routine := range []string{"Dtrti2", "Dtrtri", "lapack64.Trtri"} {
				if routine == "Dtrti2" && !c.Ok {
					continue // Dtrti2 does not test for singularity
				}
				k.where = desc(routine, "upper", up, "unit", c.Unit, "n", n, "lda", lda, "variant", c.V)
				a := buildTriangle(c.T, 1, n, lda, up, c.Unit, 1)
				a0 := cloneF(a)
				ok := true
				ran := k.run(routine, func() {
					switch routine {
					case "Dtrti2":
						impl.Dtrti2(ul, diag, n, a, lda)
					case "Dtrtri":
						ok = impl.Dtrtri(ul, diag, n, a, lda)
					default:
						ok = lapack64.Trtri(blas64.Triangular{N: n, Stride: lda, Data: a, Uplo: ul, Diag: diag})
					}
				})
				count()
				if !ran {
					continue
				}
				if ok != c.Ok {
					k.fail(routine, "ok", "ok = %v, specification says %v (zero planted at diagonal element %d)", ok, c.Ok, c.Kz)
				}
				if !c.Ok {
					k.cmpSame(routine, "singular matrix (the inversion is not performed)", a, a0)
					continue
				}
				k.cmpTriangle(routine, "inverse", a, n, lda, up, c.Unit, c.Inv, 4)
				k.cmpPad(routine, "a", a, lda, n, n)
			}
		}
		if !c.Ok {
			continue
		}
		// ---- triangular solves ------------------------------------------------------------
		nrhss := []int{c.R, 1}
		if full {
			nrhss = []int{c.R, 1, 2, 0}
		}
		for _, lda := range ldas(n, full) {
			for _, nrhs := range nrhss {
				if nrhs > c.R {
					continue
				}
				for _, tr := range []blas.Transpose{blas.NoTrans, blas.Trans, blas.ConjTrans} {
					for _, routine := range []string{"Dtrtrs", "lapack64.Trtrs"} {
						ldb := maxi(1, nrhs) + lda - maxi(1, n)
						if routine == "lapack64.Trtrs" && (lda != maxi(1, n) || nrhs != c.R) {
							continue
						}
						k.where = desc(routine, "upper", up, "trans", tr != blas.NoTrans, "unit", c.Unit, "n", n, "nrhs", nrhs, "lda", lda, "ldb", ldb)
						a := buildTriangle(c.T, 1, n, lda, up, c.Unit, 1)
						a0 := cloneF(a)
						// the array holds T (upper) or T^T (lower): op(array) = T  <=>  up == NoTrans
						rhs := c.B
						if up != (tr == blas.NoTrans) {
							rhs = c.BT
						}
						b := build(rhs, 1, n, nrhs, ldb, 1)
						var ok bool
						ran := k.run(routine, func() {
							if routine == "Dtrtrs" {
								ok = impl.Dtrtrs(ul, tr, diag, n, nrhs, a, lda, b, ldb)
							} else {
								ok = lapack64.Trtrs(tr, blas64.Triangular{N: n, Stride: lda, Data: a, Uplo: ul, Diag: diag},
									blas64.General{Rows: n, Cols: nrhs, Stride: ldb, Data: b})
							}
						})
						count()
						if !ran {
							continue
						}
						if !ok {
							k.fail(routine, "ok", "ok = false for a non-singular matrix")
						}
						k.cmpMat(routine, "X", b, ldb, c.X, 1, n, nrhs, nil)
						k.cmpPad(routine, "b", b, ldb, n, nrhs)
						k.cmpSame(routine, "triangular matrix (input only)", a, a0)
					}
				}
			}
		}
		// ---- Dpotri: inverse of A = T^T T from its Cholesky factor ----------------------------
		if c.Deep {
			for _, lda := range ldas(n, full) {
				for _, routine := range []string{"Dpotri", "lapack64.Potri"} {
					k.where = desc(routine, "upper", up, "n", n, "lda", lda)
					a := buildTriangle(c.T, 1, n, lda, up, false, 1)
					var ok bool
					ran := k.run(routine, func() {
						if routine == "Dpotri" {
							ok = impl.Dpotri(ul, n, a, lda)
						} else {
							_, ok = lapack64.Potri(blas64.Triangular{N: n, Stride: lda, Data: a, Uplo: ul, Diag: blas.NonUnit})
						}
					})
					count()
					if !ran {
						continue
					}
					if !ok {
						k.fail(routine, "ok", "ok = false for a non-singular factor")
					}
					k.cmpTriangle(routine, "inverse of T^T*T", a, n, lda, up, false, c.PI, 16)
					k.cmpPad(routine, "a", a, lda, n, n)
				}
			}
		}
	}
	if !c.Deep {
		return
	}
	// ---- A = P0^T L T: Dgetrf then Dgetri -------------------------------------------------------
	for _, lda := range ldas(n, full) {
		k.where = desc("Dgetrf", "n", n, "lda", lda, "(dense L)")
		a := build(c.A, 2, n, n, lda, 1)
		ipiv := make([]int, n)
		var ok bool
		if k.run("Dgetrf", func() { ok = impl.Dgetrf(n, n, a, lda, ipiv) }) {
			count()
			if !ok {
				k.fail("Dgetrf", "ok", "ok = false for a non-singular matrix")
			}
			for i := range ipiv {
				if ipiv[i] != c.Ipiv[i] {
					k.fail("Dgetrf", "ipiv", "ipiv[%d] = %d, specification says %d", i, ipiv[i], c.Ipiv[i])
					break
				}
			}
			k.cmpMat("Dgetrf", "LU", a, lda, c.LU, 2, n, n, nil)
		}
		for _, routine := range []string{"Dgetri", "lapack64.Getri"} {
			minw := maxi(1, n)
			a := build(c.LU, 2, n, n, lda, 1)
			ipiv := append([]int(nil), c.Ipiv...)
			k.where = desc(routine, "query", "n", n, "lda", lda)
			opt, qok := k.query(routine, minw, func(w []float64) { impl.Dgetri(n, a, lda, ipiv, w, -1) }, a)
			if !qok {
				continue
			}
			lworks := lworkVariants(minw, opt, full, 2*n, 3*n+1)
			if routine == "lapack64.Getri" && !full {
				lworks = []int{opt}
			}
			for _, lwork := range lworks {
				k.where = desc(routine, "n", n, "lda", lda, "lwork", lwork)
				a := build(c.LU, 2, n, n, lda, 1)
				work := newWork(lwork)
				var ok bool
				ran := k.run(routine, func() {
					if routine == "Dgetri" {
						ok = impl.Dgetri(n, a, lda, ipiv, work, lwork)
					} else {
						ok = lapack64.Getri(blas64.General{Rows: n, Cols: n, Stride: lda, Data: a}, ipiv, work, lwork)
					}
				})
				count()
				if !ran {
					continue
				}
				if !ok {
					k.fail(routine, "ok", "ok = false for a non-singular matrix")
				}
				k.cmpMat(routine, "inverse", a, lda, c.AI, 8, n, n, nil)
				k.cmpPad(routine, "a", a, lda, n, n)
				for i := range ipiv {
					if ipiv[i] != c.Ipiv[i] {
						k.fail(routine, "touch", "ipiv modified")
						break
					}
				}
			}
		}
	}
}
