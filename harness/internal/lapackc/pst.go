package lapackc

import (
	"encoding/json"

	"gonum.org/v1/gonum/blas"
	"gonum.org/v1/gonum/blas/blas64"
	"gonum.org/v1/gonum/lapack/lapack64"

	"gonum.org/v1/gonum/verifharness/internal/core"
)

func init() { families["pst"] = pstFamily }

// pstFamily: planted A = P0 L0 L0^T P0^T with a forced pivot order (PlantedX!PstInst).  Expected:
// rank, ok, piv[0..rank-1], and the first rank columns of the factor, where row i is the row of L0
// that belongs to the original index piv[i]; beyond the rank piv only has to be a permutation.
func pstFamily(c *inst, raw json.RawMessage, full bool, sum *core.Summary) {
	n, r := c.N, c.Rank
	k := &chk{sum: sum, c: raw, fam: "pst", den: 1, tol: tolRat(c.Tol, 1)}
	count := func() {
		sum.Cases++
		if n >= 2 {
			sum.Nontrivial++
		}
		if n > 64 || forcedNB > 1 && forcedNB < n {
			sum.Count("calls_on_blocked_sizes", 1)
		}
		if r < n {
			sum.Count("rank_deficient_calls", 1)
		}
	}
	pos0 := make([]int, n) // position of an original index in the planted order
	for i, p := range c.Piv {
		pos0[p] = i
	}
	tols := []float64{-1, 1} // default n*eps*max(diag); absolute threshold below the smallest pivot (4)
	if r <= 10 {
		tols = append(tols, 0) // every operation is exact on these instances: the remainder is exactly 0
	}
	if full && n > 20 {
		tols = tols[:1] // the large instances with all leading dimensions: default tolerance only
	}
	for _, up := range []bool{false, true} {
		ul := blas.Lower
		if up {
			ul = blas.Upper
		}
		for _, lda := range ldas(n, full) {
			for ti, tol := range tols {
				for _, routine := range []string{"Dpstf2", "Dpstrf", "lapack64.Pstrf"} {
					if routine == "lapack64.Pstrf" && (ti != 0 || lda != maxi(1, n)) && !full {
						continue
					}
					k.where = desc(routine, "upper", up, "n", n, "planted rank", r, "lda", lda, "tol", tol)
					a := buildTri(c.A, 1, n, lda, up, false, 2)
					piv := make([]int, n)
					for i := range piv {
						piv[i] = -77
					}
					work := newWork(2*n + 1)
					var rank int
					var ok bool
					ran := k.run(routine, func() {
						switch routine {
						case "Dpstf2":
							rank, ok = impl.Dpstf2(ul, n, a, lda, piv, tol, work[:2*n])
						case "Dpstrf":
							rank, ok = impl.Dpstrf(ul, n, a, lda, piv, tol, work[:2*n])
						default:
							_, rank, ok = lapack64.Pstrf(blas64.Symmetric{N: n, Stride: lda, Data: a, Uplo: ul}, piv, tol, work[:2*n])
						}
					})
					count()
					if !ran {
						continue
					}
					if work[2*n] != workFill {
						k.fail(routine, "touch", "work was written beyond 2*n")
					}
					if rank != r {
						k.fail(routine, "rank", "rank = %d, specification says %d", rank, r)
						continue
					}
					if ok != c.Ok {
						k.fail(routine, "ok", "ok = %v, specification says %v (rank %d of %d)", ok, c.Ok, r, n)
					}
					seen := make([]bool, n)
					perm := true
					for _, p := range piv {
						if p < 0 || p >= n || seen[p] {
							perm = false
							break
						}
						seen[p] = true
					}
					if !perm {
						k.fail(routine, "structure", "piv = %v is not a permutation of 0..%d", piv, n-1)
						continue
					}
					for j := 0; j < r; j++ {
						if piv[j] != c.Piv[j] {
							k.fail(routine, "piv", "piv[%d] = %d, specification says %d (unique largest remaining diagonal element)", j, piv[j], c.Piv[j])
							break
						}
					}
					if k.bad {
						continue
					}
					// expected leading r columns (rows for upper) of the factor in the computed order
					exp := make(imat, n)
					for i := range exp {
						exp[i] = make([]int64, n)
						copy(exp[i], c.L[pos0[piv[i]]])
					}
					if up {
						k.cmpMat(routine, "factor", a, lda, transpose(exp, n, n), 1, n, n, func(i, j int) bool { return j >= i && i < r })
					} else {
						k.cmpMat(routine, "factor", a, lda, exp, 1, n, n, func(i, j int) bool { return j <= i && j < r })
					}
					k.cmpOtherTri(routine, a, n, lda, up)
					k.cmpPad(routine, "a", a, lda, n, n)
				}
			}
		}
	}
}
