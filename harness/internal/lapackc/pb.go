package lapackc

import (
	"encoding/json"
	"math"

	"gonum.org/v1/gonum/blas"
	"gonum.org/v1/gonum/blas/blas64"
	"gonum.org/v1/gonum/lapack/lapack64"

	"gonum.org/v1/gonum/verifharness/internal/core"
)

func init() { families["pb"] = pbFamily }

// bandIndex returns the position of element (i, j) of a symmetric / triangular band matrix in
// gonum's row-major band storage (see the Dpbtrf documentation), or -1 outside the stored band.
func bandIndex(up bool, kd, ldab, i, j int) int {
	if up {
		if j < i || j > i+kd {
			return -1
		}
		return i*ldab + (j - i)
	}
	if j > i || j < i-kd {
		return -1
	}
	return i*ldab + kd + (j - i)
}

// packBand stores the uplo band of the full matrix a (lower = as is, upper = transpose of the
// lower factor when tr) with canaries in the unused corners, padding and tail.
func packBand(a imat, n, kd, ldab int, up, tr bool) []float64 {
	ln := 1
	if n > 0 {
		ln = (n-1)*ldab + kd + 1 + 1
	}
	s := make([]float64, ln)
	for i := range s {
		s[i] = triNaN
	}
	s[ln-1] = tailNaN
	for i := 0; i < n; i++ {
		for j := 0; j < n; j++ {
			if p := bandIndex(up, kd, ldab, i, j); p >= 0 {
				if tr {
					s[p] = float64(a[j][i])
				} else {
					s[p] = float64(a[i][j])
				}
			}
		}
	}
	return s
}

// cmpBand compares the stored band with the expected full matrix and everything else with the
// canaries.
func (k *chk) cmpBand(routine, what string, got []float64, n, kd, ldab int, up bool, e imat, tr bool, values bool) {
	used := make([]bool, len(got))
	nbad := 0
	for i := 0; i < n; i++ {
		for j := 0; j < n; j++ {
			p := bandIndex(up, kd, ldab, i, j)
			if p < 0 {
				continue
			}
			used[p] = true
			if !values {
				continue
			}
			v := e[i][j]
			if tr {
				v = e[j][i]
			}
			ok, exact := k.near(got[p], v, 1, k.tol)
			k.sum.Count("elements_compared", 1)
			if !exact {
				k.sum.Count("inexact_elements", 1)
			}
			if !ok && nbad == 0 {
				k.fail(routine, "value", "%s[%d][%d] = %v, specification says %d", what, i, j, got[p], v)
				nbad++
			}
		}
	}
	for p, u := range used {
		want := triNaN
		if p == len(got)-1 {
			want = tailNaN
		}
		if !u && math.Float64bits(got[p]) != math.Float64bits(want) {
			k.fail(routine, "touch", "%s: band storage element %d (row %d, column %d of the array) is not part of the band but was written: %v", what, p, p/ldab, p%ldab, got[p])
			return
		}
	}
}

// pbFamily: planted band Cholesky A = L0 D L0^T.
func pbFamily(c *inst, raw json.RawMessage, full bool, sum *core.Summary) {
	n, kd := c.N, c.Kd
	k := &chk{sum: sum, c: raw, fam: "pb", den: 1, tol: tolRat(c.Tol, 1)}
	count := func() {
		sum.Cases++
		if n >= 2 && kd >= 1 {
			sum.Nontrivial++
		}
		if kd > 64 || forcedNB > 1 && forcedNB <= kd {
			sum.Count("calls_on_blocked_sizes", 1)
		}
	}
	for _, up := range []bool{false, true} {
		ul := blas.Lower
		if up {
			ul = blas.Upper
		}
		for _, ldab := range []int{kd + 1, kd + 3} {
			for _, routine := range []string{"Dpbtf2", "Dpbtrf", "lapack64.Pbtrf"} {
				k.where = desc(routine, "upper", up, "n", n, "kd", kd, "ldab", ldab, "variant", c.V)
				ab := packBand(c.A, n, kd, ldab, up, false)
				var ok bool
				ran := k.run(routine, func() {
					switch routine {
					case "Dpbtf2":
						ok = impl.Dpbtf2(ul, n, kd, ab, ldab)
					case "Dpbtrf":
						ok = impl.Dpbtrf(ul, n, kd, ab, ldab)
					default:
						_, ok = lapack64.Pbtrf(blas64.SymmetricBand{N: n, K: kd, Stride: ldab, Data: ab, Uplo: ul})
					}
				})
				count()
				if !ran {
					continue
				}
				if ok != c.Ok {
					k.fail(routine, "ok", "ok = %v, specification says %v (leading minor %d not positive)", ok, c.Ok, c.Kbad+1)
				}
				// factor: lower band = L0, upper band = L0^T
				k.cmpBand(routine, "factor", ab, n, kd, ldab, up, c.L, up, c.Ok && ok)
			}
			if c.R == 0 {
				continue
			}
			for _, nrhs := range []int{c.R, 1, 0} {
				for _, ldb := range []int{maxi(1, nrhs), nrhs + 2} {
					for _, routine := range []string{"Dpbtrs", "lapack64.Pbtrs"} {
						if routine == "lapack64.Pbtrs" && (ldb != maxi(1, nrhs) || nrhs != c.R) {
							continue
						}
						k.where = desc(routine, "upper", up, "n", n, "kd", kd, "nrhs", nrhs, "ldab", ldab, "ldb", ldb)
						ab := packBand(c.L, n, kd, ldab, up, up)
						ab0 := cloneF(ab)
						b := build(c.B, 1, n, nrhs, ldb, 1)
						ran := k.run(routine, func() {
							if routine == "Dpbtrs" {
								impl.Dpbtrs(ul, n, kd, nrhs, ab, ldab, b, ldb)
							} else {
								lapack64.Pbtrs(blas64.TriangularBand{N: n, K: kd, Stride: ldab, Data: ab, Uplo: ul, Diag: blas.NonUnit},
									blas64.General{Rows: n, Cols: nrhs, Stride: ldb, Data: b})
							}
						})
						count()
						if !ran {
							continue
						}
						k.cmpMat(routine, "X", b, ldb, c.X, 1, n, nrhs, nil)
						k.cmpPad(routine, "b", b, ldb, n, nrhs)
						k.cmpSame(routine, "factor (input only)", ab, ab0)
					}
				}
			}
		}
	}
}
