package lapackc

import (
	"encoding/json"
	"math"
	"math/big"

	"gonum.org/v1/gonum/blas"
	"gonum.org/v1/gonum/blas/blas64"
	"gonum.org/v1/gonum/lapack"
	"gonum.org/v1/gonum/lapack/lapack64"

	"gonum.org/v1/gonum/verifharness/internal/core"
)

func init() { families["con"] = conFamily }

// conBounds are the exact rational bounds PlantedX!ConB printed for est = the estimate of
// ||inv(A)||: up = <<num, den>> = ||inv(A)||, lo = two lower bounds <<num, den>> that DLACN2's
// construction guarantees (first iterate, final alternating-sign safeguard).
type conBounds struct {
	Up []int64   `json:"up"`
	Lo [][]int64 `json:"lo"`
}

// conFamily: two-sided check of the condition estimators on matrices with exactly known inverse.
// A routine returned rcond for a matrix of norm anorm; est := 1/(rcond*anorm) is what it took
// for ||inv(A)||.  Required:  lower*(1-tol) <= est <= upper*(1+tol), tol = n*2^-40.
func conFamily(c *inst, raw json.RawMessage, full bool, sum *core.Summary) {
	n := c.N
	k := &chk{sum: sum, c: raw, fam: "con", den: 1, tol: tolRat(0, 1)}
	relTol := new(big.Rat).SetFrac(big.NewInt(int64(n)), new(big.Int).Lsh(big.NewInt(1), 40))
	one := big.NewRat(1, 1)
	hi := new(big.Rat).Add(one, relTol)
	lo := new(big.Rat).Sub(one, relTol)
	count := func() {
		sum.Cases++
		if n >= 2 {
			sum.Nontrivial++
		}
	}
	// judge checks rcond against the bounds b for a matrix whose norm is anorm (an exact integer).
	judge := func(routine string, rcond float64, anorm int64, b conBounds) {
		sum.Count("two_sided_rcond_checks", 1)
		if !(rcond > 0) || math.IsInf(rcond, 0) {
			k.fail(routine, "rcond", "rcond = %v for a non-singular matrix with condition number at most 256", rcond)
			return
		}
		est := new(big.Rat).SetFloat64(rcond)
		est.Mul(est, new(big.Rat).SetInt64(anorm))
		est.Inv(est)
		up := big.NewRat(b.Up[0], b.Up[1])
		if new(big.Rat).Mul(up, hi).Cmp(est) < 0 {
			r, _ := new(big.Rat).Quo(est, up).Float64()
			k.fail(routine, "rcond-underestimate", "rcond = %v means ||inv(A)|| ~ %s, but ||inv(A)|| = %d/%d exactly (ratio %v): no vector attains it", rcond, est.FloatString(12), b.Up[0], b.Up[1], r)
			return
		}
		for i, l := range b.Lo {
			lb := big.NewRat(l[0], l[1])
			if new(big.Rat).Mul(lb, lo).Cmp(est) > 0 {
				what := "||inv(A)*u||_1 of the first iterate u = (1/n,...,1/n)"
				if i == 1 {
					what = "2*||inv(A)*b||_1/(3n) of the final alternating-sign safeguard"
				}
				r, _ := new(big.Rat).Quo(lb, est).Float64()
				k.fail(routine, "rcond-overestimate", "rcond = %v means ||inv(A)|| ~ %s, below %s = %d/%d (factor %v); exact ||inv(A)|| = %d/%d", rcond, est.FloatString(12), what, l[0], l[1], r, b.Up[0], b.Up[1])
				return
			}
		}
		// how much of the interval [lower, upper] the estimate leaves unused (evidence only)
		if r, _ := new(big.Rat).Quo(est, up).Float64(); r < 1 {
			if old, ok := sum.Extra["min_est_over_true_norm"].(float64); !ok || r < old {
				sum.Extra["min_est_over_true_norm"] = r
			}
		} else if r > 1 {
			if old, _ := sum.Extra["max_est_excess_over_true_norm_in_tol"].(float64); (r-1)/(float64(n)*math.Ldexp(1, -40)) > old {
				sum.Extra["max_est_excess_over_true_norm_in_tol"] = (r - 1) / (float64(n) * math.Ldexp(1, -40))
			}
		}
	}
	norms := []struct {
		norm lapack.MatrixNorm
		b    conBounds
		t    conBounds // bounds when the stored matrix is the transpose
		an   int64
		ant  int64
	}{
		{lapack.MaxColumnSum, c.One, c.Inf, c.NA[0], c.NA[1]},
		{lapack.MaxRowSum, c.Inf, c.One, c.NA[1], c.NA[0]},
	}

	// ---- Dgecon ------------------------------------------------------------------------------
	for _, lda := range ldas(n, full) {
		if !c.Gecon {
			break
		}
		var lu []float64
		if c.HaveLU {
			lu = build(c.LU, 1, n, n, lda, 1) // the specification's exact factors (L unit lower, U upper)
		} else {
			// the routine's own factorization; PlantedXLemmas!ConLemma shows that no interchange can occur
			lu = build(c.A, 1, n, n, lda, 1)
			ipiv := make([]int, n)
			var ok bool
			k.where = desc("Dgetrf", "n", n, "lda", lda, "kind", c.Kind)
			if !k.run("Dgetrf", func() { ok = impl.Dgetrf(n, n, lu, lda, ipiv) }) {
				continue
			}
			count()
			if !ok {
				k.fail("Dgetrf", "ok", "ok = false for a non-singular matrix")
				continue
			}
			ident := true
			for i, p := range ipiv {
				ident = ident && p == i
			}
			if !ident {
				k.fail("Dgetrf", "ipiv", "ipiv = %v, but every diagonal pivot exceeds the candidates below it by a factor 64/63 (no interchange)", ipiv)
				continue
			}
		}
		for _, nv := range norms {
			for _, routine := range []string{"Dgecon", "lapack64.Gecon"} {
				if routine == "lapack64.Gecon" && lda != maxi(1, n) && !full {
					continue
				}
				k.where = desc(routine, "norm", string(nv.norm), "n", n, "lda", lda, "kind", c.Kind, "variant", c.V)
				a := cloneF(lu)
				work := newWork(4*n + 1)
				iwork := make([]int, n)
				var rcond float64
				ran := k.run(routine, func() {
					if routine == "Dgecon" {
						rcond = impl.Dgecon(nv.norm, n, a, lda, float64(nv.an), work[:4*n], iwork)
					} else {
						rcond = lapack64.Gecon(nv.norm, blas64.General{Rows: n, Cols: n, Stride: lda, Data: a}, float64(nv.an), work[:4*n], iwork)
					}
				})
				count()
				if !ran {
					continue
				}
				k.cmpSame(routine, "factors (input only)", a, lu)
				if work[4*n] != workFill {
					k.fail(routine, "touch", "work was written beyond 4*n")
				}
				judge(routine, rcond, nv.an, nv.b)
			}
		}
	}

	// ---- Dtrcon: the array holds A (upper) or A^T (lower) ---------------------------------------
	if c.Tri {
		diag := blas.NonUnit
		if c.Unit {
			diag = blas.Unit
		}
		for _, up := range []bool{true, false} {
			ul := blas.Lower
			if up {
				ul = blas.Upper
			}
			for _, lda := range ldas(n, full) {
				for _, nv := range norms {
					for _, routine := range []string{"Dtrcon", "lapack64.Trcon"} {
						if routine == "lapack64.Trcon" && lda != maxi(1, n) && !full {
							continue
						}
						k.where = desc(routine, "norm", string(nv.norm), "upper", up, "unit", c.Unit, "n", n, "lda", lda, "variant", c.V)
						a := buildTriangle(c.A, 1, n, lda, up, c.Unit, 1)
						a0 := cloneF(a)
						work := newWork(3*n + 1)
						iwork := make([]int, n)
						var rcond float64
						ran := k.run(routine, func() {
							if routine == "Dtrcon" {
								rcond = impl.Dtrcon(nv.norm, ul, diag, n, a, lda, work[:3*n], iwork)
							} else {
								rcond = lapack64.Trcon(nv.norm, blas64.Triangular{N: n, Stride: lda, Data: a, Uplo: ul, Diag: diag}, work[:3*n], iwork)
							}
						})
						count()
						if !ran {
							continue
						}
						k.cmpSame(routine, "triangular matrix (input only)", a, a0)
						if up {
							judge(routine, rcond, nv.an, nv.b)
						} else {
							judge(routine, rcond, nv.ant, nv.t)
						}
					}
				}
			}
		}
	}

	// ---- Dpocon / Dpbcon -------------------------------------------------------------------------
	if !c.Spd {
		return
	}
	for _, up := range []bool{false, true} {
		ul := blas.Lower
		if up {
			ul = blas.Upper
		}
		for _, lda := range ldas(n, full) {
			var f []float64
			if c.HaveCH {
				f = buildTri(c.L, 1, n, lda, up, up, 1) // the specification's exact factor C (lower) or C^T (upper)
			} else {
				f = buildTri(c.A, 1, n, lda, up, false, 1)
				var ok bool
				k.where = desc("Dpotrf", "upper", up, "n", n, "lda", lda, "kind", c.Kind)
				if !k.run("Dpotrf", func() { ok = impl.Dpotrf(ul, n, f, lda) }) {
					continue
				}
				count()
				if !ok {
					k.fail("Dpotrf", "ok", "ok = false for a positive definite matrix")
					continue
				}
			}
			for _, routine := range []string{"Dpocon", "lapack64.Pocon"} {
				if routine == "lapack64.Pocon" && lda != maxi(1, n) && !full {
					continue
				}
				k.where = desc(routine, "upper", up, "n", n, "lda", lda, "kind", c.Kind, "variant", c.V)
				a := cloneF(f)
				work := newWork(3*n + 1)
				iwork := make([]int, n)
				var rcond float64
				ran := k.run(routine, func() {
					if routine == "Dpocon" {
						rcond = impl.Dpocon(ul, n, a, lda, float64(c.NA[0]), work[:3*n], iwork)
					} else {
						rcond = lapack64.Pocon(blas64.Symmetric{N: n, Stride: lda, Data: a, Uplo: ul}, float64(c.NA[0]), work[:3*n], iwork)
					}
				})
				count()
				if !ran {
					continue
				}
				k.cmpSame(routine, "factor (input only)", a, f)
				judge(routine, rcond, c.NA[0], c.One)
			}
		}
		if !c.HaveCH {
			continue
		}
		kd := c.Kd
		for _, ldab := range []int{kd + 1, kd + 3} {
			for _, routine := range []string{"Dpbcon", "lapack64.Pbcon"} {
				if routine == "lapack64.Pbcon" && ldab != kd+1 && !full {
					continue
				}
				k.where = desc(routine, "upper", up, "n", n, "kd", kd, "ldab", ldab, "variant", c.V)
				ab := packBand(c.L, n, kd, ldab, up, up)
				ab0 := cloneF(ab)
				work := newWork(3*n + 1)
				iwork := make([]int, n)
				var rcond float64
				ran := k.run(routine, func() {
					if routine == "Dpbcon" {
						rcond = impl.Dpbcon(ul, n, kd, ab, ldab, float64(c.NA[0]), work[:3*n], iwork)
					} else {
						rcond = lapack64.Pbcon(blas64.SymmetricBand{N: n, K: kd, Stride: ldab, Data: ab, Uplo: ul}, float64(c.NA[0]), work[:3*n], iwork)
					}
				})
				count()
				if !ran {
					continue
				}
				k.cmpSame(routine, "band factor (input only)", ab, ab0)
				judge(routine, rcond, c.NA[0], c.One)
			}
		}
	}
}
