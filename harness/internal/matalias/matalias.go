// Package matalias binds specs/mat/MatAlias.tla to gonum/mat (property C05):
// for every pair of windows the specification printed (with the set-theoretic
// relation of their element sets and the outcome the property demands), both
// views are built on one real backing slice and every applicable
// receiver-taking method is called with the receiver on the first window and
// an operand on the second.  The harness has no oracle of its own: what must
// happen (return the unaliased result / panic with a region message / either)
// is the specification's verdict; "the unaliased result" is obtained by
// running the same gonum method on private copies of the operands.
package matalias

import (
	"encoding/json"
	"fmt"
	"math"
	"strings"

	"gonum.org/v1/gonum/mat"

	"gonum.org/v1/gonum/verifharness/internal/core"
)

type win struct {
	// matrix window
	Off, R, C, St int
	I, K, J, L    int
	PR, PC        int // parent shape (json R, C)
	// vector window
	N, Inc int
}

func (w *win) UnmarshalJSON(b []byte) error {
	var m map[string]int
	if err := json.Unmarshal(b, &m); err != nil {
		return err
	}
	w.Off, w.R, w.C, w.St = m["off"], m["r"], m["c"], m["st"]
	w.I, w.K, w.J, w.L = m["i"], m["k"], m["j"], m["l"]
	w.PR, w.PC = m["R"], m["C"]
	w.N, w.Inc = m["n"], m["inc"]
	return nil
}

func (w win) MarshalJSON() ([]byte, error) {
	if w.N > 0 {
		return json.Marshal(map[string]int{"off": w.Off, "n": w.N, "inc": w.Inc})
	}
	return json.Marshal(map[string]int{"off": w.Off, "r": w.R, "c": w.C, "st": w.St, "i": w.I, "k": w.K, "j": w.J, "l": w.L, "R": w.PR, "C": w.PC})
}

type acase struct {
	Fam    string `json:"fam"`
	W1     win    `json:"w1"`
	W2     win    `json:"w2"`
	Rel    string `json:"rel"`
	Expect string `json:"expect"`
	// ExpectIso is the expectation for methods of the specification's Isolated class
	ExpectIso string   `json:"expectIso,omitempty"`
	Isolated  []string `json:"isolated,omitempty"` // header line only
	Alg    string `json:"alg"`
	Method string `json:"method,omitempty"` // set in failure cases: run only this method
}

func fill(n int, seed int64) []float64 {
	d := make([]float64, n)
	for p := range d {
		d[p] = float64(1 + (int64(p)*7+seed*3)%13)
	}
	return d
}

func bitsEqual(a, b []float64) int {
	for i := range a {
		if math.Float64bits(a[i]) != math.Float64bits(b[i]) {
			return i
		}
	}
	return -1
}

// outcome of one aliased call, judged against the spec's expectation.
func judge(sum *core.Summary, c *acase, method, expect string, out core.Outcome,
	backing, snapshot, wantBacking []float64, extra string) {
	sig := func(kind string) string { return fmt.Sprintf("matalias:%s:%s:%s:%s", c.Fam, method, c.Rel, kind) }
	cc := *c
	cc.Method = method
	region := out.Panicked && !out.Runtime && strings.HasPrefix(out.Text, "mat: bad region")
	if out.Panicked && !region {
		sum.Fail(sig("foreign-panic"), fmt.Sprintf("panicked with %q (not a region panic); spec expects %s", out.Text, expect), cc)
		return
	}
	switch {
	case out.Panicked:
		if expect == "equal" {
			sum.Fail(sig("false-rejection"), fmt.Sprintf("legal call panicked %q; relation %s, spec expects the unaliased result%s", out.Text, c.Rel, extra), cc)
			return
		}
		if p := bitsEqual(backing, snapshot); p >= 0 {
			sum.Fail(sig("write-before-panic"), fmt.Sprintf("panicked %q but backing[%d] changed %v -> %v", out.Text, p, snapshot[p], backing[p]), cc)
		}
	default:
		if expect == "panic" {
			d := ""
			if p := bitsEqual(backing, wantBacking); p >= 0 {
				d = fmt.Sprintf("; and the result is corrupted: backing[%d]=%v, unaliased result %v", p, backing[p], wantBacking[p])
			}
			sum.Fail(sig("missed-overlap"), fmt.Sprintf("returned although the element sets overlap partially (spec: must panic)%s%s", d, extra), cc)
			return
		}
		if p := bitsEqual(backing, wantBacking); p >= 0 {
			sum.Fail(sig("corrupted"), fmt.Sprintf("returned but backing[%d]=%v, expected %v (unaliased result inside the receiver, unchanged outside)%s", p, backing[p], wantBacking[p], extra), cc)
		}
	}
}

// ---------------------------------------------------------------- Dense

type denseMethod struct {
	name string
	// ok reports whether the method applies to receiver dims (r,c) and alias dims (ar,ac)
	ok func(r, c, ar, ac int) bool
	// run calls the method on recv with alias A; fresh operands are derived from seed data only
	run func(recv *mat.Dense, A *mat.Dense, r, c, ar, ac int)
	// copySemantics: Dense.Copy handles overlapping source and destination itself
	copySemantics bool
	selfOK        bool // applicable when A is the receiver itself
	transSelf     bool // applies to a = recv.T()
}

// isolatedClass is filled from the header line the specification prints (MatAlias.tla, Isolated);
// methods in it take the case's expectIso.
var isolatedClass = map[string]bool{}

func fresh(r, c int, salt int) *mat.Dense {
	d := make([]float64, r*c)
	for p := range d {
		d[p] = float64(1 + (p*5+salt)%11)
	}
	return mat.NewDense(r, c, d)
}

func freshVec(n int, salt int) *mat.VecDense {
	d := make([]float64, n)
	for p := range d {
		d[p] = float64(1 + (p*3+salt)%7)
	}
	return mat.NewVecDense(n, d)
}

// dominant returns a well conditioned n x n matrix (strictly diagonally dominant).
func dominant(n int, salt int) *mat.Dense {
	d := fresh(n, n, salt)
	for i := 0; i < n; i++ {
		d.Set(i, i, d.At(i, i)+float64(12*n))
	}
	return d
}

func same(r, c, ar, ac int) bool  { return r == ar && c == ac }
func trans(r, c, ar, ac int) bool { return r == ac && c == ar }

var denseMethods = []denseMethod{
	{name: "Add(A,f)", ok: same, selfOK: true, run: func(m, A *mat.Dense, r, c, ar, ac int) { m.Add(A, fresh(r, c, 1)) }},
	{name: "Add(f,A)", ok: same, selfOK: true, run: func(m, A *mat.Dense, r, c, ar, ac int) { m.Add(fresh(r, c, 1), A) }},
	{name: "Add(A,A)", ok: same, selfOK: true, run: func(m, A *mat.Dense, r, c, ar, ac int) { m.Add(A, A) }},
	{name: "Sub(A,f)", ok: same, selfOK: true, run: func(m, A *mat.Dense, r, c, ar, ac int) { m.Sub(A, fresh(r, c, 2)) }},
	{name: "Sub(f,A)", ok: same, selfOK: true, run: func(m, A *mat.Dense, r, c, ar, ac int) { m.Sub(fresh(r, c, 2), A) }},
	{name: "MulElem(A,f)", ok: same, selfOK: true, run: func(m, A *mat.Dense, r, c, ar, ac int) { m.MulElem(A, fresh(r, c, 3)) }},
	{name: "MulElem(f,A)", ok: same, selfOK: true, run: func(m, A *mat.Dense, r, c, ar, ac int) { m.MulElem(fresh(r, c, 3), A) }},
	{name: "DivElem(A,f)", ok: same, selfOK: true, run: func(m, A *mat.Dense, r, c, ar, ac int) { m.DivElem(A, fresh(r, c, 4)) }},
	{name: "DivElem(f,A)", ok: same, selfOK: true, run: func(m, A *mat.Dense, r, c, ar, ac int) { m.DivElem(fresh(r, c, 4), A) }},
	{name: "Scale(3,A)", ok: same, selfOK: true, run: func(m, A *mat.Dense, r, c, ar, ac int) { m.Scale(3, A) }},
	{name: "Apply(fn,A)", ok: same, selfOK: true, run: func(m, A *mat.Dense, r, c, ar, ac int) {
		m.Apply(func(i, j int, v float64) float64 { return 2*v + float64(i) - float64(j) }, A)
	}},
	{name: "Copy(A)", ok: same, selfOK: true, copySemantics: true, run: func(m, A *mat.Dense, r, c, ar, ac int) { m.Copy(A) }},
	{name: "RankOne(A,2,x,y)", ok: same, selfOK: true, run: func(m, A *mat.Dense, r, c, ar, ac int) { m.RankOne(A, 2, freshVec(r, 1), freshVec(c, 2)) }},
	{name: "Pow(A,2)", ok: func(r, c, ar, ac int) bool { return same(r, c, ar, ac) && r == c }, selfOK: true, run: func(m, A *mat.Dense, r, c, ar, ac int) { m.Pow(A, 2) }},
	{name: "Kronecker(A,f1)", ok: same, selfOK: false, run: func(m, A *mat.Dense, r, c, ar, ac int) { m.Kronecker(A, fresh(1, 1, 5)) }},
	{name: "Kronecker(f1,A)", ok: same, selfOK: false, run: func(m, A *mat.Dense, r, c, ar, ac int) { m.Kronecker(fresh(1, 1, 5), A) }},
	{name: "Mul(A,f)", ok: func(r, c, ar, ac int) bool { return ar == r }, selfOK: true, run: func(m, A *mat.Dense, r, c, ar, ac int) { m.Mul(A, fresh(ac, c, 6)) }},
	{name: "Mul(f,A)", ok: func(r, c, ar, ac int) bool { return ac == c }, selfOK: true, run: func(m, A *mat.Dense, r, c, ar, ac int) { m.Mul(fresh(r, ar, 7), A) }},
	{name: "Mul(A,A)", ok: func(r, c, ar, ac int) bool { return same(r, c, ar, ac) && r == c }, selfOK: true, run: func(m, A *mat.Dense, r, c, ar, ac int) { m.Mul(A, A) }},
	{name: "Stack(A,f)", ok: func(r, c, ar, ac int) bool { return ac == c && ar < r }, run: func(m, A *mat.Dense, r, c, ar, ac int) { m.Stack(A, fresh(r-ar, c, 8)) }},
	{name: "Stack(f,A)", ok: func(r, c, ar, ac int) bool { return ac == c && ar < r }, run: func(m, A *mat.Dense, r, c, ar, ac int) { m.Stack(fresh(r-ar, c, 8), A) }},
	{name: "Augment(A,f)", ok: func(r, c, ar, ac int) bool { return ar == r && ac < c }, run: func(m, A *mat.Dense, r, c, ar, ac int) { m.Augment(A, fresh(r, c-ac, 9)) }},
	{name: "Augment(f,A)", ok: func(r, c, ar, ac int) bool { return ar == r && ac < c }, run: func(m, A *mat.Dense, r, c, ar, ac int) { m.Augment(fresh(r, c-ac, 9), A) }},
	// solvers, inverse, matrix functions and products of several factors (mat/solve.go, dense_arithmetic.go)
	{name: "Inverse(A)", ok: func(r, c, ar, ac int) bool { return same(r, c, ar, ac) && r == c }, selfOK: true, run: func(m, A *mat.Dense, r, c, ar, ac int) { _ = m.Inverse(A) }},
	{name: "Solve(A,f)", ok: func(r, c, ar, ac int) bool { return ac == r && ar == ac }, selfOK: true, run: func(m, A *mat.Dense, r, c, ar, ac int) { _ = m.Solve(A, fresh(ar, c, 10)) }},
	{name: "Solve(f,A)", ok: func(r, c, ar, ac int) bool { return ac == c && ar == r }, selfOK: true, run: func(m, A *mat.Dense, r, c, ar, ac int) { _ = m.Solve(dominant(r, 11), A) }},
	{name: "Solve(fLS,A)", ok: func(r, c, ar, ac int) bool { return ac == c && ar == r+1 }, run: func(m, A *mat.Dense, r, c, ar, ac int) { _ = m.Solve(fresh(ar, r, 12), A) }},
	{name: "Exp(A)", ok: func(r, c, ar, ac int) bool { return same(r, c, ar, ac) && r == c }, selfOK: true, run: func(m, A *mat.Dense, r, c, ar, ac int) { m.Exp(A) }},
	{name: "Product(A,f,f)", ok: func(r, c, ar, ac int) bool { return ar == r }, selfOK: true, run: func(m, A *mat.Dense, r, c, ar, ac int) { m.Product(A, fresh(ac, 2, 13), fresh(2, c, 14)) }},
	{name: "Product(f,f,A)", ok: func(r, c, ar, ac int) bool { return ac == c }, selfOK: true, run: func(m, A *mat.Dense, r, c, ar, ac int) { m.Product(fresh(r, 2, 13), fresh(2, ar, 14), A) }},
	{name: "Product(f,A,f)", ok: func(r, c, ar, ac int) bool { return true }, run: func(m, A *mat.Dense, r, c, ar, ac int) { m.Product(fresh(r, ar, 13), A, fresh(ac, c, 14)) }},
	{name: "Outer(2,f,f)+Add(A)", ok: same, selfOK: true, run: func(m, A *mat.Dense, r, c, ar, ac int) {
		var o mat.Dense
		o.Outer(2, freshVec(r, 3), freshVec(c, 4))
		m.Add(A, &o)
	}},
	{name: "MulElem(A,A)", ok: same, selfOK: true, run: func(m, A *mat.Dense, r, c, ar, ac int) { m.MulElem(A, A) }},
	{name: "Sub(A,A)", ok: same, selfOK: true, run: func(m, A *mat.Dense, r, c, ar, ac int) { m.Sub(A, A) }},
	{name: "Mul(A,A.T)", ok: func(r, c, ar, ac int) bool { return r == ar && c == ar }, run: func(m, A *mat.Dense, r, c, ar, ac int) { m.Mul(A, A.T()) }},
	{name: "Mul(A.T,A)", ok: func(r, c, ar, ac int) bool { return r == ac && c == ac }, run: func(m, A *mat.Dense, r, c, ar, ac int) { m.Mul(A.T(), A) }},
	// two aliasing relations at once: the receiver itself is one operand, the window alias the other
	{name: "Add(m,A)", ok: same, run: func(m, A *mat.Dense, r, c, ar, ac int) { m.Add(m, A) }},
	{name: "Add(A,m)", ok: same, run: func(m, A *mat.Dense, r, c, ar, ac int) { m.Add(A, m) }},
	{name: "Sub(m,A)", ok: same, run: func(m, A *mat.Dense, r, c, ar, ac int) { m.Sub(m, A) }},
	{name: "Sub(A,m)", ok: same, run: func(m, A *mat.Dense, r, c, ar, ac int) { m.Sub(A, m) }},
	{name: "MulElem(m,A)", ok: same, run: func(m, A *mat.Dense, r, c, ar, ac int) { m.MulElem(m, A) }},
	{name: "MulElem(A,m)", ok: same, run: func(m, A *mat.Dense, r, c, ar, ac int) { m.MulElem(A, m) }},
	{name: "DivElem(m,A)", ok: same, run: func(m, A *mat.Dense, r, c, ar, ac int) { m.DivElem(m, A) }},
	{name: "DivElem(A,m)", ok: same, run: func(m, A *mat.Dense, r, c, ar, ac int) { m.DivElem(A, m) }},
	{name: "Mul(m,A)", ok: func(r, c, ar, ac int) bool { return ar == c && ac == c }, run: func(m, A *mat.Dense, r, c, ar, ac int) { m.Mul(m, A) }},
	{name: "Mul(A,m)", ok: func(r, c, ar, ac int) bool { return ar == r && ac == r }, run: func(m, A *mat.Dense, r, c, ar, ac int) { m.Mul(A, m) }},
	// the alias under its implicit transpose
	{name: "Add(A.T,f)", ok: trans, transSelf: true, run: func(m, A *mat.Dense, r, c, ar, ac int) { m.Add(A.T(), fresh(r, c, 1)) }},
	{name: "Sub(f,A.T)", ok: trans, transSelf: true, run: func(m, A *mat.Dense, r, c, ar, ac int) { m.Sub(fresh(r, c, 2), A.T()) }},
	{name: "MulElem(A.T,f)", ok: trans, transSelf: true, run: func(m, A *mat.Dense, r, c, ar, ac int) { m.MulElem(A.T(), fresh(r, c, 3)) }},
	{name: "Scale(3,A.T)", ok: trans, transSelf: true, run: func(m, A *mat.Dense, r, c, ar, ac int) { m.Scale(3, A.T()) }},
	{name: "Apply(fn,A.T)", ok: trans, transSelf: true, run: func(m, A *mat.Dense, r, c, ar, ac int) {
		m.Apply(func(i, j int, v float64) float64 { return 2*v + float64(i) - float64(j) }, A.T())
	}},
	{name: "Mul(A.T,f)", ok: func(r, c, ar, ac int) bool { return ac == r }, transSelf: true, run: func(m, A *mat.Dense, r, c, ar, ac int) { m.Mul(A.T(), fresh(ar, c, 6)) }},
	{name: "Mul(f,A.T)", ok: func(r, c, ar, ac int) bool { return ar == c }, transSelf: true, run: func(m, A *mat.Dense, r, c, ar, ac int) { m.Mul(fresh(r, ac, 7), A.T()) }},
}

func parent(backing []float64, R, C int) *mat.Dense { return mat.NewDense(R, C, backing[:R*C]) }

func view(p *mat.Dense, w win) *mat.Dense { return p.Slice(w.I, w.K, w.J, w.L).(*mat.Dense) }

func runDense(c *acase, seed int64, sum *core.Summary) {
	L := c.W1.PR * c.W1.PC
	if l2 := c.W2.PR * c.W2.PC; l2 > L {
		L = l2
	}
	self := c.Rel == "self" || c.Rel == "selfT"
	for mi := range denseMethods {
		dm := &denseMethods[mi]
		if c.Method != "" && c.Method != dm.name {
			continue
		}
		r, cc := c.W1.R, c.W1.C
		ar, ac := c.W2.R, c.W2.C
		if !dm.ok(r, cc, ar, ac) {
			continue
		}
		if c.Rel == "self" && !dm.selfOK {
			continue
		}
		if c.Rel == "selfT" && !dm.transSelf {
			continue
		}
		if !self && (dm.name == "Add(A,A)" || dm.name == "Mul(A,A)") && false {
			continue
		}
		expect := c.Expect
		if isolatedClass[dm.name] && c.ExpectIso != "" {
			expect = c.ExpectIso
		}
		if dm.copySemantics {
			// Dense.Copy is direction aware: the result is the source's old
			// values for every relation of windows of one parent.
			if c.W1.St != c.W2.St {
				continue
			}
			expect = "equal"
		}
		// the unaliased result: same method on private copies
		ref := fill(L, seed)
		refRecv := mat.DenseCopyOf(view(parent(ref, c.W1.PR, c.W1.PC), c.W1))
		var refA *mat.Dense
		if self {
			refA = mat.DenseCopyOf(refRecv)
		} else {
			refA = mat.DenseCopyOf(view(parent(ref, c.W2.PR, c.W2.PC), c.W2))
		}
		refOut := core.Call(func() { dm.run(refRecv, refA, r, cc, ar, ac) })
		if refOut.Panicked {
			// the method is not applicable to these operands even without aliasing
			sum.Count("skipped_unaliased_panic", 1)
			continue
		}
		// the aliased call
		backing := fill(L, seed)
		snapshot := append([]float64(nil), backing...)
		recv := view(parent(backing, c.W1.PR, c.W1.PC), c.W1)
		var A *mat.Dense
		if self {
			A = recv
		} else {
			A = view(parent(backing, c.W2.PR, c.W2.PC), c.W2)
		}
		out := core.Call(func() { dm.run(recv, A, r, cc, ar, ac) })
		want := append([]float64(nil), snapshot...)
		for i := 0; i < r; i++ {
			for j := 0; j < cc; j++ {
				want[c.W1.Off+i*c.W1.St+j] = refRecv.At(i, j)
			}
		}
		sum.Cases++
		if c.Rel != "disjoint" {
			sum.Nontrivial++
		}
		judge(sum, c, dm.name, expect, out, backing, snapshot, want, "")
	}
}

// ---------------------------------------------------------------- Dense window and vector view

// mixedMethod is a call with a Dense window m and a VecDense view v of the same parent, one of
// them being the receiver.
type mixedMethod struct {
	name string
	// ok reports whether the method applies to a window of r x c and a view of length n
	ok func(r, c, n int) bool
	// vecRecv: the vector view is the receiver (the window is the operand)
	vecRecv bool
	run     func(m *mat.Dense, v *mat.VecDense, r, c, n int)
}

var mixedMethods = []mixedMethod{
	{name: "Outer(2,V,f)", ok: func(r, c, n int) bool { return n == r }, run: func(m *mat.Dense, v *mat.VecDense, r, c, n int) { m.Outer(2, v, freshVec(c, 4)) }},
	{name: "Outer(2,f,V)", ok: func(r, c, n int) bool { return n == c }, run: func(m *mat.Dense, v *mat.VecDense, r, c, n int) { m.Outer(2, freshVec(r, 3), v) }},
	{name: "RankOne(f,2,V,f)", ok: func(r, c, n int) bool { return n == r }, run: func(m *mat.Dense, v *mat.VecDense, r, c, n int) { m.RankOne(fresh(r, c, 5), 2, v, freshVec(c, 4)) }},
	{name: "RankOne(f,2,f,V)", ok: func(r, c, n int) bool { return n == c }, run: func(m *mat.Dense, v *mat.VecDense, r, c, n int) { m.RankOne(fresh(r, c, 5), 2, freshVec(r, 3), v) }},
	{name: "Mul(f,V)", ok: func(r, c, n int) bool { return c == 1 }, run: func(m *mat.Dense, v *mat.VecDense, r, c, n int) { m.Mul(fresh(r, n, 6), v) }},
	{name: "Add(f,V)", ok: func(r, c, n int) bool { return c == 1 && n == r }, run: func(m *mat.Dense, v *mat.VecDense, r, c, n int) { m.Add(fresh(r, 1, 6), v) }},
	{name: "V.MulVec(M,f)", vecRecv: true, ok: func(r, c, n int) bool { return n == r }, run: func(m *mat.Dense, v *mat.VecDense, r, c, n int) { v.MulVec(m, freshVec(c, 4)) }},
	{name: "V.MulVec(M.T,f)", vecRecv: true, ok: func(r, c, n int) bool { return n == c }, run: func(m *mat.Dense, v *mat.VecDense, r, c, n int) { v.MulVec(m.T(), freshVec(r, 3)) }},
}

// runMatVec: family "matvec" - w1 is a Dense window, w2 a column or row view of the same parent.
func runMatVec(c *acase, seed int64, sum *core.Summary) {
	L := c.W1.PR * c.W1.PC
	r, cc, n := c.W1.R, c.W1.C, c.W2.N
	for mi := range mixedMethods {
		mm := &mixedMethods[mi]
		if c.Method != "" && c.Method != mm.name {
			continue
		}
		if !mm.ok(r, cc, n) {
			continue
		}
		// the unaliased result: same method on private copies
		ref := fill(L, seed)
		refM := mat.DenseCopyOf(view(parent(ref, c.W1.PR, c.W1.PC), c.W1))
		refV := mat.VecDenseCopyOf(vecView(ref, c.W2))
		if refOut := core.Call(func() { mm.run(refM, refV, r, cc, n) }); refOut.Panicked {
			sum.Count("skipped_unaliased_panic", 1)
			continue
		}
		backing := fill(L, seed)
		snapshot := append([]float64(nil), backing...)
		m := view(parent(backing, c.W1.PR, c.W1.PC), c.W1)
		v := vecView(backing, c.W2)
		out := core.Call(func() { mm.run(m, v, r, cc, n) })
		want := append([]float64(nil), snapshot...)
		if mm.vecRecv {
			for i := 0; i < n; i++ {
				want[c.W2.Off+i*c.W2.Inc] = refV.AtVec(i)
			}
		} else {
			for i := 0; i < r; i++ {
				for j := 0; j < cc; j++ {
					want[c.W1.Off+i*c.W1.St+j] = refM.At(i, j)
				}
			}
		}
		sum.Cases++
		if c.Rel != "disjoint" {
			sum.Nontrivial++
		}
		judge(sum, c, mm.name, c.Expect, out, backing, snapshot, want, "")
	}
}

// ---------------------------------------------------------------- VecDense

type vecMethod struct {
	name   string
	ok     func(n, an int) bool
	run    func(v, A *mat.VecDense, n, an int)
	selfOK bool
}

func eqn(n, an int) bool { return n == an }

var vecMethods = []vecMethod{
	{name: "AddVec(A,f)", ok: eqn, selfOK: true, run: func(v, A *mat.VecDense, n, an int) { v.AddVec(A, freshVec(n, 1)) }},
	{name: "AddVec(f,A)", ok: eqn, selfOK: true, run: func(v, A *mat.VecDense, n, an int) { v.AddVec(freshVec(n, 1), A) }},
	{name: "SubVec(A,f)", ok: eqn, selfOK: true, run: func(v, A *mat.VecDense, n, an int) { v.SubVec(A, freshVec(n, 2)) }},
	{name: "SubVec(f,A)", ok: eqn, selfOK: true, run: func(v, A *mat.VecDense, n, an int) { v.SubVec(freshVec(n, 2), A) }},
	{name: "MulElemVec(A,f)", ok: eqn, selfOK: true, run: func(v, A *mat.VecDense, n, an int) { v.MulElemVec(A, freshVec(n, 3)) }},
	{name: "MulElemVec(f,A)", ok: eqn, selfOK: true, run: func(v, A *mat.VecDense, n, an int) { v.MulElemVec(freshVec(n, 3), A) }},
	{name: "DivElemVec(A,f)", ok: eqn, selfOK: true, run: func(v, A *mat.VecDense, n, an int) { v.DivElemVec(A, freshVec(n, 4)) }},
	{name: "DivElemVec(f,A)", ok: eqn, selfOK: true, run: func(v, A *mat.VecDense, n, an int) { v.DivElemVec(freshVec(n, 4), A) }},
	{name: "AddScaledVec(A,2,f)", ok: eqn, selfOK: true, run: func(v, A *mat.VecDense, n, an int) { v.AddScaledVec(A, 2, freshVec(n, 5)) }},
	{name: "AddScaledVec(f,2,A)", ok: eqn, selfOK: true, run: func(v, A *mat.VecDense, n, an int) { v.AddScaledVec(freshVec(n, 5), 2, A) }},
	{name: "ScaleVec(3,A)", ok: eqn, selfOK: true, run: func(v, A *mat.VecDense, n, an int) { v.ScaleVec(3, A) }},
	{name: "AddVec(v,A)", ok: eqn, run: func(v, A *mat.VecDense, n, an int) { v.AddVec(v, A) }},
	{name: "AddVec(A,v)", ok: eqn, run: func(v, A *mat.VecDense, n, an int) { v.AddVec(A, v) }},
	{name: "SubVec(v,A)", ok: eqn, run: func(v, A *mat.VecDense, n, an int) { v.SubVec(v, A) }},
	{name: "SubVec(A,v)", ok: eqn, run: func(v, A *mat.VecDense, n, an int) { v.SubVec(A, v) }},
	{name: "MulElemVec(v,A)", ok: eqn, run: func(v, A *mat.VecDense, n, an int) { v.MulElemVec(v, A) }},
	{name: "DivElemVec(v,A)", ok: eqn, run: func(v, A *mat.VecDense, n, an int) { v.DivElemVec(v, A) }},
	{name: "DivElemVec(A,v)", ok: eqn, run: func(v, A *mat.VecDense, n, an int) { v.DivElemVec(A, v) }},
	{name: "AddScaledVec(v,2,A)", ok: eqn, run: func(v, A *mat.VecDense, n, an int) { v.AddScaledVec(v, 2, A) }},
	{name: "AddScaledVec(A,2,v)", ok: eqn, run: func(v, A *mat.VecDense, n, an int) { v.AddScaledVec(A, 2, v) }},
	{name: "SolveVec(f,A)", ok: eqn, selfOK: true, run: func(v, A *mat.VecDense, n, an int) { _ = v.SolveVec(dominant(n, 7), A) }},
	{name: "SolveVec(fLS,A)", ok: func(n, an int) bool { return an == n+1 }, run: func(v, A *mat.VecDense, n, an int) { _ = v.SolveVec(fresh(an, n, 8), A) }},
	{name: "MulVec(f,A)", ok: func(n, an int) bool { return true }, selfOK: true, run: func(v, A *mat.VecDense, n, an int) { v.MulVec(fresh(n, an, 6), A) }},
	{name: "MulVec(f.T,A)", ok: func(n, an int) bool { return true }, selfOK: true, run: func(v, A *mat.VecDense, n, an int) { v.MulVec(fresh(an, n, 6).T(), A) }},
}

// vecView builds a VecDense with the given offset, length and increment over
// the backing slice, through the public API only: a column of a strided Dense.
func vecView(backing []float64, w win) *mat.VecDense {
	if w.Inc == 1 {
		return mat.NewVecDense(len(backing), backing).SliceVec(w.Off, w.Off+w.N).(*mat.VecDense)
	}
	rows := len(backing) / w.Inc
	p := mat.NewDense(rows, w.Inc, backing[:rows*w.Inc])
	col := p.ColView(w.Off % w.Inc).(*mat.VecDense)
	i0 := w.Off / w.Inc
	return col.SliceVec(i0, i0+w.N).(*mat.VecDense)
}

func runVec(c *acase, seed int64, sum *core.Summary) {
	// the backing is padded so that a strided parent of every increment fits
	L := 0
	for _, w := range []win{c.W1, c.W2} {
		need := (w.Off/w.Inc + w.N) * w.Inc
		if need > L {
			L = need
		}
	}
	L = ((L + 11) / 12) * 12 // divisible by 1,2,3,4
	self := c.Rel == "self"
	for mi := range vecMethods {
		vm := &vecMethods[mi]
		if c.Method != "" && c.Method != vm.name {
			continue
		}
		n, an := c.W1.N, c.W2.N
		if !vm.ok(n, an) || (self && !vm.selfOK) {
			continue
		}
		ref := fill(L, seed)
		refRecv := mat.VecDenseCopyOf(vecView(ref, c.W1))
		var refA *mat.VecDense
		if self {
			refA = mat.VecDenseCopyOf(refRecv)
		} else {
			refA = mat.VecDenseCopyOf(vecView(ref, c.W2))
		}
		if core.Call(func() { vm.run(refRecv, refA, n, an) }).Panicked {
			sum.Count("skipped_unaliased_panic", 1)
			continue
		}
		backing := fill(L, seed)
		snapshot := append([]float64(nil), backing...)
		recv := vecView(backing, c.W1)
		A := recv
		if !self {
			A = vecView(backing, c.W2)
		}
		out := core.Call(func() { vm.run(recv, A, n, an) })
		want := append([]float64(nil), snapshot...)
		for i := 0; i < n; i++ {
			want[c.W1.Off+i*c.W1.Inc] = refRecv.AtVec(i)
		}
		sum.Cases++
		if c.Rel != "disjoint" {
			sum.Nontrivial++
		}
		vexpect := c.Expect
		if isolatedClass[vm.name] && c.ExpectIso != "" {
			vexpect = c.ExpectIso
		}
		judge(sum, c, vm.name, vexpect, out, backing, snapshot, want, "")
	}
}

// ---------------------------------------------------------------- CDense

func cfill(n int, seed int64) []complex128 {
	d := make([]complex128, n)
	for p := range d {
		d[p] = complex(float64(1+(int64(p)*7+seed*3)%13), float64(1+(int64(p)*5+seed)%11))
	}
	return d
}

func runCDense(c *acase, seed int64, sum *core.Summary) {
	L := c.W1.PR * c.W1.PC
	if l2 := c.W2.PR * c.W2.PC; l2 > L {
		L = l2
	}
	if c.W1.R != c.W2.R || c.W1.C != c.W2.C || c.Rel == "selfT" {
		return
	}
	if c.Method != "" && c.Method != "CDense.Conj(A)" {
		return
	}
	self := c.Rel == "self"
	cview := func(b []complex128, w win) *mat.CDense {
		return mat.NewCDense(w.PR, w.PC, b[:w.PR*w.PC]).Slice(w.I, w.K, w.J, w.L).(*mat.CDense)
	}
	ref := cfill(L, seed)
	refA := mat.NewCDense(c.W2.R, c.W2.C, nil)
	refA.Copy(cview(ref, c.W2))
	refRecv := mat.NewCDense(c.W1.R, c.W1.C, nil)
	refRecv.Conj(refA)
	backing := cfill(L, seed)
	snapshot := append([]complex128(nil), backing...)
	recv := cview(backing, c.W1)
	A := recv
	if !self {
		A = cview(backing, c.W2)
	}
	out := core.Call(func() { recv.Conj(A) })
	want := append([]complex128(nil), snapshot...)
	for i := 0; i < c.W1.R; i++ {
		for j := 0; j < c.W1.C; j++ {
			want[c.W1.Off+i*c.W1.St+j] = refRecv.At(i, j)
		}
	}
	toF := func(z []complex128) []float64 {
		f := make([]float64, 2*len(z))
		for i, v := range z {
			f[2*i], f[2*i+1] = real(v), imag(v)
		}
		return f
	}
	sum.Cases++
	if c.Rel != "disjoint" {
		sum.Nontrivial++
	}
	judge(sum, c, "CDense.Conj(A)", c.Expect, out, toF(backing), toF(snapshot), toF(want), "")
}

// ---------------------------------------------------------------- SymDense / TriDense

type symMethod struct {
	name string
	run  func(s, A *mat.SymDense, n int)
	// copySem: the method is a plain element copy with no documented overlap rule
	selfOK bool
}

func freshSym(n, salt int) *mat.SymDense {
	d := make([]float64, n*n)
	for p := range d {
		d[p] = float64(1 + (p*5+salt)%11)
	}
	return mat.NewSymDense(n, d)
}

var symMethods = []symMethod{
	{name: "SymDense.AddSym(A,f)", selfOK: true, run: func(s, A *mat.SymDense, n int) { s.AddSym(A, freshSym(n, 1)) }},
	{name: "SymDense.AddSym(f,A)", selfOK: true, run: func(s, A *mat.SymDense, n int) { s.AddSym(freshSym(n, 1), A) }},
	{name: "SymDense.AddSym(s,A)", run: func(s, A *mat.SymDense, n int) { s.AddSym(s, A) }},
	{name: "SymDense.ScaleSym(3,A)", selfOK: true, run: func(s, A *mat.SymDense, n int) { s.ScaleSym(3, A) }},
	{name: "SymDense.SymRankOne(A,2,x)", selfOK: true, run: func(s, A *mat.SymDense, n int) { s.SymRankOne(A, 2, freshVec(n, 3)) }},
	{name: "SymDense.SymRankK(A,2,x)", selfOK: true, run: func(s, A *mat.SymDense, n int) { s.SymRankK(A, 2, fresh(n, 2, 4)) }},
	{name: "SymDense.CopySym(A)", selfOK: true, run: func(s, A *mat.SymDense, n int) { s.CopySym(A) }},
}

type triMethod struct {
	name   string
	run    func(t, A *mat.TriDense, n int)
	selfOK bool
}

func freshTri(n, salt int, kind mat.TriKind) *mat.TriDense {
	d := make([]float64, n*n)
	for p := range d {
		d[p] = float64(1 + (p*5+salt)%11)
	}
	return mat.NewTriDense(n, kind, d)
}

var triMethods = []triMethod{
	{name: "TriDense.ScaleTri(3,A)", selfOK: true, run: func(t, A *mat.TriDense, n int) { t.ScaleTri(3, A) }},
	{name: "TriDense.MulTri(A,f)", selfOK: true, run: func(t, A *mat.TriDense, n int) { t.MulTri(A, freshTri(n, 2, mat.Upper)) }},
	{name: "TriDense.MulTri(f,A)", selfOK: true, run: func(t, A *mat.TriDense, n int) { t.MulTri(freshTri(n, 2, mat.Upper), A) }},
	{name: "TriDense.InverseTri(A)", selfOK: true, run: func(t, A *mat.TriDense, n int) { t.InverseTri(A) }},
	{name: "TriDense.Copy(A)", selfOK: true, run: func(t, A *mat.TriDense, n int) { t.Copy(A) }},
}

func runSymTri(c *acase, seed int64, sum *core.Summary) {
	N := c.W1.PR
	L := N * N
	n, an := c.W1.R, c.W2.R
	if n != an {
		return
	}
	self := c.Rel == "self"
	// whole-backing expectation: only the receiver's stored (upper) triangle may change
	for mi := range symMethods {
		sm := &symMethods[mi]
		if c.Method != "" && c.Method != sm.name {
			continue
		}
		if self && !sm.selfOK {
			continue
		}
		mk := func(b []float64, w win) *mat.SymDense {
			return mat.NewSymDense(N, b[:L]).SliceSym(w.I, w.K).(*mat.SymDense)
		}
		ref := fill(L, seed)
		refRecv := mat.NewSymDense(n, nil)
		refRecv.CopySym(mk(ref, c.W1))
		refA := mat.NewSymDense(n, nil)
		refA.CopySym(mk(append([]float64(nil), ref...), c.W2))
		if self {
			refA = refRecv
		}
		if core.Call(func() { sm.run(refRecv, refA, n) }).Panicked {
			sum.Count("skipped_unaliased_panic", 1)
			continue
		}
		backing := fill(L, seed)
		snapshot := append([]float64(nil), backing...)
		recv := mk(backing, c.W1)
		A := recv
		if !self {
			A = mk(backing, c.W2)
		}
		out := core.Call(func() { sm.run(recv, A, n) })
		want := append([]float64(nil), snapshot...)
		for i := 0; i < n; i++ {
			for j := i; j < n; j++ {
				want[c.W1.Off+i*c.W1.St+j] = refRecv.At(i, j)
			}
		}
		sum.Cases++
		if c.Rel != "disjoint" {
			sum.Nontrivial++
		}
		exp := c.Expect
		if strings.Contains(sm.name, "CopySym") && exp == "panic" {
			exp = "either" // a copy may handle overlap itself (as Dense.Copy does) or refuse it; it must not corrupt
		}
		judge(sum, c, sm.name, exp, out, backing, snapshot, want, "")
	}
	for mi := range triMethods {
		tm := &triMethods[mi]
		if c.Method != "" && c.Method != tm.name {
			continue
		}
		if self && !tm.selfOK {
			continue
		}
		mk := func(b []float64, w win) *mat.TriDense {
			return mat.NewTriDense(N, mat.Upper, b[:L]).SliceTri(w.I, w.K).(*mat.TriDense)
		}
		ref := fill(L, seed)
		refRecv := mat.NewTriDense(n, mat.Upper, nil)
		refRecv.Copy(mk(ref, c.W1))
		refA := mat.NewTriDense(n, mat.Upper, nil)
		refA.Copy(mk(append([]float64(nil), ref...), c.W2))
		if self {
			refA = refRecv
		}
		if core.Call(func() { tm.run(refRecv, refA, n) }).Panicked {
			sum.Count("skipped_unaliased_panic", 1)
			continue
		}
		backing := fill(L, seed)
		snapshot := append([]float64(nil), backing...)
		recv := mk(backing, c.W1)
		A := recv
		if !self {
			A = mk(backing, c.W2)
		}
		out := core.Call(func() { tm.run(recv, A, n) })
		want := append([]float64(nil), snapshot...)
		for i := 0; i < n; i++ {
			for j := i; j < n; j++ {
				want[c.W1.Off+i*c.W1.St+j] = refRecv.At(i, j)
			}
		}
		sum.Cases++
		if c.Rel != "disjoint" {
			sum.Nontrivial++
		}
		exp := c.Expect
		if strings.Contains(tm.name, "Copy(") && exp == "panic" {
			exp = "either"
		}
		judge(sum, c, tm.name, exp, out, backing, snapshot, want, "")
	}
}

func replay(in *core.Lines, args []string, seed int64, sum *core.Summary) error {
	kinds := map[string]bool{}
	for _, a := range args {
		if strings.HasPrefix(a, "recv=") {
			for _, k := range strings.Split(a[5:], ",") {
				kinds[k] = true
			}
		}
	}
	if len(kinds) == 0 {
		kinds["dense"], kinds["cdense"] = true, true
	}
	rels := map[string]int{}
	for {
		b, ok := in.Next()
		if !ok {
			break
		}
		c := new(acase)
		if err := json.Unmarshal(b, c); err != nil {
			return fmt.Errorf("line %d: %v", in.N, err)
		}
		if c.Fam == "header" {
			known := map[string]bool{}
			for i := range denseMethods {
				known[denseMethods[i].name] = true
			}
			for i := range vecMethods {
				known[vecMethods[i].name] = true
			}
			for _, n := range c.Isolated {
				if !known[n] {
					sum.Fail("matalias:binding:isolated-class-unknown-method", "the specification's Isolated class names "+n+", which the harness does not drive", c)
				}
				isolatedClass[n] = true
			}
			continue
		}
		rels[c.Rel+"/"+c.Expect]++
		switch c.Fam {
		case "pow":
			if err := runPow(b, sum); err != nil {
				return fmt.Errorf("line %d: %v", in.N, err)
			}
		case "triprod":
			if err := runTriProd(b, sum); err != nil {
				return fmt.Errorf("line %d: %v", in.N, err)
			}
		case "mat", "matdiff":
			if kinds["dense"] && !strings.HasPrefix(c.Method, "CDense") {
				runDense(c, seed, sum)
			}
			if kinds["cdense"] && (c.Method == "" || strings.HasPrefix(c.Method, "CDense")) {
				runCDense(c, seed, sum)
			}
		case "sym":
			runSymTri(c, seed, sum)
		case "vec":
			runVec(c, seed, sum)
		case "matvec":
			runMatVec(c, seed, sum)
		default:
			return fmt.Errorf("unknown family %q", c.Fam)
		}
		if in.N%20011 == 1 {
			sum.Sample(c)
		}
	}
	for k, v := range rels {
		sum.Count("window_pairs:"+k, v)
	}
	return nil
}

func init() { core.RegisterReplay("matalias", replay) }
