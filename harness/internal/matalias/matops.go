package matalias

// Value-carrying families of specs/mat/MatAliasOps.tla ("pow", "triprod").
//
// A case carries the parent's whole backing array, the windows / representations
// of receiver and operands, the outcome class the specification demands and the
// whole backing array demanded after a return.  The harness lays the views over
// one real slice, makes the call and compares; it computes nothing.

import (
	"encoding/json"
	"fmt"
	"strings"

	"gonum.org/v1/gonum/mat"

	"gonum.org/v1/gonum/verifharness/internal/core"
)

type pcase struct {
	Fam    string      `json:"fam"`
	Op     string      `json:"op"`
	K      int         `json:"k"`
	N      int         `json:"n"`
	Rk     string      `json:"rk"`
	W1     win         `json:"w1"`
	W2     win         `json:"w2"`
	ArgT   bool        `json:"argT"`
	Back   []float64   `json:"back"`
	Rback  []float64   `json:"rback"`
	Rel    string      `json:"rel"`
	Expect string      `json:"expect"`
	Alg    string      `json:"alg"`
	Res    [][]float64 `json:"res"`
	Want   []float64   `json:"want"`
	Rwant  []float64   `json:"rwant"`
}

// the function handed to Apply (MatAliasOps.tla, MApply): an input of the call, not an oracle
func applyFn(i, j int, v float64) float64 { return float64(3*i-j) + 2*v }

// numDiff returns the first index at which got and want differ as numbers (-0 == +0: the
// specification works over the integers), or -1.
func numDiff(got, want []float64) int {
	if len(got) != len(want) {
		return 0
	}
	for i := range want {
		if got[i] != want[i] {
			return i
		}
	}
	return -1
}

func readAll(m mat.Matrix) (rows [][]float64, o core.Outcome) {
	o = core.Call(func() {
		r, c := m.Dims()
		rows = make([][]float64, r)
		for i := range rows {
			rows[i] = make([]float64, c)
			for j := range rows[i] {
				rows[i][j] = m.At(i, j)
			}
		}
	})
	return rows, o
}

func rowsDiff(got, want [][]float64) string {
	if len(got) != len(want) {
		return fmt.Sprintf("result has %d rows, the specification demands %d", len(got), len(want))
	}
	for i := range want {
		if len(got[i]) != len(want[i]) {
			return fmt.Sprintf("result row %d has %d columns, the specification demands %d", i, len(got[i]), len(want[i]))
		}
		for j := range want[i] {
			if got[i][j] != want[i][j] {
				return fmt.Sprintf("result[%d][%d] = %v, the specification demands %v (got %v, want %v)", i, j, got[i][j], want[i][j], got, want)
			}
		}
	}
	return ""
}

// verdict judges one call of a value-carrying family.  stores: every slice the call could reach
// (name, the live slice, its content before the call, its content demanded after a return).
type store struct {
	name               string
	live, before, want []float64
}

func verdict(sum *core.Summary, sig func(string) string, raw json.RawMessage, expect, what string, out core.Outcome, err error,
	stores []store, recv mat.Matrix, res [][]float64) bool {
	region := out.Panicked && !out.Runtime && strings.HasPrefix(out.Text, "mat: bad region")
	switch {
	case out.Panicked && !region:
		sum.Fail(sig("foreign-panic"), fmt.Sprintf("%s panicked with %q (not a region panic); the specification demands %s", what, out.Text, expect), raw)
		return false
	case out.Panicked:
		if expect == "equal" {
			sum.Fail(sig("false-rejection"), fmt.Sprintf("%s is a legal call and panicked %q; the specification demands the result %v", what, out.Text, res), raw)
			return false
		}
		for _, s := range stores {
			if p := bitsEqual(s.live, s.before); p >= 0 {
				sum.Fail(sig("write-before-panic"), fmt.Sprintf("%s panicked %q but %s[%d] changed %v -> %v", what, out.Text, s.name, p, s.before[p], s.live[p]), raw)
				return false
			}
		}
		return true
	}
	if err != nil {
		sum.Fail(sig("error-returned"), fmt.Sprintf("%s returned the error %q; the specification demands the result %v", what, err, res), raw)
		return false
	}
	bad := ""
	for _, s := range stores {
		if p := numDiff(s.live, s.want); p >= 0 {
			bad = fmt.Sprintf("%s[%d] = %v, the specification demands %v (before the call %v)", s.name, p, s.live[p], s.want[p], s.before[p])
			break
		}
	}
	if expect == "panic" {
		if bad != "" {
			bad = "; and storage is corrupted: " + bad
		}
		sum.Fail(sig("missed-overlap"), fmt.Sprintf("%s returned although receiver and operand overlap partially (the specification demands a region panic)%s", what, bad), raw)
		return false
	}
	if bad != "" {
		sum.Fail(sig("corrupted"), fmt.Sprintf("%s returned but %s", what, bad), raw)
		return false
	}
	got, ro := readAll(recv)
	if ro.Panicked {
		sum.Fail(sig("result-unreadable"), what+": reading the result through At panicked: "+ro.Text, raw)
		return false
	}
	if msg := rowsDiff(got, res); msg != "" {
		sum.Fail(sig("value"), what+": "+msg, raw)
		return false
	}
	return true
}

func runPow(line []byte, sum *core.Summary) error {
	var c pcase
	if err := json.Unmarshal(line, &c); err != nil {
		return err
	}
	raw := json.RawMessage(append([]byte(nil), line...))
	arg := "A"
	if c.ArgT {
		arg = "A.T"
	}
	var method string
	switch c.Op {
	case "Pow":
		method = fmt.Sprintf("Pow(%s,%d)", arg, c.K)
	case "Scale":
		method = fmt.Sprintf("Scale(%d,%s)", c.K, arg)
	case "Apply":
		method = fmt.Sprintf("Apply(fn,%s)", arg)
	case "Inverse":
		method = fmt.Sprintf("Inverse(%s)", arg)
	default:
		return fmt.Errorf("family pow: unknown operation %q", c.Op)
	}
	where := c.Rk
	if c.Rk == "win" {
		where = "win-" + c.Rel
	}
	sig := func(kind string) string { return fmt.Sprintf("matalias:pow:%s:%s:%s", method, where, kind) }

	backing := append([]float64(nil), c.Back...)
	rown := append([]float64(nil), c.Rback...)
	var recv, A *mat.Dense
	bo := core.Call(func() {
		p := mat.NewDense(c.W2.PR, c.W2.PC, backing)
		A = view(p, c.W2)
		switch c.Rk {
		case "fresh":
			recv = &mat.Dense{}
		case "sized":
			recv = mat.NewDense(c.N, c.N, rown)
		case "win":
			recv = view(p, c.W1)
		case "self", "selfT":
			recv = A
		}
	})
	if bo.Panicked || recv == nil {
		return fmt.Errorf("family pow: building the operands failed (rk=%s): %s", c.Rk, bo.Text)
	}
	if (c.Rk == "selfT") != (c.ArgT && (c.Rk == "selfT" || c.Rk == "self")) {
		return fmt.Errorf("family pow: inconsistent case rk=%s argT=%v", c.Rk, c.ArgT)
	}
	var a mat.Matrix = A
	if c.ArgT {
		a = A.T()
	}
	var err error
	out := core.Call(func() {
		switch c.Op {
		case "Pow":
			recv.Pow(a, c.K)
		case "Scale":
			recv.Scale(float64(c.K), a)
		case "Apply":
			recv.Apply(applyFn, a)
		case "Inverse":
			err = recv.Inverse(a)
		}
	})
	sum.Cases++
	if c.Rel != "disjoint" || c.Rk == "win" {
		sum.Nontrivial++
	}
	stores := []store{{"parent backing", backing, c.Back, c.Want}}
	if c.Rk == "sized" {
		stores = append(stores, store{"receiver backing", rown, c.Rback, c.Rwant})
	}
	what := fmt.Sprintf("%s, receiver %s (relation %s)", method, c.Rk, c.Rel)
	verdict(sum, sig, raw, c.Expect, what, out, err, stores, recv, c.Res)
	return nil
}

type tfac struct {
	Kind  string      `json:"kind"`
	P     int         `json:"p"`
	Tt    bool        `json:"tt"`
	Store []float64   `json:"store"`
	Rel   string      `json:"rel"`
	Same  bool        `json:"same"`
	Alg   string      `json:"alg"`
	X     [][]float64 `json:"x"`
}

type tcase struct {
	Fam    string      `json:"fam"`
	Op     string      `json:"op"`
	N      int         `json:"n"`
	Up     bool        `json:"up"`
	Rk     string      `json:"rk"`
	I      int         `json:"i"`
	Pn     int         `json:"pn"`
	A      tfac        `json:"a"`
	B      tfac        `json:"b"`
	Back   []float64   `json:"back"`
	Rback  []float64   `json:"rback"`
	Expect string      `json:"expect"`
	Res    [][]float64 `json:"res"`
	Want   []float64   `json:"want"`
	Rwant  []float64   `json:"rwant"`
}

func runTriProd(line []byte, sum *core.Summary) error {
	var c tcase
	if err := json.Unmarshal(line, &c); err != nil {
		return err
	}
	raw := json.RawMessage(append([]byte(nil), line...))
	kind, other, kn := mat.Upper, mat.Lower, "U"
	if !c.Up {
		kind, other, kn = mat.Lower, mat.Upper, "L"
	}
	fname := func(f *tfac) string {
		s := f.Kind
		if f.Tt {
			s += ".TTri"
		}
		return s
	}
	method := fmt.Sprintf("MulTri(%s,%s)", fname(&c.A), fname(&c.B))
	rels := c.A.Rel + "+" + c.B.Rel
	sig := func(k string) string { return fmt.Sprintf("matalias:triprod:%s:%s-%s:%s:%s", method, c.Rk, kn, rels, k) }

	backing := append([]float64(nil), c.Back...)
	rown := append([]float64(nil), c.Rback...)
	sa := append([]float64(nil), c.A.Store...)
	sb := append([]float64(nil), c.B.Store...)
	var recv *mat.TriDense
	var fa, fb mat.Triangular
	var ferr error
	bo := core.Call(func() {
		parent := mat.NewTriDense(c.Pn, kind, backing)
		switch c.Rk {
		case "fresh":
			recv = &mat.TriDense{}
		case "sized":
			recv = mat.NewTriDense(c.N, kind, rown)
		case "win":
			recv = parent.SliceTri(c.I, c.I+c.N).(*mat.TriDense)
		}
		mk := func(f *tfac, st []float64) mat.Triangular {
			var x mat.Triangular
			switch f.Kind {
			case "win":
				x = parent.SliceTri(f.P, f.P+c.N)
			case "self":
				x = recv
			case "winT":
				return mat.NewTriDense(c.N+1, other, st).SliceTri(1, c.N+1).(*mat.TriDense).TTri()
			case "diag":
				x = mat.NewDiagDense(c.N, st)
			case "diagwin":
				x = parent.SliceTri(f.P, f.P+c.N).(*mat.TriDense).DiagView().(*mat.DiagDense)
			case "selfdiag":
				x = recv.DiagView().(*mat.DiagDense)
			case "band":
				kb := 1
				if c.N == 1 {
					kb = 0
				}
				x = mat.NewTriBandDense(c.N, kb, kind, st)
			default:
				ferr = fmt.Errorf("family triprod: unknown factor kind %q", f.Kind)
				return nil
			}
			if f.Tt {
				d, ok := x.(*mat.DiagDense)
				if !ok {
					ferr = fmt.Errorf("family triprod: TTri demanded of factor kind %q", f.Kind)
					return nil
				}
				x = d.TTri()
			}
			return x
		}
		fa = mk(&c.A, sa)
		fb = mk(&c.B, sb)
	})
	if ferr != nil {
		return ferr
	}
	if bo.Panicked || recv == nil || fa == nil || fb == nil {
		return fmt.Errorf("family triprod: building the operands failed: %s", bo.Text)
	}
	out := core.Call(func() { recv.MulTri(fa, fb) })
	sum.Cases++
	if c.Rk == "win" || c.A.Kind != "win" || c.B.Kind != "win" {
		sum.Nontrivial++
	}
	stores := []store{{"parent backing", backing, c.Back, c.Want}, {"storage of factor a", sa, c.A.Store, c.A.Store}, {"storage of factor b", sb, c.B.Store, c.B.Store}}
	if c.Rk == "sized" {
		stores = append(stores, store{"receiver backing", rown, c.Rback, c.Rwant})
	}
	what := fmt.Sprintf("%s, %s receiver %s at %d (relations %s)", method, kn, c.Rk, c.I, rels)
	ok := verdict(sum, sig, raw, c.Expect, what, out, nil, stores, recv, c.Res)
	if ok && !out.Panicked {
		// the product has the kind of its factors (documented: the receiver adopts it when empty)
		if n, k := recv.Triangle(); n != c.N || k != kind {
			sum.Fail(sig("kind"), fmt.Sprintf("%s: receiver reports Triangle() = (%d, %v), the specification demands (%d, %v)", what, n, k, c.N, kind), raw)
		}
	}
	return nil
}

