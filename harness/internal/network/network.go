// Package network binds specs/network/Network.tla to graph/network and
// graph/spectral (C15): every record printed by TLC describes one small graph
// together with the exact rational value of every measure; this driver builds
// the graph on the real containers, calls gonum and compares. It contains no
// formula of its own: every expected number is read from the record.
package network

import (
	"encoding/json"
	"fmt"
	"math"
	"math/big"
	"strings"
	"time"

	"gonum.org/v1/gonum/graph"
	"gonum.org/v1/gonum/graph/network"
	"gonum.org/v1/gonum/graph/path"
	"gonum.org/v1/gonum/graph/simple"
	"gonum.org/v1/gonum/graph/spectral"

	"gonum.org/v1/gonum/verifharness/internal/core"
)

func init() {
	core.RegisterReplay("network", replayNetwork)
}

type prRec struct {
	D    [2]int64   `json:"d"`
	R    [][2]int64 `json:"r"`
	Tols [][4]int64 `json:"tols"` // tol num, tol den, bound num, bound den
}

// hitsSide: ok = the limit direction is stated exactly; d = integer direction;
// devs = (tol num, tol den, allowed deviation num, den) per tolerance.
type hitsSide struct {
	Ok   bool       `json:"ok"`
	D    []int64    `json:"d"`
	Devs [][4]int64 `json:"devs"`
}

type hitsRec struct {
	Auth hitsSide `json:"auth"`
	Hub  hitsSide `json:"hub"`
}

type diffRec struct {
	Heat    []int64    `json:"heat"`
	Sum     int64      `json:"sum"`
	EquiCol [][2]int64 `json:"equicol"`
	EquiRow [][2]int64 `json:"equirow"`
	Tol     [2]int64   `json:"tol"`
	Dev     [2]int64   `json:"dev"`
}

type netCase struct {
	K      string          `json:"k"`
	N      int             `json:"n"`
	Dir    bool            `json:"dir"`
	Wtd    bool            `json:"wtd"`
	Edges  [][3]int64      `json:"edges"`
	Dist   [][]int64       `json:"dist"`
	Bet    [][2]int64      `json:"bet"`
	Ebet   [][4]int64      `json:"ebet"`
	Far    []int64         `json:"far"`
	Ecc    []int64         `json:"ecc"`
	Har    [][2]int64      `json:"har"`
	Res    [][2]int64      `json:"res"`
	Resh   [][2][2]int64   `json:"resh"` // halved weights: residual closeness = a + b*sqrt(2)
	Farh   [][2]int64      `json:"farh"`
	Harh   [][2]int64      `json:"harh"`
	Rwlap  [][][2]int64    `json:"rwlap"`
	Pr     []prRec         `json:"pr"`
	Hits   *hitsRec        `json:"hits"`
	Lap    [][]int64       `json:"lap"`
	Symlap [][][3]int64    `json:"symlap"`
	Diff   *diffRec        `json:"diff"`
	Raw    json.RawMessage `json:"-"`
}

// relTol is the c*n*eps allowance for measures that gonum evaluates with a
// handful of float operations on exactly representable inputs.
const relTol = 1e-12

// prSlack absorbs the rounding of the power iteration itself (see C15.py).
const prSlack = 1e-7

func rat(n, d int64) *big.Rat { return big.NewRat(n, d) }

// near reports |f - r| <= tol*max(1,|r|), evaluated in exact arithmetic.
func near(f float64, r *big.Rat, tol float64) bool {
	if math.IsNaN(f) || math.IsInf(f, 0) {
		return false
	}
	fr := new(big.Rat).SetFloat64(f)
	diff := new(big.Rat).Sub(fr, r)
	diff.Abs(diff)
	scale := new(big.Rat).Abs(r)
	if scale.Cmp(big.NewRat(1, 1)) < 0 {
		scale.SetInt64(1)
	}
	lim := new(big.Rat).SetFloat64(tol)
	lim.Mul(lim, scale)
	return diff.Cmp(lim) <= 0
}

// nearAbs reports |f - r| <= bound + slack in exact arithmetic.
func nearAbs(f float64, r, bound *big.Rat, slack float64) bool {
	if math.IsNaN(f) || math.IsInf(f, 0) {
		return false
	}
	fr := new(big.Rat).SetFloat64(f)
	diff := new(big.Rat).Sub(fr, r)
	diff.Abs(diff)
	lim := new(big.Rat).SetFloat64(slack)
	lim.Add(lim, bound)
	return diff.Cmp(lim) <= 0
}

// halvedMeasures runs the distance measures on the same graph with every weight halved (half-integer
// shortest-path lengths). The expected values come from the specification: farness and harmonic
// closeness as rationals, residual closeness as the pair (a, b) of a + b*sqrt(2).
func (k *checker) halvedMeasures(g graph.Graph, src string, p path.AllShortest) {
	c := k.b.c
	if len(c.Resh) != c.N {
		return
	}
	var m map[int64]float64
	if k.call("Farness", func() { m = network.Farness(g, p) }) {
		k.nodeMap("Farness/half-weights/"+src, m, c.Farh, false)
	}
	if k.call("Harmonic", func() { m = network.Harmonic(g, p) }) {
		k.nodeMap("Harmonic/half-weights/"+src, m, c.Harh, false)
	}
	if k.call("Residual", func() { m = network.Residual(g, p) }) {
		for i := 1; i <= c.N; i++ {
			id := k.b.id(int64(i))
			a := rat(c.Resh[i-1][0][0], c.Resh[i-1][0][1])
			bq := rat(c.Resh[i-1][1][0], c.Resh[i-1][1][1])
			got, ok := m[id]
			if !ok {
				k.fail("Residual/half-weights/"+src, "value", fmt.Sprintf("node %d (model %d) missing", id, i))
				continue
			}
			// the only irrational constant of the harness: sqrt(2) as a float64 (error 1 ulp, far below
			// the tolerance); a and b are exact and small
			af, _ := a.Float64()
			bf, _ := bq.Float64()
			want := af + bf*math.Sqrt2
			if math.IsNaN(got) || math.Abs(got-want) > relTol*math.Max(1, math.Abs(want)) {
				k.fail("Residual/half-weights/"+src, "value", fmt.Sprintf("node %d (model %d): got %v, the definition gives %s + %s*sqrt(2) = %v", id, i, got, a.RatString(), bq.RatString(), want))
			}
		}
	}
}

type builder struct {
	half bool // build weighted containers with every weight halved
	neg  bool // build weighted containers with every weight negated
	c    *netCase
	ids  []int64 // model node i (1-based) -> real id
}

func (b *builder) id(i int64) int64 { return b.ids[i-1] }

// build makes the real graph. weightedType selects the Weighted* container
// (unit weights when the case is unweighted).
func (b *builder) w(x int64) float64 {
	if b.neg {
		return -float64(x)
	}
	if b.half {
		return float64(x) / 2
	}
	return float64(x)
}

func (b *builder) build(weightedType bool) graph.Graph {
	c := b.c
	switch {
	case c.Dir && !weightedType:
		g := simple.NewDirectedGraph()
		for i := 1; i <= c.N; i++ {
			g.AddNode(simple.Node(b.id(int64(i))))
		}
		for _, e := range c.Edges {
			g.SetEdge(simple.Edge{F: simple.Node(b.id(e[0])), T: simple.Node(b.id(e[1]))})
		}
		return g
	case c.Dir && weightedType:
		g := simple.NewWeightedDirectedGraph(0, math.Inf(1))
		for i := 1; i <= c.N; i++ {
			g.AddNode(simple.Node(b.id(int64(i))))
		}
		for _, e := range c.Edges {
			g.SetWeightedEdge(simple.WeightedEdge{F: simple.Node(b.id(e[0])), T: simple.Node(b.id(e[1])), W: b.w(e[2])})
		}
		return g
	case !c.Dir && !weightedType:
		g := simple.NewUndirectedGraph()
		for i := 1; i <= c.N; i++ {
			g.AddNode(simple.Node(b.id(int64(i))))
		}
		for _, e := range c.Edges {
			g.SetEdge(simple.Edge{F: simple.Node(b.id(e[0])), T: simple.Node(b.id(e[1]))})
		}
		return g
	default:
		g := simple.NewWeightedUndirectedGraph(0, math.Inf(1))
		for i := 1; i <= c.N; i++ {
			g.AddNode(simple.Node(b.id(int64(i))))
		}
		for _, e := range c.Edges {
			g.SetWeightedEdge(simple.WeightedEdge{F: simple.Node(b.id(e[0])), T: simple.Node(b.id(e[1])), W: b.w(e[2])})
		}
		return g
	}
}

type checker struct {
	b    *builder
	sum  *core.Summary
	kind string // container description for messages
	bad  bool
}

func (k *checker) fail(routine, what, msg string) {
	k.bad = true
	k.sum.Fail("network:"+routine+":"+what, fmt.Sprintf("[%s] %s; graph n=%d dir=%v edges=%v ids=%v", k.kind, msg, k.b.c.N, k.b.c.Dir, k.b.c.Edges, k.b.ids), k.b.c.Raw)
}

// call runs f under the watchdog; a panic or hang is a failure of routine.
func (k *checker) call(routine string, f func()) bool {
	o := core.CallTimeout(20*time.Second, f)
	if o.Hung {
		k.fail(routine, "hang", o.Text)
		return false
	}
	if o.Panicked {
		k.fail(routine, "panic", o.Text)
		return false
	}
	return true
}

// nodeMap compares a map keyed by node id with the expected per-node rationals.
// absentZero: a missing key stands for zero ("returns the non-zero ...").
func (k *checker) nodeMap(routine string, got map[int64]float64, want [][2]int64, absentZero bool) {
	c := k.b.c
	for i := 1; i <= c.N; i++ {
		id := k.b.id(int64(i))
		w := rat(want[i-1][0], want[i-1][1])
		g, ok := got[id]
		if !ok {
			if absentZero && w.Sign() == 0 {
				continue
			}
			k.fail(routine, "value", fmt.Sprintf("node %d (model %d) missing, want %s", id, i, w.RatString()))
			continue
		}
		if !near(g, w, relTol) {
			k.fail(routine, "value", fmt.Sprintf("node %d (model %d): got %v want %s", id, i, g, w.RatString()))
		}
	}
	for id := range got {
		found := false
		for _, x := range k.b.ids[:c.N] {
			if x == id {
				found = true
			}
		}
		if !found {
			k.fail(routine, "extra-key", fmt.Sprintf("key %d is not a node", id))
		}
	}
}

func ints2rats(v []int64) [][2]int64 {
	r := make([][2]int64, len(v))
	for i, x := range v {
		r[i] = [2]int64{x, 1}
	}
	return r
}

func (k *checker) edgeMap(routine string, got map[[2]int64]float64) {
	c := k.b.c
	want := map[[2]int64]*big.Rat{}
	for _, e := range c.Ebet {
		u, v := k.b.id(e[0]), k.b.id(e[1])
		if !c.Dir && v < u {
			u, v = v, u // "edges are retained such that u.ID < v.ID"
		}
		want[[2]int64{u, v}] = rat(e[2], e[3])
	}
	for key, w := range want {
		g, ok := got[key]
		if !ok {
			if w.Sign() != 0 {
				k.fail(routine, "value", fmt.Sprintf("edge %v missing, want %s", key, w.RatString()))
			}
			continue
		}
		if !near(g, w, relTol) {
			k.fail(routine, "value", fmt.Sprintf("edge %v: got %v want %s", key, g, w.RatString()))
		}
	}
	for key, g := range got {
		if _, ok := want[key]; !ok && g != 0 {
			k.fail(routine, "extra-key", fmt.Sprintf("key %v (value %v) is not an edge of the graph in the documented orientation", key, g))
		}
	}
}

func (k *checker) distances(name string, p path.AllShortest) {
	c := k.b.c
	for i := 1; i <= c.N; i++ {
		for j := 1; j <= c.N; j++ {
			got := p.Weight(k.b.id(int64(i)), k.b.id(int64(j)))
			want := c.Dist[i-1][j-1]
			if want < 0 {
				if !math.IsInf(got, 1) {
					k.fail(name, "dist", fmt.Sprintf("d(%d,%d)=%v want +Inf", i, j, got))
				}
			} else if got != float64(want) {
				k.fail(name, "dist", fmt.Sprintf("d(%d,%d)=%v want %d", i, j, got, want))
			}
		}
	}
}

func (k *checker) distanceMeasures(g graph.Graph, src string, p path.AllShortest) {
	c := k.b.c
	var m map[int64]float64
	if k.call("Farness", func() { m = network.Farness(g, p) }) {
		k.nodeMap("Farness/"+src, m, ints2rats(c.Far), false)
	}
	if k.call("Eccentricity", func() { m = network.Eccentricity(g, p) }) {
		k.nodeMap("Eccentricity/"+src, m, ints2rats(c.Ecc), false)
	}
	if k.call("Harmonic", func() { m = network.Harmonic(g, p) }) {
		k.nodeMap("Harmonic/"+src, m, c.Har, false)
	}
	if k.call("Residual", func() { m = network.Residual(g, p) }) {
		k.nodeMap("Residual/"+src, m, c.Res, false)
	}
	if k.call("Closeness", func() { m = network.Closeness(g, p) }) {
		// C(v) = 1/F(v); undefined by the formula when no other node reaches v
		for i := 1; i <= c.N; i++ {
			id := k.b.id(int64(i))
			got, ok := m[id]
			if c.Far[i-1] == 0 {
				k.sum.Count("closeness_undefined_skipped", 1)
				continue
			}
			if !ok || !near(got, rat(1, c.Far[i-1]), relTol) {
				k.fail("Closeness/"+src, "value", fmt.Sprintf("node %d (model %d): got %v (present=%v) want 1/%d", id, i, got, ok, c.Far[i-1]))
			}
		}
	}
}

func (k *checker) pageRank(g graph.Directed) {
	c := k.b.c
	type fn struct {
		name string
		f    func(graph.Directed, float64, float64) map[int64]float64
	}
	for _, f := range []fn{{"PageRank", network.PageRank}, {"PageRankSparse", network.PageRankSparse}} {
		for _, pr := range c.Pr {
			damp := float64(pr.D[0]) / float64(pr.D[1])
			for _, t := range pr.Tols {
				tol := float64(t[0]) / float64(t[1])
				bound := rat(t[2], t[3])
				var m map[int64]float64
				if !k.call(f.name, func() { m = f.f(g, damp, tol) }) {
					continue
				}
				k.sum.Count("pagerank_calls", 1)
				if len(m) != c.N {
					k.fail(f.name, "keys", fmt.Sprintf("damp=%v tol=%v: %d keys for %d nodes", damp, tol, len(m), c.N))
					continue
				}
				total := 0.0
				for i := 1; i <= c.N; i++ {
					got, ok := m[k.b.id(int64(i))]
					want := rat(pr.R[i-1][0], pr.R[i-1][1])
					total += got
					if !ok || !nearAbs(got, want, bound, prSlack) {
						k.fail(f.name, "stationary", fmt.Sprintf("damp=%v tol=%v node model %d: got %v want %s (allowed deviation %s + %g)", damp, tol, i, got, want.RatString(), bound.RatString(), prSlack))
					}
				}
				if math.Abs(total-1) > prSlack {
					k.fail(f.name, "sum", fmt.Sprintf("damp=%v tol=%v: ranks sum to %v", damp, tol, total))
				}
			}
		}
	}
}

func (k *checker) laplacians(g graph.Undirected) {
	c := k.b.c
	var l spectral.Laplacian
	index := func(name string, l spectral.Laplacian) bool {
		if len(l.Index) != c.N || len(l.Nodes) != c.N {
			k.fail(name, "index", fmt.Sprintf("Index has %d entries, Nodes %d, graph has %d nodes", len(l.Index), len(l.Nodes), c.N))
			return false
		}
		for id, i := range l.Index {
			if i < 0 || i >= c.N || l.Nodes[i].ID() != id {
				k.fail(name, "index", fmt.Sprintf("Index[%d]=%d does not point at that node", id, i))
				return false
			}
		}
		r, cc := l.Dims()
		if r != c.N || cc != c.N {
			k.fail(name, "dims", fmt.Sprintf("%dx%d", r, cc))
			return false
		}
		return true
	}
	if k.call("NewLaplacian", func() { l = spectral.NewLaplacian(g) }) && index("NewLaplacian", l) {
		for i := 1; i <= c.N; i++ {
			for j := 1; j <= c.N; j++ {
				got := l.At(l.Index[k.b.id(int64(i))], l.Index[k.b.id(int64(j))])
				if got != float64(c.Lap[i-1][j-1]) {
					k.fail("NewLaplacian", "entry", fmt.Sprintf("L[%d,%d]=%v want %d", i, j, got, c.Lap[i-1][j-1]))
				}
			}
		}
	}
	if k.call("NewSymNormLaplacian", func() { l = spectral.NewSymNormLaplacian(g) }) && index("NewSymNormLaplacian", l) {
		for i := 1; i <= c.N; i++ {
			for j := 1; j <= c.N; j++ {
				got := l.At(l.Index[k.b.id(int64(i))], l.Index[k.b.id(int64(j))])
				w := c.Symlap[i-1][j-1] // sign, square num, square den
				sign := 0
				if got > 0 {
					sign = 1
				} else if got < 0 {
					sign = -1
				}
				if int64(sign) != w[0] || !near(got*got, rat(w[1], w[2]), relTol) {
					k.fail("NewSymNormLaplacian", "entry", fmt.Sprintf("L[%d,%d]=%v want sign %d square %d/%d", i, j, got, w[0], w[1], w[2]))
				}
			}
		}
	}
}

// rwLaplacian compares NewRandomWalkLaplacian(g, 1/4) with the entries of
// (1-damp)(I - D^-1 A) as documented, or with its transpose (the
// column-stochastic convention, which is what the diffusion routines need);
// which of the two legal readings was met is counted, neither fails.
func (k *checker) rwLaplacian(g graph.Graph) {
	c := k.b.c
	var l spectral.Laplacian
	if !k.call("NewRandomWalkLaplacian", func() { l = spectral.NewRandomWalkLaplacian(g, 0.25) }) {
		return
	}
	if len(l.Index) != c.N {
		k.fail("NewRandomWalkLaplacian", "index", "wrong index size")
		return
	}
	doc, tr := true, true
	for i := 1; i <= c.N; i++ {
		for j := 1; j <= c.N; j++ {
			got := l.At(l.Index[k.b.id(int64(i))], l.Index[k.b.id(int64(j))])
			if !near(got, rat(c.Rwlap[i-1][j-1][0], c.Rwlap[i-1][j-1][1]), relTol) {
				doc = false
			}
			if !near(got, rat(c.Rwlap[j-1][i-1][0], c.Rwlap[j-1][i-1][1]), relTol) {
				tr = false
			}
		}
	}
	switch {
	case doc && tr:
		k.sum.Count("rwlap_symmetric", 1)
	case doc:
		k.sum.Count("rwlap_row_convention", 1)
	case tr:
		k.sum.Count("rwlap_column_convention", 1)
	default:
		k.fail("NewRandomWalkLaplacian", "entry", "matches neither (1-damp)(I-D^-1 A) nor its transpose")
	}
}

func replayNetwork(in *core.Lines, args []string, seed int64, sum *core.Summary) error {
	base := []int64{10, 3, 7, 25, 4, 0, 18}
	for {
		line, ok := in.Next()
		if !ok {
			break
		}
		var c netCase
		if err := json.Unmarshal(line, &c); err != nil {
			return fmt.Errorf("line %d: %v", in.N, err)
		}
		if c.K != "net" {
			continue
		}
		c.Raw = append(json.RawMessage(nil), line...)
		ids := make([]int64, c.N)
		for i := range ids {
			ids[i] = base[(i+int(seed)+in.N)%len(base)]
		}
		b := &builder{c: &c, ids: ids}
		sum.Cases++
		if len(c.Edges) > 0 {
			sum.Nontrivial++
		}
		var kinds []bool
		if c.Wtd {
			kinds = []bool{true}
		} else {
			kinds = []bool{false, true}
		}
		for _, wt := range kinds {
			g := b.build(wt)
			k := &checker{b: b, sum: sum, kind: strings.TrimPrefix(fmt.Sprintf("%T", g), "*")}
			// shortest path sources
			var dj, fw path.AllShortest
			okDj := k.call("DijkstraAllPaths", func() { dj = path.DijkstraAllPaths(g) })
			okFw := k.call("FloydWarshall", func() { fw, _ = path.FloydWarshall(g) })
			if okDj {
				k.distances("DijkstraAllPaths", dj)
				k.distanceMeasures(g, "dijkstra", dj)
			}
			if okFw {
				k.distances("FloydWarshall", fw)
				k.distanceMeasures(g, "floyd", fw)
			}
			if wt {
				hb := &builder{c: b.c, ids: b.ids, half: true}
				hg := hb.build(true)
				hk := &checker{b: hb, sum: sum, kind: k.kind}
				var hdj, hfw path.AllShortest
				if hk.call("DijkstraAllPaths", func() { hdj = path.DijkstraAllPaths(hg) }) {
					hk.halvedMeasures(hg, "dijkstra", hdj)
				}
				if hk.call("FloydWarshall", func() { hfw, _ = path.FloydWarshall(hg) }) {
					hk.halvedMeasures(hg, "floyd", hfw)
				}
				sum.Count("half_weight_graphs", 1)
			}
			if !wt {
				var m map[int64]float64
				if k.call("Betweenness", func() { m = network.Betweenness(g) }) {
					k.nodeMap("Betweenness", m, c.Bet, true)
				}
				var em map[[2]int64]float64
				if k.call("EdgeBetweenness", func() { em = network.EdgeBetweenness(g) }) {
					k.edgeMap("EdgeBetweenness", em)
				}
			} else {
				wg := g.(graph.Weighted)
				for _, s := range []struct {
					n  string
					ok bool
					p  path.AllShortest
				}{{"dijkstra", okDj, dj}, {"floyd", okFw, fw}} {
					if !s.ok {
						continue
					}
					var m map[int64]float64
					if k.call("BetweennessWeighted", func() { m = network.BetweennessWeighted(wg, s.p) }) {
						k.nodeMap("BetweennessWeighted/"+s.n, m, c.Bet, true)
					}
					var em map[[2]int64]float64
					if k.call("EdgeBetweennessWeighted", func() { em = network.EdgeBetweennessWeighted(wg, s.p) }) {
						k.edgeMap("EdgeBetweennessWeighted/"+s.n, em)
					}
				}
			}
			if c.Dir {
				k.pageRank(g.(graph.Directed))
				if c.Hits != nil {
					k.hits(g.(graph.Directed))
				}
			} else {
				k.laplacians(g.(graph.Undirected))
				if c.Diff != nil {
					k.diffusion(g.(graph.Undirected))
				}
			}
			k.rwLaplacian(g)
			if !k.bad && wt == c.Wtd {
				sum.Sample(map[string]any{"n": c.N, "dir": c.Dir, "edges": c.Edges, "bet": c.Bet, "ids": ids})
			}
		}
	}
	return nil
}
