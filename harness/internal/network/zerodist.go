package network

import (
	"encoding/json"
	"fmt"
	"math"
	"strings"

	"gonum.org/v1/gonum/graph"
	"gonum.org/v1/gonum/graph/network"
	"gonum.org/v1/gonum/graph/path"

	"gonum.org/v1/gonum/verifharness/internal/core"
)

// Binding of specs/network/ZeroDist.tla: the distance-based measures of
// graph/network on weighted graphs whose edge weights include 0, for every
// all-pairs shortest path source the package offers. Every expected number
// (and "this harmonic centrality has a 1/0 term") is read from the record.

func init() {
	core.RegisterReplay("network-zero", replayZeroDist)
}

type zdCase struct {
	K      string     `json:"k"`
	N      int        `json:"n"`
	Dir    bool       `json:"dir"`
	Edges  [][3]int64 `json:"edges"`
	Zero   bool       `json:"zero"` // some pair of distinct nodes is at distance 0
	Dist   [][]int64  `json:"dist"`
	Bet    [][2]int64 `json:"bet"`
	Ebet   [][4]int64 `json:"ebet"`
	Far    []int64    `json:"far"`
	Ecc    []int64    `json:"ecc"`
	Har    [][2]int64 `json:"har"`    // finite part of H(v)
	HarInf []int64    `json:"harinf"` // number of terms 1/0 of H(v): H(v) = +Inf iff > 0
	Res    [][2]int64 `json:"res"`
}

func (k *checker) zeroMeasures(g graph.Weighted, z *zdCase, src string, p path.AllShortest) {
	c := k.b.c
	var m map[int64]float64
	if k.call("Farness", func() { m = network.Farness(g, p) }) {
		k.nodeMap("Farness/zero-weights/"+src, m, ints2rats(c.Far), false)
	}
	if k.call("Eccentricity", func() { m = network.Eccentricity(g, p) }) {
		k.nodeMap("Eccentricity/zero-weights/"+src, m, ints2rats(c.Ecc), false)
	}
	if k.call("Residual", func() { m = network.Residual(g, p) }) {
		k.nodeMap("Residual/zero-weights/"+src, m, c.Res, false)
	}
	if k.call("Harmonic", func() { m = network.Harmonic(g, p) }) {
		if len(m) != c.N {
			k.fail("Harmonic/zero-weights/"+src, "keys", fmt.Sprintf("%d keys for %d nodes", len(m), c.N))
		}
		for i := 1; i <= c.N; i++ {
			id := k.b.id(int64(i))
			got, ok := m[id]
			switch {
			case !ok:
				k.fail("Harmonic/zero-weights/"+src, "value", fmt.Sprintf("node %d (model %d) missing", id, i))
			case z.HarInf[i-1] > 0:
				// a distinct node at distance 0: the sum has a term 1/0 and only non-negative terms
				k.sum.Count("harmonic_infinite_expected", 1)
				if !math.IsInf(got, 1) {
					k.fail("Harmonic/zero-weights/"+src, "value", fmt.Sprintf("node %d (model %d): got %v, the definition has %d term(s) 1/d(u,v) with u != v and d(u,v) = 0 (+Inf)", id, i, got, z.HarInf[i-1]))
				}
			default:
				if w := rat(z.Har[i-1][0], z.Har[i-1][1]); !near(got, w, relTol) {
					k.fail("Harmonic/zero-weights/"+src, "value", fmt.Sprintf("node %d (model %d): got %v want %s", id, i, got, w.RatString()))
				}
			}
		}
	}
	if k.call("Closeness", func() { m = network.Closeness(g, p) }) {
		for i := 1; i <= c.N; i++ {
			id := k.b.id(int64(i))
			got, ok := m[id]
			if c.Far[i-1] == 0 {
				// 1/0 by the formula (no other node reaches v, or all of them at distance 0): left open
				k.sum.Count("closeness_undefined_skipped", 1)
				continue
			}
			if !ok || !near(got, rat(1, c.Far[i-1]), relTol) {
				k.fail("Closeness/zero-weights/"+src, "value", fmt.Sprintf("node %d (model %d): got %v (present=%v) want 1/%d", id, i, got, ok, c.Far[i-1]))
			}
		}
	}
	if k.call("BetweennessWeighted", func() { m = network.BetweennessWeighted(g, p) }) {
		k.nodeMap("BetweennessWeighted/zero-weights/"+src, m, c.Bet, true)
	}
	var em map[[2]int64]float64
	if k.call("EdgeBetweennessWeighted", func() { em = network.EdgeBetweennessWeighted(g, p) }) {
		k.edgeMap("EdgeBetweennessWeighted/zero-weights/"+src, em)
	}
}

func replayZeroDist(in *core.Lines, args []string, seed int64, sum *core.Summary) error {
	base := []int64{10, 3, 7, 25, 4, 0, 18}
	for {
		line, ok := in.Next()
		if !ok {
			break
		}
		var z zdCase
		if err := json.Unmarshal(line, &z); err != nil {
			return fmt.Errorf("line %d: %v", in.N, err)
		}
		if z.K != "zdist" {
			continue
		}
		if len(z.HarInf) != z.N || len(z.Har) != z.N || len(z.Res) != z.N || len(z.Far) != z.N || len(z.Ecc) != z.N || len(z.Bet) != z.N || len(z.Dist) != z.N {
			return fmt.Errorf("line %d: malformed record", in.N)
		}
		c := netCase{K: "zdist", N: z.N, Dir: z.Dir, Wtd: true, Edges: z.Edges, Dist: z.Dist, Bet: z.Bet, Ebet: z.Ebet,
			Far: z.Far, Ecc: z.Ecc, Res: z.Res, Raw: append(json.RawMessage(nil), line...)}
		ids := make([]int64, c.N)
		for i := range ids {
			ids[i] = base[(i+int(seed)+in.N)%len(base)]
		}
		b := &builder{c: &c, ids: ids}
		sum.Cases++ // one case = one graph, all measures, every shortest path source
		if z.Zero {
			sum.Nontrivial++ // some distinct pair at distance 0
		}
		g := b.build(true)
		k := &checker{b: b, sum: sum, kind: strings.TrimPrefix(fmt.Sprintf("%T", g), "*")}
		wg := g.(graph.Weighted)
		var dj, fw, jo path.AllShortest
		var okFwNeg, okJoNeg bool
		if k.call("DijkstraAllPaths", func() { dj = path.DijkstraAllPaths(g) }) {
			k.distances("DijkstraAllPaths/zero-weights", dj)
			k.zeroMeasures(wg, &z, "dijkstra", dj)
		}
		if k.call("FloydWarshall", func() { fw, okFwNeg = path.FloydWarshall(g) }) {
			if !okFwNeg {
				k.fail("FloydWarshall/zero-weights", "negative-cycle", "reported a negative cycle on non-negative weights")
			}
			k.distances("FloydWarshall/zero-weights", fw)
			k.zeroMeasures(wg, &z, "floyd", fw)
		}
		if k.call("JohnsonAllPaths", func() { jo, okJoNeg = path.JohnsonAllPaths(g) }) {
			if !okJoNeg {
				k.fail("JohnsonAllPaths/zero-weights", "negative-cycle", "reported a negative cycle on non-negative weights")
			}
			k.distances("JohnsonAllPaths/zero-weights", jo)
			k.zeroMeasures(wg, &z, "johnson", jo)
		}
		if !k.bad && z.Zero && in.N%97 == 1 {
			sum.Sample(map[string]any{"n": c.N, "dir": c.Dir, "edges": c.Edges, "harinf": z.HarInf, "res": z.Res, "ids": ids})
		}
	}
	return nil
}
