package network

import (
	"encoding/json"
	"fmt"
	"math/rand/v2"
	"strings"
	"time"

	"gonum.org/v1/gonum/graph"
	"gonum.org/v1/gonum/graph/community"
	"gonum.org/v1/gonum/graph/simple"

	"gonum.org/v1/gonum/verifharness/internal/core"
)

func init() {
	core.RegisterReplay("community-qm", replayQM)
}

type qmRec struct {
	C []int64     `json:"c"` // label of model node i
	W [2]int64    `json:"w"` // layer weights
	G [2][2]int64 `json:"g"` // per-layer resolution
	Q [2][2]int64 `json:"q"` // exact per-layer score
}

// qmContract: QMultiplex must panic iff some edge weight times its layer weight is negative.
type qmContract struct {
	W     [2]int64 `json:"w"`
	Neg2  bool     `json:"neg2"` // layer 2 is built with negated weights
	Panic bool     `json:"panic"`
}

// qmLengths: vector lengths handed to QMultiplex / ModularizeMultiplex (0 = nil) on a 2-layer graph.
type qmLengths struct {
	NW    int  `json:"nw"`
	NG    int  `json:"ng"`
	Panic bool `json:"panic"`
}

// qmNodeSet: the node set of a second layer relative to the first, and whether New*Layers must object.
type qmNodeSet struct {
	Extra int  `json:"extra"`
	Drop  int  `json:"drop"`
	Err   bool `json:"err"`
}

func ones(n int) []float64 {
	if n == 0 {
		return nil
	}
	v := make([]float64, n)
	for i := range v {
		v[i] = 1
	}
	return v
}

func copiesOf(dir bool, g graph.Graph, k int) (community.Multiplex, error) {
	if dir {
		gs := make([]graph.Directed, k)
		for i := range gs {
			gs[i] = g.(graph.Directed)
		}
		return community.NewDirectedLayers(gs...)
	}
	gs := make([]graph.Undirected, k)
	for i := range gs {
		gs[i] = g.(graph.Undirected)
	}
	return community.NewUndirectedLayers(gs...)
}

type qmCase struct {
	K        string       `json:"k"`
	N        int          `json:"n"`
	Dir      bool         `json:"dir"`
	Wtd      bool         `json:"wtd"`
	L1       [][3]int64   `json:"l1"`
	L2       [][3]int64   `json:"l2"`
	Qs       []qmRec      `json:"qs"`
	Contract []qmContract `json:"contract"`
	Lengths  []qmLengths  `json:"lengths"`
	NodeSets []qmNodeSet  `json:"nodesets"`
	Depths   []int        `json:"depths"`
}

func newLayers(dir bool, g1, g2 graph.Graph) (community.Multiplex, error) {
	if dir {
		return community.NewDirectedLayers(g1.(graph.Directed), g2.(graph.Directed))
	}
	return community.NewUndirectedLayers(g1.(graph.Undirected), g2.(graph.Undirected))
}

// replayQM: community.QMultiplex on every partition x layer weights x
// resolutions the specification printed, in every documented calling form
// (explicit vectors, nil weights for equal weighting, single-element and nil
// resolutions where they mean the same thing).
func replayQM(in *core.Lines, args []string, seed int64, sum *core.Summary) error {
	base := []int64{10, 3, 7, 25, 4, 0, 18}
	for {
		line, ok := in.Next()
		if !ok {
			break
		}
		var c qmCase
		if err := json.Unmarshal(line, &c); err != nil {
			return fmt.Errorf("line %d: %v", in.N, err)
		}
		if c.K != "qm" {
			continue
		}
		raw := append(json.RawMessage(nil), line...)
		ids := make([]int64, c.N)
		for i := range ids {
			ids[i] = base[(i+int(seed)+in.N)%len(base)]
		}
		kinds := []bool{true}
		if !c.Wtd {
			kinds = []bool{false, true}
		}
		for _, wt := range kinds {
			b1 := &builder{c: &netCase{N: c.N, Dir: c.Dir, Wtd: c.Wtd, Edges: c.L1}, ids: ids}
			b2 := &builder{c: &netCase{N: c.N, Dir: c.Dir, Wtd: c.Wtd, Edges: c.L2}, ids: ids}
			g1, g2 := b1.build(wt), b2.build(wt)
			mg, err := newLayers(c.Dir, g1, g2)
			// layer 2 with every weight negated, for a negative layer weight (an unweighted
			// container has unit weights whatever the sign of the layer weight)
			mgNeg := mg
			if wt && err == nil {
				b2n := &builder{c: b2.c, ids: ids, neg: true}
				mgNeg, err = newLayers(c.Dir, g1, b2n.build(true))
			}
			kind := strings.TrimPrefix(fmt.Sprintf("%T", g1), "*")
			if err != nil {
				sum.Fail("community:NewLayers:error", fmt.Sprintf("[%s] %v for two layers on the same node set %v", kind, err, ids), raw)
				continue
			}
			// argument lengths: every combination the documentation does not allow must be refused
			for _, ln := range c.Lengths {
				ws, gs := ones(ln.NW), ones(ln.NG)
				o := core.Call(func() { community.QMultiplex(mg, nil, ws, gs) })
				sum.Count("multiplex_length_contract_calls", 1)
				if o.Panicked != ln.Panic {
					sum.Fail("community:QMultiplex:length-contract", fmt.Sprintf("[%s] 2 layers, len(weights)=%d len(resolutions)=%d (0 = nil): panic expected %v, got %v %s", kind, ln.NW, ln.NG, ln.Panic, o.Panicked, o.Text), raw)
				}
				if ln.Panic {
					o := core.CallTimeout(20*time.Second, func() { community.ModularizeMultiplex(mg, ws, gs, false, rand.NewPCG(uint64(seed), 3)) })
					sum.Count("multiplex_length_contract_calls", 1)
					if !o.Panicked {
						sum.Fail("community:ModularizeMultiplex:length-contract", fmt.Sprintf("[%s] 2 layers, len(weights)=%d len(resolutions)=%d (0 = nil) was not refused %s", kind, ln.NW, ln.NG, o.Text), raw)
					}
				}
			}
			// layers must be on the same node ids; k copies of one layer have depth k
			for _, ns := range c.NodeSets {
				var ids2 []int64
				for i := ns.Drop; i < c.N; i++ {
					ids2 = append(ids2, ids[i])
				}
				for j := 0; j < ns.Extra; j++ {
					ids2 = append(ids2, int64(900+j))
				}
				gx := (&builder{c: &netCase{N: len(ids2), Dir: c.Dir, Wtd: c.Wtd}, ids: ids2}).build(wt)
				var e2 error
				o := core.Call(func() { _, e2 = newLayers(c.Dir, g1, gx) })
				sum.Count("newlayers_calls", 1)
				if o.Panicked || (e2 != nil) != ns.Err {
					sum.Fail("community:NewLayers:id-match", fmt.Sprintf("[%s] first layer on ids %v, second on %v: error expected %v, got %v %s", kind, ids, ids2, ns.Err, e2, o.Text), raw)
				}
			}
			for _, k := range c.Depths {
				var m community.Multiplex
				var e2 error
				depth, nn := -1, -1
				o := core.Call(func() {
					m, e2 = copiesOf(c.Dir, g1, k)
					depth = m.Depth()
					if it := m.Nodes(); it != nil {
						nn = len(graph.NodesOf(it))
					}
				})
				sum.Count("newlayers_calls", 1)
				if o.Panicked || e2 != nil || depth != k || (k > 0 && nn != c.N) {
					sum.Fail("community:NewLayers:depth", fmt.Sprintf("[%s] %d copies of one layer on %d nodes: err=%v Depth()=%d, %d nodes %s", kind, k, c.N, e2, depth, nn, o.Text), raw)
				}
			}
			if wt {
				for _, ct := range c.Contract {
					m := mg
					if ct.Neg2 {
						m = mgNeg
					}
					ws := []float64{float64(ct.W[0]), float64(ct.W[1])}
					o := core.Call(func() { community.QMultiplex(m, nil, ws, nil) })
					sum.Count("qmultiplex_sign_contract_calls", 1)
					if o.Panicked != ct.Panic || o.Runtime {
						sum.Fail("community:QMultiplex:sign-contract", fmt.Sprintf("[%s] layer weights %v, layer 2 weights negated=%v: panic expected %v, got %v %s; l1=%v l2=%v", kind, ws, ct.Neg2, ct.Panic, o.Panicked, o.Text, c.L1, c.L2), raw)
					}
				}
			}
			for _, q := range c.Qs {
				byLabel := map[int64][]graph.Node{}
				var labels []int64
				single := true
				for i, l := range q.C {
					if _, ok := byLabel[l]; !ok {
						labels = append(labels, l)
					}
					byLabel[l] = append(byLabel[l], simple.Node(ids[i]))
					if l != int64(i+1) {
						single = false
					}
				}
				comms := make([][]graph.Node, 0, len(labels))
				for _, l := range labels {
					comms = append(comms, byLabel[l])
				}
				sum.Cases++ // one case = one (layer pair, container, partition, weights, resolutions) evaluation
				if len(labels) > 1 && len(labels) < c.N {
					sum.Nontrivial++
				}
				ws := []float64{float64(q.W[0]), float64(q.W[1])}
				gs := []float64{float64(q.G[0][0]) / float64(q.G[0][1]), float64(q.G[1][0]) / float64(q.G[1][1])}
				type form struct {
					name string
					w, g []float64
					comm [][]graph.Node
				}
				forms := []form{{"explicit", ws, gs, comms}}
				if q.W[0] == 1 && q.W[1] == 1 {
					forms = append(forms, form{"nil-weights", nil, gs, comms})
				}
				if gs[0] == gs[1] {
					forms = append(forms, form{"single-resolution", ws, gs[:1], comms})
					if gs[0] == 1 {
						forms = append(forms, form{"nil-resolutions", ws, nil, comms})
					}
				}
				if single {
					forms = append(forms, form{"nil-communities", ws, gs, nil})
				}
				use := mg
				if q.W[1] < 0 {
					use = mgNeg
					sum.Count("qmultiplex_negative_layer_weight_cases", 1)
				}
				for _, f := range forms {
					var got []float64
					o := core.Call(func() { got = community.QMultiplex(use, f.comm, f.w, f.g) })
					sum.Count("qmultiplex_calls", 1)
					if o.Panicked {
						sum.Fail("community:QMultiplex:panic", fmt.Sprintf("[%s/%s] %s; l1=%v l2=%v labels=%v w=%v g=%v", kind, f.name, o.Text, c.L1, c.L2, q.C, f.w, f.g), raw)
						continue
					}
					if len(got) != 2 {
						sum.Fail("community:QMultiplex:length", fmt.Sprintf("[%s/%s] %d scores for 2 layers", kind, f.name, len(got)), raw)
						continue
					}
					for l := 0; l < 2; l++ {
						want := rat(q.Q[l][0], q.Q[l][1])
						if !near(got[l], want, relTol) {
							sum.Fail("community:QMultiplex:value", fmt.Sprintf("[%s/%s] layer %d: Q=%v want %s; n=%d l1=%v l2=%v labels=%v w=%v g=%v ids=%v", kind, f.name, l, got[l], want.RatString(), c.N, c.L1, c.L2, q.C, q.W, q.G, ids), raw)
						}
					}
				}
			}
		}
		if len(c.Qs) > 5 {
			sum.Sample(map[string]any{"n": c.N, "dir": c.Dir, "l1": c.L1, "l2": c.L2, "q": c.Qs[5]})
		}
	}
	return nil
}
