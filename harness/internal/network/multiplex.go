package network

import (
	"encoding/json"
	"fmt"
	"strings"

	"gonum.org/v1/gonum/graph"
	"gonum.org/v1/gonum/graph/community"
	"gonum.org/v1/gonum/graph/simple"

	"gonum.org/v1/gonum/verifharness/internal/core"
)

func init() {
	core.RegisterReplay("community-qm", replayQM)
}

type qmRec struct {
	C []int64     `json:"c"` // label of model node i
	W [2]int64    `json:"w"` // layer weights
	G [2][2]int64 `json:"g"` // per-layer resolution
	Q [2][2]int64 `json:"q"` // exact per-layer score
}

type qmCase struct {
	K   string     `json:"k"`
	N   int        `json:"n"`
	Dir bool       `json:"dir"`
	Wtd bool       `json:"wtd"`
	L1  [][3]int64 `json:"l1"`
	L2  [][3]int64 `json:"l2"`
	Qs  []qmRec    `json:"qs"`
}

// replayQM: community.QMultiplex on every partition x layer weights x
// resolutions the specification printed, in every documented calling form
// (explicit vectors, nil weights for equal weighting, single-element and nil
// resolutions where they mean the same thing).
func replayQM(in *core.Lines, args []string, seed int64, sum *core.Summary) error {
	base := []int64{10, 3, 7, 25, 4, 0, 18}
	for {
		line, ok := in.Next()
		if !ok {
			break
		}
		var c qmCase
		if err := json.Unmarshal(line, &c); err != nil {
			return fmt.Errorf("line %d: %v", in.N, err)
		}
		if c.K != "qm" {
			continue
		}
		raw := append(json.RawMessage(nil), line...)
		ids := make([]int64, c.N)
		for i := range ids {
			ids[i] = base[(i+int(seed)+in.N)%len(base)]
		}
		kinds := []bool{true}
		if !c.Wtd {
			kinds = []bool{false, true}
		}
		for _, wt := range kinds {
			b1 := &builder{c: &netCase{N: c.N, Dir: c.Dir, Wtd: c.Wtd, Edges: c.L1}, ids: ids}
			b2 := &builder{c: &netCase{N: c.N, Dir: c.Dir, Wtd: c.Wtd, Edges: c.L2}, ids: ids}
			g1, g2 := b1.build(wt), b2.build(wt)
			var mg community.Multiplex
			var err error
			if c.Dir {
				mg, err = community.NewDirectedLayers(g1.(graph.Directed), g2.(graph.Directed))
			} else {
				mg, err = community.NewUndirectedLayers(g1.(graph.Undirected), g2.(graph.Undirected))
			}
			kind := strings.TrimPrefix(fmt.Sprintf("%T", g1), "*")
			if err != nil {
				sum.Fail("community:NewLayers:error", fmt.Sprintf("[%s] %v for two layers on the same node set %v", kind, err, ids), raw)
				continue
			}
			for _, q := range c.Qs {
				byLabel := map[int64][]graph.Node{}
				var labels []int64
				single := true
				for i, l := range q.C {
					if _, ok := byLabel[l]; !ok {
						labels = append(labels, l)
					}
					byLabel[l] = append(byLabel[l], simple.Node(ids[i]))
					if l != int64(i+1) {
						single = false
					}
				}
				comms := make([][]graph.Node, 0, len(labels))
				for _, l := range labels {
					comms = append(comms, byLabel[l])
				}
				sum.Cases++ // one case = one (layer pair, container, partition, weights, resolutions) evaluation
				if len(labels) > 1 && len(labels) < c.N {
					sum.Nontrivial++
				}
				ws := []float64{float64(q.W[0]), float64(q.W[1])}
				gs := []float64{float64(q.G[0][0]) / float64(q.G[0][1]), float64(q.G[1][0]) / float64(q.G[1][1])}
				type form struct {
					name string
					w, g []float64
					comm [][]graph.Node
				}
				forms := []form{{"explicit", ws, gs, comms}}
				if q.W[0] == 1 && q.W[1] == 1 {
					forms = append(forms, form{"nil-weights", nil, gs, comms})
				}
				if gs[0] == gs[1] {
					forms = append(forms, form{"single-resolution", ws, gs[:1], comms})
					if gs[0] == 1 {
						forms = append(forms, form{"nil-resolutions", ws, nil, comms})
					}
				}
				if single {
					forms = append(forms, form{"nil-communities", ws, gs, nil})
				}
				for _, f := range forms {
					var got []float64
					o := core.Call(func() { got = community.QMultiplex(mg, f.comm, f.w, f.g) })
					sum.Count("qmultiplex_calls", 1)
					if o.Panicked {
						sum.Fail("community:QMultiplex:panic", fmt.Sprintf("[%s/%s] %s; l1=%v l2=%v labels=%v w=%v g=%v", kind, f.name, o.Text, c.L1, c.L2, q.C, f.w, f.g), raw)
						continue
					}
					if len(got) != 2 {
						sum.Fail("community:QMultiplex:length", fmt.Sprintf("[%s/%s] %d scores for 2 layers", kind, f.name, len(got)), raw)
						continue
					}
					for l := 0; l < 2; l++ {
						want := rat(q.Q[l][0], q.Q[l][1])
						if !near(got[l], want, relTol) {
							sum.Fail("community:QMultiplex:value", fmt.Sprintf("[%s/%s] layer %d: Q=%v want %s; n=%d l1=%v l2=%v labels=%v w=%v g=%v ids=%v", kind, f.name, l, got[l], want.RatString(), c.N, c.L1, c.L2, q.C, q.W, q.G, ids), raw)
						}
					}
				}
			}
		}
		if len(c.Qs) > 5 {
			sum.Sample(map[string]any{"n": c.N, "dir": c.Dir, "l1": c.L1, "l2": c.L2, "q": c.Qs[5]})
		}
	}
	return nil
}
