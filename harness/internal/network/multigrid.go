package network

import (
	"encoding/json"
	"fmt"
	"math"
	"math/rand/v2"
	"strings"
	"time"

	"gonum.org/v1/gonum/graph"
	"gonum.org/v1/gonum/graph/community"
	"gonum.org/v1/gonum/graph/simple"

	"gonum.org/v1/gonum/verifharness/internal/core"
)

// Binding of specs/network/MultiplexGrid.tla: community.QMultiplex on 2- and
// 3-layer graphs for every partition and every documented form of the weights
// and resolutions arguments. The record states the arguments of each call
// (empty array = nil) and the vector that must come back; this driver passes
// exactly those arguments and compares. How a nil / single-element / per-layer
// argument is read is stated by the specification (EffW, EffG), not here.

func init() {
	core.RegisterReplay("community-qmg", replayQMG)
}

type qmgQ struct {
	C    []int64    `json:"c"`    // label of model node i
	NilC bool       `json:"nilc"` // the same vector must come back for communities = nil
	Q    [][2]int64 `json:"q"`    // per layer; denominator 0 = the formula is 0/0 (edgeless layer)
	Adm  bool       `json:"adm"`  // ModularizeMultiplex may report this partition as its top level
}

type qmgCall struct {
	W   []int64    `json:"w"`   // layer weights, empty = nil
	G   [][2]int64 `json:"g"`   // resolutions, empty = nil, one element = global
	Neg []bool     `json:"neg"` // layers that hold non-positive edge weights in this call
	Qs  []qmgQ     `json:"qs"`
}

type qmgCase struct {
	K      string       `json:"k"`
	N      int          `json:"n"`
	Depth  int          `json:"depth"`
	Dir    bool         `json:"dir"`
	Wtd    bool         `json:"wtd"`
	Layers [][][3]int64 `json:"layers"`
	Calls  []qmgCall    `json:"calls"`
}

func layersOf(dir bool, gs []graph.Graph) (community.Multiplex, error) {
	if dir {
		ls := make([]graph.Directed, len(gs))
		for i, g := range gs {
			ls[i] = g.(graph.Directed)
		}
		return community.NewDirectedLayers(ls...)
	}
	ls := make([]graph.Undirected, len(gs))
	for i, g := range gs {
		ls[i] = g.(graph.Undirected)
	}
	return community.NewUndirectedLayers(ls...)
}

func replayQMG(in *core.Lines, args []string, seed int64, sum *core.Summary) error {
	base := []int64{10, 3, 7, 25, 4, 0, 18}
	for {
		line, ok := in.Next()
		if !ok {
			break
		}
		var c qmgCase
		if err := json.Unmarshal(line, &c); err != nil {
			return fmt.Errorf("line %d: %v", in.N, err)
		}
		if c.K != "qmg" {
			continue
		}
		if len(c.Layers) != c.Depth {
			return fmt.Errorf("line %d: %d layers for depth %d", in.N, len(c.Layers), c.Depth)
		}
		ids := make([]int64, c.N)
		for i := range ids {
			ids[i] = base[(i+int(seed)+in.N)%len(base)]
		}
		kinds := []bool{true}
		if !c.Wtd {
			kinds = []bool{false, true}
		}
		sampled := false
		for _, wt := range kinds {
			// the two versions of every layer: as printed, and with every weight negated
			// (an unweighted container has unit weights whatever the sign of the layer weight)
			pos := make([]graph.Graph, c.Depth)
			neg := make([]graph.Graph, c.Depth)
			for l := range pos {
				nc := &netCase{N: c.N, Dir: c.Dir, Wtd: c.Wtd, Edges: c.Layers[l]}
				pos[l] = (&builder{c: nc, ids: ids}).build(wt)
				neg[l] = pos[l]
				if wt {
					neg[l] = (&builder{c: nc, ids: ids, neg: true}).build(true)
				}
			}
			kind := strings.TrimPrefix(fmt.Sprintf("%T", pos[0]), "*")
			graphs := map[string]community.Multiplex{}
			for _, call := range c.Calls {
				// a failure is reported with a record reduced to the failing call and partition
				one := func(q qmgQ) json.RawMessage {
					r := c
					cc := call
					cc.Qs = []qmgQ{q}
					r.Calls = []qmgCall{cc}
					b, _ := json.Marshal(r)
					return b
				}
				if len(call.Neg) != c.Depth {
					return fmt.Errorf("line %d: neg has %d entries", in.N, len(call.Neg))
				}
				key := fmt.Sprint(call.Neg)
				mg, ok := graphs[key]
				if !ok {
					gs := make([]graph.Graph, c.Depth)
					for l := range gs {
						gs[l] = pos[l]
						if call.Neg[l] {
							gs[l] = neg[l]
						}
					}
					var err error
					mg, err = layersOf(c.Dir, gs)
					if err != nil {
						sum.Fail("community:NewLayers:error", fmt.Sprintf("[%s] %v for %d layers on the same node set %v", kind, err, c.Depth, ids), json.RawMessage(line))
						break
					}
					graphs[key] = mg
				}
				var ws, gs []float64 // nil unless the record lists values
				for _, w := range call.W {
					ws = append(ws, float64(w))
				}
				for _, g := range call.G {
					gs = append(gs, float64(g[0])/float64(g[1]))
				}
				for _, q := range call.Qs {
					byLabel := map[int64][]graph.Node{}
					var labels []int64
					for i, l := range q.C {
						if _, ok := byLabel[l]; !ok {
							labels = append(labels, l)
						}
						byLabel[l] = append(byLabel[l], simple.Node(ids[i]))
					}
					comms := make([][]graph.Node, 0, len(labels))
					for _, l := range labels {
						comms = append(comms, byLabel[l])
					}
					sum.Cases++ // one case = one (multiplex, container, weights form, resolutions form, partition)
					if len(labels) > 1 && len(labels) < c.N {
						sum.Nontrivial++
					}
					forms := []struct {
						name string
						comm [][]graph.Node
					}{{"communities", comms}}
					if q.NilC {
						forms = append(forms, struct {
							name string
							comm [][]graph.Node
						}{"nil-communities", nil})
					}
					for _, f := range forms {
						var got []float64
						o := core.Call(func() { got = community.QMultiplex(mg, f.comm, ws, gs) })
						sum.Count("qmultiplex_grid_calls", 1)
						desc := fmt.Sprintf("n=%d layers=%v (negated %v) labels=%v weights=%v resolutions=%v ids=%v", c.N, c.Layers, call.Neg, q.C, ws, gs, ids)
						if o.Panicked {
							sum.Fail("community:QMultiplex:grid:panic", fmt.Sprintf("[%s/%s] %s; %s", kind, f.name, o.Text, desc), one(q))
							continue
						}
						if len(got) != c.Depth {
							sum.Fail("community:QMultiplex:grid:length", fmt.Sprintf("[%s/%s] %d scores for %d layers; %s", kind, f.name, len(got), c.Depth, desc), one(q))
							continue
						}
						for l := 0; l < c.Depth; l++ {
							if q.Q[l][1] == 0 {
								// edgeless layer: 0/0 by the formula, nothing is promised
								sum.Count("qmultiplex_grid_undefined_edgeless_layer", 1)
								continue
							}
							want := rat(q.Q[l][0], q.Q[l][1])
							if math.IsNaN(got[l]) || !near(got[l], want, relTol) {
								sum.Fail("community:QMultiplex:grid:value", fmt.Sprintf("[%s/%s] layer %d: Q=%v want %s; %s", kind, f.name, l, got[l], want.RatString(), desc), one(q))
							}
						}
					}
					if len(call.W) > 0 && call.W[0] == 0 && len(call.G) == 1 && call.G[0] != [2]int64{1, 1} {
						sum.Count("qmultiplex_grid_zero_first_weight_global_resolution", 1)
					}
				}
				// ModularizeMultiplex with the same arguments, both values of the all flag: it must return,
				// and the communities of its top level must be a partition the record lists as admissible
				for _, all := range []bool{false, true} {
					var top community.ReducedMultiplex
					var comm [][]graph.Node
					s1, s2 := uint64(seed)*7919+uint64(in.N), uint64(len(call.W)*8+len(call.G))
					o := core.CallTimeout(20*time.Second, func() {
						top = community.ModularizeMultiplex(mg, ws, gs, all, rand.NewPCG(s1, s2))
						comm = top.Communities()
					})
					sum.Count("modularizemultiplex_grid_calls", 1)
					desc := fmt.Sprintf("ModularizeMultiplex(%d layers, weights=%v, resolutions=%v, all=%v, PCG(%d,%d)) n=%d layers=%v (negated %v) ids=%v", c.Depth, ws, gs, all, s1, s2, c.N, c.Layers, call.Neg, ids)
					if o.Hung || o.Panicked {
						what := map[bool]string{true: "hang", false: "panic"}[o.Hung]
						sum.Fail("community:ModularizeMultiplex:grid:"+what, fmt.Sprintf("[%s] %s; %s", kind, o.Text, desc), one(call.Qs[0]))
						continue
					}
					// project the answer onto a labeling of the model nodes (first appearance order)
					where := map[int64]int{}
					for ci, cm := range comm {
						for _, nd := range cm {
							if _, dup := where[nd.ID()]; dup {
								where[nd.ID()] = -1
							} else {
								where[nd.ID()] = ci
							}
						}
					}
					lab := make([]int64, c.N)
					seen := map[int]int64{}
					okPart := len(where) == c.N
					for i := 0; i < c.N && okPart; i++ {
						ci, ok := where[ids[i]]
						if !ok || ci < 0 {
							okPart = false
							break
						}
						if _, ok := seen[ci]; !ok {
							seen[ci] = int64(len(seen) + 1)
						}
						lab[i] = seen[ci]
					}
					var hit *qmgQ
					for qi := range call.Qs {
						if okPart && fmt.Sprint(call.Qs[qi].C) == fmt.Sprint(lab) {
							hit = &call.Qs[qi]
						}
					}
					switch {
					case hit == nil:
						sum.Fail("community:ModularizeMultiplex:grid:partition", fmt.Sprintf("[%s] Communities() = %v is not a partition of the nodes; %s", kind, comm, desc), one(call.Qs[0]))
					case !hit.Adm:
						sum.Fail("community:ModularizeMultiplex:grid:worse-than-singletons", fmt.Sprintf("[%s] top level %v (labels %v, per-layer Q %v) scores below the singleton partition; %s", kind, comm, lab, hit.Q, desc), one(*hit))
					}
				}
				defined := len(call.Qs) > 1
				if defined {
					for _, x := range call.Qs[1].Q {
						defined = defined && x[1] != 0
					}
				}
				if !sampled && defined && len(call.W) > 0 && call.W[0] == 0 && len(call.G) == 1 && call.G[0] != [2]int64{1, 1} {
					sampled = true
					sum.Sample(map[string]any{"n": c.N, "dir": c.Dir, "layers": c.Layers, "w": call.W, "g": call.G, "q": call.Qs[1]})
				}
			}
		}
	}
	return nil
}
