package network

import (
	"encoding/json"
	"fmt"
	"math"
	"math/rand/v2"
	"sort"
	"strconv"
	"strings"
	"time"

	"gonum.org/v1/gonum/graph"
	"gonum.org/v1/gonum/graph/community"
	"gonum.org/v1/gonum/graph/simple"

	"gonum.org/v1/gonum/verifharness/internal/core"
)

func init() {
	core.RegisterRecord("louvain", recordLouvain)
	core.RegisterReplay("louvain-q", replayLouvainQ)
}

// levelRec is the projection of one level of the Louvain hierarchy. Nothing
// is derived here: every field is what the public API of the level returned.
type levelRec struct {
	NN     int       `json:"nn"`     // number of nodes of this level's reduced graph
	Comms  [][]int   `json:"comms"`  // Communities(): original nodes as model indices 1..n
	Struct [][]int   `json:"struct"` // Structure(): ids of this level's own nodes
	W      [][]int64 `json:"w"`      // Weight(i,j) of the reduced graph (0 when it reports no edge)
	Has    [][]int   `json:"has"`    // 1 iff Weight(i,j) reports an edge, i != j
	WInt   bool      `json:"wint"`   // every weight was an integer value
	Q      string    `json:"q"`      // community.Q(level graph, level.Structure(), gamma)
	QO     string    `json:"qo"`     // community.Q(original graph, level.Communities(), gamma)
}

type runRec struct {
	Op     string     `json:"op"`
	Run    int        `json:"run"`
	N      int        `json:"n"`
	Dir    bool       `json:"dir"`
	G      [2]int     `json:"g"`
	Adj    [][]int    `json:"adj"`
	Levels []levelRec `json:"levels"` // base level first, top level last
	IDs    []int64    `json:"ids"`
	Seed   [2]uint64  `json:"seed"`
}

func argInt(args []string, key string, def int) int {
	for _, a := range args {
		if strings.HasPrefix(a, key+"=") {
			v, err := strconv.Atoi(a[len(key)+1:])
			if err == nil {
				return v
			}
		}
	}
	return def
}

func argStr(args []string, key, def string) string {
	for _, a := range args {
		if strings.HasPrefix(a, key+"=") {
			return a[len(key)+1:]
		}
	}
	return def
}

func recordLouvain(out *core.Out, args []string, seed int64, sum *core.Summary) error {
	runs := argInt(args, "runs", 10)
	maxN := argInt(args, "maxn", 60)
	dir := argStr(args, "family", "undir") == "dir"
	rnd := rand.New(rand.NewPCG(uint64(seed), 0xC15))
	gammas := [][2]int{{1, 1}, {1, 2}, {2, 1}}
	for r := 1; r <= runs; r++ {
		n := 4 + rnd.IntN(maxN-3)
		if r%7 == 0 {
			n = 2 + rnd.IntN(4)
		}
		// planted blocks so that there is community structure to find, plus noise;
		// isolated nodes and disconnected parts occur through the sparse settings
		blocks := 1 + rnd.IntN(5)
		pin := 0.15 + 0.6*rnd.Float64()
		pout := 0.08 * rnd.Float64()
		if n > 40 {
			pin *= 0.5
		}
		weighted := r%2 == 0
		ids := make([]int64, n)
		for i := range ids {
			switch r % 3 {
			case 0:
				ids[i] = int64(i) // dense ids
			case 1:
				ids[i] = int64(3*i + 7)
			default:
				ids[i] = int64(1000 - 5*i) // descending: model order != insertion order
			}
		}
		sorted := append([]int64(nil), ids...)
		sort.Slice(sorted, func(i, j int) bool { return sorted[i] < sorted[j] })
		model := map[int64]int{} // real id -> model index 1..n (rank by id)
		for i, id := range sorted {
			model[id] = i + 1
		}
		adj := make([][]int, n)
		for i := range adj {
			adj[i] = make([]int, n)
		}
		var g graph.Graph
		var setEdge func(u, v int64, w int)
		switch {
		case dir && weighted:
			gg := simple.NewWeightedDirectedGraph(0, 0)
			g, setEdge = gg, func(u, v int64, w int) {
				gg.SetWeightedEdge(simple.WeightedEdge{F: simple.Node(u), T: simple.Node(v), W: float64(w)})
			}
		case dir:
			gg := simple.NewDirectedGraph()
			g, setEdge = gg, func(u, v int64, w int) { gg.SetEdge(simple.Edge{F: simple.Node(u), T: simple.Node(v)}) }
		case weighted:
			gg := simple.NewWeightedUndirectedGraph(0, 0)
			g, setEdge = gg, func(u, v int64, w int) {
				gg.SetWeightedEdge(simple.WeightedEdge{F: simple.Node(u), T: simple.Node(v), W: float64(w)})
			}
		default:
			gg := simple.NewUndirectedGraph()
			g, setEdge = gg, func(u, v int64, w int) { gg.SetEdge(simple.Edge{F: simple.Node(u), T: simple.Node(v)}) }
		}
		for _, id := range ids {
			g.(graph.NodeAdder).AddNode(simple.Node(id))
		}
		total := 0
		for i := 0; i < n; i++ {
			for j := 0; j < n; j++ {
				if i == j || (!dir && j < i) {
					continue
				}
				p := pout
				if i%blocks == j%blocks {
					p = pin
				}
				if rnd.Float64() >= p || total > 2500 {
					continue
				}
				w := 1
				if weighted {
					w = 1 + rnd.IntN(3)
				}
				setEdge(ids[i], ids[j], w)
				mi, mj := model[ids[i]]-1, model[ids[j]]-1
				adj[mi][mj] = w
				total += w
				if !dir {
					adj[mj][mi] = w
				}
			}
		}
		if total == 0 {
			setEdge(ids[0], ids[1], 1)
			mi, mj := model[ids[0]]-1, model[ids[1]]-1
			adj[mi][mj] = 1
			if !dir {
				adj[mj][mi] = 1
			}
		}
		gam := gammas[r%3]
		gamma := float64(gam[0]) / float64(gam[1])
		s1, s2 := uint64(seed)*1000+uint64(r), uint64(r)
		var top community.ReducedGraph
		o := core.CallTimeout(60*time.Second, func() { top = community.Modularize(g, gamma, rand.NewPCG(s1, s2)) })
		rec := runRec{Op: "Run", Run: r, N: n, Dir: dir, G: gam, Adj: adj, IDs: ids, Seed: [2]uint64{s1, s2}, Levels: []levelRec{}}
		if o.Hung || o.Panicked {
			sum.Fail("community:Modularize:"+map[bool]string{true: "hang", false: "panic"}[o.Hung], fmt.Sprintf("%s; n=%d dir=%v gamma=%v adj=%v", o.Text, n, dir, gamma, adj), nil)
			continue
		}
		// On every other run first read the hierarchy BOTTOM-UP and scramble every returned
		// Communities() value in place (the documentation reserves only Structure()'s result:
		// "The returned value should not be mutated"): what a level reports afterwards must not
		// depend on what an earlier caller did with an earlier answer.
		if r%2 == 1 {
			var chain []community.ReducedGraph
			for p := top; !isNilLevel(p); p = p.Expanded() {
				chain = append(chain, p)
			}
			for i := len(chain) - 1; i >= 0; i-- {
				cs := chain[i].Communities()
				for a, b := 0, len(cs)-1; a < b; a, b = a+1, b-1 {
					cs[a], cs[b] = cs[b], cs[a]
				}
				for _, c := range cs {
					for a, b := 0, len(c)-1; a < b; a, b = a+1, b-1 {
						c[a], c[b] = c[b], c[a]
					}
				}
			}
			sum.Count("runs_read_bottom_up_and_scrambled", 1)
		}
		// walk from the top level down, then reverse
		var levels []levelRec
		for p := top; !isNilLevel(p); p = p.Expanded() {
			lv := levelRec{WInt: true, Comms: [][]int{}, Struct: [][]int{}}
			nodes := graph.NodesOf(p.Nodes())
			lv.NN = len(nodes)
			for _, c := range p.Communities() {
				m := make([]int, 0, len(c))
				for _, x := range c {
					m = append(m, model[x.ID()])
				}
				lv.Comms = append(lv.Comms, m)
			}
			for _, c := range p.Structure() {
				m := make([]int, 0, len(c))
				for _, x := range c {
					m = append(m, int(x.ID()))
				}
				lv.Struct = append(lv.Struct, m)
			}
			wg := p.(graph.Weighted)
			lv.W = make([][]int64, lv.NN)
			lv.Has = make([][]int, lv.NN)
			for i := 0; i < lv.NN; i++ {
				lv.W[i] = make([]int64, lv.NN)
				lv.Has[i] = make([]int, lv.NN)
				for j := 0; j < lv.NN; j++ {
					w, ok := wg.Weight(int64(i), int64(j))
					if w != math.Trunc(w) || math.Abs(w) > 1e9 {
						lv.WInt = false
						w = -1
					}
					lv.W[i][j] = int64(w)
					if ok && i != j {
						lv.Has[i][j] = 1
					}
				}
			}
			lv.Q = strconv.FormatFloat(community.Q(p, p.Structure(), gamma), 'g', -1, 64)
			lv.QO = strconv.FormatFloat(community.Q(g, p.Communities(), gamma), 'g', -1, 64)
			levels = append(levels, lv)
		}
		for i := len(levels) - 1; i >= 0; i-- {
			rec.Levels = append(rec.Levels, levels[i])
		}
		out.Emit(rec)
		sum.Traces++
		sum.Count("levels", len(levels))
		if len(levels) > 1 {
			sum.Count("runs_with_aggregation", 1)
		}
	}
	return nil
}

// isNilLevel: Expanded() returns a typed nil pointer inside the interface at
// the lowest level, so "!= nil" on the interface value does not detect it.
func isNilLevel(p community.ReducedGraph) bool {
	switch p := p.(type) {
	case nil:
		return true
	case *community.ReducedUndirected:
		return p == nil
	case *community.ReducedDirected:
		return p == nil
	}
	return false
}

// lqCase is printed by CommunityTrace.tla in emit mode: the exact Q of one
// level of one recorded run next to the two floats gonum reported for it.
type lqCase struct {
	K     string   `json:"k"`
	Run   int      `json:"run"`
	Level int      `json:"level"`
	N     int      `json:"n"`
	Q     [2]int64 `json:"q"`
	QF    string   `json:"qf"`
	QOF   string   `json:"qof"`
}

// louvainQTol: Q of a 60 node graph is a sum of up to n^2 float terms.
const louvainQTol = 1e-10

func replayLouvainQ(in *core.Lines, args []string, seed int64, sum *core.Summary) error {
	for {
		line, ok := in.Next()
		if !ok {
			break
		}
		var c lqCase
		if err := json.Unmarshal(line, &c); err != nil {
			return fmt.Errorf("line %d: %v", in.N, err)
		}
		if c.K != "lq" {
			continue
		}
		raw := append(json.RawMessage(nil), line...)
		sum.Cases++
		if c.Level > 1 {
			sum.Nontrivial++
		}
		want := rat(c.Q[0], c.Q[1])
		for _, f := range []struct{ name, tok string }{{"reduced-graph", c.QF}, {"original-graph", c.QOF}} {
			v, err := strconv.ParseFloat(f.tok, 64)
			if err != nil || !near(v, want, louvainQTol) {
				sum.Fail("community:Modularize:Q-"+f.name, fmt.Sprintf("run %d level %d (n=%d): gonum's Q on the %s is %s, exact Q of the reported communities is %s", c.Run, c.Level, c.N, f.name, f.tok, want.RatString()), raw)
			}
		}
		if sum.Cases%17 == 1 {
			sum.Sample(map[string]any{"run": c.Run, "level": c.Level, "n": c.N, "q_exact": c.Q, "q_gonum": c.QF})
		}
	}
	return nil
}
