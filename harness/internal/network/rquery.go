package network

import (
	"fmt"
	"math"
	"math/rand/v2"
	"time"

	"gonum.org/v1/gonum/graph"
	"gonum.org/v1/gonum/graph/community"

	"gonum.org/v1/gonum/verifharness/internal/core"
)

func init() {
	core.RegisterRecord("reduced-queries", recordReducedQueries)
}

// queryRec is everything one level (one layer) of a Louvain hierarchy answered
// to the graph.Graph / graph.Weighted query methods. Nothing is derived: ids
// and weights are copied from what the methods returned (nil results as
// present = 0).
type queryRec struct {
	Op     string       `json:"op"`
	Run    int          `json:"run"`
	Level  int          `json:"level"`
	Layer  int          `json:"layer"`
	Type   string       `json:"type"`
	Dir    bool         `json:"dir"`
	N      int          `json:"n"`
	Sgn    int          `json:"sgn"`
	Adj    [][]int      `json:"adj"`
	Parts  [][]int      `json:"parts"` // node sets of this level's nodes (model indices), by node id
	NN     int          `json:"nn"`
	Nodes  []int64      `json:"nodes"`
	NodeQ  [][3]int64   `json:"nodeq"` // id, present, returned id
	From   [][]int64    `json:"from"`
	To     [][]int64    `json:"to"`
	HEB    [][]int      `json:"heb"`
	HEFT   [][]int      `json:"heft"`
	Edge   [][][3]int64 `json:"edge"`  // present, from, to
	WEdge  [][][4]int64 `json:"wedge"` // present, from, to, weight
	Rev    [][][3]int64 `json:"rev"`   // Edge(u,v).ReversedEdge()
	EB     [][][3]int64 `json:"eb"`
	WEB    [][][4]int64 `json:"web"`
	Weight [][][2]int64 `json:"weight"` // weight, ok
	WInt   bool         `json:"wint"`
	OOB    []int        `json:"oob"`
}

func b2i(b bool) int {
	if b {
		return 1
	}
	return 0
}

// queryLevel asks g (a level of a hierarchy, or one layer of it) everything.
func queryLevel(g graph.Graph, rec *queryRec) {
	nn := rec.NN
	rec.WInt = true
	wi := func(w float64) int64 {
		if w != math.Trunc(w) || math.Abs(w) > 1e9 {
			rec.WInt = false
			return 0
		}
		return int64(w)
	}
	rec.Nodes = []int64{}
	for _, x := range graph.NodesOf(g.Nodes()) {
		rec.Nodes = append(rec.Nodes, x.ID())
	}
	for id := int64(-1); id <= int64(nn); id++ {
		q := [3]int64{id, 0, -1}
		if x := g.Node(id); x != nil {
			q[1], q[2] = 1, x.ID()
		}
		rec.NodeQ = append(rec.NodeQ, q)
	}
	edge3 := func(e graph.Edge) [3]int64 {
		if e == nil {
			return [3]int64{0, -1, -1}
		}
		return [3]int64{1, e.From().ID(), e.To().ID()}
	}
	edge4 := func(e graph.WeightedEdge) [4]int64 {
		if e == nil {
			return [4]int64{0, -1, -1, 0}
		}
		return [4]int64{1, e.From().ID(), e.To().ID(), wi(e.Weight())}
	}
	ids := func(it graph.Nodes) []int64 {
		r := []int64{}
		for _, x := range graph.NodesOf(it) {
			r = append(r, x.ID())
		}
		return r
	}
	wg := g.(graph.Weighted)
	dg, isDir := g.(graph.WeightedDirected)
	ug, isUnd := g.(graph.WeightedUndirected)
	var eg graph.Undirected
	if isUnd {
		eg = g.(graph.Undirected)
	}
	rec.From, rec.To = [][]int64{}, [][]int64{}
	rec.HEB, rec.HEFT = [][]int{}, [][]int{}
	rec.Edge, rec.Rev, rec.EB = [][][3]int64{}, [][][3]int64{}, [][][3]int64{}
	rec.WEdge, rec.WEB = [][][4]int64{}, [][][4]int64{}
	rec.Weight = [][][2]int64{}
	for u := int64(0); u < int64(nn); u++ {
		rec.From = append(rec.From, ids(g.From(u)))
		if isDir {
			rec.To = append(rec.To, ids(dg.To(u)))
		}
		heb, heft := make([]int, nn), make([]int, nn)
		e3, r3, eb3 := make([][3]int64, nn), make([][3]int64, nn), make([][3]int64, nn)
		e4, eb4 := make([][4]int64, nn), make([][4]int64, nn)
		wt := make([][2]int64, nn)
		for v := int64(0); v < int64(nn); v++ {
			heb[v] = b2i(g.HasEdgeBetween(u, v))
			e := g.Edge(u, v)
			e3[v] = edge3(e)
			r3[v] = [3]int64{0, -1, -1}
			if e != nil {
				r3[v] = edge3(e.ReversedEdge())
			}
			e4[v] = edge4(wg.WeightedEdge(u, v))
			if isDir {
				heft[v] = b2i(dg.HasEdgeFromTo(u, v))
			}
			if isUnd {
				eb3[v] = edge3(eg.EdgeBetween(u, v))
				eb4[v] = edge4(ug.WeightedEdgeBetween(u, v))
			}
			w, ok := wg.Weight(u, v)
			wt[v] = [2]int64{wi(w), int64(b2i(ok))}
		}
		rec.HEB = append(rec.HEB, heb)
		rec.Edge = append(rec.Edge, e3)
		rec.Rev = append(rec.Rev, r3)
		rec.WEdge = append(rec.WEdge, e4)
		rec.Weight = append(rec.Weight, wt)
		if isDir {
			rec.HEFT = append(rec.HEFT, heft)
		}
		if isUnd {
			rec.EB = append(rec.EB, eb3)
			rec.WEB = append(rec.WEB, eb4)
		}
	}
	// ids outside the node set: no edge may be reported (x != y throughout; what Weight(x,x)
	// or From(x) do for a non-node is not documented and not asked)
	out := int64(nn)
	rec.OOB = []int{
		b2i(g.HasEdgeBetween(-1, 0)), b2i(g.HasEdgeBetween(0, out)), b2i(g.HasEdgeBetween(out, 0)),
		b2i(g.Edge(-1, 0) != nil), b2i(g.Edge(0, out) != nil), b2i(g.Edge(out, 0) != nil),
		b2i(wg.WeightedEdge(0, -1) != nil), b2i(wg.WeightedEdge(out+3, 0) != nil),
	}
	_, ok1 := wg.Weight(-1, 0)
	_, ok2 := wg.Weight(0, out)
	_, ok3 := wg.Weight(out+1, 0)
	rec.OOB = append(rec.OOB, b2i(ok1), b2i(ok2), b2i(ok3))
	if isDir {
		rec.OOB = append(rec.OOB, b2i(dg.HasEdgeFromTo(-1, 0)), b2i(dg.HasEdgeFromTo(0, out)), b2i(dg.HasEdgeFromTo(out, 0)))
	}
	if isUnd {
		rec.OOB = append(rec.OOB, b2i(eg.EdgeBetween(0, out) != nil), b2i(ug.WeightedEdgeBetween(-1, 0) != nil))
	}
}

// recordReducedQueries: Modularize / ModularizeMultiplex on small graphs; every level
// (and layer) of the returned hierarchy is asked every query method once.
// args: family=undir|dir, runs=
func recordReducedQueries(out *core.Out, args []string, seed int64, sum *core.Summary) error {
	runs := argInt(args, "runs", 12)
	dir := argStr(args, "family", "undir") == "dir"
	rnd := rand.New(rand.NewPCG(uint64(seed), 0xC15C))
	for r := 1; r <= runs; r++ {
		n := 3 + rnd.IntN(7)
		multi := r%2 == 0
		nl, lw := 1, []int{1}
		if multi {
			nl = 2
			lw = []int{1 + rnd.IntN(2), 1 + rnd.IntN(3)}
		}
		plans := make([]layerPlan, nl)
		for y := range plans {
			plans[y] = layerPlan{weighted: rnd.IntN(2) == 0, pin: 0.4 + 0.5*rnd.Float64(), pout: 0.05 + 0.2*rnd.Float64(), maxM: 400}
		}
		if multi && r%4 == 0 {
			lw[1] = -(1 + rnd.IntN(2))
			plans[1] = layerPlan{weighted: true, neg: true, pin: 0.05, pout: 0.35, maxM: 400}
		}
		if r%9 == 0 { // no edge at all: the hierarchy is the base level alone
			for y := range plans {
				plans[y].pin, plans[y].pout = 0, 0
			}
		}
		L := buildLayered(rnd, n, dir, idScheme(r, n), 2+rnd.IntN(2), plans)
		src := rand.NewPCG(uint64(seed)*31+uint64(r), uint64(r))
		gamma := []float64{1, 0.5, 2}[r%3]
		// levels[k] = the graphs (one per layer) of level k, top first; comms[k] = its Communities()
		type level struct {
			graphs []graph.Graph
			comms  [][]graph.Node
			kind   string
		}
		var levels []level
		var o core.Outcome
		if !multi {
			o = core.CallTimeout(60*time.Second, func() {
				for p := community.Modularize(L.layers[0], gamma, src); !isNilLevel(p); p = p.Expanded() {
					levels = append(levels, level{[]graph.Graph{p}, p.Communities(), fmt.Sprintf("%T", p)})
				}
			})
		} else {
			mg, err := L.multiplex()
			if err != nil {
				sum.Fail("community:NewLayers:error", fmt.Sprintf("%v for %d layers on the same node set %v", err, nl, L.ids), nil)
				continue
			}
			weights := []float64{float64(lw[0]), float64(lw[1])}
			o = core.CallTimeout(60*time.Second, func() {
				for p := community.ModularizeMultiplex(mg, weights, []float64{gamma}, r%3 == 0, src); !isNilMLevel(p); p = p.Expanded() {
					lv := level{nil, p.Communities(), ""}
					for y := 0; y < p.Depth(); y++ {
						lv.graphs = append(lv.graphs, layerOf(p, y))
					}
					lv.kind = fmt.Sprintf("%T", lv.graphs[0])
					levels = append(levels, lv)
				}
			})
		}
		if o.Hung || o.Panicked {
			what := map[bool]string{true: "hang", false: "panic"}[o.Hung]
			sig, call := "community:queries:modularize-"+what, "ModularizeMultiplex"
			firstEmpty := true
			for _, row := range L.adj[0] {
				for _, w := range row {
					firstEmpty = firstEmpty && w == 0
				}
			}
			switch {
			case !multi:
				call = "Modularize"
				if firstEmpty {
					sig = "community:Modularize:edgeless:" + what
				}
			case firstEmpty:
				sig = "community:ModularizeMultiplex:empty-first-layer:" + what
			}
			sum.Fail(sig, fmt.Sprintf("%s; %s(gamma=%v) n=%d dir=%v lw=%v ids=%v adj=%v", o.Text, call, gamma, n, dir, lw, L.ids, L.adj), nil)
			continue
		}
		for k := len(levels) - 1; k >= 0; k-- { // base level first
			// the node sets of this level's nodes: singletons (by id rank) at the base level,
			// otherwise the communities of the level below, in the order it reported them
			var parts [][]int
			if k == len(levels)-1 {
				for i := 1; i <= n; i++ {
					parts = append(parts, []int{i})
				}
			} else {
				for _, c := range levels[k+1].comms {
					m := []int{}
					for _, x := range c {
						m = append(m, L.model[x.ID()])
					}
					parts = append(parts, m)
				}
			}
			for y, g := range levels[k].graphs {
				sgn := 1
				if lw[y] < 0 {
					sgn = -1
				}
				rec := queryRec{Op: "Query", Run: r, Level: len(levels) - k, Layer: y, Type: levels[k].kind, Dir: dir, N: n, Sgn: sgn,
					Adj: L.adj[y], Parts: parts}
				oq := core.Call(func() {
					rec.NN = len(graph.NodesOf(g.Nodes()))
					queryLevel(g, &rec)
				})
				if oq.Panicked {
					sum.Fail("community:queries:panic", fmt.Sprintf("%s on %s level %d layer %d; n=%d dir=%v adj=%v parts=%v", oq.Text, rec.Type, rec.Level, y, n, dir, L.adj[y], parts), nil)
					continue
				}
				out.Emit(rec)
				sum.Traces++
				sum.Count("query_events_"+rec.Type, 1)
			}
		}
	}
	return nil
}
