package network

import (
	"encoding/json"
	"fmt"
	"math/rand/v2"
	"strings"
	"time"

	"gonum.org/v1/gonum/graph"
	"gonum.org/v1/gonum/graph/community"
	"gonum.org/v1/gonum/graph/simple"

	"gonum.org/v1/gonum/verifharness/internal/core"
)

func init() {
	core.RegisterReplay("community-q", replayQ)
}

type qRec struct {
	C []int64  `json:"c"` // label of model node i
	G [2]int64 `json:"g"` // resolution
	Q [2]int64 `json:"q"` // exact modularity
}

type qCase struct {
	K     string     `json:"k"`
	N     int        `json:"n"`
	Dir   bool       `json:"dir"`
	Wtd   bool       `json:"wtd"`
	Edges [][3]int64 `json:"edges"`
	Qs    []qRec     `json:"qs"`
	NegP  bool       `json:"negpanic"` // the graph with every weight negated must be refused
}

// replayQ: community.Q on every partition x resolution the specification printed.
func replayQ(in *core.Lines, args []string, seed int64, sum *core.Summary) error {
	base := []int64{10, 3, 7, 25, 4, 0, 18}
	for {
		line, ok := in.Next()
		if !ok {
			break
		}
		var c qCase
		if err := json.Unmarshal(line, &c); err != nil {
			return fmt.Errorf("line %d: %v", in.N, err)
		}
		if c.K != "q" {
			continue
		}
		raw := append(json.RawMessage(nil), line...)
		ids := make([]int64, c.N)
		for i := range ids {
			ids[i] = base[(i+int(seed)+in.N)%len(base)]
		}
		nc := netCase{N: c.N, Dir: c.Dir, Wtd: c.Wtd, Edges: c.Edges}
		b := &builder{c: &nc, ids: ids}
		kinds := []bool{true}
		if !c.Wtd {
			kinds = []bool{false, true}
		}
		for _, wt := range kinds {
			g := b.build(wt)
			kind := strings.TrimPrefix(fmt.Sprintf("%T", g), "*")
			if wt && c.NegP {
				gn := (&builder{c: &nc, ids: ids, neg: true}).build(true)
				o := core.Call(func() { community.Q(gn, nil, 1) })
				if !o.Panicked || o.Runtime {
					sum.Fail("community:Q:negative-weight", fmt.Sprintf("[%s] Q did not refuse negative edge weights (%s); edges=%v negated", kind, o.Text, c.Edges), raw)
				}
				o = core.CallTimeout(20*time.Second, func() { community.Modularize(gn, 1, rand.NewPCG(uint64(seed), 7)) })
				if !o.Panicked || o.Runtime || o.Hung {
					sum.Fail("community:Modularize:negative-weight", fmt.Sprintf("[%s] Modularize did not refuse negative edge weights (%s); edges=%v negated", kind, o.Text, c.Edges), raw)
				}
				sum.Count("negative_weight_refusals", 2)
			}
			for _, q := range c.Qs {
				// communities in label order, members in model order
				byLabel := map[int64][]graph.Node{}
				var labels []int64
				single := true
				for i, l := range q.C {
					if _, ok := byLabel[l]; !ok {
						labels = append(labels, l)
					}
					byLabel[l] = append(byLabel[l], simple.Node(ids[i]))
					if l != int64(i+1) {
						single = false
					}
				}
				comms := make([][]graph.Node, 0, len(labels))
				for _, l := range labels {
					comms = append(comms, byLabel[l])
				}
				gamma := float64(q.G[0]) / float64(q.G[1])
				want := rat(q.Q[0], q.Q[1])
				var got float64
				o := core.Call(func() { got = community.Q(g, comms, gamma) })
				sum.Count("q_calls", 1)
				sum.Cases++ // one case = one (graph, container, partition, resolution) evaluation of Q
				if len(labels) > 1 && len(labels) < c.N {
					sum.Nontrivial++
				}
				if o.Panicked {
					sum.Fail("community:Q:panic", fmt.Sprintf("[%s] %s; edges=%v labels=%v gamma=%v", kind, o.Text, c.Edges, q.C, gamma), raw)
					continue
				}
				if !near(got, want, relTol) {
					sum.Fail("community:Q:value", fmt.Sprintf("[%s] Q=%v want %s; n=%d edges=%v labels=%v gamma=%v ids=%v", kind, got, want.RatString(), c.N, c.Edges, q.C, gamma, ids), raw)
				}
				if single {
					// "If communities is nil, the unclustered modularity score is returned"
					o := core.Call(func() { got = community.Q(g, nil, gamma) })
					if o.Panicked || !near(got, want, relTol) {
						sum.Fail("community:Q:nil-communities", fmt.Sprintf("[%s] Q(nil)=%v %s want %s; edges=%v gamma=%v", kind, got, o.Text, want.RatString(), c.Edges, gamma), raw)
					}
				}
			}
		}
		if len(c.Qs) > 3 {
			sum.Sample(map[string]any{"n": c.N, "dir": c.Dir, "edges": c.Edges, "q": c.Qs[3]})
		}
	}
	return nil
}
