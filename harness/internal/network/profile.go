package network

import (
	"encoding/json"
	"fmt"
	"math/big"
	"math/rand/v2"
	"sort"
	"strconv"
	"time"

	"gonum.org/v1/gonum/graph"
	"gonum.org/v1/gonum/graph/community"
	"gonum.org/v1/gonum/graph/simple"

	"gonum.org/v1/gonum/verifharness/internal/core"
)

func init() {
	core.RegisterRecord("profile", recordProfile)
	core.RegisterReplay("profile-q", replayProfileQ)
	core.RegisterReplay("profile-step", replayProfileStep)
}

// ivRec is one community.Interval as returned: the resolutions as order ranks
// (all boundaries of one run ranked together) and, when it is a small dyadic
// rational, the exact value of Low; the communities as model indices.
type ivRec struct {
	RL      int      `json:"rl"`
	RH      int      `json:"rh"`
	Exact   bool     `json:"exact"`
	Lo      [2]int64 `json:"lo"`
	Comms   [][]int  `json:"comms"`
	NStruct int      `json:"nstruct"` // len(Reduced.Structure())
	Score   string   `json:"score"`   // Interval.Score
	QF      []string `json:"qf"`      // community.Q / QMultiplex of the communities at resolution Low
}

type profRec struct {
	Op     string    `json:"op"`
	Run    int       `json:"run"`
	Kind   string    `json:"kind"`  // single | multi
	Score  string    `json:"score"` // size | weight
	Log    bool      `json:"log"`
	Effort int       `json:"effort"`
	N      int       `json:"n"`
	Dir    bool      `json:"dir"`
	NL     int       `json:"nl"`
	LW     []int     `json:"lw"`
	All    bool      `json:"all"`
	Adj    [][][]int `json:"adj"`
	Lo     [2]int64  `json:"lo"`
	Hi     [2]int64  `json:"hi"`
	Grain  [2]int64  `json:"grain"`
	RLo    int       `json:"rlo"`
	RHi    int       `json:"rhi"`
	Err    string    `json:"err"`
	Ivs    []ivRec   `json:"ivs"`
	IDs    []int64   `json:"ids"`
}

// exactRat returns x as num/den when both fit 31 bits.
func exactRat(x float64) ([2]int64, bool) {
	r, ok := new(big.Rat), false
	if r.SetFloat64(x) != nil && r.Num().IsInt64() && r.Denom().IsInt64() {
		n, d := r.Num().Int64(), r.Denom().Int64()
		if n > -(1<<31) && n < 1<<31 && d < 1<<31 {
			return [2]int64{n, d}, true
		}
	}
	return [2]int64{0, 1}, ok
}

// recordProfile: community.Profile over ModularScore / ModularMultiplexScore with the
// documented score functions, on small planted-block graphs.
func recordProfile(out *core.Out, args []string, seed int64, sum *core.Summary) error {
	runs := argInt(args, "runs", 8)
	dir := argStr(args, "family", "undir") == "dir"
	rnd := rand.New(rand.NewPCG(uint64(seed), 0xC15B))
	ranges := [][2][2]int64{{{1, 8}, {8, 1}}, {{1, 4}, {4, 1}}, {{1, 2}, {2, 1}}}
	for r := 1; r <= runs; r++ {
		kind := []string{"single", "multi"}[r%2]
		score := []string{"size", "weight"}[(r/2)%2]
		logb := (r/4)%2 == 1
		effort := 1 + r%3
		n := 5 + rnd.IntN(6)
		nl, lw, all := 1, []int{1}, false
		neg := false
		if kind == "multi" {
			nl = 2
			lw = []int{1 + rnd.IntN(2), 1 + rnd.IntN(2)}
			all = r%3 == 0
			if r%8 == 6 {
				// signed network; only the Size score is monotone enough to be worth profiling
				neg, score, all = true, "size", true
				lw[1] = -1
			}
		}
		var L *layered
		for try := 0; ; try++ {
			plans := make([]layerPlan, nl)
			for y := range plans {
				plans[y] = layerPlan{weighted: rnd.IntN(2) == 0, pin: 0.5 + 0.4*rnd.Float64(), pout: 0.05 + 0.15*rnd.Float64(), maxM: 200}
			}
			if neg {
				plans[1] = layerPlan{weighted: true, neg: true, pin: 0.02, pout: 0.3, maxM: 200}
			}
			L = buildLayered(rnd, n, dir, idScheme(r, n), 2+rnd.IntN(2), plans)
			full := true
			for _, a := range L.adj {
				any := false
				for _, row := range a {
					for _, w := range row {
						any = any || w != 0
					}
				}
				full = full && any
			}
			if full || try > 50 {
				break
			}
		}
		rg := ranges[rnd.IntN(len(ranges))]
		grain := [2]int64{1, 8}
		if r%5 == 0 {
			grain = [2]int64{1, 4}
		}
		low, high := float64(rg[0][0])/float64(rg[0][1]), float64(rg[1][0])/float64(rg[1][1])
		src := rand.NewPCG(uint64(seed)*977+uint64(r), uint64(r))
		var weights []float64
		for _, w := range lw {
			weights = append(weights, float64(w))
		}
		var fn func(float64) (float64, community.Reduced)
		var mg community.Multiplex
		if kind == "single" {
			sf := community.Size
			if score == "weight" {
				sf = community.Weight
			}
			fn = community.ModularScore(L.layers[0], sf, effort, src)
		} else {
			var err error
			mg, err = L.multiplex()
			if err != nil {
				sum.Fail("community:NewLayers:error", fmt.Sprintf("%v for %d layers on the same node set %v", err, nl, L.ids), nil)
				continue
			}
			sf := community.SizeMultiplex
			if score == "weight" {
				sf = community.WeightMultiplex
			}
			fn = community.ModularMultiplexScore(mg, weights, all, sf, effort, src)
		}
		var prof []community.Interval
		var perr error
		o := core.CallTimeout(120*time.Second, func() {
			prof, perr = community.Profile(fn, logb, float64(grain[0])/float64(grain[1]), low, high)
		})
		desc := fmt.Sprintf("Profile(%s/%s effort %d, log=%v, grain=%v, [%v,%v)) n=%d dir=%v lw=%v all=%v adj=%v", kind, score, effort, logb, grain, low, high, n, dir, lw, all, L.adj)
		if o.Hung || o.Panicked {
			sum.Fail("community:Profile:"+map[bool]string{true: "hang", false: "panic"}[o.Hung], o.Text+"; "+desc, nil)
			continue
		}
		rec := profRec{Op: "Profile", Run: r, Kind: kind, Score: score, Log: logb, Effort: effort, N: n, Dir: dir, NL: nl, LW: lw, All: all,
			Adj: L.adj, Lo: rg[0], Hi: rg[1], Grain: grain, Ivs: []ivRec{}, IDs: L.ids}
		if perr != nil {
			rec.Err = perr.Error()
			if rec.Err == "" {
				rec.Err = "(empty error text)"
			}
			sum.Count("profile_runs_ending_in_the_nonmonotonicity_error", 1)
			prof = nil
		}
		// order ranks of every boundary of this run
		vals := []float64{low, high}
		for _, iv := range prof {
			vals = append(vals, iv.Low, iv.High)
		}
		sort.Float64s(vals)
		rank := map[float64]int{}
		for _, v := range vals {
			if _, ok := rank[v]; !ok {
				rank[v] = len(rank) + 1
			}
		}
		rec.RLo, rec.RHi = rank[low], rank[high]
		bad := false
		for i, iv := range prof {
			ir := ivRec{RL: rank[iv.Low], RH: rank[iv.High], Comms: [][]int{}, QF: []string{}, Score: strconv.FormatFloat(iv.Score, 'g', -1, 64)}
			ir.Lo, ir.Exact = exactRat(iv.Low)
			if iv.Reduced == nil {
				sum.Fail("community:Profile:nil-reduced", fmt.Sprintf("interval %d has no Reduced; %s", i, desc), nil)
				bad = true
				break
			}
			var comms [][]graph.Node
			oc := core.Call(func() {
				comms = iv.Communities()
				switch red := iv.Reduced.(type) {
				case community.ReducedGraph:
					ir.NStruct = len(red.Structure())
				case community.ReducedMultiplex:
					ir.NStruct = len(red.Structure())
				default:
					ir.NStruct = -1
				}
				if kind == "single" {
					ir.QF = ftoks([]float64{community.Q(L.layers[0], comms, iv.Low)})
				} else {
					ir.QF = ftoks(community.QMultiplex(mg, comms, weights, []float64{iv.Low}))
				}
			})
			if oc.Panicked {
				sum.Fail("community:Profile:interval-panic", fmt.Sprintf("interval %d: %s; %s", i, oc.Text, desc), nil)
				bad = true
				break
			}
			for _, c := range comms {
				m := make([]int, 0, len(c))
				for _, x := range c {
					m = append(m, L.model[x.ID()])
				}
				ir.Comms = append(ir.Comms, m)
			}
			rec.Ivs = append(rec.Ivs, ir)
		}
		if bad {
			continue
		}
		out.Emit(rec)
		sum.Traces++
		sum.Count("profile_intervals", len(rec.Ivs))
		if len(rec.Ivs) > 1 {
			sum.Count("profiles_with_several_intervals", 1)
		}
	}
	return nil
}

// pqCase is printed by ProfileTrace.tla in emit mode.
type pqCase struct {
	K     string     `json:"k"`
	Run   int        `json:"run"`
	Iv    int        `json:"iv"`
	N     int        `json:"n"`
	Kind  string     `json:"kind"`
	Score [2]int64   `json:"score"`
	SF    string     `json:"sf"`
	QDef  bool       `json:"qdef"`
	Q     [][2]int64 `json:"q"`
	QF    []string   `json:"qf"`
}

func replayProfileQ(in *core.Lines, args []string, seed int64, sum *core.Summary) error {
	for {
		line, ok := in.Next()
		if !ok {
			break
		}
		var c pqCase
		if err := json.Unmarshal(line, &c); err != nil {
			return fmt.Errorf("line %d: %v", in.N, err)
		}
		if c.K != "pq" {
			continue
		}
		raw := append(json.RawMessage(nil), line...)
		sum.Cases++
		want := rat(c.Score[0], c.Score[1])
		v, err := strconv.ParseFloat(c.SF, 64)
		if err != nil || !near(v, want, relTol) {
			sum.Fail("community:Profile:score", fmt.Sprintf("run %d interval %d (%s): Interval.Score is %s, the score function of the interval's own communities is %s", c.Run, c.Iv, c.Kind, c.SF, want.RatString()), raw)
		}
		if !c.QDef {
			sum.Count("profile_intervals_without_exact_low", 1)
			continue
		}
		sum.Nontrivial++
		if len(c.Q) != len(c.QF) {
			sum.Fail("community:Profile:Q-shape", fmt.Sprintf("run %d interval %d: %d layers, %d values", c.Run, c.Iv, len(c.Q), len(c.QF)), raw)
			continue
		}
		for y := range c.Q {
			want := rat(c.Q[y][0], c.Q[y][1])
			v, err := strconv.ParseFloat(c.QF[y], 64)
			if err != nil || !near(v, want, louvainQTol) {
				sum.Fail("community:Profile:Q-at-low", fmt.Sprintf("run %d interval %d layer %d (%s): gonum's modularity of the interval's communities at its Low is %s, exact value %s", c.Run, c.Iv, y, c.Kind, c.QF[y], want.RatString()), raw)
			}
		}
		if sum.Cases%11 == 1 {
			sum.Sample(map[string]any{"run": c.Run, "interval": c.Iv, "score_exact": c.Score, "score_gonum": c.SF, "q_exact": c.Q, "q_gonum": c.QF})
		}
	}
	return nil
}

// stepReduced is the Reduced a scripted score function returns: its only community holds
// one node whose id is the index of the step the resolution fell in.
type stepReduced int

func (s stepReduced) Communities() [][]graph.Node {
	return [][]graph.Node{{simple.Node(int64(s))}}
}

// pstepCase is printed by ProfileStep.tla.
type pstepCase struct {
	K      string          `json:"k"`
	Kind   string          `json:"kind"`
	Log    bool            `json:"log"`
	Lo     [2]int64        `json:"lo"`
	Hi     [2]int64        `json:"hi"`
	Grain  [2]int64        `json:"grain"`
	Bps    [][2]int64      `json:"bps"`
	Vals   []int64         `json:"vals"`
	Expect string          `json:"expect"`
	Win    [][2][2]int64   `json:"win"`
	Raw    json.RawMessage `json:"-"`
}

func ratF(r [2]int64) float64 { return float64(r[0]) / float64(r[1]) } // dyadic with small terms: exact

// replayProfileStep: community.Profile on the step function the specification scripted.
func replayProfileStep(in *core.Lines, args []string, seed int64, sum *core.Summary) error {
	for {
		line, ok := in.Next()
		if !ok {
			break
		}
		var c pstepCase
		if err := json.Unmarshal(line, &c); err != nil {
			return fmt.Errorf("line %d: %v", in.N, err)
		}
		if c.K == "wcontract" {
			var wc wcontractCase
			if err := json.Unmarshal(line, &wc); err != nil {
				return fmt.Errorf("line %d: %v", in.N, err)
			}
			replayWeightContract(&wc, append(json.RawMessage(nil), line...), seed, sum)
			continue
		}
		if c.K != "pstep" {
			continue
		}
		raw := append(json.RawMessage(nil), line...)
		sum.Cases++
		if len(c.Bps) > 0 {
			sum.Nontrivial++
		}
		bps := make([]float64, len(c.Bps))
		for i, b := range c.Bps {
			bps[i] = ratF(b)
		}
		evals := 0
		fn := func(x float64) (float64, community.Reduced) {
			evals++
			i := 0
			for i < len(bps) && bps[i] <= x {
				i++
			}
			return float64(c.Vals[i]), stepReduced(i)
		}
		var prof []community.Interval
		var perr error
		o := core.CallTimeout(30*time.Second, func() { prof, perr = community.Profile(fn, c.Log, ratF(c.Grain), ratF(c.Lo), ratF(c.Hi)) })
		sum.Count("profile_step_calls", 1)
		fail := func(what, msg string) {
			sum.Fail("community:Profile:step-"+what, fmt.Sprintf("%s; Profile(step function breakpoints %v values %v, log=%v, grain=%v, [%v,%v)) returned %d intervals %s err=%v",
				msg, bps, c.Vals, c.Log, ratF(c.Grain), ratF(c.Lo), ratF(c.Hi), len(prof), ivString(prof), perr), raw)
		}
		if o.Hung || o.Panicked {
			fail(map[bool]string{true: "hang", false: "panic"}[o.Hung], o.Text)
			continue
		}
		switch c.Expect {
		case "error":
			if perr == nil {
				fail("no-error", "the score function increases at every evaluation but no error was returned")
			} else if perr.Error() == "" {
				fail("error-text", "the error has no text")
			}
			continue
		case "error-or-empty":
			if perr == nil && len(prof) != 0 {
				fail("empty-domain", "low >= high but a profile was returned")
			}
			continue
		}
		if perr != nil {
			fail("error", "a decreasing step function was rejected")
			continue
		}
		if len(prof) != len(c.Vals) {
			fail("count", fmt.Sprintf("%d intervals expected (breakpoints further apart than the granularity)", len(c.Vals)))
			continue
		}
		lo, hi := rat(c.Lo[0], c.Lo[1]), rat(c.Hi[0], c.Hi[1])
		for i, iv := range prof {
			if iv.Score != float64(c.Vals[i]) {
				fail("score", fmt.Sprintf("interval %d has score %v, the function's value there is %d", i, iv.Score, c.Vals[i]))
			}
			if iv.Reduced == nil || len(iv.Communities()) != 1 || len(iv.Communities()[0]) != 1 || iv.Communities()[0][0].ID() != int64(i) {
				fail("reduced", fmt.Sprintf("interval %d does not carry the Reduced of an evaluation inside it", i))
			}
			if !(iv.Low < iv.High) {
				fail("order", fmt.Sprintf("interval %d is empty or reversed", i))
			}
			if i > 0 && prof[i-1].High != iv.Low {
				fail("adjacent", fmt.Sprintf("interval %d does not start where interval %d ends", i, i-1))
			}
			if i > 0 {
				// the found boundary lies strictly inside the specification's window around the true one
				b := new(big.Rat).SetFloat64(iv.Low)
				wl, wh := rat(c.Win[i-1][0][0], c.Win[i-1][0][1]), rat(c.Win[i-1][1][0], c.Win[i-1][1][1])
				if b == nil || b.Cmp(wl) <= 0 || b.Cmp(wh) >= 0 {
					fail("boundary", fmt.Sprintf("boundary %d found at %v, the true one is %v: allowed (%s, %s)", i, iv.Low, bps[i-1], wl.RatString(), wh.RatString()))
				}
			}
		}
		if f := new(big.Rat).SetFloat64(prof[0].Low); f == nil || f.Cmp(lo) != 0 {
			fail("cover", "the first interval does not start at low")
		}
		if f := new(big.Rat).SetFloat64(prof[len(prof)-1].High); f == nil || f.Cmp(hi) != 0 {
			fail("cover", "the last interval does not end at high")
		}
		sum.Count("profile_step_fn_evaluations", evals)
		if sum.Cases%997 == 5 {
			sum.Sample(map[string]any{"bps": bps, "vals": c.Vals, "log": c.Log, "grain": ratF(c.Grain), "profile": ivString(prof)})
		}
	}
	return nil
}

func ivString(p []community.Interval) string {
	s := "["
	for i, iv := range p {
		if i > 0 {
			s += " "
		}
		s += fmt.Sprintf("[%v,%v):%v", iv.Low, iv.High, iv.Score)
	}
	return s + "]"
}

// wcontractCase: which concrete types community.Weight / WeightMultiplex accept.
type wcontractCase struct {
	K     string `json:"k"`
	Types []struct {
		Fn    string `json:"fn"`
		T     string `json:"t"`
		Panic bool   `json:"panic"`
	} `json:"types"`
}

// foreign wrappers: every method of the real hierarchy, but another concrete type.
type foreignReduced struct{ community.ReducedGraph }
type foreignReducedMultiplex struct{ community.ReducedMultiplex }

func replayWeightContract(c *wcontractCase, raw json.RawMessage, seed int64, sum *core.Summary) {
	rnd := rand.New(rand.NewPCG(uint64(seed), 0xC15D))
	made := map[string]any{}
	for _, dir := range []bool{false, true} {
		L := buildLayered(rnd, 8, dir, idScheme(1, 8), 2, []layerPlan{
			{weighted: true, pin: 0.8, pout: 0.1, maxM: 200}, {weighted: false, pin: 0.7, pout: 0.1, maxM: 200}})
		mg, err := L.multiplex()
		if err != nil {
			sum.Fail("community:NewLayers:error", err.Error(), raw)
			return
		}
		o := core.CallTimeout(30*time.Second, func() {
			r := community.Modularize(L.layers[0], 1, rand.NewPCG(1, 1))
			m := community.ModularizeMultiplex(mg, []float64{1, 2}, nil, false, rand.NewPCG(1, 1))
			made[map[bool]string{false: "ReducedUndirected", true: "ReducedDirected"}[dir]] = r
			made[map[bool]string{false: "ReducedUndirectedMultiplex", true: "ReducedDirectedMultiplex"}[dir]] = m
			if !dir {
				made["foreign/Weight"] = foreignReduced{r}
				made["foreign/WeightMultiplex"] = foreignReducedMultiplex{m}
			}
		})
		if o.Panicked || o.Hung {
			sum.Fail("community:Weight:setup", o.Text, raw)
			return
		}
	}
	for _, t := range c.Types {
		key := t.T
		if key == "foreign" {
			key = "foreign/" + t.Fn
		}
		sum.Cases++
		var o core.Outcome
		switch g := made[key].(type) {
		case community.ReducedGraph:
			o = core.Call(func() { community.Weight(g) })
		case community.ReducedMultiplex:
			o = core.Call(func() { community.WeightMultiplex(g) })
		default:
			sum.Fail("community:Weight:type-contract", fmt.Sprintf("no %s value of type %s could be made", t.Fn, t.T), raw)
			continue
		}
		if o.Panicked != t.Panic || (o.Panicked && o.Runtime) {
			sum.Fail("community:Weight:type-contract", fmt.Sprintf("community.%s on a %s: panic expected %v, got %v %s", t.Fn, t.T, t.Panic, o.Panicked, o.Text), raw)
		}
	}
}
