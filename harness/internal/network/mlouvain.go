package network

import (
	"encoding/json"
	"fmt"
	"math"
	"math/rand/v2"
	"sort"
	"strconv"
	"time"

	"gonum.org/v1/gonum/graph"
	"gonum.org/v1/gonum/graph/community"
	"gonum.org/v1/gonum/graph/simple"

	"gonum.org/v1/gonum/verifharness/internal/core"
)

func init() {
	core.RegisterRecord("mlouvain", recordMLouvain)
	core.RegisterReplay("mlouvain-q", replayMLouvainQ)
}

// layered is a random multiplex input: nl graphs on the same ids together with
// the integer adjacency matrices handed to the specification (model index =
// rank of the id, 1-based; adj[layer][i][j] is the weight the container holds,
// -1 for every edge of an unweighted layer whose layer weight is negative).
type layered struct {
	n      int
	dir    bool
	ids    []int64
	model  map[int64]int
	layers []graph.Graph
	adj    [][][]int
}

// layerPlan says how one layer is to be filled.
type layerPlan struct {
	weighted bool    // Weighted* container, weights 1..3 in magnitude
	neg      bool    // non-positive weights (a layer with a negative layer weight)
	pin      float64 // edge probability inside a planted block
	pout     float64 // edge probability between blocks
	maxM     int     // stop adding edges when the matrix sum would exceed this
}

func idScheme(kind, n int) []int64 {
	ids := make([]int64, n)
	for i := range ids {
		switch kind % 3 {
		case 0:
			ids[i] = int64(i) // dense ids
		case 1:
			ids[i] = int64(3*i + 7)
		default:
			ids[i] = int64(1000 - 5*i) // descending: model order != insertion order
		}
	}
	return ids
}

// buildLayered makes the layers on the real containers. Nothing is computed
// from them: adj records what was inserted.
func buildLayered(rnd *rand.Rand, n int, dir bool, ids []int64, blocks int, plans []layerPlan) *layered {
	L := &layered{n: n, dir: dir, ids: ids, model: map[int64]int{}}
	sorted := append([]int64(nil), ids...)
	sort.Slice(sorted, func(i, j int) bool { return sorted[i] < sorted[j] })
	for i, id := range sorted {
		L.model[id] = i + 1
	}
	for _, pl := range plans {
		adj := make([][]int, n)
		for i := range adj {
			adj[i] = make([]int, n)
		}
		var g graph.Graph
		var setEdge func(u, v int64, w int)
		switch {
		case dir && pl.weighted:
			gg := simple.NewWeightedDirectedGraph(0, 0)
			g, setEdge = gg, func(u, v int64, w int) {
				gg.SetWeightedEdge(simple.WeightedEdge{F: simple.Node(u), T: simple.Node(v), W: float64(w)})
			}
		case dir:
			gg := simple.NewDirectedGraph()
			g, setEdge = gg, func(u, v int64, w int) { gg.SetEdge(simple.Edge{F: simple.Node(u), T: simple.Node(v)}) }
		case pl.weighted:
			gg := simple.NewWeightedUndirectedGraph(0, 0)
			g, setEdge = gg, func(u, v int64, w int) {
				gg.SetWeightedEdge(simple.WeightedEdge{F: simple.Node(u), T: simple.Node(v), W: float64(w)})
			}
		default:
			gg := simple.NewUndirectedGraph()
			g, setEdge = gg, func(u, v int64, w int) { gg.SetEdge(simple.Edge{F: simple.Node(u), T: simple.Node(v)}) }
		}
		for _, id := range ids {
			g.(graph.NodeAdder).AddNode(simple.Node(id))
		}
		total := 0
		for i := 0; i < n; i++ {
			for j := 0; j < n; j++ {
				if i == j || (!dir && j < i) {
					continue
				}
				p := pl.pout
				if i%blocks == j%blocks {
					p = pl.pin
				}
				if rnd.Float64() >= p {
					continue
				}
				w := 1
				if pl.weighted {
					w = 1 + rnd.IntN(3)
				}
				add := w
				if !dir {
					add = 2 * w
				}
				if total+add > pl.maxM {
					continue
				}
				total += add
				if pl.neg {
					w = -w
				}
				setEdge(ids[i], ids[j], w)
				mi, mj := L.model[ids[i]]-1, L.model[ids[j]]-1
				adj[mi][mj] = w
				if !dir {
					adj[mj][mi] = w
				}
			}
		}
		L.layers = append(L.layers, g)
		L.adj = append(L.adj, adj)
	}
	return L
}

func (L *layered) multiplex() (community.Multiplex, error) {
	if L.dir {
		gs := make([]graph.Directed, len(L.layers))
		for i, g := range L.layers {
			gs[i] = g.(graph.Directed)
		}
		return community.NewDirectedLayers(gs...)
	}
	gs := make([]graph.Undirected, len(L.layers))
	for i, g := range L.layers {
		gs[i] = g.(graph.Undirected)
	}
	return community.NewUndirectedLayers(gs...)
}

// mlevelRec is the projection of one level of a multiplex Louvain hierarchy.
// Nothing is derived here: every field is what the public API of the level returned.
type mlevelRec struct {
	NN     int         `json:"nn"`     // number of nodes of this level
	Comms  [][]int     `json:"comms"`  // Communities(): original nodes as model indices 1..n
	Struct [][]int     `json:"struct"` // Structure(): ids of this level's own nodes
	W      [][][]int64 `json:"w"`      // per layer: Layer(l).Weight(i,j) (0 when it reports no edge)
	Has    [][][]int   `json:"has"`    // per layer: 1 iff Weight(i,j) reports an edge, i != j
	WInt   bool        `json:"wint"`   // every weight was an integer value
	Q      []string    `json:"q"`      // QMultiplex(level, level.Structure(), weights, resolutions)
	QO     []string    `json:"qo"`     // QMultiplex(original layers, level.Communities(), weights, resolutions)
}

type mrunRec struct {
	Op     string      `json:"op"`
	Run    int         `json:"run"`
	N      int         `json:"n"`
	Dir    bool        `json:"dir"`
	NL     int         `json:"nl"`
	LW     []int       `json:"lw"`
	G      [][2]int    `json:"g"`
	All    bool        `json:"all"`
	WForm  string      `json:"wform"`
	GForm  string      `json:"gform"`
	Adj    [][][]int   `json:"adj"`
	Levels []mlevelRec `json:"levels"` // base level first, top level last
	IDs    []int64     `json:"ids"`
	Seed   [2]uint64   `json:"seed"`
}

// isNilMLevel: Expanded() returns a typed nil pointer inside the interface at the lowest level.
func isNilMLevel(p community.ReducedMultiplex) bool {
	switch p := p.(type) {
	case nil:
		return true
	case *community.ReducedUndirectedMultiplex:
		return p == nil
	case *community.ReducedDirectedMultiplex:
		return p == nil
	}
	return false
}

// layerOf returns layer l of a (reduced or original) multiplex graph.
func layerOf(mg community.Multiplex, l int) graph.Graph {
	switch mg := mg.(type) {
	case community.UndirectedMultiplex:
		return mg.Layer(l)
	case community.DirectedMultiplex:
		return mg.Layer(l)
	}
	return nil
}

func ftoks(v []float64) []string {
	s := make([]string, len(v))
	for i, x := range v {
		s[i] = strconv.FormatFloat(x, 'g', -1, 64)
	}
	return s
}

// recordMLouvain: seeded ModularizeMultiplex runs on 2- and 3-layer graphs.
// args: family=undir|dir, runs=, maxn=, weights=explicit|nil (nil: every layer weight is 1
// and the weights argument is nil, "layers are equally weighted").
func recordMLouvain(out *core.Out, args []string, seed int64, sum *core.Summary) error {
	runs := argInt(args, "runs", 10)
	maxN := argInt(args, "maxn", 40)
	dir := argStr(args, "family", "undir") == "dir"
	nilWeights := argStr(args, "weights", "explicit") == "nil"
	rnd := rand.New(rand.NewPCG(uint64(seed), 0xC15A))
	gammas := [][2]int{{1, 1}, {1, 2}, {2, 1}}
	for r := 1; r <= runs; r++ {
		n := 4 + rnd.IntN(maxN-3)
		if r%7 == 0 {
			n = 2 + rnd.IntN(4)
		}
		nl := 2 + r%2
		blocks := 1 + rnd.IntN(4)
		negLast := r%3 == 0 && !nilWeights
		lw := make([]int, nl)
		plans := make([]layerPlan, nl)
		for y := range plans {
			lw[y] = 1 + rnd.IntN(3)
			if nilWeights {
				lw[y] = 1
			}
			pin := 0.15 + 0.6*rnd.Float64()
			if n > 25 {
				pin *= 0.5
			}
			plans[y] = layerPlan{weighted: rnd.IntN(2) == 0, pin: pin, pout: 0.08 * rnd.Float64(), maxM: 4000}
		}
		if negLast {
			// negative links mostly run between the planted blocks
			lw[nl-1] = -(1 + rnd.IntN(2))
			plans[nl-1] = layerPlan{weighted: rnd.IntN(3) > 0, neg: true, pin: 0.03 * rnd.Float64(), pout: 0.05 + 0.25*rnd.Float64(), maxM: 4000}
		}
		switch {
		case r%23 == 0: // no edge anywhere: the local mover cannot be built
			for y := range plans {
				plans[y].pin, plans[y].pout = 0, 0
			}
		case r%11 == 5: // one layer without edges
			y := rnd.IntN(nl)
			plans[y].pin, plans[y].pout = 0, 0
		}
		L := buildLayered(rnd, n, dir, idScheme(r, n), blocks, plans)
		mg, err := L.multiplex()
		if err != nil {
			sum.Fail("community:NewLayers:error", fmt.Sprintf("%v for %d layers on the same node set %v", err, nl, L.ids), nil)
			continue
		}
		// resolutions: nil (1 everywhere), a single global value, or one per layer
		var res []float64
		g := make([][2]int, nl)
		gform := []string{"nil", "single", "vector", "vector"}[r%4]
		switch gform {
		case "nil":
			for y := range g {
				g[y] = [2]int{1, 1}
			}
		case "single":
			gm := gammas[rnd.IntN(3)]
			res = []float64{float64(gm[0]) / float64(gm[1])}
			for y := range g {
				g[y] = gm
			}
		default:
			for y := range g {
				g[y] = gammas[rnd.IntN(3)]
				res = append(res, float64(g[y][0])/float64(g[y][1]))
			}
		}
		var weights []float64
		wform := "nil"
		if !nilWeights {
			wform = "explicit"
			for _, w := range lw {
				weights = append(weights, float64(w))
			}
		}
		all := (r/2)%2 == 0
		s1, s2 := uint64(seed)*1000+uint64(r), uint64(r)
		var top community.ReducedMultiplex
		o := core.CallTimeout(60*time.Second, func() { top = community.ModularizeMultiplex(mg, weights, res, all, rand.NewPCG(s1, s2)) })
		rec := mrunRec{Op: "MRun", Run: r, N: n, Dir: dir, NL: nl, LW: lw, G: g, All: all, WForm: wform, GForm: gform,
			Adj: L.adj, IDs: L.ids, Seed: [2]uint64{s1, s2}, Levels: []mlevelRec{}}
		if o.Hung || o.Panicked {
			what := map[bool]string{true: "hang", false: "panic"}[o.Hung]
			sig := "community:ModularizeMultiplex:" + what
			firstEmpty := true
			for _, row := range L.adj[0] {
				for _, w := range row {
					firstEmpty = firstEmpty && w == 0
				}
			}
			switch {
			case nilWeights:
				sig = "community:ModularizeMultiplex:nil-weights:" + what
			case firstEmpty:
				sig = "community:ModularizeMultiplex:empty-first-layer:" + what
			}
			sum.Fail(sig, fmt.Sprintf("%s; ModularizeMultiplex(%d layers, weights=%v, resolutions=%v, all=%v, PCG(%d,%d)) n=%d dir=%v ids=%v adj=%v",
				o.Text, nl, weights, res, all, s1, s2, n, dir, L.ids, L.adj), nil)
			continue
		}
		// On every other run first read the hierarchy BOTTOM-UP and scramble every returned
		// Communities() value in place (only Structure()'s result is reserved: "The returned
		// value should not be mutated"): what a level reports afterwards must not depend on
		// what an earlier caller did with an earlier answer.
		if r%2 == 1 {
			var chain []community.ReducedMultiplex
			for p := top; !isNilMLevel(p); p = p.Expanded() {
				chain = append(chain, p)
			}
			for i := len(chain) - 1; i >= 0; i-- {
				cs := chain[i].Communities()
				for a, b := 0, len(cs)-1; a < b; a, b = a+1, b-1 {
					cs[a], cs[b] = cs[b], cs[a]
				}
				for _, c := range cs {
					for a, b := 0, len(c)-1; a < b; a, b = a+1, b-1 {
						c[a], c[b] = c[b], c[a]
					}
				}
			}
			sum.Count("mruns_read_bottom_up_and_scrambled", 1)
		}
		var levels []mlevelRec
		bad := false
		for p := top; !isNilMLevel(p); p = p.Expanded() {
			lv := mlevelRec{WInt: true, Comms: [][]int{}, Struct: [][]int{}}
			lv.NN = len(graph.NodesOf(p.Nodes()))
			if d := p.Depth(); d != nl {
				sum.Fail("community:ModularizeMultiplex:depth", fmt.Sprintf("run %d: a level reports Depth()=%d for %d layers", r, d, nl), nil)
				bad = true
				break
			}
			for _, c := range p.Communities() {
				m := make([]int, 0, len(c))
				for _, x := range c {
					m = append(m, L.model[x.ID()])
				}
				lv.Comms = append(lv.Comms, m)
			}
			for _, c := range p.Structure() {
				m := make([]int, 0, len(c))
				for _, x := range c {
					m = append(m, int(x.ID()))
				}
				lv.Struct = append(lv.Struct, m)
			}
			for y := 0; y < nl; y++ {
				wg := layerOf(p, y).(graph.Weighted)
				W := make([][]int64, lv.NN)
				H := make([][]int, lv.NN)
				for i := 0; i < lv.NN; i++ {
					W[i] = make([]int64, lv.NN)
					H[i] = make([]int, lv.NN)
					for j := 0; j < lv.NN; j++ {
						w, ok := wg.Weight(int64(i), int64(j))
						if w != math.Trunc(w) || math.Abs(w) > 1e9 {
							lv.WInt = false
							w = 0
						}
						W[i][j] = int64(w)
						if ok && i != j {
							H[i][j] = 1
						}
					}
				}
				lv.W = append(lv.W, W)
				lv.Has = append(lv.Has, H)
			}
			var q, qo []float64
			oq := core.Call(func() {
				q = community.QMultiplex(p, p.Structure(), weights, res)
				qo = community.QMultiplex(mg, p.Communities(), weights, res)
			})
			if oq.Panicked || len(q) != nl || len(qo) != nl {
				sum.Fail("community:QMultiplex:on-hierarchy", fmt.Sprintf("run %d: QMultiplex on a level of the hierarchy: %s (%d, %d scores for %d layers)", r, oq.Text, len(q), len(qo), nl), nil)
				bad = true
				break
			}
			lv.Q, lv.QO = ftoks(q), ftoks(qo)
			levels = append(levels, lv)
		}
		if bad {
			continue
		}
		for i := len(levels) - 1; i >= 0; i-- {
			rec.Levels = append(rec.Levels, levels[i])
		}
		out.Emit(rec)
		sum.Traces++
		sum.Count("mlevels", len(levels))
		if len(levels) > 1 {
			sum.Count("mruns_with_aggregation", 1)
		}
		if negLast {
			sum.Count("mruns_with_negative_layer", 1)
		}
	}
	return nil
}

// mqCase is printed by MultiplexTrace.tla in emit mode: the exact Q_layer of one level of
// one recorded run next to the floats gonum reported for it.
type mqCase struct {
	K     string     `json:"k"`
	Run   int        `json:"run"`
	Level int        `json:"level"`
	N     int        `json:"n"`
	NL    int        `json:"nl"`
	Def   []bool     `json:"def"`
	Q     [][2]int64 `json:"q"`
	QF    []string   `json:"qf"`
	QOF   []string   `json:"qof"`
}

func replayMLouvainQ(in *core.Lines, args []string, seed int64, sum *core.Summary) error {
	for {
		line, ok := in.Next()
		if !ok {
			break
		}
		var c mqCase
		if err := json.Unmarshal(line, &c); err != nil {
			return fmt.Errorf("line %d: %v", in.N, err)
		}
		if c.K != "mq" {
			continue
		}
		raw := append(json.RawMessage(nil), line...)
		sum.Cases++
		if c.Level > 1 {
			sum.Nontrivial++
		}
		if len(c.Q) != c.NL || len(c.QF) != c.NL || len(c.QOF) != c.NL || len(c.Def) != c.NL {
			sum.Fail("community:ModularizeMultiplex:Q-shape", fmt.Sprintf("run %d level %d: %d layers, %d/%d/%d values", c.Run, c.Level, c.NL, len(c.Q), len(c.QF), len(c.QOF)), raw)
			continue
		}
		for y := 0; y < c.NL; y++ {
			if !c.Def[y] {
				sum.Count("q_layer_undefined_empty_layer", 1)
				continue
			}
			want := rat(c.Q[y][0], c.Q[y][1])
			for _, f := range []struct{ name, tok string }{{"reduced-level", c.QF[y]}, {"original-layers", c.QOF[y]}} {
				v, err := strconv.ParseFloat(f.tok, 64)
				if err != nil || !near(v, want, louvainQTol) {
					sum.Fail("community:ModularizeMultiplex:Q-"+f.name, fmt.Sprintf("run %d level %d layer %d (n=%d): gonum's QMultiplex on the %s is %s, exact Q_layer of the reported communities is %s", c.Run, c.Level, y, c.N, f.name, f.tok, want.RatString()), raw)
				}
			}
		}
		if sum.Cases%13 == 1 {
			sum.Sample(map[string]any{"run": c.Run, "level": c.Level, "n": c.N, "q_exact": c.Q, "q_gonum": c.QF})
		}
	}
	return nil
}
