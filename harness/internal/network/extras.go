package network

import (
	"fmt"
	"math"
	"math/big"

	"gonum.org/v1/gonum/graph"
	"gonum.org/v1/gonum/graph/network"
	"gonum.org/v1/gonum/graph/spectral"
)

// roundSlack absorbs the float rounding of a handful of operations on O(1) values.
const roundSlack = 1e-12

// hits: network.HITS on the directed graph of the case, for every tolerance the
// specification lists. Always: terminates, finite non-negative scores, unit
// 2-norm of authorities and of hubs (all zero on an edgeless graph). Where the
// specification states the limit direction d exactly: score_i*d_j = score_j*d_i
// within the deviation the specification derived from tol.
func (k *checker) hits(g graph.Directed) {
	c := k.b.c
	for ti, t := range c.Hits.Auth.Devs {
		tol := float64(t[0]) / float64(t[1])
		var m map[int64]network.HubAuthority
		if !k.call("HITS", func() { m = network.HITS(g, tol) }) {
			continue
		}
		k.sum.Count("hits_calls", 1)
		if len(m) != c.N {
			k.fail("HITS", "keys", fmt.Sprintf("tol=%v: %d keys for %d nodes", tol, len(m), c.N))
			continue
		}
		auth := make([]float64, c.N)
		hub := make([]float64, c.N)
		okv := true
		for i := 1; i <= c.N; i++ {
			ha, ok := m[k.b.id(int64(i))]
			auth[i-1], hub[i-1] = ha.Authority, ha.Hub
			for _, v := range []float64{ha.Authority, ha.Hub} {
				if !ok || math.IsNaN(v) || math.IsInf(v, 0) || v < 0 {
					okv = false
				}
			}
		}
		if !okv {
			k.fail("HITS", "range", fmt.Sprintf("tol=%v: scores not finite and non-negative: auth=%v hub=%v", tol, auth, hub))
			continue
		}
		for _, side := range []struct {
			name string
			v    []float64
			spec hitsSide
		}{{"authority", auth, c.Hits.Auth}, {"hub", hub, c.Hits.Hub}} {
			ss := 0.0
			for _, v := range side.v {
				ss += v * v
			}
			if len(c.Edges) == 0 {
				if ss != 0 {
					k.fail("HITS", "edgeless", fmt.Sprintf("tol=%v: %s scores %v on a graph without edges", tol, side.name, side.v))
				}
				continue
			}
			if math.Abs(ss-1) > roundSlack {
				k.fail("HITS", "norm", fmt.Sprintf("tol=%v: sum of squared %s scores = %v", tol, side.name, ss))
			}
			if !side.spec.Ok {
				k.sum.Count("hits_norm_only", 1)
				continue
			}
			k.sum.Count("hits_exact_direction", 1)
			dev := rat(side.spec.Devs[ti][2], side.spec.Devs[ti][3])
			dev.Add(dev, new(big.Rat).SetFloat64(roundSlack))
			d := side.spec.D
			for i := 0; i < c.N; i++ {
				for j := i + 1; j < c.N; j++ {
					// |v_i d_j - v_j d_i| <= dev (d_i + d_j)
					l := new(big.Rat).Mul(new(big.Rat).SetFloat64(side.v[i]), rat(d[j], 1))
					r := new(big.Rat).Mul(new(big.Rat).SetFloat64(side.v[j]), rat(d[i], 1))
					l.Sub(l, r)
					l.Abs(l)
					lim := new(big.Rat).Mul(dev, rat(d[i]+d[j], 1))
					if l.Cmp(lim) > 0 {
						k.fail("HITS", "direction", fmt.Sprintf("tol=%v: %s scores %v are not parallel to the exact limit direction %v (nodes %d,%d; allowed deviation %s)", tol, side.name, side.v, d, i+1, j+1, dev.FloatString(15)))
					}
				}
			}
		}
	}
}

// diffusion: the structural clauses of Diffuse / DiffuseToEquilibrium.
func (k *checker) diffusion(g graph.Undirected) {
	c := k.b.c
	df := c.Diff
	const foreign, foreignDst = int64(999), int64(998)
	heat := func() map[int64]float64 {
		h := map[int64]float64{foreign: 5}
		for i := 1; i <= c.N; i++ {
			h[k.b.id(int64(i))] = float64(df.Heat[i-1])
		}
		return h
	}
	var lap spectral.Laplacian
	if !k.call("NewLaplacian", func() { lap = spectral.NewLaplacian(g) }) {
		return
	}
	for _, t := range []float64{0, 0.5, 2} {
		dst := map[int64]float64{foreignDst: 42}
		var out map[int64]float64
		if !k.call("Diffuse", func() { out = network.Diffuse(dst, heat(), lap, t) }) {
			continue
		}
		k.sum.Count("diffuse_calls", 1)
		if out[foreignDst] != 42 {
			k.fail("Diffuse", "foreign-dst", fmt.Sprintf("t=%v: dst entry of a non-node changed to %v", t, out[foreignDst]))
		}
		total := 0.0
		for i := 1; i <= c.N; i++ {
			v, ok := out[k.b.id(int64(i))]
			if !ok {
				k.fail("Diffuse", "keys", fmt.Sprintf("t=%v: node model %d missing from the result", t, i))
			}
			total += v
			if t == 0 && v != float64(df.Heat[i-1]) {
				k.fail("Diffuse", "t0-identity", fmt.Sprintf("t=0: node model %d has heat %v, initial heat %d", i, v, df.Heat[i-1]))
			}
		}
		if !near(total, rat(df.Sum, 1), 1e-9) {
			k.fail("Diffuse", "conservation", fmt.Sprintf("t=%v: total heat %v, initial total %d", t, total, df.Sum))
		}
	}
	// equilibrium under the random walk Laplacian gonum builds
	var rw spectral.Laplacian
	if !k.call("NewRandomWalkLaplacian", func() { rw = spectral.NewRandomWalkLaplacian(g, 0.25) }) || len(rw.Index) != c.N {
		return
	}
	col, row := true, true
	for i := 1; i <= c.N; i++ {
		for j := 1; j <= c.N; j++ {
			got := rw.At(rw.Index[k.b.id(int64(i))], rw.Index[k.b.id(int64(j))])
			if !near(got, rat(c.Rwlap[i-1][j-1][0], c.Rwlap[i-1][j-1][1]), relTol) {
				row = false
			}
			if !near(got, rat(c.Rwlap[j-1][i-1][0], c.Rwlap[j-1][i-1][1]), relTol) {
				col = false
			}
		}
	}
	if !col && !row {
		return // reported by rwLaplacian
	}
	want := df.EquiCol
	if !col {
		want = df.EquiRow
	}
	tol := float64(df.Tol[0]) / float64(df.Tol[1])
	var eq map[int64]float64
	var conv bool
	if !k.call("DiffuseToEquilibrium", func() { eq, conv = network.DiffuseToEquilibrium(nil, heat(), rw, tol, 1000000) }) {
		return
	}
	k.sum.Count("equilibrium_calls", 1)
	if !conv {
		k.fail("DiffuseToEquilibrium", "not-converged", fmt.Sprintf("tol=%v: no convergence within 1e6 updates of a lazy random walk on %d nodes", tol, c.N))
		return
	}
	dev := rat(df.Dev[0], df.Dev[1])
	for i := 1; i <= c.N; i++ {
		v, ok := eq[k.b.id(int64(i))]
		w := rat(want[i-1][0], want[i-1][1])
		if !ok || !nearAbs(v, w, dev, roundSlack) {
			k.fail("DiffuseToEquilibrium", "equilibrium", fmt.Sprintf("tol=%v: node model %d has heat %v (present=%v), exact equilibrium %s (allowed deviation %s; column orientation=%v)", tol, i, v, ok, w.RatString(), dev.FloatString(12), col))
		}
	}
}
