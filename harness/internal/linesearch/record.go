package linesearch

import (
	"fmt"
	"math"
	"math/rand"
	"strconv"
	"strings"
	"sync"
	"time"

	"gonum.org/v1/gonum/floats"
	"gonum.org/v1/gonum/mat"
	"gonum.org/v1/gonum/optimize"
	"gonum.org/v1/gonum/optimize/functions"

	"gonum.org/v1/gonum/verifharness/internal/core"
)

// ---------------------------------------------------------------- catalogue

type objective struct {
	name string
	dim  int
	f    func(x []float64) float64
	g    func(grad, x []float64)
}

type fg interface {
	Func(x []float64) float64
	Grad(grad, x []float64)
}

// a catalogue function that panics outside its domain (HelicalValley at x[0] = 0) is turned into one
// returning NaN there
func cat(name string, dim int, p fg) objective {
	return objective{name, dim,
		func(x []float64) (v float64) {
			defer func() {
				if recover() != nil {
					v = math.NaN()
				}
			}()
			return p.Func(x)
		},
		func(g, x []float64) {
			defer func() {
				if recover() != nil {
					for i := range g {
						g[i] = math.NaN()
					}
				}
			}()
			p.Grad(g, x)
		}}
}

// planted strictly convex quadratic 1/2 (x-x*)^T A (x-x*), A integer tridiagonal and strictly
// diagonally dominant, x* integer
func quadratic(rng *rand.Rand, dim int) objective {
	A := mat.NewSymDense(dim, nil)
	for i := 0; i < dim; i++ {
		A.SetSym(i, i, float64(3+rng.Intn(6)))
		if i+1 < dim {
			A.SetSym(i, i+1, float64(rng.Intn(3)-1))
		}
	}
	xs := make([]float64, dim)
	for i := range xs {
		xs[i] = float64(rng.Intn(7) - 3)
	}
	av := func(x []float64) (*mat.VecDense, *mat.VecDense) {
		v := mat.NewVecDense(dim, nil)
		for i := range x {
			v.SetVec(i, x[i]-xs[i])
		}
		var r mat.VecDense
		r.MulVec(A, v)
		return v, &r
	}
	return objective{fmt.Sprintf("quadratic%d", dim), dim,
		func(x []float64) float64 { v, r := av(x); return 0.5 * mat.Dot(v, r) },
		func(g, x []float64) {
			_, r := av(x)
			for i := range g {
				g[i] = r.AtVec(i)
			}
		}}
}

func objectives(rng *rand.Rand) []objective {
	return []objective{
		quadratic(rng, 2), quadratic(rng, 3), quadratic(rng, 5), quadratic(rng, 8),
		cat("ExtendedRosenbrock2", 2, functions.ExtendedRosenbrock{}),
		cat("ExtendedRosenbrock6", 6, functions.ExtendedRosenbrock{}),
		cat("Beale", 2, functions.Beale{}),
		cat("ExtendedPowellSingular4", 4, functions.ExtendedPowellSingular{}),
		cat("ExtendedPowellSingular8", 8, functions.ExtendedPowellSingular{}),
		cat("BrownBadlyScaled", 2, functions.BrownBadlyScaled{}),
		cat("PowellBadlyScaled", 2, functions.PowellBadlyScaled{}),
		cat("Wood", 4, functions.Wood{}),
		cat("HelicalValley", 3, functions.HelicalValley{}),
		cat("Trigonometric5", 5, functions.Trigonometric{}),
		cat("VariablyDimensioned4", 4, functions.VariablyDimensioned{}),
		cat("PenaltyI4", 4, functions.PenaltyI{}),
		cat("BrownAndDennis", 4, functions.BrownAndDennis{}),
		cat("Box3D", 3, functions.Box3D{}),
		cat("Watson6", 6, functions.Watson{}),
	}
}

type lsSpec struct {
	name string
	cfg  lsConfig
	mk   func() optimize.Linesearcher
}

func linesearchers() []lsSpec {
	bt := func(d, c float64) lsSpec {
		return lsSpec{fmt.Sprintf("Backtracking(%g,%g)", d, c), lsConfig{Kind: "backtracking", Decrease: d, Contraction: c},
			func() optimize.Linesearcher { return &optimize.Backtracking{DecreaseFactor: d, ContractionFactor: c} }}
	}
	bi := func(c float64) lsSpec {
		return lsSpec{fmt.Sprintf("Bisection(%g)", c), lsConfig{Kind: "bisection", Decrease: 0, Curvature: c},
			func() optimize.Linesearcher { return &optimize.Bisection{CurvatureFactor: c} }}
	}
	mt := func(d, c, lo, hi float64) lsSpec {
		return lsSpec{fmt.Sprintf("MoreThuente(%g,%g,%g,%g)", d, c, lo, hi),
			lsConfig{Kind: "morethuente", Decrease: d, Curvature: c, MinStep: lo, MaxStep: hi},
			func() optimize.Linesearcher {
				return &optimize.MoreThuente{DecreaseFactor: d, CurvatureFactor: c, MinimumStep: lo, MaximumStep: hi}
			}}
	}
	return []lsSpec{
		bt(1e-4, 0.5), bt(0.25, 0.125), bt(0.5, 0.75),
		bi(0.9), bi(0.5), bi(0.1),
		mt(0, 0.9, 0, 1e20), mt(1e-4, 0.9, 0, 1e20), mt(1e-4, 0.1, 0, 1e20), mt(0.25, 0.5, 0, 1e20),
		mt(1e-4, 0.9, 0, 0.75), mt(1e-4, 0.5, 0.05, 1e20),
	}
}

// group is the part of the recording a Linesearcher configuration is written to (one trace file per group):
// its kind, except that MoreThuente with a MinimumStep / MaximumStep that can exclude the initial step of a
// method is kept apart
func (l lsSpec) group() string {
	if l.cfg.Kind == "morethuente" && (l.cfg.MaxStep < 1e20 || l.cfg.MinStep > 0) {
		return "morethuente-bounds"
	}
	return l.cfg.Kind
}

type methodSpec struct {
	name string
	// mk returns a fresh method object: as optimize.Method (with the given Linesearcher installed)
	// and as NextDirectioner for the direct drive
	mk func(ls optimize.Linesearcher) (optimize.Method, optimize.NextDirectioner)
}

func methods() []methodSpec {
	gd := func(name string, ss func() optimize.StepSizer) methodSpec {
		return methodSpec{"GradientDescent/" + name, func(ls optimize.Linesearcher) (optimize.Method, optimize.NextDirectioner) {
			m := &optimize.GradientDescent{Linesearcher: ls, StepSizer: ss()}
			return m, m
		}}
	}
	cg := func(name string, v func() optimize.CGVariant) methodSpec {
		return methodSpec{"CG/" + name, func(ls optimize.Linesearcher) (optimize.Method, optimize.NextDirectioner) {
			m := &optimize.CG{Linesearcher: ls, Variant: v(), InitialStep: &optimize.FirstOrderStepSize{},
				IterationRestartFactor: 6, AngleRestartThreshold: -0.9}
			return m, m
		}}
	}
	return []methodSpec{
		gd("Quadratic", func() optimize.StepSizer { return &optimize.QuadraticStepSize{} }),
		gd("FirstOrder", func() optimize.StepSizer { return &optimize.FirstOrderStepSize{} }),
		gd("Constant", func() optimize.StepSizer { return optimize.ConstantStepSize{Size: 0.5} }),
		{"BFGS", func(ls optimize.Linesearcher) (optimize.Method, optimize.NextDirectioner) {
			m := &optimize.BFGS{Linesearcher: ls}
			return m, m
		}},
		{"LBFGS/3", func(ls optimize.Linesearcher) (optimize.Method, optimize.NextDirectioner) {
			m := &optimize.LBFGS{Linesearcher: ls, Store: 3}
			return m, m
		}},
		{"LBFGS/15", func(ls optimize.Linesearcher) (optimize.Method, optimize.NextDirectioner) {
			m := &optimize.LBFGS{Linesearcher: ls, Store: 15}
			return m, m
		}},
		cg("FletcherReeves", func() optimize.CGVariant { return &optimize.FletcherReeves{} }),
		cg("PolakRibierePolyak", func() optimize.CGVariant { return &optimize.PolakRibierePolyak{} }),
		cg("HestenesStiefel", func() optimize.CGVariant { return &optimize.HestenesStiefel{} }),
		cg("DaiYuan", func() optimize.CGVariant { return &optimize.DaiYuan{} }),
		cg("HagerZhang", func() optimize.CGVariant { return &optimize.HagerZhang{} }),
	}
}

// poison makes the objective return NaN / +Inf (or a NaN gradient component) at one
// seed-chosen call
type poison struct {
	atF, atG int     // 1-based call numbers, 0 = never
	val      float64 // NaN or +Inf
	nf, ng   int
	firstBad string // "F" / "G": the first non-finite output at a finite point ("" = all outputs finite)
}

func finiteVec(x []float64) bool {
	for _, v := range x {
		if math.IsNaN(v) || math.IsInf(v, 0) {
			return false
		}
	}
	return true
}

// class of a run by what the objective fed into the code under test
func (p *poison) class() string {
	switch p.firstBad {
	case "F":
		return "nonfinF"
	case "G":
		return "nonfinG"
	}
	return "finite"
}

func (o objective) wrapped(p *poison) (func([]float64) float64, func(g, x []float64)) {
	return func(x []float64) float64 {
			p.nf++
			v := o.f(x)
			if p.nf == p.atF {
				v = p.val
			}
			if p.firstBad == "" && finiteVec(x) && (math.IsNaN(v) || math.IsInf(v, 0)) {
				p.firstBad = "F"
			}
			return v
		}, func(g, x []float64) {
			p.ng++
			o.g(g, x)
			if p.ng == p.atG {
				g[p.ng%len(g)] = p.val
			}
			if p.firstBad == "" && finiteVec(x) && !finiteVec(g) {
				p.firstBad = "G"
			}
		}
}

type scenario struct {
	mode    string
	m       methodSpec
	ls      lsSpec
	obj     objective
	x0      []float64
	poison  *poison
	maxMaj  int
	maxEval int
	fLimit  int // min mode: Settings.FuncEvaluations
	gLimit  int // min mode: Settings.GradEvaluations

	// second != nil: after this run the SAME method / LinesearchMethod / Linesearcher values are used for
	// another run ("reinit")
	second *scenario
}

func (s scenario) name() string {
	n := fmt.Sprintf("%s %s %s %s x0=%v poisonF=%d(%v)", s.mode, s.m.name, s.ls.name, s.obj.name, s.x0, s.poison.atF, s.poison.val)
	if s.second != nil {
		n += fmt.Sprintf(" budget maj=%d eval=%d F=%d G=%d, then the same values on %s x0=%v", s.maxMaj, s.maxEval, s.fLimit, s.gLimit,
			s.second.obj.name, s.second.x0)
	}
	return n
}

// again forgets what was observed in the run that is over and logs that the same values are used
// for another run.
func again(fa *facts, px *lsProxy, emit func(event)) {
	fa.mu.Lock()
	fa.haveF, fa.haveG, fa.haveGd, fa.haveMaj, fa.haveND, fa.haveX = false, false, false, false, false, false
	fa.xk, fa.dir, fa.lastX = nil, nil, nil
	px.started = false
	emit(event{"k": "reinit"})
	fa.mu.Unlock()
}

// ---------------------------------------------------------------- direct drive

// ndProxy records what the real NextDirectioner handed to LinesearchMethod.
type ndProxy struct {
	inner optimize.NextDirectioner
	fa    *facts
}

func (n *ndProxy) note(which string, loc *optimize.Location, dir []float64, step float64) {
	fa := n.fa
	fa.mu.Lock()
	fa.haveND, fa.ndStep, fa.ndWhich = true, step, which
	fa.xk = append(fa.xk[:0], loc.X...)
	fa.dir = append(fa.dir[:0], dir...)
	fa.g0d = math.Float64bits(floats.Dot(loc.Gradient, dir))
	fa.mu.Unlock()
}

func (n *ndProxy) InitDirection(loc *optimize.Location, dir []float64) float64 {
	s := n.inner.InitDirection(loc, dir)
	n.note("init", loc, dir, s)
	return s
}

func (n *ndProxy) NextDirection(loc *optimize.Location, dir []float64) float64 {
	s := n.inner.NextDirection(loc, dir)
	n.note("next", loc, dir, s)
	return s
}

func sameVec(a, b []float64) bool {
	if len(a) != len(b) {
		return false
	}
	for i := range a {
		if math.Float64bits(a[i]) != math.Float64bits(b[i]) {
			return false
		}
	}
	return true
}

// xeq: is x the point start + step*dir (1 exactly, 2 within a few ulp, 0 no)
func xeqTri(x, xk, dir []float64, step float64) int {
	r := 1
	for i := range x {
		w := xk[i] + step*dir[i]
		if math.Float64bits(w) == math.Float64bits(x[i]) {
			continue
		}
		if math.Abs(w-x[i]) <= 4*eps*(math.Abs(xk[i])+math.Abs(step*dir[i])) {
			r = 2
			continue
		}
		return 0
	}
	return r
}

// runDirect drives the real optimize.LinesearchMethod (real NextDirectioner, real
// Linesearcher, both behind recording proxies).  The driver only evaluates what it is asked
// to evaluate and stops the run on a small gradient or a budget.  With sc.second the same
// LinesearchMethod, NextDirectioner and Linesearcher values are then initialised again.
func runDirect(sc scenario, emit func(event)) {
	fa := &facts{direct: true}
	px := &lsProxy{inner: sc.ls.mk(), cfg: sc.ls.cfg, fa: fa, emit: emit}
	_, nd := sc.m.mk(px)
	lsm := &optimize.LinesearchMethod{NextDirectioner: &ndProxy{nd, fa}, Linesearcher: px}
	directRun(sc, lsm, px, fa, emit)
	if sc.second != nil {
		again(fa, px, emit)
		directRun(*sc.second, lsm, px, fa, emit)
	}
}

func directRun(sc scenario, lsm *optimize.LinesearchMethod, px *lsProxy, fa *facts, emit func(event)) {
	f, g := sc.obj.wrapped(sc.poison)

	dim := len(sc.x0)
	loc := &optimize.Location{X: append([]float64(nil), sc.x0...), Gradient: make([]float64, dim)}
	loc.F = f(loc.X)
	g(loc.Gradient, loc.X)
	if math.IsNaN(loc.F) || math.IsInf(loc.F, 0) || floats.HasNaN(loc.Gradient) {
		emit(event{"k": "end"})
		return
	}
	fa.majF, fa.haveMaj = math.Float64bits(loc.F), true
	emit0 := func(e event) { fa.mu.Lock(); emit(e); fa.mu.Unlock() }

	nev, nmaj := 0, 0
	op, err := lsm.Init(loc)
	for {
		if err != nil {
			e := event{"k": "fail", "err": errString(err), "g0nonneg": 2}
			if e["err"] == "nondescent" {
				e["g0nonneg"] = b2i(math.Float64frombits(fa.g0d) >= 0)
			}
			emit0(e)
			return
		}
		switch {
		case op == optimize.MajorIteration:
			e := event{"k": "major"}
			e["feq"] = b2i(fa.haveF && math.Float64bits(loc.F) == fa.fbits)
			e["xeq"] = b2i(fa.haveX && sameVec(loc.X, fa.lastX))
			emit0(e)
			fa.majF, fa.haveMaj = math.Float64bits(loc.F), true
			nmaj++
			if nmaj >= sc.maxMaj || floats.Norm(loc.Gradient, math.Inf(1)) < 1e-9 {
				emit0(event{"k": "end"})
				return
			}
		case op&^(optimize.FuncEvaluation|optimize.GradEvaluation) == 0 && op != optimize.NoOperation:
			if nev >= sc.maxEval {
				emit0(event{"k": "end"})
				return
			}
			nev++
			e := event{"k": "eval", "what": opString(op)}
			e["samex"] = b2i(fa.haveX && sameVec(loc.X, fa.lastX))
			e["xeq"] = xeqTri(loc.X, fa.xk, fa.dir, px.cur)
			if op&optimize.FuncEvaluation != 0 {
				loc.F = f(loc.X)
				fa.haveF, fa.fbits = true, math.Float64bits(loc.F)
			}
			if op&optimize.GradEvaluation != 0 {
				g(loc.Gradient, loc.X)
				fa.haveG, fa.gdbits = true, math.Float64bits(floats.Dot(loc.Gradient, fa.dir))
			}
			fa.lastX, fa.haveX = append(fa.lastX[:0], loc.X...), true
			emit0(e)
		default:
			emit0(event{"k": "eval", "what": "other:" + strconv.Itoa(int(op)), "samex": 0, "xeq": 0})
			emit0(event{"k": "end"})
			return
		}
		op, err = lsm.Iterate(loc)
	}
}

// ---------------------------------------------------------------- through optimize.Minimize

type minRecorder struct {
	fa   *facts
	px   *lsProxy
	emit func(event)
}

func (r *minRecorder) Init() error { return nil }

func (r *minRecorder) Record(loc *optimize.Location, op optimize.Operation, _ *optimize.Stats) error {
	fa := r.fa
	fa.mu.Lock()
	defer fa.mu.Unlock()
	const ev = optimize.FuncEvaluation | optimize.GradEvaluation | optimize.HessEvaluation
	switch {
	case op == optimize.MajorIteration:
		if r.px.started {
			e := event{"k": "major"}
			e["feq"] = b2i(fa.haveF && math.Float64bits(loc.F) == fa.fbits)
			e["xeq"] = b2i(fa.haveX && sameVec(loc.X, fa.lastX))
			r.emit(e)
		}
		fa.majF, fa.haveMaj = math.Float64bits(loc.F), true
	case op != optimize.NoOperation && op&^ev == 0:
		if r.px.started {
			e := event{"k": "eval", "what": opString(op), "xeq": 2}
			e["samex"] = b2i(fa.haveX && sameVec(loc.X, fa.lastX))
			r.emit(e)
		}
		if op&optimize.FuncEvaluation != 0 {
			fa.haveF, fa.fbits = true, math.Float64bits(loc.F)
		}
		fa.lastX, fa.haveX = append(fa.lastX[:0], loc.X...), true
	}
	return nil
}

// runMinimize runs the real optimize.Minimize with the real Method whose Linesearcher is the
// recording proxy; the operations LinesearchMethod issues are observed through the Recorder.
// With sc.second the same Method value (and Linesearcher) is used for another Minimize call.
func runMinimize(sc scenario, emit func(event), sum *core.Summary) {
	fa := &facts{}
	px := &lsProxy{inner: sc.ls.mk(), cfg: sc.ls.cfg, fa: fa, emit: emit}
	m, _ := sc.m.mk(px)
	if !minimizeRun(sc, m, px, fa, emit, sum) || sc.second == nil {
		return
	}
	again(fa, px, emit)
	minimizeRun(*sc.second, m, px, fa, emit, sum)
}

// minimizeRun reports whether the run came back (so that the values may be used again).
func minimizeRun(sc scenario, m optimize.Method, px *lsProxy, fa *facts, emit func(event), sum *core.Summary) bool {
	f, g := sc.obj.wrapped(sc.poison)
	p := optimize.Problem{Func: f, Grad: g}
	set := &optimize.Settings{
		Recorder:        &minRecorder{fa, px, emit},
		Converger:       optimize.NeverTerminate{},
		MajorIterations: sc.maxMaj,
		FuncEvaluations: sc.fLimit,
		GradEvaluations: sc.gLimit,
		Concurrent:      0,
	}
	var res *optimize.Result
	var err error
	o := core.CallTimeout(20*time.Second, func() { res, err = optimize.Minimize(p, sc.x0, set, m) })
	if o.Hung || o.Panicked {
		sum.Fail(fmt.Sprintf("linesearch:minimize-%s:%s:%s", map[bool]string{true: "hang", false: "panic"}[o.Hung], sc.ls.cfg.Kind, sc.poison.class()), sc.name()+": "+o.Text, nil)
		emit(event{"k": "end"})
		return false
	}
	_ = res
	es := errString(err)
	if px.started && (es == "lsfailure" || es == "lsbound" || es == "noprogress" || es == "nondescent") {
		emit(event{"k": "fail", "err": es, "g0nonneg": 2})
		return true
	}
	emit(event{"k": "end"})
	return true
}

// ---------------------------------------------------------------- scenarios and registration

func dyadic(rng *rand.Rand, dim int) []float64 {
	x := make([]float64, dim)
	for i := range x {
		x[i] = float64(rng.Intn(33)-16) / 8
	}
	return x
}

func scenarios(mode string, seed int64, per int) []scenario {
	rng := rand.New(rand.NewSource(seed*7919 + int64(len(mode))))
	objs := objectives(rng)
	var out []scenario
	for _, m := range methods() {
		for _, ls := range linesearchers() {
			for k := 0; k < per; k++ {
				o := objs[rng.Intn(len(objs))]
				if k == 0 {
					o = objs[rng.Intn(4)] // always one planted quadratic
				}
				sc := scenario{mode: mode, m: m, ls: ls, obj: o, x0: dyadic(rng, o.dim), maxMaj: 12 + rng.Intn(14), maxEval: 150}
				sc.poison = &poison{}
				switch rng.Intn(5) {
				case 0:
					sc.poison = &poison{atF: 3 + rng.Intn(20), val: math.NaN()}
				case 1:
					sc.poison = &poison{atF: 3 + rng.Intn(20), val: math.Inf(1)}
				}
				sc.fLimit = 400
				if rng.Intn(3) == 0 {
					sc.fLimit = 2 + rng.Intn(40) // a limit that can fall inside a line search
				}
				out = append(out, sc)
			}
		}
	}
	return out
}

// reuseScenarios: histories of two runs made with the same method / LinesearchMethod / Linesearcher
// values.  The first run is stopped by a small budget - direct drive: the number of evaluations
// performed (1..8) or of major iterations (1..2); Minimize: Settings.GradEvaluations (1..6) or
// FuncEvaluations (1..12) -, i.e. at every place of LinesearchMethod's cycle including "the
// evaluation completing an accepted step is outstanding"; the second run is on another objective
// (another dimension as a rule).  per budgets are taken for each method x Linesearcher pair, rotating
// through the list so that every count occurs for every kind of Linesearcher.  Only objectives that
// return finite values are used (what follows a non-finite value is judged by the single runs).
func reuseScenarios(mode string, seed int64, per int) []scenario {
	rng := rand.New(rand.NewSource(seed*15485863 + int64(len(mode))))
	objs := objectives(rng)
	type budget struct{ maxMaj, maxEval, fLimit, gLimit int }
	var budgets []budget
	if mode == "min" {
		for k := 1; k <= 6; k++ {
			budgets = append(budgets, budget{maxMaj: 0, fLimit: 400, gLimit: k})
		}
		for k := 1; k <= 12; k++ {
			budgets = append(budgets, budget{maxMaj: 0, fLimit: k})
		}
		budgets = append(budgets, budget{maxMaj: 1, fLimit: 400}, budget{maxMaj: 2, fLimit: 400}, budget{maxMaj: 3, fLimit: 400})
	} else {
		for k := 1; k <= 8; k++ {
			budgets = append(budgets, budget{maxMaj: 100, maxEval: k})
		}
		budgets = append(budgets, budget{maxMaj: 1, maxEval: 150}, budget{maxMaj: 2, maxEval: 150})
	}
	var out []scenario
	n := 0
	for _, m := range methods() {
		for _, ls := range linesearchers() {
			if ls.group() == "morethuente-bounds" {
				continue // its single runs are already rejected for a known reason (C19-LS2)
			}
			for k := 0; k < per; k++ {
				b := budgets[n%len(budgets)]
				n++
				o1 := objs[rng.Intn(4)] // planted quadratic
				o2 := objs[rng.Intn(len(objs))]
				sc := scenario{mode: mode, m: m, ls: ls, obj: o1, x0: dyadic(rng, o1.dim), poison: &poison{},
					maxMaj: b.maxMaj, maxEval: b.maxEval, fLimit: b.fLimit, gLimit: b.gLimit}
				sc.second = &scenario{mode: mode, m: m, ls: ls, obj: o2, x0: dyadic(rng, o2.dim), poison: &poison{},
					maxMaj: 3 + rng.Intn(6), maxEval: 60, fLimit: 120}
				out = append(out, sc)
			}
		}
	}
	return out
}

func record(out *core.Out, args []string, seed int64, sum *core.Summary) error {
	mode, per, kind, class, reuse := "direct", 2, "", "", false
	for _, a := range args {
		switch {
		case a == "reuse":
			reuse = true
		case strings.HasPrefix(a, "mode="):
			mode = a[5:]
		case strings.HasPrefix(a, "per="):
			per, _ = strconv.Atoi(a[4:])
		case strings.HasPrefix(a, "kind="):
			kind = a[5:]
		case strings.HasPrefix(a, "class="):
			class = a[6:]
		}
	}
	if mode == "fc" {
		return recordFC(out, args, seed, sum)
	}
	list := scenarios(mode, seed, per)
	if reuse {
		list = reuseScenarios(mode, seed, per)
	}
	for _, sc := range list {
		// the scenario list is a function of (mode, seed, per); kind= selects a part of it, class= the runs
		// in which the objective fed (class nonfinF) or did not feed (class finite) a non-finite value
		if kind != "" && sc.ls.group() != kind {
			continue
		}
		var buf []event
		buf = append(buf, event{"k": "reset", "ls": sc.ls.cfg.Kind, "name": sc.name()})
		var outcome string
		var live sync.Mutex
		dead := false
		emit := func(e event) {
			live.Lock()
			defer live.Unlock()
			if dead { // a run abandoned by the watchdog must not write into later runs
				return
			}
			buf = append(buf, e)
			if e["k"] == "fail" {
				outcome = "fail:" + e["err"].(string)
			} else if e["k"] == "end" {
				outcome = "end"
			}
		}
		o := core.CallTimeout(40*time.Second, func() {
			if mode == "min" {
				runMinimize(sc, emit, sum)
			} else {
				runDirect(sc, emit)
			}
		})
		if o.Hung {
			live.Lock()
			dead = true
			buf = append(buf, event{"k": "end"})
			live.Unlock()
			outcome = "hang"
			sum.Fail(fmt.Sprintf("linesearch:hang:%s:%s:%s", mode, sc.ls.cfg.Kind, sc.poison.class()), "run did not return within the watchdog: "+sc.name(), nil)
		}
		if o.Panicked {
			// a panic of the code under test inside a line search is an outcome the trace must
			// show: the init event carries panic=1 (rejected by the specification)
			buf = append(buf, event{"k": "end"})
			outcome = "panic"
			sum.Count("panics", 1)
			if len(sum.Samples) < 3 {
				sum.Sample(map[string]any{"panic": o.Text, "scenario": sc.name()})
			}
		}
		live.Lock()
		dead = true
		live.Unlock()
		got := sc.poison.class()
		if sc.second != nil && got == "finite" {
			got = sc.second.poison.class()
		}
		if got == "nonfinG" {
			// a non-finite gradient component: nothing is documented about what follows, not judged
			sum.Count("runs not judged (objective returned a non-finite gradient)", 1)
		}
		if class != "" && got != class {
			continue
		}
		for _, e := range buf {
			out.Emit(e)
		}
		sum.Traces++
		sum.Count("outcome "+sc.ls.cfg.Kind+" "+outcome, 1)
		if sum.Traces%37 == 1 {
			sum.Sample(map[string]any{"scenario": sc.name(), "outcome": outcome, "events": len(buf)})
		}
	}
	return nil
}

func init() {
	core.RegisterRecord("linesearch", record)
	core.RegisterReplay("linesearch", replay)
}
