package linesearch

import (
	"encoding/json"
	"fmt"
	"math"
	"math/rand"
	"time"

	"gonum.org/v1/gonum/mat"
	"gonum.org/v1/gonum/optimize"

	"gonum.org/v1/gonum/verifharness/internal/core"
)

// ---- spec->code: histories printed by TLC from FunctionConverge.tla -----------------------

type fcCase struct {
	Iters  int `json:"iters"`
	Abs    int `json:"abs"`
	Reln   int `json:"reln"`
	Relden int `json:"relden"`
	Ev     []struct {
		K  string `json:"k"`
		F  int    `json:"f"`
		St string `json:"st"`
	} `json:"ev"`
}

func fcStatus(s optimize.Status) string {
	switch s {
	case optimize.NotTerminated:
		return "none"
	case optimize.FunctionConvergence:
		return "fconv"
	}
	return "status:" + s.String()
}

func replayFC(in *core.Lines, _ []string, _ int64, sum *core.Summary) error {
	for n := 0; ; n++ {
		b, ok := in.Next()
		if !ok {
			break
		}
		var c fcCase
		if err := json.Unmarshal(b, &c); err != nil {
			return fmt.Errorf("case %d: %v", in.N, err)
		}
		sum.Cases++
		fc := &optimize.FunctionConverge{Absolute: float64(c.Abs), Relative: float64(c.Reln) / float64(c.Relden), Iterations: c.Iters}
		bad := ""
		conv := false
		o := core.Call(func() {
			for i, e := range c.Ev {
				switch e.K {
				case "init":
					fc.Init(1)
				case "call":
					got := fcStatus(fc.Converged(&optimize.Location{X: []float64{0}, F: float64(e.F)}))
					if e.St == "fconv" {
						conv = true
					}
					if got != e.St && bad == "" {
						bad = fmt.Sprintf("event %d: Converged(F=%d) = %s, the specification says %s", i+1, e.F, got, e.St)
					}
				}
			}
		})
		if o.Panicked {
			bad = "panic: " + o.Text
		}
		if conv {
			sum.Nontrivial++
		}
		if bad != "" {
			sum.Fail("linesearch:functionconverge:status", bad, json.RawMessage(append([]byte(nil), b...)))
		} else if n%5003 == 0 {
			sum.Sample(json.RawMessage(append([]byte(nil), b...)))
		}
	}
	return nil
}

// ---- code->spec: a recording proxy around the real converger inside real Minimize runs -----

type fcProxy struct {
	inner *optimize.FunctionConverge
	emit  func(event)
	bad   *string
}

func (p *fcProxy) Init(dim int) {
	p.inner.Init(dim)
	p.emit(event{"k": "init"})
}

func (p *fcProxy) Converged(loc *optimize.Location) optimize.Status {
	s := p.inner.Converged(loc)
	f := loc.F
	if f != math.Trunc(f) || math.Abs(f) > 1e6 {
		*p.bad = fmt.Sprintf("objective value %v is not a small integer (harness error)", f)
		f = 0
	}
	p.emit(event{"k": "call", "f": int(f), "st": fcStatus(s)})
	return s
}

// seqMethod evaluates the points 0,1,2,... and announces every evaluated point as a
// MajorIteration (so that the converger sees an arbitrary, non-monotone sequence).
type seqMethod struct{ n, sent int }

func (s *seqMethod) Uses(optimize.Available) (optimize.Available, error) {
	return optimize.Available{}, nil
}
func (s *seqMethod) Init(dim, tasks int) int { s.sent = 0; return 1 }
func (s *seqMethod) Status() (optimize.Status, error) {
	return optimize.MethodConverge, nil
}
func (s *seqMethod) next(operation chan<- optimize.Task, t optimize.Task) {
	t.Op = optimize.FuncEvaluation
	t.X[0] = float64(s.sent)
	s.sent++
	operation <- t
}
func (s *seqMethod) Run(operation chan<- optimize.Task, result <-chan optimize.Task, tasks []optimize.Task) {
	s.next(operation, tasks[0])
Loop:
	for {
		t := <-result
		switch t.Op {
		case optimize.PostIteration:
			break Loop
		case optimize.FuncEvaluation:
			t.Op = optimize.MajorIteration
			operation <- t
		case optimize.MajorIteration:
			if s.sent == s.n {
				t.Op = optimize.MethodDone
				operation <- t
				continue
			}
			s.next(operation, t)
		}
	}
	for range result {
	}
	close(operation)
}

func recordFC(out *core.Out, args []string, seed int64, sum *core.Summary) error {
	runs := 300
	for _, a := range args {
		fmt.Sscanf(a, "runs=%d", &runs)
	}
	rng := rand.New(rand.NewSource(seed*104729 + 5))
	for r := 0; r < runs; r++ {
		iters := rng.Intn(6)
		abs := rng.Intn(4)
		reln := rng.Intn(5) // Relative = reln/4
		n := 5 + rng.Intn(40)
		vals := make([]float64, n)
		shape := rng.Intn(4)
		v := float64(rng.Intn(40))
		for i := range vals {
			switch shape {
			case 0: // arbitrary
				vals[i] = float64(rng.Intn(21) - 10)
			case 1: // decreasing with plateaus and small steps
				v -= float64([]int{0, 0, 1, 1, 2, 5}[rng.Intn(6)])
				vals[i] = v
			case 2: // noisy descent
				v -= float64(rng.Intn(4))
				vals[i] = v + float64(rng.Intn(5)-2)
			default: // large magnitudes: the relative term dominates
				v -= float64(rng.Intn(3))
				vals[i] = v*64 - 3000
			}
		}
		var bad string
		out.Emit(event{"k": "run", "iters": iters, "abs": abs, "reln": reln, "method": r % 3})
		fc := &fcProxy{inner: &optimize.FunctionConverge{Absolute: float64(abs), Relative: float64(reln) / 4, Iterations: iters},
			emit: func(e event) { out.Emit(e) }, bad: &bad}
		p := optimize.Problem{Func: func(x []float64) float64 {
			i := int(x[0])
			if i < 0 || i >= n || float64(i) != x[0] {
				return 1e5
			}
			return vals[i]
		}}
		var m optimize.Method
		switch r % 3 {
		case 0, 1:
			m = &seqMethod{n: n}
		default:
			// a shipped method: ListSearch announces the best value so far after every evaluation
			locs := mat.NewDense(n, 1, nil)
			for i := 0; i < n; i++ {
				locs.Set(i, 0, float64(i))
			}
			m = &optimize.ListSearch{Locs: locs}
		}
		set := &optimize.Settings{Converger: fc, Concurrent: 0}
		var res *optimize.Result
		var err error
		o := core.CallTimeout(20*time.Second, func() { res, err = optimize.Minimize(p, []float64{0}, set, m) })
		if o.Hung || o.Panicked {
			return fmt.Errorf("FunctionConverge run %d: %s", r, o.Text)
		}
		if bad != "" {
			return fmt.Errorf("FunctionConverge run %d: %s", r, bad)
		}
		st := "other"
		if res != nil && res.Status == optimize.FunctionConvergence && err == nil {
			st = "fconv"
			sum.Count("runs ended by FunctionConvergence", 1)
		}
		out.Emit(event{"k": "result", "st": st})
		sum.Traces++
	}
	return nil
}
