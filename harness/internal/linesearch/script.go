package linesearch

import (
	"encoding/json"
	"errors"
	"fmt"
	"math"
	"strings"

	"gonum.org/v1/gonum/floats"
	"gonum.org/v1/gonum/mat"
	"gonum.org/v1/gonum/optimize"

	"gonum.org/v1/gonum/verifharness/internal/core"
)

// spec->code for optimize.LinesearchMethod: one case is one complete behaviour printed by TLC
// from LineSearch.tla with ls = "script": the answers of an arbitrary Linesearcher (init / iter
// events) and of the NextDirectioner (descent or not, tiny step or not) together with the
// reactions the specification demands from LinesearchMethod (eval / major / fail events and
// the validity of the arguments it passes to Linesearcher.Iterate).  The scripted objects
// below only read their answers from the case.

type sev struct {
	K     string `json:"k"`
	Op    string `json:"op"`
	What  string `json:"what"`
	Res   string `json:"res"`
	Err   string `json:"err"`
	Same  int    `json:"same"`
	Tiny  int    `json:"tiny"`
	Feq   int    `json:"feq"`
	Fnan  int    `json:"fnan"`
	Geq   int    `json:"geq"`
	Gnan  int    `json:"gnan"`
	Samex int    `json:"samex"`
	Nd    string `json:"nd"`
}

type scase struct {
	Ls    string `json:"ls"`
	WithH int    `json:"withH"`
	Ev    []sev  `json:"ev"`
}

var errScripted = errors.New("scripted linesearcher error")

type player struct {
	c     scase
	i     int
	bad   []string
	loc   *optimize.Location
	cur   float64 // step of the current trial point
	nd    float64 // step the scripted NextDirectioner returned
	which string
	xk    []float64
	dir   []float64
	fbits uint64
	lastX []float64
	ctr   float64
}

func (p *player) fail(format string, a ...any) {
	if len(p.bad) < 6 {
		p.bad = append(p.bad, fmt.Sprintf("event %d: ", p.i)+fmt.Sprintf(format, a...))
	}
}

func (p *player) peek() sev {
	if p.i < len(p.c.Ev) {
		return p.c.Ev[p.i]
	}
	return sev{K: "<past the end>"}
}

func strOp(s string) optimize.Operation {
	var op optimize.Operation
	if strings.Contains(s, "F") {
		op |= optimize.FuncEvaluation
	}
	if strings.Contains(s, "G") {
		op |= optimize.GradEvaluation
	}
	if strings.Contains(s, "H") {
		op |= optimize.HessEvaluation
	}
	return op
}

func (p *player) direction(which string, loc *optimize.Location, dir []float64) float64 {
	e := p.peek()
	p.which = which
	p.xk = append(p.xk[:0], loc.X...)
	switch {
	case e.K == "fail" && e.Err == "nondescent":
		copy(dir, loc.Gradient) // ascent
		p.nd = 1
	case e.K == "init":
		copy(dir, loc.Gradient)
		floats.Scale(-1, dir)
		p.nd = 0.5
		if e.Tiny == 1 {
			p.nd = 1e-300
		}
	default:
		p.fail("NextDirectioner.%sDirection called, the specification expects %q", which, e.K)
		copy(dir, loc.Gradient)
		floats.Scale(-1, dir)
		p.nd = 0.5
	}
	p.dir = append(p.dir[:0], dir...)
	return p.nd
}

func (p *player) InitDirection(loc *optimize.Location, dir []float64) float64 {
	return p.direction("init", loc, dir)
}
func (p *player) NextDirection(loc *optimize.Location, dir []float64) float64 {
	return p.direction("next", loc, dir)
}

func (p *player) Init(f, g float64, step float64) optimize.Operation {
	e := p.peek()
	if e.K != "init" {
		p.fail("Linesearcher.Init called, the specification expects %q", e.K)
		return optimize.FuncEvaluation
	}
	p.i++
	if e.Nd != p.which {
		p.fail("direction obtained by %sDirection, expected %s", p.which, e.Nd)
	}
	if math.Float64bits(f) != math.Float64bits(p.loc.F) {
		p.fail("Init f0=%v, F of the location is %v", f, p.loc.F)
	}
	if want := floats.Dot(p.loc.Gradient, p.dir); g != want {
		p.fail("Init g0=%v, gradient.dir is %v", g, want)
	}
	if step != p.nd {
		p.fail("Init step=%v, NextDirectioner returned %v", step, p.nd)
	}
	p.cur = step
	return strOp(e.Op)
}

func (p *player) Iterate(f, g float64) (optimize.Operation, float64, error) {
	e := p.peek()
	if e.K != "iter" {
		p.fail("Linesearcher.Iterate called, the specification expects %q", e.K)
		return optimize.NoOperation, p.cur, errScripted
	}
	p.i++
	if e.Feq == 1 && math.Float64bits(f) != p.fbits {
		p.fail("Iterate f=%v, value evaluated at this step is %v", f, math.Float64frombits(p.fbits))
	}
	if e.Fnan == 1 && !math.IsNaN(f) {
		p.fail("Iterate f=%v, F was not evaluated at this step: NaN expected", f)
	}
	if e.Geq == 1 {
		if want := floats.Dot(p.loc.Gradient, p.dir); g != want {
			p.fail("Iterate g=%v, gradient.dir at this step is %v", g, want)
		}
	}
	if e.Gnan == 1 && !math.IsNaN(g) {
		p.fail("Iterate g=%v, the gradient was not evaluated at this step: NaN expected", g)
	}
	switch e.Res {
	case "major":
		return optimize.MajorIteration, p.cur, nil
	case "lsfailure":
		return optimize.NoOperation, p.cur, optimize.ErrLinesearcherFailure
	case "other":
		return optimize.NoOperation, p.cur, errScripted
	}
	if e.Same != 1 {
		if e.Tiny == 1 {
			p.cur = 1e-300
		} else if p.cur > 1e-200 {
			p.cur /= 2
		} else {
			p.cur = 0.25
		}
	}
	return strOp(e.Res), p.cur, nil
}

func (p *player) evaluate(op optimize.Operation) {
	loc := p.loc
	if op&optimize.FuncEvaluation != 0 {
		p.ctr++
		loc.F = 100 + p.ctr
		p.fbits = math.Float64bits(loc.F)
	}
	if op&optimize.GradEvaluation != 0 {
		p.ctr++
		loc.Gradient[0], loc.Gradient[1] = -p.ctr, p.ctr+1
	}
	if op&optimize.HessEvaluation != 0 && loc.Hessian != nil {
		p.ctr++
		loc.Hessian.SetSym(0, 0, p.ctr)
	}
}

// start hands a new, complete location to LinesearchMethod.Init.  run > 0: the LinesearchMethod value
// (and the scripted Linesearcher / NextDirectioner) has been used for run earlier runs of this
// behaviour, which were stopped or failed at the place the specification chose ("reinit").
func (p *player) start(lsm *optimize.LinesearchMethod, run int) (optimize.Operation, error) {
	r := float64(run)
	p.loc = &optimize.Location{X: []float64{3 + r, -2 - 2*r}, F: 50 - 7*r, Gradient: []float64{2 + r, -1 - 3*r}}
	if p.c.WithH == 1 {
		p.loc.Hessian = mat.NewSymDense(2, []float64{1 + r, 0, 0, 1})
	}
	p.lastX = p.lastX[:0]
	return lsm.Init(p.loc)
}

// play runs one behaviour on lsm (which may have been used before: Init has to reset it).
func (p *player) play(lsm *optimize.LinesearchMethod) {
	lsm.NextDirectioner, lsm.Linesearcher = p, p
	var op optimize.Operation
	var err error
	run := 0
	// again: the behaviour goes on with another run on the same LinesearchMethod value
	again := func() bool {
		if p.peek().K != "reinit" {
			return false
		}
		p.i++
		run++
		op, err = p.start(lsm, run)
		return true
	}
	o := core.Call(func() {
		op, err = p.start(lsm, run)
		for step := 0; step < 400; step++ {
			loc := p.loc
			e := p.peek()
			switch e.K {
			case "fail":
				p.i++
				if err == nil {
					p.fail("LinesearchMethod returned op=%s without error, expected error %q", opString(op), e.Err)
					return
				}
				got := errString(err)
				if errors.Is(err, errScripted) {
					got = "other"
				}
				if got != e.Err {
					p.fail("LinesearchMethod returned error %q (%v), expected %q", got, err, e.Err)
				}
				if op != optimize.NoOperation {
					p.fail("LinesearchMethod returned op=%s with an error", opString(op))
				}
				if len(p.bad) == 0 && again() {
					continue
				}
				return
			case "eval":
				p.i++
				if err != nil {
					p.fail("LinesearchMethod returned error %v, expected evaluation %s", err, e.What)
					return
				}
				if opString(op) != e.What {
					p.fail("LinesearchMethod asked for %s, expected %s", opString(op), e.What)
					return
				}
				for i := range loc.X {
					if loc.X[i] != p.xk[i]+p.cur*p.dir[i] {
						p.fail("evaluation point %v is not start %v + %v * %v", loc.X, p.xk, p.cur, p.dir)
						break
					}
				}
				if e.Samex == 1 && !sameVec(loc.X, p.lastX) {
					p.fail("additional evaluation at %v, previous evaluation was at %v", loc.X, p.lastX)
				}
				p.lastX = append(p.lastX[:0], loc.X...)
				p.evaluate(op)
			case "major":
				p.i++
				if err != nil || op != optimize.MajorIteration {
					p.fail("LinesearchMethod returned op=%s err=%v, expected MajorIteration", opString(op), err)
					return
				}
				if !sameVec(loc.X, p.lastX) || math.Float64bits(loc.F) != p.fbits {
					p.fail("MajorIteration at X=%v F=%v, accepted point was X=%v F=%v", loc.X, loc.F, p.lastX, math.Float64frombits(p.fbits))
				}
			case "end":
				// the run is stopped before LinesearchMethod has answered anything (right after Init / a reinit)
			default:
				p.fail("LinesearchMethod returned op=%s err=%v while the specification expects a Linesearcher call (%q)", opString(op), err, e.K)
				return
			}
			// the driver stops the run here: the bound of the model, or a stop followed by another run on
			// the same value
			if p.peek().K == "end" {
				p.i++
				if again() {
					continue
				}
				return
			}
			op, err = lsm.Iterate(loc)
		}
	})
	if o.Panicked {
		p.fail("panic: %s", o.Text)
	}
	if len(p.bad) == 0 && p.i != len(p.c.Ev) {
		p.fail("behaviour not completed: %d of %d events", p.i, len(p.c.Ev))
	}
}

func replay(in *core.Lines, args []string, seed int64, sum *core.Summary) error {
	for _, a := range args {
		if a == "mode=fc" {
			return replayFC(in, args, seed, sum)
		}
	}
	shared := &optimize.LinesearchMethod{}
	for n := 0; ; n++ {
		b, ok := in.Next()
		if !ok {
			break
		}
		var c scase
		if err := json.Unmarshal(b, &c); err != nil {
			return fmt.Errorf("case %d: %v", in.N, err)
		}
		sum.Cases++
		iters, majors, reinits := 0, 0, 0
		for _, e := range c.Ev {
			if e.K == "iter" {
				iters++
			}
			if e.K == "major" {
				majors++
			}
			if e.K == "reinit" {
				reinits++
			}
		}
		sum.Count("runs on a used LinesearchMethod value (reinit)", reinits)
		if iters > 0 {
			sum.Nontrivial++
		}
		sum.Count("scripted Linesearcher.Iterate calls", iters)
		sum.Count("expected MajorIterations", majors)
		// alternate between a fresh LinesearchMethod and one left behind by earlier behaviours; a
		// behaviour that re-initialises its LinesearchMethod value itself ("reinit") starts on a fresh
		// one, so that it fails or passes on its own
		lsm := shared
		if n%2 == 0 || reinits > 0 {
			lsm = &optimize.LinesearchMethod{}
		}
		p := &player{c: c}
		p.play(lsm)
		if len(p.bad) > 0 {
			last := c.Ev[len(c.Ev)-1]
			sig := "linesearch:lsm:" + last.K + last.Err
			if reinits > 0 {
				sig = "linesearch:lsm-reinit:" + last.K + last.Err
			}
			sum.Fail(sig, strings.Join(p.bad, "; "), json.RawMessage(append([]byte(nil), b...)))
		} else if n%997 == 0 {
			sum.Sample(json.RawMessage(append([]byte(nil), b...)))
		}
	}
	return nil
}
