// Package linesearch binds specs/optimize/LineSearch.tla and FunctionConverge.tla to
// the real code (property C19, clauses "line searches return steps satisfying their
// advertised conditions" and the function-convergence window).
//
// It contains no line search and no optimizer of its own.  The recording side wraps a
// real optimize.Linesearcher in a proxy that logs every Init/Iterate call, with the
// truth values of the inequalities the documentation names evaluated on the values the
// real code passed and returned (logging-boundary predicates: 0 false, 1 true, 2 not
// decidable within a few ulp / not observable).  The specification decides when they
// have to hold.  The replay side drives the real optimize.LinesearchMethod with a
// scripted Linesearcher whose answers, and the expected reactions of LinesearchMethod,
// were printed by TLC.
package linesearch

import (
	"errors"
	"math"
	"sync"

	"gonum.org/v1/gonum/optimize"
)

type event map[string]any

func b2i(b bool) int {
	if b {
		return 1
	}
	return 0
}

const eps = 2.220446049250313e-16

// leTri reports lhs <= rhs as 1 / 0, or 2 when the two sides are closer than the
// rounding noise of forming them (scale = sum of the magnitudes of the terms).
func leTri(lhs, rhs, scale float64) int {
	if math.IsNaN(lhs) || math.IsNaN(rhs) {
		return 0
	}
	if math.IsInf(lhs, 0) || math.IsInf(rhs, 0) || math.IsInf(scale, 0) {
		return b2i(lhs <= rhs)
	}
	if math.Abs(lhs-rhs) <= 32*eps*scale {
		return 2
	}
	return b2i(lhs <= rhs)
}

func opString(op optimize.Operation) string {
	const fg = optimize.FuncEvaluation | optimize.GradEvaluation | optimize.HessEvaluation
	switch {
	case op == optimize.MajorIteration:
		return "major"
	case op == optimize.NoOperation:
		return "none"
	case op&^fg == 0:
		s := ""
		if op&optimize.FuncEvaluation != 0 {
			s += "F"
		}
		if op&optimize.GradEvaluation != 0 {
			s += "G"
		}
		if op&optimize.HessEvaluation != 0 {
			s += "H"
		}
		return s
	}
	return "other"
}

func errString(err error) string {
	switch {
	case err == nil:
		return ""
	case errors.Is(err, optimize.ErrLinesearcherFailure):
		return "lsfailure"
	case errors.Is(err, optimize.ErrLinesearcherBound):
		return "lsbound"
	case errors.Is(err, optimize.ErrNoProgress):
		return "noprogress"
	case errors.Is(err, optimize.ErrNonDescentDirection):
		return "nondescent"
	}
	return "other"
}

// lsConfig describes the advertised parameters of the wrapped Linesearcher (the harness
// sets them explicitly on the real object, so they are known without reading its state).
type lsConfig struct {
	Kind        string  // "backtracking" | "bisection" | "morethuente"
	Decrease    float64 // constant of the sufficient decrease condition
	Curvature   float64 // constant of the curvature condition
	Contraction float64 // Backtracking
	MinStep     float64 // MoreThuente
	MaxStep     float64 // MoreThuente
}

// facts is what the driver (direct mode) or the Recorder (Minimize mode) knows about the
// run; the proxy compares the arguments it receives with it.  have* = the quantity was
// produced since the trial point last changed.
type facts struct {
	mu      sync.Mutex
	direct  bool
	haveF   bool
	fbits   uint64 // objective value evaluated at the current trial point
	haveG   bool
	gdbits  uint64 // direct: Dot(gradient at the trial point, dir)
	haveGd  bool
	haveMaj bool
	majF    uint64 // F of the last accepted (or initial) location
	// direct mode: what the NextDirectioner returned
	haveND  bool
	ndStep  float64
	ndWhich string
	g0d     uint64 // Dot(gradient at the start point, dir)
	xk, dir []float64
	lastX   []float64 // point of the last evaluation
	haveX   bool
}

func (fa *facts) tiny(step float64) int {
	if !fa.direct || fa.xk == nil {
		return 2
	}
	for i := range fa.xk {
		if fa.xk[i]+step*fa.dir[i] != fa.xk[i] {
			return 0
		}
	}
	return 1
}

// lsProxy records the traffic across the optimize.Linesearcher interface.
type lsProxy struct {
	inner optimize.Linesearcher
	cfg   lsConfig
	fa    *facts
	emit  func(event)

	started bool
	f0, g0  float64
	cur     float64   // step of the current trial point
	steps   []float64 // trial steps of this line search
}

func (p *lsProxy) Init(f, g float64, step float64) (op optimize.Operation) {
	fa := p.fa
	fa.mu.Lock()
	defer fa.mu.Unlock()
	e := event{"k": "init", "g0nonneg": b2i(g >= 0), "steppos": b2i(step > 0),
		"stepeq": 2, "f0eq": 2, "g0eq": 2, "nd": "na", "panic": 0, "op": "none"}
	if fa.haveMaj {
		e["f0eq"] = b2i(math.Float64bits(f) == fa.majF)
	}
	if fa.direct && fa.haveND {
		e["stepeq"] = b2i(math.Float64bits(step) == math.Float64bits(fa.ndStep))
		e["g0eq"] = b2i(math.Float64bits(g) == fa.g0d)
		e["nd"] = fa.ndWhich
	}
	e["tiny"] = fa.tiny(step)
	p.started = true
	p.f0, p.g0, p.cur = f, g, step
	p.steps = append(p.steps[:0], step)
	fa.haveF, fa.haveG = false, false
	defer func() {
		if r := recover(); r != nil {
			e["panic"] = 1
			p.emit(e)
			panic(r)
		}
	}()
	op = p.inner.Init(f, g, step)
	e["op"] = opString(op)
	p.emit(e)
	return op
}

func (p *lsProxy) Iterate(f, g float64) (optimize.Operation, float64, error) {
	fa := p.fa
	fa.mu.Lock()
	defer fa.mu.Unlock()
	c := p.cfg
	e := event{"k": "iter"}
	e["fnan"] = b2i(math.IsNaN(f))
	e["gnan"] = b2i(math.IsNaN(g))
	e["feq"] = b2i(fa.haveF && math.Float64bits(f) == fa.fbits)
	switch {
	case !fa.direct:
		e["geq"] = 2
	default:
		e["geq"] = b2i(fa.haveG && math.Float64bits(g) == fa.gdbits)
	}
	// the advertised inequalities at the step the values belong to
	t := c.Decrease * p.cur * p.g0
	e["armijo"] = leTri(f, p.f0+t, math.Abs(f)+math.Abs(p.f0)+math.Abs(t))
	if c.Kind == "backtracking" {
		e["curv"] = 2
	} else {
		e["curv"] = leTri(math.Abs(g), c.Curvature*math.Abs(p.g0), math.Abs(g)+c.Curvature*math.Abs(p.g0))
	}
	e["curpos"] = b2i(p.cur > 0)
	e["atmax"] = 2
	if c.Kind == "morethuente" {
		e["atmax"] = b2i(p.cur == c.MaxStep)
	}

	op, step, err := p.inner.Iterate(f, g)

	e["res"] = opString(op)
	if err != nil {
		e["res"] = errString(err)
		if e["res"] == "noprogress" || e["res"] == "nondescent" {
			e["res"] = "other"
		}
	}
	same := math.Float64bits(step) == math.Float64bits(p.cur)
	e["same"] = b2i(same)
	e["steppos"] = b2i(step > 0)
	e["less"], e["contr"], e["inb"] = 2, 2, 2
	nabove, ndup := 0, 0
	for _, s := range p.steps {
		if s >= step { // an earlier trial step at or above the new one
			nabove++
		}
		if s == step {
			ndup++
		}
	}
	e["nabove"], e["ndup"] = nabove, ndup
	e["tiny"] = 0
	if err == nil && op != optimize.MajorIteration && !same {
		if c.Kind == "backtracking" {
			e["less"] = b2i(step < p.cur)
			e["contr"] = b2i(math.Float64bits(step) == math.Float64bits(p.cur*c.Contraction))
		}
		if c.Kind == "morethuente" {
			e["inb"] = b2i(step >= c.MinStep && step <= c.MaxStep)
		}
		e["tiny"] = fa.tiny(step)
		p.cur = step
		p.steps = append(p.steps, step)
		fa.haveF, fa.haveG = false, false
	}
	p.emit(e)
	return op, step, err
}
