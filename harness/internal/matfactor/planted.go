package matfactor

import (
	"encoding/json"
	"fmt"
	"math"
	"math/big"
	"sort"

	"gonum.org/v1/gonum/mat"

	"gonum.org/v1/gonum/verifharness/internal/core"
)

// plantedRec is one line printed by Planted.tla (families "ls", "eig", "svd").
type plantedRec struct {
	K       string    `json:"k"`
	M       int       `json:"m,omitempty"`
	N       int       `json:"n"`
	T       int       `json:"t"`
	A       [][]int64 `json:"a,omitempty"`
	G       [][]int64 `json:"g,omitempty"`
	AtA     [][]int64 `json:"ata,omitempty"`
	AAt     [][]int64 `json:"aat,omitempty"`
	DetG    int64     `json:"detg,omitempty"`
	B       [][]int64 `json:"b,omitempty"`
	Num     [][]int64 `json:"num,omitempty"`
	TolX    int64     `json:"tolX,omitempty"`
	BT      [][]int64 `json:"bt,omitempty"`
	NumT    [][]int64 `json:"numT,omitempty"`
	TolXT   int64     `json:"tolXT,omitempty"`
	TolA    int64     `json:"tolA"`
	TolG    int64     `json:"tolG,omitempty"`
	Square  bool      `json:"square,omitempty"`
	Det     int64     `json:"det,omitempty"`
	Adj     [][]int64 `json:"adj,omitempty"`
	TolInv  int64     `json:"tolInv,omitempty"`
	TolDet  int64     `json:"tolDet,omitempty"`
	Pow2    [][]int64 `json:"pow2,omitempty"`
	Pow3    [][]int64 `json:"pow3,omitempty"`
	ANum    [][]int64 `json:"anum,omitempty"`
	ADen    int64     `json:"aden,omitempty"`
	Vals    []int64   `json:"vals,omitempty"`
	Rank    int       `json:"rank,omitempty"`
	XNum    [][]int64 `json:"xnum,omitempty"`
	XDen    int64     `json:"xden,omitempty"`
	UnitExp int       `json:"unitExp"`
	Kd      int       `json:"kd,omitempty"`
	CondHi  []int64   `json:"condHi,omitempty"`
	RootNum [][]int64 `json:"rootnum,omitempty"`
	SqNum   [][]int64 `json:"sqnum,omitempty"`
	ENum    [][]int64 `json:"enum,omitempty"`
	EDen    int64     `json:"eden,omitempty"`
}

func init() {
	core.RegisterReplay("matfactor-planted", replayPlanted)
}

// prodNear compares sum_k f(i,k) g(k,j) (exactly, in big.Rat) with want(i,j)/den.
func (k *checker) prodNear(sig string, rows, cols, inner int, f func(i, q int) float64, g func(q, j int) float64,
	want func(i, j int) int64, den, tolUnits int64) {
	for i := 0; i < rows; i++ {
		for j := 0; j < cols; j++ {
			sum := new(big.Rat)
			for q := 0; q < inner; q++ {
				a, b := f(i, q), g(q, j)
				if !finite(a) || !finite(b) {
					k.failf(sig+":nonfinite", "factor element is %v / %v", a, b)
					return
				}
				ra := new(big.Rat).SetFloat64(a)
				rb := new(big.Rat).SetFloat64(b)
				sum.Add(sum, ra.Mul(ra, rb))
			}
			if !k.u.nearRat(sum, want(i, j), den, tolUnits) {
				fl, _ := sum.Float64()
				k.failf(sig+":value", "product element (%d,%d) = %v, specification says %d/%d (tolerance %d units)", i, j, fl, want(i, j), den, tolUnits)
				return
			}
		}
	}
}

func identInt(i, j int) int64 {
	if i == j {
		return 1
	}
	return 0
}

func denseScaled(num [][]int64, den int64) *mat.Dense {
	d := denseOf(num)
	r, c := d.Dims()
	for i := 0; i < r; i++ {
		for j := 0; j < c; j++ {
			d.Set(i, j, d.At(i, j)/float64(den)) // exact: den is a power of two
		}
	}
	return d
}

func (k *checker) solved(sig string, d *mat.Dense, err error, want [][]int64, den, tol int64) {
	if err != nil {
		k.failf(sig+":error", "error %v on a full rank, well conditioned matrix", err)
		return
	}
	r, c := d.Dims()
	k.matrixNear(sig, r, c, d.At, want, den, tol)
}

func (k *checker) plantedLS(p *plantedRec) {
	m, n := p.M, p.N
	A, B, BT := denseOf(p.A), denseOf(p.B), denseOf(p.BT)
	at := func(i, j int) int64 { return p.A[i][j] }
	ata := func(i, j int) int64 { return p.AtA[i][j] }
	aat := func(i, j int) int64 { return p.AAt[i][j] }
	pfx := fmt.Sprintf("matfactor:planted-ls[%dx%d]:", m, n)
	// Dense.Solve dispatches on the shape (LU / QR / LQ)
	for _, v := range []struct {
		name string
		a, b mat.Matrix
		want [][]int64
		tol  int64
	}{
		{"Dense.Solve", A, B, p.Num, p.TolX},
		{"Dense.Solve(a-basic)", basicMat{A}, B, p.Num, p.TolX},
		{"Dense.Solve(b-transposed)", A, denseOf(transposeInts(p.B)).T(), p.Num, p.TolX},
		{"Dense.Solve(a-transposed)", A.T(), BT, p.NumT, p.TolXT},
	} {
		var x mat.Dense
		var err error
		if k.call(pfx+v.name, func() { err = x.Solve(v.a, v.b) }) {
			k.solved(pfx+v.name, &x, err, v.want, p.DetG, v.tol)
		}
	}
	{
		var x mat.VecDense
		var err error
		if k.call(pfx+"VecDense.SolveVec", func() { err = x.SolveVec(A, vecOf(colOf(p.B, 0), "inc2")) }) {
			if err != nil {
				k.failf(pfx+"VecDense.SolveVec:error", "%v", err)
			} else {
				w := make([][]int64, n)
				for i := range w {
					w[i] = []int64{p.Num[i][0]}
				}
				k.matrixNear(pfx+"VecDense.SolveVec", x.Len(), 1, x.At, w, p.DetG, p.TolX)
			}
		}
	}
	if m >= n {
		var qr mat.QR
		if k.call(pfx+"QR.Factorize", func() { qr.Factorize(A) }) {
			var q, r mat.Dense
			if k.call(pfx+"QR.QTo", func() { qr.QTo(&q) }) && k.call(pfx+"QR.RTo", func() { qr.RTo(&r) }) {
				qr_, qc := q.Dims()
				rr, rc := r.Dims()
				if qr_ != m || qc != m || rr != m || rc != n {
					k.failf(pfx+"QR:shape", "Q %dx%d R %dx%d", qr_, qc, rr, rc)
				} else {
					for i := 0; i < m; i++ {
						for j := 0; j < n && j < i; j++ {
							if r.At(i, j) != 0 {
								k.failf(pfx+"QR.RTo:not-upper", "R[%d][%d] = %v", i, j, r.At(i, j))
							}
						}
					}
					k.prodNear(pfx+"QR:Q*R", m, n, m, q.At, r.At, at, 1, p.TolA)
					k.prodNear(pfx+"QR:QT*Q", m, m, m, func(i, s int) float64 { return q.At(s, i) }, q.At, identInt, 1, p.TolA)
					k.prodNear(pfx+"QR:RT*R", n, n, m, func(i, s int) float64 { return r.At(s, i) }, r.At, ata, 1, p.TolG)
					k.call(pfx+"QR.At", func() { k.matrixNear(pfx+"QR.At", m, n, qr.At, p.A, 1, p.TolA) })
				}
			}
			for _, dstIsB := range []bool{false, true} {
				name := fmt.Sprintf("QR.SolveTo(trans=false,dst-is-b=%v)", dstIsB)
				var x *mat.Dense
				var err error
				if dstIsB && m != n {
					continue
				}
				if k.call(pfx+name, func() {
					if dstIsB {
						x = denseOf(p.B)
						err = qr.SolveTo(x, false, x)
					} else {
						x = &mat.Dense{}
						err = qr.SolveTo(x, false, B)
					}
				}) {
					k.solved(pfx+name, x, err, p.Num, p.DetG, p.TolX)
				}
			}
			var y mat.Dense
			var err error
			if k.call(pfx+"QR.SolveTo(trans=true)", func() { err = qr.SolveTo(&y, true, BT) }) {
				k.solved(pfx+"QR.SolveTo(trans=true)", &y, err, p.NumT, p.DetG, p.TolXT)
			}
			var xv mat.VecDense
			if k.call(pfx+"QR.SolveVecTo", func() { err = qr.SolveVecTo(&xv, false, vecOf(colOf(p.B, 1), "vec")) }) && err == nil {
				w := make([][]int64, n)
				for i := range w {
					w[i] = []int64{p.Num[i][1]}
				}
				k.matrixNear(pfx+"QR.SolveVecTo", xv.Len(), 1, xv.At, w, p.DetG, p.TolX)
			}
			k.call(pfx+"QR.Cond", func() {
				if c := qr.Cond(); !(c >= 1-1e-6) || math.IsInf(c, 0) {
					k.failf(pfx+"QR.Cond:range", "Cond = %v on a full rank matrix", c)
				}
			})
		}
	}
	if m <= n {
		var lq mat.LQ
		if k.call(pfx+"LQ.Factorize", func() { lq.Factorize(A) }) {
			var l, q mat.Dense
			if k.call(pfx+"LQ.LTo", func() { lq.LTo(&l) }) && k.call(pfx+"LQ.QTo", func() { lq.QTo(&q) }) {
				lr, lc := l.Dims()
				qr_, qc := q.Dims()
				if lr != m || lc != n || qr_ != n || qc != n {
					k.failf(pfx+"LQ:shape", "L %dx%d Q %dx%d", lr, lc, qr_, qc)
				} else {
					for i := 0; i < m; i++ {
						for j := i + 1; j < n; j++ {
							if l.At(i, j) != 0 {
								k.failf(pfx+"LQ.LTo:not-lower", "L[%d][%d] = %v", i, j, l.At(i, j))
							}
						}
					}
					k.prodNear(pfx+"LQ:L*Q", m, n, n, l.At, q.At, at, 1, p.TolA)
					k.prodNear(pfx+"LQ:Q*QT", n, n, n, q.At, func(s, j int) float64 { return q.At(j, s) }, identInt, 1, p.TolA)
					k.prodNear(pfx+"LQ:L*LT", m, m, n, l.At, func(s, j int) float64 { return l.At(j, s) }, aat, 1, p.TolG)
					k.call(pfx+"LQ.At", func() { k.matrixNear(pfx+"LQ.At", m, n, lq.At, p.A, 1, p.TolA) })
				}
			}
			var x, y mat.Dense
			var err error
			if k.call(pfx+"LQ.SolveTo(trans=false)", func() { err = lq.SolveTo(&x, false, B) }) {
				k.solved(pfx+"LQ.SolveTo(trans=false)", &x, err, p.Num, p.DetG, p.TolX)
			}
			if k.call(pfx+"LQ.SolveTo(trans=true)", func() { err = lq.SolveTo(&y, true, BT) }) {
				k.solved(pfx+"LQ.SolveTo(trans=true)", &y, err, p.NumT, p.DetG, p.TolXT)
			}
			var xv mat.VecDense
			if k.call(pfx+"LQ.SolveVecTo", func() { err = lq.SolveVecTo(&xv, false, vecOf(colOf(p.B, 1), "vec")) }) && err == nil {
				w := make([][]int64, n)
				for i := range w {
					w[i] = []int64{p.Num[i][1]}
				}
				k.matrixNear(pfx+"LQ.SolveVecTo", xv.Len(), 1, xv.At, w, p.DetG, p.TolX)
			}
		}
	}
	// SVD based least squares / minimum norm solve with full rank
	for _, kind := range []mat.SVDKind{mat.SVDThin, mat.SVDFull} {
		var svd mat.SVD
		var ok bool
		name := fmt.Sprintf("SVD(kind=%d)", kind)
		if !k.call(pfx+name+".Factorize", func() { ok = svd.Factorize(A, kind) }) {
			continue
		}
		if !ok {
			k.failf(pfx+name+".Factorize:false", "Factorize returned false")
			continue
		}
		var x mat.Dense
		r := n
		if m < n {
			r = m
		}
		if k.call(pfx+name+".SolveTo", func() { svd.SolveTo(&x, B, r) }) {
			k.solved(pfx+name+".SolveTo", &x, nil, p.Num, p.DetG, p.TolX)
		}
	}
	if !p.Square {
		return
	}
	// square: determinant, inverse, powers
	var lu mat.LU
	if k.call(pfx+"LU.Factorize", func() { lu.Factorize(A) }) {
		k.call(pfx+"LU.Det", func() {
			if d := lu.Det(); !k.u.near(d, p.Det, 1, p.TolDet) {
				k.failf(pfx+"LU.Det:value", "Det = %v, specification says %d", d, p.Det)
			}
		})
	}
	k.call(pfx+"mat.Det", func() {
		if d := mat.Det(A); !k.u.near(d, p.Det, 1, p.TolDet) {
			k.failf(pfx+"mat.Det:value", "Det = %v, specification says %d", d, p.Det)
		}
	})
	k.call(pfx+"mat.LogDet", func() {
		ld, sign := mat.LogDet(A)
		ad, ws := p.Det, 1.0
		if ad < 0 {
			ad, ws = -ad, -1
		}
		if sign != ws || !k.u.near(math.Exp(ld), ad, 1, p.TolDet) {
			k.failf(pfx+"mat.LogDet:value", "LogDet = %v sign %v, specification says det = %d", ld, sign, p.Det)
		}
	})
	for _, alias := range []bool{false, true} {
		name := fmt.Sprintf("Dense.Inverse(dst-is-a=%v)", alias)
		var inv *mat.Dense
		var err error
		if k.call(pfx+name, func() {
			if alias {
				inv = denseOf(p.A)
				err = inv.Inverse(inv)
			} else {
				inv = &mat.Dense{}
				err = inv.Inverse(A)
			}
		}) {
			k.solved(pfx+name, inv, err, p.Adj, p.Det, p.TolInv)
		}
	}
	for e, want := range [][][]int64{nil, p.A, p.Pow2, p.Pow3} {
		var pw mat.Dense
		name := fmt.Sprintf("Dense.Pow(%d)", e)
		if !k.call(pfx+name, func() { pw.Pow(A, e) }) {
			continue
		}
		for i := 0; i < n; i++ {
			for j := 0; j < n; j++ {
				w := identInt(i, j)
				if want != nil {
					w = want[i][j]
				}
				if pw.At(i, j) != float64(w) { // integer products of small integers are exact
					k.failf(pfx+name+":value", "element (%d,%d) = %v, specification says %d", i, j, pw.At(i, j), w)
				}
			}
		}
	}
}

func (k *checker) plantedEig(p *plantedRec) {
	n := p.N
	pfx := fmt.Sprintf("matfactor:planted-eig[%d]:", n)
	D := denseScaled(p.ANum, p.ADen)
	S := mat.NewSymDense(n, nil)
	for i := 0; i < n; i++ {
		for j := i; j < n; j++ {
			S.SetSym(i, j, D.At(i, j))
		}
	}
	an := func(i, j int) int64 { return p.ANum[i][j] }
	var es mat.EigenSym
	var ok bool
	if k.call(pfx+"EigenSym.Factorize", func() { ok = es.Factorize(S, true) }) {
		if !ok {
			k.failf(pfx+"EigenSym.Factorize:false", "Factorize returned false")
		} else {
			vals := es.Values(nil)
			if len(vals) != n {
				k.failf(pfx+"EigenSym.Values:len", "%d values", len(vals))
				return
			}
			for i, v := range vals {
				if !k.u.near(v, p.Vals[i], 1, p.TolA) {
					k.failf(pfx+"EigenSym.Values:value", "value %d = %v, the planted spectrum (ascending) is %v", i, v, p.Vals)
					break
				}
			}
			var V mat.Dense
			if k.call(pfx+"EigenSym.VectorsTo", func() { es.VectorsTo(&V) }) {
				// V diag(vals) V^T, exactly, as a three factor product in big.Rat
				k.tripleNear(pfx+"EigenSym:V*diag*VT", n, n, V.At, vals, func(s, j int) float64 { return V.At(j, s) }, an, p.ADen, p.TolA)
				k.prodNear(pfx+"EigenSym:VT*V", n, n, n, func(i, s int) float64 { return V.At(s, i) }, V.At, identInt, 1, p.TolA)
			}
			k.call(pfx+"EigenSym.At", func() { k.matrixNear(pfx+"EigenSym.At", n, n, es.At, p.ANum, p.ADen, p.TolA) })
		}
	}
	// the general eigensolver on the same matrix: real spectrum, same multiset
	var eg mat.Eigen
	if k.call(pfx+"Eigen.Factorize", func() { ok = eg.Factorize(D, mat.EigenRight) }) {
		if !ok {
			k.failf(pfx+"Eigen.Factorize:false", "Factorize returned false")
			return
		}
		cv := eg.Values(nil)
		re := make([]float64, len(cv))
		for i, z := range cv {
			re[i] = real(z)
			if !k.u.near(imag(z), 0, 1, p.TolA) {
				k.failf(pfx+"Eigen.Values:imaginary", "eigenvalue %v of a symmetric matrix", z)
				return
			}
		}
		sort.Float64s(re)
		if len(re) != n {
			k.failf(pfx+"Eigen.Values:len", "%d values", len(re))
			return
		}
		for i, v := range re {
			if !k.u.near(v, p.Vals[i], 1, p.TolA) {
				k.failf(pfx+"Eigen.Values:value", "sorted real parts %v, the planted spectrum is %v", re, p.Vals)
				break
			}
		}
	}
}

// tripleNear compares sum_s f(i,s) d[s] g(s,j) with want(i,j)/den.
func (k *checker) tripleNear(sig string, rows, cols int, f func(i, s int) float64, d []float64, g func(s, j int) float64,
	want func(i, j int) int64, den, tolUnits int64) {
	for i := 0; i < rows; i++ {
		for j := 0; j < cols; j++ {
			sum := new(big.Rat)
			for s := range d {
				a, b, c := f(i, s), d[s], g(s, j)
				if !finite(a) || !finite(b) || !finite(c) {
					k.failf(sig+":nonfinite", "factor element %v %v %v", a, b, c)
					return
				}
				ra := new(big.Rat).SetFloat64(a)
				ra.Mul(ra, new(big.Rat).SetFloat64(b))
				ra.Mul(ra, new(big.Rat).SetFloat64(c))
				sum.Add(sum, ra)
			}
			if !k.u.nearRat(sum, want(i, j), den, tolUnits) {
				fl, _ := sum.Float64()
				k.failf(sig+":value", "reconstructed element (%d,%d) = %v, specification says %d/%d", i, j, fl, want(i, j), den)
				return
			}
		}
	}
}

func (k *checker) plantedSVD(p *plantedRec) {
	m, n := p.M, p.N
	pfx := fmt.Sprintf("matfactor:planted-svd[%dx%d]:", m, n)
	A := denseScaled(p.ANum, p.ADen)
	an := func(i, j int) int64 { return p.ANum[i][j] }
	r := len(p.Vals)
	for _, kind := range []mat.SVDKind{mat.SVDThin, mat.SVDFull} {
		name := fmt.Sprintf("SVD(kind=%d)", kind)
		var svd mat.SVD
		var ok bool
		if !k.call(pfx+name+".Factorize", func() { ok = svd.Factorize(A, kind) }) {
			continue
		}
		if !ok {
			k.failf(pfx+name+".Factorize:false", "Factorize returned false")
			continue
		}
		vals := svd.Values(nil)
		if len(vals) != r {
			k.failf(pfx+name+".Values:len", "%d values, want %d", len(vals), r)
			continue
		}
		for i, v := range vals {
			if !k.u.near(v, p.Vals[i], 1, p.TolA) {
				k.failf(pfx+name+".Values:value", "values %v, the planted singular values are %v", vals, p.Vals)
				break
			}
		}
		var U, V mat.Dense
		if k.call(pfx+name+".UTo", func() { svd.UTo(&U) }) && k.call(pfx+name+".VTo", func() { svd.VTo(&V) }) {
			ur, uc := U.Dims()
			vr, vc := V.Dims()
			if ur != m || vr != n || uc < r || vc < r {
				k.failf(pfx+name+":shape", "U %dx%d V %dx%d", ur, uc, vr, vc)
			} else {
				k.tripleNear(pfx+name+":U*S*VT", m, n, U.At, vals, func(s, j int) float64 { return V.At(j, s) }, an, p.ADen, p.TolA)
				k.prodNear(pfx+name+":UT*U", uc, uc, m, func(i, s int) float64 { return U.At(s, i) }, U.At, identInt, 1, p.TolA)
				k.prodNear(pfx+name+":VT*V", vc, vc, n, func(i, s int) float64 { return V.At(s, i) }, V.At, identInt, 1, p.TolA)
			}
		}
		var x mat.Dense
		if k.call(pfx+name+".SolveTo", func() { svd.SolveTo(&x, denseOf(p.B), p.Rank) }) {
			k.solved(pfx+name+".SolveTo(rank)", &x, nil, p.XNum, p.XDen, p.TolX)
		}
		k.call(pfx+name+".Rank", func() {
			if got := svd.Rank(1e-8); got != p.Rank {
				k.failf(pfx+name+".Rank:value", "Rank(1e-8) = %d, the planted rank is %d (values %v)", got, p.Rank, p.Vals)
			}
		})
	}
}

func replayPlanted(in *core.Lines, args []string, seed int64, sum *core.Summary) error {
	for {
		b, ok := in.Next()
		if !ok {
			break
		}
		p := new(plantedRec)
		if err := json.Unmarshal(b, p); err != nil {
			return fmt.Errorf("line %d: %v", in.N, err)
		}
		k := &checker{u: newUnits(p.UnitExp, -20)}
		switch p.K {
		case "ls":
			k.plantedLS(p)
		case "eig":
			k.plantedEig(p)
		case "svd":
			k.plantedSVD(p)
		case "spd":
			k.plantedSPD(p)
		case "band":
			k.plantedBand(p)
		case "psd":
			k.plantedPSD(p)
		case "exp":
			k.plantedExp(p)
		default:
			continue
		}
		sum.Cases++
		sum.Nontrivial++
		sum.Count("family_"+p.K, 1)
		seen := map[string]bool{}
		for _, f := range k.fails {
			if !seen[f[0]] {
				seen[f[0]] = true
				sum.Fail(f[0], f[1], p)
			}
		}
		if len(k.fails) == 0 {
			sum.Sample(p)
		}
	}
	return nil
}

// basicSym hides every fast path of a symmetric operand.
type basicSym struct{ s *mat.SymDense }

func (b basicSym) Dims() (int, int)    { return b.s.Dims() }
func (b basicSym) At(i, j int) float64 { return b.s.At(i, j) }
func (b basicSym) T() mat.Matrix       { return b }
func (b basicSym) SymmetricDim() int   { return b.s.SymmetricDim() }

func bandOf(a [][]int64, kd int) *mat.SymBandDense {
	n := len(a)
	b := mat.NewSymBandDense(n, kd, nil)
	for i := 0; i < n; i++ {
		for j := i; j < n && j <= i+kd; j++ {
			b.SetSymBand(i, j, float64(a[i][j]))
		}
	}
	return b
}

// plantedSPD: pivoted, banded (full band) and plain Cholesky of an integer SPD matrix, several operand kinds.
func (k *checker) plantedSPD(p *plantedRec) {
	n := p.N
	pfx := fmt.Sprintf("matfactor:planted-spd[%d]:", n)
	S := symOf(p.A)
	B := denseOf(p.B)
	// plain Cholesky from operands without the RawSymmetricer fast path
	for _, v := range []struct {
		name string
		a    mat.Symmetric
	}{{"basic", basicSym{S}}, {"band", bandOf(p.A, n-1)}} {
		var ch mat.Cholesky
		var ok bool
		name := "Cholesky.Factorize(a-" + v.name + ")"
		if !k.call(pfx+name, func() { ok = ch.Factorize(v.a) }) {
			continue
		}
		if !ok {
			k.failf(pfx+name+":false", "Factorize returned false on the positive definite matrix %v", p.A)
			continue
		}
		k.call(pfx+name+":Cond", func() { k.condRange("matfactor:Cholesky.Cond(planted)", ch.Cond(), p) })
		var s mat.SymDense
		if k.call(pfx+name+":ToSym", func() { ch.ToSym(&s) }) {
			k.matrixNear(pfx+name+":ToSym", n, n, s.At, p.A, 1, p.TolA)
		}
		var x mat.Dense
		var err error
		if k.call(pfx+name+":SolveTo", func() { err = ch.SolveTo(&x, B) }) {
			k.solved(pfx+name+":SolveTo", &x, err, p.Num, p.Det, p.TolX)
		}
		// A^-1 A = I through SolveCholTo
		var id mat.Dense
		if k.call(pfx+name+":SolveCholTo", func() { err = ch.SolveCholTo(&id, &ch) }) {
			if err != nil {
				k.failf(pfx+name+":SolveCholTo:error", "%v", err)
			} else {
				ir, ic := id.Dims()
				w := make([][]int64, n)
				for i := range w {
					w[i] = make([]int64, n)
					w[i][i] = 1
				}
				k.matrixNear(pfx+name+":SolveCholTo", ir, ic, id.At, w, 1, p.TolInv)
			}
		}
	}
	// pivoted Cholesky
	var pc mat.PivotedCholesky
	var ok bool
	if k.call(pfx+"PivotedCholesky.Factorize", func() { ok = pc.Factorize(S, -1) }) {
		if !ok {
			k.failf(pfx+"PivotedCholesky.Factorize:false", "Factorize returned false on the positive definite matrix %v", p.A)
		} else {
			if r := pc.Rank(); r != n {
				k.failf(pfx+"PivotedCholesky.Rank:value", "Rank = %d of a positive definite %dx%d matrix", r, n, n)
			}
			var u mat.TriDense
			var piv []int
			if k.call(pfx+"PivotedCholesky.UTo", func() { pc.UTo(&u); piv = pc.ColumnPivots(nil) }) {
				seen := make([]bool, n)
				perm := len(piv) == n
				for _, q := range piv {
					if q < 0 || q >= n || seen[q] {
						perm = false
						break
					}
					seen[q] = true
				}
				if !perm {
					k.failf(pfx+"PivotedCholesky.ColumnPivots:not-a-permutation", "%v", piv)
				} else {
					// (P^T A P)[i][j] = A[p[i]][p[j]] = (U^T U)[i][j]
					k.prodNear(pfx+"PivotedCholesky:UT*U", n, n, n, func(i, s int) float64 { return u.At(s, i) }, u.At,
						func(i, j int) int64 { return p.A[piv[i]][piv[j]] }, 1, p.TolA)
				}
			}
			k.call(pfx+"PivotedCholesky.At", func() { k.matrixNear(pfx+"PivotedCholesky.At", n, n, pc.At, p.A, 1, p.TolA) })
			var x mat.Dense
			var err error
			if k.call(pfx+"PivotedCholesky.SolveTo", func() { err = pc.SolveTo(&x, B) }) {
				k.solved(pfx+"PivotedCholesky.SolveTo", &x, err, p.Num, p.Det, p.TolX)
			}
			xb := denseOf(p.B)
			if k.call(pfx+"PivotedCholesky.SolveTo(dst-is-b)", func() { err = pc.SolveTo(xb, xb) }) {
				k.solved(pfx+"PivotedCholesky.SolveTo(dst-is-b)", xb, err, p.Num, p.Det, p.TolX)
			}
			var xv mat.VecDense
			if k.call(pfx+"PivotedCholesky.SolveVecTo", func() { err = pc.SolveVecTo(&xv, vecOf(colOf(p.B, 0), "inc2")) }) {
				if err != nil {
					k.failf(pfx+"PivotedCholesky.SolveVecTo:error", "%v", err)
				} else {
					w := make([][]int64, n)
					for i := range w {
						w[i] = []int64{p.Num[i][0]}
					}
					k.matrixNear(pfx+"PivotedCholesky.SolveVecTo", xv.Len(), 1, xv.At, w, p.Det, p.TolX)
				}
			}
			k.call(pfx+"PivotedCholesky.Cond", func() { k.condRange("matfactor:PivotedCholesky.Cond", pc.Cond(), p) })
		}
	}
	k.plantedBandChol(pfx+"BandCholesky(full-band)", p, n-1)
}

func (k *checker) plantedBandChol(pfx string, p *plantedRec, kd int) {
	n := p.N
	var bc mat.BandCholesky
	var ok bool
	if !k.call(pfx+".Factorize", func() { ok = bc.Factorize(bandOf(p.A, kd)) }) {
		return
	}
	if !ok {
		k.failf(pfx+".Factorize:false", "Factorize returned false on the positive definite matrix %v", p.A)
		return
	}
	k.call(pfx+".At", func() { k.matrixNear(pfx+".At", n, n, bc.At, p.A, 1, p.TolA) })
	k.call(pfx+".Det", func() {
		if d := bc.Det(); !k.u.near(d, p.Det, 1, p.TolDet) {
			k.failf(pfx+".Det:value", "Det = %v, specification says %d", d, p.Det)
		}
		if d := math.Exp(bc.LogDet()); !k.u.near(d, p.Det, 1, p.TolDet) {
			k.failf(pfx+".LogDet:value", "exp(LogDet) = %v, specification says %d", d, p.Det)
		}
	})
	k.call(pfx+".Cond", func() { k.condRange("matfactor:BandCholesky.Cond", bc.Cond(), p) })
	k.call(pfx+".Bandwidth", func() {
		if _, kk := bc.SymBand(); kk != kd {
			k.failf(pfx+".SymBand:value", "half bandwidth %d, want %d", kk, kd)
		}
	})
	var x mat.Dense
	var err error
	if k.call(pfx+".SolveTo", func() { err = bc.SolveTo(&x, denseOf(p.B)) }) {
		k.solved(pfx+".SolveTo", &x, err, p.Num, p.Det, p.TolX)
	}
	xb := denseOf(p.B)
	if k.call(pfx+".SolveTo(dst-is-b)", func() { err = bc.SolveTo(xb, xb) }) {
		k.solved(pfx+".SolveTo(dst-is-b)", xb, err, p.Num, p.Det, p.TolX)
	}
	var xv mat.VecDense
	if k.call(pfx+".SolveVecTo", func() { err = bc.SolveVecTo(&xv, vecOf(colOf(p.B, 1), "vec")) }) {
		if err != nil {
			k.failf(pfx+".SolveVecTo:error", "%v", err)
		} else {
			w := make([][]int64, n)
			for i := range w {
				w[i] = []int64{p.Num[i][1]}
			}
			k.matrixNear(pfx+".SolveVecTo", xv.Len(), 1, xv.At, w, p.Det, p.TolX)
		}
	}
}

func (k *checker) plantedBand(p *plantedRec) {
	k.plantedBandChol(fmt.Sprintf("matfactor:planted-band[%d,kd=%d]:BandCholesky", p.N, p.Kd), p, p.Kd)
}

func (k *checker) plantedPSD(p *plantedRec) {
	n := p.N
	pfx := fmt.Sprintf("matfactor:planted-psd[%d]:", n)
	D := denseScaled(p.ANum, p.ADen)
	S := mat.NewSymDense(n, nil)
	for i := 0; i < n; i++ {
		for j := i; j < n; j++ {
			S.SetSym(i, j, D.At(i, j))
		}
	}
	for _, v := range []struct {
		name string
		pow  float64
		want [][]int64
	}{{"PowPSD(0.5)", 0.5, p.RootNum}, {"PowPSD(1)", 1, p.ANum}, {"PowPSD(2)", 2, p.SqNum}} {
		var r mat.SymDense
		var err error
		if !k.call(pfx+v.name, func() { err = r.PowPSD(S, v.pow) }) {
			continue
		}
		if err != nil {
			k.failf(pfx+v.name+":error", "%v on a positive definite matrix", err)
			continue
		}
		k.matrixNear(pfx+v.name, r.SymmetricDim(), r.SymmetricDim(), r.At, v.want, p.ADen, p.TolA)
	}
}

func (k *checker) plantedExp(p *plantedRec) {
	n := p.N
	pfx := fmt.Sprintf("matfactor:planted-exp[%d]:", n)
	for _, v := range []struct {
		name string
		a    mat.Matrix
	}{{"Dense.Exp", denseOf(p.A)}, {"Dense.Exp(a-basic)", basicMat{denseOf(p.A)}}} {
		var e mat.Dense
		if !k.call(pfx+v.name, func() { e.Exp(v.a) }) {
			continue
		}
		r, c := e.Dims()
		k.matrixNear(pfx+v.name, r, c, e.At, p.ENum, p.EDen, p.TolA)
	}
}

// condRange: after a factorization from the matrix itself (exact norm of A known) the reported
// condition number is a lower bound estimate: 1 <= Cond <= exact cond_1, up to the relative slack.
func (k *checker) condRange(sig string, cond float64, p *plantedRec) {
	if !finite(cond) {
		k.failf(sig+":nonfinite", "Cond = %v on the positive definite matrix %v", cond, p.A)
		return
	}
	g := new(big.Rat).SetFloat64(cond)
	one := big.NewRat(1, 1)
	lo := new(big.Rat).Sub(one, k.u.condSlop)
	hi := new(big.Rat).Mul(big.NewRat(p.CondHi[0], p.CondHi[1]), new(big.Rat).Add(one, k.u.condSlop))
	if g.Cmp(lo) < 0 {
		k.failf(sig+":below-lower-bound", "Cond = %v is below 1: no condition number (matrix %v)", cond, p.A)
	} else if g.Cmp(hi) > 0 {
		k.failf(sig+":above-exact", "Cond = %v exceeds the exact condition number %d/%d of %v", cond, p.CondHi[0], p.CondHi[1], p.A)
	}
}
