package matfactor

import (
	"encoding/json"
	"fmt"
	"math"
	"math/big"
	"math/rand"
	"strconv"
	"strings"

	"gonum.org/v1/gonum/mat"

	"gonum.org/v1/gonum/verifharness/internal/core"
)

// ---- records printed by LuMachine.tla ----------------------------------------

type luState struct {
	A     [][]int64 `json:"a"`
	Depth int       `json:"depth"`
}

type luObs struct {
	K             string    `json:"k"`
	A             [][]int64 `json:"a"`
	N             int       `json:"n"`
	Depth         int       `json:"depth"`
	Det           int64     `json:"det"`
	ExactSingular bool      `json:"exactSingular"`
	Adj           [][]int64 `json:"adj,omitempty"`
	B             [][]int64 `json:"b,omitempty"`
	AdjB          [][]int64 `json:"adjb,omitempty"`
	AdjTB         [][]int64 `json:"adjtb,omitempty"`
	TolA          int64     `json:"tolA"`
	TolX          int64     `json:"tolX,omitempty"`
	TolXT         int64     `json:"tolXT,omitempty"`
	TolDet        int64     `json:"tolDet"`
	CondLo        [2]int64  `json:"condLo"`
	CondHi        [2]int64  `json:"condHi"`
}

type luOp struct {
	Op    string    `json:"op"`
	A     [][]int64 `json:"a,omitempty"`
	Alpha int64     `json:"alpha,omitempty"`
	X     []int64   `json:"x,omitempty"`
	Y     []int64   `json:"y,omitempty"`
}

// regEntry is one row of the specification's table: row order q (1-based) -> is the update regular.
type regEntry struct {
	Q  []int
	Ok bool
}

func (r *regEntry) UnmarshalJSON(b []byte) error {
	var raw []json.RawMessage
	if err := json.Unmarshal(b, &raw); err != nil {
		return err
	}
	if len(raw) != 2 {
		return fmt.Errorf("reg entry: want [q, bool]")
	}
	if err := json.Unmarshal(raw[0], &r.Q); err != nil {
		return err
	}
	return json.Unmarshal(raw[1], &r.Ok)
}

func (r regEntry) MarshalJSON() ([]byte, error) { return json.Marshal([]any{r.Q, r.Ok}) }

type luTrans struct {
	K   string     `json:"k"`
	S   luState    `json:"s"`
	Op  luOp       `json:"op"`
	T   luState    `json:"t"`
	Reg []regEntry `json:"reg"`
}

type luStep struct {
	Op  luOp       `json:"op"`
	Reg []regEntry `json:"reg"`
}

type luCase struct {
	K            string     `json:"k"` // "h"
	Hist         []luStep   `json:"hist"`
	Op           luOp       `json:"op"`
	Reg          []regEntry `json:"reg"`
	Recv         string     `json:"recv"`
	XRep         string     `json:"xrep"`
	S            *luObs     `json:"s"`
	T            *luObs     `json:"t"`
	Other        [][]int64  `json:"other,omitempty"`
	UnitExp      int        `json:"unitExp"`
	CondSlackExp int        `json:"condSlackExp"`
}

func init() {
	core.RegisterReplay("matfactor-lu", replayLU)
}

func applyLU(recv, orig *mat.LU, o luOp, xrep string) core.Outcome {
	return core.Call(func() {
		switch o.Op {
		case "Factorize":
			// operand kinds: Dense, a transposed view of the transpose, Matrix interface only
			var a mat.Matrix = denseOf(o.A)
			switch xrep {
			case "inc2":
				a = denseOf(transposeInts(o.A)).T()
			case "basic":
				a = basicMat{denseOf(o.A)}
			}
			recv.Factorize(a)
		case "RankOne":
			recv.RankOne(orig, float64(o.Alpha), vecOf(o.X, xrep), vecOf(o.Y, xrep))
		case "None": // observe the state reached by the history
		default:
			panic("harness: unknown op " + o.Op)
		}
	})
}

// rowOrder returns the 1-based row order q with (L U)[k] = A[q[k]], from the live object's pivots
// (documented convention: A = (L U).PermuteRows(RowPivots, false), i.e. A[i] = (L U)[piv[i]]).
func rowOrder(lu *mat.LU) ([]int, bool) {
	var piv []int
	o := core.Call(func() { piv = lu.RowPivots(nil) })
	if o.Panicked {
		return nil, false
	}
	q := make([]int, len(piv))
	seen := make([]bool, len(piv))
	for i, p := range piv {
		if p < 0 || p >= len(piv) || seen[p] {
			return nil, false
		}
		seen[p] = true
		q[p] = i + 1
	}
	return q, true
}

func regular(reg []regEntry, q []int) (ok, found bool) {
	for _, r := range reg {
		if len(r.Q) != len(q) {
			continue
		}
		same := true
		for i := range q {
			if r.Q[i] != q[i] {
				same = false
				break
			}
		}
		if same {
			return r.Ok, true
		}
	}
	return false, false
}

func allRegular(reg []regEntry) bool {
	for _, r := range reg {
		if !r.Ok {
			return false
		}
	}
	return true
}

func luBits(lu *mat.LU) (bits []uint64, ok bool) {
	o := core.Call(func() {
		var l, u mat.TriDense
		lu.LTo(&l)
		lu.UTo(&u)
		n, _ := l.Triangle()
		for i := 0; i < n; i++ {
			for j := 0; j < n; j++ {
				bits = append(bits, math.Float64bits(l.At(i, j)), math.Float64bits(u.At(i, j)))
			}
		}
		for _, p := range lu.RowPivots(nil) {
			bits = append(bits, uint64(p))
		}
		bits = append(bits, math.Float64bits(lu.Cond()), math.Float64bits(lu.Det()))
	})
	return bits, !o.Panicked
}

func isCondInf(err error) bool {
	c, ok := err.(mat.Condition)
	return ok && math.IsInf(float64(c), 1)
}

// observeLU compares every observer of lu with the specification's answers e.
// afterFactorize: the object was produced by Factorize (partial pivoting, exact norm of A known).
func (k *checker) observeLU(lu *mat.LU, e *luObs, pfx string, afterFactorize bool) {
	n := e.N
	if n == 0 {
		// no factorization: the documented behaviour of every observer is a panic
		k.mustPanic(pfx+"Cond:without-factorization", func() { lu.Cond() })
		k.mustPanic(pfx+"LogDet:without-factorization", func() { lu.LogDet() })
		k.mustPanic(pfx+"RowPivots:without-factorization", func() { lu.RowPivots(nil) })
		k.mustPanic(pfx+"LTo:without-factorization", func() { var t mat.TriDense; lu.LTo(&t) })
		k.mustPanic(pfx+"UTo:without-factorization", func() { var t mat.TriDense; lu.UTo(&t) })
		k.mustPanic(pfx+"SolveTo:without-factorization", func() { var d mat.Dense; _ = lu.SolveTo(&d, false, mat.NewDense(1, 1, []float64{1})) })
		o := core.Call(func() { lu.Det() })
		if !o.Panicked {
			k.failf("matfactor:LU.Det:no-panic-without-factorization", "Det returned normally on an LU that holds no factorization (documented: Det will panic)")
		} else if o.Runtime {
			k.failf(pfx+"Det:runtime-panic", "%s", o.Text)
		}
		return
	}
	var r, c int
	if !k.call(pfx+"Dims", func() { r, c = lu.Dims() }) {
		return
	}
	if r != n || c != n {
		k.failf(pfx+"Dims:value", "Dims = %d,%d, specification says %d", r, c, n)
		return
	}
	// factors and reconstruction A[i] = (L U)[piv[i]]
	var l, u mat.TriDense
	var piv []int
	okf := k.call(pfx+"LTo", func() { lu.LTo(&l) }) && k.call(pfx+"UTo", func() { lu.UTo(&u) }) &&
		k.call(pfx+"RowPivots", func() { piv = lu.RowPivots(nil) })
	if okf {
		ln, lk := l.Triangle()
		un, uk := u.Triangle()
		if ln != n || un != n || lk != mat.Lower || uk != mat.Upper || len(piv) != n {
			k.failf(pfx+"LTo:kind", "LTo gives %d,%v UTo gives %d,%v, %d pivots", ln, lk, un, uk, len(piv))
			okf = false
		}
	}
	if okf {
		if _, ok := rowOrder(lu); !ok {
			k.failf(pfx+"RowPivots:not-a-permutation", "RowPivots = %v", piv)
			okf = false
		}
	}
	if okf && e.Det != 0 {
		for i := 0; i < n && okf; i++ {
			if l.At(i, i) != 1 {
				k.failf(pfx+"LTo:diagonal", "L[%d][%d] = %v, L is unit lower triangular", i, i, l.At(i, i))
				okf = false
			}
			for j := 0; j < n && okf; j++ {
				if !finite(l.At(i, j)) || !finite(u.At(i, j)) {
					k.failf(pfx+"LTo:nonfinite", "L[%d][%d] = %v U[%d][%d] = %v", i, j, l.At(i, j), i, j, u.At(i, j))
					okf = false
				}
				if afterFactorize && math.Abs(l.At(i, j)) > 1 {
					k.failf(pfx+"LTo:multiplier-above-one", "L[%d][%d] = %v after a factorization with partial pivoting", i, j, l.At(i, j))
					okf = false
				}
			}
		}
		for i := 0; i < n && okf; i++ {
			for j := 0; j < n && okf; j++ {
				sum := new(big.Rat)
				for q := 0; q < n; q++ {
					a := new(big.Rat).SetFloat64(l.At(piv[i], q))
					b := new(big.Rat).SetFloat64(u.At(q, j))
					sum.Add(sum, a.Mul(a, b))
				}
				if !k.u.nearRat(sum, e.A[i][j], 1, e.TolA) {
					f, _ := sum.Float64()
					k.failf(pfx+"LU:reconstruction", "(P L U)[%d][%d] = %v, specification says %d (pivots %v)", i, j, f, e.A[i][j], piv)
					okf = false
				}
			}
		}
		k.call(pfx+"At", func() { k.matrixNear(pfx+"At", n, n, lu.At, e.A, 1, e.TolA) })
	}
	if e.Det == 0 {
		// singular matrix
		k.call(pfx+"Det", func() {
			if d := lu.Det(); !k.u.near(d, 0, 1, e.TolDet) {
				k.failf(pfx+"Det:value", "Det = %v on a singular matrix", d)
			}
		})
		if e.ExactSingular {
			// elimination is exact on this matrix: the zero pivot must be seen and reported
			var d mat.Dense
			var err error
			b := mat.NewDense(n, 1, nil)
			for i := 0; i < n; i++ {
				b.Set(i, 0, 1)
			}
			if k.call(pfx+"SolveTo(singular)", func() { err = lu.SolveTo(&d, false, b) }) && err == nil {
				k.failf(pfx+"SolveTo:no-error-on-exactly-singular", "SolveTo returned no error for the exactly singular matrix %v", e.A)
			}
			var v mat.VecDense
			if k.call(pfx+"SolveVecTo(singular)", func() { err = lu.SolveVecTo(&v, true, mat.NewVecDense(n, nil)) }) && err == nil {
				k.failf(pfx+"SolveVecTo:no-error-on-exactly-singular", "SolveVecTo returned no error for the exactly singular matrix %v", e.A)
			}
		}
		return
	}
	// the object claims the (non-singular) matrix is singular: one symptom, one signature
	{
		var d0 float64
		var err error
		var x mat.Dense
		o := core.Call(func() { d0 = lu.Det(); err = lu.SolveTo(&x, false, denseOf(e.B)) })
		if !o.Panicked && d0 == 0 && isCondInf(err) {
			k.failf(pfx+"reports-singular-on-nonsingular", "Det() = 0 and SolveTo = %v although the matrix %v has determinant %d", err, e.A, e.Det)
			return
		}
	}
	k.call(pfx+"Det", func() {
		if d := lu.Det(); !k.u.near(d, e.Det, 1, e.TolDet) {
			k.failf(pfx+"Det:value", "Det = %v, specification says %d (tolerance %d units)", d, e.Det, e.TolDet)
		}
	})
	k.call(pfx+"LogDet", func() {
		ld, sign := lu.LogDet()
		want := 1.0
		ad := e.Det
		if e.Det < 0 {
			want, ad = -1, -e.Det
		}
		if sign != want {
			k.failf(pfx+"LogDet:sign", "sign = %v, specification says det = %d", sign, e.Det)
		} else if !k.u.near(math.Exp(ld), ad, 1, e.TolDet) {
			k.failf(pfx+"LogDet:value", "exp(LogDet) = %v, specification says |det| = %d", math.Exp(ld), ad)
		}
	})
	k.call(pfx+"Cond", func() {
		cond := lu.Cond()
		if !finite(cond) {
			k.failf(pfx+"Cond:nonfinite", "Cond = %v on a non-singular matrix (exact condition number %d/%d)", cond, e.CondHi[0], e.CondHi[1])
			return
		}
		g := new(big.Rat).SetFloat64(cond)
		one := big.NewRat(1, 1)
		lo := new(big.Rat).Mul(big.NewRat(e.CondLo[0], e.CondLo[1]), new(big.Rat).Sub(one, k.u.condSlop))
		if g.Cmp(lo) < 0 {
			k.failf(pfx+"Cond:below-lower-bound", "Cond = %v is below 1", cond)
		}
		if afterFactorize {
			hi := new(big.Rat).Mul(big.NewRat(e.CondHi[0], e.CondHi[1]), new(big.Rat).Add(one, k.u.condSlop))
			if g.Cmp(hi) > 0 {
				k.failf(pfx+"Cond:above-exact", "Cond = %v exceeds the exact condition number %d/%d although the estimator is a lower bound", cond, e.CondHi[0], e.CondHi[1])
			}
		}
	})
	// solves, both transpose flags
	nr := len(e.B[0])
	B := denseOf(e.B)
	for _, trans := range []bool{false, true} {
		want, tolx := e.AdjB, e.TolX
		if trans {
			want, tolx = e.AdjTB, e.TolXT
		}
		type variant struct {
			name string
			run  func() (*mat.Dense, error)
		}
		vs := []variant{
			{"dst-empty", func() (*mat.Dense, error) { var d mat.Dense; err := lu.SolveTo(&d, trans, B); return &d, err }},
			{"dst-sized", func() (*mat.Dense, error) { d := garbageDense(n, nr); err := lu.SolveTo(d, trans, B); return d, err }},
			{"dst-is-b", func() (*mat.Dense, error) { d := denseOf(e.B); err := lu.SolveTo(d, trans, d); return d, err }},
			{"b-transposed", func() (*mat.Dense, error) {
				var d mat.Dense
				err := lu.SolveTo(&d, trans, denseOf(transposeInts(e.B)).T())
				return &d, err
			}},
			{"b-basic", func() (*mat.Dense, error) { var d mat.Dense; err := lu.SolveTo(&d, trans, basicMat{B}); return &d, err }},
		}
		for _, v := range vs {
			sig := fmt.Sprintf("%sSolveTo(trans=%v,%s)", pfx, trans, v.name)
			var d *mat.Dense
			var err error
			if !k.call(sig, func() { d, err = v.run() }) {
				continue
			}
			if err != nil {
				k.failf(sig+":error", "error %v on a well conditioned matrix", err)
				continue
			}
			dr, dc := d.Dims()
			k.matrixNear(sig, dr, dc, d.At, want, e.Det, tolx)
		}
		for j := 0; j < nr; j++ {
			col := colOf(e.B, j)
			wcol := make([][]int64, n)
			for i := range wcol {
				wcol[i] = []int64{want[i][j]}
			}
			type vvariant struct {
				name string
				run  func() (*mat.VecDense, error)
			}
			vvs := []vvariant{
				{"dst-empty", func() (*mat.VecDense, error) {
					var d mat.VecDense
					err := lu.SolveVecTo(&d, trans, vecOf(col, "vec"))
					return &d, err
				}},
				{"dst-is-b", func() (*mat.VecDense, error) {
					d := vecOf(col, "vec").(*mat.VecDense)
					err := lu.SolveVecTo(d, trans, d)
					return d, err
				}},
				{"dst-is-b-inc2", func() (*mat.VecDense, error) {
					d := vecOf(col, "inc2").(*mat.VecDense)
					err := lu.SolveVecTo(d, trans, d)
					return d, err
				}},
				{"b-inc2", func() (*mat.VecDense, error) {
					var d mat.VecDense
					err := lu.SolveVecTo(&d, trans, vecOf(col, "inc2"))
					return &d, err
				}},
				{"b-basic", func() (*mat.VecDense, error) {
					var d mat.VecDense
					err := lu.SolveVecTo(&d, trans, vecOf(col, "basic"))
					return &d, err
				}},
			}
			for _, v := range vvs {
				sig := fmt.Sprintf("%sSolveVecTo(trans=%v,%s)", pfx, trans, v.name)
				var d *mat.VecDense
				var err error
				if !k.call(sig, func() { d, err = v.run() }) {
					continue
				}
				if err != nil {
					k.failf(sig+":error", "error %v on a well conditioned matrix", err)
					continue
				}
				k.matrixNear(sig, d.Len(), 1, d.At, wcol, e.Det, tolx)
			}
		}
	}
}

// observeBroken: the update has no representation with the kept row order (or the result is
// singular). Anything loud is acceptable; a finite answer without an error must be the right one.
func (k *checker) observeBroken(lu *mat.LU, e *luObs, pfx string) (silent bool) {
	n := e.N
	var d mat.Dense
	var err error
	var b *mat.Dense
	if e.Det != 0 {
		b = denseOf(e.B)
	} else {
		b = mat.NewDense(n, 1, nil)
		for i := 0; i < n; i++ {
			b.Set(i, 0, 1)
		}
	}
	o := core.Call(func() { err = lu.SolveTo(&d, false, b) })
	if o.Panicked {
		if o.Runtime {
			k.failf(pfx+"nonregular:SolveTo:runtime-panic", "%s", o.Text)
		}
		return false
	}
	if err != nil {
		return false
	}
	r, c := d.Dims()
	for i := 0; i < r; i++ {
		for j := 0; j < c; j++ {
			if !finite(d.At(i, j)) {
				return false
			}
		}
	}
	if e.Det == 0 {
		return true // finite "solution" of a singular system without an error: counted, see driver
	}
	k.matrixNear(pfx+"nonregular:SolveTo:silent-wrong-answer", r, c, d.At, e.AdjB, e.Det, e.TolX)
	return false
}

type luResult struct {
	skipped     string
	nonregular  bool
	silentOnSng bool
}

func runLUCase(c *luCase, k *checker) luResult {
	obj := &mat.LU{}
	for i, h := range c.Hist {
		var q []int
		if h.Op.Op == "RankOne" {
			var ok bool
			if q, ok = rowOrder(obj); !ok {
				return luResult{skipped: "history: no pivots"}
			}
		}
		if o := applyLU(obj, obj, h.Op, "vec"); o.Panicked {
			return luResult{skipped: fmt.Sprintf("history step %d panicked: %s", i, o.Text)}
		}
		if h.Op.Op == "RankOne" {
			if reg, found := regular(h.Reg, q); !found || !reg {
				return luResult{skipped: "history passes through an update that is not regular for the pivots chosen by the implementation"}
			}
		}
	}
	pfx := "matfactor:LU." + c.Op.Op + "[" + c.Recv + "]:"
	recv := obj
	switch c.Recv {
	case "fresh":
		recv = &mat.LU{}
	case "other":
		recv = &mat.LU{}
		recv.Factorize(denseOf(c.Other))
	}
	var q []int
	if c.Op.Op == "RankOne" {
		var ok bool
		if q, ok = rowOrder(obj); !ok {
			return luResult{skipped: "no pivots on the source object"}
		}
	}
	var origBits []uint64
	if recv != obj {
		origBits, _ = luBits(obj)
	}
	o := applyLU(recv, obj, c.Op, c.XRep)
	if o.Panicked {
		kind := "panic"
		if o.Runtime {
			kind = "runtime-panic"
		}
		k.failf(pfx+kind, "%s", o.Text)
		return luResult{}
	}
	if recv != obj {
		after, _ := luBits(obj)
		if !sameBits(origBits, after) {
			k.failf(pfx+"orig-modified", "the orig argument changed")
		}
	}
	if c.Op.Op == "RankOne" {
		reg, found := regular(c.Reg, q)
		if !found {
			k.failf(pfx+"RowPivots:unknown-order", "row order %v not in the specification's table", q)
			return luResult{}
		}
		if !reg {
			s := k.observeBroken(recv, c.T, pfx)
			return luResult{nonregular: true, silentOnSng: s}
		}
	}
	k.observeLU(recv, c.T, pfx, c.Op.Op == "Factorize")
	return luResult{}
}

// ---- replay driver -----------------------------------------------------------------

func luKey(a [][]int64, depth int) string { return keyOf(true, a) + "#" + strconv.Itoa(depth) }

func replayLU(in *core.Lines, args []string, seed int64, sum *core.Summary) error {
	am := parseArgs(args)
	modes := []string{"self", "fresh", "other"}
	if v, ok := am["modes"]; ok {
		modes = strings.Split(v, ",")
	}
	shard, nshard := 0, 1
	if v, ok := am["shard"]; ok {
		p := strings.Split(v, "/")
		shard, _ = strconv.Atoi(p[0])
		nshard, _ = strconv.Atoi(p[1])
	}
	rng := rand.New(rand.NewSource(seed))
	var hdr hdrRec
	var obs []*luObs
	idx := map[string]int{}
	var trans []luTrans
	var direct []*luCase
	for {
		b, ok := in.Next()
		if !ok {
			break
		}
		var probe struct {
			K string `json:"k"`
		}
		if err := json.Unmarshal(b, &probe); err != nil {
			return fmt.Errorf("line %d: %v", in.N, err)
		}
		switch probe.K {
		case "hdr":
			if err := json.Unmarshal(b, &hdr); err != nil {
				return err
			}
		case "s":
			o := new(luObs)
			if err := json.Unmarshal(b, o); err != nil {
				return err
			}
			idx[luKey(o.A, o.Depth)] = len(obs)
			obs = append(obs, o)
		case "t":
			var t luTrans
			if err := json.Unmarshal(b, &t); err != nil {
				return err
			}
			trans = append(trans, t)
		case "h":
			c := new(luCase)
			if err := json.Unmarshal(b, c); err != nil {
				return err
			}
			direct = append(direct, c)
		}
	}
	run := func(c *luCase) {
		k := &checker{u: newUnits(c.UnitExp, c.CondSlackExp)}
		res := runLUCase(c, k)
		if res.skipped != "" {
			sum.Count("skipped_history_diverged", 1)
			return
		}
		sum.Cases++
		if c.Op.Op == "RankOne" || c.T.Det == 0 {
			sum.Nontrivial++
		}
		if res.nonregular {
			sum.Count("nonregular_updates", 1)
		}
		if res.silentOnSng {
			sum.Count("singular_after_update_finite_answer_without_error", 1)
			if _, ok := sum.Extra["singular_after_update_example"]; !ok {
				sum.Extra["singular_after_update_example"] = c
			}
		}
		sum.Count("op_"+c.Op.Op, 1)
		sum.Count("recv_"+c.Recv, 1)
		seen := map[string]bool{}
		for _, f := range k.fails {
			if !seen[f[0]] {
				seen[f[0]] = true
				sum.Fail(f[0], f[1], c)
			}
		}
		if len(k.fails) == 0 && !res.nonregular {
			sum.Sample(struct {
				Hist int    `json:"history_len"`
				Op   luOp   `json:"op"`
				Recv string `json:"recv"`
				T    any    `json:"t"`
			}{len(c.Hist), c.Op, c.Recv, c.T.A})
		}
	}
	for _, c := range direct {
		run(c)
	}
	if len(trans) == 0 {
		return nil
	}
	type ledge struct {
		from, to int
		op       luOp
		reg      []regEntry
	}
	var edges []ledge
	for _, t := range trans {
		f, ok1 := idx[luKey(t.S.A, t.S.Depth)]
		g, ok2 := idx[luKey(t.T.A, t.T.Depth)]
		if !ok1 || !ok2 {
			return fmt.Errorf("transition refers to a state that was not printed")
		}
		edges = append(edges, ledge{f, g, t.Op, t.Reg})
	}
	root, ok := idx[luKey(nil, 0)]
	if !ok {
		return fmt.Errorf("initial state not printed")
	}
	// Histories are established LIVE, breadth first: a RankOne edge extends a history only if the
	// update is regular for the pivots the implementation really holds at that point (the
	// specification's table decides), so every history handed to a case is a behaviour of the
	// specification on which the object is well defined.
	works := func(h []luStep) bool {
		obj := &mat.LU{}
		for _, st := range h {
			var q []int
			if st.Op.Op == "RankOne" {
				var ok bool
				if q, ok = rowOrder(obj); !ok {
					return false
				}
			}
			if o := applyLU(obj, obj, st.Op, "vec"); o.Panicked {
				return false
			}
			if st.Op.Op == "RankOne" {
				if reg, found := regular(st.Reg, q); !found || !reg {
					return false
				}
			}
		}
		return true
	}
	depth := make([]int, len(obs))
	hist := make([][]luStep, len(obs))
	for i := range depth {
		depth[i] = -1
	}
	depth[root] = 0
	out := make([][]int, len(obs))
	for i, e := range edges {
		out[e.from] = append(out[e.from], i)
	}
	frontier := []int{root}
	for d := 1; len(frontier) > 0; d++ {
		var next []int
		rng.Shuffle(len(frontier), func(i, j int) { frontier[i], frontier[j] = frontier[j], frontier[i] })
		for _, s := range frontier {
			order := rng.Perm(len(out[s]))
			for _, oi := range order {
				e := edges[out[s][oi]]
				if depth[e.to] >= 0 || e.from == e.to {
					continue
				}
				h := append(append([]luStep{}, hist[s]...), luStep{e.op, e.reg})
				if e.op.Op == "RankOne" && !works(h) {
					continue
				}
				depth[e.to] = d
				hist[e.to] = h
				next = append(next, e.to)
			}
		}
		frontier = next
	}
	history := func(s int) []luStep { return hist[s] }
	xreps := []string{"vec", "inc2", "basic"}
	sum.Count("states", len(obs))
	sum.Count("transitions", len(edges))
	cnt := 0
	if shard == 0 {
		run(&luCase{K: "h", Op: luOp{Op: "None"}, Recv: "self", XRep: "vec", S: obs[root], T: obs[root],
			UnitExp: hdr.UnitExp, CondSlackExp: hdr.CondSlackExp})
	}
	for ei, e := range edges {
		if depth[e.from] < 0 {
			sum.Count("transitions_from_states_without_clean_history", 1)
			continue
		}
		if ei%nshard != shard {
			continue
		}
		base := history(e.from)
		for _, m := range modes {
			if m != "self" && e.op.Op != "RankOne" {
				continue
			}
			c := &luCase{K: "h", Hist: base, Op: e.op, Reg: e.reg, Recv: m, XRep: "vec",
				S: obs[e.from], T: obs[e.to], UnitExp: hdr.UnitExp, CondSlackExp: hdr.CondSlackExp}
			c.XRep = xreps[cnt%len(xreps)]
			cnt++
			if m == "other" {
				c.Other = hdr.Other[obs[e.from].N-1]
			}
			run(c)
		}
	}
	return nil
}
