package matfactor

import (
	"fmt"
	"math"
	"math/big"

	"gonum.org/v1/gonum/mat"
)

// Destination plumbing shared by the ExpPow and Extract replays. The receiver modes are the
// specification's (ExpPow!ExpModes, Extract!DstModes); this file only builds the storage and
// checks, bit for bit, that storage outside the window of a view was not written.

var junk = math.Float64frombits(0x7ff8000000c0ffee) // a NaN with a payload: survives only if it is not overwritten

func isJunk(x float64) bool { return math.Float64bits(x) == math.Float64bits(junk) }

type dstBox struct {
	mode    string
	d       *mat.Dense // the receiver handed to gonum
	backing *mat.Dense // mode "view": the larger matrix d is a window of
	r0, c0  int
	r, c    int
}

const (
	padTop, padLeft, padBottom, padRight = 1, 2, 2, 1
)

func junkDense(r, c int) *mat.Dense {
	d := mat.NewDense(r, c, nil)
	raw := d.RawMatrix()
	for i := range raw.Data {
		raw.Data[i] = junk
	}
	return d
}

// newDst builds an r x c destination: "empty" (zero value), "sized" (r x c filled with junk),
// "view" (an r x c window of a larger junk-filled matrix).
func newDst(mode string, r, c int) *dstBox {
	b := &dstBox{mode: mode, r: r, c: c}
	switch mode {
	case "empty":
		b.d = &mat.Dense{}
	case "sized":
		b.d = junkDense(r, c)
	case "view":
		b.backing = junkDense(r+padTop+padBottom, c+padLeft+padRight)
		b.r0, b.c0 = padTop, padLeft
		b.d = b.backing.Slice(b.r0, b.r0+r, b.c0, b.c0+c).(*mat.Dense)
	default:
		panic("harness: unknown destination mode " + mode)
	}
	return b
}

// fill stores the integer matrix a / 2^exp into the receiver window (for receiver == argument modes).
func (b *dstBox) fill(num [][]int64, exp int) {
	for i := range num {
		for j := range num[i] {
			b.d.Set(i, j, math.Ldexp(float64(num[i][j]), -exp))
		}
	}
}

// outside reports the first element outside the window that no longer holds the junk pattern.
func (b *dstBox) outside() (bool, string) {
	if b.backing == nil {
		return true, ""
	}
	R, C := b.backing.Dims()
	for i := 0; i < R; i++ {
		for j := 0; j < C; j++ {
			in := i >= b.r0 && i < b.r0+b.r && j >= b.c0 && j < b.c0+b.c
			if !in && !isJunk(b.backing.At(i, j)) {
				return false, fmt.Sprintf("backing element (%d,%d) outside the %dx%d window at (%d,%d) was overwritten with %v",
					i, j, b.r, b.c, b.r0, b.c0, b.backing.At(i, j))
			}
		}
	}
	return true, ""
}

// unchanged reports whether a receiver that must not have been written still holds only junk.
func (b *dstBox) unchanged() (bool, string) {
	if b.d.IsEmpty() {
		return true, ""
	}
	r, c := b.d.Dims()
	if r != b.r || c != b.c {
		return false, fmt.Sprintf("receiver was reshaped from %dx%d to %dx%d", b.r, b.c, r, c)
	}
	for i := 0; i < r; i++ {
		for j := 0; j < c; j++ {
			if !isJunk(b.d.At(i, j)) {
				return false, fmt.Sprintf("receiver element (%d,%d) was overwritten with %v before the panic", i, j, b.d.At(i, j))
			}
		}
	}
	return b.outside()
}

// isErrShape reports whether a recovered panic value is mat.ErrShape.
func isErrShape(v any) bool {
	e, ok := v.(mat.Error)
	return ok && e == mat.ErrShape
}

// ratio returns |got - num/den| / (tolUnits * unit) as a float (for the measured margin only).
func (u units) ratio(got float64, num, den int64, tol *big.Rat) float64 {
	if !finite(got) || tol.Sign() == 0 {
		return math.Inf(1)
	}
	g := new(big.Rat).SetFloat64(got)
	d := g.Sub(g, big.NewRat(num, den))
	d.Abs(d)
	f, _ := d.Quo(d, tol).Float64()
	return f
}
