package matfactor

import (
	"encoding/json"
	"fmt"
	"math"
	"math/big"
	"math/rand"
	"strconv"
	"strings"

	"gonum.org/v1/gonum/mat"

	"gonum.org/v1/gonum/verifharness/internal/core"
)

// ---- records printed by CholMachine.tla ------------------------------------

type stateRec struct {
	Valid bool      `json:"valid"`
	A     [][]int64 `json:"a"`
}

type obsRec struct {
	K      string    `json:"k"`
	Valid  bool      `json:"valid"`
	A      [][]int64 `json:"a"`
	N      int       `json:"n"`
	Minors []int64   `json:"minors,omitempty"`
	Det    int64     `json:"det,omitempty"`
	Adj    [][]int64 `json:"adj,omitempty"`
	B      [][]int64 `json:"b,omitempty"`
	AdjB   [][]int64 `json:"adjb,omitempty"`
	TolA   int64     `json:"tolA,omitempty"`
	TolX   int64     `json:"tolX,omitempty"`
	TolInv int64     `json:"tolInv,omitempty"`
	TolDet int64     `json:"tolDet,omitempty"`
	CondLo [2]int64  `json:"condLo,omitempty"`
	CondHi [2]int64  `json:"condHi,omitempty"`
	// CondHiF is the tighter upper bound valid when the norm of A itself was available (after Factorize).
	CondHiF [2]int64 `json:"condHiF,omitempty"`
}

type opRec struct {
	Op    string    `json:"op"`
	A     [][]int64 `json:"a,omitempty"`
	U     [][]int64 `json:"u,omitempty"`
	Alpha int64     `json:"alpha,omitempty"`
	V     []int64   `json:"v,omitempty"`
	F     []int64   `json:"f,omitempty"`
}

type transRec struct {
	K   string   `json:"k"`
	S   stateRec `json:"s"`
	Op  opRec    `json:"op"`
	Out string   `json:"out"`
	T   stateRec `json:"t"`
}

type hdrRec struct {
	K            string      `json:"k"`
	Machine      string      `json:"machine"`
	MaxN         int         `json:"maxN"`
	UnitExp      int         `json:"unitExp"`
	CondSlackExp int         `json:"condSlackExp"`
	Other        [][][]int64 `json:"other"`
}

type histStep struct {
	Op  opRec  `json:"op"`
	Out string `json:"out"`
}

// cholCase is the self-contained replayable unit: a history of calls on a fresh
// mat.Cholesky (each with the outcome the specification gives it), then one call
// with a receiver mode and an operand representation, the specification's answer
// for it and the observer answers of the source and target states.
type cholCase struct {
	K            string     `json:"k"` // "h"
	Hist         []histStep `json:"hist"`
	Op           opRec      `json:"op"`
	Recv         string     `json:"recv"` // self | fresh | other
	XRep         string     `json:"xrep"` // vec | inc2 | basic
	Out          string     `json:"out"`  // ok | fail | either
	S            *obsRec    `json:"s"`
	T            *obsRec    `json:"t"`
	Other        [][]int64  `json:"other,omitempty"`
	UnitExp      int        `json:"unitExp"`
	CondSlackExp int        `json:"condSlackExp"`
}

func init() {
	core.RegisterReplay("matfactor-chol", replayChol)
}

// ---- applying one operation --------------------------------------------------

type applied struct {
	hasOK bool
	ok    bool
	out   core.Outcome
}

func applyChol(recv, orig *mat.Cholesky, o opRec, xrep string) applied {
	var r applied
	r.out = core.Call(func() {
		switch o.Op {
		case "Factorize":
			// operand kinds: SymDense, full-band SymBandDense, Symmetric interface only
			var a mat.Symmetric = symOf(o.A)
			switch {
			case xrep == "inc2" && len(o.A) > 0:
				a = bandOf(o.A, len(o.A)-1)
			case xrep == "basic":
				a = basicSym{symOf(o.A)}
			}
			r.hasOK, r.ok = true, recv.Factorize(a)
		case "SetFromU":
			var t mat.Triangular = triUpperOf(o.U)
			if xrep == "basic" {
				t = basicTri{triUpperOf(o.U)}
			}
			recv.SetFromU(t)
		case "SymRankOne":
			r.hasOK, r.ok = true, recv.SymRankOne(orig, float64(o.Alpha), vecOf(o.V, xrep))
		case "ExtendVecSym":
			r.hasOK, r.ok = true, recv.ExtendVecSym(orig, vecOf(o.V, xrep))
		case "Scale":
			recv.Scale(float64(o.F[0])/float64(o.F[1]), orig)
		case "Clone":
			recv.Clone(orig)
		case "None": // observe the state reached by the history
		default:
			panic("harness: unknown op " + o.Op)
		}
	})
	return r
}

func usesOrig(op string) bool {
	return op == "SymRankOne" || op == "ExtendVecSym" || op == "Scale" || op == "Clone"
}

func usesVec(op string) bool { return op == "SymRankOne" || op == "ExtendVecSym" }

// ---- observers ---------------------------------------------------------------

func symBits(ch *mat.Cholesky) (bits []uint64, cond float64, ok bool) {
	o := core.Call(func() {
		var s mat.SymDense
		ch.ToSym(&s)
		n := s.SymmetricDim()
		for i := 0; i < n; i++ {
			for j := 0; j < n; j++ {
				bits = append(bits, math.Float64bits(s.At(i, j)))
			}
		}
		cond = ch.Cond()
	})
	return bits, cond, !o.Panicked
}

func sameBits(a, b []uint64) bool {
	if len(a) != len(b) {
		return false
	}
	for i := range a {
		if a[i] != b[i] {
			return false
		}
	}
	return true
}

// observeInvalid: an object without a factorization has dimension 0 and every observer panics.
func (k *checker) observeInvalid(ch *mat.Cholesky, pfx string) {
	// "Calls to methods of an unsuccessful Cholesky factorization will panic": Dims may panic
	// too (it does after a failed Factorize); if it answers, the answer must be 0 x 0.
	var r, c int
	o := core.Call(func() { r, c = ch.Dims() })
	if o.Runtime {
		k.failf(pfx+"Dims:runtime-panic", "%s", o.Text)
		return
	}
	if !o.Panicked && (r != 0 || c != 0) {
		k.failf(pfx+"Dims:nonempty-without-factorization", "Dims = %d,%d on an object that must hold no factorization", r, c)
		return
	}
	k.mustPanic(pfx+"Det:invalid", func() { ch.Det() })
	k.mustPanic(pfx+"LogDet:invalid", func() { ch.LogDet() })
	k.mustPanic(pfx+"Cond:invalid", func() { ch.Cond() })
	k.mustPanic(pfx+"ToSym:invalid", func() { var s mat.SymDense; ch.ToSym(&s) })
	k.mustPanic(pfx+"UTo:invalid", func() { var t mat.TriDense; ch.UTo(&t) })
	k.mustPanic(pfx+"LTo:invalid", func() { var t mat.TriDense; ch.LTo(&t) })
	k.mustPanic(pfx+"SolveTo:invalid", func() { var d mat.Dense; _ = ch.SolveTo(&d, mat.NewDense(1, 1, []float64{1})) })
	k.mustPanic(pfx+"InverseTo:invalid", func() { var s mat.SymDense; _ = ch.InverseTo(&s) })
}

// observeChol compares every observer of ch with the specification's answers e.
func (k *checker) observeChol(ch *mat.Cholesky, e *obsRec, pfx string) {
	k.observeCholN(ch, e, pfx, false)
}

// observeCholN: exactNorm says the object was produced by Factorize (the norm of A was known).
func (k *checker) observeCholN(ch *mat.Cholesky, e *obsRec, pfx string, exactNorm bool) {
	if !e.Valid {
		k.observeInvalid(ch, pfx)
		return
	}
	n := e.N
	var r, c int
	if !k.call(pfx+"Dims", func() { r, c = ch.Dims() }) {
		return
	}
	if r != n || c != n || ch.SymmetricDim() != n {
		k.failf(pfx+"Dims:value", "Dims = %d,%d SymmetricDim = %d, specification says %d", r, c, ch.SymmetricDim(), n)
		return
	}
	// ToSym into an empty and into a sized destination full of NaN
	var s1 mat.SymDense
	if k.call(pfx+"ToSym", func() { ch.ToSym(&s1) }) {
		k.matrixNear(pfx+"ToSym", s1.SymmetricDim(), s1.SymmetricDim(), s1.At, e.A, 1, e.TolA)
		s2 := mat.NewSymDense(n, nil)
		for i := 0; i < n; i++ {
			for j := i; j < n; j++ {
				s2.SetSym(i, j, math.NaN())
			}
		}
		if k.call(pfx+"ToSym(sized)", func() { ch.ToSym(s2) }) {
			k.matrixNear(pfx+"ToSym(sized)", n, n, s2.At, e.A, 1, e.TolA)
		}
	}
	k.call(pfx+"At", func() { k.matrixNear(pfx+"At", n, n, ch.At, e.A, 1, e.TolA) })
	// factors: U upper triangular with positive diagonal, U^T U = A, L = U^T, RawU = U
	var u, l mat.TriDense
	if k.call(pfx+"UTo", func() { ch.UTo(&u) }) && k.call(pfx+"LTo", func() { ch.LTo(&l) }) {
		un, uk := u.Triangle()
		ln, lk := l.Triangle()
		if un != n || uk != mat.Upper || ln != n || lk != mat.Lower {
			k.failf(pfx+"UTo:kind", "UTo gives %d,%v LTo gives %d,%v", un, uk, ln, lk)
		} else {
			okf := true
			for i := 0; i < n && okf; i++ {
				if !(u.At(i, i) > 0) {
					k.failf(pfx+"UTo:diagonal", "U[%d][%d] = %v is not positive", i, i, u.At(i, i))
					okf = false
				}
				for j := 0; j < n && okf; j++ {
					if math.Float64bits(u.At(i, j)) != math.Float64bits(l.At(j, i)) {
						k.failf(pfx+"LTo:not-transpose-of-UTo", "U[%d][%d] = %v, L[%d][%d] = %v", i, j, u.At(i, j), j, i, l.At(j, i))
						okf = false
					}
					if !finite(u.At(i, j)) {
						k.failf(pfx+"UTo:nonfinite", "U[%d][%d] = %v", i, j, u.At(i, j))
						okf = false
					}
				}
			}
			if okf {
				for i := 0; i < n && okf; i++ {
					for j := 0; j < n && okf; j++ {
						sum := new(big.Rat)
						for q := 0; q <= i && q <= j; q++ {
							a := new(big.Rat).SetFloat64(u.At(q, i))
							b := new(big.Rat).SetFloat64(u.At(q, j))
							sum.Add(sum, a.Mul(a, b))
						}
						if !k.u.nearRat(sum, e.A[i][j], 1, e.TolA) {
							f, _ := sum.Float64()
							k.failf(pfx+"UTo:reconstruction", "(U^T U)[%d][%d] = %v, specification says %d", i, j, f, e.A[i][j])
							okf = false
						}
					}
				}
			}
			ru := ch.RawU()
			if ru == nil {
				k.failf(pfx+"RawU:nil", "RawU returned nil on a valid factorization")
			} else {
				for i := 0; i < n; i++ {
					for j := 0; j < n; j++ {
						if math.Float64bits(ru.At(i, j)) != math.Float64bits(u.At(i, j)) {
							k.failf(pfx+"RawU:differs-from-UTo", "RawU[%d][%d] = %v UTo = %v", i, j, ru.At(i, j), u.At(i, j))
						}
					}
				}
			}
		}
	}
	// Det, LogDet (through exp), Cond (two-sided bounds of the estimate)
	k.call(pfx+"Det", func() {
		if d := ch.Det(); !k.u.near(d, e.Det, 1, e.TolDet) {
			k.failf(pfx+"Det:value", "Det = %v, specification says %d (tolerance %d units)", d, e.Det, e.TolDet)
		}
	})
	k.call(pfx+"LogDet", func() {
		if ld := ch.LogDet(); !k.u.near(math.Exp(ld), e.Det, 1, e.TolDet) {
			k.failf(pfx+"LogDet:value", "exp(LogDet) = %v, specification says %d", math.Exp(ld), e.Det)
		}
	})
	k.call(pfx+"Cond", func() {
		e2 := *e
		if exactNorm && e.CondHiF[1] != 0 {
			e2.CondHi = e.CondHiF
		}
		k.condWithin(pfx+"Cond", ch.Cond(), &e2)
	})
	// solves
	nr := len(e.B[0])
	B := denseOf(e.B)
	type variant struct {
		name string
		run  func() (*mat.Dense, error)
	}
	vs := []variant{
		{"dst-empty", func() (*mat.Dense, error) { var d mat.Dense; err := ch.SolveTo(&d, B); return &d, err }},
		{"dst-sized", func() (*mat.Dense, error) { d := garbageDense(n, nr); err := ch.SolveTo(d, B); return d, err }},
		{"dst-is-b", func() (*mat.Dense, error) { d := denseOf(e.B); err := ch.SolveTo(d, d); return d, err }},
		{"b-transposed", func() (*mat.Dense, error) {
			var d mat.Dense
			err := ch.SolveTo(&d, denseOf(transposeInts(e.B)).T())
			return &d, err
		}},
		{"b-basic", func() (*mat.Dense, error) { var d mat.Dense; err := ch.SolveTo(&d, basicMat{B}); return &d, err }},
	}
	for _, v := range vs {
		sig := pfx + "SolveTo(" + v.name + ")"
		var d *mat.Dense
		var err error
		if !k.call(sig, func() { d, err = v.run() }) {
			continue
		}
		if err != nil {
			k.failf(sig+":error", "error %v on a well conditioned matrix", err)
			continue
		}
		dr, dc := d.Dims()
		k.matrixNear(sig, dr, dc, d.At, e.AdjB, e.Det, e.TolX)
	}
	for j := 0; j < nr; j++ {
		col := colOf(e.B, j)
		want := make([][]int64, n)
		for i := range want {
			want[i] = []int64{e.AdjB[i][j]}
		}
		type vvariant struct {
			name string
			run  func() (*mat.VecDense, error)
		}
		vvs := []vvariant{
			{"dst-empty", func() (*mat.VecDense, error) {
				var d mat.VecDense
				err := ch.SolveVecTo(&d, vecOf(col, "vec"))
				return &d, err
			}},
			{"dst-is-b", func() (*mat.VecDense, error) {
				d := vecOf(col, "vec").(*mat.VecDense)
				err := ch.SolveVecTo(d, d)
				return d, err
			}},
			{"b-inc2", func() (*mat.VecDense, error) {
				var d mat.VecDense
				err := ch.SolveVecTo(&d, vecOf(col, "inc2"))
				return &d, err
			}},
			{"dst-is-b-inc2", func() (*mat.VecDense, error) {
				d := vecOf(col, "inc2").(*mat.VecDense)
				err := ch.SolveVecTo(d, d)
				return d, err
			}},
			{"b-basic", func() (*mat.VecDense, error) {
				var d mat.VecDense
				err := ch.SolveVecTo(&d, vecOf(col, "basic"))
				return &d, err
			}},
		}
		for _, v := range vvs {
			sig := pfx + "SolveVecTo(" + v.name + ")"
			var d *mat.VecDense
			var err error
			if !k.call(sig, func() { d, err = v.run() }) {
				continue
			}
			if err != nil {
				k.failf(sig+":error", "error %v on a well conditioned matrix", err)
				continue
			}
			k.matrixNear(sig, d.Len(), 1, d.At, want, e.Det, e.TolX)
		}
	}
	// inverse
	var inv mat.SymDense
	var ierr error
	if k.call(pfx+"InverseTo", func() { ierr = ch.InverseTo(&inv) }) {
		if ierr != nil {
			k.failf(pfx+"InverseTo:error", "error %v on a well conditioned matrix", ierr)
		} else {
			k.matrixNear(pfx+"InverseTo", inv.SymmetricDim(), inv.SymmetricDim(), inv.At, e.Adj, e.Det, e.TolInv)
		}
	}
}

func (k *checker) condWithin(sig string, cond float64, e *obsRec) {
	if !finite(cond) {
		k.failf(sig+":nonfinite", "Cond = %v on a matrix with exact condition number at most %d/%d", cond, e.CondHi[0], e.CondHi[1])
		return
	}
	g := new(big.Rat).SetFloat64(cond)
	one := big.NewRat(1, 1)
	lo := new(big.Rat).Mul(big.NewRat(e.CondLo[0], e.CondLo[1]), new(big.Rat).Sub(one, k.u.condSlop))
	hi := new(big.Rat).Mul(big.NewRat(e.CondHi[0], e.CondHi[1]), new(big.Rat).Add(one, k.u.condSlop))
	if g.Cmp(lo) < 0 {
		k.failf(sig+":below-lower-bound", "Cond = %v is below %d/%d: no condition number of this matrix", cond, e.CondLo[0], e.CondLo[1])
	} else if g.Cmp(hi) > 0 {
		k.failf(sig+":above-upper-bound", "Cond = %v exceeds the bound %d/%d the specification derives from the exact condition number", cond, e.CondHi[0], e.CondHi[1])
	}
}

// ---- running one case ----------------------------------------------------------

type caseResult struct {
	skipped  string // non-empty: the case could not be judged (reason)
	boundary bool   // an "either" outcome took the ok branch
}

func runCholCase(c *cholCase, k *checker) caseResult {
	obj := &mat.Cholesky{}
	for i, h := range c.Hist {
		recv := obj
		if h.Op.Op == "Clone" {
			recv = &mat.Cholesky{}
		}
		r := applyChol(recv, obj, h.Op, "vec")
		if r.out.Panicked {
			return caseResult{skipped: fmt.Sprintf("history step %d (%s) panicked: %s", i, h.Op.Op, r.out.Text)}
		}
		if r.hasOK && r.ok != (h.Out == "ok") {
			return caseResult{skipped: fmt.Sprintf("history step %d (%s) returned ok=%v, specification says %s", i, h.Op.Op, r.ok, h.Out)}
		}
		obj = recv
	}
	pfx := "matfactor:Cholesky." + c.Op.Op + "[" + c.Recv + "]:"
	recv := obj
	switch c.Recv {
	case "fresh":
		recv = &mat.Cholesky{}
	case "other":
		recv = &mat.Cholesky{}
		if !recv.Factorize(symOf(c.Other)) {
			return caseResult{skipped: "the busy receiver's matrix did not factorize"}
		}
	}
	var origBits, recvBits []uint64
	var recvCond float64
	var recvHad bool
	if recv != obj {
		origBits, _, _ = symBits(obj)
		recvBits, recvCond, recvHad = symBits(recv)
	}
	r := applyChol(recv, obj, c.Op, c.XRep)
	if r.out.Panicked {
		kind := "panic"
		if r.out.Runtime {
			kind = "runtime-panic"
		}
		sig := pfx + kind
		if usesVec(c.Op.Op) && c.XRep == "basic" {
			sig = "matfactor:Cholesky." + c.Op.Op + ":x-without-RawVector:" + kind
		}
		k.failf(sig, "%s", r.out.Text)
		return caseResult{}
	}
	if r.hasOK {
		switch c.Out {
		case "ok":
			if !r.ok {
				k.failf(pfx+"ok:false-on-positive-definite", "returned false, the updated matrix %v is positive definite (minors %v)", c.T.A, c.T.Minors)
				return caseResult{}
			}
		case "fail":
			if r.ok {
				k.failf(pfx+"ok:true-on-not-positive-definite", "returned true, the specification proves the updated matrix is not positive definite")
				return caseResult{}
			}
		case "either":
			if r.ok {
				return caseResult{boundary: true}
			}
		}
	}
	if recv != obj && usesOrig(c.Op.Op) {
		after, _, _ := symBits(obj)
		if !sameBits(origBits, after) {
			k.failf(pfx+"orig-modified", "the orig argument no longer reproduces the same matrix after the call")
		}
	}
	succeeded := c.Out == "ok" || (!r.hasOK)
	if succeeded {
		sub := pfx
		if c.Op.Op == "SymRankOne" && c.Op.Alpha == 0 && recv != obj {
			sub = "matfactor:Cholesky.SymRankOne[alpha=0," + c.Recv + "]:"
		}
		k.observeCholN(recv, c.T, sub, c.Op.Op == "Factorize")
		return caseResult{}
	}
	// the call reported failure
	if c.Op.Op == "Factorize" {
		k.observeChol(recv, c.T, pfx+"after-failure:")
		return caseResult{}
	}
	// a failed update leaves the receiver unchanged
	switch {
	case recv == obj:
		k.observeChol(recv, c.S, pfx+"after-failure:")
	case !recvHad:
		k2 := &checker{u: k.u}
		k2.observeInvalid(recv, "")
		if len(k2.fails) > 0 {
			k.failf("matfactor:Cholesky."+c.Op.Op+"[fresh]:after-failure:receiver-changed",
				"the update reported failure but the empty receiver now holds a factorization (%s)", k2.fails[0][1])
		}
	default:
		after, cond, had := symBits(recv)
		if !had || !sameBits(recvBits, after) || cond != recvCond {
			k.failf("matfactor:Cholesky."+c.Op.Op+"[other]:after-failure:receiver-changed",
				"the update reported failure but the receiver no longer represents the matrix it held (Cond before %v, after %v)", recvCond, cond)
		}
	}
	return caseResult{}
}

// ---- replay driver ---------------------------------------------------------------

type edge struct {
	from, to int
	op       opRec
	out      string
}

func replayChol(in *core.Lines, args []string, seed int64, sum *core.Summary) error {
	am := parseArgs(args)
	modes := []string{"self", "fresh", "other"}
	if v, ok := am["modes"]; ok {
		modes = strings.Split(v, ",")
	}
	shard, nshard := 0, 1
	if v, ok := am["shard"]; ok {
		p := strings.Split(v, "/")
		shard, _ = strconv.Atoi(p[0])
		nshard, _ = strconv.Atoi(p[1])
	}
	rng := rand.New(rand.NewSource(seed))
	var hdr hdrRec
	var obs []*obsRec
	idx := map[string]int{}
	var trans []transRec
	var direct []*cholCase
	for {
		b, ok := in.Next()
		if !ok {
			break
		}
		var probe struct {
			K string `json:"k"`
		}
		if err := json.Unmarshal(b, &probe); err != nil {
			return fmt.Errorf("line %d: %v", in.N, err)
		}
		switch probe.K {
		case "hdr":
			if err := json.Unmarshal(b, &hdr); err != nil {
				return err
			}
		case "s":
			o := new(obsRec)
			if err := json.Unmarshal(b, o); err != nil {
				return err
			}
			idx[keyOf(o.Valid, o.A)] = len(obs)
			obs = append(obs, o)
		case "t":
			var t transRec
			if err := json.Unmarshal(b, &t); err != nil {
				return err
			}
			trans = append(trans, t)
		case "h":
			c := new(cholCase)
			if err := json.Unmarshal(b, c); err != nil {
				return err
			}
			direct = append(direct, c)
		}
	}
	run := func(c *cholCase) {
		k := &checker{u: newUnits(c.UnitExp, c.CondSlackExp)}
		res := runCholCase(c, k)
		if res.skipped != "" {
			sum.Count("skipped_history_diverged", 1)
			if v, _ := sum.Extra["skipped_example"].(string); v == "" {
				sum.Extra["skipped_example"] = res.skipped
			}
			return
		}
		sum.Cases++
		if c.Out != "ok" || c.S == nil || c.T == nil || keyOf(c.S.Valid, c.S.A) != keyOf(c.T.Valid, c.T.A) {
			sum.Nontrivial++
		}
		if res.boundary {
			sum.Count("boundary_took_ok_branch", 1)
		}
		sum.Count("op_"+c.Op.Op, 1)
		sum.Count("recv_"+c.Recv, 1)
		seen := map[string]bool{}
		for _, f := range k.fails {
			if !seen[f[0]] {
				seen[f[0]] = true
				sum.Fail(f[0], f[1], c)
			}
		}
		if len(k.fails) == 0 {
			sum.Sample(struct {
				Hist int    `json:"history_len"`
				Op   opRec  `json:"op"`
				Recv string `json:"recv"`
				Out  string `json:"out"`
				T    any    `json:"t"`
			}{len(c.Hist), c.Op, c.Recv, c.Out, c.T.A})
		}
	}
	for _, c := range direct {
		run(c)
	}
	if len(trans) == 0 {
		return nil
	}
	// graph of the specification's behaviours
	var edges []edge
	for _, t := range trans {
		f, ok1 := idx[keyOf(t.S.Valid, t.S.A)]
		g, ok2 := idx[keyOf(t.T.Valid, t.T.A)]
		if !ok1 || !ok2 {
			return fmt.Errorf("transition refers to a state that was not printed: %v -> %v", t.S, t.T)
		}
		edges = append(edges, edge{f, g, t.Op, t.Out})
	}
	root, ok := idx[keyOf(false, nil)]
	if !ok {
		return fmt.Errorf("initial state not printed")
	}
	// breadth first layers; the tree edge of a state is drawn (by seed) among all
	// ok-transitions from the previous layer
	depth := make([]int, len(obs))
	for i := range depth {
		depth[i] = -1
	}
	depth[root] = 0
	out := make([][]int, len(obs))
	for i, e := range edges {
		out[e.from] = append(out[e.from], i)
	}
	frontier := []int{root}
	for d := 1; len(frontier) > 0; d++ {
		var next []int
		for _, s := range frontier {
			for _, ei := range out[s] {
				e := edges[ei]
				if e.out == "ok" && depth[e.to] < 0 {
					depth[e.to] = d
					next = append(next, e.to)
				}
			}
		}
		frontier = next
	}
	cands := make([][]int, len(obs))
	loops := make([][]int, len(obs))
	for i, e := range edges {
		if e.out == "ok" && e.from != e.to && depth[e.from] >= 0 && depth[e.to] == depth[e.from]+1 {
			cands[e.to] = append(cands[e.to], i)
		}
		if e.from == e.to && e.out != "either" {
			loops[e.from] = append(loops[e.from], i)
		}
	}
	parent := make([]int, len(obs))
	for s := range obs {
		parent[s] = -1
		if len(cands[s]) > 0 {
			parent[s] = cands[s][rng.Intn(len(cands[s]))]
		}
	}
	history := func(s int) []histStep {
		var rev []histStep
		for cur := s; parent[cur] >= 0; cur = edges[parent[cur]].from {
			e := edges[parent[cur]]
			rev = append(rev, histStep{e.op, e.out})
		}
		h := make([]histStep, 0, len(rev)+1)
		for i := len(rev) - 1; i >= 0; i-- {
			h = append(h, rev[i])
		}
		return h
	}
	// a self-loop of the specification (Clone, alpha = 0, a failing update) may be spliced in
	withLoop := func(s int, h []histStep) []histStep {
		if rng.Intn(2) == 0 || len(h) == 0 {
			return h
		}
		// states along the history: pick one and one of its self-loops
		path := []int{s}
		for cur := s; parent[cur] >= 0; cur = edges[parent[cur]].from {
			path = append(path, edges[parent[cur]].from)
		}
		// path is s, parent(s), ..., root ; position p in h (after p steps) is path[len(path)-1-p]
		p := 1 + rng.Intn(len(h))
		st := path[len(path)-1-p]
		if len(loops[st]) == 0 {
			return h
		}
		e := edges[loops[st][rng.Intn(len(loops[st]))]]
		nh := make([]histStep, 0, len(h)+1)
		nh = append(nh, h[:p]...)
		nh = append(nh, histStep{e.op, e.out})
		nh = append(nh, h[p:]...)
		return nh
	}
	xreps := []string{"vec", "inc2", "basic"}
	sum.Count("states", len(obs))
	sum.Count("transitions", len(edges))
	cnt := 0
	if shard == 0 {
		run(&cholCase{K: "h", Op: opRec{Op: "None"}, Recv: "self", XRep: "vec", Out: "ok", S: obs[root], T: obs[root],
			UnitExp: hdr.UnitExp, CondSlackExp: hdr.CondSlackExp})
	}
	for ei, e := range edges {
		if depth[e.from] < 0 {
			continue
		}
		if ei%nshard != shard {
			continue
		}
		base := history(e.from)
		for _, m := range modes {
			if m != "self" && !usesOrig(e.op.Op) {
				continue
			}
			c := &cholCase{K: "h", Hist: withLoop(e.from, base), Op: e.op, Recv: m, XRep: "vec", Out: e.out,
				S: obs[e.from], T: obs[e.to], UnitExp: hdr.UnitExp, CondSlackExp: hdr.CondSlackExp}
			if usesVec(e.op.Op) || e.op.Op == "Factorize" || e.op.Op == "SetFromU" {
				c.XRep = xreps[cnt%len(xreps)]
			}
			cnt++
			if m == "other" {
				n := obs[e.from].N
				if e.op.Op == "ExtendVecSym" || e.op.Op == "Clone" {
					// no size restriction on the receiver: use a different size when there is one
					n = n%hdr.MaxN + 1
				}
				c.Other = hdr.Other[n-1]
			}
			run(c)
		}
	}
	return nil
}
