package matfactor

import (
	"encoding/json"
	"fmt"
	"math"
	"math/rand"
	"sort"
	"strings"

	"gonum.org/v1/gonum/mat"

	"gonum.org/v1/gonum/verifharness/internal/core"
)

// spec->code for specs/matfactor/ReuseMachine.tla: histories that reuse ONE factorization object.
// The specification's rule is history independence: after Factorize(i) every observable equals that
// of a fresh object factorized with instance i; in the zero / empty states observers panic. The
// harness replays every transition of the state graph on one live object and compares the complete
// observation log (bit patterns, errors, panic texts) with that of a fresh object, and the matrix
// view (Dims, At, T) with the specification's exact matrix.

type reuseInst struct {
	ID   int         `json:"id"`
	M    int         `json:"m"`
	N    int         `json:"n"`
	Kind int         `json:"kind"`
	Kd   int         `json:"kd"`
	A    [][]int64   `json:"a"`
	More [][][]int64 `json:"more"`
	Ok   string      `json:"ok"`
	B    [][]int64   `json:"b"`
	BT   [][]int64   `json:"bt"`
	TolA int64       `json:"tolA"`
}

type reuseHdr struct {
	K               string      `json:"k"`
	Typ             string      `json:"typ"`
	N               int         `json:"n"`
	Empty           int         `json:"empty"`
	UnitExp         int         `json:"unitExp"`
	ResetsOnFailure bool        `json:"resetsOnFailure"`
	Queries         []string    `json:"queries"`
	Inst            []reuseInst `json:"inst"`
}

type reuseOp struct {
	Op string `json:"op"`
	I  int    `json:"i,omitempty"`
	Q  string `json:"q,omitempty"`
}

type reuseState struct {
	Cur int      `json:"cur"`
	Ex  []string `json:"ex"`
}

type reuseTrans struct {
	K   string     `json:"k"`
	Typ string     `json:"typ"`
	S   reuseState `json:"s"`
	Op  reuseOp    `json:"op"`
	T   reuseState `json:"t"`
}

// reuseCase is self-contained: the type's catalogue, a history of calls on one object, the last
// call, and the abstract state the specification gives the object afterwards.
type reuseCase struct {
	K    string    `json:"k"` // "h"
	Hdr  *reuseHdr `json:"hdr"`
	Hist []reuseOp `json:"hist"`
	Op   reuseOp   `json:"op"`
	Cur  int       `json:"cur"`
}

func init() {
	core.RegisterReplay("matfactor-reuse", replayReuse)
}

// ---- observation log ---------------------------------------------------------------------------

type olog struct {
	entries []string // one per query group: "group: ..." ; panics recorded as text
	runtime []string // runtime-error panics (never acceptable)
	cur     *strings.Builder
}

func (l *olog) f(x float64) { fmt.Fprintf(l.cur, "%016x,", math.Float64bits(x)) }
func (l *olog) i(x int)     { fmt.Fprintf(l.cur, "%d,", x) }
func (l *olog) s(x string)  { l.cur.WriteString(x); l.cur.WriteByte(',') }
func (l *olog) fs(x []float64) {
	l.i(len(x))
	for _, v := range x {
		l.f(v)
	}
}
func (l *olog) is(x []int) {
	l.i(len(x))
	for _, v := range x {
		l.i(v)
	}
}
func (l *olog) err(e error) {
	if e == nil {
		l.s("err=nil")
	} else {
		l.s("err=" + e.Error())
	}
}
func (l *olog) m(a mat.Matrix) {
	r, c := a.Dims()
	l.i(r)
	l.i(c)
	for i := 0; i < r; i++ {
		for j := 0; j < c; j++ {
			l.f(a.At(i, j))
		}
	}
}
func (l *olog) cm(a *mat.CDense) {
	r, c := a.Dims()
	l.i(r)
	l.i(c)
	for i := 0; i < r; i++ {
		for j := 0; j < c; j++ {
			z := a.At(i, j)
			l.f(real(z))
			l.f(imag(z))
		}
	}
}

// step runs one call of a query group; a panic is part of the observation.
func (l *olog) step(name string, f func()) {
	l.s(name)
	o := core.Call(f)
	if o.Panicked {
		l.s("PANIC(" + o.Text + ")")
		if o.Runtime {
			l.runtime = append(l.runtime, name+": "+o.Text)
		}
	}
	l.cur.WriteByte(';')
}

// ---- per type drivers ----------------------------------------------------------------------------

type driver interface {
	factorize(in *reuseInst) (ok, hasOK bool)
	query(q string, in *reuseInst, l *olog)
	view() mat.Matrix
}

type resetter interface{ reset() }
type cloner interface{ cloneFrom(in *reuseInst) }

// rhs for the solve groups; without an instance (zero / empty object) a 1 x 2 block is used
func rhsOf(in *reuseInst) (b, bt *mat.Dense) {
	if in == nil {
		return mat.NewDense(1, 2, []float64{1, 2}), mat.NewDense(1, 2, []float64{1, 2})
	}
	return denseOf(in.B), denseOf(in.BT)
}

func viewLog(l *olog, a mat.Matrix) {
	l.step("Dims+At", func() { l.m(a) })
	l.step("T", func() { l.m(a.T()) })
}

type qrD struct{ o *mat.QR }

func (d qrD) factorize(in *reuseInst) (bool, bool) { d.o.Factorize(denseOf(in.A)); return true, false }
func (d qrD) view() mat.Matrix                     { return d.o }
func (d qrD) query(q string, in *reuseInst, l *olog) {
	b, bt := rhsOf(in)
	switch q {
	case "view":
		viewLog(l, d.o)
	case "Q":
		l.step("QTo", func() { var x mat.Dense; d.o.QTo(&x); l.m(&x) })
	case "R":
		l.step("RTo", func() { var x mat.Dense; d.o.RTo(&x); l.m(&x) })
	case "solve":
		l.step("SolveTo(false)", func() { var x mat.Dense; e := d.o.SolveTo(&x, false, b); l.err(e); l.m(&x) })
		l.step("SolveTo(true)", func() { var x mat.Dense; e := d.o.SolveTo(&x, true, bt); l.err(e); l.m(&x) })
		l.step("SolveVecTo(false)", func() { var x mat.VecDense; e := d.o.SolveVecTo(&x, false, b.ColView(0)); l.err(e); l.m(&x) })
	case "cond":
		l.step("Cond", func() { l.f(d.o.Cond()) })
	}
}

type lqD struct{ o *mat.LQ }

func (d lqD) factorize(in *reuseInst) (bool, bool) { d.o.Factorize(denseOf(in.A)); return true, false }
func (d lqD) view() mat.Matrix                     { return d.o }
func (d lqD) query(q string, in *reuseInst, l *olog) {
	b, bt := rhsOf(in)
	switch q {
	case "view":
		viewLog(l, d.o)
	case "Q":
		l.step("QTo", func() { var x mat.Dense; d.o.QTo(&x); l.m(&x) })
	case "L":
		l.step("LTo", func() { var x mat.Dense; d.o.LTo(&x); l.m(&x) })
	case "solve":
		l.step("SolveTo(false)", func() { var x mat.Dense; e := d.o.SolveTo(&x, false, b); l.err(e); l.m(&x) })
		l.step("SolveTo(true)", func() { var x mat.Dense; e := d.o.SolveTo(&x, true, bt); l.err(e); l.m(&x) })
		l.step("SolveVecTo(true)", func() { var x mat.VecDense; e := d.o.SolveVecTo(&x, true, bt.ColView(0)); l.err(e); l.m(&x) })
	case "cond":
		l.step("Cond", func() { l.f(d.o.Cond()) })
	}
}

type luD struct{ o *mat.LU }

func (d luD) factorize(in *reuseInst) (bool, bool) { d.o.Factorize(denseOf(in.A)); return true, false }
func (d luD) view() mat.Matrix                     { return d.o }
func (d luD) reset()                               { d.o.Reset() }
func (d luD) query(q string, in *reuseInst, l *olog) {
	b, _ := rhsOf(in)
	switch q {
	case "view":
		viewLog(l, d.o)
	case "L":
		l.step("LTo", func() { var x mat.TriDense; d.o.LTo(&x); l.m(&x) })
	case "U":
		l.step("UTo", func() { var x mat.TriDense; d.o.UTo(&x); l.m(&x) })
	case "pivots":
		l.step("RowPivots", func() { l.is(d.o.RowPivots(nil)) })
	case "det":
		l.step("Det", func() { l.f(d.o.Det()) })
		l.step("LogDet", func() { a, s := d.o.LogDet(); l.f(a); l.f(s) })
	case "solve":
		l.step("SolveTo(false)", func() { var x mat.Dense; e := d.o.SolveTo(&x, false, b); l.err(e); l.m(&x) })
		l.step("SolveTo(true)", func() { var x mat.Dense; e := d.o.SolveTo(&x, true, b); l.err(e); l.m(&x) })
		l.step("SolveVecTo(true)", func() { var x mat.VecDense; e := d.o.SolveVecTo(&x, true, b.ColView(1)); l.err(e); l.m(&x) })
	case "cond":
		l.step("Cond", func() { l.f(d.o.Cond()) })
	}
}

type cholD struct{ o *mat.Cholesky }

func (d cholD) factorize(in *reuseInst) (bool, bool) { return d.o.Factorize(symOf(in.A)), true }
func (d cholD) view() mat.Matrix                     { return d.o }
func (d cholD) reset()                               { d.o.Reset() }
func (d cholD) cloneFrom(in *reuseInst) {
	var src mat.Cholesky
	src.Factorize(symOf(in.A))
	d.o.Clone(&src)
}
func (d cholD) query(q string, in *reuseInst, l *olog) {
	b, _ := rhsOf(in)
	switch q {
	case "view":
		viewLog(l, d.o)
		l.step("SymmetricDim", func() { l.i(d.o.SymmetricDim()) })
	case "U":
		l.step("UTo", func() { var x mat.TriDense; d.o.UTo(&x); l.m(&x) })
		l.step("RawU", func() {
			if u := d.o.RawU(); u == nil {
				l.s("nil")
			} else {
				l.m(u)
			}
		})
	case "L":
		l.step("LTo", func() { var x mat.TriDense; d.o.LTo(&x); l.m(&x) })
	case "sym":
		l.step("ToSym", func() { var x mat.SymDense; d.o.ToSym(&x); l.m(&x) })
	case "det":
		l.step("Det", func() { l.f(d.o.Det()) })
		l.step("LogDet", func() { l.f(d.o.LogDet()) })
	case "solve":
		l.step("SolveTo", func() { var x mat.Dense; e := d.o.SolveTo(&x, b); l.err(e); l.m(&x) })
		l.step("SolveVecTo", func() { var x mat.VecDense; e := d.o.SolveVecTo(&x, b.ColView(0)); l.err(e); l.m(&x) })
	case "inverse":
		l.step("InverseTo", func() { var x mat.SymDense; e := d.o.InverseTo(&x); l.err(e); l.m(&x) })
	case "cond":
		l.step("Cond", func() { l.f(d.o.Cond()) })
	}
}

type bandD struct{ o *mat.BandCholesky }

func (d bandD) factorize(in *reuseInst) (bool, bool) { return d.o.Factorize(bandOf(in.A, in.Kd)), true }
func (d bandD) view() mat.Matrix                     { return d.o }
func (d bandD) reset()                               { d.o.Reset() }
func (d bandD) query(q string, in *reuseInst, l *olog) {
	b, _ := rhsOf(in)
	switch q {
	case "view":
		viewLog(l, d.o)
		l.step("SymmetricDim", func() { l.i(d.o.SymmetricDim()) })
	case "det":
		l.step("Det", func() { l.f(d.o.Det()) })
		l.step("LogDet", func() { l.f(d.o.LogDet()) })
	case "solve":
		l.step("SolveTo", func() { var x mat.Dense; e := d.o.SolveTo(&x, b); l.err(e); l.m(&x) })
		l.step("SolveVecTo", func() { var x mat.VecDense; e := d.o.SolveVecTo(&x, b.ColView(0)); l.err(e); l.m(&x) })
	case "cond":
		l.step("Cond", func() { l.f(d.o.Cond()) })
	case "band":
		l.step("Bandwidth", func() { a, c := d.o.Bandwidth(); l.i(a); l.i(c) })
		l.step("SymBand", func() { a, c := d.o.SymBand(); l.i(a); l.i(c) })
		l.step("TBand", func() { l.m(d.o.TBand()) })
	}
}

type pivD struct{ o *mat.PivotedCholesky }

func (d pivD) factorize(in *reuseInst) (bool, bool) { return d.o.Factorize(symOf(in.A), -1), true }
func (d pivD) view() mat.Matrix                     { return d.o }
func (d pivD) query(q string, in *reuseInst, l *olog) {
	b, _ := rhsOf(in)
	switch q {
	case "view":
		viewLog(l, d.o)
		l.step("SymmetricDim", func() { l.i(d.o.SymmetricDim()) })
	case "U":
		l.step("UTo", func() { var x mat.TriDense; d.o.UTo(&x); l.m(&x) })
		l.step("RawU", func() {
			if u := d.o.RawU(); u == nil {
				l.s("nil")
			} else {
				l.m(u)
			}
		})
	case "pivots":
		l.step("ColumnPivots", func() { l.is(d.o.ColumnPivots(nil)) })
	case "rank":
		l.step("Rank", func() { l.i(d.o.Rank()) })
	case "solve":
		l.step("SolveTo", func() { var x mat.Dense; e := d.o.SolveTo(&x, b); l.err(e); l.m(&x) })
		l.step("SolveVecTo", func() { var x mat.VecDense; e := d.o.SolveVecTo(&x, b.ColView(0)); l.err(e); l.m(&x) })
	case "cond":
		l.step("Cond", func() { l.f(d.o.Cond()) })
	}
}

var svdKinds = []mat.SVDKind{mat.SVDNone, mat.SVDThin, mat.SVDFull}

type svdD struct{ o *mat.SVD }

func (d svdD) factorize(in *reuseInst) (bool, bool) {
	return d.o.Factorize(denseOf(in.A), svdKinds[in.Kind]), true
}
func (d svdD) view() mat.Matrix { return nil }
func (d svdD) query(q string, in *reuseInst, l *olog) {
	b, _ := rhsOf(in)
	rank := 1
	if in != nil {
		rank = in.N
		if in.M < in.N {
			rank = in.M
		}
	}
	switch q {
	case "kind":
		l.step("Kind", func() { l.i(int(d.o.Kind())) })
	case "values":
		l.step("Values", func() { l.fs(d.o.Values(nil)) })
	case "U":
		l.step("UTo", func() { var x mat.Dense; d.o.UTo(&x); l.m(&x) })
	case "V":
		l.step("VTo", func() { var x mat.Dense; d.o.VTo(&x); l.m(&x) })
	case "solve":
		l.step("SolveTo", func() { var x mat.Dense; res := d.o.SolveTo(&x, b, rank); l.fs(res); l.m(&x) })
		l.step("SolveVecTo", func() { var x mat.VecDense; res := d.o.SolveVecTo(&x, b.ColView(0), rank); l.f(res); l.m(&x) })
	case "cond":
		l.step("Cond", func() { l.f(d.o.Cond()) })
		l.step("Rank", func() { l.i(d.o.Rank(1e-8)) })
	}
}

type esymD struct{ o *mat.EigenSym }

func (d esymD) factorize(in *reuseInst) (bool, bool) {
	return d.o.Factorize(symOf(in.A), in.Kind == 1), true
}
func (d esymD) view() mat.Matrix { return d.o }
func (d esymD) query(q string, in *reuseInst, l *olog) {
	switch q {
	case "view":
		viewLog(l, d.o)
		l.step("SymmetricDim", func() { l.i(d.o.SymmetricDim()) })
	case "values":
		l.step("Values", func() { l.fs(d.o.Values(nil)) })
		l.step("RawValues", func() { l.fs(d.o.RawValues()) })
	case "vectors":
		l.step("VectorsTo", func() { var x mat.Dense; d.o.VectorsTo(&x); l.m(&x) })
		l.step("RawQ", func() {
			if qm := d.o.RawQ(); qm == nil {
				l.s("nil")
			} else {
				l.m(qm)
			}
		})
	}
}

var eigKinds = []mat.EigenKind{mat.EigenNone, mat.EigenRight, mat.EigenLeft, mat.EigenBoth}

type eigD struct{ o *mat.Eigen }

func (d eigD) factorize(in *reuseInst) (bool, bool) {
	return d.o.Factorize(denseOf(in.A), eigKinds[in.Kind]), true
}
func (d eigD) view() mat.Matrix { return nil }
func (d eigD) query(q string, in *reuseInst, l *olog) {
	switch q {
	case "kind":
		l.step("Kind", func() { l.i(int(d.o.Kind())) })
	case "values":
		l.step("Values", func() {
			v := d.o.Values(nil)
			l.i(len(v))
			for _, z := range v {
				l.f(real(z))
				l.f(imag(z))
			}
		})
	case "vectors":
		l.step("VectorsTo", func() { var x mat.CDense; d.o.VectorsTo(&x); l.cm(&x) })
	case "left":
		l.step("LeftVectorsTo", func() { var x mat.CDense; d.o.LeftVectorsTo(&x); l.cm(&x) })
	}
}

type gsvdD struct{ o *mat.GSVD }

func (d gsvdD) factorize(in *reuseInst) (bool, bool) {
	var k mat.GSVDKind
	if in.Kind&1 != 0 {
		k |= mat.GSVDU
	}
	if in.Kind&2 != 0 {
		k |= mat.GSVDV
	}
	if in.Kind&4 != 0 {
		k |= mat.GSVDQ
	}
	return d.o.Factorize(denseOf(in.A), denseOf(in.More[0]), k), true
}
func (d gsvdD) view() mat.Matrix { return nil }
func (d gsvdD) query(q string, in *reuseInst, l *olog) {
	switch q {
	case "kind":
		l.step("Kind", func() { l.i(int(d.o.Kind())) })
	case "values":
		l.step("Rank", func() { a, b := d.o.Rank(); l.i(a); l.i(b) })
		l.step("GeneralizedValues", func() { l.fs(d.o.GeneralizedValues(nil)) })
		l.step("ValuesA", func() { l.fs(d.o.ValuesA(nil)) })
		l.step("ValuesB", func() { l.fs(d.o.ValuesB(nil)) })
	case "U":
		l.step("UTo", func() { var x mat.Dense; d.o.UTo(&x); l.m(&x) })
	case "V":
		l.step("VTo", func() { var x mat.Dense; d.o.VTo(&x); l.m(&x) })
	case "Q":
		l.step("QTo", func() { var x mat.Dense; d.o.QTo(&x); l.m(&x) })
	case "sigma":
		l.step("SigmaATo", func() { var x mat.Dense; d.o.SigmaATo(&x); l.m(&x) })
		l.step("SigmaBTo", func() { var x mat.Dense; d.o.SigmaBTo(&x); l.m(&x) })
	case "zeroR":
		l.step("ZeroRTo", func() { var x mat.Dense; d.o.ZeroRTo(&x); l.m(&x) })
	}
}

type hogD struct{ o *mat.HOGSVD }

func (d hogD) factorize(in *reuseInst) (bool, bool) {
	ms := []mat.Matrix{denseOf(in.A)}
	for _, m := range in.More {
		ms = append(ms, denseOf(m))
	}
	return d.o.Factorize(ms...), true
}
func (d hogD) view() mat.Matrix { return nil }
func (d hogD) query(q string, in *reuseInst, l *olog) {
	k := 2
	if in != nil {
		k = 1 + len(in.More)
	}
	switch q {
	case "len":
		l.step("Len", func() { l.i(d.o.Len()) })
		l.step("Err", func() { l.err(d.o.Err()) })
	case "values":
		for i := 0; i < k; i++ {
			i := i
			l.step(fmt.Sprintf("Values(%d)", i), func() { l.fs(d.o.Values(nil, i)) })
		}
	case "U":
		for i := 0; i < k; i++ {
			i := i
			l.step(fmt.Sprintf("UTo(%d)", i), func() { var x mat.Dense; d.o.UTo(&x, i); l.m(&x) })
		}
	case "V":
		l.step("VTo", func() { var x mat.Dense; d.o.VTo(&x); l.m(&x) })
	}
}

type triD struct{ o *mat.Tridiag }

func tridiagOf(a [][]int64) *mat.Tridiag {
	n := len(a)
	d := make([]float64, n)
	var dl, du []float64
	if n > 1 {
		dl, du = make([]float64, n-1), make([]float64, n-1)
	}
	for i := 0; i < n; i++ {
		d[i] = float64(a[i][i])
		if i+1 < n {
			du[i] = float64(a[i][i+1])
			dl[i] = float64(a[i+1][i])
		}
	}
	return mat.NewTridiag(n, dl, d, du)
}

// Tridiag has no Factorize: the reuse operation is CloneFromTridiag into the same value.
func (d triD) factorize(in *reuseInst) (bool, bool) {
	d.o.CloneFromTridiag(tridiagOf(in.A))
	return true, false
}
func (d triD) view() mat.Matrix { return d.o }
func (d triD) reset()           { d.o.Reset() }
func (d triD) query(q string, in *reuseInst, l *olog) {
	b, _ := rhsOf(in)
	switch q {
	case "view":
		viewLog(l, d.o)
		l.step("Bandwidth", func() { a, c := d.o.Bandwidth(); l.i(a); l.i(c) })
	case "solve":
		l.step("SolveTo(false)", func() { var x mat.Dense; e := d.o.SolveTo(&x, false, b); l.err(e); l.m(&x) })
		l.step("SolveTo(true)", func() { var x mat.Dense; e := d.o.SolveTo(&x, true, b); l.err(e); l.m(&x) })
		l.step("SolveVecTo", func() { var x mat.VecDense; e := d.o.SolveVecTo(&x, false, b.ColView(0)); l.err(e); l.m(&x) })
	case "norm":
		l.step("Norm(1)", func() { l.f(d.o.Norm(1)) })
		l.step("Norm(Inf)", func() { l.f(d.o.Norm(math.Inf(1))) })
		l.step("Trace", func() { l.f(d.o.Trace()) })
	}
}

func newDriver(typ string) driver {
	switch typ {
	case "QR":
		return qrD{&mat.QR{}}
	case "LQ":
		return lqD{&mat.LQ{}}
	case "LU":
		return luD{&mat.LU{}}
	case "Cholesky":
		return cholD{&mat.Cholesky{}}
	case "BandCholesky":
		return bandD{&mat.BandCholesky{}}
	case "PivotedCholesky":
		return pivD{&mat.PivotedCholesky{}}
	case "SVD":
		return svdD{&mat.SVD{}}
	case "EigenSym":
		return esymD{&mat.EigenSym{}}
	case "Eigen":
		return eigD{&mat.Eigen{}}
	case "GSVD":
		return gsvdD{&mat.GSVD{}}
	case "HOGSVD":
		return hogD{&mat.HOGSVD{}}
	case "Tridiag":
		return triD{&mat.Tridiag{}}
	}
	return nil
}

// ---- running one case ------------------------------------------------------------------------------

func (h *reuseHdr) inst(cur int) *reuseInst {
	if cur >= 1 && cur <= len(h.Inst) {
		return &h.Inst[cur-1]
	}
	return nil
}

// applyReuse performs one call of a history; held is the instance the object holds (for rhs shapes).
func applyReuse(d driver, h *reuseHdr, o reuseOp, held *reuseInst) (ok, hasOK bool, out core.Outcome) {
	out = core.Call(func() {
		switch o.Op {
		case "Factorize":
			ok, hasOK = d.factorize(h.inst(o.I))
		case "CloneFrom":
			d.(cloner).cloneFrom(h.inst(o.I))
		case "Reset":
			d.(resetter).reset()
		case "Extract":
			l := &olog{cur: &strings.Builder{}}
			d.query(o.Q, held, l) // panics inside are part of the history (documented on empty objects)
		case "None":
		default:
			panic("harness: unknown op " + o.Op)
		}
	})
	return
}

func observeAll(d driver, h *reuseHdr, held *reuseInst) *olog {
	qs := append([]string(nil), h.Queries...)
	sort.Strings(qs)
	l := &olog{}
	for _, q := range qs {
		l.cur = &strings.Builder{}
		d.query(q, held, l)
		l.entries = append(l.entries, q+": "+l.cur.String())
	}
	return l
}

// after tracks the abstract state exactly as the specification's transition function does, from
// the catalogue's ok flags (the harness needs it only to pick the right-hand sides of Extract
// steps inside a history; the final state comes from the specification).
func nextCur(h *reuseHdr, cur int, o reuseOp) int {
	switch o.Op {
	case "Factorize":
		if h.inst(o.I).Ok == "false" && h.ResetsOnFailure {
			return h.Empty
		}
		return o.I
	case "CloneFrom":
		return o.I
	case "Reset":
		return h.Empty
	}
	return cur
}

// shape / meta observers: they may answer on an object without a factorization
var metaSteps = map[string]bool{"Bandwidth": true, "SymBand": true, "SymmetricDim": true, "Len": true, "Err": true, "Kind": true, "TBand": true}

func runReuseCase(c *reuseCase, k *checker) (skipped string, rtOnEmpty int) {
	h := c.Hdr
	pfx := "matfactor:reuse:" + h.Typ + ":"
	d := newDriver(h.Typ)
	if d == nil {
		return "unknown type " + h.Typ, 0
	}
	cur := 0
	for i, o := range c.Hist {
		_, _, out := applyReuse(d, h, o, h.inst(cur))
		if out.Panicked {
			return fmt.Sprintf("history step %d (%s) panicked: %s", i, o.Op, out.Text), 0
		}
		cur = nextCur(h, cur, o)
	}
	ok, hasOK, out := applyReuse(d, h, c.Op, h.inst(cur))
	if out.Panicked {
		kind := "panic"
		if out.Runtime {
			kind = "runtime-panic"
		}
		where := "reused"
		if len(c.Hist) == 0 {
			where = "fresh"
		}
		sig := pfx + c.Op.Op + "[" + where + "]:" + kind
		if c.Op.Op == "Factorize" {
			in := h.inst(c.Op.I)
			sig = fmt.Sprintf("%sFactorize[%s](kind=%d):%s", pfx, where, in.Kind, kind)
		}
		k.failf(sig, "%s (history %v, then %v)", out.Text, c.Hist, c.Op)
		return "", 0
	}
	if c.Op.Op == "Factorize" && hasOK {
		switch want := h.inst(c.Op.I).Ok; {
		case want == "true" && !ok:
			k.failf(pfx+"Factorize:ok-false-on-valid-input", "Factorize of instance %d returned false on a reused object", c.Op.I)
			return "", 0
		case want == "false" && ok:
			k.failf(pfx+"Factorize:ok-true-on-invalid-input", "Factorize of instance %d returned true on a reused object", c.Op.I)
			return "", 0
		}
	}
	held := h.inst(c.Cur)
	got := observeAll(d, h, held)
	if held != nil {
		for _, r := range got.runtime {
			k.failf(pfx+"observer:runtime-panic", "%s", r)
		}
	} else if len(got.runtime) > 0 {
		// "methods may only be called on an initialized value ... will panic": a nil dereference on an
		// object without a factorization is still a panic; it is counted, not failed
		rtOnEmpty = len(got.runtime)
	}
	// the reference object: fresh, brought to the same abstract state in one step
	ref := newDriver(h.Typ)
	if held != nil {
		if _, _, o := applyReuse(ref, h, reuseOp{Op: "Factorize", I: c.Cur}, nil); o.Panicked {
			return "fresh factorization panicked: " + o.Text, 0
		}
	}
	want := observeAll(ref, h, held)
	if held != nil {
		for i := range want.entries {
			if got.entries[i] != want.entries[i] {
				grp := strings.SplitN(want.entries[i], ":", 2)[0]
				k.failf(pfx+"after-"+c.Op.Op+":"+grp+":differs-from-fresh-object",
					"after the history %v then %v, query group %q of the reused object differs from that of a fresh object factorized with instance %d:\n reused %s\n fresh  %s",
					c.Hist, c.Op, grp, c.Cur, clip(got.entries[i]), clip(want.entries[i]))
			}
		}
		// the matrix view against the specification's exact matrix
		if v := d.view(); v != nil && held.Ok != "false" && !(h.Typ == "EigenSym" && held.Kind == 0) {
			o := core.Call(func() {
				r, cc := v.Dims()
				if r != held.M || cc != held.N {
					k.failf(pfx+"view:Dims", "Dims = %d,%d, the object holds the %dx%d instance %d", r, cc, held.M, held.N, held.ID)
					return
				}
				k.matrixNear(pfx+"view:At", r, cc, v.At, held.A, 1, held.TolA)
				t := v.T()
				k.matrixNear(pfx+"view:T.At", cc, r, t.At, transposeInts(held.A), 1, held.TolA)
			})
			if o.Panicked {
				k.failf(pfx+"view:panic", "%s", o.Text)
			}
		}
		return "", 0
	}
	// zero / empty object: every observer either behaves like on the zero value or panics (ordinary panic)
	for i := range want.entries {
		if got.entries[i] == want.entries[i] {
			continue
		}
		gs, ws := strings.Split(got.entries[i], ";"), strings.Split(want.entries[i], ";")
		for j := range gs {
			if j < len(ws) && gs[j] == ws[j] {
				continue
			}
			if name := strings.SplitN(strings.TrimPrefix(gs[j], strings.SplitN(want.entries[i], ":", 2)[0]+": "), ",", 2)[0]; metaSteps[name] {
				continue
			}
			if !strings.Contains(gs[j], "PANIC(") {
				grp := strings.SplitN(want.entries[i], ":", 2)[0]
				k.failf(pfx+"empty-after-"+c.Op.Op+":"+grp+":no-panic",
					"after the history %v then %v the object holds no factorization, but an observer of group %q answered: %s (zero value: %s)",
					c.Hist, c.Op, grp, clip(gs[j]), clip(ws[min(j, len(ws)-1)]))
				break
			}
		}
	}
	return "", rtOnEmpty
}

func clip(s string) string {
	if len(s) > 300 {
		return s[:300] + "..."
	}
	return s
}

// ---- replay driver -----------------------------------------------------------------------------------

func stateKey(cur int, ex []string) string {
	e := append([]string(nil), ex...)
	sort.Strings(e)
	return fmt.Sprint(cur, e)
}

func replayReuse(in *core.Lines, args []string, seed int64, sum *core.Summary) error {
	rng := rand.New(rand.NewSource(seed))
	hdrs := map[string]*reuseHdr{}
	trans := map[string][]reuseTrans{}
	var order []string
	var direct []*reuseCase
	for {
		b, ok := in.Next()
		if !ok {
			break
		}
		var probe struct {
			K string `json:"k"`
		}
		if err := json.Unmarshal(b, &probe); err != nil {
			return fmt.Errorf("line %d: %v", in.N, err)
		}
		switch probe.K {
		case "hdr":
			h := new(reuseHdr)
			if err := json.Unmarshal(b, h); err != nil {
				return err
			}
			hdrs[h.Typ] = h
			order = append(order, h.Typ)
		case "t":
			var t reuseTrans
			if err := json.Unmarshal(b, &t); err != nil {
				return err
			}
			trans[t.Typ] = append(trans[t.Typ], t)
		case "h":
			c := new(reuseCase)
			if err := json.Unmarshal(b, c); err != nil {
				return err
			}
			direct = append(direct, c)
		}
	}
	run := func(c *reuseCase) {
		k := &checker{u: newUnits(c.Hdr.UnitExp, -20)}
		sk, rt := runReuseCase(c, k)
		if rt > 0 {
			sum.Count("runtime_error_panics_on_objects_without_factorization", rt)
		}
		if sk != "" {
			sum.Count("skipped", 1)
			if _, ok := sum.Extra["skipped_example"]; !ok {
				sum.Extra["skipped_example"] = sk
			}
			return
		}
		sum.Cases++
		if c.Op.Op != "Extract" && len(c.Hist) > 0 {
			sum.Nontrivial++ // a (re)factorization / Reset / Clone of an object that already has a history
		}
		sum.Count("type_"+c.Hdr.Typ, 1)
		seen := map[string]bool{}
		for _, f := range k.fails {
			if !seen[f[0]] {
				seen[f[0]] = true
				sum.Fail(f[0], f[1], c)
			}
		}
		if len(k.fails) == 0 && len(c.Hist) >= 3 {
			sum.Sample(struct {
				Typ  string    `json:"typ"`
				Hist []reuseOp `json:"hist"`
				Op   reuseOp   `json:"op"`
				Cur  int       `json:"cur"`
			}{c.Hdr.Typ, c.Hist, c.Op, c.Cur})
		}
	}
	for _, c := range direct {
		run(c)
	}
	sort.Strings(order)
	for _, typ := range order {
		h, ts := hdrs[typ], trans[typ]
		// breadth first histories over the specification's graph (every transition is enabled)
		idx := map[string]int{}
		var keys []string
		id := func(s reuseState) int {
			key := stateKey(s.Cur, s.Ex)
			if v, ok := idx[key]; ok {
				return v
			}
			idx[key] = len(keys)
			keys = append(keys, key)
			return len(keys) - 1
		}
		type edge struct {
			from, to int
			op       reuseOp
			cur      int
		}
		var edges []edge
		for _, t := range ts {
			edges = append(edges, edge{id(t.S), id(t.T), t.Op, t.T.Cur})
		}
		root, ok := idx[stateKey(0, nil)]
		if !ok {
			return fmt.Errorf("%s: initial state has no transition", typ)
		}
		out := make([][]int, len(keys))
		for i, e := range edges {
			out[e.from] = append(out[e.from], i)
		}
		depth := make([]int, len(keys))
		for i := range depth {
			depth[i] = -1
		}
		depth[root] = 0
		frontier := []int{root}
		for dd := 1; len(frontier) > 0; dd++ {
			var next []int
			for _, s := range frontier {
				for _, ei := range out[s] {
					if e := edges[ei]; depth[e.to] < 0 {
						depth[e.to] = dd
						next = append(next, e.to)
					}
				}
			}
			frontier = next
		}
		cands := make([][]int, len(keys))
		for i, e := range edges {
			if e.from != e.to && depth[e.from] >= 0 && depth[e.to] == depth[e.from]+1 {
				cands[e.to] = append(cands[e.to], i)
			}
		}
		parent := make([]int, len(keys))
		for s := range keys {
			parent[s] = -1
			if len(cands[s]) > 0 {
				parent[s] = cands[s][rng.Intn(len(cands[s]))]
			}
		}
		history := func(s int) []reuseOp {
			var rev []reuseOp
			for cur := s; parent[cur] >= 0; cur = edges[parent[cur]].from {
				rev = append(rev, edges[parent[cur]].op)
			}
			hh := make([]reuseOp, 0, len(rev))
			for i := len(rev) - 1; i >= 0; i-- {
				hh = append(hh, rev[i])
			}
			return hh
		}
		sum.Count("transitions", len(edges))
		sum.Count("states", len(keys))
		run(&reuseCase{K: "h", Hdr: h, Op: reuseOp{Op: "None"}, Cur: 0})
		for _, e := range edges {
			if depth[e.from] < 0 {
				continue
			}
			base := history(e.from)
			run(&reuseCase{K: "h", Hdr: h, Hist: base, Op: e.op, Cur: e.cur})
			// the same transition after a longer life of the object: one or two earlier
			// (re)factorizations with extractions are put in front. This is again a behaviour of the
			// specification because Factorize / Reset / CloneFrom are enabled in every state.
			if len(base) > 0 && base[0].Op != "Extract" {
				var pre []reuseOp
				for seg := 1 + rng.Intn(2); seg > 0; seg-- {
					pre = append(pre, reuseOp{Op: "Factorize", I: 1 + rng.Intn(h.N)})
					for q := rng.Intn(3); q > 0; q-- {
						pre = append(pre, reuseOp{Op: "Extract", Q: h.Queries[rng.Intn(len(h.Queries))]})
					}
				}
				run(&reuseCase{K: "h", Hdr: h, Hist: append(pre, base...), Op: e.op, Cur: e.cur})
			}
		}
	}
	return nil
}
