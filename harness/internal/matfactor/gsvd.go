package matfactor

import (
	"encoding/json"
	"fmt"
	"math"
	"math/big"

	"gonum.org/v1/gonum/mat"

	"gonum.org/v1/gonum/verifharness/internal/core"
)

// spec->code for specs/matfactor/Gsvd.tla. The GSVD has no unique factors, so the specification
// states the property's clause as the predicate Gsvd!GsvdHolds; this file mirrors that predicate
// conjunct by conjunct (each function names the operator it mirrors) and evaluates it exactly, in
// math/big.Rat, on the matrices mat.GSVD returned. This is the weaker binding (a predicate instead of
// an expected value). The pairs (A, B), the tolerance, the exact ranks and the field "cause" (which only
// selects the signature of a failure) are the specification's.

type gsvdRec struct {
	K          string    `json:"k"`
	M          int       `json:"m"`
	P          int       `json:"p"`
	N          int       `json:"n"`
	Variant    string    `json:"variant"`
	T          int       `json:"t"`
	A          [][]int64 `json:"a"`
	B          [][]int64 `json:"b"`
	RankA      int       `json:"rankA"`
	RankB      int       `json:"rankB"`
	RankAB     int       `json:"rankAB"`
	KExact     int       `json:"kExact"`
	LExact     int       `json:"lExact"`
	PivotFreeB bool      `json:"pivotFreeB"`
	Cause      string    `json:"cause"`
	Tol        int64     `json:"tol"`
	UnitExp    int       `json:"unitExp"`
	Jobs       []int     `json:"jobs"`
	DstModes   []string  `json:"dstModes"`
	ArgReps    []string  `json:"argReps"`
}

func init() {
	core.RegisterReplay("matfactor-gsvd", replayGSVD)
}

type ratMat [][]*big.Rat

func ratOf(d mat.Matrix) (ratMat, bool) {
	r, c := d.Dims()
	m := make(ratMat, r)
	for i := range m {
		m[i] = make([]*big.Rat, c)
		for j := range m[i] {
			v := d.At(i, j)
			if !finite(v) {
				return nil, false
			}
			m[i][j] = new(big.Rat).SetFloat64(v)
		}
	}
	return m, true
}

func ratMul(a, b ratMat) ratMat {
	r, inner := len(a), len(b)
	c := 0
	if inner > 0 {
		c = len(b[0])
	}
	out := make(ratMat, r)
	for i := range out {
		out[i] = make([]*big.Rat, c)
		for j := range out[i] {
			s := new(big.Rat)
			for q := 0; q < inner; q++ {
				s.Add(s, new(big.Rat).Mul(a[i][q], b[q][j]))
			}
			out[i][j] = s
		}
	}
	return out
}

func ratT(a ratMat) ratMat {
	if len(a) == 0 {
		return a
	}
	out := make(ratMat, len(a[0]))
	for j := range out {
		out[j] = make([]*big.Rat, len(a))
		for i := range a {
			out[j][i] = a[i][j]
		}
	}
	return out
}

// gsvdOut is everything one GSVD object returned (nil matrices: factor not requested).
type gsvdOut struct {
	k, l        int
	U, V, Q     *mat.Dense
	S1, S2, ZR  *mat.Dense
	alpha, beta []float64 // ValuesA / ValuesB: entries k .. min(m,n)-1
	gv          []float64
}

type gsvdJudge struct {
	maxRatio    *float64 // largest reconstruction residual / tolerance seen (measured margin, evidence only)
	rankDiffers int
	k           *checker
	p           *gsvdRec
	tol         *big.Rat
	where       string
}

// fail attributes a failed conjunct to its signature. The value conjuncts of GsvdHolds (ranks, reconstruction,
// Sigma structure, unit pairs, values, zero block) of a pair for which the specification computed that an in-order
// elimination mis-ranks B (cause "B") or A11 (cause "A11") are consequences of that one defect - the triangular factor
// handed to the Jacobi stage is wrong - and are reported under ONE signature per cause. Panics, shapes, orthogonality
// and destination contracts never are.
func (g *gsvdJudge) fail(pred, format string, a ...any) {
	sig := "matfactor:GSVD:" + pred
	bSide := pred == "reconstruct-B" || pred == "sigma-B"
	switch pred {
	case "reconstruct-A", "reconstruct-B", "sigma-A", "sigma-B", "unit-pairs", "values", "zero-block":
		switch {
		case g.p.Cause == "B":
			sig = "matfactor:GSVD:reconstruct-B:unpivoted-rank"
		case g.p.Cause == "A11" && !bSide:
			sig = "matfactor:GSVD:reconstruct-A:unpivoted-rank"
		case g.p.Cause == "undecided" && !bSide:
			sig += ":A11-order-undecided"
		}
	}
	for _, f := range g.k.fails {
		if f[0] == sig {
			return // one report per signature and pair
		}
	}
	g.k.fails = append(g.k.fails, [2]string{sig, ""})
	g.k.fails[len(g.k.fails)-1][1] = fmt.Sprintf("%s [%s; pair %s %dx%d / %dx%d t=%d: exact rank(B) = %d, rank([A;B]) = %d, cause = %s] A = %v B = %v",
		fmt.Sprintf(format, a...), g.where, g.p.Variant, g.p.M, g.p.N, g.p.P, g.p.N, g.p.T, g.p.LExact, g.p.RankAB, g.p.Cause, g.p.A, g.p.B)
}

// gShapes mirrors Gsvd!GShapes.
func (g *gsvdJudge) gShapes(o *gsvdOut) bool {
	m, p, n, kl := g.p.M, g.p.P, g.p.N, o.k+o.l
	chk := func(name string, d *mat.Dense, r, c int) bool {
		if d == nil {
			return true
		}
		if rr, cc := d.Dims(); rr != r || cc != c {
			g.fail("shape", "%s is %dx%d, documented %dx%d (k = %d, l = %d)", name, rr, cc, r, c, o.k, o.l)
			return false
		}
		return true
	}
	if kl == 0 {
		return true // r x 0 matrices cannot be represented: nothing to check (the Sigma / ZeroR extractions are not judged)
	}
	return chk("U", o.U, m, m) && chk("V", o.V, p, p) && chk("Q", o.Q, n, n) &&
		chk("SigmaA", o.S1, m, kl) && chk("SigmaB", o.S2, p, kl) && chk("ZeroR", o.ZR, kl, n)
}

// gReconstruct mirrors Gsvd!GReconstruct:  X = W S [0 R] Q^T  entrywise within tol.
func (g *gsvdJudge) gReconstruct(pred string, X [][]int64, W, S, ZR, Q *mat.Dense) {
	w, ok1 := ratOf(W)
	s, ok2 := ratOf(S)
	zr, ok3 := ratOf(ZR)
	q, ok4 := ratOf(Q)
	if !(ok1 && ok2 && ok3 && ok4) {
		g.fail(pred, "a factor has a non-finite element")
		return
	}
	prod := ratMul(ratMul(ratMul(w, s), zr), ratT(q))
	for i := range X {
		for j := range X[i] {
			d := new(big.Rat).Sub(prod[i][j], big.NewRat(X[i][j], 1))
			if d.Abs(d).Cmp(g.tol) <= 0 && g.maxRatio != nil && g.tol.Sign() > 0 {
				if f, _ := new(big.Rat).Quo(d, g.tol).Float64(); f > *g.maxRatio {
					*g.maxRatio = f
				}
			}
			if d.Cmp(g.tol) > 0 {
				f, _ := prod[i][j].Float64()
				g.fail(pred, "element (%d,%d) of the product of the returned factors is %v, the matrix has %d", i, j, f, X[i][j])
				return
			}
		}
	}
}

// gOrthogonal mirrors Gsvd!GOrthogonal:  W^T W = I.
func (g *gsvdJudge) gOrthogonal(name string, W *mat.Dense) {
	w, ok := ratOf(W)
	if !ok {
		g.fail("orthogonal-"+name, "non-finite element")
		return
	}
	prod := ratMul(ratT(w), w)
	for i := range prod {
		for j := range prod[i] {
			d := new(big.Rat).Sub(prod[i][j], big.NewRat(identInt(i, j), 1))
			if d.Abs(d).Cmp(g.tol) > 0 {
				f, _ := prod[i][j].Float64()
				g.fail("orthogonal-"+name, "(%s^T %s)[%d][%d] = %v", name, name, i, j, f)
				return
			}
		}
	}
}

// gSigma mirrors Gsvd!GSigma (0-based here): with q = min(m, k+l),
// S1[i][i] = 1 (i < k), alpha[i] (k <= i < q); S2[i][k+i] = beta[k+i] (i < q-k), 1 (q-k <= i < l); every other entry 0.
func (g *gsvdJudge) gSigma(o *gsvdOut) {
	m, p := g.p.M, g.p.P
	k, l := o.k, o.l
	q := min(m, k+l)
	if o.S1 != nil {
		for i := 0; i < m; i++ {
			for j := 0; j < k+l; j++ {
				want := 0.0
				if i == j && i < q {
					want = 1
					if i >= k {
						want = o.alpha[i-k]
					}
				}
				if got := o.S1.At(i, j); got != want {
					g.fail("sigma-A", "SigmaA[%d][%d] = %v, the structure with k = %d, l = %d and ValuesA = %v requires %v", i, j, got, k, l, o.alpha, want)
					return
				}
			}
		}
	}
	if o.S2 != nil {
		for i := 0; i < p; i++ {
			for j := 0; j < k+l; j++ {
				want := 0.0
				if j == k+i && i < l {
					want = 1
					if i < q-k {
						want = o.beta[i]
					}
				}
				if got := o.S2.At(i, j); got != want {
					g.fail("sigma-B", "SigmaB[%d][%d] = %v, the structure with k = %d, l = %d and ValuesB = %v requires %v", i, j, got, k, l, o.beta, want)
					return
				}
			}
		}
	}
}

// gUnitPairs mirrors Gsvd!GUnitPairs, gValues mirrors Gsvd!GValues (pairs k <= i < q).
func (g *gsvdJudge) gUnitPairsAndValues(o *gsvdOut) {
	q := min(g.p.M, o.k+o.l)
	for i := o.k; i < q; i++ {
		a, b, v := o.alpha[i-o.k], o.beta[i-o.k], o.gv[i-o.k]
		if !finite(a) || !finite(b) {
			g.fail("unit-pairs", "alpha = %v beta = %v", a, b)
			return
		}
		ra, rb := new(big.Rat).SetFloat64(a), new(big.Rat).SetFloat64(b)
		s := new(big.Rat).Mul(ra, ra)
		s.Add(s, new(big.Rat).Mul(rb, rb))
		s.Sub(s, big.NewRat(1, 1))
		if s.Abs(s).Cmp(g.tol) > 0 {
			g.fail("unit-pairs", "alpha[%d]^2 + beta[%d]^2 = %v^2 + %v^2 is not 1", i, i, a, b)
			return
		}
		if b == 0 {
			if !math.IsInf(v, 1) {
				g.fail("values", "generalized value %d is %v with beta = 0 < alpha = %v", i, v, a)
				return
			}
			continue
		}
		if !finite(v) {
			g.fail("values", "generalized value %d is %v with alpha = %v, beta = %v", i, v, a, b)
			return
		}
		d := new(big.Rat).Mul(new(big.Rat).SetFloat64(v), rb)
		d.Sub(d, ra)
		if d.Abs(d).Cmp(g.tol) > 0 {
			g.fail("values", "generalized value %d is %v, alpha / beta = %v / %v", i, v, a, b)
			return
		}
	}
}

// gZeroBlock mirrors Gsvd!GZeroBlock.
func (g *gsvdJudge) gZeroBlock(o *gsvdOut) {
	if o.ZR == nil {
		return
	}
	for i := 0; i < o.k+o.l; i++ {
		for j := 0; j < g.p.N-o.k-o.l; j++ {
			if o.ZR.At(i, j) != 0 {
				g.fail("zero-block", "[0 R][%d][%d] = %v in the zero block (k = %d, l = %d)", i, j, o.ZR.At(i, j), o.k, o.l)
				return
			}
		}
	}
}

// gsvdHolds mirrors Gsvd!GsvdHolds on the factors that were requested.
func (g *gsvdJudge) gsvdHolds(o *gsvdOut) {
	// Rank(): k + l is documented as the EFFECTIVE NUMERICAL rank of [A; B]; a rounding-level pivot that is counted makes
	// it larger than the exact rank without harming the decomposition, so a difference is counted, not failed
	// (an under-reported rank cannot reconstruct the pair and is caught by gReconstruct).
	if o.l != g.p.LExact || o.k != g.p.KExact {
		g.rankDiffers++
	}
	if !g.gShapes(o) {
		return
	}
	if o.k+o.l == 0 {
		// an empty R: the products U S1 [0 R] Q^T and V S2 [0 R] Q^T are zero matrices (GReconstruct with no columns)
		for _, x := range []struct {
			pred string
			m    [][]int64
		}{{"reconstruct-A", g.p.A}, {"reconstruct-B", g.p.B}} {
			for i := range x.m {
				for j := range x.m[i] {
					if x.m[i][j] != 0 {
						g.fail(x.pred, "Rank() gives k + l = 0, so the factors reconstruct the zero matrix, but element (%d,%d) is %d", i, j, x.m[i][j])
					}
				}
			}
		}
	}
	if o.k+o.l > 0 {
		if o.U != nil && o.Q != nil && o.S1 != nil && o.ZR != nil {
			g.gReconstruct("reconstruct-A", g.p.A, o.U, o.S1, o.ZR, o.Q)
		}
		if o.V != nil && o.Q != nil && o.S2 != nil && o.ZR != nil {
			g.gReconstruct("reconstruct-B", g.p.B, o.V, o.S2, o.ZR, o.Q)
		}
		g.gSigma(o)
		g.gZeroBlock(o)
	}
	for _, f := range []struct {
		n string
		d *mat.Dense
	}{{"U", o.U}, {"V", o.V}, {"Q", o.Q}} {
		if f.d != nil {
			g.gOrthogonal(f.n, f.d)
		}
	}
	g.gUnitPairsAndValues(o)
}

func gsvdKind(j int) mat.GSVDKind {
	var k mat.GSVDKind
	if j&1 != 0 {
		k |= mat.GSVDU
	}
	if j&2 != 0 {
		k |= mat.GSVDV
	}
	if j&4 != 0 {
		k |= mat.GSVDQ
	}
	return k
}

// runGSVD: one record = one pair; one case per (job set, destination mode).
func runGSVD(p *gsvdRec, k *checker, sum *core.Summary, maxRatio *float64) int {
	tol := new(big.Rat).Mul(big.NewRat(p.Tol, 1), pow2(p.UnitExp))
	ncases := 0
	type combo struct {
		job       int
		mode, rep string
	}
	var combos []combo
	for _, job := range p.Jobs {
		for _, mode := range p.DstModes {
			combos = append(combos, combo{job, mode, "dense"})
		}
	}
	for _, rep := range p.ArgReps {
		combos = append(combos, combo{7, "empty", rep})
	}
	for _, cb := range combos {
		{
			job, mode := cb.job, cb.mode
			A, B := matRepOf(cb.rep, p.A, 1), matRepOf(cb.rep, p.B, 1)
			where := fmt.Sprintf("kind=%d dst=%s arg=%s", job, mode, cb.rep)
			g := &gsvdJudge{k: k, p: p, tol: tol, where: where, maxRatio: maxRatio}
			var gs mat.GSVD
			var ok bool
			o := core.CallTimeout(20e9, func() { ok = gs.Factorize(A, B, gsvdKind(job)) })
			ncases++
			if o.Hung {
				g.fail("Factorize:hang", "%s", o.Text)
				continue
			}
			if o.Panicked {
				kind := "panic"
				if o.Runtime {
					kind = "runtime-panic"
				}
				g.fail("Factorize:"+kind, "%s", o.Text)
				continue
			}
			if !ok {
				sum.Count("gsvd_factorize_false_not_judged", 1)
				continue
			}
			out := &gsvdOut{}
			out.k, out.l = gs.Rank()
			m, pp, n := p.M, p.P, p.N
			kl := out.k + out.l
			type ext struct {
				name string
				have bool
				r, c int
				f    func(d *mat.Dense)
				into **mat.Dense
			}
			exts := []ext{
				{"UTo", job&1 != 0, m, m, gs.UTo, &out.U},
				{"VTo", job&2 != 0, pp, pp, gs.VTo, &out.V},
				{"QTo", job&4 != 0, n, n, gs.QTo, &out.Q},
				{"SigmaATo", true, m, kl, gs.SigmaATo, &out.S1},
				{"SigmaBTo", true, pp, kl, gs.SigmaBTo, &out.S2},
				{"ZeroRTo", true, kl, n, gs.ZeroRTo, &out.ZR},
			}
			bad := false
			for _, e := range exts {
				if !e.have {
					// a factor that was not requested: the documented answer is a panic
					oo := core.Call(func() { var d mat.Dense; e.f(&d) })
					if !oo.Panicked {
						g.fail(e.name+":no-panic-without-factor", "%s returned normally although the factor was not computed", e.name)
					} else if oo.Runtime {
						g.fail(e.name+":runtime-panic", "%s", oo.Text)
					}
					continue
				}
				if e.r == 0 || e.c == 0 {
					continue // k + l = 0: the matrix has no elements; not judged
				}
				if mode == "wrong" {
					for _, w := range [][2]int{{e.r + 1, e.c}, {e.r, e.c + 1}} {
						box := newDst("view", w[0], w[1])
						oo := core.Call(func() { e.f(box.d) })
						switch {
						case !oo.Panicked:
							g.fail(e.name+":wrong-destination:no-panic", "a %dx%d destination was accepted for the %dx%d factor", w[0], w[1], e.r, e.c)
						case !isErrShape(oo.Val):
							g.fail(e.name+":wrong-destination:wrong-panic", "panicked with %q, documented ErrShape", oo.Text)
						default:
							if okk, why := box.unchanged(); !okk {
								g.fail(e.name+":wrong-destination:receiver-written", "%s", why)
							}
						}
					}
					continue
				}
				box := newDst(mode, e.r, e.c)
				oo := core.Call(func() { e.f(box.d) })
				if oo.Panicked {
					g.fail(e.name+":panic", "%s", oo.Text)
					bad = true
					continue
				}
				if okk, why := box.outside(); !okk {
					g.fail(e.name+":wrote-outside-receiver", "%s", why)
				}
				*e.into = box.d
			}
			want := min(m, n) - out.k
			if mode == "wrong" {
				// Values slices of another length: documented ErrSliceLengthMismatch, slice unchanged
				for _, vf := range []struct {
					name string
					f    func([]float64) []float64
				}{{"ValuesA", gs.ValuesA}, {"ValuesB", gs.ValuesB}, {"GeneralizedValues", gs.GeneralizedValues}} {
					s := make([]float64, want+1)
					for i := range s {
						s[i] = junk
					}
					oo := core.Call(func() { vf.f(s) })
					switch e, isErr := oo.Val.(mat.Error); {
					case !oo.Panicked:
						g.fail(vf.name+":wrong-destination:no-panic", "a slice of length %d was accepted for %d values", want+1, want)
					case !isErr || e != mat.ErrSliceLengthMismatch:
						g.fail(vf.name+":wrong-destination:wrong-panic", "panicked with %q, documented ErrSliceLengthMismatch", oo.Text)
					default:
						for i := range s {
							if !isJunk(s[i]) {
								g.fail(vf.name+":wrong-destination:receiver-written", "element %d overwritten before the panic", i)
								break
							}
						}
					}
				}
				continue
			}
			if bad {
				continue
			}
			slot := func(name string, f func([]float64) []float64) ([]float64, bool) {
				var dst, whole []float64
				switch mode {
				case "sized":
					dst = make([]float64, want)
				case "view":
					whole = make([]float64, want+4)
					dst = whole[2 : 2+want]
				}
				for i := range whole {
					whole[i] = junk
				}
				for i := range dst {
					dst[i] = junk
				}
				var res []float64
				oo := core.Call(func() { res = f(dst) })
				if oo.Panicked {
					g.fail(name+":panic", "%s", oo.Text)
					return nil, false
				}
				if len(res) != want {
					g.fail("Values:len", "%s returned %d values, documented min(r,c)-k = %d", name, len(res), want)
					return nil, false
				}
				if dst != nil && want > 0 && &res[0] != &dst[0] {
					g.fail(name+":not-in-place", "a non-nil destination was given but the values were returned in another slice")
				}
				for i := range whole {
					if (i < 2 || i >= 2+want) && !isJunk(whole[i]) {
						g.fail(name+":wrote-outside-receiver", "element %d of the enclosing slice was overwritten", i)
						break
					}
				}
				return res, true
			}
			var ok1, ok2, ok3 bool
			out.alpha, ok1 = slot("ValuesA", gs.ValuesA)
			out.beta, ok2 = slot("ValuesB", gs.ValuesB)
			out.gv, ok3 = slot("GeneralizedValues", gs.GeneralizedValues)
			if !(ok1 && ok2 && ok3) {
				continue
			}
			g.gsvdHolds(out)
			if g.rankDiffers > 0 {
				sum.Count("gsvd_rank_differs_from_exact_rank_(counted,_not_failed)", 1)
			}
		}
	}
	return ncases
}

func replayGSVD(in *core.Lines, args []string, seed int64, sum *core.Summary) error {
	maxRatio := 0.0
	defer func() {
		if sum.Extra == nil {
			sum.Extra = map[string]any{}
		}
		sum.Extra["gsvd_max_passing_residual_over_tolerance"] = maxRatio
	}()
	for {
		b, ok := in.Next()
		if !ok {
			break
		}
		p := new(gsvdRec)
		if err := json.Unmarshal(b, p); err != nil {
			return fmt.Errorf("line %d: %v", in.N, err)
		}
		if p.K != "gsvd" {
			continue
		}
		k := &checker{}
		n := runGSVD(p, k, sum, &maxRatio)
		sum.Cases += n
		if p.Variant != "gen" || p.M+p.P < p.N {
			sum.Nontrivial += n
		}
		sum.Count("gsvd_cause_"+p.Cause, 1)
		sum.Count("gsvd_variant_"+p.Variant, 1)
		seen := map[string]bool{}
		for _, f := range k.fails {
			if !seen[f[0]] {
				seen[f[0]] = true
				sum.Fail(f[0], f[1], p)
				sum.Count("gsvd_failed_pairs["+f[0]+"]", 1)
			}
		}
		if len(k.fails) == 0 && p.Cause == "none" && p.RankAB < p.N {
			sum.Sample(p)
		}
	}
	return nil
}
