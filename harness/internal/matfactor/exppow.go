package matfactor

import (
	"encoding/json"
	"fmt"
	"math"
	"math/big"

	"gonum.org/v1/gonum/mat"

	"gonum.org/v1/gonum/verifharness/internal/core"
)

// spec->code for specs/matfactor/ExpPow.tla: Dense.Exp on nilpotent dyadic matrices (the finite
// exponential series, evaluated by TLC), Dense.Pow on integer matrices (repeated product, exact),
// SymDense.PowPSD on Hadamard-planted spectra. Nothing is computed here: operands are built from the
// emitted integers, gonum is called in every receiver / operand mode the record lists, and the result
// is compared with the emitted rationals in math/big.Rat.

type powEntry struct {
	E int       `json:"e"`
	P [][]int64 `json:"p"`
}

type psdEntry struct {
	RNum     int64     `json:"rnum"`
	RDen     int64     `json:"rden"`
	Num      [][]int64 `json:"num"`
	Den      int64     `json:"den"`
	TolUnits int64     `json:"tolUnits"`
	TolScale int64     `json:"tolScale"`
}

type expPowRec struct {
	K    string `json:"k"`
	Kind string `json:"kind,omitempty"`
	N    int    `json:"n,omitempty"`
	T    int    `json:"t"`
	// exp
	Idx      int       `json:"idx,omitempty"`
	Thr      int64     `json:"thr,omitempty"`
	Side     int       `json:"side"`
	ANum     [][]int64 `json:"anum,omitempty"`
	AExp     int       `json:"aexp"`
	NormNum  int64     `json:"normNum,omitempty"`
	Pade     int       `json:"pade,omitempty"`
	Sq       int       `json:"sq"`
	LowHalf  bool      `json:"lowHalf"`
	ENum     [][]int64 `json:"enum,omitempty"`
	EDen     int64     `json:"eden,omitempty"`
	TolUnits int64     `json:"tolUnits,omitempty"`
	TolScale int64     `json:"tolScale,omitempty"`
	UnitExp  int       `json:"unitExp,omitempty"`
	Modes    []string  `json:"modes,omitempty"`
	// expshape
	AR     int  `json:"ar,omitempty"`
	AC     int  `json:"ac,omitempty"`
	RR     int  `json:"rr"`
	RC     int  `json:"rc,omitempty"`
	Panics bool `json:"panics"`
	// pow
	A    [][]int64       `json:"a,omitempty"`
	Pows json.RawMessage `json:"pows,omitempty"`
	// powpsd
	ADen int64   `json:"aden,omitempty"`
	Root []int64 `json:"root,omitempty"`
	Ok   bool    `json:"ok"`
	// powpsd, singular class: Either = the specification cannot promise the error (planted spectrum
	// with a zero that the eigensolver only reproduces up to a rounding residue); ZeroEigs = multiplicity
	Either   bool `json:"either"`
	ZeroEigs int  `json:"zeroEigs,omitempty"`
}

func init() {
	core.RegisterReplay("matfactor-exppow", replayExpPow)
}

func dyadicDense(num [][]int64, exp int) *mat.Dense {
	n := len(num)
	d := mat.NewDense(n, len(num[0]), nil)
	for i := range num {
		for j := range num[i] {
			d.Set(i, j, math.Ldexp(float64(num[i][j]), -exp)) // exact: |num| < 2^31
		}
	}
	return d
}

type expStats struct {
	maxRatio float64
	calls    int
}

// nearTol compares every entry with want/den within tol (an exact rational) and tracks the margin.
func (k *checker) nearTol(sig string, r, c int, at func(i, j int) float64, want [][]int64, den int64, tol *big.Rat, st *expStats) {
	if len(want) != r || len(want[0]) != c {
		k.failf(sig+":shape", "result is %dx%d, specification says %dx%d", r, c, len(want), len(want[0]))
		return
	}
	for i := 0; i < r; i++ {
		for j := 0; j < c; j++ {
			g := at(i, j)
			if !finite(g) {
				k.failf(sig+":nonfinite", "element (%d,%d) = %v, specification says %d/%d", i, j, g, want[i][j], den)
				return
			}
			d := new(big.Rat).SetFloat64(g)
			d.Sub(d, big.NewRat(want[i][j], den))
			d.Abs(d)
			if st != nil && tol.Sign() > 0 {
				if f, _ := new(big.Rat).Quo(d, tol).Float64(); f > st.maxRatio {
					st.maxRatio = f
				}
			}
			if d.Cmp(tol) > 0 {
				tf, _ := tol.Float64()
				k.failf(sig+":value", "element (%d,%d) = %v, specification says %d/%d = %v (tolerance %.3g)",
					i, j, g, want[i][j], den, float64(want[i][j])/float64(den), tf)
				return
			}
		}
	}
}

func transposedOperand(num [][]int64, exp int) mat.Matrix {
	return dyadicDense(transposeInts(num), exp).T()
}

// expCase: one record = one nilpotent matrix; one case per mode.
func (k *checker) expCase(p *expPowRec, st *expStats) int {
	n := p.N
	tol := new(big.Rat).Mul(big.NewRat(p.TolUnits, 1), big.NewRat(p.TolScale, 1))
	tol.Mul(tol, pow2(p.UnitExp))
	pfx := fmt.Sprintf("matfactor:Dense.Exp[pade%d,sq%d]:", p.Pade, p.Sq)
	ncalls := 0
	for _, mode := range p.Modes {
		sig := pfx + mode
		var box *dstBox
		var arg mat.Matrix = dyadicDense(p.ANum, p.AExp)
		switch mode {
		case "empty", "sized", "view":
			box = newDst(mode, n, n)
		case "self":
			box = newDst("sized", n, n)
			box.fill(p.ANum, p.AExp)
			arg = box.d
		case "self-view":
			box = newDst("view", n, n)
			box.fill(p.ANum, p.AExp)
			arg = box.d
		case "basic":
			box = newDst("empty", n, n)
			arg = basicMat{arg}
		case "transposed":
			box = newDst("sized", n, n)
			arg = transposedOperand(p.ANum, p.AExp)
		default:
			k.failf(sig+":harness", "unknown mode")
			continue
		}
		ncalls++
		if !k.call(sig, func() { box.d.Exp(arg) }) {
			continue
		}
		r, c := box.d.Dims()
		k.nearTol(sig, r, c, box.d.At, p.ENum, p.EDen, tol, st)
		if ok, why := box.outside(); !ok {
			k.failf(sig+":wrote-outside-receiver", "%s", why)
		}
	}
	return ncalls
}

func (k *checker) expShapeCase(p *expPowRec) {
	a := mat.NewDense(p.AR, p.AC, nil) // the zero matrix: exp(0) = I where the call is legal
	var box *dstBox
	if p.RR == 0 {
		box = newDst("empty", 0, 0)
	} else {
		box = newDst("view", p.RR, p.RC)
	}
	sig := "matfactor:Dense.Exp:shape-contract"
	o := core.Call(func() { box.d.Exp(a) })
	switch {
	case p.Panics && !o.Panicked:
		k.failf(sig+":no-panic", "Exp of a %dx%d matrix into a %dx%d receiver returned normally", p.AR, p.AC, p.RR, p.RC)
	case p.Panics && !isErrShape(o.Val):
		k.failf(sig+":wrong-panic", "Exp of a %dx%d matrix into a %dx%d receiver panicked with %q, not ErrShape", p.AR, p.AC, p.RR, p.RC, o.Text)
	case p.Panics:
		if ok, why := box.unchanged(); !ok {
			k.failf(sig+":receiver-written-before-panic", "%s", why)
		}
	case o.Panicked:
		k.failf(sig+":panic", "legal call Exp(%dx%d) into a %dx%d receiver panicked: %s", p.AR, p.AC, p.RR, p.RC, o.Text)
	default:
		r, c := box.d.Dims()
		if r != p.AR || c != p.AC {
			k.failf(sig+":dims", "result is %dx%d", r, c)
			return
		}
		for i := 0; i < r; i++ {
			for j := 0; j < c; j++ {
				if box.d.At(i, j) != float64(identInt(i, j)) {
					k.failf(sig+":value", "exp(0)[%d][%d] = %v", i, j, box.d.At(i, j))
				}
			}
		}
		if ok, why := box.outside(); !ok {
			k.failf(sig+":wrote-outside-receiver", "%s", why)
		}
	}
}

func (k *checker) powCase(p *expPowRec) int {
	var pows []powEntry
	if err := json.Unmarshal(p.Pows, &pows); err != nil {
		k.failf("matfactor:Dense.Pow:harness", "%v", err)
		return 0
	}
	n := p.N
	ncalls := 0
	for _, pe := range pows {
		for _, mode := range p.Modes {
			sig := fmt.Sprintf("matfactor:Dense.Pow[%s]:%s", p.Kind, mode)
			var box *dstBox
			var arg mat.Matrix = denseOf(p.A)
			switch mode {
			case "empty", "sized", "view":
				box = newDst(mode, n, n)
			case "self":
				box = newDst("sized", n, n)
				box.fill(p.A, 0)
				arg = box.d
			case "basic":
				box = newDst("empty", n, n)
				arg = basicMat{arg}
			case "transposed":
				box = newDst("sized", n, n)
				arg = transposedOperand(p.A, 0)
			default:
				continue
			}
			ncalls++
			if !k.call(sig, func() { box.d.Pow(arg, pe.E) }) {
				continue
			}
			r, c := box.d.Dims()
			if r != n || c != n {
				k.failf(sig+":dims", "result is %dx%d", r, c)
				continue
			}
		cmp:
			for i := 0; i < n; i++ {
				for j := 0; j < n; j++ {
					// theorem PowBounded: every product any multiplication chain forms is exact
					if box.d.At(i, j) != float64(pe.P[i][j]) {
						k.failf(sig+":value", "A^%d element (%d,%d) = %v, specification says %d (A = %v)", pe.E, i, j, box.d.At(i, j), pe.P[i][j], p.A)
						break cmp
					}
				}
			}
			if ok, why := box.outside(); !ok {
				k.failf(sig+":wrote-outside-receiver", "%s", why)
			}
		}
	}
	// contract: a negative exponent panics
	o := core.Call(func() { var d mat.Dense; d.Pow(denseOf(p.A), -1) })
	if !o.Panicked {
		k.failf("matfactor:Dense.Pow:negative-exponent:no-panic", "Pow(a, -1) returned normally")
	} else if o.Runtime {
		k.failf("matfactor:Dense.Pow:negative-exponent:runtime-panic", "%s", o.Text)
	}
	return ncalls
}

func (k *checker) powPSDCase(p *expPowRec, st *expStats, sum *core.Summary) int {
	var pows []psdEntry
	if err := json.Unmarshal(p.Pows, &pows); err != nil {
		k.failf("matfactor:SymDense.PowPSD:harness", "%v", err)
		return 0
	}
	n := p.N
	D := denseScaled(p.ANum, p.ADen)
	S := mat.NewSymDense(n, nil)
	for i := 0; i < n; i++ {
		for j := i; j < n; j++ {
			S.SetSym(i, j, D.At(i, j))
		}
	}
	ncalls := 0
	for _, pe := range pows {
		pw := float64(pe.RNum) / float64(pe.RDen)
		for _, v := range []struct {
			name string
			a    mat.Symmetric
			self bool
		}{{"sym", S, false}, {"basic", basicSym{S}, false}, {"self", nil, true}} {
			sig := fmt.Sprintf("matfactor:SymDense.PowPSD(%d/%d):%s", pe.RNum, pe.RDen, v.name)
			var r mat.SymDense
			recv, arg := &r, v.a
			if v.self {
				recv = mat.NewSymDense(n, nil)
				recv.CopySym(S)
				arg = recv
			}
			var err error
			ncalls++
			if !k.call(sig, func() { err = recv.PowPSD(arg, pw) }) {
				continue
			}
			if !v.self {
				// the argument is an input: whatever the answer, it still holds the specification's matrix
			same:
				for i := 0; i < n; i++ {
					for j := 0; j < n; j++ {
						if S.At(i, j) != D.At(i, j) {
							k.failf(sig+":input-modified", "the argument's element (%d,%d) is %v after the call, it was %v", i, j, S.At(i, j), D.At(i, j))
							S.SetSym(i, j, D.At(i, j))
							break same
						}
					}
				}
			}
			if !p.Ok {
				what := fmt.Sprintf("the planted spectrum %v", p.Root)
				if p.ZeroEigs > 0 {
					what = fmt.Sprintf("an exactly singular positive semi-definite matrix (eigenvalue 0 of multiplicity %d, kind %q)", p.ZeroEigs, p.Kind)
				}
				switch {
				case p.Either && err == nil:
					sum.Count("powpsd_singular_planted_no_error(accepted)", 1)
				case p.Either:
					sum.Count("powpsd_singular_planted_error(accepted)", 1)
				case err == nil:
					k.failf(sig+":no-error", "PowPSD of a matrix with %s returned no error (result finite: %v)", what, allFinite(recv))
				case p.ZeroEigs > 0:
					sum.Count("powpsd_singular_exact_error", 1)
				}
				continue
			}
			if err != nil {
				k.failf(sig+":error", "%v on the positive definite matrix with spectrum %v^6", err, p.Root)
				continue
			}
			tol := new(big.Rat).Mul(big.NewRat(pe.TolUnits, 1), big.NewRat(pe.TolScale, 1))
			tol.Mul(tol, pow2(p.UnitExp))
			d := recv.SymmetricDim()
			k.nearTol(sig, d, d, recv.At, pe.Num, pe.Den, tol, st)
		}
	}
	return ncalls
}

func allFinite(s *mat.SymDense) bool {
	n := s.SymmetricDim()
	for i := 0; i < n; i++ {
		for j := i; j < n; j++ {
			if !finite(s.At(i, j)) {
				return false
			}
		}
	}
	return true
}

func replayExpPow(in *core.Lines, args []string, seed int64, sum *core.Summary) error {
	var est, pst expStats
	for {
		b, ok := in.Next()
		if !ok {
			break
		}
		p := new(expPowRec)
		if err := json.Unmarshal(b, p); err != nil {
			return fmt.Errorf("line %d: %v", in.N, err)
		}
		k := &checker{}
		calls := 1
		switch p.K {
		case "exp":
			calls = k.expCase(p, &est)
			sum.Count(fmt.Sprintf("exp_branch_pade%d_sq%d", p.Pade, p.Sq), calls)
			if p.LowHalf {
				sum.Count("exp_branch_pade13_norm_at_most_half_theta13", calls)
			}
		case "expshape":
			k.expShapeCase(p)
			if p.Panics {
				sum.Count("exp_shape_contract_must_panic", 1)
			}
		case "pow":
			calls = k.powCase(p)
		case "powpsd":
			calls = k.powPSDCase(p, &pst, sum)
		default:
			continue
		}
		sum.Cases += calls
		sum.Nontrivial += calls
		sum.Count("family_"+p.K, calls)
		seen := map[string]bool{}
		for _, f := range k.fails {
			if !seen[f[0]] {
				seen[f[0]] = true
				sum.Fail(f[0], f[1], p)
			}
		}
		if len(k.fails) == 0 && p.K == "exp" && p.Sq >= 2 {
			sum.Sample(p)
		}
	}
	if sum.Extra == nil {
		sum.Extra = map[string]any{}
	}
	sum.Extra["exp_max_error_over_tolerance"] = est.maxRatio
	sum.Extra["powpsd_max_error_over_tolerance"] = pst.maxRatio
	return nil
}
