package matfactor

import (
	"math"
	"math/rand"
	"strconv"

	"gonum.org/v1/gonum/mat"

	"gonum.org/v1/gonum/verifharness/internal/core"
)

// code->spec: seeded random histories of calls on a live mat.Cholesky, logged for
// validation by TLC against specs/matfactor/CholTrace.tla. The driver knows nothing about the
// mathematics: it draws calls, performs them, and logs the arguments, the returned flag and a
// projection of the object (rounded ToSym, rounded Det, "was everything integral").

// traceOp mirrors opRec but always serialises every field the trace specification may read.
type traceOp struct {
	Op    string    `json:"op"`
	A     [][]int64 `json:"a"`
	U     [][]int64 `json:"u"`
	Alpha int64     `json:"alpha"`
	V     []int64   `json:"v"`
	F     []int64   `json:"f"`
}

type traceLine struct {
	E     string    `json:"e"`
	Op    traceOp   `json:"op"`
	Ok    bool      `json:"ok"`
	Valid bool      `json:"valid"`
	Sym   [][]int64 `json:"sym"`
	Det   int64     `json:"det"`
	Exact bool      `json:"exact"`
}

func init() {
	core.RegisterRecord("matfactor-chol", recordChol)
}

const integralSlack = 1.0 / (1 << 20)

// project reads the abstract state off the real object.
func project(ch *mat.Cholesky) (valid bool, sym [][]int64, det int64, exact bool, maxAbs int64) {
	sym = [][]int64{}
	exact = true
	o := core.Call(func() {
		var s mat.SymDense
		ch.ToSym(&s)
		n := s.SymmetricDim()
		for i := 0; i < n; i++ {
			row := make([]int64, n)
			for j := 0; j < n; j++ {
				x := s.At(i, j)
				r := math.Round(x)
				if !(math.Abs(x-r) <= integralSlack) {
					exact = false
				}
				row[j] = int64(r)
				if a := int64(math.Abs(r)); a > maxAbs {
					maxAbs = a
				}
			}
			sym = append(sym, row)
		}
		d := ch.Det()
		r := math.Round(d)
		if !(math.Abs(d-r) <= integralSlack*math.Max(1, math.Abs(d))) || math.Abs(r) > 1e9 {
			exact = false
		}
		det = int64(r)
	})
	if o.Panicked {
		return false, [][]int64{}, 0, true, 0
	}
	return true, sym, det, exact, maxAbs
}

func recordChol(out *core.Out, args []string, seed int64, sum *core.Summary) error {
	am := parseArgs(args)
	hist, steps, maxn := 4, 40, 5
	if v, ok := am["hist"]; ok {
		hist, _ = strconv.Atoi(v)
	}
	if v, ok := am["steps"]; ok {
		steps, _ = strconv.Atoi(v)
	}
	if v, ok := am["maxn"]; ok {
		maxn, _ = strconv.Atoi(v)
	}
	rng := rand.New(rand.NewSource(seed))
	ri := func(lo, hi int) int64 { return int64(lo + rng.Intn(hi-lo+1)) }
	emit := func(op traceOp, ok bool, ch *mat.Cholesky) (valid bool, n int, maxAbs int64) {
		v, sym, det, exact, mx := project(ch)
		if op.A == nil {
			op.A = [][]int64{}
		}
		if op.U == nil {
			op.U = [][]int64{}
		}
		if op.V == nil {
			op.V = []int64{}
		}
		if op.F == nil {
			op.F = []int64{1, 1}
		}
		out.Emit(traceLine{E: "call", Op: op, Ok: ok, Valid: v, Sym: sym, Det: det, Exact: exact})
		sum.Count("calls_"+op.Op, 1)
		if !ok {
			sum.Count("calls_returned_false", 1)
		}
		return v, len(sym), mx
	}
	for h := 0; h < hist; h++ {
		out.Emit(traceLine{E: "reset", Op: traceOp{Op: "Reset", A: [][]int64{}, U: [][]int64{}, V: []int64{}, F: []int64{1, 1}}, Sym: [][]int64{}, Exact: true})
		ch := &mat.Cholesky{}
		valid, n, maxAbs := false, 0, int64(0)
		for s := 0; s < steps; s++ {
			var op traceOp
			ok := true
			var o core.Outcome
			switch c := rng.Intn(20); {
			case !valid || c == 0:
				// start (or restart) from an upper triangular integer factor or a random symmetric matrix
				m := 1 + rng.Intn(3)
				if rng.Intn(3) > 0 {
					u := make([][]int64, m)
					for i := range u {
						u[i] = make([]int64, m)
						for j := i; j < m; j++ {
							if i == j {
								u[i][j] = ri(1, 2)
							} else {
								u[i][j] = ri(-1, 1)
							}
						}
					}
					op = traceOp{Op: "SetFromU", U: u}
					if valid && n != m {
						ch = &mat.Cholesky{} // SetFromU requires an empty or equally sized receiver
					}
					o = core.Call(func() { ch.SetFromU(triUpperOf(u)) })
				} else {
					a := make([][]int64, m)
					for i := range a {
						a[i] = make([]int64, m)
					}
					for i := 0; i < m; i++ {
						for j := i; j < m; j++ {
							x := ri(-2, 2)
							if i == j {
								x = ri(0, 4)
							}
							a[i][j], a[j][i] = x, x
						}
					}
					op = traceOp{Op: "Factorize", A: a}
					o = core.Call(func() { ok = ch.Factorize(symOf(a)) })
				}
			case c <= 12:
				v := make([]int64, n)
				for i := range v {
					v[i] = ri(-2, 2)
				}
				alpha := ri(-3, 3)
				if alpha < 0 && rng.Intn(2) == 0 {
					alpha = -alpha // updates a little more often than downdates, so that matrices grow
				}
				if maxAbs > 9 && alpha > 0 {
					alpha = -alpha
				}
				op = traceOp{Op: "SymRankOne", Alpha: alpha, V: v}
				rep := []string{"vec", "inc2", "basic"}[rng.Intn(3)]
				o = core.Call(func() { ok = ch.SymRankOne(ch, float64(alpha), vecOf(v, rep)) })
			case c <= 15 && n < maxn:
				v := make([]int64, n+1)
				for i := 0; i < n; i++ {
					v[i] = ri(-1, 1)
				}
				v[n] = ri(0, 5)
				op = traceOp{Op: "ExtendVecSym", V: v}
				o = core.Call(func() { ok = ch.ExtendVecSym(ch, vecOf(v, "vec")) })
			case c == 16 && maxAbs <= 3:
				op = traceOp{Op: "Scale", F: []int64{4, 1}}
				o = core.Call(func() { ch.Scale(4, ch) })
			default:
				op = traceOp{Op: "Clone"}
				nc := &mat.Cholesky{}
				o = core.Call(func() { nc.Clone(ch) })
				ch = nc
			}
			if o.Panicked {
				sum.Fail("matfactor:record:Cholesky."+op.Op+":panic", o.Text, op)
				break
			}
			valid, n, maxAbs = emit(op, ok, ch)
		}
		sum.Traces++
	}
	return nil
}

// ---- LU histories ------------------------------------------------------------------------------

type luTraceOp struct {
	Op    string    `json:"op"`
	A     [][]int64 `json:"a"`
	Alpha int64     `json:"alpha"`
	X     []int64   `json:"x"`
	Y     []int64   `json:"y"`
}

type luTraceLine struct {
	E     string    `json:"e"`
	Op    luTraceOp `json:"op"`
	Q     []int     `json:"q"`
	At    [][]int64 `json:"at"`
	Det   int64     `json:"det"`
	Exact bool      `json:"exact"`
	Err   bool      `json:"err"`
}

func init() {
	core.RegisterRecord("matfactor-lu", recordLU)
}

func projectLU(lu *mat.LU) (at [][]int64, det int64, exact, solveErr bool, maxAbs int64) {
	at = [][]int64{}
	exact = true
	o := core.Call(func() {
		n, _ := lu.Dims()
		for i := 0; i < n; i++ {
			row := make([]int64, n)
			for j := 0; j < n; j++ {
				x := lu.At(i, j)
				r := math.Round(x)
				if !finite(x) || !(math.Abs(x-r) <= integralSlack) || math.Abs(r) > 1e9 {
					exact = false
					r = 0
				}
				row[j] = int64(r)
				if a := int64(math.Abs(r)); a > maxAbs {
					maxAbs = a
				}
			}
			at = append(at, row)
		}
		d := lu.Det()
		r := math.Round(d)
		if !finite(d) || !(math.Abs(d-r) <= integralSlack*math.Max(1, math.Abs(d))) || math.Abs(r) > 1e9 {
			exact = false
			r = 0
		}
		det = int64(r)
		b := mat.NewDense(n, 1, nil)
		for i := 0; i < n; i++ {
			b.Set(i, 0, 1)
		}
		var x mat.Dense
		solveErr = lu.SolveTo(&x, false, b) != nil
	})
	if o.Panicked {
		exact = false
	}
	return
}

func recordLU(out *core.Out, args []string, seed int64, sum *core.Summary) error {
	am := parseArgs(args)
	hist, steps, maxn := 4, 30, 4
	if v, ok := am["hist"]; ok {
		hist, _ = strconv.Atoi(v)
	}
	if v, ok := am["steps"]; ok {
		steps, _ = strconv.Atoi(v)
	}
	if v, ok := am["maxn"]; ok {
		maxn, _ = strconv.Atoi(v)
	}
	rng := rand.New(rand.NewSource(seed))
	ri := func(lo, hi int) int64 { return int64(lo + rng.Intn(hi-lo+1)) }
	for h := 0; h < hist; h++ {
		out.Emit(luTraceLine{E: "reset", Op: luTraceOp{Op: "Reset", A: [][]int64{}, X: []int64{}, Y: []int64{}}, Q: []int{}, At: [][]int64{}, Exact: true})
		lu := &mat.LU{}
		n := 0
		var det, maxAbs int64
		usable := false // the object is known to represent a non-singular integer matrix
		for s := 0; s < steps; s++ {
			var op luTraceOp
			q := []int{}
			var o core.Outcome
			if !usable || maxAbs > 8 || rng.Intn(12) == 0 {
				n = 1 + rng.Intn(maxn)
				a := make([][]int64, n)
				for i := range a {
					a[i] = make([]int64, n)
					for j := range a[i] {
						a[i][j] = ri(-2, 2)
					}
				}
				op = luTraceOp{Op: "Factorize", A: a, X: []int64{}, Y: []int64{}}
				rep := []string{"vec", "inc2", "basic"}[rng.Intn(3)]
				o = applyLU(lu, lu, luOp{Op: "Factorize", A: a}, rep)
			} else {
				x, y := make([]int64, n), make([]int64, n)
				for i := 0; i < n; i++ {
					x[i], y[i] = ri(-2, 2), ri(-2, 2)
				}
				alpha := ri(1, 3)
				if rng.Intn(2) == 0 {
					alpha = -alpha
				}
				op = luTraceOp{Op: "RankOne", A: [][]int64{}, Alpha: alpha, X: x, Y: y}
				var ok bool
				if q, ok = rowOrder(lu); !ok {
					sum.Fail("matfactor:record:LU.RowPivots:not-a-permutation", "no usable pivots", op)
					break
				}
				rep := []string{"vec", "inc2", "basic"}[rng.Intn(3)]
				recv := lu
				if rng.Intn(3) == 0 {
					recv = &mat.LU{} // update into an empty receiver and continue with it
				}
				o = applyLU(recv, lu, luOp{Op: "RankOne", Alpha: alpha, X: x, Y: y}, rep)
				lu = recv
			}
			if o.Panicked {
				sum.Fail("matfactor:record:LU."+op.Op+":panic", o.Text, op)
				break
			}
			var at [][]int64
			var exact, serr bool
			at, det, exact, serr, maxAbs = projectLU(lu)
			usable = exact && det != 0
			out.Emit(luTraceLine{E: "call", Op: op, Q: q, At: at, Det: det, Exact: exact, Err: serr})
			sum.Count("calls_"+op.Op, 1)
			if !exact {
				sum.Count("calls_leaving_a_non_integral_object", 1)
			}
		}
		sum.Traces++
	}
	return nil
}
