// Package matfactor binds specs/matfactor/*.tla (C06) to gonum's mat
// factorization types. It contains no linear algebra of its own: expected
// matrices, determinants, Cramer numerators and tolerances are read from what
// TLC printed; this package builds operands, calls gonum and compares exactly
// with math/big.Rat.
package matfactor

import (
	"fmt"
	"math"
	"math/big"
	"strings"

	"gonum.org/v1/gonum/mat"

	"gonum.org/v1/gonum/verifharness/internal/core"
)

// ---- exact comparison ----------------------------------------------------

type units struct {
	unit     *big.Rat // 2^unitExp
	condSlop *big.Rat // 2^condSlackExp
}

func pow2(e int) *big.Rat {
	r := new(big.Rat)
	if e >= 0 {
		return r.SetInt(new(big.Int).Lsh(big.NewInt(1), uint(e)))
	}
	return r.SetFrac(big.NewInt(1), new(big.Int).Lsh(big.NewInt(1), uint(-e)))
}

func newUnits(unitExp, condSlackExp int) units {
	return units{unit: pow2(unitExp), condSlop: pow2(condSlackExp)}
}

func finite(x float64) bool { return !math.IsNaN(x) && !math.IsInf(x, 0) }

// near reports |got - num/den| <= tolUnits*unit, exactly.
func (u units) near(got float64, num, den, tolUnits int64) bool {
	if !finite(got) || den == 0 {
		return false
	}
	g := new(big.Rat).SetFloat64(got)
	w := big.NewRat(num, den)
	d := g.Sub(g, w)
	d.Abs(d)
	t := new(big.Rat).Mul(big.NewRat(tolUnits, 1), u.unit)
	return d.Cmp(t) <= 0
}

// nearRat reports |got - want| <= tolUnits*unit for an exact rational got.
func (u units) nearRat(got *big.Rat, num, den, tolUnits int64) bool {
	w := big.NewRat(num, den)
	d := new(big.Rat).Sub(got, w)
	d.Abs(d)
	t := new(big.Rat).Mul(big.NewRat(tolUnits, 1), u.unit)
	return d.Cmp(t) <= 0
}

// ---- failure collection --------------------------------------------------

type checker struct {
	u     units
	fails [][2]string // sig, msg
}

func (k *checker) failf(sig, format string, a ...any) {
	if len(k.fails) < 12 {
		k.fails = append(k.fails, [2]string{sig, fmt.Sprintf(format, a...)})
	}
}

// call runs f; any panic is a failure with signature sig+":panic" (runtime errors ":runtime-panic").
func (k *checker) call(sig string, f func()) bool {
	o := core.Call(f)
	if o.Panicked {
		if o.Runtime {
			k.failf(sig+":runtime-panic", "%s", o.Text)
		} else {
			k.failf(sig+":panic", "%s", o.Text)
		}
		return false
	}
	return true
}

// mustPanic runs f and requires an ordinary (non runtime-error) panic.
func (k *checker) mustPanic(sig string, f func()) {
	o := core.Call(f)
	if !o.Panicked {
		k.failf(sig+":no-panic", "call on an object without a factorization returned normally")
	} else if o.Runtime {
		k.failf(sig+":runtime-panic", "%s", o.Text)
	}
}

// ---- operand builders ----------------------------------------------------

func flat(a [][]int64) []float64 {
	var d []float64
	for _, r := range a {
		for _, x := range r {
			d = append(d, float64(x))
		}
	}
	return d
}

func symOf(a [][]int64) *mat.SymDense { return mat.NewSymDense(len(a), flat(a)) }

func denseOf(a [][]int64) *mat.Dense {
	if len(a) == 0 {
		return &mat.Dense{}
	}
	return mat.NewDense(len(a), len(a[0]), flat(a))
}

func triUpperOf(a [][]int64) *mat.TriDense { return mat.NewTriDense(len(a), mat.Upper, flat(a)) }

// basicMat and basicVec hide every fast path: only the Matrix / Vector interfaces.
type basicMat struct{ m mat.Matrix }

func (b basicMat) Dims() (int, int)    { return b.m.Dims() }
func (b basicMat) At(i, j int) float64 { return b.m.At(i, j) }
func (b basicMat) T() mat.Matrix       { return mat.Transpose{Matrix: b} }

type basicVec struct{ v *mat.VecDense }

func (b basicVec) Dims() (int, int)    { return b.v.Dims() }
func (b basicVec) At(i, j int) float64 { return b.v.At(i, j) }
func (b basicVec) T() mat.Matrix       { return mat.Transpose{Matrix: b} }
func (b basicVec) AtVec(i int) float64 { return b.v.AtVec(i) }
func (b basicVec) Len() int            { return b.v.Len() }

// vecOf builds the vector v in representation rep: "vec" (contiguous VecDense),
// "inc2" (a column of a wider Dense, increment 2), "basic" (Vector interface only).
func vecOf(v []int64, rep string) mat.Vector {
	n := len(v)
	switch rep {
	case "inc2":
		d := mat.NewDense(n, 2, nil)
		for i, x := range v {
			d.Set(i, 0, float64(x))
			d.Set(i, 1, math.NaN())
		}
		return d.ColView(0)
	case "basic":
		w := mat.NewVecDense(n, nil)
		for i, x := range v {
			w.SetVec(i, float64(x))
		}
		return basicVec{w}
	default:
		w := mat.NewVecDense(n, nil)
		for i, x := range v {
			w.SetVec(i, float64(x))
		}
		return w
	}
}

func colOf(b [][]int64, j int) []int64 {
	c := make([]int64, len(b))
	for i := range b {
		c[i] = b[i][j]
	}
	return c
}

func transposeInts(a [][]int64) [][]int64 {
	if len(a) == 0 {
		return nil
	}
	t := make([][]int64, len(a[0]))
	for j := range t {
		t[j] = make([]int64, len(a))
		for i := range a {
			t[j][i] = a[i][j]
		}
	}
	return t
}

func garbageDense(r, c int) *mat.Dense {
	d := mat.NewDense(r, c, nil)
	for i := 0; i < r; i++ {
		for j := 0; j < c; j++ {
			d.Set(i, j, math.NaN())
		}
	}
	return d
}

func keyOf(valid bool, a [][]int64) string {
	var sb strings.Builder
	if valid {
		sb.WriteByte('V')
	} else {
		sb.WriteByte('-')
	}
	for _, r := range a {
		for _, x := range r {
			fmt.Fprintf(&sb, "%d,", x)
		}
		sb.WriteByte(';')
	}
	return sb.String()
}

func parseArgs(args []string) map[string]string {
	m := map[string]string{}
	for _, a := range args {
		if i := strings.IndexByte(a, '='); i > 0 {
			m[a[:i]] = a[i+1:]
		}
	}
	return m
}

// matrixNear compares every entry of got (r x c accessor) with want[i][j]/den.
func (k *checker) matrixNear(sig string, r, c int, at func(i, j int) float64, want [][]int64, den, tolUnits int64) {
	if len(want) != r || (r > 0 && len(want[0]) != c) {
		k.failf(sig+":shape", "got %dx%d want %dx%d", r, c, len(want), len(want[0]))
		return
	}
	for i := 0; i < r; i++ {
		for j := 0; j < c; j++ {
			g := at(i, j)
			if !k.u.near(g, want[i][j], den, tolUnits) {
				k.failf(sig+":value", "element (%d,%d) = %v, specification says %d/%d (tolerance %d units)", i, j, g, want[i][j], den, tolUnits)
				return
			}
		}
	}
}

// basicTri hides every fast path of a triangular operand.
type basicTri struct{ t *mat.TriDense }

func (b basicTri) Dims() (int, int)             { return b.t.Dims() }
func (b basicTri) At(i, j int) float64          { return b.t.At(i, j) }
func (b basicTri) T() mat.Matrix                { return mat.Transpose{Matrix: b} }
func (b basicTri) Triangle() (int, mat.TriKind) { return b.t.Triangle() }
func (b basicTri) TTri() mat.Triangular         { return mat.TransposeTri{Triangular: b} }
