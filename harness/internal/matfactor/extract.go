package matfactor

import (
	"encoding/json"
	"fmt"
	"math/big"

	"gonum.org/v1/gonum/mat"

	"gonum.org/v1/gonum/verifharness/internal/core"
)

// spec->code for specs/matfactor/Extract.tla: every XTo / Values / pivot accessor of every
// factorization type into every destination state (empty, pre-sized junk, window of a larger junk
// matrix, wrong shape / kind / length), and every entry point that takes a Matrix / Vector argument
// with every operand representation (plain, strided window, transposed, opaque interface-only).
// The expected values are the planted instance's (Planted.tla): this file evaluates the instance's
// defining predicates (reconstruction, orthogonality, triangular structure, Cramer solutions) on what
// gonum stored, in math/big.Rat, and checks the destination contract the specification prints for the
// call (shape, panic class, receiver unchanged, nothing written outside the window).

type xKey struct {
	M    int `json:"m"`
	N    int `json:"n"`
	Kind int `json:"kind"`
	T    int `json:"t"`
}

type xCall struct {
	Meth   string `json:"meth"`
	A1     string `json:"a1"`
	A2     string `json:"a2"`
	Dk     string `json:"dk"`
	R      int    `json:"r"`
	C      int    `json:"c"`
	Tri    string `json:"tri"`
	Mode   string `json:"mode"`
	Wr     int    `json:"wr"`
	Wc     int    `json:"wc"`
	Wtri   string `json:"wtri"`
	Expect string `json:"expect"`
}

type xPlanted struct {
	plantedRec
	UpdX     []int64     `json:"updX,omitempty"`
	UpdY     []int64     `json:"updY,omitempty"`
	UpdAlpha int64       `json:"updAlpha,omitempty"`
	UpdA     [][]int64   `json:"updA,omitempty"`
	TolUpd   int64       `json:"tolUpd,omitempty"`
	ExtW     []int64     `json:"extW,omitempty"`
	ExtK     int64       `json:"extK,omitempty"`
	ExtA     [][]int64   `json:"extA,omitempty"`
	TolExt   int64       `json:"tolExt,omitempty"`
	Mats     [][][]int64 `json:"mats,omitempty"`
	Probe    []poolProbe `json:"probe,omitempty"`
}

// poolProbe is one operation of Extract!HogProbe: an unrelated operation on integer matrices that borrows a
// workspace from the pools shared by all of mat; Want is its exact result.
type poolProbe struct {
	Op   string    `json:"op"`
	A    [][]int64 `json:"a"`
	X    [][]int64 `json:"x"`
	E    int       `json:"e"`
	Want [][]int64 `json:"want"`
}

// runPoolProbe executes the specification's probe operations and compares bit for bit (theorem ProbeExact:
// integer results, every intermediate exact in float64).
func (k *checker) runPoolProbe(pfx string, probe []poolProbe) {
	for _, o := range probe {
		sig := fmt.Sprintf("%safter-factorize:%s(%dx%d)", pfx, o.Op, len(o.Want), len(o.Want[0]))
		var got *mat.Dense
		var err error
		switch o.Op {
		case "pow":
			got = new(mat.Dense)
			if !k.call(sig, func() { got.Pow(denseOf(o.A), o.E) }) {
				continue
			}
		case "mulself":
			got = denseOf(o.X)
			if !k.call(sig, func() { got.Mul(got, denseOf(o.A)) }) {
				continue
			}
		case "solveself":
			got = denseOf(o.X)
			if !k.call(sig, func() { err = got.Solve(denseOf(o.A), got) }) {
				continue
			}
		default:
			k.failf(sig+":harness", "unknown probe operation")
			continue
		}
		if err != nil {
			k.failf(sig+":error", "%v", err)
			continue
		}
		r, c := got.Dims()
		if r != len(o.Want) || c != len(o.Want[0]) {
			k.failf(sig+":dims", "result is %dx%d", r, c)
			continue
		}
	cmp:
		for i := 0; i < r; i++ {
			for j := 0; j < c; j++ {
				if got.At(i, j) != float64(o.Want[i][j]) {
					k.failf(sig+":value", "element (%d,%d) = %v, specification says %d", i, j, got.At(i, j), o.Want[i][j])
					break cmp
				}
			}
		}
	}
}

type xLine struct {
	K    string    `json:"k"` // "inst" | "call" | "x" (a self-contained case: instance + call)
	Typ  string    `json:"typ"`
	Key  xKey      `json:"key"`
	P    *xPlanted `json:"p,omitempty"`
	Call *xCall    `json:"call,omitempty"`
}

func init() {
	core.RegisterReplay("matfactor-extract", replayExtract)
}

// ---- operand representations (Extract!MatReps, VecReps, SymReps) ---------------------------------

func matRepOf(rep string, a [][]int64, den int64) mat.Matrix {
	plain := func(x [][]int64) *mat.Dense { return denseScaled(x, den) }
	window := func(x [][]int64) *mat.Dense {
		rr, cc := len(x), len(x[0])
		big := junkDense(rr+padTop+padBottom, cc+padLeft+padRight)
		w := big.Slice(padTop, padTop+rr, padLeft, padLeft+cc).(*mat.Dense)
		w.Copy(plain(x))
		return w
	}
	switch rep {
	case "dense":
		return plain(a)
	case "view":
		return window(a)
	case "transposed":
		return plain(transposeInts(a)).T()
	case "transposed-view":
		return window(transposeInts(a)).T()
	case "basic":
		return basicMat{plain(a)}
	}
	panic("harness: unknown matrix representation " + rep)
}

func vecRepOf(rep string, v []int64) mat.Vector {
	n := len(v)
	switch rep {
	case "vec", "inc2", "basic":
		return vecOf(v, rep)
	case "inc3-off":
		d := junkDense(n, 3)
		for i, x := range v {
			d.Set(i, 1, float64(x))
		}
		return d.ColView(1)
	case "slice":
		w := mat.NewVecDense(n+3, nil)
		for i := 0; i < n+3; i++ {
			w.SetVec(i, junk)
		}
		for i, x := range v {
			w.SetVec(i+2, float64(x))
		}
		return w.SliceVec(2, 2+n)
	}
	panic("harness: unknown vector representation " + rep)
}

func symRepOf(rep string, a [][]int64, den int64) mat.Symmetric {
	n := len(a)
	d := denseScaled(a, den)
	s := mat.NewSymDense(n, nil)
	for i := 0; i < n; i++ {
		for j := i; j < n; j++ {
			s.SetSym(i, j, d.At(i, j))
		}
	}
	switch rep {
	case "sym":
		return s
	case "symview":
		bigS := mat.NewSymDense(n+3, nil)
		raw := bigS.RawSymmetric()
		for i := range raw.Data {
			raw.Data[i] = junk
		}
		w := bigS.SliceSym(1, 1+n).(*mat.SymDense)
		for i := 0; i < n; i++ {
			for j := i; j < n; j++ {
				w.SetSym(i, j, d.At(i, j))
			}
		}
		return w
	case "basic":
		return basicSym{s}
	case "band":
		b := mat.NewSymBandDense(n, n-1, nil)
		for i := 0; i < n; i++ {
			for j := i; j < n; j++ {
				b.SetSymBand(i, j, d.At(i, j))
			}
		}
		return b
	}
	panic("harness: unknown symmetric representation " + rep)
}

// ---- one case ---------------------------------------------------------------------------------------

type xrun struct {
	k    *checker
	typ  string
	key  xKey
	p    *xPlanted
	c    *xCall
	pfx  string
	done bool // the call under test had a "wrong" destination: its contract was checked, nothing else to do
}

// sig: every signature of a case starts with the call under test (method, destination mode, argument
// representations); a predicate evaluated on another accessor's result is appended after ">".
func (x *xrun) sig(meth string) string {
	if x.c.Meth == meth {
		return x.pfx[:len(x.pfx)-1]
	}
	return x.pfx + ">" + meth
}

func callTag(c *xCall) string {
	s := c.Meth
	if c.Mode != "-" {
		s += "[dst=" + c.Mode + "]"
	}
	if c.A1 != "-" {
		s += "[arg=" + c.A1
		if c.A2 != "-" {
			s += "," + c.A2
		}
		s += "]"
	}
	return s
}

func (x *xrun) under(meth string) bool { return x.c.Meth == meth }

// expectPanic judges a call into a wrong destination.
func (x *xrun) expectPanic(sig string, o core.Outcome, unchanged func() (bool, string)) {
	x.done = true
	switch {
	case !o.Panicked:
		x.k.failf(sig+":no-panic", "a %dx%d (%s) destination was accepted where the result is %dx%d", x.c.Wr, x.c.Wc, x.c.Wtri, x.c.R, x.c.C)
		return
	case o.Runtime:
		x.k.failf(sig+":runtime-panic", "%s", o.Text)
		return
	}
	var want mat.Error
	switch x.c.Expect {
	case "ErrShape":
		want = mat.ErrShape
	case "ErrTriangle":
		want = mat.ErrTriangle
	case "ErrSliceLengthMismatch":
		want = mat.ErrSliceLengthMismatch
	case "panic":
	default:
		x.k.failf(sig+":harness", "unknown expectation %q", x.c.Expect)
		return
	}
	if x.c.Expect != "panic" {
		if e, ok := o.Val.(mat.Error); !ok || e != want {
			x.k.failf(sig+":wrong-panic", "panicked with %q, the documentation says %s", o.Text, x.c.Expect)
		}
	}
	if ok, why := unchanged(); !ok {
		x.k.failf(sig+":receiver-written-before-panic", "%s", why)
	}
}

// callDense runs an extraction into a *mat.Dense. For the method under test the destination is the one
// the specification names, otherwise an empty receiver.
func (x *xrun) callDense(meth string, f func(dst *mat.Dense)) (*mat.Dense, bool) {
	sig := x.sig(meth)
	if !x.under(meth) {
		var d mat.Dense
		return &d, x.k.call(sig, func() { f(&d) })
	}
	if x.c.Mode == "wrong" {
		box := newDst("view", x.c.Wr, x.c.Wc)
		x.expectPanic(sig, core.Call(func() { f(box.d) }), box.unchanged)
		return nil, false
	}
	box := newDst(x.c.Mode, x.c.R, x.c.C)
	if !x.k.call(sig, func() { f(box.d) }) {
		return nil, false
	}
	if r, c := box.d.Dims(); r != x.c.R || c != x.c.C {
		x.k.failf(sig+":dims", "stored a %dx%d matrix, the specification says %dx%d", r, c, x.c.R, x.c.C)
		return nil, false
	}
	if ok, why := box.outside(); !ok {
		x.k.failf(sig+":wrote-outside-receiver", "%s", why)
	}
	return box.d, true
}

func triKindOf(s string) mat.TriKind {
	if s == "lower" {
		return mat.Lower
	}
	return mat.Upper
}

func junkTri(n int, kind mat.TriKind) *mat.TriDense {
	data := make([]float64, n*n)
	for i := range data {
		data[i] = junk
	}
	return mat.NewTriDense(n, kind, data)
}

func (x *xrun) callTri(meth string, f func(dst *mat.TriDense)) (*mat.TriDense, bool) {
	sig := x.sig(meth)
	if !x.under(meth) {
		var d mat.TriDense
		return &d, x.k.call(sig, func() { f(&d) })
	}
	kind := triKindOf(x.c.Tri)
	if x.c.Mode == "wrong" {
		wk := kind
		if x.c.Wtri == "other" {
			wk = !kind
		}
		d := junkTri(x.c.Wr, wk)
		x.expectPanic(sig, core.Call(func() { f(d) }), func() (bool, string) {
			n, kk := d.Triangle()
			if n != x.c.Wr || kk != wk {
				return false, "the receiver was reshaped"
			}
			raw := d.RawTriangular()
			for i, v := range raw.Data {
				if !isJunk(v) {
					return false, fmt.Sprintf("backing element %d was overwritten with %v before the panic", i, v)
				}
			}
			return true, ""
		})
		return nil, false
	}
	var d, parent *mat.TriDense
	n := x.c.R
	off := 0
	switch x.c.Mode {
	case "empty":
		d = &mat.TriDense{}
	case "sized":
		d = junkTri(n, kind)
	case "view":
		off = 1
		parent = junkTri(n+3, kind)
		d = parent.SliceTri(off, off+n).(*mat.TriDense)
	}
	if !x.k.call(sig, func() { f(d) }) {
		return nil, false
	}
	if nn, kk := d.Triangle(); nn != n || kk != kind {
		x.k.failf(sig+":dims", "stored a %d (%v) triangle, the specification says %d (%v)", nn, kk, n, kind)
		return nil, false
	}
	if parent != nil {
		raw := parent.RawTriangular()
		for i := 0; i < raw.N; i++ {
			for j := 0; j < raw.N; j++ {
				in := i >= off && i < off+n && j >= off && j < off+n
				if !in && !isJunk(raw.Data[i*raw.Stride+j]) {
					x.k.failf(sig+":wrote-outside-receiver", "backing element (%d,%d) outside the window was overwritten with %v", i, j, raw.Data[i*raw.Stride+j])
					return d, true
				}
			}
		}
	}
	return d, true
}

func junkSym(n int) *mat.SymDense {
	data := make([]float64, n*n)
	for i := range data {
		data[i] = junk
	}
	return mat.NewSymDense(n, data)
}

func (x *xrun) callSym(meth string, f func(dst *mat.SymDense)) (*mat.SymDense, bool) {
	sig := x.sig(meth)
	if !x.under(meth) {
		var d mat.SymDense
		return &d, x.k.call(sig, func() { f(&d) })
	}
	if x.c.Mode == "wrong" {
		d := junkSym(x.c.Wr)
		x.expectPanic(sig, core.Call(func() { f(d) }), func() (bool, string) {
			if d.SymmetricDim() != x.c.Wr {
				return false, "the receiver was reshaped"
			}
			for i, v := range d.RawSymmetric().Data {
				if !isJunk(v) {
					return false, fmt.Sprintf("backing element %d was overwritten with %v before the panic", i, v)
				}
			}
			return true, ""
		})
		return nil, false
	}
	var d, parent *mat.SymDense
	n, off := x.c.R, 0
	switch x.c.Mode {
	case "empty":
		d = &mat.SymDense{}
	case "sized":
		d = junkSym(n)
	case "view":
		off = 1
		parent = junkSym(n + 3)
		d = parent.SliceSym(off, off+n).(*mat.SymDense)
	}
	if !x.k.call(sig, func() { f(d) }) {
		return nil, false
	}
	if d.SymmetricDim() != n {
		x.k.failf(sig+":dims", "stored a symmetric matrix of order %d, the specification says %d", d.SymmetricDim(), n)
		return nil, false
	}
	if parent != nil {
		raw := parent.RawSymmetric()
		for i := 0; i < raw.N; i++ {
			for j := 0; j < raw.N; j++ {
				in := i >= off && i < off+n && j >= off && j < off+n
				if !in && !isJunk(raw.Data[i*raw.Stride+j]) {
					x.k.failf(sig+":wrote-outside-receiver", "backing element (%d,%d) outside the window was overwritten with %v", i, j, raw.Data[i*raw.Stride+j])
					return d, true
				}
			}
		}
	}
	return d, true
}

var cjunk = complex(junk, junk)

func isCJunk(z complex128) bool { return isJunk(real(z)) && isJunk(imag(z)) }

func junkCDense(r, c int) *mat.CDense {
	data := make([]complex128, r*c)
	for i := range data {
		data[i] = cjunk
	}
	return mat.NewCDense(r, c, data)
}

func (x *xrun) callCDense(meth string, f func(dst *mat.CDense)) (*mat.CDense, bool) {
	sig := x.sig(meth)
	if !x.under(meth) {
		var d mat.CDense
		return &d, x.k.call(sig, func() { f(&d) })
	}
	if x.c.Mode == "wrong" {
		d := junkCDense(x.c.Wr, x.c.Wc)
		x.expectPanic(sig, core.Call(func() { f(d) }), func() (bool, string) {
			r, c := d.Dims()
			if r != x.c.Wr || c != x.c.Wc {
				return false, "the receiver was reshaped"
			}
			for i := 0; i < r; i++ {
				for j := 0; j < c; j++ {
					if !isCJunk(d.At(i, j)) {
						return false, fmt.Sprintf("element (%d,%d) was overwritten with %v before the panic", i, j, d.At(i, j))
					}
				}
			}
			return true, ""
		})
		return nil, false
	}
	var d, parent *mat.CDense
	r, c := x.c.R, x.c.C
	switch x.c.Mode {
	case "empty":
		d = &mat.CDense{}
	case "sized":
		d = junkCDense(r, c)
	case "view":
		parent = junkCDense(r+padTop+padBottom, c+padLeft+padRight)
		d = parent.Slice(padTop, padTop+r, padLeft, padLeft+c).(*mat.CDense)
	}
	if !x.k.call(sig, func() { f(d) }) {
		return nil, false
	}
	if rr, cc := d.Dims(); rr != r || cc != c {
		x.k.failf(sig+":dims", "stored a %dx%d matrix, the specification says %dx%d", rr, cc, r, c)
		return nil, false
	}
	if parent != nil {
		R, C := parent.Dims()
		for i := 0; i < R; i++ {
			for j := 0; j < C; j++ {
				in := i >= padTop && i < padTop+r && j >= padLeft && j < padLeft+c
				if !in && !isCJunk(parent.At(i, j)) {
					x.k.failf(sig+":wrote-outside-receiver", "backing element (%d,%d) outside the window was overwritten with %v", i, j, parent.At(i, j))
					return d, true
				}
			}
		}
	}
	return d, true
}

// slices: nil, a junk slice of the right length, a window of a longer junk slice, a wrong length
func callSlice[T comparable](x *xrun, meth string, junkv T, f func(dst []T) []T) ([]T, bool) {
	sig := x.sig(meth)
	if !x.under(meth) {
		var out []T
		ok := x.k.call(sig, func() { out = f(nil) })
		return out, ok
	}
	mk := func(n int) []T {
		s := make([]T, n)
		for i := range s {
			s[i] = junkv
		}
		return s
	}
	same := func(a, b T) bool { return fmt.Sprint(a) == fmt.Sprint(b) || a == b } // NaN payloads print alike
	n := x.c.R
	if x.c.Mode == "wrong" {
		s := mk(x.c.Wr)
		x.expectPanic(sig, core.Call(func() { f(s) }), func() (bool, string) {
			for i := range s {
				if !same(s[i], junkv) {
					return false, fmt.Sprintf("element %d was overwritten with %v before the panic", i, s[i])
				}
			}
			return true, ""
		})
		return nil, false
	}
	var dst, whole []T
	switch x.c.Mode {
	case "nil":
	case "sized":
		dst = mk(n)
	case "view":
		whole = mk(n + 4)
		dst = whole[2 : 2+n]
	}
	var out []T
	if !x.k.call(sig, func() { out = f(dst) }) {
		return nil, false
	}
	if len(out) != n {
		x.k.failf(sig+":dims", "returned %d values, the specification says %d", len(out), n)
		return nil, false
	}
	if dst != nil && n > 0 && &out[0] != &dst[0] {
		x.k.failf(sig+":not-in-place", "a non-nil destination was given but the values were returned in another slice")
	}
	for i := range whole {
		if (i < 2 || i >= 2+n) && !same(whole[i], junkv) {
			x.k.failf(sig+":wrote-outside-receiver", "element %d of the enclosing slice was overwritten with %v", i, whole[i])
			break
		}
	}
	return out, true
}

// solveDense runs a solve whose solution is a matrix: b in the representation brep, dst in the call's mode.
func (x *xrun) solveDense(meth string, bInts, want [][]int64, den, tol int64, brep string, f func(dst *mat.Dense, b mat.Matrix) error) {
	sig := x.sig(meth)
	var b mat.Matrix = matRepOf(brep, bInts, 1)
	var box *dstBox
	switch x.c.Mode {
	case "wrong":
		box = newDst("view", x.c.Wr, x.c.Wc)
		x.expectPanic(sig, core.Call(func() { _ = f(box.d, b) }), box.unchanged)
		return
	case "alias":
		d := denseOf(bInts)
		b = d
		box = &dstBox{mode: "alias", d: d}
	default:
		box = newDst(x.c.Mode, x.c.R, x.c.C)
	}
	var err error
	if !x.k.call(sig, func() { err = f(box.d, b) }) {
		return
	}
	x.k.solved(sig, box.d, err, want, den, tol)
	if ok, why := box.outside(); !ok {
		x.k.failf(sig+":wrote-outside-receiver", "%s", why)
	}
}

// solveVec: the vector forms. dst modes: empty, sized, view (a strided column of a junk matrix), alias, wrong.
func (x *xrun) solveVec(meth string, bInts, want []int64, den, tol int64, brep string, f func(dst *mat.VecDense, b mat.Vector) error) {
	sig := x.sig(meth)
	b := vecRepOf(brep, bInts)
	var dst *mat.VecDense
	var parent *mat.Dense
	mkJunk := func(n int) *mat.VecDense {
		v := mat.NewVecDense(n, nil)
		for i := 0; i < n; i++ {
			v.SetVec(i, junk)
		}
		return v
	}
	switch x.c.Mode {
	case "wrong":
		d := mkJunk(x.c.Wr)
		x.expectPanic(sig, core.Call(func() { _ = f(d, b) }), func() (bool, string) {
			if d.Len() != x.c.Wr {
				return false, "the receiver was reshaped"
			}
			for i := 0; i < d.Len(); i++ {
				if !isJunk(d.AtVec(i)) {
					return false, fmt.Sprintf("element %d was overwritten with %v before the panic", i, d.AtVec(i))
				}
			}
			return true, ""
		})
		return
	case "empty":
		dst = &mat.VecDense{}
	case "sized":
		dst = mkJunk(x.c.R)
	case "view":
		parent = junkDense(x.c.R, 3)
		dst = parent.ColView(1).(*mat.VecDense)
	case "alias":
		dst = vecOf(bInts, "vec").(*mat.VecDense)
		b = dst
	}
	var err error
	if !x.k.call(sig, func() { err = f(dst, b) }) {
		return
	}
	if err != nil {
		x.k.failf(sig+":error", "error %v on a well conditioned matrix", err)
		return
	}
	w := make([][]int64, len(want))
	for i := range w {
		w[i] = []int64{want[i]}
	}
	x.k.matrixNear(sig, dst.Len(), 1, dst.At, w, den, tol)
	if parent != nil {
		for i := 0; i < x.c.R; i++ {
			if !isJunk(parent.At(i, 0)) || !isJunk(parent.At(i, 2)) {
				x.k.failf(sig+":wrote-outside-receiver", "row %d of the enclosing matrix was overwritten outside the destination column", i)
				break
			}
		}
	}
}

func (x *xrun) solveMeth() bool {
	switch x.c.Meth {
	case "SolveTo", "SolveTo(trans)", "SolveVecTo", "SolveVecTo(trans)", "Solve", "SolveVec", "Inverse":
		return true
	}
	return false
}

// the four standard solves of a factorization with a transpose flag (QR, LQ, LU, Tridiag)
func (x *xrun) transSolves(solveTo func(dst *mat.Dense, trans bool, b mat.Matrix) error,
	solveVecTo func(dst *mat.VecDense, trans bool, b mat.Vector) error,
	b, num [][]int64, tol int64, bt, numT [][]int64, tolT, den int64) {
	switch x.c.Meth {
	case "SolveTo":
		x.solveDense("SolveTo", b, num, den, tol, x.c.A1, func(d *mat.Dense, bb mat.Matrix) error { return solveTo(d, false, bb) })
	case "SolveTo(trans)":
		x.solveDense("SolveTo(trans)", bt, numT, den, tolT, x.c.A1, func(d *mat.Dense, bb mat.Matrix) error { return solveTo(d, true, bb) })
	case "SolveVecTo":
		x.solveVec("SolveVecTo", colOf(b, 0), colOf(num, 0), den, tol, x.c.A1, func(d *mat.VecDense, bb mat.Vector) error { return solveVecTo(d, false, bb) })
	case "SolveVecTo(trans)":
		x.solveVec("SolveVecTo(trans)", colOf(bt, 1), colOf(numT, 1), den, tolT, x.c.A1, func(d *mat.VecDense, bb mat.Vector) error { return solveVecTo(d, true, bb) })
	}
}

func (x *xrun) argMat(a [][]int64, den int64) mat.Matrix {
	if x.c.Meth == "Factorize" {
		return matRepOf(x.c.A1, a, den)
	}
	return denseScaled(a, den)
}

func (x *xrun) argSym(a [][]int64, den int64) mat.Symmetric {
	if x.c.Meth == "Factorize" {
		return symRepOf(x.c.A1, a, den)
	}
	return symRepOf("sym", a, den)
}

// ---- per type ----------------------------------------------------------------------------------------

func (x *xrun) runQR() {
	p, k := x.p, x.k
	m, n := x.key.M, x.key.N
	var qr mat.QR
	if !k.call(x.sig("Factorize"), func() { qr.Factorize(x.argMat(p.A, 1)) }) {
		return
	}
	if x.solveMeth() {
		x.transSolves(qr.SolveTo, qr.SolveVecTo, p.B, p.Num, p.TolX, p.BT, p.NumT, p.TolXT, p.DetG)
		return
	}
	q, ok := x.callDense("QTo", func(d *mat.Dense) { qr.QTo(d) })
	if !ok {
		return
	}
	r, ok := x.callDense("RTo", func(d *mat.Dense) { qr.RTo(d) })
	if !ok {
		return
	}
	qr_, qc := q.Dims()
	rr, rc := r.Dims()
	if qr_ != m || qc != m || rr != m || rc != n {
		k.failf(x.pfx+"shape", "Q %dx%d R %dx%d for a %dx%d matrix", qr_, qc, rr, rc, m, n)
		return
	}
	for i := 0; i < m; i++ {
		for j := 0; j < n && j < i; j++ {
			if r.At(i, j) != 0 {
				k.failf(x.sig("RTo")+":not-upper", "R[%d][%d] = %v", i, j, r.At(i, j))
				return
			}
		}
	}
	at := func(i, j int) int64 { return p.A[i][j] }
	k.prodNear(x.sig("QTo")+":Q*R", m, n, m, q.At, r.At, at, 1, p.TolA)
	k.prodNear(x.sig("QTo")+":QT*Q", m, m, m, func(i, s int) float64 { return q.At(s, i) }, q.At, identInt, 1, p.TolA)
	k.prodNear(x.sig("RTo")+":RT*R", n, n, m, func(i, s int) float64 { return r.At(s, i) }, r.At,
		func(i, j int) int64 { return p.AtA[i][j] }, 1, p.TolG)
}

func (x *xrun) runLQ() {
	p, k := x.p, x.k
	m, n := x.key.M, x.key.N
	var lq mat.LQ
	if !k.call(x.sig("Factorize"), func() { lq.Factorize(x.argMat(p.A, 1)) }) {
		return
	}
	if x.solveMeth() {
		x.transSolves(lq.SolveTo, lq.SolveVecTo, p.B, p.Num, p.TolX, p.BT, p.NumT, p.TolXT, p.DetG)
		return
	}
	l, ok := x.callDense("LTo", func(d *mat.Dense) { lq.LTo(d) })
	if !ok {
		return
	}
	q, ok := x.callDense("QTo", func(d *mat.Dense) { lq.QTo(d) })
	if !ok {
		return
	}
	lr, lc := l.Dims()
	qr_, qc := q.Dims()
	if lr != m || lc != n || qr_ != n || qc != n {
		k.failf(x.pfx+"shape", "L %dx%d Q %dx%d for a %dx%d matrix", lr, lc, qr_, qc, m, n)
		return
	}
	for i := 0; i < m; i++ {
		for j := i + 1; j < n; j++ {
			if l.At(i, j) != 0 {
				k.failf(x.sig("LTo")+":not-lower", "L[%d][%d] = %v", i, j, l.At(i, j))
				return
			}
		}
	}
	at := func(i, j int) int64 { return p.A[i][j] }
	k.prodNear(x.sig("LTo")+":L*Q", m, n, n, l.At, q.At, at, 1, p.TolA)
	k.prodNear(x.sig("QTo")+":Q*QT", n, n, n, q.At, func(s, j int) float64 { return q.At(j, s) }, identInt, 1, p.TolA)
	k.prodNear(x.sig("LTo")+":L*LT", m, m, n, l.At, func(s, j int) float64 { return l.At(j, s) },
		func(i, j int) int64 { return p.AAt[i][j] }, 1, p.TolG)
}

// luFactors checks P L U = want (A[i] = (L U)[piv[i]]), unit lower L, upper U, a permutation.
func (x *xrun) luFactors(lu *mat.LU, want [][]int64, tol int64) {
	k := x.k
	n := x.key.N
	l, ok := x.callTri("LTo", func(d *mat.TriDense) { lu.LTo(d) })
	if !ok {
		return
	}
	u, ok := x.callTri("UTo", func(d *mat.TriDense) { lu.UTo(d) })
	if !ok {
		return
	}
	piv, ok := callSlice(x, "RowPivots", -12345, func(dst []int) []int { return lu.RowPivots(dst) })
	if !ok {
		return
	}
	seen := make([]bool, n)
	for _, q := range piv {
		if q < 0 || q >= n || seen[q] {
			k.failf(x.sig("RowPivots")+":not-a-permutation", "%v", piv)
			return
		}
		seen[q] = true
	}
	for i := 0; i < n; i++ {
		if l.At(i, i) != 1 {
			k.failf(x.sig("LTo")+":diagonal", "L[%d][%d] = %v, L is unit lower triangular", i, i, l.At(i, i))
			return
		}
		for j := 0; j < n; j++ {
			if (j > i && l.At(i, j) != 0) || (j < i && u.At(i, j) != 0) {
				k.failf(x.sig("LTo")+":triangle", "L[%d][%d] = %v U[%d][%d] = %v", i, j, l.At(i, j), i, j, u.At(i, j))
				return
			}
		}
	}
	// (L U)[piv[i]][j] = A[i][j]
	k.prodNear(x.sig("LTo")+":P*L*U", n, n, n, func(i, s int) float64 { return l.At(piv[i], s) }, u.At,
		func(i, j int) int64 { return want[i][j] }, 1, tol)
}

func (x *xrun) runLU() {
	p, k := x.p, x.k
	var lu mat.LU
	if !k.call(x.sig("Factorize"), func() { lu.Factorize(x.argMat(p.A, 1)) }) {
		return
	}
	if x.solveMeth() {
		x.transSolves(lu.SolveTo, lu.SolveVecTo, p.B, p.Num, p.TolX, p.BT, p.NumT, p.TolXT, p.DetG)
		return
	}
	x.luFactors(&lu, p.A, p.TolA)
}

func (x *xrun) runLUupd() {
	p, k := x.p, x.k
	var lu mat.LU
	if !k.call(x.sig("Factorize"), func() { lu.Factorize(denseOf(p.A)) }) {
		return
	}
	xv, yv := vecRepOf(x.c.A1, p.UpdX), vecRepOf(x.c.A2, p.UpdY)
	if !k.call(x.sig("RankOne"), func() { lu.RankOne(&lu, float64(p.UpdAlpha), xv, yv) }) {
		return
	}
	x.luFactors(&lu, p.UpdA, p.TolUpd)
}

func (x *xrun) cholFactors(ch *mat.Cholesky, want [][]int64, tol int64) {
	k := x.k
	n := len(want)
	wa := func(i, j int) int64 { return want[i][j] }
	u, ok := x.callTri("UTo", func(d *mat.TriDense) { ch.UTo(d) })
	if !ok {
		return
	}
	l, ok := x.callTri("LTo", func(d *mat.TriDense) { ch.LTo(d) })
	if !ok {
		return
	}
	s, ok := x.callSym("ToSym", func(d *mat.SymDense) { ch.ToSym(d) })
	if !ok {
		return
	}
	k.prodNear(x.sig("UTo")+":UT*U", n, n, n, func(i, q int) float64 { return u.At(q, i) }, u.At, wa, 1, tol)
	k.prodNear(x.sig("LTo")+":L*LT", n, n, n, l.At, func(q, j int) float64 { return l.At(j, q) }, wa, 1, tol)
	for i := 0; i < n; i++ {
		if !(u.At(i, i) > 0) || !(l.At(i, i) > 0) {
			k.failf(x.sig("UTo")+":diagonal", "U[%d][%d] = %v, L[%d][%d] = %v: the Cholesky factor has a positive diagonal", i, i, u.At(i, i), i, i, l.At(i, i))
			return
		}
	}
	k.matrixNear(x.sig("ToSym"), n, n, s.At, want, 1, tol)
}

func (x *xrun) runCholesky() {
	p, k := x.p, x.k
	n := x.key.N
	var ch mat.Cholesky
	var ok bool
	if !k.call(x.sig("Factorize"), func() { ok = ch.Factorize(x.argSym(p.A, 1)) }) {
		return
	}
	if !ok {
		k.failf(x.sig("Factorize")+":false", "Factorize returned false on the positive definite matrix %v", p.A)
		return
	}
	switch x.c.Meth {
	case "SolveTo":
		x.solveDense("SolveTo", p.B, p.Num, p.Det, p.TolX, x.c.A1, func(d *mat.Dense, b mat.Matrix) error { return ch.SolveTo(d, b) })
	case "SolveVecTo":
		x.solveVec("SolveVecTo", colOf(p.B, 0), colOf(p.Num, 0), p.Det, p.TolX, x.c.A1, func(d *mat.VecDense, b mat.Vector) error { return ch.SolveVecTo(d, b) })
	case "SymRankOne":
		if !k.call(x.sig("SymRankOne"), func() { ok = ch.SymRankOne(&ch, float64(p.UpdAlpha), vecRepOf(x.c.A1, p.UpdX)) }) {
			return
		}
		if !ok {
			k.failf(x.sig("SymRankOne")+":false", "update of %v by %d x x^T, x = %v, keeps it positive definite but was refused", p.A, p.UpdAlpha, p.UpdX)
			return
		}
		x.cholFactors(&ch, p.UpdA, p.TolUpd)
	case "ExtendVecSym":
		v := append(append([]int64(nil), p.ExtW...), p.ExtK)
		if !k.call(x.sig("ExtendVecSym"), func() { ok = ch.ExtendVecSym(&ch, vecRepOf(x.c.A1, v)) }) {
			return
		}
		if !ok {
			k.failf(x.sig("ExtendVecSym")+":false", "extension of %v by %v is positive definite but was refused", p.A, v)
			return
		}
		x.cholFactors(&ch, p.ExtA, p.TolExt)
	case "InverseTo":
		s, ok := x.callSym("InverseTo", func(d *mat.SymDense) {
			if err := ch.InverseTo(d); err != nil {
				panic(fmt.Sprintf("InverseTo returned the error %v on a well conditioned matrix", err))
			}
		})
		if ok {
			k.matrixNear(x.sig("InverseTo"), n, n, s.At, p.Adj, p.Det, p.TolInv)
		}
	default:
		x.cholFactors(&ch, p.A, p.TolA)
	}
}

func (x *xrun) runPivoted() {
	p, k := x.p, x.k
	n := x.key.N
	var pc mat.PivotedCholesky
	var ok bool
	if !k.call(x.sig("Factorize"), func() { ok = pc.Factorize(x.argSym(p.A, 1), -1) }) {
		return
	}
	if !ok {
		k.failf(x.sig("Factorize")+":false", "Factorize returned false on the positive definite matrix %v", p.A)
		return
	}
	switch x.c.Meth {
	case "SolveTo":
		x.solveDense("SolveTo", p.B, p.Num, p.Det, p.TolX, x.c.A1, func(d *mat.Dense, b mat.Matrix) error { return pc.SolveTo(d, b) })
		return
	case "SolveVecTo":
		x.solveVec("SolveVecTo", colOf(p.B, 0), colOf(p.Num, 0), p.Det, p.TolX, x.c.A1, func(d *mat.VecDense, b mat.Vector) error { return pc.SolveVecTo(d, b) })
		return
	}
	u, ok := x.callTri("UTo", func(d *mat.TriDense) { pc.UTo(d) })
	if !ok {
		return
	}
	piv, ok := callSlice(x, "ColumnPivots", -12345, func(dst []int) []int { return pc.ColumnPivots(dst) })
	if !ok {
		return
	}
	seen := make([]bool, n)
	for _, q := range piv {
		if q < 0 || q >= n || seen[q] {
			k.failf(x.sig("ColumnPivots")+":not-a-permutation", "%v", piv)
			return
		}
		seen[q] = true
	}
	k.prodNear(x.sig("UTo")+":UT*U", n, n, n, func(i, s int) float64 { return u.At(s, i) }, u.At,
		func(i, j int) int64 { return p.A[piv[i]][piv[j]] }, 1, p.TolA)
}

type basicSymBand struct{ b *mat.SymBandDense }

func (s basicSymBand) Dims() (int, int)      { return s.b.Dims() }
func (s basicSymBand) At(i, j int) float64   { return s.b.At(i, j) }
func (s basicSymBand) T() mat.Matrix         { return s }
func (s basicSymBand) SymmetricDim() int     { return s.b.SymmetricDim() }
func (s basicSymBand) Bandwidth() (int, int) { return s.b.Bandwidth() }
func (s basicSymBand) TBand() mat.Banded     { return s }
func (s basicSymBand) SymBand() (n, k int)   { return s.b.SymBand() }

func (x *xrun) runBand() {
	p, k := x.p, x.k
	var bc mat.BandCholesky
	var ok bool
	var a mat.SymBanded = bandOf(p.A, p.Kd)
	if x.c.Meth == "Factorize" && x.c.A1 == "basic" {
		a = basicSymBand{bandOf(p.A, p.Kd)}
	}
	if !k.call(x.sig("Factorize"), func() { ok = bc.Factorize(a) }) {
		return
	}
	if !ok {
		k.failf(x.sig("Factorize")+":false", "Factorize returned false on the positive definite matrix %v", p.A)
		return
	}
	switch x.c.Meth {
	case "Factorize":
		n := x.key.N
		k.call(x.sig("Factorize")+":At", func() { k.matrixNear(x.sig("Factorize")+":At", n, n, bc.At, p.A, 1, p.TolA) })
		k.call(x.sig("Factorize")+":Det", func() {
			if d := bc.Det(); !k.u.near(d, p.Det, 1, p.TolDet) {
				k.failf(x.sig("Factorize")+":Det:value", "Det = %v, specification says %d", d, p.Det)
			}
		})
	case "SolveTo":
		x.solveDense("SolveTo", p.B, p.Num, p.Det, p.TolX, x.c.A1, func(d *mat.Dense, b mat.Matrix) error { return bc.SolveTo(d, b) })
	case "SolveVecTo":
		x.solveVec("SolveVecTo", colOf(p.B, 0), colOf(p.Num, 0), p.Det, p.TolX, x.c.A1, func(d *mat.VecDense, b mat.Vector) error { return bc.SolveVecTo(d, b) })
	}
}

func (x *xrun) runTridiag() {
	p := x.p
	t := tridiagOf(p.A)
	// the matrix is symmetric: the transposed system has the same solution
	x.transSolves(t.SolveTo, t.SolveVecTo, p.B, p.Num, p.TolX, p.B, p.Num, p.TolX, p.Det)
}

func (x *xrun) runSVD() {
	p, k := x.p, x.k
	m, n := x.key.M, x.key.N
	kind := mat.SVDThin
	if x.key.Kind == 2 {
		kind = mat.SVDFull
	}
	var svd mat.SVD
	var ok bool
	if !k.call(x.sig("Factorize"), func() { ok = svd.Factorize(x.argMat(p.ANum, p.ADen), kind) }) {
		return
	}
	if !ok {
		k.failf(x.sig("Factorize")+":false", "Factorize returned false")
		return
	}
	switch x.c.Meth {
	case "SolveTo":
		x.solveDense("SolveTo", p.B, p.XNum, p.XDen, p.TolX, x.c.A1, func(d *mat.Dense, b mat.Matrix) error { svd.SolveTo(d, b, p.Rank); return nil })
		return
	case "SolveVecTo":
		x.solveVec("SolveVecTo", colOf(p.B, 0), colOf(p.XNum, 0), p.XDen, p.TolX, x.c.A1, func(d *mat.VecDense, b mat.Vector) error { svd.SolveVecTo(d, b, p.Rank); return nil })
		return
	}
	vals, ok := callSlice(x, "Values", junk, func(dst []float64) []float64 { return svd.Values(dst) })
	if !ok {
		return
	}
	r := len(p.Vals)
	if len(vals) != r {
		k.failf(x.sig("Values")+":len", "%d values, want %d", len(vals), r)
		return
	}
	for i, v := range vals {
		if !k.u.near(v, p.Vals[i], 1, p.TolA) {
			k.failf(x.sig("Values")+":value", "values %v, the planted singular values are %v", vals, p.Vals)
			return
		}
	}
	U, ok := x.callDense("UTo", func(d *mat.Dense) { svd.UTo(d) })
	if !ok {
		return
	}
	V, ok := x.callDense("VTo", func(d *mat.Dense) { svd.VTo(d) })
	if !ok {
		return
	}
	ur, uc := U.Dims()
	vr, vc := V.Dims()
	if ur != m || vr != n || uc < r || vc < r {
		k.failf(x.pfx+"shape", "U %dx%d V %dx%d", ur, uc, vr, vc)
		return
	}
	an := func(i, j int) int64 { return p.ANum[i][j] }
	k.tripleNear(x.sig("UTo")+":U*S*VT", m, n, U.At, vals, func(s, j int) float64 { return V.At(j, s) }, an, p.ADen, p.TolA)
	k.prodNear(x.sig("UTo")+":UT*U", uc, uc, m, func(i, s int) float64 { return U.At(s, i) }, U.At, identInt, 1, p.TolA)
	k.prodNear(x.sig("VTo")+":VT*V", vc, vc, n, func(i, s int) float64 { return V.At(s, i) }, V.At, identInt, 1, p.TolA)
}

func (x *xrun) runEigenSym() {
	p, k := x.p, x.k
	n := x.key.N
	var es mat.EigenSym
	var ok bool
	if !k.call(x.sig("Factorize"), func() { ok = es.Factorize(x.argSym(p.ANum, p.ADen), true) }) {
		return
	}
	if !ok {
		k.failf(x.sig("Factorize")+":false", "Factorize returned false")
		return
	}
	vals, ok := callSlice(x, "Values", junk, func(dst []float64) []float64 { return es.Values(dst) })
	if !ok {
		return
	}
	for i, v := range vals {
		if !k.u.near(v, p.Vals[i], 1, p.TolA) {
			k.failf(x.sig("Values")+":value", "values %v, the planted spectrum (ascending) is %v", vals, p.Vals)
			return
		}
	}
	V, ok := x.callDense("VectorsTo", func(d *mat.Dense) { es.VectorsTo(d) })
	if !ok {
		return
	}
	an := func(i, j int) int64 { return p.ANum[i][j] }
	k.tripleNear(x.sig("VectorsTo")+":V*diag*VT", n, n, V.At, vals, func(s, j int) float64 { return V.At(j, s) }, an, p.ADen, p.TolA)
	k.prodNear(x.sig("VectorsTo")+":VT*V", n, n, n, func(i, s int) float64 { return V.At(s, i) }, V.At, identInt, 1, p.TolA)
}

// complex rationals for the eigenvector equations
type crat struct{ re, im *big.Rat }

func cOf(z complex128) (crat, bool) {
	if !finite(real(z)) || !finite(imag(z)) {
		return crat{}, false
	}
	return crat{new(big.Rat).SetFloat64(real(z)), new(big.Rat).SetFloat64(imag(z))}, true
}
func (a crat) mul(b crat) crat {
	re := new(big.Rat).Mul(a.re, b.re)
	re.Sub(re, new(big.Rat).Mul(a.im, b.im))
	im := new(big.Rat).Mul(a.re, b.im)
	im.Add(im, new(big.Rat).Mul(a.im, b.re))
	return crat{re, im}
}
func (a crat) scale(r *big.Rat) crat {
	return crat{new(big.Rat).Mul(a.re, r), new(big.Rat).Mul(a.im, r)}
}
func (a crat) sub(b crat) crat {
	return crat{new(big.Rat).Sub(a.re, b.re), new(big.Rat).Sub(a.im, b.im)}
}
func (a crat) add(b crat) crat {
	return crat{new(big.Rat).Add(a.re, b.re), new(big.Rat).Add(a.im, b.im)}
}
func (a crat) conj() crat { return crat{a.re, new(big.Rat).Neg(a.im)} }

// eigenvectorsOK: for every column j, A v = lambda v (right) or A^T conj(v) = lambda conj(v), i.e. v^H A = lambda v^H
// (left), and |v|_2 = 1, entrywise within the tolerance.
func (x *xrun) eigenvectorsOK(sig string, V *mat.CDense, vals []complex128, left bool) {
	p, k := x.p, x.k
	n := x.key.N
	tol := new(big.Rat).Mul(big.NewRat(p.TolA, 1), k.u.unit)
	den := big.NewRat(1, p.ADen)
	for j := 0; j < n; j++ {
		lam, ok := cOf(vals[j])
		if !ok {
			k.failf(sig+":nonfinite", "eigenvalue %v", vals[j])
			return
		}
		col := make([]crat, n)
		norm := new(big.Rat)
		for i := 0; i < n; i++ {
			c, ok := cOf(V.At(i, j))
			if !ok {
				k.failf(sig+":nonfinite", "vector element (%d,%d) = %v", i, j, V.At(i, j))
				return
			}
			if left {
				c = c.conj()
			}
			col[i] = c
			norm.Add(norm, new(big.Rat).Mul(c.re, c.re))
			norm.Add(norm, new(big.Rat).Mul(c.im, c.im))
		}
		// left: v^H A = lambda v^H  <=>  A^T conj(v) = lambda conj(v) for real A (col holds conj(v))
		d := new(big.Rat).Sub(norm, big.NewRat(1, 1))
		if d.Abs(d).Cmp(tol) > 0 {
			nf, _ := norm.Float64()
			k.failf(sig+":norm", "column %d has squared Euclidean norm %v, documented: 1", j, nf)
			return
		}
		for i := 0; i < n; i++ {
			sum := crat{new(big.Rat), new(big.Rat)}
			for s := 0; s < n; s++ {
				a := p.ANum[i][s]
				if left {
					a = p.ANum[s][i]
				}
				sum = sum.add(col[s].scale(new(big.Rat).Mul(big.NewRat(a, 1), den)))
			}
			res := sum.sub(lam.mul(col[i]))
			if new(big.Rat).Abs(res.re).Cmp(tol) > 0 || new(big.Rat).Abs(res.im).Cmp(tol) > 0 {
				rf, _ := res.re.Float64()
				imf, _ := res.im.Float64()
				k.failf(sig+":equation", "(A v - lambda v)[%d] = %v%+vi for eigenvalue %v (column %d)", i, rf, imf, vals[j], j)
				return
			}
		}
	}
}

func (x *xrun) runEigen() {
	p, k := x.p, x.k
	n := x.key.N
	kind := eigKinds[x.key.Kind]
	var eg mat.Eigen
	var ok bool
	if !k.call(x.sig("Factorize"), func() { ok = eg.Factorize(x.argMat(p.ANum, p.ADen), kind) }) {
		return
	}
	if !ok {
		k.failf(x.sig("Factorize")+":false", "Factorize returned false")
		return
	}
	vals, ok := callSlice(x, "Values", cjunk, func(dst []complex128) []complex128 { return eg.Values(dst) })
	if !ok {
		return
	}
	if len(vals) != n {
		k.failf(x.sig("Values")+":len", "%d values", len(vals))
		return
	}
	// the multiset of real parts is the planted spectrum; imaginary parts vanish
	re := make([]float64, n)
	for i, z := range vals {
		re[i] = real(z)
		if !k.u.near(imag(z), 0, 1, p.TolA) {
			k.failf(x.sig("Values")+":imaginary", "eigenvalue %v of a symmetric matrix", z)
			return
		}
	}
	sortFloats(re)
	for i, v := range re {
		if !k.u.near(v, p.Vals[i], 1, p.TolA) {
			k.failf(x.sig("Values")+":value", "sorted real parts %v, the planted spectrum is %v", re, p.Vals)
			return
		}
	}
	if kind&mat.EigenRight != 0 {
		V, ok := x.callCDense("VectorsTo", func(d *mat.CDense) { eg.VectorsTo(d) })
		if !ok {
			return
		}
		x.eigenvectorsOK(x.sig("VectorsTo"), V, vals, false)
	}
	if kind&mat.EigenLeft != 0 {
		V, ok := x.callCDense("LeftVectorsTo", func(d *mat.CDense) { eg.LeftVectorsTo(d) })
		if !ok {
			return
		}
		x.eigenvectorsOK(x.sig("LeftVectorsTo"), V, vals, true)
	}
}

func sortFloats(a []float64) {
	for i := 1; i < len(a); i++ {
		for j := i; j > 0 && a[j] < a[j-1]; j-- {
			a[j], a[j-1] = a[j-1], a[j]
		}
	}
}

func (x *xrun) runHOGSVD() (undecided bool) {
	p, k := x.p, x.k
	n := x.key.N
	reps := []string{"dense", "dense"}
	if x.c.Meth == "Factorize" {
		reps = []string{x.c.A1, x.c.A2}
	}
	var h mat.HOGSVD
	var ok bool
	if !k.call(x.sig("Factorize"), func() { ok = h.Factorize(matRepOf(reps[0], p.Mats[0], 1), matRepOf(reps[1], p.Mats[1], 1)) }) {
		return false
	}
	// whatever the factorization answered, the pools it borrowed from must still serve unrelated operations
	k.runPoolProbe("matfactor:xto:HOGSVD:", p.Probe)
	if !ok {
		return true // the documentation does not say when the factorization exists: not judged
	}
	V, ok := x.callDense("VTo", func(d *mat.Dense) { h.VTo(d) })
	if !ok {
		return false
	}
	for q := 0; q < 2; q++ {
		q := q
		vals, ok := callSlice(x, fmt.Sprintf("Values%d", q), junk, func(dst []float64) []float64 { return h.Values(dst, q) })
		if !ok {
			return false
		}
		U, ok := x.callDense(fmt.Sprintf("UTo%d", q), func(d *mat.Dense) { h.UTo(d, q) })
		if !ok {
			return false
		}
		M := p.Mats[q]
		ur, uc := U.Dims()
		vr, vc := V.Dims()
		if ur != len(M) || uc != n || vr != n || vc != n || len(vals) != n {
			k.failf(x.pfx+"shape", "U_%d %dx%d V %dx%d %d values", q, ur, uc, vr, vc, len(vals))
			return false
		}
		// M_q = U_q Sigma_q V^T
		k.tripleNear(fmt.Sprintf("%sreconstruct:M%d=U*S*VT", x.pfx, q), len(M), n, U.At, vals, func(s, j int) float64 { return V.At(j, s) },
			func(i, j int) int64 { return M[i][j] }, 1, p.TolA)
	}
	return false
}

func (x *xrun) runSolve() {
	p := x.p
	switch x.c.Meth {
	case "Solve":
		a := matRepOf(x.c.A1, p.A, 1)
		x.solveDense("Solve", p.B, p.Num, p.DetG, p.TolX, x.c.A2, func(d *mat.Dense, b mat.Matrix) error { return d.Solve(a, b) })
	case "SolveVec":
		a := matRepOf(x.c.A1, p.A, 1)
		x.solveVec("SolveVec", colOf(p.B, 0), colOf(p.Num, 0), p.DetG, p.TolX, x.c.A2, func(d *mat.VecDense, b mat.Vector) error { return d.SolveVec(a, b) })
	case "Inverse":
		// the argument plays the role of b: in the alias mode the receiver is the argument itself
		x.solveDense("Inverse", p.A, p.Adj, p.Det, p.TolInv, x.c.A1, func(d *mat.Dense, a mat.Matrix) error { return d.Inverse(a) })
	}
}

func runExtractCase(typ string, key xKey, p *xPlanted, c *xCall) (k *checker, undecided bool) {
	k = &checker{u: newUnits(p.UnitExp, -20)}
	x := &xrun{k: k, typ: typ, key: key, p: p, c: c, pfx: "matfactor:xto:" + typ + ":" + callTag(c) + ":"}
	o := core.Call(func() {
		switch typ {
		case "QR":
			x.runQR()
		case "LQ":
			x.runLQ()
		case "LU":
			x.runLU()
		case "LUupd":
			x.runLUupd()
		case "Cholesky":
			x.runCholesky()
		case "PivotedCholesky":
			x.runPivoted()
		case "BandCholesky":
			x.runBand()
		case "Tridiag":
			x.runTridiag()
		case "SVD":
			x.runSVD()
		case "EigenSym":
			x.runEigenSym()
		case "Eigen":
			x.runEigen()
		case "HOGSVD":
			undecided = x.runHOGSVD()
		case "Solve":
			x.runSolve()
		default:
			panic("harness: unknown type " + typ)
		}
	})
	if o.Panicked {
		k.failf(x.pfx+"harness-panic", "%s", o.Text)
	}
	return k, undecided
}

func replayExtract(in *core.Lines, args []string, seed int64, sum *core.Summary) error {
	insts := map[string]*xLine{}
	var calls []*xLine
	ikey := func(typ string, k xKey) string { return fmt.Sprintf("%s/%d/%d/%d/%d", typ, k.M, k.N, k.Kind, k.T) }
	for {
		b, ok := in.Next()
		if !ok {
			break
		}
		l := new(xLine)
		if err := json.Unmarshal(b, l); err != nil {
			return fmt.Errorf("line %d: %v", in.N, err)
		}
		switch l.K {
		case "inst":
			insts[ikey(l.Typ, l.Key)] = l
		case "call", "x":
			calls = append(calls, l)
		}
	}
	for _, l := range calls {
		p := l.P
		if l.K == "call" {
			inst := insts[ikey(l.Typ, l.Key)]
			if inst == nil {
				return fmt.Errorf("call without instance: %s", ikey(l.Typ, l.Key))
			}
			p = inst.P
		}
		if p == nil || l.Call == nil {
			return fmt.Errorf("malformed case %s", ikey(l.Typ, l.Key))
		}
		k, undecided := runExtractCase(l.Typ, l.Key, p, l.Call)
		if undecided {
			sum.Count("not_judged_factorization_refused", 1)
			continue
		}
		sum.Cases++
		if l.Call.Mode != "empty" && l.Call.Mode != "nil" || (l.Call.A1 != "-" && l.Call.A1 != "dense" && l.Call.A1 != "vec" && l.Call.A1 != "sym") {
			sum.Nontrivial++
		}
		sum.Count("xto_type_"+l.Typ, 1)
		if l.Call.Mode != "-" {
			sum.Count("xto_dst_"+l.Call.Mode, 1)
		}
		if l.Call.A1 != "-" {
			sum.Count("xto_arg_"+l.Call.A1, 1)
		}
		seen := map[string]bool{}
		for _, f := range k.fails {
			if !seen[f[0]] {
				seen[f[0]] = true
				sum.Fail(f[0], f[1], &xLine{K: "x", Typ: l.Typ, Key: l.Key, P: p, Call: l.Call})
			}
		}
		if len(k.fails) == 0 && l.Call.Mode == "view" && l.Typ == "QR" {
			sum.Sample(&xLine{K: "x", Typ: l.Typ, Key: l.Key, Call: l.Call})
		}
	}
	return nil
}
